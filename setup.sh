#!/bin/sh
# Builds the verification framework from files on disk only (offline).
set -e
cd "$(dirname "$0")"
/venv/bin/python harness/setup_build.py

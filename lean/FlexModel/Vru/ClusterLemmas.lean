/-
Helper lemmas for Props/C18.lean: the invariant of the clustering state machine and its preservation by every
transition, for every code variant.
-/
import FlexModel.Vru.Cluster

namespace FlexModel.Vru
open Generated.VamConstants

/-- the draws handed to `tryCreate` respect the contract of `random.randint(1, 255)` -/
def Op.WF : Op → Prop
  | .tryCreate _ _ rs => ∀ c ∈ rs, 1 ≤ c ∧ c ≤ 255
  | _ => True

/-- Invariant of every reachable state (all variants). -/
structure Inv (s : St) : Prop where
  leaderCluster : s.state = .leader ↔ s.cluster.isSome = true
  clusterOk : ∀ c, s.cluster = some c → 1 ≤ c.cid ∧ c.cid ≤ 255 ∧ 1 ≤ c.card
  passiveMem : s.state = .passive → s.joined.isSome = true ∧ s.leader.isSome = true ∧ s.last.isSome = true
  otherMem : s.state ≠ .passive → s.joined = none ∧ s.leader = none ∧ s.last = none
  noErr : s.err = false
  joinTimer : (s.joinSub = .notify ∨ s.joinSub = .waiting) → s.joinStarted.isSome = true
  joinLeaveTimer : (s.joinSub = .cancelled ∨ s.joinSub = .failed) → s.joinLeaveStarted.isSome = true
  leaveTimer : s.leaveNotify = true → s.leaveStarted.isSome = true
  leaveBeforeJoin : s.joinSub = .notify → s.leaveNotify = true →
    ∀ a b, s.leaveStarted = some a → s.joinStarted = some b → a ≤ b
  waitingNoLeave : s.joinSub = .waiting → s.leaveNotify = false
  passiveNoLeave : s.state = .passive → s.leaveNotify = false
  joinedPassive : s.joinSub = .joined → s.state = .passive
  leaveLeNow : s.leaveNotify = true → ∀ a, s.leaveStarted = some a → a ≤ s.now

theorem inv_init (now p : Nat) : Inv (St.init now p) := by
  constructor <;> simp [St.init]

theorem inv_tick {s : St} (h : Inv s) (d : Nat) : Inv { s with now := s.now + d } := by
  obtain ⟨h1, h2, h3, h4, h5, h6, h7, h8, h9, h10, h11, h12, h13⟩ := h
  constructor <;> simp_all
  intro hl a ha; have := h13 hl a ha; omega

theorem inv_roleOn {s : St} (h : Inv s) : Inv (roleOn s) := by
  obtain ⟨h1, h2, h3, h4, h5, h6, h7, h8, h9, h10, h11, h12, h13⟩ := h
  unfold roleOn
  split
  · rename_i hs
    have hc : s.cluster = none := by
      cases hcl : s.cluster with
      | none => rfl
      | some c => have := h1.mpr (by simp [hcl]); simp_all
    constructor <;> simp_all
  · constructor <;> assumption

theorem inv_roleOff {s : St} (h : Inv s) : Inv (roleOff s) := by
  obtain ⟨h1, h2, h3, h4, h5, h6, h7, h8, h9, h10, h11, h12, h13⟩ := h
  constructor <;> simp_all [roleOff]

theorem pickId_range {recent : List (Nat × Nat)} {rs : List Nat} {c : Nat}
    (hrs : ∀ c ∈ rs, 1 ≤ c ∧ c ≤ 255) (h : pickId recent rs = some c) : 1 ≤ c ∧ c ≤ 255 := by
  unfold pickId at h
  have hm := List.mem_of_find?_eq_some h
  exact hrs c (List.mem_of_mem_take hm)

theorem minClusterSize_pos : 1 ≤ minClusterSize := by decide

theorem inv_tryCreate {var : Variant} {s : St} (h : Inv s) (x y : Int) (rs : List Nat)
    (hrs : ∀ c ∈ rs, 1 ≤ c ∧ c ≤ 255) : Inv (tryCreate var s x y rs).1 := by
  obtain ⟨h1, h2, h3, h4, h5, h6, h7, h8, h9, h10, h11, h12, h13⟩ := h
  unfold tryCreate
  split
  · constructor <;> assumption
  split
  · constructor <;> assumption
  split
  · constructor <;> assumption
  rename_i hst _ _
  have hst : s.state = .standalone := by simpa using hst
  dsimp only
  split
  · constructor <;> simp_all
  · rename_i cid hp
    have hr := pickId_range hrs hp
    have hm := minClusterSize_pos
    constructor <;> simp_all

theorem inv_initiateJoin {s : St} (h : Inv s) (cid : Nat) : Inv (initiateJoin s cid).1 := by
  obtain ⟨h1, h2, h3, h4, h5, h6, h7, h8, h9, h10, h11, h12, h13⟩ := h
  unfold initiateJoin
  split
  · constructor <;> assumption
  split
  · constructor <;> assumption
  rename_i hst hj
  have hst : s.state = .standalone := by simpa using hst
  have hj : s.joinSub = .none := by simpa using hj
  constructor <;> simp_all

theorem inv_cancelJoin {s : St} (h : Inv s) : Inv (cancelJoin s) := by
  obtain ⟨h1, h2, h3, h4, h5, h6, h7, h8, h9, h10, h11, h12, h13⟩ := h
  unfold cancelJoin
  split
  · constructor <;> simp_all
    all_goals (rename_i hj; rcases hj with hj | hj <;> simp_all)
  · constructor <;> assumption

theorem inv_confirmJoinFailed {s : St} (h : Inv s) : Inv (confirmJoinFailed s) := by
  obtain ⟨h1, h2, h3, h4, h5, h6, h7, h8, h9, h10, h11, h12, h13⟩ := h
  unfold confirmJoinFailed
  split
  · constructor <;> simp_all
  · constructor <;> assumption

theorem inv_doLeave {s : St} (h : Inv s) (hp : s.state = .passive) (r : Nat) : Inv (doLeave s r) := by
  obtain ⟨h1, h2, h3, h4, h5, h6, h7, h8, h9, h10, h11, h12, h13⟩ := h
  have hc : s.cluster = none := by
    cases hcl : s.cluster with
    | none => rfl
    | some c => have := h1.mpr (by simp [hcl]); simp_all
  constructor <;> simp_all [doLeave]

theorem inv_leave {s : St} (h : Inv s) (r : Nat) : Inv (leave s r) := by
  unfold leave
  split
  · rename_i hp; exact inv_doLeave h hp r
  split
  · exact inv_cancelJoin h
  · exact h

theorem inv_breakup {s : St} (h : Inv s) (r : Nat) : Inv (breakup s r).1 := by
  obtain ⟨h1, h2, h3, h4, h5, h6, h7, h8, h9, h10, h11, h12, h13⟩ := h
  unfold breakup
  split
  · constructor <;> assumption
  split
  · constructor <;> assumption
  rename_i c hc
  split
  · constructor <;> assumption
  · have := h2 c hc
    constructor <;> simp_all

/-! ### update -/

theorem inv_expire {s : St} (h : Inv s) : Inv (expire s) := by
  obtain ⟨h1, h2, h3, h4, h5, h6, h7, h8, h9, h10, h11, h12, h13⟩ := h
  constructor <;> simp_all [expire]

theorem inv_updLeaveNotify {s : St} (h : Inv s) : Inv (updLeaveNotify s) := by
  obtain ⟨h1, h2, h3, h4, h5, h6, h7, h8, h9, h10, h11, h12, h13⟩ := h
  unfold updLeaveNotify
  split
  · split
    · split
      · constructor <;> simp_all [clearLeave]
      · constructor <;> assumption
    · simp_all
  · constructor <;> assumption

theorem leave_le_join : timeClusterLeaveNotification ≤ timeClusterJoinNotification := by decide

/-- the two halves of `_update_standalone` together (the leave part needs to know what the join part did) -/
theorem inv_updStandalone {var : Variant} {s : St} (h : Inv s) (hs : s.state = .standalone) : Inv (updStandalone var s) := by
  obtain ⟨h1, h2, h3, h4, h5, h6, h7, h8, h9, h10, h11, h12, h13⟩ := h
  have hlj := leave_le_join
  unfold updStandalone updJoin
  split
  · -- notify
    rename_i hj
    cases hjs : s.joinStarted with
    | none => simp_all
    | some t =>
      simp only []
      split
      · -- notification over: → waiting; a running leave notification is over as well
        rename_i hge
        unfold updLeaveNotify
        simp only []
        cases hl : s.leaveNotify with
        | false => simp only [Bool.false_eq_true, if_false]; constructor <;> simp_all
        | true =>
          simp only [if_true]
          cases hls : s.leaveStarted with
          | none => simp_all
          | some a =>
            have hab := h9 hj hl a t hls hjs
            have : s.now - a ≥ timeClusterLeaveNotification := by omega
            simp only [this, if_true]
            constructor <;> simp_all [clearLeave]
      · exact inv_updLeaveNotify ⟨h1, h2, h3, h4, h5, h6, h7, h8, h9, h10, h11, h12, h13⟩
  · -- waiting
    rename_i hj
    cases hjs : s.joinStarted with
    | none => simp_all
    | some t =>
      simp only []
      split
      · exact inv_updLeaveNotify (inv_confirmJoinFailed ⟨h1, h2, h3, h4, h5, h6, h7, h8, h9, h10, h11, h12, h13⟩)
      · exact inv_updLeaveNotify ⟨h1, h2, h3, h4, h5, h6, h7, h8, h9, h10, h11, h12, h13⟩
  · -- cancelled
    rename_i hj
    cases hjs : s.joinLeaveStarted with
    | none => simp_all
    | some t =>
      simp only []
      split
      · apply inv_updLeaveNotify
        constructor <;> simp_all
      split
      · apply inv_updLeaveNotify
        constructor <;> simp_all
      · exact inv_updLeaveNotify ⟨h1, h2, h3, h4, h5, h6, h7, h8, h9, h10, h11, h12, h13⟩
  · -- failed
    rename_i hj
    cases hjs : s.joinLeaveStarted with
    | none => simp_all
    | some t =>
      simp only []
      split
      · apply inv_updLeaveNotify
        constructor <;> simp_all
      split
      · apply inv_updLeaveNotify
        constructor <;> simp_all
      · exact inv_updLeaveNotify ⟨h1, h2, h3, h4, h5, h6, h7, h8, h9, h10, h11, h12, h13⟩
  · exact inv_updLeaveNotify ⟨h1, h2, h3, h4, h5, h6, h7, h8, h9, h10, h11, h12, h13⟩

theorem inv_updLeader {s : St} (h : Inv s) (_hs : s.state = .leader) : Inv (updLeader s) := by
  obtain ⟨h1, h2, h3, h4, h5, h6, h7, h8, h9, h10, h11, h12, h13⟩ := h
  unfold updLeader
  split
  · constructor <;> assumption
  · split
    · split
      · constructor <;> simp_all
      · constructor <;> assumption
    · constructor <;> assumption

theorem inv_updPassive {s : St} (h : Inv s) (hs : s.state = .passive) : Inv (updPassive s) := by
  unfold updPassive
  split
  · split
    · exact inv_doLeave h hs _
    · exact inv_updLeaveNotify h
  · exact inv_updLeaveNotify h

theorem inv_update {var : Variant} {s : St} (h : Inv s) : Inv (update var s) := by
  have he := inv_expire h
  unfold update
  simp only []
  split
  · rename_i hs; exact inv_updStandalone he hs
  · rename_i hs; exact inv_updLeader he hs
  · rename_i hs; exact inv_updPassive he hs
  · exact he

/-! ### received VAM -/

theorem inv_tables {s : St} (h : Inv s) (v : List NearbyVru) (c : List NearbyCluster) (sn : List (Nat × Nat)) :
    Inv { s with vrus := v, clusters := c, seen := sn } := by
  obtain ⟨h1, h2, h3, h4, h5, h6, h7, h8, h9, h10, h11, h12, h13⟩ := h
  constructor <;> simp_all

theorem inv_completeJoin {s : St} (h : Inv s) (hs : s.state = .standalone) (hw : s.joinSub = .waiting)
    (ht : s.joinTarget.isSome = true) (ldr : Nat) : Inv (completeJoin s ldr) := by
  obtain ⟨h1, h2, h3, h4, h5, h6, h7, h8, h9, h10, h11, h12, h13⟩ := h
  have hc : s.cluster = none := by
    cases hcl : s.cluster with
    | none => rfl
    | some c => have := h1.mpr (by simp [hcl]); simp_all
  constructor <;> simp_all [completeJoin]

theorem inv_recvInfo {s : St} (h : Inv s) (sender : Nat) (i : Info) : Inv (recvInfo s sender i) := by
  unfold recvInfo
  simp only []
  split
  · rename_i hc
    apply inv_completeJoin
    · exact inv_tables h _ _ _
    · exact hc.1
    · exact hc.2.1
    · have := hc.2.2; simp_all
  · exact inv_tables h _ _ _

theorem setCard_ok (c : OwnCluster) (p : List Nat) (h : 1 ≤ c.cid ∧ c.cid ≤ 255 ∧ 1 ≤ c.card) :
    1 ≤ (setCard c p).cid ∧ (setCard c p).cid ≤ 255 ∧ 1 ≤ (setCard c p).card := by
  have := minClusterSize_pos
  simp only [setCard]
  omega

theorem leaderTrack_ok (c : OwnCluster) (sender : Nat) (o : OpC) (h : 1 ≤ c.cid ∧ c.cid ≤ 255 ∧ 1 ≤ c.card) :
    1 ≤ (leaderTrack c sender o).cid ∧ (leaderTrack c sender o).cid ≤ 255 ∧ 1 ≤ (leaderTrack c sender o).card := by
  have h1 : 1 ≤ (trackJoin c sender o).cid ∧ (trackJoin c sender o).cid ≤ 255 ∧ 1 ≤ (trackJoin c sender o).card := by
    unfold trackJoin; split
    · exact setCard_ok c _ h
    · exact h
  unfold leaderTrack trackLeave
  split
  · exact setCard_ok _ _ h1
  · exact h1

theorem inv_recvTrack {s : St} (h : Inv s) (sender : Nat) (o : OpC) : Inv (recvTrack s sender o) := by
  unfold recvTrack
  split
  · rename_i c hst hc
    obtain ⟨h1, h2, h3, h4, h5, h6, h7, h8, h9, h10, h11, h12, h13⟩ := h
    have := leaderTrack_ok c sender o (h2 c hc)
    constructor <;> simp_all
  · exact h

theorem inv_recvBreakup {var : Variant} {s : St} (h : Inv s) (sender r : Nat) : Inv (recvBreakup var s sender r) := by
  unfold recvBreakup
  split
  · rename_i hp
    split
    · exact h
    · exact inv_doLeave h hp.1 _
  · exact h

theorem inv_recvOp {var : Variant} {s : St} (h : Inv s) (sender : Nat) (o : OpC) : Inv (recvOp var s sender o) := by
  unfold recvOp
  simp only []
  split
  · exact inv_recvBreakup (inv_recvTrack h _ _) _ _
  · exact inv_recvTrack h _ _

theorem inv_recvHb {var : Variant} {s : St} (h : Inv s) (v : Vam) : Inv (recvHb var s v) := by
  unfold recvHb
  split
  · rename_i hb
    have hp : s.state = .passive := by
      simp only [isHeartbeat, Bool.and_eq_true, decide_eq_true_eq] at hb
      exact hb.1.1
    obtain ⟨h1, h2, h3, h4, h5, h6, h7, h8, h9, h10, h11, h12, h13⟩ := h
    constructor <;> simp_all
  · exact h

theorem inv_recv {var : Variant} {s : St} (h : Inv s) (v : Vam) : Inv (recv var s v) := by
  unfold recv
  have h0 : Inv (recvVrus s v) := inv_tables h _ _ _
  simp only []
  split
  · exact h0
  · apply inv_recvHb
    unfold recvOpOpt
    split
    · apply inv_recvOp
      unfold recvInfoOpt
      split
      · exact inv_recvInfo h0 _ _
      · exact h0
    · unfold recvInfoOpt
      split
      · exact inv_recvInfo h0 _ _
      · exact h0


/-! ### where membership and the leader-lost timer can come from -/

theorem recvInfoOpt_passive {s : St} (v : Vam) (hp : s.state = .passive) :
    (recvInfoOpt s v).state = .passive ∧ (recvInfoOpt s v).leader = s.leader ∧ (recvInfoOpt s v).joined = s.joined ∧
    (recvInfoOpt s v).last = s.last ∧ (recvInfoOpt s v).leaveNotify = s.leaveNotify ∧ (recvInfoOpt s v).now = s.now := by
  unfold recvInfoOpt
  split
  · simp [recvInfo, hp]
  · simp [hp]

theorem recvTrack_passive {s : St} (sender : Nat) (o : OpC) (hp : s.state = .passive) : recvTrack s sender o = s := by
  unfold recvTrack
  split
  · simp_all
  · rfl

/-- the operation-container part of a VAM either leaves a passive station as it is or releases it -/
theorem recvOpOpt_passive {var : Variant} {s : St} (v : Vam) (hp : s.state = .passive) :
    recvOpOpt var s v = s ∨ (recvOpOpt var s v).state = .standalone := by
  unfold recvOpOpt
  split
  · unfold recvOp
    simp only [recvTrack_passive _ _ hp]
    split
    · unfold recvBreakup
      split
      · split
        · exact Or.inl rfl
        · exact Or.inr (by simp [doLeave])
      · exact Or.inl rfl
    · exact Or.inl rfl
  · exact Or.inl rfl

theorem recvTrack_state (s : St) (sender : Nat) (o : OpC) : (recvTrack s sender o).state = s.state := by
  unfold recvTrack; split <;> rfl

theorem recvOpOpt_state {var : Variant} {s : St} (v : Vam) (hp : s.state ≠ .passive) :
    (recvOpOpt var s v).state = s.state := by
  unfold recvOpOpt
  split
  · rename_i o _
    unfold recvOp
    simp only []
    split
    · unfold recvBreakup
      rw [if_neg]
      · exact recvTrack_state s v.sender o
      · rw [recvTrack_state]; exact fun h => hp h.1
    · exact recvTrack_state s v.sender o
  · rfl

theorem recvHb_fields (var : Variant) (s : St) (v : Vam) :
    (recvHb var s v).state = s.state ∧ (recvHb var s v).leader = s.leader ∧ (recvHb var s v).joined = s.joined ∧
    (recvHb var s v).now = s.now ∧ (recvHb var s v).leaveNotify = s.leaveNotify := by
  unfold recvHb; split <;> simp

theorem recvHb_last (var : Variant) (s : St) (v : Vam) :
    (recvHb var s v).last = if isHeartbeat var s v then some s.now else s.last := by
  unfold recvHb; split <;> simp

/-- what a cluster VAM of cluster `c` from station `l` heard at time `t` looks like in the state -/
def Heard (op : Op) (s' : St) : Prop :=
  ∃ v i, op = .recv v ∧ v.info = some i ∧ s'.leader = some v.sender ∧ s'.joined = some (i.cid.getD 0) ∧
    s'.last = some s'.now

theorem recvInfoOpt_joins {s : St} (v : Vam) (hp : s.state ≠ .passive)
    (hp' : (recvInfoOpt s v).state = .passive) :
    ∃ i, v.info = some i ∧ (recvInfoOpt s v).leader = some v.sender ∧ (recvInfoOpt s v).joined = some (i.cid.getD 0) ∧
      (recvInfoOpt s v).last = some s.now ∧ (recvInfoOpt s v).now = s.now := by
  cases hi : v.info with
  | none =>
    simp only [recvInfoOpt, hi] at hp'
    exact absurd hp' hp
  | some i =>
    refine ⟨i, rfl, ?_⟩
    simp only [recvInfoOpt, hi] at hp' ⊢
    unfold recvInfo at hp' ⊢
    simp only [] at hp' ⊢
    split
    · rename_i hc
      simp [completeJoin, hc.2.2]
    · rename_i hc
      simp only [hc, if_false] at hp'
      exact absurd hp' hp

theorem recv_of_aborted {var : Variant} {s : St} {v : Vam} (h : recvAborted var v = true) :
    recv var s v = recvVrus s v := by
  unfold recv; simp only [h, if_true]

theorem recv_of_not_aborted {var : Variant} {s : St} {v : Vam} (h : recvAborted var v = false) :
    recv var s v = recvHb var (recvOpOpt var (recvInfoOpt (recvVrus s v) v) v) v := by
  unfold recv; simp only [h, Bool.false_eq_true, if_false]

theorem recv_passive_origin {var : Variant} (hv : var.hbAny = false) {s : St} (v : Vam)
    (hp' : (recv var s v).state = .passive) :
    (s.state = .passive ∧ (recv var s v).leader = s.leader ∧ (recv var s v).joined = s.joined ∧
      (recv var s v).last = s.last) ∨ Heard (.recv v) (recv var s v) := by
  by_cases hab : recvAborted var v = true
  · rw [recv_of_aborted hab] at hp' ⊢
    left
    exact ⟨hp', rfl, rfl, rfl⟩
  have hab : recvAborted var v = false := by simpa using hab
  rw [recv_of_not_aborted hab] at hp' ⊢
  have hs0 : (recvVrus s v).state = s.state := rfl
  have hl0 : (recvVrus s v).leader = s.leader := rfl
  have hj0 : (recvVrus s v).joined = s.joined := rfl
  have ht0 : (recvVrus s v).last = s.last := rfl
  have hn0 : (recvVrus s v).now = s.now := rfl
  generalize recvVrus s v = s0 at *
  obtain ⟨f1, f2, f3, f4, _⟩ := recvHb_fields var (recvOpOpt var (recvInfoOpt s0 v) v) v
  have f5 := recvHb_last var (recvOpOpt var (recvInfoOpt s0 v) v) v
  rw [f1] at hp'
  by_cases hp : s0.state = .passive
  · -- already a member
    obtain ⟨h1, h2, h3, h4, _, h6⟩ := recvInfoOpt_passive (s := s0) v hp
    generalize recvInfoOpt s0 v = s1 at *
    rcases recvOpOpt_passive (var := var) v h1 with h | h
    · rw [h] at hp' f1 f2 f3 f4 f5
      by_cases hb : isHeartbeat var s1 v = true
      · right
        simp only [hb, if_true] at f5
        simp only [isHeartbeat, hv, Bool.false_or, Bool.and_eq_true, decide_eq_true_eq, beq_iff_eq] at hb
        obtain ⟨⟨_, hl⟩, hj⟩ := hb
        split at hj
        · rename_i i hi
          refine ⟨v, i, rfl, hi, ?_, ?_, ?_⟩
          · rw [h, f2]; exact hl
          · rw [h, f3]; simpa using hj
          · rw [h, f5, f4]
        · exact absurd hj (by decide)
      · left
        have hb : isHeartbeat var s1 v = false := by simpa using hb
        simp only [hb, Bool.false_eq_true, if_false] at f5
        rw [h]
        exact ⟨hs0 ▸ hp, by rw [f2, h2, hl0], by rw [f3, h3, hj0], by rw [f5, h4, ht0]⟩
    · exfalso
      rw [h] at hp'
      exact absurd hp' (by decide)
  · -- not a member before: only `_complete_join` makes it one
    right
    by_cases hq : (recvInfoOpt s0 v).state = .passive
    · obtain ⟨i, hi, hl, hj, hla, hn⟩ := recvInfoOpt_joins (s := s0) v hp hq
      generalize recvInfoOpt s0 v = s1 at *
      rcases recvOpOpt_passive (var := var) v hq with h | h
      · rw [h] at f1 f2 f3 f4 f5
        rw [h]
        refine ⟨v, i, rfl, hi, by rw [f2, hl], by rw [f3, hj], ?_⟩
        rw [f5, f4]
        split
        · rfl
        · rw [hla, hn]
      · exfalso
        rw [h] at hp'
        exact absurd hp' (by decide)
    · exfalso
      rw [recvOpOpt_state v hq] at hp'
      exact hq hp'


theorem update_state_of_standalone {var : Variant} {s : St} (h : s.state = .standalone) : (update var s).state = .standalone := by
  unfold update
  have : (expire s).state = .standalone := by simp [expire, h]
  simp only [this]
  unfold updStandalone updLeaveNotify updJoin confirmJoinFailed clearLeave
  repeat' split
  all_goals simp_all [expire]

theorem update_not_passive {var : Variant} {s : St} (h : s.state ≠ .passive) : (update var s).state ≠ .passive := by
  unfold update
  have he : (expire s).state = s.state := by simp [expire]
  cases hs : s.state with
  | passive => exact absurd hs h
  | standalone =>
    have := update_state_of_standalone (var := var) hs
    unfold update at this
    simp_all
  | idle => simp_all
  | leader =>
    simp only [he, hs]
    unfold updLeader
    repeat' split
    all_goals simp_all [expire]

theorem leader_lost_update {var : Variant} {s : St} {t : Nat} (hp : s.state = .passive) (hl : s.last = some t)
    (hs : s.now - t ≥ timeClusterContinuity) :
    (update var s).state = .standalone ∧ shouldTransmit (update var s) = true := by
  unfold update
  have he : (expire s).state = .passive := by simp [expire, hp]
  simp only [he]
  unfold updPassive
  have : (expire s).last = some t := by simp [expire, hl]
  simp only [this]
  have : (expire s).now - t ≥ timeClusterContinuity := by simpa [expire] using hs
  simp only [this, if_true]
  simp [doLeave, shouldTransmit]

theorem updLeaveNotify_fields (s : St) :
    (updLeaveNotify s).state = s.state ∧ (updLeaveNotify s).leader = s.leader ∧
    (updLeaveNotify s).joined = s.joined ∧ (updLeaveNotify s).last = s.last ∧ (updLeaveNotify s).now = s.now := by
  unfold updLeaveNotify clearLeave
  repeat' split
  all_goals simp

theorem update_passive_origin {var : Variant} {s : St} (hp' : (update var s).state = .passive) :
    s.state = .passive ∧ (update var s).leader = s.leader ∧ (update var s).joined = s.joined ∧
      (update var s).last = s.last := by
  by_cases hp : s.state = .passive
  · refine ⟨hp, ?_⟩
    unfold update at hp' ⊢
    have he : (expire s).state = .passive := by simp [expire, hp]
    simp only [he] at hp' ⊢
    unfold updPassive at hp' ⊢
    obtain ⟨g1, g2, g3, g4, _⟩ := updLeaveNotify_fields (expire s)
    split
    · rename_i t ht
      split
      · rename_i hge
        simp only [ht, hge, if_true] at hp'
        simp [doLeave] at hp'
      · rw [g2, g3, g4]; simp [expire]
    · rw [g2, g3, g4]; simp [expire]
  · exact absurd hp' (update_not_passive hp)


theorem recv_breakup_frees {var : Variant} {s : St} {v : Vam} {o : OpC} {r : Nat}
    (hab : recvAborted var v = false) (hp : s.state = .passive) (hl : s.leader = some v.sender)
    (ho : v.op = some o) (hb : o.breakup = some r) (hr : r ≠ breakupCpm ∨ var.cpmFrees = true) :
    (recv var s v).state = .standalone ∧ shouldTransmit (recv var s v) = true := by
  have h0 : (recvVrus s v).state = .passive := by simp [recvVrus, hp]
  have h0l : (recvVrus s v).leader = some v.sender := by simp [recvVrus, hl]
  obtain ⟨h1, h2, _, _, _, _⟩ := recvInfoOpt_passive (s := recvVrus s v) v h0
  rw [h0l] at h2
  unfold recv
  simp only [hab]
  generalize recvInfoOpt (recvVrus s v) v = s1 at h1 h2 ⊢
  have h3 : recvOpOpt var s1 v = doLeave s1 leaveDisbandedByLeader := by
    unfold recvOpOpt
    simp only [ho]
    unfold recvOp
    simp only [recvTrack_passive _ _ h1, hb]
    unfold recvBreakup
    have : ¬ (r = breakupCpm ∧ var.cpmFrees = false) := by
      rcases hr with hr | hr
      · exact fun h => hr h.1
      · intro h; rw [hr] at h; exact absurd h.2 (by decide)
    simp [h1, h2, this]
  simp only [Bool.false_eq_true, if_false, h3]
  unfold recvHb
  have : isHeartbeat var (doLeave s1 leaveDisbandedByLeader) v = false := by simp [isHeartbeat, doLeave]
  simp only [this, Bool.false_eq_true, if_false]
  simp [doLeave, shouldTransmit]


theorem step_passive_origin {var : Variant} (hv : var.hbAny = false) {s : St} (op : Op)
    (hp' : (step var s op).1.state = .passive) :
    (s.state = .passive ∧ (step var s op).1.leader = s.leader ∧ (step var s op).1.joined = s.joined ∧
      (step var s op).1.last = s.last) ∨ Heard op (step var s op).1 := by
  cases op with
  | recv v => exact recv_passive_origin hv v hp'
  | update => exact Or.inl (update_passive_origin hp')
  | tick d => exact Or.inl ⟨hp', rfl, rfl, rfl⟩
  | roleOn =>
    left
    simp only [step, roleOn] at hp' ⊢
    split at hp' <;> simp_all
  | roleOff => simp [step, roleOff] at hp'
  | tryCreate x y rs =>
    left
    simp only [step, tryCreate] at hp' ⊢
    repeat' split at hp'
    all_goals simp_all
  | initiateJoin c =>
    left
    simp only [step, initiateJoin] at hp' ⊢
    repeat' split at hp'
    all_goals simp_all
  | cancelJoin =>
    left
    simp only [step, cancelJoin] at hp' ⊢
    split at hp' <;> simp_all
  | confirmJoinFailed =>
    left
    simp only [step, confirmJoinFailed] at hp' ⊢
    split at hp' <;> simp_all
  | leave r =>
    left
    simp only [step, leave, cancelJoin, doLeave] at hp' ⊢
    repeat' split at hp'
    all_goals simp_all
  | breakup r =>
    left
    simp only [step, breakup] at hp' ⊢
    repeat' split at hp'
    all_goals simp_all

/-! ### the clock only moves by `tick` -/

theorem update_now (var : Variant) (s : St) : (update var s).now = s.now := by
  unfold update updStandalone updLeader updPassive updLeaveNotify updJoin confirmJoinFailed clearLeave doLeave
  simp only []
  repeat' split
  all_goals simp [expire]

theorem recvInfoOpt_now (s : St) (v : Vam) : (recvInfoOpt s v).now = s.now := by
  unfold recvInfoOpt recvInfo completeJoin
  split
  · simp only []; split <;> rfl
  · rfl

theorem recvOpOpt_now (var : Variant) (s : St) (v : Vam) : (recvOpOpt var s v).now = s.now := by
  have h1 : ∀ o, (recvTrack s v.sender o).now = s.now := by
    intro o; unfold recvTrack; split <;> rfl
  unfold recvOpOpt recvOp
  split
  · simp only []
    split
    · unfold recvBreakup doLeave
      split
      · split
        · exact h1 _
        · simp [h1]
      · exact h1 _
    · exact h1 _
  · rfl

theorem recv_now (var : Variant) (s : St) (v : Vam) : (recv var s v).now = s.now := by
  by_cases hab : recvAborted var v = true
  · rw [recv_of_aborted hab]; rfl
  · rw [recv_of_not_aborted (by simpa using hab), (recvHb_fields _ _ _).2.2.2.1, recvOpOpt_now, recvInfoOpt_now]; rfl

theorem step_now (var : Variant) (s : St) (op : Op) :
    (step var s op).1.now = s.now + (match op with | .tick d => d | _ => 0) := by
  cases op with
  | tick d => rfl
  | update => simp [step, update_now]
  | recv v => simp [step, recv_now]
  | roleOn => simp only [step, roleOn]; split <;> simp
  | roleOff => simp [step, roleOff]
  | tryCreate x y rs =>
    simp only [step, tryCreate]
    split
    · simp
    split
    · simp
    split
    · simp
    split <;> simp
  | initiateJoin c =>
    simp only [step, initiateJoin]
    split
    · simp
    split <;> simp
  | cancelJoin => simp only [step, cancelJoin]; split <;> simp
  | confirmJoinFailed => simp only [step, confirmJoinFailed]; split <;> simp
  | leave r =>
    simp only [step, leave, cancelJoin, doLeave]
    split
    · simp
    split
    · split <;> simp
    · simp
  | breakup r =>
    simp only [step, breakup]
    split
    · simp
    split
    · simp
    split <;> simp

theorem run_now_mono (var : Variant) (ops : List Op) : ∀ s : St, s.now ≤ (run var s ops).now := by
  induction ops with
  | nil => intro s; exact Nat.le_refl _
  | cons op rest ih =>
    intro s
    simp only [run, List.foldl_cons]
    have h1 := step_now var s op
    have h2 := ih (step var s op).1
    simp only [run] at h2
    omega

theorem update_keeps_notify {var : Variant} {s : St} {t0 : Nat} (hs : s.state = .standalone) (hj : s.joinSub = .notify)
    (ht : s.joinStarted = some t0) (hlt : s.now - t0 < timeClusterJoinNotification) :
    (update var s).state = .standalone ∧ (update var s).joinSub = .notify ∧ (update var s).joinStarted = some t0 ∧
    (update var s).joinTarget = s.joinTarget := by
  have hn : ¬ s.now - t0 ≥ timeClusterJoinNotification := by omega
  have e : update var s = updLeaveNotify (expire s) := by
    simp [update, expire, hs, updStandalone, updJoin, hj, ht, hn]
  rw [e]
  refine ⟨by rw [(updLeaveNotify_fields _).1]; simp [expire, hs], ?_⟩
  unfold updLeaveNotify clearLeave
  repeat' split
  all_goals simp [expire, hj, ht]

/-! ### operation container -/

theorem orNone_some {o o' : OpOut} (h : o.orNone = some o') : o' = o := by
  unfold OpOut.orNone at h
  split at h <;> simp_all

theorem orNone_of_join {o : OpOut} {x : Nat × Nat} (h : o.join = some x) : o.orNone = some o := by
  simp [OpOut.orNone, h]

theorem orNone_of_leave {o : OpOut} {x : Nat × Nat} (h : o.leave = some x) : o.orNone = some o := by
  simp [OpOut.orNone, h]

theorem standaloneOp_join_none {var : Variant} {s : St} (h : s.joinSub ≠ .notify) : (standaloneOp var s).join = none := by
  unfold standaloneOp
  split
  · contradiction
  · split
    · rfl
    · split <;> rfl

theorem inv_step {var : Variant} {s : St} (h : Inv s) (op : Op) (hw : op.WF) : Inv (step var s op).1 := by
  cases op with
  | tick d => exact inv_tick h d
  | roleOn => exact inv_roleOn h
  | roleOff => exact inv_roleOff h
  | tryCreate x y rs => exact inv_tryCreate h x y rs hw
  | initiateJoin cid => exact inv_initiateJoin h cid
  | cancelJoin => exact inv_cancelJoin h
  | confirmJoinFailed => exact inv_confirmJoinFailed h
  | leave r => exact inv_leave h r
  | breakup r => exact inv_breakup h r
  | update => exact inv_update h
  | recv v => exact inv_recv h v

theorem inv_run {var : Variant} {s : St} (h : Inv s) (ops : List Op) (hw : ∀ op ∈ ops, op.WF) : Inv (run var s ops) := by
  induction ops generalizing s with
  | nil => exact h
  | cons op rest ih =>
    simp only [run, List.foldl_cons]
    exact ih (inv_step h op (hw op (by simp))) (fun o ho => hw o (by simp [ho]))

/-! ### Round 3: silence of the joined cluster only; origin of the leader-lost timer over histories -/

/-- the event is NOT a cluster VAM of cluster `c` sent by station `l` (everything else is allowed: cluster VAMs of
other clusters, of cluster `c` from another station, individual VAMs of `l`, commands, updates, clock steps) -/
def QuietFor (l c : Nat) : Op → Prop
  | .recv v => ¬ (v.sender = l ∧ ∃ i, v.info = some i ∧ i.cid.getD 0 = c)
  | _ => True

theorem step_quiet_for {var : Variant} (hv : var.hbAny = false) {s : St} {op : Op} {l c : Nat} (hq : QuietFor l c op)
    (hp' : (step var s op).1.state = .passive) (hl' : (step var s op).1.leader = some l)
    (hj' : (step var s op).1.joined = some c) :
    s.state = .passive ∧ s.leader = some l ∧ s.joined = some c ∧ (step var s op).1.last = s.last := by
  rcases step_passive_origin hv op hp' with h | ⟨v, i, rfl, hi, hl, hj, _⟩
  · exact ⟨h.1, h.2.1 ▸ hl', h.2.2.1 ▸ hj', h.2.2.2⟩
  · exfalso
    rw [hl'] at hl; rw [hj'] at hj
    simp only [Option.some.injEq] at hl hj
    exact hq ⟨hl.symm, i, hi, hj.symm⟩

theorem run_quiet_for {var : Variant} (hv : var.hbAny = false) {l c : Nat} (ops : List Op) :
    ∀ s : St, (∀ op ∈ ops, QuietFor l c op) → (run var s ops).state = .passive →
      (run var s ops).leader = some l → (run var s ops).joined = some c →
      s.state = .passive ∧ s.leader = some l ∧ s.joined = some c ∧ (run var s ops).last = s.last := by
  induction ops with
  | nil => intro s _ h hl hj; exact ⟨h, hl, hj, rfl⟩
  | cons op rest ih =>
    intro s hq hp' hl' hj'
    simp only [run, List.foldl_cons] at hp' hl' hj' ⊢
    obtain ⟨h1, h2, h3, h4⟩ := ih (step var s op).1 (fun o ho => hq o (by simp [ho])) hp' hl' hj'
    obtain ⟨g1, g2, g3, g4⟩ := step_quiet_for hv (hq op (by simp)) h1 h2 h3
    exact ⟨g1, g2, g3, by rw [← g4]; exact h4⟩

/-- WHERE THE TIMER VALUE COMES FROM, over a whole history: if after `ops` the station is a passive member of cluster
`c` led by `l` with leader-lost timer `t`, then either it was that already before `ops` (same timer), or `ops`
contains a cluster VAM of `c` sent by `l`, received when the clock showed exactly `t`. -/
theorem run_heard_origin {var : Variant} (hv : var.hbAny = false) (ops : List Op) :
    ∀ (s : St) (l c t : Nat), (run var s ops).state = .passive → (run var s ops).leader = some l →
      (run var s ops).joined = some c → (run var s ops).last = some t →
      (s.state = .passive ∧ s.leader = some l ∧ s.joined = some c ∧ s.last = some t) ∨
      ∃ pre v i post, ops = pre ++ .recv v :: post ∧ v.sender = l ∧ v.info = some i ∧ i.cid.getD 0 = c ∧
        (run var s pre).now = t := by
  induction ops with
  | nil => intro s l c t h hl hj ht; exact Or.inl ⟨h, hl, hj, ht⟩
  | cons op rest ih =>
    intro s l c t hp' hl' hj' ht'
    simp only [run, List.foldl_cons] at hp' hl' hj' ht'
    rcases ih (step var s op).1 l c t hp' hl' hj' ht' with ⟨h1, h2, h3, h4⟩ | ⟨pre, v, i, post, he, g1, g2, g3, g4⟩
    · rcases step_passive_origin hv op h1 with h | ⟨v, i, rfl, hi, hl, hj, hla⟩
      · exact Or.inl ⟨h.1, h.2.1 ▸ h2, h.2.2.1 ▸ h3, h.2.2.2 ▸ h4⟩
      · right
        rw [h2] at hl; rw [h3] at hj; rw [h4] at hla
        simp only [Option.some.injEq] at hl hj hla
        refine ⟨[], v, i, rest, rfl, hl.symm, hi, hj.symm, ?_⟩
        have := step_now var s (.recv v)
        simp only [Nat.add_zero] at this
        simp only [run, List.foldl_nil]
        omega
    · right
      refine ⟨op :: pre, v, i, post, by rw [he]; rfl, g1, g2, g3, ?_⟩
      simpa [run, List.foldl_cons] using g4

/-! ### Round 3: notifications over histories -/

theorem updJoin_keeps {var : Variant} {s : St} (hs : s.state = .standalone) :
    (updJoin var s).state = .standalone ∧ (updJoin var s).leaveNotify = s.leaveNotify ∧
    (updJoin var s).leaveStarted = s.leaveStarted ∧ (updJoin var s).leaveCid = s.leaveCid ∧
    (updJoin var s).leaveReason = s.leaveReason ∧ (updJoin var s).now = s.now ∧ (updJoin var s).cluster = s.cluster := by
  unfold updJoin confirmJoinFailed
  repeat' split
  all_goals simp_all

theorem updLeaveNotify_running {s : St} {t1 : Nat} (hl : s.leaveNotify = true) (ht : s.leaveStarted = some t1)
    (hn : ¬ s.now - t1 ≥ timeClusterLeaveNotification) : updLeaveNotify s = s := by
  simp [updLeaveNotify, hl, ht, hn]

/-- the state without its three tables -/
def ctl (s : St) : St := { s with vrus := [], clusters := [], seen := [] }

/-- a received VAM does not touch a station that is stand-alone and not waiting for admission, except for its tables -/
theorem recv_standalone_keeps {var : Variant} {s : St} (v : Vam) (hs : s.state = .standalone) (hw : s.joinSub ≠ .waiting) :
    ctl (recv var s v) = ctl s := by
  have a0 : ctl (recvVrus s v) = ctl s := rfl
  have s0 : (recvVrus s v).state = .standalone := hs
  have w0 : (recvVrus s v).joinSub ≠ .waiting := hw
  by_cases hab : recvAborted var v = true
  · rw [recv_of_aborted hab]; exact a0
  · rw [recv_of_not_aborted (by simpa using hab)]
    generalize recvVrus s v = s0' at a0 s0 w0
    have a1 : ctl (recvInfoOpt s0' v) = ctl s0' := by
      unfold recvInfoOpt
      split
      · simp only [recvInfo, w0, false_and, and_false, if_false]
        rfl
      · rfl
    have s1 : (recvInfoOpt s0' v).state = .standalone := by
      have := congrArg St.state a1; simpa [ctl, s0] using this
    generalize recvInfoOpt s0' v = s1' at a1 s1
    have a2 : recvOpOpt var s1' v = s1' := by
      unfold recvOpOpt
      split
      · unfold recvOp recvTrack recvBreakup
        simp only [s1]
        split <;> simp
      · rfl
    rw [a2]
    have a3 : recvHb var s1' v = s1' := by
      unfold recvHb isHeartbeat
      simp [s1]
    rw [a3, a1, a0]

/-- a leave notification after membership is running since `t1` for cluster `cid` with reason `r` -/
structure LeaveRunning (s : St) (t1 : Nat) (cid r : Option Nat) : Prop where
  st : s.state = .standalone
  ln : s.leaveNotify = true
  ls : s.leaveStarted = some t1
  lc : s.leaveCid = cid
  lr : s.leaveReason = r
  le : t1 ≤ s.now
  nw : s.joinSub ≠ .waiting
  bj : s.joinSub = .notify → ∃ b, s.joinStarted = some b ∧ t1 ≤ b

theorem leaveRunning_of_inv {s : St} (h : Inv s) {t1 : Nat} (hs : s.state = .standalone) (hl : s.leaveNotify = true)
    (ht : s.leaveStarted = some t1) : LeaveRunning s t1 s.leaveCid s.leaveReason := by
  refine ⟨hs, hl, ht, rfl, rfl, h.leaveLeNow hl t1 ht, ?_, ?_⟩
  · intro hw; have := h.waitingNoLeave hw; simp [hl] at this
  · intro hj
    have := h.joinTimer (Or.inl hj)
    cases hjs : s.joinStarted with
    | none => simp [hjs] at this
    | some b => exact ⟨b, rfl, h.leaveBeforeJoin hj hl t1 b ht hjs⟩

/-- every event except role-off keeps a running leave notification as long as its duration has not elapsed -/
theorem leaveRunning_step {var : Variant} (hv : var.createDuringNotify = false) {s : St} {t1 : Nat} {cid r : Option Nat}
    (h : LeaveRunning s t1 cid r) (op : Op) (hk : op ≠ .roleOff)
    (hlt : (step var s op).1.now - t1 < timeClusterLeaveNotification) :
    LeaveRunning (step var s op).1 t1 cid r := by
  obtain ⟨hs, hl, ht, hc, hr, hle, hnw, hbj⟩ := h
  have hlj := leave_le_join
  cases op with
  | roleOff => exact absurd rfl hk
  | tick d => exact ⟨hs, hl, ht, hc, hr, by simp only [step]; omega, hnw, hbj⟩
  | roleOn => simp only [step, roleOn, hs]; exact ⟨hs, hl, ht, hc, hr, hle, hnw, hbj⟩
  | tryCreate x y rs =>
    have : (tryCreate var s x y rs).1 = s := by simp [tryCreate, hs, hv, hl]
    simp only [step, this]; exact ⟨hs, hl, ht, hc, hr, hle, hnw, hbj⟩
  | initiateJoin c =>
    simp only [step, initiateJoin]
    split
    · exact ⟨hs, hl, ht, hc, hr, hle, hnw, hbj⟩
    split
    · exact ⟨hs, hl, ht, hc, hr, hle, hnw, hbj⟩
    · exact ⟨hs, hl, ht, hc, hr, hle, by simp, fun _ => ⟨s.now, rfl, hle⟩⟩
  | cancelJoin =>
    simp only [step, cancelJoin]
    split
    · exact ⟨hs, hl, ht, hc, hr, hle, by simp, by simp⟩
    · exact ⟨hs, hl, ht, hc, hr, hle, hnw, hbj⟩
  | confirmJoinFailed =>
    simp only [step, confirmJoinFailed]
    split
    · rename_i hw; exact absurd hw hnw
    · exact ⟨hs, hl, ht, hc, hr, hle, hnw, hbj⟩
  | leave r' =>
    simp only [step, leave, hs]
    split
    · rename_i hp; simp at hp
    split
    · simp only [cancelJoin]
      split
      · exact ⟨hs, hl, ht, hc, hr, hle, by simp, by simp⟩
      · exact ⟨hs, hl, ht, hc, hr, hle, hnw, hbj⟩
    · exact ⟨hs, hl, ht, hc, hr, hle, hnw, hbj⟩
  | breakup r' =>
    have : (breakup s r').1 = s := by simp [breakup, hs]
    simp only [step, this]; exact ⟨hs, hl, ht, hc, hr, hle, hnw, hbj⟩
  | recv v =>
    have e := recv_standalone_keeps (var := var) v hs hnw
    simp only [step]
    have f := fun {α} (g : St → α) (hg : ∀ x, g (ctl x) = g x) => (hg _).symm.trans ((congrArg g e).trans (hg s))
    refine ⟨(f St.state (fun _ => rfl)).trans hs, (f St.leaveNotify (fun _ => rfl)).trans hl,
      (f St.leaveStarted (fun _ => rfl)).trans ht, (f St.leaveCid (fun _ => rfl)).trans hc,
      (f St.leaveReason (fun _ => rfl)).trans hr, by rw [f St.now (fun _ => rfl)]; exact hle,
      by rw [f St.joinSub (fun _ => rfl)]; exact hnw, ?_⟩
    rw [f St.joinSub (fun _ => rfl), f St.joinStarted (fun _ => rfl)]; exact hbj
  | update =>
    have hnow : (update var s).now = s.now := update_now var s
    simp only [step] at hlt ⊢
    rw [hnow] at hlt
    have hex : (expire s).state = .standalone := by simp [expire, hs]
    obtain ⟨k1, k2, k3, k4, k5, k6, _⟩ := updJoin_keeps (var := var) hex
    have hn : ¬ (updJoin var (expire s)).now - t1 ≥ timeClusterLeaveNotification := by
      rw [k6]; simp only [expire]; omega
    have e : update var s = updJoin var (expire s) := by
      simp only [update, hex, updStandalone]
      exact updLeaveNotify_running (by rw [k2]; simp [expire, hl]) (by rw [k3]; simp [expire, ht]) hn
    rw [e]
    refine ⟨k1, by rw [k2]; simp [expire, hl], by rw [k3]; simp [expire, ht], by rw [k4]; simp [expire, hc],
      by rw [k5]; simp [expire, hr], by rw [k6]; simpa [expire] using hle, ?_, ?_⟩
    · -- not waiting: a join announced after the leave cannot have finished its 3 s
      intro hw
      unfold updJoin at hw
      split at hw
      · rename_i hj
        have hj : s.joinSub = .notify := by simpa [expire] using hj
        obtain ⟨b, hb, hbl⟩ := hbj hj
        have hb' : (expire s).joinStarted = some b := by simp [expire, hb]
        simp only [hb'] at hw
        split at hw
        · rename_i hge; simp only [expire] at hge; omega
        · simp [expire, hj] at hw
      · rename_i hj; exact hnw (by simpa [expire] using hj)
      · split at hw
        · split at hw
          · simp_all [expire]
          · split at hw <;> simp_all [expire]
        · simp_all [expire]
      · split at hw
        · split at hw
          · simp_all [expire]
          · split at hw <;> simp_all [expire]
        · simp_all [expire]
      · rename_i h1 h2 h3 h4; simp_all [expire]
    · intro hj
      unfold updJoin at hj ⊢
      split at hj
      · rename_i hj0
        have hj0 : s.joinSub = .notify := by simpa [expire] using hj0
        obtain ⟨b, hb, hbl⟩ := hbj hj0
        have hb' : (expire s).joinStarted = some b := by simp [expire, hb]
        simp only [hb'] at hj ⊢
        have : ¬ (expire s).now - b ≥ timeClusterJoinNotification := by simp only [expire]; omega
        simp only [this, if_false]
        exact ⟨b, hb', hbl⟩
      · split at hj
        · split at hj <;> simp_all [expire]
        · simp_all [expire]
      · split at hj
        · split at hj
          · simp_all [expire]
          · split at hj <;> simp_all [expire]
        · simp_all [expire]
      · split at hj
        · split at hj
          · simp_all [expire]
          · split at hj <;> simp_all [expire]
        · simp_all [expire]
      · rename_i h1 h2 h3 h4; simp_all [expire]

theorem leaveRunning_run {var : Variant} (hv : var.createDuringNotify = false) {t1 : Nat} {cid r : Option Nat}
    (ops : List Op) : ∀ s : St, LeaveRunning s t1 cid r → (∀ op ∈ ops, op ≠ .roleOff) →
      (run var s ops).now - t1 < timeClusterLeaveNotification → LeaveRunning (run var s ops) t1 cid r := by
  induction ops with
  | nil => intro s h _ _; exact h
  | cons op rest ih =>
    intro s h hk hlt
    simp only [run, List.foldl_cons] at hlt ⊢
    have hmono := run_now_mono var rest (step var s op).1
    simp only [run] at hmono
    exact ih _ (leaveRunning_step hv h op (hk op (by simp)) (by omega)) (fun o ho => hk o (by simp [ho])) hlt

/-- the container of a station with a running leave notification (repaired code) -/
theorem leaveRunning_container {var : Variant} (h1 : var.joinHidesLeave = false) (h2 : var.cancelHidesLeave = false)
    {s : St} {t1 : Nat} {cid r : Option Nat} (h : LeaveRunning s t1 cid r) :
    ∃ o, opContainer var s = some o ∧ o.leave = some (cid.getD 0, r.getD leaveNotProvided) := by
  have hlo : leaveOut s = some (cid.getD 0, r.getD leaveNotProvided) := by simp [leaveOut, h.ln, h.lc, h.lr]
  have hlv : (standaloneOp var s).leave = some (cid.getD 0, r.getD leaveNotProvided) := by
    unfold standaloneOp
    split
    · simp [h1, hlo]
    · simp [h2, h.ln, hlo]
  exact ⟨_, by simp only [opContainer, h.st]; exact orNone_of_leave hlv, hlv⟩

/-- the notice of a cancelled / failed join (sub-state `k`, target `tg`, reason `r`) is running since `t1` and no
leave notification of an earlier membership occupies the `clusterLeaveInfo` -/
structure JoinLeaveRunning (s : St) (t1 : Nat) (k : JoinSub) (tg r : Option Nat) : Prop where
  st : s.state = .standalone
  kk : k = .cancelled ∨ k = .failed
  js : s.joinSub = k
  jt : s.joinTarget = tg
  jr : s.joinLeaveReason = r
  jl : s.joinLeaveStarted = some t1
  nl : s.leaveNotify = false

theorem joinLeaveRunning_step {var : Variant} (hv : var.createDuringNotify = false) {s : St} {t1 : Nat} {k : JoinSub}
    {tg r : Option Nat} (h : JoinLeaveRunning s t1 k tg r) (op : Op) (hk : op ≠ .roleOff)
    (hlt : (step var s op).1.now - t1 < timeClusterLeaveNotification) :
    JoinLeaveRunning (step var s op).1 t1 k tg r := by
  obtain ⟨hs, hkk, hj, htg, hr, hl, hnl⟩ := h
  have hnn : s.joinSub ≠ .none ∧ s.joinSub ≠ .notify ∧ s.joinSub ≠ .waiting := by
    rcases hkk with rfl | rfl <;> simp [hj]
  cases op with
  | roleOff => exact absurd rfl hk
  | tick d => exact ⟨hs, hkk, hj, htg, hr, hl, hnl⟩
  | roleOn => simp only [step, roleOn, hs]; exact ⟨hs, hkk, hj, htg, hr, hl, hnl⟩
  | tryCreate x y rs =>
    have : (tryCreate var s x y rs).1 = s := by simp [tryCreate, hs, hv, hnn.1]
    simp only [step, this]; exact ⟨hs, hkk, hj, htg, hr, hl, hnl⟩
  | initiateJoin c =>
    have : (initiateJoin s c).1 = s := by simp [initiateJoin, hs, hnn.1]
    simp only [step, this]; exact ⟨hs, hkk, hj, htg, hr, hl, hnl⟩
  | cancelJoin =>
    have : cancelJoin s = s := by simp [cancelJoin, hnn.2.1, hnn.2.2]
    simp only [step, this]; exact ⟨hs, hkk, hj, htg, hr, hl, hnl⟩
  | confirmJoinFailed =>
    have : confirmJoinFailed s = s := by simp [confirmJoinFailed, hnn.2.2]
    simp only [step, this]; exact ⟨hs, hkk, hj, htg, hr, hl, hnl⟩
  | leave r' =>
    have : leave s r' = s := by simp [leave, hs, hnn.2.1]
    simp only [step, this]; exact ⟨hs, hkk, hj, htg, hr, hl, hnl⟩
  | breakup r' =>
    have : (breakup s r').1 = s := by simp [breakup, hs]
    simp only [step, this]; exact ⟨hs, hkk, hj, htg, hr, hl, hnl⟩
  | recv v =>
    have e := recv_standalone_keeps (var := var) v hs hnn.2.2
    simp only [step]
    have f := fun {α} (g : St → α) (hg : ∀ x, g (ctl x) = g x) => (hg _).symm.trans ((congrArg g e).trans (hg s))
    exact ⟨(f St.state (fun _ => rfl)).trans hs, hkk, (f St.joinSub (fun _ => rfl)).trans hj,
      (f St.joinTarget (fun _ => rfl)).trans htg, (f St.joinLeaveReason (fun _ => rfl)).trans hr,
      (f St.joinLeaveStarted (fun _ => rfl)).trans hl, (f St.leaveNotify (fun _ => rfl)).trans hnl⟩
  | update =>
    have hnow : (update var s).now = s.now := update_now var s
    simp only [step] at hlt ⊢
    rw [hnow] at hlt
    have hn : ¬ s.now - t1 ≥ timeClusterLeaveNotification := by omega
    have e : update var s = expire s := by
      rcases hkk with rfl | rfl <;>
        simp [update, expire, hs, updStandalone, updJoin, hj, hl, hnl, hn, updLeaveNotify]
    rw [e]
    exact ⟨by simp [expire, hs], hkk, by simp [expire, hj], by simp [expire, htg], by simp [expire, hr],
      by simp [expire, hl], by simp [expire, hnl]⟩

theorem joinLeaveRunning_run {var : Variant} (hv : var.createDuringNotify = false) {t1 : Nat} {k : JoinSub}
    {tg r : Option Nat} (ops : List Op) : ∀ s : St, JoinLeaveRunning s t1 k tg r → (∀ op ∈ ops, op ≠ .roleOff) →
      (run var s ops).now - t1 < timeClusterLeaveNotification → JoinLeaveRunning (run var s ops) t1 k tg r := by
  induction ops with
  | nil => intro s h _ _; exact h
  | cons op rest ih =>
    intro s h hk hlt
    simp only [run, List.foldl_cons] at hlt ⊢
    have hmono := run_now_mono var rest (step var s op).1
    simp only [run] at hmono
    exact ih _ (joinLeaveRunning_step hv h op (hk op (by simp)) (by omega)) (fun o ho => hk o (by simp [ho])) hlt

theorem joinLeaveRunning_container {var : Variant} {s : St} {t1 : Nat} {k : JoinSub} {tg r : Option Nat}
    (h : JoinLeaveRunning s t1 k tg r) :
    ∃ o, opContainer var s = some o ∧ o.leave = some (tg.getD 0, r.getD leaveNotProvided) ∧ o.join = none := by
  have hk : s.joinSub = .cancelled ∨ s.joinSub = .failed := by rw [h.js]; exact h.kk
  have hne : s.joinSub ≠ .notify := by rcases hk with e | e <;> simp [e]
  have hlv : (standaloneOp var s).leave = some (tg.getD 0, r.getD leaveNotProvided) := by
    unfold standaloneOp
    simp [hne, h.nl, hk, h.jt, h.jr]
  exact ⟨_, by simp only [opContainer, h.st]; exact orNone_of_leave hlv, hlv, standaloneOp_join_none hne⟩

/-- a break-up warning of the own cluster `cid` (reason `r`) is running since `t0` -/
structure BreakupRunning (s : St) (t0 cid r : Nat) : Prop where
  st : s.state = .leader
  cl : ∃ c, s.cluster = some c ∧ c.cid = cid ∧ c.breakupStarted = some t0 ∧ c.breakupReason = some r

theorem leaderTrack_keeps (c : OwnCluster) (sender : Nat) (o : OpC) :
    (leaderTrack c sender o).cid = c.cid ∧ (leaderTrack c sender o).breakupStarted = c.breakupStarted ∧
    (leaderTrack c sender o).breakupReason = c.breakupReason := by
  unfold leaderTrack trackLeave trackJoin setCard
  repeat' split
  all_goals simp

theorem breakupRunning_step {var : Variant} {s : St} {t0 cid r : Nat} (h : BreakupRunning s t0 cid r) (op : Op)
    (hk : op ≠ .roleOff) (hlt : (step var s op).1.now - t0 < timeClusterBreakupWarning) :
    BreakupRunning (step var s op).1 t0 cid r := by
  obtain ⟨hs, c, hc, hcid, hb, hr⟩ := h
  cases op with
  | roleOff => exact absurd rfl hk
  | tick d => exact ⟨hs, c, hc, hcid, hb, hr⟩
  | roleOn => simp only [step, roleOn, hs]; exact ⟨hs, c, hc, hcid, hb, hr⟩
  | tryCreate x y rs =>
    have : (tryCreate var s x y rs).1 = s := by simp [tryCreate, hs]
    simp only [step, this]; exact ⟨hs, c, hc, hcid, hb, hr⟩
  | initiateJoin c' =>
    have : (initiateJoin s c').1 = s := by simp [initiateJoin, hs]
    simp only [step, this]; exact ⟨hs, c, hc, hcid, hb, hr⟩
  | cancelJoin =>
    simp only [step, cancelJoin]
    split
    · exact ⟨hs, c, hc, hcid, hb, hr⟩
    · exact ⟨hs, c, hc, hcid, hb, hr⟩
  | confirmJoinFailed =>
    simp only [step, confirmJoinFailed]
    split
    · exact ⟨hs, c, hc, hcid, hb, hr⟩
    · exact ⟨hs, c, hc, hcid, hb, hr⟩
  | leave r' =>
    have : leave s r' = s := by simp [leave, hs]
    simp only [step, this]; exact ⟨hs, c, hc, hcid, hb, hr⟩
  | breakup r' =>
    have : (breakup s r').1 = s := by simp [breakup, hs, hc, hb]
    simp only [step, this]; exact ⟨hs, c, hc, hcid, hb, hr⟩
  | update =>
    have hnow : (update var s).now = s.now := update_now var s
    simp only [step] at hlt ⊢
    rw [hnow] at hlt
    have hn : ¬ s.now - t0 ≥ timeClusterBreakupWarning := by omega
    have e : update var s = expire s := by simp [update, expire, hs, updLeader, hc, hb, hn]
    rw [e]
    exact ⟨by simp [expire, hs], c, by simp [expire, hc], hcid, hb, hr⟩
  | recv v =>
    simp only [step]
    have b0 : BreakupRunning (recvVrus s v) t0 cid r := ⟨hs, c, hc, hcid, hb, hr⟩
    by_cases hab : recvAborted var v = true
    · rw [recv_of_aborted hab]; exact b0
    · rw [recv_of_not_aborted (by simpa using hab)]
      generalize recvVrus s v = s0 at b0
      have b1 : BreakupRunning (recvInfoOpt s0 v) t0 cid r := by
        obtain ⟨hs0, c0, hc0, h1, h2, h3⟩ := b0
        unfold recvInfoOpt
        split
        · have hne : ¬ (s0.state = .standalone) := by rw [hs0]; decide
          simp only [recvInfo, hne, false_and, if_false]
          exact ⟨hs0, c0, hc0, h1, h2, h3⟩
        · exact ⟨hs0, c0, hc0, h1, h2, h3⟩
      generalize recvInfoOpt s0 v = s1 at b1
      have b2 : BreakupRunning (recvOpOpt var s1 v) t0 cid r := by
        obtain ⟨hs1, c1, hc1, h1, h2, h3⟩ := b1
        unfold recvOpOpt
        split
        · rename_i o _
          obtain ⟨k1, k2, k3⟩ := leaderTrack_keeps c1 v.sender o
          have ht : BreakupRunning (recvTrack s1 v.sender o) t0 cid r := by
            have e : recvTrack s1 v.sender o = { s1 with cluster := some (leaderTrack c1 v.sender o) } := by
              simp only [recvTrack, hs1, hc1]
            rw [e]
            exact ⟨hs1, _, rfl, k1.trans h1, k2.trans h2, k3.trans h3⟩
          unfold recvOp
          simp only []
          split
          · unfold recvBreakup
            rw [if_neg (by rw [ht.st]; simp)]
            exact ht
          · exact ht
        · exact ⟨hs1, c1, hc1, h1, h2, h3⟩
      generalize recvOpOpt var s1 v = s2 at b2
      obtain ⟨hs2, c2, hc2, h1, h2, h3⟩ := b2
      unfold recvHb isHeartbeat
      simp only [hs2]
      exact ⟨hs2, c2, hc2, h1, h2, h3⟩

theorem breakupRunning_run {var : Variant} {t0 cid r : Nat} (ops : List Op) :
    ∀ s : St, BreakupRunning s t0 cid r → (∀ op ∈ ops, op ≠ .roleOff) →
      (run var s ops).now - t0 < timeClusterBreakupWarning → BreakupRunning (run var s ops) t0 cid r := by
  induction ops with
  | nil => intro s h _ _; exact h
  | cons op rest ih =>
    intro s h hk hlt
    simp only [run, List.foldl_cons] at hlt ⊢
    have hmono := run_now_mono var rest (step var s op).1
    simp only [run] at hmono
    exact ih _ (breakupRunning_step h op (hk op (by simp)) (by omega)) (fun o ho => hk o (by simp [ho])) hlt

theorem breakupRunning_container {var : Variant} {s : St} {t0 cid r : Nat} (h : BreakupRunning s t0 cid r) :
    opContainer var s = some { breakup := some (r, quarters (timeClusterBreakupWarning - (s.now - t0))) } ∧
    ∃ k p, infoContainer s = some (cid, k, p) := by
  obtain ⟨hs, c, hc, hcid, hb, hr⟩ := h
  exact ⟨by simp [opContainer, hs, hc, hb, hr], by simp [infoContainer, hs, hc, hcid]⟩

/-- the time fields of every operation container are encodable as DeltaTimeQuarterSecond -/
theorem quarters_range (left : Nat) : 1 ≤ quarters left ∧ quarters left ≤ 127 := by
  unfold quarters; omega

theorem opContainer_times {var : Variant} {s : St} {o : OpOut} (h : opContainer var s = some o) :
    (∀ j, o.join = some j → 1 ≤ j.2 ∧ j.2 ≤ 127) ∧ (∀ b, o.breakup = some b → 1 ≤ b.2 ∧ b.2 ≤ 127) := by
  unfold opContainer at h
  split at h
  · have := orNone_some h
    subst this
    unfold standaloneOp
    repeat' split
    all_goals simp [quarterLeft, quarters_range]
  · have := orNone_some h
    subst this
    simp
  · split at h
    · simp at h
    · split at h
      · simp only [Option.some.injEq] at h
        subst h
        simp [quarters_range]
      · simp at h
  · simp at h

end FlexModel.Vru

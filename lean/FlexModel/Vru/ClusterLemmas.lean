/-
Helper lemmas for Props/C18.lean: the invariant of the clustering state machine and its preservation by every
transition, for every code variant.
-/
import FlexModel.Vru.Cluster

namespace FlexModel.Vru
open Generated.VamConstants

/-- the draws handed to `tryCreate` respect the contract of `random.randint(1, 255)` -/
def Op.WF : Op → Prop
  | .tryCreate _ _ rs => ∀ c ∈ rs, 1 ≤ c ∧ c ≤ 255
  | _ => True

/-- Invariant of every reachable state (all variants). -/
structure Inv (s : St) : Prop where
  leaderCluster : s.state = .leader ↔ s.cluster.isSome = true
  clusterOk : ∀ c, s.cluster = some c → 1 ≤ c.cid ∧ c.cid ≤ 255 ∧ 1 ≤ c.card
  passiveMem : s.state = .passive → s.joined.isSome = true ∧ s.leader.isSome = true ∧ s.last.isSome = true
  otherMem : s.state ≠ .passive → s.joined = none ∧ s.leader = none ∧ s.last = none
  noErr : s.err = false
  joinTimer : (s.joinSub = .notify ∨ s.joinSub = .waiting) → s.joinStarted.isSome = true
  joinLeaveTimer : (s.joinSub = .cancelled ∨ s.joinSub = .failed) → s.joinLeaveStarted.isSome = true
  leaveTimer : s.leaveNotify = true → s.leaveStarted.isSome = true
  leaveBeforeJoin : s.joinSub = .notify → s.leaveNotify = true →
    ∀ a b, s.leaveStarted = some a → s.joinStarted = some b → a ≤ b
  waitingNoLeave : s.joinSub = .waiting → s.leaveNotify = false
  passiveNoLeave : s.state = .passive → s.leaveNotify = false
  joinedPassive : s.joinSub = .joined → s.state = .passive
  leaveLeNow : s.leaveNotify = true → ∀ a, s.leaveStarted = some a → a ≤ s.now

theorem inv_init (now p : Nat) : Inv (St.init now p) := by
  constructor <;> simp [St.init]

theorem inv_tick {s : St} (h : Inv s) (d : Nat) : Inv { s with now := s.now + d } := by
  obtain ⟨h1, h2, h3, h4, h5, h6, h7, h8, h9, h10, h11, h12, h13⟩ := h
  constructor <;> simp_all
  intro hl a ha; have := h13 hl a ha; omega

theorem inv_roleOn {s : St} (h : Inv s) : Inv (roleOn s) := by
  obtain ⟨h1, h2, h3, h4, h5, h6, h7, h8, h9, h10, h11, h12, h13⟩ := h
  unfold roleOn
  split
  · rename_i hs
    have hc : s.cluster = none := by
      cases hcl : s.cluster with
      | none => rfl
      | some c => have := h1.mpr (by simp [hcl]); simp_all
    constructor <;> simp_all
  · constructor <;> assumption

theorem inv_roleOff {s : St} (h : Inv s) : Inv (roleOff s) := by
  obtain ⟨h1, h2, h3, h4, h5, h6, h7, h8, h9, h10, h11, h12, h13⟩ := h
  constructor <;> simp_all [roleOff]

theorem pickId_range {recent : List (Nat × Nat)} {rs : List Nat} {c : Nat}
    (hrs : ∀ c ∈ rs, 1 ≤ c ∧ c ≤ 255) (h : pickId recent rs = some c) : 1 ≤ c ∧ c ≤ 255 := by
  unfold pickId at h
  have hm := List.mem_of_find?_eq_some h
  exact hrs c (List.mem_of_mem_take hm)

theorem minClusterSize_pos : 1 ≤ minClusterSize := by decide

theorem inv_tryCreate {var : Variant} {s : St} (h : Inv s) (x y : Int) (rs : List Nat)
    (hrs : ∀ c ∈ rs, 1 ≤ c ∧ c ≤ 255) : Inv (tryCreate var s x y rs).1 := by
  obtain ⟨h1, h2, h3, h4, h5, h6, h7, h8, h9, h10, h11, h12, h13⟩ := h
  unfold tryCreate
  split
  · constructor <;> assumption
  split
  · constructor <;> assumption
  split
  · constructor <;> assumption
  rename_i hst _ _
  have hst : s.state = .standalone := by simpa using hst
  dsimp only
  split
  · constructor <;> simp_all
  · rename_i cid hp
    have hr := pickId_range hrs hp
    have hm := minClusterSize_pos
    constructor <;> simp_all

theorem inv_initiateJoin {s : St} (h : Inv s) (cid : Nat) : Inv (initiateJoin s cid).1 := by
  obtain ⟨h1, h2, h3, h4, h5, h6, h7, h8, h9, h10, h11, h12, h13⟩ := h
  unfold initiateJoin
  split
  · constructor <;> assumption
  split
  · constructor <;> assumption
  rename_i hst hj
  have hst : s.state = .standalone := by simpa using hst
  have hj : s.joinSub = .none := by simpa using hj
  constructor <;> simp_all

theorem inv_cancelJoin {s : St} (h : Inv s) : Inv (cancelJoin s) := by
  obtain ⟨h1, h2, h3, h4, h5, h6, h7, h8, h9, h10, h11, h12, h13⟩ := h
  unfold cancelJoin
  split
  · constructor <;> simp_all
    all_goals (rename_i hj; rcases hj with hj | hj <;> simp_all)
  · constructor <;> assumption

theorem inv_confirmJoinFailed {s : St} (h : Inv s) : Inv (confirmJoinFailed s) := by
  obtain ⟨h1, h2, h3, h4, h5, h6, h7, h8, h9, h10, h11, h12, h13⟩ := h
  unfold confirmJoinFailed
  split
  · constructor <;> simp_all
  · constructor <;> assumption

theorem inv_doLeave {s : St} (h : Inv s) (hp : s.state = .passive) (r : Nat) : Inv (doLeave s r) := by
  obtain ⟨h1, h2, h3, h4, h5, h6, h7, h8, h9, h10, h11, h12, h13⟩ := h
  have hc : s.cluster = none := by
    cases hcl : s.cluster with
    | none => rfl
    | some c => have := h1.mpr (by simp [hcl]); simp_all
  constructor <;> simp_all [doLeave]

theorem inv_leave {s : St} (h : Inv s) (r : Nat) : Inv (leave s r) := by
  unfold leave
  split
  · rename_i hp; exact inv_doLeave h hp r
  split
  · exact inv_cancelJoin h
  · exact h

theorem inv_breakup {s : St} (h : Inv s) (r : Nat) : Inv (breakup s r).1 := by
  obtain ⟨h1, h2, h3, h4, h5, h6, h7, h8, h9, h10, h11, h12, h13⟩ := h
  unfold breakup
  split
  · constructor <;> assumption
  split
  · constructor <;> assumption
  rename_i c hc
  split
  · constructor <;> assumption
  · have := h2 c hc
    constructor <;> simp_all

/-! ### update -/

theorem inv_expire {s : St} (h : Inv s) : Inv (expire s) := by
  obtain ⟨h1, h2, h3, h4, h5, h6, h7, h8, h9, h10, h11, h12, h13⟩ := h
  constructor <;> simp_all [expire]

theorem inv_updLeaveNotify {s : St} (h : Inv s) : Inv (updLeaveNotify s) := by
  obtain ⟨h1, h2, h3, h4, h5, h6, h7, h8, h9, h10, h11, h12, h13⟩ := h
  unfold updLeaveNotify
  split
  · split
    · split
      · constructor <;> simp_all [clearLeave]
      · constructor <;> assumption
    · simp_all
  · constructor <;> assumption

theorem leave_le_join : timeClusterLeaveNotification ≤ timeClusterJoinNotification := by decide

/-- the two halves of `_update_standalone` together (the leave part needs to know what the join part did) -/
theorem inv_updStandalone {s : St} (h : Inv s) (hs : s.state = .standalone) : Inv (updStandalone s) := by
  obtain ⟨h1, h2, h3, h4, h5, h6, h7, h8, h9, h10, h11, h12, h13⟩ := h
  have hlj := leave_le_join
  unfold updStandalone updJoin
  split
  · -- notify
    rename_i hj
    cases hjs : s.joinStarted with
    | none => simp_all
    | some t =>
      simp only []
      split
      · -- notification over: → waiting; a running leave notification is over as well
        rename_i hge
        unfold updLeaveNotify
        simp only []
        cases hl : s.leaveNotify with
        | false => simp only [Bool.false_eq_true, if_false]; constructor <;> simp_all
        | true =>
          simp only [if_true]
          cases hls : s.leaveStarted with
          | none => simp_all
          | some a =>
            have hab := h9 hj hl a t hls hjs
            have : s.now - a ≥ timeClusterLeaveNotification := by omega
            simp only [this, if_true]
            constructor <;> simp_all [clearLeave]
      · exact inv_updLeaveNotify ⟨h1, h2, h3, h4, h5, h6, h7, h8, h9, h10, h11, h12, h13⟩
  · -- waiting
    rename_i hj
    cases hjs : s.joinStarted with
    | none => simp_all
    | some t =>
      simp only []
      split
      · exact inv_updLeaveNotify (inv_confirmJoinFailed ⟨h1, h2, h3, h4, h5, h6, h7, h8, h9, h10, h11, h12, h13⟩)
      · exact inv_updLeaveNotify ⟨h1, h2, h3, h4, h5, h6, h7, h8, h9, h10, h11, h12, h13⟩
  · -- cancelled
    rename_i hj
    cases hjs : s.joinLeaveStarted with
    | none => simp_all
    | some t =>
      simp only []
      split
      · apply inv_updLeaveNotify
        constructor <;> simp_all
      · exact inv_updLeaveNotify ⟨h1, h2, h3, h4, h5, h6, h7, h8, h9, h10, h11, h12, h13⟩
  · -- failed
    rename_i hj
    cases hjs : s.joinLeaveStarted with
    | none => simp_all
    | some t =>
      simp only []
      split
      · apply inv_updLeaveNotify
        constructor <;> simp_all
      · exact inv_updLeaveNotify ⟨h1, h2, h3, h4, h5, h6, h7, h8, h9, h10, h11, h12, h13⟩
  · exact inv_updLeaveNotify ⟨h1, h2, h3, h4, h5, h6, h7, h8, h9, h10, h11, h12, h13⟩

theorem inv_updLeader {s : St} (h : Inv s) (_hs : s.state = .leader) : Inv (updLeader s) := by
  obtain ⟨h1, h2, h3, h4, h5, h6, h7, h8, h9, h10, h11, h12, h13⟩ := h
  unfold updLeader
  split
  · constructor <;> assumption
  · split
    · split
      · constructor <;> simp_all
      · constructor <;> assumption
    · constructor <;> assumption

theorem inv_updPassive {s : St} (h : Inv s) (hs : s.state = .passive) : Inv (updPassive s) := by
  unfold updPassive
  split
  · split
    · exact inv_doLeave h hs _
    · exact inv_updLeaveNotify h
  · exact inv_updLeaveNotify h

theorem inv_update {s : St} (h : Inv s) : Inv (update s) := by
  have he := inv_expire h
  unfold update
  simp only []
  split
  · rename_i hs; exact inv_updStandalone he hs
  · rename_i hs; exact inv_updLeader he hs
  · rename_i hs; exact inv_updPassive he hs
  · exact he

/-! ### received VAM -/

theorem inv_tables {s : St} (h : Inv s) (v : List NearbyVru) (c : List NearbyCluster) (sn : List (Nat × Nat)) :
    Inv { s with vrus := v, clusters := c, seen := sn } := by
  obtain ⟨h1, h2, h3, h4, h5, h6, h7, h8, h9, h10, h11, h12, h13⟩ := h
  constructor <;> simp_all

theorem inv_completeJoin {s : St} (h : Inv s) (hs : s.state = .standalone) (hw : s.joinSub = .waiting)
    (ht : s.joinTarget.isSome = true) (ldr : Nat) : Inv (completeJoin s ldr) := by
  obtain ⟨h1, h2, h3, h4, h5, h6, h7, h8, h9, h10, h11, h12, h13⟩ := h
  have hc : s.cluster = none := by
    cases hcl : s.cluster with
    | none => rfl
    | some c => have := h1.mpr (by simp [hcl]); simp_all
  constructor <;> simp_all [completeJoin]

theorem inv_recvInfo {s : St} (h : Inv s) (sender : Nat) (i : Info) : Inv (recvInfo s sender i) := by
  unfold recvInfo
  simp only []
  split
  · rename_i hc
    apply inv_completeJoin
    · exact inv_tables h _ _ _
    · exact hc.1
    · exact hc.2.1
    · have := hc.2.2; simp_all
  · exact inv_tables h _ _ _

theorem setCard_ok (c : OwnCluster) (p : List Nat) (h : 1 ≤ c.cid ∧ c.cid ≤ 255 ∧ 1 ≤ c.card) :
    1 ≤ (setCard c p).cid ∧ (setCard c p).cid ≤ 255 ∧ 1 ≤ (setCard c p).card := by
  have := minClusterSize_pos
  simp only [setCard]
  omega

theorem leaderTrack_ok (c : OwnCluster) (sender : Nat) (o : OpC) (h : 1 ≤ c.cid ∧ c.cid ≤ 255 ∧ 1 ≤ c.card) :
    1 ≤ (leaderTrack c sender o).cid ∧ (leaderTrack c sender o).cid ≤ 255 ∧ 1 ≤ (leaderTrack c sender o).card := by
  have h1 : 1 ≤ (trackJoin c sender o).cid ∧ (trackJoin c sender o).cid ≤ 255 ∧ 1 ≤ (trackJoin c sender o).card := by
    unfold trackJoin; split
    · exact setCard_ok c _ h
    · exact h
  unfold leaderTrack trackLeave
  split
  · exact setCard_ok _ _ h1
  · exact h1

theorem inv_recvTrack {s : St} (h : Inv s) (sender : Nat) (o : OpC) : Inv (recvTrack s sender o) := by
  unfold recvTrack
  split
  · rename_i c hst hc
    obtain ⟨h1, h2, h3, h4, h5, h6, h7, h8, h9, h10, h11, h12, h13⟩ := h
    have := leaderTrack_ok c sender o (h2 c hc)
    constructor <;> simp_all
  · exact h

theorem inv_recvBreakup {var : Variant} {s : St} (h : Inv s) (sender r : Nat) : Inv (recvBreakup var s sender r) := by
  unfold recvBreakup
  split
  · rename_i hp
    split
    · exact h
    · exact inv_doLeave h hp.1 _
  · exact h

theorem inv_recvOp {var : Variant} {s : St} (h : Inv s) (sender : Nat) (o : OpC) : Inv (recvOp var s sender o) := by
  unfold recvOp
  simp only []
  split
  · exact inv_recvBreakup (inv_recvTrack h _ _) _ _
  · exact inv_recvTrack h _ _

theorem inv_recvHb {var : Variant} {s : St} (h : Inv s) (v : Vam) : Inv (recvHb var s v) := by
  unfold recvHb
  split
  · rename_i hb
    have hp : s.state = .passive := by
      simp only [isHeartbeat, Bool.and_eq_true, decide_eq_true_eq] at hb
      exact hb.1.1
    obtain ⟨h1, h2, h3, h4, h5, h6, h7, h8, h9, h10, h11, h12, h13⟩ := h
    constructor <;> simp_all
  · exact h

theorem inv_recv {var : Variant} {s : St} (h : Inv s) (v : Vam) : Inv (recv var s v) := by
  unfold recv
  have h0 : Inv (recvVrus s v) := inv_tables h _ _ _
  simp only []
  split
  · exact h0
  · apply inv_recvHb
    unfold recvOpOpt
    split
    · apply inv_recvOp
      unfold recvInfoOpt
      split
      · exact inv_recvInfo h0 _ _
      · exact h0
    · unfold recvInfoOpt
      split
      · exact inv_recvInfo h0 _ _
      · exact h0


/-! ### where membership and the leader-lost timer can come from -/

theorem recvInfoOpt_passive {s : St} (v : Vam) (hp : s.state = .passive) :
    (recvInfoOpt s v).state = .passive ∧ (recvInfoOpt s v).leader = s.leader ∧ (recvInfoOpt s v).joined = s.joined ∧
    (recvInfoOpt s v).last = s.last ∧ (recvInfoOpt s v).leaveNotify = s.leaveNotify ∧ (recvInfoOpt s v).now = s.now := by
  unfold recvInfoOpt
  split
  · simp [recvInfo, hp]
  · simp [hp]

theorem recvTrack_passive {s : St} (sender : Nat) (o : OpC) (hp : s.state = .passive) : recvTrack s sender o = s := by
  unfold recvTrack
  split
  · simp_all
  · rfl

/-- the operation-container part of a VAM either leaves a passive station as it is or releases it -/
theorem recvOpOpt_passive {var : Variant} {s : St} (v : Vam) (hp : s.state = .passive) :
    recvOpOpt var s v = s ∨ (recvOpOpt var s v).state = .standalone := by
  unfold recvOpOpt
  split
  · unfold recvOp
    simp only [recvTrack_passive _ _ hp]
    split
    · unfold recvBreakup
      split
      · split
        · exact Or.inl rfl
        · exact Or.inr (by simp [doLeave])
      · exact Or.inl rfl
    · exact Or.inl rfl
  · exact Or.inl rfl

theorem recvTrack_state (s : St) (sender : Nat) (o : OpC) : (recvTrack s sender o).state = s.state := by
  unfold recvTrack; split <;> rfl

theorem recvOpOpt_state {var : Variant} {s : St} (v : Vam) (hp : s.state ≠ .passive) :
    (recvOpOpt var s v).state = s.state := by
  unfold recvOpOpt
  split
  · rename_i o _
    unfold recvOp
    simp only []
    split
    · unfold recvBreakup
      rw [if_neg]
      · exact recvTrack_state s v.sender o
      · rw [recvTrack_state]; exact fun h => hp h.1
    · exact recvTrack_state s v.sender o
  · rfl

theorem recvHb_fields (var : Variant) (s : St) (v : Vam) :
    (recvHb var s v).state = s.state ∧ (recvHb var s v).leader = s.leader ∧ (recvHb var s v).joined = s.joined ∧
    (recvHb var s v).now = s.now ∧ (recvHb var s v).leaveNotify = s.leaveNotify := by
  unfold recvHb; split <;> simp

theorem recvHb_last (var : Variant) (s : St) (v : Vam) :
    (recvHb var s v).last = if isHeartbeat var s v then some s.now else s.last := by
  unfold recvHb; split <;> simp

/-- what a cluster VAM of cluster `c` from station `l` heard at time `t` looks like in the state -/
def Heard (op : Op) (s' : St) : Prop :=
  ∃ v i, op = .recv v ∧ v.info = some i ∧ s'.leader = some v.sender ∧ s'.joined = some (i.cid.getD 0) ∧
    s'.last = some s'.now

theorem recvInfoOpt_joins {s : St} (v : Vam) (hp : s.state ≠ .passive)
    (hp' : (recvInfoOpt s v).state = .passive) :
    ∃ i, v.info = some i ∧ (recvInfoOpt s v).leader = some v.sender ∧ (recvInfoOpt s v).joined = some (i.cid.getD 0) ∧
      (recvInfoOpt s v).last = some s.now ∧ (recvInfoOpt s v).now = s.now := by
  cases hi : v.info with
  | none =>
    simp only [recvInfoOpt, hi] at hp'
    exact absurd hp' hp
  | some i =>
    refine ⟨i, rfl, ?_⟩
    simp only [recvInfoOpt, hi] at hp' ⊢
    unfold recvInfo at hp' ⊢
    simp only [] at hp' ⊢
    split
    · rename_i hc
      simp [completeJoin, hc.2.2]
    · rename_i hc
      simp only [hc, if_false] at hp'
      exact absurd hp' hp

theorem recv_of_aborted {var : Variant} {s : St} {v : Vam} (h : recvAborted var v = true) :
    recv var s v = recvVrus s v := by
  unfold recv; simp only [h, if_true]

theorem recv_of_not_aborted {var : Variant} {s : St} {v : Vam} (h : recvAborted var v = false) :
    recv var s v = recvHb var (recvOpOpt var (recvInfoOpt (recvVrus s v) v) v) v := by
  unfold recv; simp only [h, Bool.false_eq_true, if_false]

theorem recv_passive_origin {var : Variant} (hv : var.hbAny = false) {s : St} (v : Vam)
    (hp' : (recv var s v).state = .passive) :
    (s.state = .passive ∧ (recv var s v).leader = s.leader ∧ (recv var s v).joined = s.joined ∧
      (recv var s v).last = s.last) ∨ Heard (.recv v) (recv var s v) := by
  by_cases hab : recvAborted var v = true
  · rw [recv_of_aborted hab] at hp' ⊢
    left
    exact ⟨hp', rfl, rfl, rfl⟩
  have hab : recvAborted var v = false := by simpa using hab
  rw [recv_of_not_aborted hab] at hp' ⊢
  have hs0 : (recvVrus s v).state = s.state := rfl
  have hl0 : (recvVrus s v).leader = s.leader := rfl
  have hj0 : (recvVrus s v).joined = s.joined := rfl
  have ht0 : (recvVrus s v).last = s.last := rfl
  have hn0 : (recvVrus s v).now = s.now := rfl
  generalize recvVrus s v = s0 at *
  obtain ⟨f1, f2, f3, f4, _⟩ := recvHb_fields var (recvOpOpt var (recvInfoOpt s0 v) v) v
  have f5 := recvHb_last var (recvOpOpt var (recvInfoOpt s0 v) v) v
  rw [f1] at hp'
  by_cases hp : s0.state = .passive
  · -- already a member
    obtain ⟨h1, h2, h3, h4, _, h6⟩ := recvInfoOpt_passive (s := s0) v hp
    generalize recvInfoOpt s0 v = s1 at *
    rcases recvOpOpt_passive (var := var) v h1 with h | h
    · rw [h] at hp' f1 f2 f3 f4 f5
      by_cases hb : isHeartbeat var s1 v = true
      · right
        simp only [hb, if_true] at f5
        simp only [isHeartbeat, hv, Bool.false_or, Bool.and_eq_true, decide_eq_true_eq, beq_iff_eq] at hb
        obtain ⟨⟨_, hl⟩, hj⟩ := hb
        split at hj
        · rename_i i hi
          refine ⟨v, i, rfl, hi, ?_, ?_, ?_⟩
          · rw [h, f2]; exact hl
          · rw [h, f3]; simpa using hj
          · rw [h, f5, f4]
        · exact absurd hj (by decide)
      · left
        have hb : isHeartbeat var s1 v = false := by simpa using hb
        simp only [hb, Bool.false_eq_true, if_false] at f5
        rw [h]
        exact ⟨hs0 ▸ hp, by rw [f2, h2, hl0], by rw [f3, h3, hj0], by rw [f5, h4, ht0]⟩
    · exfalso
      rw [h] at hp'
      exact absurd hp' (by decide)
  · -- not a member before: only `_complete_join` makes it one
    right
    by_cases hq : (recvInfoOpt s0 v).state = .passive
    · obtain ⟨i, hi, hl, hj, hla, hn⟩ := recvInfoOpt_joins (s := s0) v hp hq
      generalize recvInfoOpt s0 v = s1 at *
      rcases recvOpOpt_passive (var := var) v hq with h | h
      · rw [h] at f1 f2 f3 f4 f5
        rw [h]
        refine ⟨v, i, rfl, hi, by rw [f2, hl], by rw [f3, hj], ?_⟩
        rw [f5, f4]
        split
        · rfl
        · rw [hla, hn]
      · exfalso
        rw [h] at hp'
        exact absurd hp' (by decide)
    · exfalso
      rw [recvOpOpt_state v hq] at hp'
      exact hq hp'


theorem update_state_of_standalone {s : St} (h : s.state = .standalone) : (update s).state = .standalone := by
  unfold update
  have : (expire s).state = .standalone := by simp [expire, h]
  simp only [this]
  unfold updStandalone updLeaveNotify updJoin confirmJoinFailed clearLeave
  repeat' split
  all_goals simp_all [expire]

theorem update_not_passive {s : St} (h : s.state ≠ .passive) : (update s).state ≠ .passive := by
  unfold update
  have he : (expire s).state = s.state := by simp [expire]
  cases hs : s.state with
  | passive => exact absurd hs h
  | standalone =>
    have := update_state_of_standalone hs
    unfold update at this
    simp_all
  | idle => simp_all
  | leader =>
    simp only [he, hs]
    unfold updLeader
    repeat' split
    all_goals simp_all [expire]

theorem leader_lost_update {s : St} {t : Nat} (hp : s.state = .passive) (hl : s.last = some t)
    (hs : s.now - t ≥ timeClusterContinuity) :
    (update s).state = .standalone ∧ shouldTransmit (update s) = true := by
  unfold update
  have he : (expire s).state = .passive := by simp [expire, hp]
  simp only [he]
  unfold updPassive
  have : (expire s).last = some t := by simp [expire, hl]
  simp only [this]
  have : (expire s).now - t ≥ timeClusterContinuity := by simpa [expire] using hs
  simp only [this, if_true]
  simp [doLeave, shouldTransmit]

theorem updLeaveNotify_fields (s : St) :
    (updLeaveNotify s).state = s.state ∧ (updLeaveNotify s).leader = s.leader ∧
    (updLeaveNotify s).joined = s.joined ∧ (updLeaveNotify s).last = s.last ∧ (updLeaveNotify s).now = s.now := by
  unfold updLeaveNotify clearLeave
  repeat' split
  all_goals simp

theorem update_passive_origin {s : St} (hp' : (update s).state = .passive) :
    s.state = .passive ∧ (update s).leader = s.leader ∧ (update s).joined = s.joined ∧ (update s).last = s.last := by
  by_cases hp : s.state = .passive
  · refine ⟨hp, ?_⟩
    unfold update at hp' ⊢
    have he : (expire s).state = .passive := by simp [expire, hp]
    simp only [he] at hp' ⊢
    unfold updPassive at hp' ⊢
    obtain ⟨g1, g2, g3, g4, _⟩ := updLeaveNotify_fields (expire s)
    split
    · rename_i t ht
      split
      · rename_i hge
        simp only [ht, hge, if_true] at hp'
        simp [doLeave] at hp'
      · rw [g2, g3, g4]; simp [expire]
    · rw [g2, g3, g4]; simp [expire]
  · exact absurd hp' (update_not_passive hp)


theorem recv_breakup_frees {var : Variant} {s : St} {v : Vam} {o : OpC} {r : Nat}
    (hab : recvAborted var v = false) (hp : s.state = .passive) (hl : s.leader = some v.sender)
    (ho : v.op = some o) (hb : o.breakup = some r) (hr : r ≠ breakupCpm ∨ var.cpmFrees = true) :
    (recv var s v).state = .standalone ∧ shouldTransmit (recv var s v) = true := by
  have h0 : (recvVrus s v).state = .passive := by simp [recvVrus, hp]
  have h0l : (recvVrus s v).leader = some v.sender := by simp [recvVrus, hl]
  obtain ⟨h1, h2, _, _, _, _⟩ := recvInfoOpt_passive (s := recvVrus s v) v h0
  rw [h0l] at h2
  unfold recv
  simp only [hab]
  generalize recvInfoOpt (recvVrus s v) v = s1 at h1 h2 ⊢
  have h3 : recvOpOpt var s1 v = doLeave s1 leaveDisbandedByLeader := by
    unfold recvOpOpt
    simp only [ho]
    unfold recvOp
    simp only [recvTrack_passive _ _ h1, hb]
    unfold recvBreakup
    have : ¬ (r = breakupCpm ∧ var.cpmFrees = false) := by
      rcases hr with hr | hr
      · exact fun h => hr h.1
      · intro h; rw [hr] at h; exact absurd h.2 (by decide)
    simp [h1, h2, this]
  simp only [Bool.false_eq_true, if_false, h3]
  unfold recvHb
  have : isHeartbeat var (doLeave s1 leaveDisbandedByLeader) v = false := by simp [isHeartbeat, doLeave]
  simp only [this, Bool.false_eq_true, if_false]
  simp [doLeave, shouldTransmit]


theorem step_passive_origin {var : Variant} (hv : var.hbAny = false) {s : St} (op : Op)
    (hp' : (step var s op).1.state = .passive) :
    (s.state = .passive ∧ (step var s op).1.leader = s.leader ∧ (step var s op).1.joined = s.joined ∧
      (step var s op).1.last = s.last) ∨ Heard op (step var s op).1 := by
  cases op with
  | recv v => exact recv_passive_origin hv v hp'
  | update => exact Or.inl (update_passive_origin hp')
  | tick d => exact Or.inl ⟨hp', rfl, rfl, rfl⟩
  | roleOn =>
    left
    simp only [step, roleOn] at hp' ⊢
    split at hp' <;> simp_all
  | roleOff => simp [step, roleOff] at hp'
  | tryCreate x y rs =>
    left
    simp only [step, tryCreate] at hp' ⊢
    repeat' split at hp'
    all_goals simp_all
  | initiateJoin c =>
    left
    simp only [step, initiateJoin] at hp' ⊢
    repeat' split at hp'
    all_goals simp_all
  | cancelJoin =>
    left
    simp only [step, cancelJoin] at hp' ⊢
    split at hp' <;> simp_all
  | confirmJoinFailed =>
    left
    simp only [step, confirmJoinFailed] at hp' ⊢
    split at hp' <;> simp_all
  | leave r =>
    left
    simp only [step, leave, cancelJoin, doLeave] at hp' ⊢
    repeat' split at hp'
    all_goals simp_all
  | breakup r =>
    left
    simp only [step, breakup] at hp' ⊢
    repeat' split at hp'
    all_goals simp_all

/-! ### the clock only moves by `tick` -/

theorem update_now (s : St) : (update s).now = s.now := by
  unfold update updStandalone updLeader updPassive updLeaveNotify updJoin confirmJoinFailed clearLeave doLeave
  simp only []
  repeat' split
  all_goals simp [expire]

theorem recvInfoOpt_now (s : St) (v : Vam) : (recvInfoOpt s v).now = s.now := by
  unfold recvInfoOpt recvInfo completeJoin
  split
  · simp only []; split <;> rfl
  · rfl

theorem recvOpOpt_now (var : Variant) (s : St) (v : Vam) : (recvOpOpt var s v).now = s.now := by
  have h1 : ∀ o, (recvTrack s v.sender o).now = s.now := by
    intro o; unfold recvTrack; split <;> rfl
  unfold recvOpOpt recvOp
  split
  · simp only []
    split
    · unfold recvBreakup doLeave
      split
      · split
        · exact h1 _
        · simp [h1]
      · exact h1 _
    · exact h1 _
  · rfl

theorem recv_now (var : Variant) (s : St) (v : Vam) : (recv var s v).now = s.now := by
  by_cases hab : recvAborted var v = true
  · rw [recv_of_aborted hab]; rfl
  · rw [recv_of_not_aborted (by simpa using hab), (recvHb_fields _ _ _).2.2.2.1, recvOpOpt_now, recvInfoOpt_now]; rfl

theorem step_now (var : Variant) (s : St) (op : Op) :
    (step var s op).1.now = s.now + (match op with | .tick d => d | _ => 0) := by
  cases op with
  | tick d => rfl
  | update => simp [step, update_now]
  | recv v => simp [step, recv_now]
  | roleOn => simp only [step, roleOn]; split <;> simp
  | roleOff => simp [step, roleOff]
  | tryCreate x y rs =>
    simp only [step, tryCreate]
    split
    · simp
    split
    · simp
    split
    · simp
    split <;> simp
  | initiateJoin c =>
    simp only [step, initiateJoin]
    split
    · simp
    split <;> simp
  | cancelJoin => simp only [step, cancelJoin]; split <;> simp
  | confirmJoinFailed => simp only [step, confirmJoinFailed]; split <;> simp
  | leave r =>
    simp only [step, leave, cancelJoin, doLeave]
    split
    · simp
    split
    · split <;> simp
    · simp
  | breakup r =>
    simp only [step, breakup]
    split
    · simp
    split
    · simp
    split <;> simp

theorem run_now_mono (var : Variant) (ops : List Op) : ∀ s : St, s.now ≤ (run var s ops).now := by
  induction ops with
  | nil => intro s; exact Nat.le_refl _
  | cons op rest ih =>
    intro s
    simp only [run, List.foldl_cons]
    have h1 := step_now var s op
    have h2 := ih (step var s op).1
    simp only [run] at h2
    omega

theorem update_keeps_notify {s : St} {t0 : Nat} (hs : s.state = .standalone) (hj : s.joinSub = .notify)
    (ht : s.joinStarted = some t0) (hlt : s.now - t0 < timeClusterJoinNotification) :
    (update s).state = .standalone ∧ (update s).joinSub = .notify ∧ (update s).joinStarted = some t0 ∧
    (update s).joinTarget = s.joinTarget := by
  have hn : ¬ s.now - t0 ≥ timeClusterJoinNotification := by omega
  have e : update s = updLeaveNotify (expire s) := by
    simp [update, expire, hs, updStandalone, updJoin, hj, ht, hn]
  rw [e]
  refine ⟨by rw [(updLeaveNotify_fields _).1]; simp [expire, hs], ?_⟩
  unfold updLeaveNotify clearLeave
  repeat' split
  all_goals simp [expire, hj, ht]

/-! ### operation container -/

theorem orNone_some {o o' : OpOut} (h : o.orNone = some o') : o' = o := by
  unfold OpOut.orNone at h
  split at h <;> simp_all

theorem orNone_of_join {o : OpOut} {x : Nat × Nat} (h : o.join = some x) : o.orNone = some o := by
  simp [OpOut.orNone, h]

theorem orNone_of_leave {o : OpOut} {x : Nat × Nat} (h : o.leave = some x) : o.orNone = some o := by
  simp [OpOut.orNone, h]

theorem standaloneOp_join_none {var : Variant} {s : St} (h : s.joinSub ≠ .notify) : (standaloneOp var s).join = none := by
  unfold standaloneOp
  split
  · contradiction
  · split <;> rfl

theorem inv_step {var : Variant} {s : St} (h : Inv s) (op : Op) (hw : op.WF) : Inv (step var s op).1 := by
  cases op with
  | tick d => exact inv_tick h d
  | roleOn => exact inv_roleOn h
  | roleOff => exact inv_roleOff h
  | tryCreate x y rs => exact inv_tryCreate h x y rs hw
  | initiateJoin cid => exact inv_initiateJoin h cid
  | cancelJoin => exact inv_cancelJoin h
  | confirmJoinFailed => exact inv_confirmJoinFailed h
  | leave r => exact inv_leave h r
  | breakup r => exact inv_breakup h r
  | update => exact inv_update h
  | recv v => exact inv_recv h v

theorem inv_run {var : Variant} {s : St} (h : Inv s) (ops : List Op) (hw : ∀ op ∈ ops, op.WF) : Inv (run var s ops) := by
  induction ops generalizing s with
  | nil => exact h
  | cons op rest ih =>
    simp only [run, List.foldl_cons]
    exact ih (inv_step h op (hw op (by simp))) (fun o ho => hw o (by simp [ho]))

end FlexModel.Vru

/-
Atomicity of the public methods of VBSClusteringManager (C18): instantiation of the mechanised reduction theorem
(`FlexModel/Conc/Reduction`) for programs in which EVERY call is one section of the SAME lock - the shape the regenerated
facts `Generated/VruLocks.lean` establish for the source (`Props.C18.public_methods_atomic`).  Generic in the state type.
-/
import FlexModel.Conc.Reduction
namespace FlexModel.Vru.Atomic
open FlexModel.Conc FlexModel.Conc.Reduction

variable {σ : Type}

/-- one public-method call at instruction level: micro-steps `fs` then the last one `g`, all inside ONE
`with self._lock:` section (lock `lk`) -/
abbrev Call (σ : Type) := List (σ → σ) × (σ → σ)

def Call.fine (lk : Lock) (c : Call σ) : List (Instr σ) := sectN lk (c.1 ++ [c.2])
/-- … and as the model has it: one atomic block -/
def Call.atomic (lk : Lock) (c : Call σ) : List (Instr σ) := sect lk (pipe (c.1 ++ [c.2]))

def fineProg (lk : Lock) (cs : List (Call σ)) : List (Instr σ) := (cs.map (Call.fine lk)).flatten
def atomicProg (lk : Lock) (cs : List (Call σ)) : List (Instr σ) := (cs.map (Call.atomic lk)).flatten

theorem annot_blks (h : List Lock) (fs : List (σ → σ)) (q : List (Instr σ)) (b : ABlk σ)
    (hb : b ∈ annot h (fs.map .blk ++ q)) : b.1 = h ∨ b ∈ annot h q := by
  induction fs with
  | nil => exact Or.inr (by simpa using hb)
  | cons f fs ih =>
    simp only [List.map_cons, List.cons_append, annot, List.mem_cons] at hb
    rcases hb with rfl | hb
    · exact Or.inl rfl
    · exact ih hb

theorem annot_fineProg (lk : Lock) (cs : List (Call σ)) (b : ABlk σ) (hb : b ∈ annot [] (fineProg lk cs)) :
    b.1 = [lk] := by
  induction cs with
  | nil => simp [fineProg] at hb
  | cons c cs ih =>
    have e : fineProg lk (c :: cs) = .acq lk :: ((c.1 ++ [c.2]).map .blk ++ (.rel lk :: fineProg lk cs)) := by
      simp [fineProg, Call.fine, sectN]
    rw [e] at hb
    simp only [annot] at hb
    rcases annot_blks [lk] _ _ b hb with h | h
    · exact h
    · simp only [annot, List.erase_cons_head] at h
      exact ih h

theorem discipline_fine (lk : Lock) (threads : List (List (Call σ))) : Discipline (threads.map (fineProg lk)) := by
  apply discipline_of_perLock
  intro t u _ a b ha hb l hla hlb
  obtain ⟨p, hp, hmem⟩ := ha
  obtain ⟨q, hq, hmem'⟩ := hb
  simp only [List.getElem?_map, Option.map_eq_some_iff] at hp hq
  obtain ⟨cs, _, rfl⟩ := hp
  obtain ⟨ds, _, rfl⟩ := hq
  rw [annot_fineProg lk cs a hmem] at hla
  rw [annot_fineProg lk ds b hmem'] at hlb
  exact absurd hla hlb

theorem fuse_fineProg (lk : Lock) (cs : List (Call σ)) : fuse (fineProg lk cs) = atomicProg lk cs := by
  unfold fineProg atomicProg
  rw [fuse_flatten (fun _ => 0)]
  · simp only [List.map_map]
    congr 1
    apply List.map_congr_left
    intro c _
    exact fuse_sectN lk c.1 c.2
  · intro p hp
    simp only [List.mem_map] at hp
    obtain ⟨c, _, rfl⟩ := hp
    exact WFp_sectN _ lk _

/-- SERIALISABILITY OF METHOD CALLS UNDER ONE LOCK.  Any number of threads, each performing any list of calls, every
call being an arbitrary sequence of micro-steps inside one section of the same lock: every complete instruction-level
schedule ends in a shared state that a complete schedule of the ATOMIC system (every call one indivisible block — the
`step` of the clustering model) also produces. -/
theorem calls_atomic (lk : Lock) (threads : List (List (Call σ))) (x : σ) (sched : List ThreadId)
    (hfin : finished (run (mkSys x (threads.map (fineProg lk))) sched) = true) :
    ∃ csched, csched.Sublist sched ∧ finished (run (mkSys x (threads.map (atomicProg lk))) csched) = true ∧
      (run (mkSys x (threads.map (atomicProg lk))) csched).sh = (run (mkSys x (threads.map (fineProg lk))) sched).sh := by
  obtain ⟨c, h0, h1, h2⟩ := reduction_complete _ (discipline_fine lk threads) x sched hfin
  have e : (threads.map (fineProg lk)).map fuse = threads.map (atomicProg lk) := by
    simp only [List.map_map]
    apply List.map_congr_left
    intro cs _
    exact fuse_fineProg lk cs
  rw [e] at h1 h2
  exact ⟨c, h0, h1, h2⟩

/-- … and at every point of ANY (also incomplete) schedule at which no thread is inside a call, the shared state
satisfies every predicate that holds in all states of the atomic system (e.g. the invariant `Inv`) -/
theorem calls_atomic_invariant (lk : Lock) (threads : List (List (Call σ))) (x : σ) (P : σ → Prop)
    (hP : ∀ csched, P (run (mkSys x (threads.map (atomicProg lk))) csched).sh) (sched : List ThreadId)
    (hq : Quiescent (run (mkSys x (threads.map (fineProg lk))) sched)) :
    P (run (mkSys x (threads.map (fineProg lk))) sched).sh := by
  have e : (threads.map (fineProg lk)).map fuse = threads.map (atomicProg lk) := by
    simp only [List.map_map]
    apply List.map_congr_left
    intro cs _
    exact fuse_fineProg lk cs
  apply reduction_quiescent _ (discipline_fine lk threads) x P _ sched hq
  rw [e]; exact hP

end FlexModel.Vru.Atomic

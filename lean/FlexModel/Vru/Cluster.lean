/-
Model of `VBSClusteringManager` (src/flexstack/facilities/vru_awareness_service/vru_clustering.py).

* Time: integer milliseconds; the manager reads its clock (`time_fn`) inside every method, the model keeps the
  clock in the state (`now`) and the event `tick d` advances it (so every history has a non-decreasing clock).
  `now - t ≥ c` is truncated subtraction: for `t > now` Python's negative difference and `0` give the same
  answer for every positive constant `c`.
* Positions: integer grid in centimetres supplied by the harness (the code uses the haversine distance of
  float degrees; the harness keeps away from the 5 m threshold by a margin).
* Reasons are the ASN.1 numbers of `ClusterLeaveReason` / `ClusterBreakupReason`.
* `Variant` selects code variants at three sites: `cpmFrees` (known finding C18-KF1, `false` = the code as it
  is), `hbAny` and `tupleFails` (behaviour before the two `fix:` commits, kept for the `_witness` theorems and so
  that the harness can still compare against an unrepaired tree); likewise `joinHidesLeave`, `createDuringNotify`,
  `cancelHidesLeave`.
* `err` is set where a Python `assert … is not None` would fire; `Props.C18` proves it never does.
-/
import Generated.VamConstants

namespace FlexModel.Vru
open Generated.VamConstants

inductive VState | idle | standalone | leader | passive
  deriving DecidableEq, Repr, Inhabited

inductive JoinSub | none | notify | waiting | joined | cancelled | failed
  deriving DecidableEq, Repr, Inhabited

structure Variant where
  /-- break-up with reason receptionOfCpmContainingCluster frees the member like every other reason -/
  cpmFrees : Bool := false
  /-- (old) any VAM from the leader's station refreshes the leader-lost timer -/
  hbAny : Bool := false
  /-- (old) a decoded `("circular", …)` bounding box raises TypeError, swallowed as "malformed" -/
  tupleFails : Bool := false
  /-- (old) while a join is announced the operation container hides a running leave notification -/
  joinHidesLeave : Bool := false
  /-- (old) a cluster can be created while a join/leave notification of the individual VAMs is running -/
  createDuringNotify : Bool := false
  /-- (old) the notice of a cancelled join takes the `clusterLeaveInfo` slot at once, cutting a running leave
  notification of the cluster left before short (repaired: the cancelled-join notice is queued behind it) -/
  cancelHidesLeave : Bool := false
  deriving DecidableEq, Repr, Inhabited

/-- `_ClusterState` -/
structure OwnCluster where
  cid : Nat
  card : Nat
  radius : Nat
  breakupStarted : Option Nat
  breakupReason : Option Nat
  pending : List Nat
  deriving DecidableEq, Repr, Inhabited

structure NearbyVru where
  station : Nat
  x : Int
  y : Int
  lastSeen : Nat
  deriving DecidableEq, Repr, Inhabited

structure NearbyCluster where
  cid : Nat
  leader : Nat
  card : Nat
  lastSeen : Nat
  deriving DecidableEq, Repr, Inhabited

/-- bounding-box shape of a received cluster information container, as far as the code looks at it -/
inductive Shape | absent | circular | other
  deriving DecidableEq, Repr, Inhabited

/-- what the receive path makes of an alternative of the `clusterBoundingBoxShape` CHOICE (named as in the ASN.1
module): the radius is read from `circular`, every other alternative is a cluster without a usable radius -/
def Shape.ofAlternative (alt : String) : Shape := if alt = "circular" then .circular else .other

/-- decoded `VruClusterInformationContainer` -/
structure Info where
  cid : Option Nat        -- clusterId is OPTIONAL (`.get("clusterId", 0)`)
  card : Nat
  shape : Shape
  deriving DecidableEq, Repr, Inhabited

/-- decoded `VruClusterOperationContainer`: join (cluster id), leave (cluster id), break-up (reason) -/
structure OpC where
  join : Option Nat
  leave : Option Nat
  breakup : Option Nat
  deriving DecidableEq, Repr, Inhabited

/-- decoded VAM as far as `_process_received_vam` reads it -/
structure Vam where
  sender : Nat
  x : Int
  y : Int
  info : Option Info
  op : Option OpC
  deriving DecidableEq, Repr, Inhabited

structure St where
  now : Nat
  state : VState
  cluster : Option OwnCluster
  joined : Option Nat
  leader : Option Nat
  last : Option Nat                -- _last_leader_vam_time
  joinSub : JoinSub
  joinTarget : Option Nat
  joinStarted : Option Nat
  joinLeaveReason : Option Nat
  joinLeaveStarted : Option Nat
  leaveNotify : Bool               -- _leave_substate is NOTIFY
  leaveReason : Option Nat
  leaveCid : Option Nat
  leaveStarted : Option Nat
  vrus : List NearbyVru
  clusters : List NearbyCluster
  seen : List (Nat × Nat)          -- cluster id ↦ first-seen time
  profiles : Nat                   -- own profile as the bit mask of `_encode_cluster_profiles`
  err : Bool
  deriving DecidableEq, Repr, Inhabited

def St.init (now profiles : Nat) : St :=
  { now := now, state := .standalone, cluster := none, joined := none, leader := none, last := none,
    joinSub := .none, joinTarget := none, joinStarted := none, joinLeaveReason := none, joinLeaveStarted := none,
    leaveNotify := false, leaveReason := none, leaveCid := none, leaveStarted := none,
    vrus := [], clusters := [], seen := [], profiles := profiles, err := false }

inductive Op
  | tick (d : Nat)
  | roleOn
  | roleOff
  | tryCreate (x y : Int) (rs : List Nat)     -- rs: values returned by random.randint(1, 255)
  | initiateJoin (cid : Nat)
  | cancelJoin
  | confirmJoinFailed
  | leave (reason : Nat)
  | breakup (reason : Nat)
  | update
  | recv (v : Vam)
  deriving DecidableEq, Repr, Inhabited

/-- return value of a command: `none` for methods returning None -/
abbrev Ret := Option Bool

/-! ## commanded transitions -/

def roleOn (s : St) : St :=
  if s.state = .idle then { s with state := .standalone } else s

def roleOff (s : St) : St :=
  { s with state := .idle, cluster := none, joined := none, leader := none, last := none,
           joinSub := .none, leaveNotify := false }

def distSq (x1 y1 x2 y2 : Int) : Int := (x1 - x2) * (x1 - x2) + (y1 - y2) * (y1 - y2)

/-- number of fresh nearby VRUs within MAX_CLUSTER_DISTANCE (grid unit: cm) -/
def nearbyCount (s : St) (x y : Int) : Nat :=
  (s.vrus.filter (fun v => decide (s.now - v.lastSeen < tGenVamMax) &&
     decide (distSq x y v.x v.y ≤ ((maxClusterDistance * 100 : Nat) : Int) * ((maxClusterDistance * 100 : Nat) : Int)))).length

def pruneSeen (s : St) : List (Nat × Nat) :=
  s.seen.filter (fun p => decide (s.now - p.2 < timeClusterUniquenessThreshold))

def seenHas (l : List (Nat × Nat)) (c : Nat) : Bool := l.any (fun p => p.1 == c)

/-- `_generate_unique_cluster_id` with the draws of `random.randint(1, 255)` given as `rs` (≤ 100 tries) -/
def pickId (recent : List (Nat × Nat)) (rs : List Nat) : Option Nat :=
  (rs.take 100).find? (fun c => !seenHas recent c)

def tryCreate (var : Variant) (s : St) (x y : Int) (rs : List Nat) : St × Ret :=
  if s.state ≠ .standalone then (s, some false)
  else if var.createDuringNotify = false ∧ (s.joinSub ≠ .none ∨ s.leaveNotify = true) then (s, some false)
  else if nearbyCount s x y < numCreateCluster then (s, some false)
  else
    let recent := pruneSeen s
    let s := { s with seen := recent }
    match pickId recent rs with
    | none => (s, some false)
    | some cid =>
      ({ s with cluster := some { cid := cid, card := minClusterSize, radius := maxClusterDistance,
                                  breakupStarted := none, breakupReason := none, pending := [] },
                state := .leader }, some true)

def initiateJoin (s : St) (cid : Nat) : St × Ret :=
  if s.state ≠ .standalone then (s, some false)
  else if s.joinSub ≠ .none then (s, some false)
  else ({ s with joinSub := .notify, joinTarget := some cid, joinStarted := some s.now }, some true)

def cancelJoin (s : St) : St :=
  if s.joinSub = .notify ∨ s.joinSub = .waiting then
    { s with joinLeaveReason := some leaveCancelledJoin, joinLeaveStarted := some s.now, joinSub := .cancelled }
  else s

def confirmJoinFailed (s : St) : St :=
  if s.joinSub = .waiting then
    { s with joinLeaveReason := some leaveFailedJoin, joinLeaveStarted := some s.now, joinSub := .failed }
  else s

/-- `_do_leave_to_standalone` -/
def doLeave (s : St) (reason : Nat) : St :=
  { s with leaveNotify := true, leaveReason := some reason, leaveCid := s.joined, leaveStarted := some s.now,
           joined := none, leader := none, last := none, joinSub := .none, joinTarget := none,
           state := .standalone }

def leave (s : St) (reason : Nat) : St :=
  if s.state = .passive then doLeave s reason
  else if s.state = .standalone ∧ s.joinSub = .notify then cancelJoin s
  else s

def breakup (s : St) (reason : Nat) : St × Ret :=
  if s.state ≠ .leader then (s, some false)
  else match s.cluster with
    | none => (s, some false)
    | some c =>
      if c.breakupStarted.isSome then (s, some false)
      else ({ s with cluster := some { c with breakupStarted := some s.now, breakupReason := some reason } }, some true)

/-! ## time-driven transitions -/

def expire (s : St) : St :=
  { s with vrus := s.vrus.filter (fun v => decide (s.now - v.lastSeen < tGenVamMax)),
           clusters := s.clusters.filter (fun c => decide (s.now - c.lastSeen < tGenVamMax)) }

def clearLeave (s : St) : St :=
  { s with leaveNotify := false, leaveReason := none, leaveCid := none, leaveStarted := none }

/-- the leave-notification part shared by `_update_standalone` and `_update_passive` -/
def updLeaveNotify (s : St) : St :=
  if s.leaveNotify then
    match s.leaveStarted with
    | some t => if s.now - t ≥ timeClusterLeaveNotification then clearLeave s else s
    | none => { s with err := true }
  else s

def updJoin (var : Variant) (s : St) : St :=
  match s.joinSub with
  | .notify =>
    match s.joinStarted with
    | some t =>
      if s.now - t ≥ timeClusterJoinNotification then
        { s with joinSub := .waiting, joinStarted := some s.now, state := .standalone }
      else s
    | none => { s with err := true }
  | .waiting =>
    match s.joinStarted with
    | some t => if s.now - t ≥ timeClusterJoinSuccess then confirmJoinFailed s else s
    | none => { s with err := true }
  | .cancelled | .failed =>
    match s.joinLeaveStarted with
    | some t =>
      -- the one `clusterLeaveInfo` is still taken by the leave notification of the cluster left before:
      -- the notice of the cancelled join starts (for its full duration) when that one is over
      if var.cancelHidesLeave = false ∧ s.leaveNotify = true then { s with joinLeaveStarted := some s.now }
      else if s.now - t ≥ timeClusterLeaveNotification then
        { s with joinSub := .none, joinTarget := none, joinLeaveReason := none, joinLeaveStarted := none }
      else s
    | none => { s with err := true }
  | _ => s

def updStandalone (var : Variant) (s : St) : St := updLeaveNotify (updJoin var s)

def updLeader (s : St) : St :=
  match s.cluster with
  | none => s
  | some c =>
    match c.breakupStarted with
    | some t =>
      if s.now - t ≥ timeClusterBreakupWarning then { s with cluster := none, state := .standalone } else s
    | none => s

def updPassive (s : St) : St :=
  match s.last with
  | some t =>
    if s.now - t ≥ timeClusterContinuity then doLeave s leaveLeaderLost else updLeaveNotify s
  | none => updLeaveNotify s

def update (var : Variant) (s : St) : St :=
  let s := expire s
  match s.state with
  | .standalone => updStandalone var s
  | .leader => updLeader s
  | .passive => updPassive s
  | .idle => s

/-! ## received VAM -/

def upsertVru (l : List NearbyVru) (v : NearbyVru) : List NearbyVru :=
  l.filter (fun w => w.station != v.station) ++ [v]

def upsertCluster (l : List NearbyCluster) (c : NearbyCluster) : List NearbyCluster :=
  l.filter (fun w => w.cid != c.cid) ++ [c]

/-- `_complete_join` -/
def completeJoin (s : St) (ldr : Nat) : St :=
  { s with joinSub := .joined, joined := s.joinTarget, leader := some ldr, last := some s.now, state := .passive }

def recvInfo (s : St) (sender : Nat) (i : Info) : St :=
  let cid := i.cid.getD 0
  let s := { s with clusters := upsertCluster s.clusters { cid := cid, leader := sender, card := i.card, lastSeen := s.now },
                    seen := if seenHas s.seen cid then s.seen else s.seen ++ [(cid, s.now)] }
  if s.state = .standalone ∧ s.joinSub = .waiting ∧ s.joinTarget = some cid then completeJoin s sender else s

def setCard (c : OwnCluster) (p : List Nat) : OwnCluster :=
  { c with pending := p, card := max minClusterSize (p.length + 1) }

def trackJoin (c : OwnCluster) (sender : Nat) (o : OpC) : OwnCluster :=
  if o.join = some c.cid then setCard c (if c.pending.contains sender then c.pending else sender :: c.pending) else c

def trackLeave (c : OwnCluster) (sender : Nat) (o : OpC) : OwnCluster :=
  if o.leave = some c.cid then setCard c (c.pending.filter (· != sender)) else c

def leaderTrack (c : OwnCluster) (sender : Nat) (o : OpC) : OwnCluster :=
  trackLeave (trackJoin c sender o) sender o

/-- the leader tracks join/leave notifications for its own cluster -/
def recvTrack (s : St) (sender : Nat) (o : OpC) : St :=
  match s.state, s.cluster with
  | .leader, some c => { s with cluster := some (leaderTrack c sender o) }
  | _, _ => s

/-- break-up indication with reason `r` heard from `sender` -/
def recvBreakup (var : Variant) (s : St) (sender : Nat) (r : Nat) : St :=
  if s.state = .passive ∧ (s.leader = some sender ∨ s.joined = some 0) then
    if r = breakupCpm ∧ var.cpmFrees = false then s else doLeave s leaveDisbandedByLeader
  else s

def recvOp (var : Variant) (s : St) (sender : Nat) (o : OpC) : St :=
  let s := recvTrack s sender o
  match o.breakup with
  | some r => recvBreakup var s sender r
  | none => s

/-- does this VAM count as a sign of life of the joined cluster? -/
def isHeartbeat (var : Variant) (s : St) (v : Vam) : Bool :=
  s.state = .passive && s.leader == some v.sender &&
    (var.hbAny || (match v.info with | some i => s.joined == some (i.cid.getD 0) | none => false))

def recvVrus (s : St) (v : Vam) : St :=
  { s with vrus := upsertVru s.vrus { station := v.sender, x := v.x, y := v.y, lastSeen := s.now } }

/-- (old) `bbox["circular"]` on the decoded tuple raises TypeError: the rest of the VAM is skipped -/
def recvAborted (var : Variant) (v : Vam) : Bool :=
  var.tupleFails && (match v.info with | some i => i.shape == .circular | none => false)

def recvInfoOpt (s : St) (v : Vam) : St :=
  match v.info with | some i => recvInfo s v.sender i | none => s

def recvOpOpt (var : Variant) (s : St) (v : Vam) : St :=
  match v.op with | some o => recvOp var s v.sender o | none => s

def recvHb (var : Variant) (s : St) (v : Vam) : St :=
  if isHeartbeat var s v then { s with last := some s.now } else s

def recv (var : Variant) (s : St) (v : Vam) : St :=
  let s := recvVrus s v
  if recvAborted var v then s else recvHb var (recvOpOpt var (recvInfoOpt s v) v) v

/-! ## step -/

def step (var : Variant) (s : St) : Op → St × Ret
  | .tick d => ({ s with now := s.now + d }, none)
  | .roleOn => (roleOn s, none)
  | .roleOff => (roleOff s, none)
  | .tryCreate x y rs => tryCreate var s x y rs
  | .initiateJoin cid => initiateJoin s cid
  | .cancelJoin => (cancelJoin s, none)
  | .confirmJoinFailed => (confirmJoinFailed s, none)
  | .leave r => (leave s r, none)
  | .breakup r => breakup s r
  | .update => (update var s, none)
  | .recv v => (recv var s v, none)

def run (var : Variant) (s : St) (ops : List Op) : St := ops.foldl (fun s o => (step var s o).1) s

/-! ## queries -/

def shouldTransmit (s : St) : Bool :=
  match s.state with
  | .idle => false
  | .passive => s.leaveNotify
  | _ => true

/-- (clusterId, radius, cardinality, profile mask) -/
def infoContainer (s : St) : Option (Nat × Nat × Nat × Nat) :=
  match s.state, s.cluster with
  | .leader, some c => some (c.cid, max 1 c.radius, c.card, s.profiles)
  | _, _ => none

/-- `VruClusterOperationContainer` as emitted: join (cluster id, joinTime), leave (cluster id, reason),
break-up (reason, breakupTime); times in quarter seconds -/
structure OpOut where
  join : Option (Nat × Nat) := none
  leave : Option (Nat × Nat) := none
  breakup : Option (Nat × Nat) := none
  deriving DecidableEq, Repr, Inhabited

def OpOut.orNone (o : OpOut) : Option OpOut :=
  if o.join.isNone ∧ o.leave.isNone ∧ o.breakup.isNone then none else some o

/-- `max(1, min(127, int(max(0, total − elapsed) / 0.25 s)))` (DeltaTimeQuarterSecond is 1..127) -/
def quarters (left : Nat) : Nat := max 1 (min 127 (left / 250))

/-- join time left, `started or now` included -/
def quarterLeft (now : Nat) (started : Option Nat) (total : Nat) : Nat :=
  let st := match started with | some t => if t = 0 then now else t | none => now
  quarters (total - (now - st))

/-- the `clusterLeaveInfo` of a leave notification after cluster membership -/
def leaveOut (s : St) : Option (Nat × Nat) :=
  if s.leaveNotify then some (s.leaveCid.getD 0, s.leaveReason.getD leaveNotProvided) else none

def standaloneOp (var : Variant) (s : St) : OpOut :=
  if s.joinSub = .notify then
    { join := some (s.joinTarget.getD 0, quarterLeft s.now s.joinStarted timeClusterJoinNotification),
      leave := if var.joinHidesLeave then none else leaveOut s }
  else if var.cancelHidesLeave = false ∧ s.leaveNotify = true then { leave := leaveOut s }
  else if s.joinSub = .cancelled ∨ s.joinSub = .failed then
    { leave := some (s.joinTarget.getD 0, s.joinLeaveReason.getD leaveNotProvided) }
  else { leave := leaveOut s }

def opContainer (var : Variant) (s : St) : Option OpOut :=
  match s.state with
  | .standalone => (standaloneOp var s).orNone
  | .passive => ({ leave := leaveOut s } : OpOut).orNone
  | .leader =>
    match s.cluster with
    | none => none
    | some c =>
      match c.breakupStarted with
      | some t =>
        -- `elapsed = now - breakup_started` (no `or now` here)
        some { breakup := some (c.breakupReason.getD breakupNotProvided,
                                quarters (timeClusterBreakupWarning - (s.now - t))) }
      | none => none
  | .idle => none

/-- the operation container as the peer's decoder returns it (cluster ids and the break-up reason; the time fields
are not read by `_process_received_vam`) -/
def OpOut.toOpC (o : OpOut) : OpC :=
  { join := o.join.map (·.1), leave := o.leave.map (·.1), breakup := o.breakup.map (·.1) }

/-- THE VAM A STATION PUTS ON THE AIR, as far as the peers' clustering managers read it: sender and position are the
station's own, the two cluster containers are exactly what `get_cluster_information_container()` /
`get_cluster_operation_container()` return (`VAMTransmissionManagement` attaches them unchanged; the information
container always carries a circular bounding box).  `none` when the station may not transmit. -/
def emitVam (var : Variant) (sid : Nat) (x y : Int) (s : St) : Option Vam :=
  if shouldTransmit s then
    some { sender := sid, x := x, y := y,
           info := (infoContainer s).map (fun c => { cid := some c.1, card := c.2.2.1, shape := .circular }),
           op := (opContainer var s).map OpOut.toOpC }
  else none

def clusterId (s : St) : Option Nat :=
  match s.state, s.cluster with
  | .leader, some c => some c.cid
  | .passive, _ => s.joined
  | _, _ => none

end FlexModel.Vru

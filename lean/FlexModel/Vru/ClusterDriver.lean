/-
Line-protocol driver of the clustering model.

  new <cpmFrees> <hbAny> <tupleFails> <joinHidesLeave> <createDuringNotify> <cancelHidesLeave> <profiles> <now>   fresh manager
  save                                                       remember the current state (one slot)
  emit <sid> <x> <y>                                         the VAM the current state puts on the air (`emitVam`), in
                                                             the syntax of the `recv` op; `none` if it may not transmit
  [@] <d> <op> …                                             `@`: restore the slot first; advance the clock by d ms; apply op
     on | off | create <x> <y> <r1,r2,…|-> | join <cid> | cancel | jfail | leave <r> | brk <r> | upd | nop
     recv <sender> <x> <y> <info> <op>      info = - | <cid|->,<card>,<a|c|o>     op = - | <j|->,<l|->,<b|->
Output: one observation line (public API) followed by ` # ` and a digest of the whole state (ages relative to now).
-/
import FlexModel.Proto
import FlexModel.Vru.Cluster
namespace FlexModel.Vru
open FlexModel.Proto

structure DState where
  var : Variant := {}
  cur : St := St.init 0 0
  slot : St := St.init 0 0

def optNat? (s : String) : Option (Option Nat) :=
  if s = "-" then some none else (nat? s).map some

def natList? (s : String) : Option (List Nat) :=
  if s = "-" then some [] else (s.splitOn ",").mapM nat?

def info? (s : String) : Option (Option Info) :=
  if s = "-" then some none else
  match s.splitOn "," with
  | [c, k, sh] =>
    match optNat? c, nat? k, (match sh with | "a" => some Shape.absent | "c" => some Shape.circular | "o" => some Shape.other | _ => none) with
    | some c, some k, some sh => some (some { cid := c, card := k, shape := sh })
    | _, _, _ => none
  | _ => none

def opc? (s : String) : Option (Option OpC) :=
  if s = "-" then some none else
  match s.splitOn "," with
  | [j, l, b] =>
    match optNat? j, optNat? l, optNat? b with
    | some j, some l, some b => some (some { join := j, leave := l, breakup := b })
    | _, _, _ => none
  | _ => none

def parseOp : List String → Option (Option Op)     -- `some none` = nop
  | ["nop"] => some none
  | ["on"] => some (some .roleOn)
  | ["off"] => some (some .roleOff)
  | ["create", x, y, rs] =>
    match int? x, int? y, natList? rs with
    | some x, some y, some rs => some (some (.tryCreate x y rs))
    | _, _, _ => none
  | ["join", c] => (nat? c).map (fun c => some (.initiateJoin c))
  | ["cancel"] => some (some .cancelJoin)
  | ["jfail"] => some (some .confirmJoinFailed)
  | ["leave", r] => (nat? r).map (fun r => some (.leave r))
  | ["brk", r] => (nat? r).map (fun r => some (.breakup r))
  | ["upd"] => some (some .update)
  | ["recv", sd, x, y, i, o] =>
    match nat? sd, int? x, int? y, info? i, opc? o with
    | some sd, some x, some y, some i, some o => some (some (.recv { sender := sd, x := x, y := y, info := i, op := o }))
    | _, _, _, _, _ => none
  | _ => none

def showOpt (o : Option Nat) : String := match o with | some n => toString n | none => "-"

def showState : VState → String
  | .idle => "I" | .standalone => "S" | .leader => "L" | .passive => "P"

def showRet : Ret → String
  | none => "N" | some true => "T" | some false => "F"

def showPair (tag : String) : Option (Nat × Nat) → String
  | some (a, b) => s!"{tag}:{a}:{b}"
  | none => ""

def showOpOut : Option OpOut → String
  | none => "-"
  | some o => "/".intercalate ([showPair "j" o.join, showPair "l" o.leave, showPair "b" o.breakup].filter (· ≠ ""))

def observe (var : Variant) (s : St) (r : Ret) : String :=
  let info := match infoContainer s with
    | some (c, rad, k, p) => s!"{c},{rad},{k},{p}"
    | none => "-"
  s!"ret={showRet r} st={showState s.state} tx={if shouldTransmit s then 1 else 0} cid={showOpt (clusterId s)} " ++
  s!"info={info} op={showOpOut (opContainer var s)} nv={s.vrus.length} nc={s.clusters.length} err={if s.err then 1 else 0} " ++
  s!"mem={showOpt s.joined},{showOpt s.leader},{match s.last with | some t => toString (s.now - t) | none => "-"}"

def age (now cap : Nat) (t : Option Nat) : String :=
  match t with | some t => toString (min cap (now - t)) | none => "-"

def showJoin : JoinSub → String
  | .none => "0" | .notify => "n" | .waiting => "w" | .joined => "j" | .cancelled => "c" | .failed => "f"

/-- canonical state: ages relative to `now`, capped at the threshold beyond which they no longer matter;
fields that are dead in the current sub-state (overwritten before they are read again) are dropped -/
def digest (s : St) : String :=
  let n := s.now
  let cl := match s.cluster with
    | some c => s!"{c.cid}/{c.card}/{age n 3000 c.breakupStarted}/{showOpt c.breakupReason}/{joinNat (c.pending.mergeSort (· ≤ ·))}"
    | none => "-"
  let vr := (s.vrus.mergeSort (fun a b => a.station ≤ b.station)).map
    (fun v => s!"{v.station}@{v.x},{v.y},{min 5000 (n - v.lastSeen)}")
  let cs := (s.clusters.mergeSort (fun a b => a.cid ≤ b.cid)).map (fun c => s!"{c.cid}:{min 5000 (n - c.lastSeen)}")
  let sn := (s.seen.mergeSort (fun a b => a.1 ≤ b.1)).map (fun p => s!"{p.1}:{min 30000 (n - p.2)}")
  let jn := match s.joinSub with
    | .notify => s!"n {showOpt s.joinTarget} {age n 3000 s.joinStarted}"
    | .waiting => s!"w {showOpt s.joinTarget} {age n 500 s.joinStarted}"
    | .cancelled => s!"c {showOpt s.joinTarget} {showOpt s.joinLeaveReason} {age n 1000 s.joinLeaveStarted}"
    | .failed => s!"f {showOpt s.joinTarget} {showOpt s.joinLeaveReason} {age n 1000 s.joinLeaveStarted}"
    | .joined => "j"
    | .none => "0"
  let lv := if s.leaveNotify then s!"{showOpt s.leaveReason} {showOpt s.leaveCid} {age n 1000 s.leaveStarted}" else "-"
  s!"{showState s.state} {cl} {showOpt s.joined} {showOpt s.leader} {age n 2000 s.last} {jn} | {lv} ## " ++
  s!"[{" ".intercalate vr}] [{" ".intercalate cs}] [{" ".intercalate sn}]"

def out (var : Variant) (s : St) (r : Ret) : String := observe var s r ++ " # " ++ digest s

def showShape : Shape → String
  | .absent => "a" | .circular => "c" | .other => "o"

/-- a VAM in the syntax of the `recv` op -/
def showVam : Option Vam → String
  | none => "none"
  | some v =>
    let i := match v.info with
      | some i => s!"{showOpt i.cid},{i.card},{showShape i.shape}"
      | none => "-"
    let o := match v.op with
      | some o => s!"{showOpt o.join},{showOpt o.leave},{showOpt o.breakup}"
      | none => "-"
    s!"recv {v.sender} {v.x} {v.y} {i} {o}"

def bit? (s : String) : Option Bool := match s with | "1" => some true | "0" => some false | _ => none

def clusterStep (d : DState) (t : List String) : DState × String :=
  match t with
  | ["new", a, b, c, e, f, g, p, now] =>
    match bit? a, bit? b, bit? c, bit? e, bit? f, bit? g, nat? p, nat? now with
    | some a, some b, some c, some e, some f, some g, some p, some now =>
      let s := St.init now p
      let var : Variant := { cpmFrees := a, hbAny := b, tupleFails := c, joinHidesLeave := e, createDuringNotify := f,
                             cancelHidesLeave := g }
      ({ d with var := var, cur := s }, out var s none)
    | _, _, _, _, _, _, _, _ => (d, "bad-op")
  | ["save"] => ({ d with slot := d.cur }, "ok")
  | ["emit", sid, x, y] =>
    match nat? sid, int? x, int? y with
    | some sid, some x, some y => (d, showVam (emitVam d.var sid x y d.cur))
    | _, _, _ => (d, "bad-op")
  | _ =>
    let (base, t) := match t with | "@" :: rest => (d.slot, rest) | _ => (d.cur, t)
    match t with
    | dt :: rest =>
      match nat? dt, parseOp rest with
      | some dt, some op =>
        let s := (step d.var base (.tick dt)).1
        let (s, r) := match op with | some op => step d.var s op | none => (s, none)
        ({ d with cur := s }, out d.var s r)
      | _, _ => (d, "bad-op")
    | [] => (d, "bad-op")

def clusterDomain : Domain := { σ := DState, init := {}, step := clusterStep }

end FlexModel.Vru

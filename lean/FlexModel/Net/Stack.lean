/-
Model of one station's transport path for C01: BTP header prepend/strip and port dispatch
(`flexstack.btp.router`), the GeoNetworking source operations SHB / GBC / GAC / GUC including the
Location Service buffers (`gn_data_request_*`, `gn_ls_request`, `gn_data_indicate_ls_*`), and the receive
side at the level of decoded packets (DAD, duplicate detection, area test, delivery, forwarding).
Byte layouts of the GN headers are C02's subject; here a packet is a record whose `data` field is the
octet string handed to / received from the GN layer (BTP header + payload).

Core Lean only.
-/
namespace FlexModel.Net

abbrev Addr := Nat
abbrev Bytes := List Nat
abbrev Area := Nat          -- an area identifier; geometry (C07) enters through `World.inside`

/-- who is inside which destination area (station positions are fixed during a run) -/
structure World where
  inside : Area → Addr → Bool

inductive Transport
  | shb
  | gbc (a : Area)
  | gac (a : Area)
  | guc (de : Addr)
deriving DecidableEq, Repr

/-- BTP-DATA.request as far as C01 needs it -/
structure Req where
  btpB : Bool        -- true: BTP-B (dport, dport info), false: BTP-A (dport, sport)
  dport : Nat
  info : Nat         -- destination port info (BTP-B) or source port (BTP-A)
  payload : Bytes
  transport : Transport
  hopLimit : Nat
  scfBlocked : Bool  -- SCF set and (no neighbour or no greedy progress): the packet would have to wait in a
                     -- forwarding buffer; those buffers are stubs, the code confirms ACCEPTED and sends nothing
deriving DecidableEq, Repr

/-! ### BTP header (EN 302 636-5-1 §7): two 16-bit big-endian fields in front of the payload -/

def u16be (v : Nat) : Bytes := [v / 256 % 256, v % 256]

def btpEncode (r : Req) : Bytes := u16be r.dport ++ u16be r.info ++ r.payload

def u16at (d : Bytes) (i : Nat) : Nat := d.getD i 0 * 256 + d.getD (i + 1) 0

/-- `BTPAHeader.decode` / `BTPBHeader.decode` + the payload the indication carries -/
def btpDecode (d : Bytes) : Nat × Nat × Bytes := (u16at d 0, u16at d 2, d.drop 4)

/-! ### Packets (decoded view) -/

inductive Kind
  | shb
  | gbc (a : Area)
  | gac (a : Area)
  | guc (de : Addr)
  | lsReq (sought : Addr)
  | lsRep (de : Addr)
deriving DecidableEq, Repr

structure Pkt where
  so : Addr          -- source address (SO PV address)
  soPos : Nat        -- source position vector (opaque value: the ego PV at request time)
  sn : Nat           -- sequence number (unused for SHB)
  kind : Kind
  btpB : Bool        -- common-header NH: BTP-B / BTP-A
  rhl : Nat
  data : Bytes       -- GN payload = BTP header ++ payload
deriving DecidableEq, Repr

/-- one invocation of a port handler (BTP-DATA.indication) -/
structure Delivery where
  port : Nat
  info : Nat
  btpB : Bool
  payload : Bytes
  so : Addr
  soPos : Nat
  kind : Kind
deriving DecidableEq, Repr

structure Station where
  addr : Addr
  pos : Nat                          -- current ego position vector (opaque)
  sn : Nat := 0                      -- last allocated sequence number
  defaultHops : Nat := 10
  known : List Addr := []            -- location table entries with a real position vector
  pending : List (Addr × List Req) := []   -- location-service lookups in progress with their packet buffers
  seen : List (Addr × Nat) := []     -- duplicate packet list: (source, SN) already processed
  ports : List Nat := []             -- ports with a registered (frozen) handler
  delivered : List Delivery := []    -- handler invocations so far, oldest first
deriving Repr

def hops (s : Station) (r : Req) : Nat := if r.hopLimit ≤ 1 then s.defaultHops else r.hopLimit

def lookupPending (p : List (Addr × List Req)) (a : Addr) : Option (List Req) :=
  (p.find? (fun e => e.1 = a)).map (·.2)

def setPending (p : List (Addr × List Req)) (a : Addr) (q : List Req) : List (Addr × List Req) :=
  if p.any (fun e => e.1 = a) then p.map (fun e => if e.1 = a then (a, q) else e) else p ++ [(a, q)]

def erasePending (p : List (Addr × List Req)) (a : Addr) : List (Addr × List Req) :=
  p.filter (fun e => e.1 ≠ a)

/-- a GeoUnicast data packet for request `r` to `de` with sequence number `sn` -/
def gucPkt (s : Station) (r : Req) (de : Addr) (sn : Nat) : Pkt :=
  { so := s.addr, soPos := s.pos, sn := sn, kind := .guc de, btpB := r.btpB, rhl := hops s r, data := btpEncode r }

/-- BTP-DATA.request → BTP router → GN router source operations. -/
def request (s : Station) (r : Req) : Station × List Pkt :=
  match r.transport with
  | .shb =>
    (s, [{ so := s.addr, soPos := s.pos, sn := 0, kind := .shb, btpB := r.btpB, rhl := 1, data := btpEncode r }])
  | .gbc a =>
    let sn := s.sn + 1
    ({ s with sn := sn },
      if r.scfBlocked then [] else
      [{ so := s.addr, soPos := s.pos, sn := sn, kind := .gbc a, btpB := r.btpB, rhl := hops s r, data := btpEncode r }])
  | .gac a =>
    let sn := s.sn + 1
    ({ s with sn := sn },
      if r.scfBlocked then [] else
      [{ so := s.addr, soPos := s.pos, sn := sn, kind := .gac a, btpB := r.btpB, rhl := hops s r, data := btpEncode r }])
  | .guc de =>
    match lookupPending s.pending de with
    | some q => ({ s with pending := setPending s.pending de (q ++ [r]) }, [])      -- lookup in progress: queue
    | none =>
      if s.known.contains de then
        let sn := s.sn + 1
        ({ s with sn := sn }, if r.scfBlocked then [] else [gucPkt s r de sn])
      else
        let sn := s.sn + 1
        ({ s with sn := sn, pending := setPending s.pending de [r] },
          [{ so := s.addr, soPos := s.pos, sn := sn, kind := .lsReq de, btpB := false, rhl := s.defaultHops, data := [] }])

/-- `btp_data_indication`: strip the BTP header, hand the payload to the handler of the destination port -/
def deliver (s : Station) (p : Pkt) : Station :=
  let (dport, info, payload) := btpDecode p.data
  if s.ports.contains dport then
    { s with delivered := s.delivered ++
        [{ port := dport, info := info, btpB := p.btpB, payload := payload, so := p.so, soPos := p.soPos, kind := p.kind }] }
  else s

def learn (s : Station) (a : Addr) : Station :=
  if s.known.contains a then s else { s with known := s.known ++ [a] }

def forwardCopy (p : Pkt) : List Pkt := if 1 < p.rhl then [{ p with rhl := p.rhl - 1 }] else []

/-- flush of the LS packet buffer after the reply: the buffered requests are re-issued in order -/
def flush (s : Station) (de : Addr) : List Req → Station × List Pkt
  | [] => (s, [])
  | r :: rs =>
    let sn := s.sn + 1
    let s1 := { s with sn := sn }
    let (s2, out) := flush s1 de rs
    (s2, if r.scfBlocked then out else gucPkt s r de sn :: out)

/-- reception of one packet from the medium (`gn_data_indicate` on a decodable, unsecured frame) -/
def receive (w : World) (s : Station) (p : Pkt) : Station × List Pkt :=
  if p.so = s.addr then (s, [])                                   -- duplicate address detection: own packets
  else match p.kind with
  | .shb => (deliver (learn s p.so) p, [])
  | k =>
    if s.seen.contains (p.so, p.sn) then (s, [])                  -- duplicate packet detection
    else
      let s1 := learn { s with seen := s.seen ++ [(p.so, p.sn)] } p.so
      match k with
      | .shb => (s1, [])
      | .gbc a => (if w.inside a s.addr then deliver s1 p else s1, forwardCopy p)
      | .gac a => if w.inside a s.addr then (deliver s1 p, []) else (s1, forwardCopy p)
      | .guc de => if de = s.addr then (deliver s1 p, []) else (s1, forwardCopy p)
      | .lsReq sought =>
        if sought = s.addr then
          let sn := s1.sn + 1
          ({ s1 with sn := sn },
            [{ so := s.addr, soPos := s.pos, sn := sn, kind := .lsRep p.so, btpB := false, rhl := s.defaultHops, data := [] }])
        else (s1, forwardCopy p)
      | .lsRep de =>
        if de = s.addr then
          match lookupPending s1.pending p.so with
          | some q => flush { s1 with pending := erasePending s1.pending p.so } p.so q
          | none => (s1, [])
        else (s1, forwardCopy p)

def receiveAll (w : World) (s : Station) : List Pkt → Station × List Pkt
  | [] => (s, [])
  | p :: ps =>
    let (s1, o1) := receive w s p
    let (s2, o2) := receiveAll w s1 ps
    (s2, o1 ++ o2)

/-! ### Two stations on a reliable medium, synchronous exchange -/

/-- one request issued at `a`, with every induced transmission delivered before the next programme step:
a → b, b's emissions → a, a's emissions (LS flush) → b, b's emissions → a. `rest` = what is still in the air. -/
def exchange (w : World) (a b : Station) (r : Req) : Station × Station × List Pkt :=
  let (a1, o1) := request a r
  let (b1, o2) := receiveAll w b o1
  let (a2, o3) := receiveAll w a1 o2
  let (b2, o4) := receiveAll w b1 o3
  let (a3, o5) := receiveAll w a2 o4
  (a3, b2, o5)

/-- what the property expects `b` to be handed for request `r` of `a` -/
def expected (w : World) (a b : Station) (r : Req) : List Delivery :=
  let addressed : Bool := match r.transport with
    | .shb => true
    | .gbc ar => w.inside ar b.addr
    | .gac ar => w.inside ar b.addr
    | .guc de => de = b.addr
  let k : Kind := match r.transport with
    | .shb => .shb | .gbc ar => .gbc ar | .gac ar => .gac ar | .guc de => .guc de
  if addressed ∧ b.ports.contains r.dport then
    [{ port := r.dport, info := r.info, btpB := r.btpB, payload := r.payload, so := a.addr, soPos := a.pos, kind := k }]
  else []

end FlexModel.Net

/-!
Sequence-number allocation under concurrent source operations (C01, round 4).

The station model allocates a sequence number in ONE step (`request`: `sn := s.sn + 1`).  The code does it in
`Router.get_sequence_number`, called by every GBC / GAC / GUC / LS source operation, possibly from several
upper-layer threads at once.  This file models the method at the granularity of its lock section:

    with self.sequence_number_lock:          -- start       → incremented   (acquire, counter += 1)
        self.sequence_number = … + 1
        return self.sequence_number          -- incremented → done          (read the result, release)

and, for comparison, the shape in which the result is read after the lock has been released
(`under = false`: incremented → released → done).  `distinct` : with the read inside the section any number of
threads under ANY schedule obtain pairwise distinct numbers (so two PDUs of one source never share a sequence
number and the receiver's duplicate packet detection never discards a payload that was requested once);
`race_witness` : with the read outside two threads obtain the same number.  Which shape the code has is a fact
regenerated from the source (`Generated.NetFacts.snReturnsUnderLock`, see Props/C01.lean).

The counter is unbounded here (the modulus 65535 of the code is the subject of `ring_refines_plain`'s window
hypothesis).  Core Lean only.
-/
namespace FlexModel.Net.SnAlloc

inductive Pc
  | start | incremented | released | done
deriving DecidableEq, Repr

structure St where
  ctr : Nat
  holder : Option Nat        -- the thread inside `with self.sequence_number_lock`
  pc : Nat → Pc
  ret : Nat → Nat            -- value returned to thread t (meaningful when `pc t = done`)

def set {α : Type} (f : Nat → α) (t : Nat) (v : α) : Nat → α := fun x => if x = t then v else f x

def init (c : Nat) : St := { ctr := c, holder := none, pc := fun _ => .start, ret := fun _ => 0 }

/-- one step of thread `t`; a thread that waits for the lock or has finished does not move -/
def step (under : Bool) (s : St) (t : Nat) : St :=
  match s.pc t with
  | .start =>
    if s.holder = none then { s with ctr := s.ctr + 1, holder := some t, pc := set s.pc t .incremented } else s
  | .incremented =>
    if under then { s with holder := none, pc := set s.pc t .done, ret := set s.ret t s.ctr }
    else { s with holder := none, pc := set s.pc t .released }
  | .released => { s with pc := set s.pc t .done, ret := set s.ret t s.ctr }
  | .done => s

def run (under : Bool) (c : Nat) (sched : List Nat) : St := sched.foldl (step under) (init c)

/-- invariant of the locked shape -/
structure Inv (c : Nat) (s : St) : Prop where
  lo : c ≤ s.ctr
  le : ∀ t, s.pc t = .done → c < s.ret t ∧ s.ret t ≤ s.ctr
  ne : ∀ t u, t ≠ u → s.pc t = .done → s.pc u = .done → s.ret t ≠ s.ret u
  own : ∀ t, s.pc t = .incremented → s.holder = some t
  held : ∀ h, s.holder = some h → c < s.ctr ∧ ∀ t, s.pc t = .done → s.ret t < s.ctr
  norel : ∀ t, s.pc t ≠ .released

theorem inv_init (c : Nat) : Inv c (init c) := by
  refine ⟨Nat.le_refl _, ?_, ?_, ?_, ?_, ?_⟩ <;> intros <;> simp_all [init]

theorem inv_step (c : Nat) (s : St) (t : Nat) (h : Inv c s) : Inv c (step true s t) := by
  unfold step
  cases hp : s.pc t with
  | start =>
    simp only
    by_cases hh : s.holder = none
    · simp only [hh, if_true]
      have hlo := h.lo
      refine ⟨by simp; omega, ?_, ?_, ?_, ?_, ?_⟩
      · intro u hu
        by_cases hut : u = t
        · subst hut; simp [set] at hu
        · simp [set, hut] at hu
          have := h.le u hu
          simp; omega
      · intro u v huv hu hv
        by_cases hut : u = t
        · subst hut; simp [set] at hu
        · by_cases hvt : v = t
          · subst hvt; simp [set] at hv
          · simp [set, hut, hvt] at hu hv
            exact h.ne u v huv hu hv
      · intro u hu
        by_cases hut : u = t
        · subst hut; rfl
        · simp [set, hut] at hu
          have := h.own u hu
          simp [hh] at this
      · intro x _
        refine ⟨by simp; omega, ?_⟩
        intro u hu
        by_cases hut : u = t
        · subst hut; simp [set] at hu
        · simp [set, hut] at hu
          have := (h.le u hu).2
          simp; omega
      · intro u
        by_cases hut : u = t
        · subst hut; simp [set]
        · simp [set, hut]; exact h.norel u
    · simp only [hh, if_false]; exact h
  | incremented =>
    simp only [if_true]
    have hown := h.own t hp
    obtain ⟨habove, hheld⟩ := h.held t hown
    refine ⟨h.lo, ?_, ?_, ?_, ?_, ?_⟩
    · intro u hu
      by_cases hut : u = t
      · subst hut; simp [set]; exact habove
      · simp [set, hut] at hu ⊢
        exact h.le u hu
    · intro u v huv hu hv
      by_cases hut : u = t
      · subst hut
        have hvt : ¬ v = u := fun e => huv e.symm
        simp [set, hvt] at hv ⊢
        have := hheld v hv
        omega
      · by_cases hvt : v = t
        · subst hvt
          simp [set, hut] at hu ⊢
          have := hheld u hu
          omega
        · simp [set, hut, hvt] at hu hv ⊢
          exact h.ne u v huv hu hv
    · intro u hu
      by_cases hut : u = t
      · subst hut; simp [set] at hu
      · simp [set, hut] at hu
        have := h.own u hu
        rw [hown] at this
        simp at this
        exact absurd this.symm hut
    · intro x hx; simp at hx
    · intro u
      by_cases hut : u = t
      · subst hut; simp [set]
      · simp [set, hut]; exact h.norel u
  | released => exact absurd hp (h.norel t)
  | done => exact h

theorem inv_run (c : Nat) (sched : List Nat) : Inv c (run true c sched) := by
  unfold run
  generalize hs : init c = s0
  have h0 : Inv c s0 := hs ▸ inv_init c
  clear hs
  induction sched generalizing s0 with
  | nil => exact h0
  | cons t ts ih => exact ih _ (inv_step c s0 t h0)

/-- **Distinct sequence numbers under any schedule.**  Any number of threads (thread ids are natural numbers), any
schedule (a list of thread ids: who moves next; blocked and finished threads do not move), counter value `c` at the
start: the values returned to two different threads that have finished differ, each is one of the numbers
`c+1 … ` allocated so far. -/
theorem distinct (c : Nat) (sched : List Nat) (t u : Nat) (htu : t ≠ u)
    (ht : (run true c sched).pc t = .done) (hu : (run true c sched).pc u = .done) :
    (run true c sched).ret t ≠ (run true c sched).ret u ∧
    c < (run true c sched).ret t ∧ (run true c sched).ret t ≤ (run true c sched).ctr :=
  ⟨(inv_run c sched).ne t u htu ht hu, (inv_run c sched).le t ht⟩

/-- non-vacuity: two threads do finish (here: thread 1 overtakes thread 0, which waits for the lock) -/
example : (run true 7 [1, 0, 1, 0, 0]).pc 0 = .done ∧ (run true 7 [1, 0, 1, 0, 0]).pc 1 = .done ∧
    (run true 7 [1, 0, 1, 0, 0]).ret 1 = 8 ∧ (run true 7 [1, 0, 1, 0, 0]).ret 0 = 9 := by decide

/-- the read after the release: thread 0 increments and releases, thread 1 runs the whole method, thread 0 reads -
both are handed 9 -/
theorem race_witness :
    (run false 7 [0, 0, 1, 1, 1, 0]).pc 0 = .done ∧ (run false 7 [0, 0, 1, 1, 1, 0]).pc 1 = .done ∧
    (run false 7 [0, 0, 1, 1, 1, 0]).ret 0 = 9 ∧ (run false 7 [0, 0, 1, 1, 1, 0]).ret 1 = 9 := by decide

end FlexModel.Net.SnAlloc

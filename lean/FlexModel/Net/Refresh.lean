/-!
The location table under concurrent receive threads (C01, round 5).

The station model keeps ONE duplicate memory (`Station.seen`) that only grows: a packet accepted once is recognised
for ever (within the ring window of `ring_refines_plain`).  In the code that memory lives in the location table
entries (one duplicate packet list per source); an entry is created by the reception that first hears a source
(`new_*_packet`: get-or-create and update in one `loc_t_lock` section) and is removed only by
`LocationTable.refresh_table`, which every reception calls twice.  With several receive threads the entry - and with
it the memory that the source's packet has been handed up - survives a concurrent refresh only because refresh_table
is ONE critical section:

    with self.loc_t_lock:
        self.loc_t = { gn: entry for gn, entry in self.loc_t.items() if <entry is alive> }

This file models the table (its set of keys) under any number of threads, each one either a refresher or the
creator of the entry of one source, at the granularity of `loc_t_lock` sections (sections of one lock exclude each
other, so each is one atomic step; a thread may be pre-empted between two sections):

* `oneSection = true`  (the code): refresh = one step `tbl := filter alive tbl`;
* `oneSection = false` (read the table in one section, age the copy without the lock, publish it in another):
  refresh = `snap := tbl` ; `tbl := filter alive snap`.

`insert_survives` : in the one-section shape, under ANY schedule, the entry of every source that is alive (not
expired) and was created by a thread that has finished is in the table - concurrent refreshes lose nothing.
`split_loses_entry_witness` : in the split shape a refresher pre-empted between its two sections publishes a table
without the entry created meanwhile.  Which shape the code has is a fact regenerated from the source
(`Generated.Locks.blocks .LocationTable_refresh_table`, see Props/C01.lean).

Core Lean only.
-/
namespace FlexModel.Net.Refresh

/-- what a thread does: age the table, or create the location table entry of source `k` (first reception) -/
inductive Role
  | refresh
  | insert (k : Nat)
deriving DecidableEq, Repr

inductive Pc
  | start | snapped | done
deriving DecidableEq, Repr

structure St where
  tbl : List Nat                -- keys of `loc_t`
  snap : Nat → List Nat         -- thread-local copy of the table (split shape only)
  pc : Nat → Pc

def set {α : Type} (f : Nat → α) (t : Nat) (v : α) : Nat → α := fun x => if x = t then v else f x

def init (tbl : List Nat) : St := { tbl := tbl, snap := fun _ => [], pc := fun _ => .start }

/-- one `loc_t_lock` section of thread `t`; a finished thread does not move -/
def step (oneSection : Bool) (alive : Nat → Bool) (role : Nat → Role) (s : St) (t : Nat) : St :=
  match role t, s.pc t with
  | .insert k, .start =>
    { s with tbl := if s.tbl.contains k then s.tbl else s.tbl ++ [k], pc := set s.pc t .done }
  | .refresh, .start =>
    if oneSection then { s with tbl := s.tbl.filter alive, pc := set s.pc t .done }
    else { s with snap := set s.snap t s.tbl, pc := set s.pc t .snapped }
  | .refresh, .snapped => { s with tbl := (s.snap t).filter alive, pc := set s.pc t .done }
  | _, _ => s

def run (oneSection : Bool) (alive : Nat → Bool) (role : Nat → Role) (tbl : List Nat) (sched : List Nat) : St :=
  sched.foldl (step oneSection alive role) (init tbl)

/-- invariant of the one-section shape: entries that were there at the start or created by finished threads, and
are alive, are in the table -/
def Inv (alive : Nat → Bool) (role : Nat → Role) (tbl0 : List Nat) (s : St) : Prop :=
  (∀ k, k ∈ tbl0 → alive k = true → k ∈ s.tbl) ∧
  (∀ t k, role t = .insert k → s.pc t = .done → alive k = true → k ∈ s.tbl) ∧
  (∀ t, s.pc t ≠ .snapped)

theorem inv_init (alive : Nat → Bool) (role : Nat → Role) (tbl0 : List Nat) : Inv alive role tbl0 (init tbl0) :=
  ⟨fun _ h _ => h, fun t k _ h _ => by simp [init] at h, fun t => by simp [init]⟩

theorem inv_step (alive : Nat → Bool) (role : Nat → Role) (tbl0 : List Nat) (s : St) (t : Nat)
    (h : Inv alive role tbl0 s) : Inv alive role tbl0 (step true alive role s t) := by
  unfold step
  cases hr : role t with
  | refresh =>
    cases hp : s.pc t with
    | start =>
      simp only [if_true]
      refine ⟨fun k hk ha => List.mem_filter.mpr ⟨h.1 k hk ha, ha⟩, ?_, ?_⟩
      · intro u k hu hd ha
        by_cases hut : u = t
        · subst hut; rw [hr] at hu; cases hu
        · simp only [set, hut, if_false] at hd
          exact List.mem_filter.mpr ⟨h.2.1 u k hu hd ha, ha⟩
      · intro u
        by_cases hut : u = t
        · subst hut; simp [set]
        · simp only [set, hut, if_false]; exact h.2.2 u
    | snapped => exact absurd hp (h.2.2 t)      -- no thread is ever between two sections in this shape
    | done => simp only; exact h
  | insert k0 =>
    cases hp : s.pc t with
    | start =>
      simp only
      have hsub : ∀ x, x ∈ s.tbl → x ∈ (if s.tbl.contains k0 = true then s.tbl else s.tbl ++ [k0]) := by
        intro x hx; split
        · exact hx
        · exact List.mem_append.mpr (Or.inl hx)
      refine ⟨fun k hk ha => hsub _ (h.1 k hk ha), ?_, ?_⟩
      · intro u k hu hd ha
        by_cases hut : u = t
        · subst hut
          rw [hr] at hu
          cases hu
          split
          · rename_i hc; simpa using hc
          · simp
        · simp only [set, hut, if_false] at hd
          exact hsub _ (h.2.1 u k hu hd ha)
      · intro u
        by_cases hut : u = t
        · subst hut; simp [set]
        · simp only [set, hut, if_false]; exact h.2.2 u
    | snapped => simp only; exact h
    | done => simp only; exact h

theorem inv_run (alive : Nat → Bool) (role : Nat → Role) (tbl0 : List Nat) (sched : List Nat) :
    Inv alive role tbl0 (run true alive role tbl0 sched) := by
  unfold run
  generalize hs : init tbl0 = s0
  have h0 : Inv alive role tbl0 s0 := hs ▸ inv_init alive role tbl0
  clear hs
  induction sched generalizing s0 with
  | nil => exact h0
  | cons t ts ih => exact ih _ (inv_step alive role tbl0 s0 t h0)

/-- **Concurrent refreshes lose no entry** (one-section shape).  Any number of threads - refreshers and creators of
entries - any schedule (a list of thread ids: whose section runs next), any notion of "alive": when the thread that
created the entry of source `k` has finished and `k` is alive, the entry is in the table; so are the alive entries
the table started with.  Hence the duplicate packet list of a source that has just been heard is still there when
the forwarder's copy of its packet arrives. -/
theorem insert_survives (alive : Nat → Bool) (role : Nat → Role) (tbl0 : List Nat) (sched : List Nat) (t k : Nat)
    (hr : role t = .insert k) (hd : (run true alive role tbl0 sched).pc t = .done) (ha : alive k = true) :
    k ∈ (run true alive role tbl0 sched).tbl ∧
    ∀ k0, k0 ∈ tbl0 → alive k0 = true → k0 ∈ (run true alive role tbl0 sched).tbl :=
  ⟨(inv_run alive role tbl0 sched).2.1 t k hr hd ha, (inv_run alive role tbl0 sched).1⟩

/-- two threads: 0 refreshes, 1 creates the entry of source 5; everybody is alive -/
def exRole : Nat → Role := fun t => if t = 0 then .refresh else .insert 5

/-- non-vacuity: both finish, in either order, and the entry is there (beside the old entry 3) -/
example : (run true (fun _ => true) exRole [3] [0, 1]).pc 1 = .done ∧ (run true (fun _ => true) exRole [3] [0, 1]).tbl = [3, 5] ∧
    (run true (fun _ => true) exRole [3] [1, 0]).pc 0 = .done ∧ (run true (fun _ => true) exRole [3] [1, 0]).tbl = [3, 5] := by
  decide

/-- the split shape (seeded change C01-m7): the refresher reads the table, thread 1 creates the entry of source 5 and
finishes, the refresher publishes its aged copy - the entry of 5 (alive) is gone, and with it the memory that the
packet of source 5 has been handed up -/
theorem split_loses_entry_witness :
    (run false (fun _ => true) exRole [3] [0, 1, 0]).pc 0 = .done ∧
    (run false (fun _ => true) exRole [3] [0, 1, 0]).pc 1 = .done ∧
    (run false (fun _ => true) exRole [3] [0, 1, 0]).tbl = [3] := by decide

end FlexModel.Net.Refresh

import FlexModel.Net.Mesh
/-!
Lagging receivers on a medium that is FIFO per receiver (C01, round 4).

`FifoRun` (MeshOrder) lets every station hear the frames in transmission order but lets stations lag behind each
other arbitrarily.  The correspondence programmes of rounds 1-3 only ever delivered EVERYTHING between two groups
of requests, so no station ever received anything between two requests of one lookup.  A *lag pump* delivers the
oldest pending (receiver, frame) pair whose receiver is not in the set `lag`, until only pairs for lagging
receivers are left: the destination of a location-service lookup may lag (it has not heard the LS request yet)
while the requester already hears what the destination transmitted meanwhile (an SHB / beacon, a broadcast, a
unicast of its own) and issues further unicast requests to it.

Core Lean only (executed by the driver); the lemma that every lag pump is a FIFO schedule is in `LagLemmas`.
-/
namespace FlexModel.Net

/-- index of the oldest pair in the air whose receiver is not lagging -/
def pickLag (lag : List Addr) : List (Addr × Pkt) → Option Nat
  | [] => none
  | f :: rest => if lag.contains f.1 then (pickLag lag rest).map (· + 1) else some 0

/-- deliver, oldest first, every pair whose receiver is not lagging (also the pairs transmitted in reaction) until
none is left or the fuel is used up; returns the schedule it followed -/
def drainLag (sem : Sem) (reach : Addr → Addr → Bool) (lag : List Addr) : Nat → Mesh → Mesh × List Nat
  | 0, m => (m, [])
  | fuel + 1, m =>
    match pickLag lag m.air with
    | none => (m, [])
    | some k =>
      let r := drainLag sem reach lag fuel (m.stepG sem reach (.dlv k))
      (r.1, k :: r.2)

end FlexModel.Net

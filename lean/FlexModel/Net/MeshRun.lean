import FlexModel.Net.MeshStep
/-! Runs of the asynchronous mesh: invariant over schedules, quiescence, exactly-once theorem (C01). -/
namespace FlexModel.Net
open List
set_option linter.unusedSimpArgs false
set_option linter.unusedVariables false

variable {w : World} {σ : Static} {m : Mesh} {orig : List Pkt} {base : Addr → List Delivery}

/-- the executable step of the driver with full radio range and the plain station semantics is the step function
of the theorems -/
theorem stepG_full (w : World) (m : Mesh) (ev : Ev) :
    m.stepG (plainSem w) (fun _ _ => true) ev = m.step w ev := by
  cases ev <;> simp [Mesh.stepG, Mesh.step, plainSem, bcastR, bcast]

@[simp] theorem step_ids (w : World) (m : Mesh) (ev : Ev) : (m.step w ev).ids = m.ids := by
  cases ev with
  | req i r => simp only [Mesh.step]; split <;> rfl
  | dlv k => simp only [Mesh.step]; split <;> rfl

@[simp] theorem run_ids (w : World) (m : Mesh) (evs : List Ev) : (m.run w evs).ids = m.ids := by
  induction evs generalizing m with
  | nil => rfl
  | cons e es ih => simp [Mesh.run, foldl_cons] at ih ⊢; rw [ih]; exact step_ids w m e

theorem EvOK_congr {m m' : Mesh} (h : m'.ids = m.ids) (ev : Ev) : EvOK m ev → EvOK m' ev := by
  cases ev <;> simp [EvOK, h]

theorem extraOf_congr (w : World) (σ : Static) {m m' : Mesh} (h : m'.ids = m.ids) (ev : Ev) (j : Addr) :
    extraOf w σ m' ev j = extraOf w σ m ev j := by
  cases ev <;> simp [extraOf, h]

/-- everything the events of a schedule prescribe for station `j` -/
def extraAll (w : World) (σ : Static) (m : Mesh) (evs : List Ev) (j : Addr) : List Delivery :=
  evs.flatMap (fun ev => extraOf w σ m ev j)

theorem Inv.run (h : Inv w σ m orig base) (evs : List Ev) (hev : ∀ ev ∈ evs, EvOK m ev) :
    ∃ orig', Inv w σ (m.run w evs) orig' (fun j => base j ++ extraAll w σ m evs j) := by
  induction evs generalizing m orig base with
  | nil => exact ⟨orig, h.base_congr (by simp [extraAll])⟩
  | cons e es ih =>
    obtain ⟨o1, h1⟩ := h.step e (hev e (by simp))
    obtain ⟨o2, h2⟩ := ih h1 (fun ev hm => EvOK_congr (step_ids w m e) ev (hev ev (by simp [hm])))
    refine ⟨o2, ?_⟩
    simp only [Mesh.run, foldl_cons] at h2 ⊢
    refine h2.base_congr ?_
    intro j
    simp only [extraAll, flatMap_cons, append_assoc, append_cancel_left_eq]
    congr 1
    funext ev
    exact (extraOf_congr w σ (step_ids w m e) ev j).symm

/-- when nothing is left in the air every lookup has been answered and nothing is owed any more -/
theorem Inv.quiescent (h : Inv w σ m orig base) (hair : m.air = []) :
    (∀ i ∈ m.ids, (m.st i).pending = []) ∧ ∀ j ∈ m.ids, ∀ d, count d (m.st j).delivered = count d (base j) := by
  have hseenAll : ∀ P ∈ orig, ∀ j ∈ m.ids, j ≠ P.so → key P ∈ (m.st j).seen := by
    intro P hP j hj hne
    rcases h.s.live P hP j hj hne with h1 | ⟨f, hf, _⟩
    · exact h1
    · rw [hair] at hf; simp at hf
  have hpend : ∀ i ∈ m.ids, (m.st i).pending = [] := by
    intro i hi
    cases hp : (m.st i).pending with
    | nil => rfl
    | cons e es =>
      exfalso
      obtain ⟨_, hde, hne, Q, hQ, hQk, hQs, himp⟩ := (h.p i hi).2 e (by rw [hp]; simp)
      have h1 := hseenAll Q hQ e.1 hde (by rw [hQs]; exact hne)
      obtain ⟨R, hR, _, hRs, hRn⟩ := himp h1
      exact hRn (hseenAll R hR i hi (by rw [hRs]; exact Ne.symm hne))
  refine ⟨hpend, ?_⟩
  intro j hj d
  have hb := h.b j hj d
  have hO : owedO w σ (m.st j).seen orig j = [] := by
    unfold owedO
    simp only [flatMap_eq_nil_iff, mem_filter]
    intro P ⟨hP, hns⟩
    by_cases hso : P.so = j
    · exact dlvS_own _ _ _ _ hso
    · have := hseenAll P hP j hj (Ne.symm hso)
      simp [this] at hns
  have hA : owedA w σ m.air j = [] := by simp [owedA, hair]
  have hB : owedB w σ m.st m.ids j = [] := by
    unfold owedB
    simp only [flatMap_eq_nil_iff]
    intro i hi
    simp [hpend i hi, bufExp]
  rw [hO, hA, hB] at hb
  simpa using hb

/-- a mesh in which nothing is going on -/
structure QuietM (m : Mesh) : Prop where
  nodup : m.ids.Nodup
  addr : ∀ a, (m.st a).addr = a
  air : m.air = []
  pend : ∀ i ∈ m.ids, (m.st i).pending = []
  seen : ∀ j a sn, a ∈ m.ids → (a, sn) ∈ (m.st j).seen → sn ≤ (m.st a).sn

def staticOf (m : Mesh) : Static := { pos := fun a => (m.st a).pos, ports := fun a => (m.st a).ports }

theorem QuietM.inv (w : World) (h : QuietM m) : Inv w (staticOf m) m [] (fun j => (m.st j).delivered) := by
  refine ⟨⟨h.nodup, fun a => ⟨h.addr a, rfl, rfl⟩, ?_, ?_, by simp, by simp, h.seen, by simp⟩, ?_, ?_⟩
  · intro f hf; rw [h.air] at hf; simp at hf
  · intro f hf; rw [h.air] at hf; simp at hf
  · intro i hi; rw [h.pend i hi]; simp
  · intro j hj d
    have : owedB w (staticOf m) m.st m.ids j = [] := by
      unfold owedB
      simp only [flatMap_eq_nil_iff]
      intro i hi
      simp [h.pend i hi, bufExp]
    simp [owedO, owedA, h.air, this]

theorem Inv.toQuiet (h : Inv w σ m orig base) (hair : m.air = []) : QuietM m :=
  ⟨h.s.nodup, fun a => (h.s.stat a).1, hair, (h.quiescent hair).1, h.s.seen_ok⟩

theorem Inv.static_eq (h : Inv w σ m orig base) : staticOf m = σ := by
  unfold staticOf
  cases σ
  simp only [Static.mk.injEq]
  exact ⟨funext fun a => (h.s.stat a).2.1, funext fun a => (h.s.stat a).2.2⟩

/-- **asynchronous theorem**: from a quiet mesh, after ANY sequence of requests and deliveries (any interleaving)
after which nothing is left in the air, every station has been handed exactly the prescribed deliveries
(as a multiset: each exactly once, nothing else). -/
theorem async_exactly_once (w : World) (m : Mesh) (hq : QuietM m) (evs : List Ev) (hev : ∀ ev ∈ evs, EvOK m ev)
    (hair : (m.run w evs).air = []) :
    QuietM (m.run w evs) ∧ staticOf (m.run w evs) = staticOf m ∧
    ∀ j ∈ m.ids, ((m.run w evs).st j).delivered.Perm ((m.st j).delivered ++ extraAll w (staticOf m) m evs j) := by
  obtain ⟨o, ho⟩ := (hq.inv w).run evs hev
  refine ⟨ho.toQuiet hair, ho.static_eq, ?_⟩
  intro j hj
  rw [perm_iff_count]
  intro d
  exact (ho.quiescent hair).2 j (by simpa using hj) d

/-! ### exchanges and programmes -/

theorem flush_delivered (s : Station) (de : Addr) (q : List Req) : (flush s de q).1.delivered = s.delivered := by
  induction q generalizing s with
  | nil => rfl
  | cons r rs ih => simp only [flush]; rw [ih]

theorem request_delivered (s : Station) (r : Req) : (request s r).1.delivered = s.delivered := by
  unfold request
  cases r.transport with
  | shb => rfl
  | gbc a => rfl
  | gac a => rfl
  | guc de =>
    simp only
    cases lookupPending s.pending de with
    | some q => rfl
    | none => simp only; split <;> rfl

theorem receive_delivered (w : World) (s : Station) (p : Pkt) :
    ∃ ext, (receive w s p).1.delivered = s.delivered ++ ext := by
  have h := receive_spec w s p
  generalize receive w s p = res at h
  cases h with
  | ignore _ => exact ⟨[], by simp⟩
  | shb s' _ _ _ _ _ _ hd => exact ⟨_, hd⟩
  | plain s' out _ _ _ _ _ _ _ hd _ _ _ => exact ⟨_, hd⟩
  | reply s' _ _ _ _ _ _ _ hd => exact ⟨[], by simp [hd]⟩
  | flush s2 q _ _ _ _ _ _ _ _ hd => exact ⟨[], by simp [flush_delivered, hd]⟩

theorem step_delivered (w : World) (m : Mesh) (ev : Ev) (j : Addr) :
    ∃ ext, ((m.step w ev).st j).delivered = (m.st j).delivered ++ ext := by
  cases ev with
  | req i r =>
    simp only [Mesh.step]
    split
    · by_cases hj : j = i
      · subst hj; simp only [upd_same]; exact ⟨[], by simp [request_delivered]⟩
      · simp only [upd_other _ _ _ _ hj]; exact ⟨[], by simp⟩
    · exact ⟨[], by simp⟩
  | dlv k =>
    simp only [Mesh.step]
    split
    · exact ⟨[], by simp⟩
    · rename_i f _
      by_cases hj : j = f.1
      · subst hj; simp only [upd_same]; exact receive_delivered w _ _
      · simp only [upd_other _ _ _ _ hj]; exact ⟨[], by simp⟩

theorem run_delivered (w : World) (m : Mesh) (evs : List Ev) (j : Addr) :
    ∃ ext, ((m.run w evs).st j).delivered = (m.st j).delivered ++ ext := by
  induction evs generalizing m with
  | nil => exact ⟨[], by simp [Mesh.run]⟩
  | cons e es ih =>
    obtain ⟨e1, h1⟩ := step_delivered w m e j
    obtain ⟨e2, h2⟩ := ih (m.step w e)
    refine ⟨e1 ++ e2, ?_⟩
    simp only [Mesh.run, foldl_cons] at h2 ⊢
    rw [h2, h1, append_assoc]

theorem extraAll_dlvs (w : World) (σ : Static) (m : Mesh) (ks : List Nat) (j : Addr) :
    extraAll w σ m (ks.map .dlv) j = [] := by
  induction ks with
  | nil => rfl
  | cons k ks ih => simp only [extraAll, map_cons, flatMap_cons, extraOf, nil_append] at ih ⊢; exact ih

theorem expS_length (w : World) (i posi j ports) (r : Req) : (expS w i posi j ports r).length ≤ 1 := by
  unfold expS; split <;> simp

/-- **one exchange**: a request at a quiet mesh followed by ANY complete delivery schedule hands every station
exactly the prescribed delivery (appended to what it had), and leaves the mesh quiet -/
theorem exchange_n (w : World) (m : Mesh) (hq : QuietM m) (x : Exch) (hok : EvOK m (.req x.snd x.req))
    (hair : (m.run w x.evs).air = []) :
    QuietM (m.run w x.evs) ∧ staticOf (m.run w x.evs) = staticOf m ∧ (m.run w x.evs).ids = m.ids ∧
    ∀ j ∈ m.ids, ((m.run w x.evs).st j).delivered =
      (m.st j).delivered ++ extraOf w (staticOf m) m (.req x.snd x.req) j := by
  have hev : ∀ ev ∈ x.evs, EvOK m ev := by
    intro ev hm
    simp only [Exch.evs, mem_cons, mem_map] at hm
    rcases hm with rfl | ⟨k, _, rfl⟩
    · exact hok
    · trivial
  obtain ⟨h1, h2, h3⟩ := async_exactly_once w m hq x.evs hev hair
  refine ⟨h1, h2, run_ids w m _, ?_⟩
  intro j hj
  obtain ⟨ext, he⟩ := run_delivered w m x.evs j
  have hp := h3 j hj
  rw [he] at hp ⊢
  have hx : extraAll w (staticOf m) m x.evs j = extraOf w (staticOf m) m (.req x.snd x.req) j := by
    have := extraAll_dlvs w (staticOf m) m x.sched j
    simp only [extraAll, Exch.evs, flatMap_cons] at this ⊢
    rw [this, append_nil]
  rw [hx] at hp
  have hp2 := (perm_append_left_iff _).mp hp
  have hlen : (extraOf w (staticOf m) m (.req x.snd x.req) j).length ≤ 1 := by
    simp only [extraOf]; split
    · exact expS_length _ _ _ _ _ _
    · simp
  congr 1
  generalize extraOf w (staticOf m) m (.req x.snd x.req) j = ex at hp2 hlen
  match ex, hlen with
  | [], _ => exact hp2.eq_nil
  | [d], _ => exact perm_singleton.mp hp2



/-- the requests of a programme are in the scope of the theorem -/
def ProgOK (m : Mesh) (prog : List Exch) : Prop := ∀ x ∈ prog, EvOK m (.req x.snd x.req)

theorem runProg_n (w : World) (m : Mesh) (hq : QuietM m) (prog : List Exch) (hp : ProgOK m prog)
    (hc : Complete w m prog) :
    QuietM (m.runProg w prog) ∧ ∀ j ∈ m.ids, ((m.runProg w prog).st j).delivered =
      (m.st j).delivered ++ prog.flatMap (fun x => extraOf w (staticOf m) m (.req x.snd x.req) j) := by
  induction prog generalizing m with
  | nil => exact ⟨hq, fun j _ => by simp [Mesh.runProg]⟩
  | cons x xs ih =>
    obtain ⟨hair, hc'⟩ := hc
    obtain ⟨q1, s1, i1, d1⟩ := exchange_n w m hq x (hp x (by simp)) hair
    have hp' : ProgOK (m.run w x.evs) xs := fun y hy => EvOK_congr i1 _ (hp y (by simp [hy]))
    obtain ⟨q2, d2⟩ := ih (m.run w x.evs) q1 hp' hc'
    simp only [Mesh.runProg, foldl_cons] at q2 d2 ⊢
    refine ⟨q2, ?_⟩
    intro j hj
    rw [d2 j (by rw [i1]; exact hj), d1 j hj, flatMap_cons, append_assoc]
    congr 2
    apply flatMap_congr'
    intro y _
    rw [s1]; exact extraOf_congr w _ i1 _ j

/-! ### meshes built from a list of stations -/

theorem ofList_ids (sts : List Station) : (Mesh.ofList sts).ids = sts.map (·.addr) := rfl

theorem ofList_addr (sts : List Station) (a : Addr) : ((Mesh.ofList sts).st a).addr = a := by
  simp only [Mesh.ofList]
  cases h : sts.find? (fun s => decide (s.addr = a)) with
  | none => rfl
  | some s => have := find?_some h; simpa using this

theorem ofList_st (sts : List Station) (hnd : (sts.map (·.addr)).Nodup) (s : Station) (hs : s ∈ sts) :
    (Mesh.ofList sts).st s.addr = s := by
  simp only [Mesh.ofList]
  induction sts with
  | nil => simp at hs
  | cons t ts ih =>
    simp only [map_cons, nodup_cons, mem_map, not_exists, not_and] at hnd
    simp only [mem_cons] at hs
    by_cases ht : t.addr = s.addr
    · simp only [find?_cons, ht, decide_true, Option.getD_some]
      rcases hs with rfl | hs
      · rfl
      · exact absurd ht.symm (hnd.1 s hs)
    · rcases hs with rfl | hs
      · exact absurd rfl ht
      · simp only [find?_cons, ht, decide_false]
        exact ih hnd.2 hs

theorem ofList_mem (sts : List Station) (a : Addr) (ha : a ∈ sts.map (·.addr)) :
    (Mesh.ofList sts).st a ∈ sts := by
  simp only [Mesh.ofList]
  cases h : sts.find? (fun s => decide (s.addr = a)) with
  | none =>
    obtain ⟨s, hs, rfl⟩ := mem_map.mp ha
    have := find?_eq_none.mp h s hs
    simp at this
  | some s => exact mem_of_find?_eq_some h

theorem ofList_seen_nil (sts : List Station) (a : Addr) (ha : a ∉ sts.map (·.addr)) :
    ((Mesh.ofList sts).st a).seen = [] := by
  simp only [Mesh.ofList]
  cases h : sts.find? (fun s => decide (s.addr = a)) with
  | none => rfl
  | some s =>
    have h1 := find?_some h
    have h2 := mem_of_find?_eq_some h
    simp at h1
    exact absurd (mem_map.mpr ⟨s, h2, h1⟩) ha

/-- quiet start of n stations: pairwise distinct GN addresses, no location-service lookup in progress, and every
sequence number a station remembers from another station of the mesh has really been allocated by that station
(so that fresh numbers are not mistaken for duplicates) -/
structure QuietN (sts : List Station) : Prop where
  distinct : (sts.map (·.addr)).Nodup
  pend : ∀ s ∈ sts, s.pending = []
  seen : ∀ s ∈ sts, ∀ t ∈ sts, ∀ sn, (t.addr, sn) ∈ s.seen → sn ≤ t.sn

theorem QuietN.quietM {sts : List Station} (h : QuietN sts) : QuietM (Mesh.ofList sts) := by
  refine ⟨h.distinct, ofList_addr sts, rfl, ?_, ?_⟩
  · intro i hi; exact h.pend _ (ofList_mem sts i hi)
  · intro j a sn ha hm
    by_cases hj : j ∈ sts.map (·.addr)
    · have h1 := ofList_mem sts j hj
      have h2 := ofList_mem sts a ha
      have := h.seen _ h1 _ h2 sn
      rw [ofList_addr] at this
      exact this hm
    · rw [ofList_seen_nil sts j hj] at hm; simp at hm

theorem extraOf_ofList (w : World) (sts : List Station) (hnd : (sts.map (·.addr)).Nodup) (i : Addr) (r : Req)
    (b : Station) (hb : b ∈ sts) :
    extraOf w (staticOf (Mesh.ofList sts)) (Mesh.ofList sts) (.req i r) b.addr = expectedFrom w sts i b r := by
  by_cases hi : i ∈ sts.map (·.addr)
  · obtain ⟨a, ha, rfl⟩ := mem_map.mp hi
    have hc : (Mesh.ofList sts).ids.contains a.addr = true := by
      simp only [ofList_ids, contains_eq_mem, decide_eq_true_eq]; exact hi
    have hfind : sts.find? (fun s => decide (s.addr = a.addr)) = some a := by
      have := ofList_st sts hnd a ha
      simp only [Mesh.ofList] at this
      cases hf : sts.find? (fun s => decide (s.addr = a.addr)) with
      | none =>
        have := find?_eq_none.mp hf a ha
        simp at this
      | some s => rw [hf] at this; simpa using this
    simp only [extraOf, expectedFrom, staticOf, hc, if_true, hfind, ofList_st sts hnd a ha, ofList_st sts hnd b hb]
    exact expS_expected w a b r
  · have hc : (Mesh.ofList sts).ids.contains i = false := by
      simp only [ofList_ids, contains_eq_mem, decide_eq_false_iff_not]; exact hi
    have hfind : sts.find? (fun s => decide (s.addr = i)) = none := by
      rw [find?_eq_none]
      intro s hs he
      simp at he
      exact hi (mem_map.mpr ⟨s, hs, he⟩)
    simp only [extraOf, expectedFrom, hc, hfind, Bool.false_eq_true, if_false]


end FlexModel.Net

import FlexModel.Net.Timers
import FlexModel.Net.LsReply
namespace FlexModel.Net
open FlexModel.Geo

theorem ageShape_clamped (now tst : Nat) : ageShape true now tst = TST.age now tst := by
  simp [ageShape, TST.age]

/-- a timestamp `d` ms ahead of the clock (0 < d < 2^31, modulo 2^32) is later in the order of annex C.2 -/
theorem gt_ahead (now d : Nat) (hn : now < W) (hd : 0 < d) (hd2 : d < HALF) :
    TST.gt ((now + d) % W) now = true := by
  simp only [W, HALF] at *
  by_cases h : now + d < 4294967296
  · have e : (now + d) % 4294967296 = now + d := Nat.mod_eq_of_lt h
    have h1 : now < now + d := by omega
    have h2 : now + d - now ≤ 2147483648 := by omega
    simp [TST.gt, HALF, e, h1]; omega
  · have e : (now + d) % 4294967296 = now + d - 4294967296 := by omega
    have h1 : now + d - 4294967296 < now := by omega
    have h2 : 2147483648 < now - (now + d - 4294967296) := by omega
    simp [TST.gt, HALF, e, h1, h2]

/-- with the guard, a position vector stamped ahead of the local clock has age 0: kept whatever the lifetime -/
theorem ahead_kept (life now d : Nat) (hn : now < W) (hd : 0 < d) (hd2 : d < HALF) :
    keeps true life now ((now + d) % W) = true := by
  simp [keeps, ageShape, gt_ahead now d hn hd hd2]

/-- without the guard, one millisecond ahead is an age of 2^32 - 1 ms (at every clock value) -/
theorem unclamped_age_of_future (now : Nat) (hn : now < W) : ageShape false now ((now + 1) % W) = W - 1 := by
  have hW : W = 4294967296 := rfl
  by_cases h : now + 1 < W
  · have e : (now + 1) % W = now + 1 := Nat.mod_eq_of_lt h
    rw [e]; simp [ageShape, TST.sub]; omega
  · have e : (now + 1) % W = 0 := by
      have : now + 1 = W := by omega
      rw [this]; exact Nat.mod_self W
    rw [e]; simp [ageShape, TST.sub]; omega

/-- after the give-up no lookup for `de` is registered -/
theorem giveUp_no_lookup (s : Station) (de : Addr) : lookupPending (lsGiveUp s de).pending de = none :=
  lookup_erase_same s.pending de

/-- **A unicast request after an abandoned lookup starts a NEW lookup**: it transmits one LS request for `de`
(whatever else is pending, whatever the station has heard) - it is not merely queued. -/
theorem request_after_giveUp (s : Station) (de : Addr) (r : Req) (hr : r.transport = .guc de)
    (hk : s.known.contains de = false) :
    ((request (lsGiveUp s de) r).2.map (·.kind)) = [.lsReq de] := by
  have h := giveUp_no_lookup s de
  have hk' : (lsGiveUp s de).known.contains de = false := hk
  unfold request
  rw [hr]
  simp only [h, hk']
  simp

end FlexModel.Net

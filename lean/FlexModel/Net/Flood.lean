import FlexModel.Net.Stack
/-! n stations on a reliable FIFO broadcast medium (executable; used by the correspondence check of C01). -/
namespace FlexModel.Net

/-- deliver one frame sent by `sender` to every other station, in station order -/
def floodStep (w : World) (down : List Addr) (sts : List Station) (sender : Addr) (p : Pkt) :
    List Station × List (Addr × Pkt) :=
  sts.foldl (fun (acc : List Station × List (Addr × Pkt)) s =>
    if s.addr = sender ∨ down.contains s.addr then (acc.1 ++ [s], acc.2)
    else
      let r := receive w s p
      (acc.1 ++ [r.1], acc.2 ++ r.2.map (fun q => (s.addr, q)))) ([], [])

def flood (w : World) (down : List Addr) : Nat → List Station → List (Addr × Pkt) → List Station
  | 0, sts, _ => sts
  | _ + 1, sts, [] => sts
  | fuel + 1, sts, (snd, p) :: q =>
    let r := floodStep w down sts snd p
    flood w down fuel r.1 (q ++ r.2)

/-- a request at station `i` followed by the complete flood it induces -/
def netRequest (w : World) (down : List Addr) (sts : List Station) (i : Addr) (r : Req) : List Station :=
  match sts.find? (fun s => s.addr = i) with
  | none => sts
  | some s =>
    let x := request s r
    let sts1 := sts.map (fun t => if t.addr = i then x.1 else t)
    flood w down 100000 sts1 (x.2.map (fun q => (i, q)))

/-- expiry of the location-service retransmit timer at station `i` for a lookup of `de` that is still pending:
the LS request is sent again with a fresh sequence number (`_ls_retransmit`); no effect when nothing is pending -/
def lsRetransmit (s : Station) (de : Addr) : Station × List Pkt :=
  match lookupPending s.pending de with
  | none => (s, [])
  | some _ =>
    let sn := s.sn + 1
    ({ s with sn := sn },
      [{ so := s.addr, soPos := s.pos, sn := sn, kind := .lsReq de, btpB := false, rhl := s.defaultHops, data := [] }])

def netRetransmit (w : World) (down : List Addr) (sts : List Station) (i de : Addr) : List Station :=
  match sts.find? (fun s => s.addr = i) with
  | none => sts
  | some s =>
    let x := lsRetransmit s de
    let sts1 := sts.map (fun t => if t.addr = i then x.1 else t)
    flood w down 100000 sts1 (x.2.map (fun q => (i, q)))

end FlexModel.Net

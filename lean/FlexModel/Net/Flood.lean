import FlexModel.Net.Stack
/-! n stations on a reliable FIFO broadcast medium (executable; used by the correspondence check of C01). -/
namespace FlexModel.Net

/-- deliver one frame sent by `sender` to every other station, in station order -/
def floodStep (w : World) (sts : List Station) (sender : Addr) (p : Pkt) : List Station × List (Addr × Pkt) :=
  sts.foldl (fun (acc : List Station × List (Addr × Pkt)) s =>
    if s.addr = sender then (acc.1 ++ [s], acc.2)
    else
      let r := receive w s p
      (acc.1 ++ [r.1], acc.2 ++ r.2.map (fun q => (s.addr, q)))) ([], [])

def flood (w : World) : Nat → List Station → List (Addr × Pkt) → List Station
  | 0, sts, _ => sts
  | _ + 1, sts, [] => sts
  | fuel + 1, sts, (snd, p) :: q =>
    let r := floodStep w sts snd p
    flood w fuel r.1 (q ++ r.2)

/-- a request at station `i` followed by the complete flood it induces -/
def netRequest (w : World) (sts : List Station) (i : Addr) (r : Req) : List Station :=
  match sts.find? (fun s => s.addr = i) with
  | none => sts
  | some s =>
    let x := request s r
    let sts1 := sts.map (fun t => if t.addr = i then x.1 else t)
    flood w 100000 sts1 (x.2.map (fun q => (i, q)))

end FlexModel.Net

import FlexModel.Proto
import FlexModel.Net.Mesh
import FlexModel.Net.Lag
import FlexModel.Net.Timers
namespace FlexModel.Net
open FlexModel.Proto

structure NetState where
  sts : List Station := []
  inside : List (Area × Addr) := []
  down : List Addr := []
  links : List (Addr × Addr) := []   -- when non-empty: only linked pairs are in radio range of each other
  ringL : Nat := 8                   -- itsGnDPLLength
  snMod : Nat := 65535               -- get_sequence_number: (sn + 1) % (2**16 - 1)
  plain : Bool := false              -- true: the semantics of the theorems (unbounded duplicate memory and SNs)
  air : List (Addr × Pkt) := []      -- pairs still in the air (only between `reqq` … `drain`)
  mark : List Station := []          -- station states at the first `reqq` of a burst (baseline of `drain`'s report)
  lag : List Addr := []              -- receivers that lag behind (`pump` delivers nothing to them; `drain` everything)

def hexDigit (n : Nat) : Char := if n < 10 then Char.ofNat (48 + n) else Char.ofNat (87 + n)
def hexOf (b : Bytes) : String :=
  if b = [] then "-" else String.mk (b.flatMap (fun x => [hexDigit (x / 16 % 16), hexDigit (x % 16)]))

def hexVal (c : Char) : Option Nat :=
  if '0' ≤ c ∧ c ≤ '9' then some (c.toNat - 48)
  else if 'a' ≤ c ∧ c ≤ 'f' then some (c.toNat - 87)
  else none

def parseHexAux : List Char → List Nat → Option Bytes
  | [], acc => some acc.reverse
  | [_], _ => none
  | a :: b :: rest, acc =>
    match hexVal a, hexVal b with
    | some x, some y => parseHexAux rest ((x * 16 + y) :: acc)
    | _, _ => none

def parseHex (s : String) : Option Bytes := if s = "-" then some [] else parseHexAux s.toList []

def kindStr : Kind → String
  | .shb => "shb" | .gbc a => s!"gbc{a}" | .gac a => s!"gac{a}" | .guc d => s!"guc{d}"
  | .lsReq a => s!"lsreq{a}" | .lsRep a => s!"lsrep{a}"

def delivStr (d : Delivery) : String :=
  s!"{d.port}/{d.info}/{if d.btpB then 1 else 0}/{hexOf d.payload}/{d.so}/{d.soPos}/{kindStr d.kind}"

def transport? (t : String) (arg : Nat) : Option Transport :=
  match t with
  | "shb" => some .shb | "gbc" => some (.gbc arg) | "gac" => some (.gac arg) | "guc" => some (.guc arg)
  | _ => none

/-- canonical list of the handler invocations that happened between two network states -/
def newsOf (before after : List Station) : String :=
  let b := before.map (fun s => (s.addr, s.delivered.length))
  let news := after.flatMap (fun s =>
    let n := (b.lookup s.addr).getD 0
    (s.delivered.drop n).map (fun d => s!"{s.addr}:{delivStr d}"))
  if news = [] then "none" else " ".intercalate news

def world (st : NetState) : World := { inside := fun a x => st.inside.contains (a, x) }

def reachOf (st : NetState) : Addr → Addr → Bool := fun a b =>
  !st.down.contains a && !st.down.contains b &&
    (st.links.isEmpty || st.links.contains (a, b) || st.links.contains (b, a))

def semOf (st : NetState) : Sem := if st.plain then plainSem (world st) else ringSem (world st) st.ringL st.snMod

/-- run one event and then a complete (seeded) delivery schedule on the mesh of the current stations -/
def meshOf (st : NetState) : Mesh := { Mesh.ofList st.sts with air := st.air }

def runEv (st : NetState) (first : Mesh → Mesh) (seed : Nat) : NetState × String :=
  let d := drain (semOf st) (reachOf st) 200000 seed (first (meshOf st))
  let sts' := d.1.toList
  let base := if st.mark.isEmpty then st.sts else st.mark
  ({ st with sts := sts', air := d.1.air, mark := [] },
   newsOf base sts' ++ (if d.1.air.isEmpty then "" else " !fuel"))

/-- lag pump: FIFO per receiver, nothing is delivered to the lagging receivers (`drainLag`); reports the handler
invocations since the last report -/
def pumpEv (st : NetState) : NetState × String :=
  let d := drainLag (semOf st) (reachOf st) st.lag 200000 (meshOf st)
  let sts' := d.1.toList
  let base := if st.mark.isEmpty then st.sts else st.mark
  ({ st with sts := sts', air := d.1.air, mark := [] },
   newsOf base sts' ++ (if (pickLag st.lag d.1.air).isNone then "" else " !fuel"))

/-- hand a request to a station without delivering anything yet (bursts: several requests in the air together) -/
def queueEv (st : NetState) (first : Mesh → Mesh) : NetState × String :=
  let m := first (meshOf st)
  ({ st with sts := m.toList, air := m.air, mark := if st.mark.isEmpty then st.sts else st.mark }, "ok")

def reqOf (btpB dport info : Nat) (pl : Bytes) (tp : Transport) (hl blocked : Nat) : Req :=
  { btpB := btpB != 0, dport := dport, info := info, payload := pl, transport := tp, hopLimit := hl,
    scfBlocked := blocked != 0 }

def netStep (st : NetState) (t : List String) : NetState × String :=
  match t with
  | ["reset"] => ({}, "ok")
  | ["station", a, pos, hops, ports] =>
    match nat? a, nat? pos, nat? hops with
    | some a, some pos, some hops =>
      let ps := (ports.splitOn ",").filterMap (·.toNat?)
      ({ st with sts := st.sts ++ [{ addr := a, pos := pos, defaultHops := hops, ports := ps }] }, "ok")
    | _, _, _ => (st, "bad-op")
  | ["inside", ar, a] =>
    match nat? ar, nat? a with
    | some ar, some a => ({ st with inside := (ar, a) :: st.inside }, "ok")
    | _, _ => (st, "bad-op")
  | ["link", a, b] =>
    match nat? a, nat? b with
    | some a, some b => ({ st with links := (a, b) :: st.links }, "ok")
    | _, _ => (st, "bad-op")
  | ["sem", "plain"] => ({ st with plain := true }, "ok")
  | ["sem", "ring", l, m] =>
    match nat? l, nat? m with
    | some l, some m => ({ st with plain := false, ringL := l, snMod := m }, "ok")
    | _, _ => (st, "bad-op")
  | ["setsn", a, n] =>
    match nat? a, nat? n with
    | some a, some n => ({ st with sts := st.sts.map (fun s => if s.addr = a then { s with sn := n } else s) }, "ok")
    | _, _ => (st, "bad-op")
  | ["req", i, btpB, dport, info, hex, tr, arg, hl, blocked, seed] =>
    match nat? i, nat? btpB, nat? dport, nat? info, parseHex hex, nat? arg, nat? hl, nat? blocked, nat? seed with
    | some i, some btpB, some dport, some info, some pl, some arg, some hl, some blocked, some seed =>
      match transport? tr arg with
      | none => (st, "bad-op")
      | some tp =>
        let r : Req := { btpB := btpB != 0, dport := dport, info := info, payload := pl, transport := tp,
                         hopLimit := hl, scfBlocked := blocked != 0 }
        runEv st (fun m => m.stepG (semOf st) (reachOf st) (.req i r)) seed
    | _, _, _, _, _, _, _, _, _ => (st, "bad-op")
  | ["reqq", i, btpB, dport, info, hex, tr, arg, hl, blocked] =>
    match nat? i, nat? btpB, nat? dport, nat? info, parseHex hex, nat? arg, nat? hl, nat? blocked with
    | some i, some btpB, some dport, some info, some pl, some arg, some hl, some blocked =>
      match transport? tr arg with
      | none => (st, "bad-op")
      | some tp =>
        queueEv st (fun m => m.stepG (semOf st) (reachOf st) (.req i (reqOf btpB dport info pl tp hl blocked)))
    | _, _, _, _, _, _, _, _ => (st, "bad-op")
  | ["drain", seed] =>
    match nat? seed with
    | some seed => runEv st id seed
    | none => (st, "bad-op")
  | ["lag", a] =>
    match nat? a with
    | some a => ({ st with lag := a :: st.lag }, "ok")
    | none => (st, "bad-op")
  | ["unlag", a] =>
    match nat? a with
    | some a => ({ st with lag := st.lag.filter (· ≠ a) }, "ok")
    | none => (st, "bad-op")
  | ["pump"] => pumpEv st
  | ["down", a] =>
    match nat? a with
    | some a => ({ st with down := a :: st.down }, "ok")
    | none => (st, "bad-op")
  | ["up", a] =>
    match nat? a with
    | some a => ({ st with down := st.down.filter (· ≠ a) }, "ok")
    | none => (st, "bad-op")
  | ["lsretx", i, de, seed] =>
    match nat? i, nat? de, nat? seed with
    | some i, some de, some seed =>
      runEv st (fun m => m.retx (if st.plain then 0 else st.snMod) (reachOf st) i de) seed
    | _, _, _ => (st, "bad-op")
  | ["lsretxq", i, de] =>
    -- retransmission timer while frames are held back (lag blocks): the LS request is put in the air, nothing is
    -- delivered yet
    match nat? i, nat? de with
    | some i, some de => queueEv st (fun m => m.retx (if st.plain then 0 else st.snMod) (reachOf st) i de)
    | _, _ => (st, "bad-op")
  | ["lsgiveup", i, de] =>
    -- the retransmission timer expired with itsGnLocationServiceMaxRetrans reached: the lookup is abandoned
    match nat? i, nat? de with
    | some i, some de =>
      let m := (meshOf st).giveUp i de
      ({ st with sts := m.toList }, "ok")
    | _, _ => (st, "bad-op")
  | _ => (st, "bad-op")

def netDomain : Domain := { σ := NetState, init := {}, step := netStep }
end FlexModel.Net

import FlexModel.Proto
import FlexModel.Net.Flood
namespace FlexModel.Net
open FlexModel.Proto

structure NetState where
  sts : List Station := []
  inside : List (Area × Addr) := []
  down : List Addr := []

def hexDigit (n : Nat) : Char := if n < 10 then Char.ofNat (48 + n) else Char.ofNat (87 + n)
def hexOf (b : Bytes) : String :=
  if b = [] then "-" else String.mk (b.flatMap (fun x => [hexDigit (x / 16 % 16), hexDigit (x % 16)]))

def hexVal (c : Char) : Option Nat :=
  if '0' ≤ c ∧ c ≤ '9' then some (c.toNat - 48)
  else if 'a' ≤ c ∧ c ≤ 'f' then some (c.toNat - 87)
  else none

def parseHexAux : List Char → List Nat → Option Bytes
  | [], acc => some acc.reverse
  | [_], _ => none
  | a :: b :: rest, acc =>
    match hexVal a, hexVal b with
    | some x, some y => parseHexAux rest ((x * 16 + y) :: acc)
    | _, _ => none

def parseHex (s : String) : Option Bytes := if s = "-" then some [] else parseHexAux s.toList []

def kindStr : Kind → String
  | .shb => "shb" | .gbc a => s!"gbc{a}" | .gac a => s!"gac{a}" | .guc d => s!"guc{d}"
  | .lsReq a => s!"lsreq{a}" | .lsRep a => s!"lsrep{a}"

def delivStr (d : Delivery) : String :=
  s!"{d.port}/{d.info}/{if d.btpB then 1 else 0}/{hexOf d.payload}/{d.so}/{d.soPos}/{kindStr d.kind}"

def transport? (t : String) (arg : Nat) : Option Transport :=
  match t with
  | "shb" => some .shb | "gbc" => some (.gbc arg) | "gac" => some (.gac arg) | "guc" => some (.guc arg)
  | _ => none

/-- canonical list of the handler invocations that happened between two network states -/
def newsOf (before after : List Station) : String :=
  let b := before.map (fun s => (s.addr, s.delivered.length))
  let news := after.flatMap (fun s =>
    let n := (b.lookup s.addr).getD 0
    (s.delivered.drop n).map (fun d => s!"{s.addr}:{delivStr d}"))
  if news = [] then "none" else " ".intercalate news

def world (st : NetState) : World := { inside := fun a x => st.inside.contains (a, x) }

def netStep (st : NetState) (t : List String) : NetState × String :=
  match t with
  | ["reset"] => ({}, "ok")
  | ["station", a, pos, hops, ports] =>
    match nat? a, nat? pos, nat? hops with
    | some a, some pos, some hops =>
      let ps := (ports.splitOn ",").filterMap (·.toNat?)
      ({ st with sts := st.sts ++ [{ addr := a, pos := pos, defaultHops := hops, ports := ps }] }, "ok")
    | _, _, _ => (st, "bad-op")
  | ["inside", ar, a] =>
    match nat? ar, nat? a with
    | some ar, some a => ({ st with inside := (ar, a) :: st.inside }, "ok")
    | _, _ => (st, "bad-op")
  | ["req", i, btpB, dport, info, hex, tr, arg, hl, blocked] =>
    match nat? i, nat? btpB, nat? dport, nat? info, parseHex hex, nat? arg, nat? hl, nat? blocked with
    | some i, some btpB, some dport, some info, some pl, some arg, some hl, some blocked =>
      match transport? tr arg with
      | none => (st, "bad-op")
      | some tp =>
        let r : Req := { btpB := btpB != 0, dport := dport, info := info, payload := pl, transport := tp,
                         hopLimit := hl, scfBlocked := blocked != 0 }
        let sts' := netRequest (world st) st.down st.sts i r
        ({ st with sts := sts' }, newsOf st.sts sts')
    | _, _, _, _, _, _, _, _ => (st, "bad-op")
  | ["down", a] =>
    match nat? a with
    | some a => ({ st with down := a :: st.down }, "ok")
    | none => (st, "bad-op")
  | ["up", a] =>
    match nat? a with
    | some a => ({ st with down := st.down.filter (· ≠ a) }, "ok")
    | none => (st, "bad-op")
  | ["lsretx", i, de] =>
    match nat? i, nat? de with
    | some i, some de =>
      let sts' := netRetransmit (world st) st.down st.sts i de
      ({ st with sts := sts' }, newsOf st.sts sts')
    | _, _ => (st, "bad-op")
  | _ => (st, "bad-op")

def netDomain : Domain := { σ := NetState, init := {}, step := netStep }
end FlexModel.Net

import FlexModel.Net.Stack
/-! Projection lemmas for `learn` / `deliver` (simp-normal form: push projections inside). -/
namespace FlexModel.Net

@[simp] theorem learn_addr (s : Station) (a : Addr) : (learn s a).addr = s.addr := by unfold learn; split <;> rfl
@[simp] theorem learn_pos (s : Station) (a : Addr) : (learn s a).pos = s.pos := by unfold learn; split <;> rfl
@[simp] theorem learn_sn (s : Station) (a : Addr) : (learn s a).sn = s.sn := by unfold learn; split <;> rfl
@[simp] theorem learn_hops (s : Station) (a : Addr) : (learn s a).defaultHops = s.defaultHops := by unfold learn; split <;> rfl
@[simp] theorem learn_pending (s : Station) (a : Addr) : (learn s a).pending = s.pending := by unfold learn; split <;> rfl
@[simp] theorem learn_seen (s : Station) (a : Addr) : (learn s a).seen = s.seen := by unfold learn; split <;> rfl
@[simp] theorem learn_ports (s : Station) (a : Addr) : (learn s a).ports = s.ports := by unfold learn; split <;> rfl
@[simp] theorem learn_delivered (s : Station) (a : Addr) : (learn s a).delivered = s.delivered := by unfold learn; split <;> rfl

@[simp] theorem deliver_addr (s : Station) (p : Pkt) : (deliver s p).addr = s.addr := by unfold deliver; simp only; split <;> rfl
@[simp] theorem deliver_pos (s : Station) (p : Pkt) : (deliver s p).pos = s.pos := by unfold deliver; simp only; split <;> rfl
@[simp] theorem deliver_sn (s : Station) (p : Pkt) : (deliver s p).sn = s.sn := by unfold deliver; simp only; split <;> rfl
@[simp] theorem deliver_hops (s : Station) (p : Pkt) : (deliver s p).defaultHops = s.defaultHops := by unfold deliver; simp only; split <;> rfl
@[simp] theorem deliver_pending (s : Station) (p : Pkt) : (deliver s p).pending = s.pending := by unfold deliver; simp only; split <;> rfl
@[simp] theorem deliver_seen (s : Station) (p : Pkt) : (deliver s p).seen = s.seen := by unfold deliver; simp only; split <;> rfl
@[simp] theorem deliver_ports (s : Station) (p : Pkt) : (deliver s p).ports = s.ports := by unfold deliver; simp only; split <;> rfl
@[simp] theorem deliver_known (s : Station) (p : Pkt) : (deliver s p).known = s.known := by unfold deliver; simp only; split <;> rfl

theorem u16_roundtrip (v : Nat) (h : v < 65536) (rest : Bytes) : u16at (u16be v ++ rest) 0 = v := by
  simp [u16at, u16be]; omega

theorem btp_roundtrip (r : Req) (hd : r.dport < 65536) (hi : r.info < 65536) :
    btpDecode (btpEncode r) = (r.dport, r.info, r.payload) := by
  simp [btpDecode, btpEncode, u16at, u16be]
  omega

end FlexModel.Net

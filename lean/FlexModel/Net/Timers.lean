import FlexModel.Net.Mesh
import FlexModel.Geo.TST
/-!
Round 6: the two places where the station model depends on TIME (C01).

* `ageShape` - `LocationTable._age_ms` with its guard ("a timestamp ahead of the local clock has age 0") as a
  parameter; `keeps` - the test `refresh_table` applies to an entry that carries a position vector.  The station model
  (`Stack.lean`) has a `known` list that only grows: that is the code's behaviour only while no entry of a live station
  is purged, in particular when the station's clock runs AHEAD of the receiver's (clock skew).
* `lsGiveUp` - the give-up branch of `Router._ls_retransmit` (itsGnLocationServiceMaxRetrans reached): the lookup and
  its packet buffer are forgotten.  `lsGiveUpStale` - the same branch when the bookkeeping entry of the lookup is
  "reset" instead of removed (seeded change C01-m12): the model of what must not happen.

Core Lean only (the driver executes `Mesh.giveUp`).
-/
namespace FlexModel.Net
open FlexModel.Geo

/-- `LocationTable._age_ms`; `clamp` = the guard `if tst > current_time: return 0` is there -/
def ageShape (clamp : Bool) (now tst : Nat) : Nat := if clamp && TST.gt tst now then 0 else TST.sub now tst

/-- `refresh_table` keeps an entry with a position vector stamped `tst` at local time `now` -/
def keeps (clamp : Bool) (lifetimeMs now tst : Nat) : Bool := decide (ageShape clamp now tst ≤ lifetimeMs)

/-- give-up branch of `_ls_retransmit`: buffer, timer and retransmit counter of the lookup are removed -/
def lsGiveUp (s : Station) (de : Addr) : Station := { s with pending := erasePending s.pending de }

/-- the give-up branch that drops the buffered requests but leaves the lookup registered (C01-m12) -/
def lsGiveUpStale (s : Station) (de : Addr) : Station := { s with pending := setPending s.pending de [] }

def Mesh.giveUp (m : Mesh) (i de : Addr) : Mesh :=
  if m.ids.contains i then { m with st := upd m.st i (lsGiveUp (m.st i) de) } else m

end FlexModel.Net

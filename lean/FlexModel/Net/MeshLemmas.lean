import FlexModel.Net.Lemmas
import FlexModel.Net.Mesh
/-!
Lemmas for the n-station theorem of C01: a case description of `receive` / `request` / `flush` that hides the
record updates, and list-counting helpers.
-/
namespace FlexModel.Net
set_option linter.unusedSimpArgs false
set_option linter.unusedVariables false

/-- a packet without its remaining hop limit: what all forwarded copies of one packet have in common -/
def core (p : Pkt) : Pkt := { p with rhl := 0 }
/-- duplicate-detection key -/
def key (p : Pkt) : Addr × Nat := (p.so, p.sn)

@[simp] theorem core_core (p : Pkt) : core (core p) = core p := rfl
@[simp] theorem core_so (p : Pkt) : (core p).so = p.so := rfl
@[simp] theorem core_sn (p : Pkt) : (core p).sn = p.sn := rfl
@[simp] theorem core_kind (p : Pkt) : (core p).kind = p.kind := rfl
@[simp] theorem core_rhl (p : Pkt) : (core p).rhl = 0 := rfl
@[simp] theorem key_core (p : Pkt) : key (core p) = key p := rfl

/-- is a packet of this kind handed to the upper layer at station `me`? -/
def hitS (w : World) (me : Addr) : Kind → Bool
  | .shb => true
  | .gbc a => w.inside a me
  | .gac a => w.inside a me
  | .guc de => de == me
  | _ => false

/-- the handler invocations caused by the acceptance of `p` at the station with address `me` and ports `ports` -/
def dlvS (w : World) (me : Addr) (ports : List Nat) (p : Pkt) : List Delivery :=
  if p.so ≠ me ∧ hitS w me p.kind = true ∧ ports.contains (btpDecode p.data).1 = true then
    [{ port := (btpDecode p.data).1, info := (btpDecode p.data).2.1, btpB := p.btpB,
       payload := (btpDecode p.data).2.2, so := p.so, soPos := p.soPos, kind := p.kind }]
  else []

@[simp] theorem dlvS_core (w : World) (me : Addr) (ports : List Nat) (p : Pkt) :
    dlvS w me ports (core p) = dlvS w me ports p := rfl

/-- the fields of a station that never change -/
def Same (s s' : Station) : Prop :=
  s'.addr = s.addr ∧ s'.pos = s.pos ∧ s'.ports = s.ports ∧ s'.defaultHops = s.defaultHops

theorem Same.refl (s : Station) : Same s s := ⟨rfl, rfl, rfl, rfl⟩
theorem Same.trans {a b c : Station} (h1 : Same a b) (h2 : Same b c) : Same a c :=
  ⟨h2.1.trans h1.1, h2.2.1.trans h1.2.1, h2.2.2.1.trans h1.2.2.1, h2.2.2.2.trans h1.2.2.2⟩

/-- the location-service reply of `s` to a request of `to` -/
def lsRepPkt (s : Station) (to : Addr) : Pkt :=
  { so := s.addr, soPos := s.pos, sn := s.sn + 1, kind := .lsRep to, btpB := false, rhl := s.defaultHops, data := [] }

/-- the packets a flush of buffer `q` emits when no request is parked by the store-carry-forward stub -/
def flushPkts (s : Station) (de : Addr) : Nat → List Req → List Pkt
  | _, [] => []
  | sn, r :: rs => gucPkt s r de (sn + 1) :: flushPkts s de (sn + 1) rs

theorem flush_spec (s : Station) (de : Addr) (q : List Req) (hq : ∀ r ∈ q, r.scfBlocked = false) :
    Same s (flush s de q).1 ∧ (flush s de q).1.sn = s.sn + q.length ∧ (flush s de q).1.seen = s.seen ∧
    (flush s de q).1.pending = s.pending ∧ (flush s de q).1.delivered = s.delivered ∧
    (flush s de q).2 = flushPkts s de s.sn q := by
  induction q generalizing s with
  | nil => simp [flush, flushPkts, Same]
  | cons r rs ih =>
    have hr : r.scfBlocked = false := hq r (by simp)
    obtain ⟨i1, i2, i3, i4, i5, i6⟩ := ih { s with sn := s.sn + 1 } (fun r hr => hq r (by simp [hr]))
    simp only [flush, hr, Bool.false_eq_true, if_false, flushPkts, List.length_cons]
    refine ⟨i1, by rw [i2]; simp; omega, i3, i4, i5, ?_⟩
    rw [i6]
    have : ∀ n l, flushPkts { s with sn := s.sn + 1 } de n l = flushPkts s de n l := by
      intro n l; induction l generalizing n with
      | nil => rfl
      | cons a l ih => simp [flushPkts, ih, gucPkt, hops]
    simp [this, gucPkt, hops]

/-- every packet of a flush is a fresh unicast data packet of `s` -/
theorem flushPkts_mem (s : Station) (de : Addr) (n : Nat) (q : List Req) (p : Pkt) (hp : p ∈ flushPkts s de n q) :
    p.so = s.addr ∧ p.kind = .guc de ∧ n < p.sn ∧ p.sn ≤ n + q.length := by
  induction q generalizing n with
  | nil => simp [flushPkts] at hp
  | cons r rs ih =>
    simp only [flushPkts, List.mem_cons] at hp
    rcases hp with rfl | hp
    · simp [gucPkt]
    · have := ih (n + 1) hp
      exact ⟨this.1, this.2.1, by omega, by simp only [List.length_cons]; omega⟩

theorem flushPkts_keys_nodup (s : Station) (de : Addr) (n : Nat) (q : List Req) :
    ((flushPkts s de n q).map (fun p => p.sn)).Pairwise (· < ·) := by
  induction q generalizing n with
  | nil => simp [flushPkts]
  | cons r rs ih =>
    simp only [flushPkts, List.map_cons, List.pairwise_cons]
    refine ⟨?_, ih (n + 1)⟩
    intro x hx
    obtain ⟨p, hp, rfl⟩ := List.mem_map.mp hx
    have := flushPkts_mem s de (n + 1) rs p hp
    simp [gucPkt]; omega

/-- the cases of `receive` -/
inductive RecvCase (w : World) (s : Station) (p : Pkt) : Station × List Pkt → Prop
  | ignore : (p.so = s.addr ∨ (p.kind ≠ .shb ∧ key p ∈ s.seen)) → RecvCase w s p (s, [])
  | shb (s' : Station) : p.so ≠ s.addr → p.kind = .shb → Same s s' → s'.sn = s.sn → s'.seen = s.seen →
      s'.pending = s.pending → s'.delivered = s.delivered ++ dlvS w s.addr s.ports p → RecvCase w s p (s', [])
  | plain (s' : Station) (out : List Pkt) : p.so ≠ s.addr → p.kind ≠ .shb → key p ∉ s.seen → Same s s' →
      s'.sn = s.sn → s'.seen = s.seen ++ [key p] → s'.pending = s.pending →
      s'.delivered = s.delivered ++ dlvS w s.addr s.ports p → (∀ q ∈ out, q ∈ forwardCopy p) →
      (p.kind = .lsRep s.addr → lookupPending s.pending p.so = none) → p.kind ≠ .lsReq s.addr →
      RecvCase w s p (s', out)
  | reply (s' : Station) : p.so ≠ s.addr → p.kind = .lsReq s.addr → key p ∉ s.seen → Same s s' →
      s'.sn = s.sn + 1 → s'.seen = s.seen ++ [key p] → s'.pending = s.pending →
      s'.delivered = s.delivered → RecvCase w s p (s', [lsRepPkt s p.so])
  | flush (s2 : Station) (q : List Req) : p.so ≠ s.addr → p.kind = .lsRep s.addr → key p ∉ s.seen →
      lookupPending s.pending p.so = some q → Same s s2 → s2.sn = s.sn → s2.seen = s.seen ++ [key p] →
      s2.pending = erasePending s.pending p.so → s2.delivered = s.delivered →
      RecvCase w s p (flush s2 p.so q)

theorem dlvS_nodata (w : World) (me : Addr) (ports : List Nat) (p : Pkt)
    (h : (∃ a, p.kind = .lsReq a) ∨ (∃ a, p.kind = .lsRep a)) : dlvS w me ports p = [] := by
  rcases h with ⟨a, h⟩ | ⟨a, h⟩ <;> simp [dlvS, hitS, h]

theorem deliver_spec (w : World) (s : Station) (p : Pkt) (me : Addr) (ports : List Nat) (hne : p.so ≠ me)
    (hit : hitS w me p.kind = true) (hp : s.ports = ports) :
    (deliver s p).delivered = s.delivered ++ dlvS w me ports p := by
  unfold deliver dlvS
  simp only [hne, hit, hp, ne_eq, not_false_eq_true, true_and]
  split <;> simp_all

theorem receive_spec (w : World) (s : Station) (p : Pkt) : RecvCase w s p (receive w s p) := by
  unfold receive
  by_cases hso : p.so = s.addr
  · simp only [hso, if_true]; exact .ignore (Or.inl hso)
  · simp only [hso, if_false]
    cases hk : p.kind with
    | shb =>
      simp only
      refine .shb _ hso hk ⟨by simp, by simp, by simp, by simp⟩ (by simp) (by simp) (by simp) ?_
      rw [deliver_spec w _ p s.addr s.ports hso (by simp [hitS, hk]) (by simp)]; simp
    | gbc a =>
      simp only
      by_cases hs : (p.so, p.sn) ∈ s.seen
      · simp only [List.contains_iff_mem, hs, if_true]; exact .ignore (Or.inr ⟨by simp [hk], hs⟩)
      · simp only [List.contains_iff_mem, hs, if_false]
        by_cases hin : w.inside a s.addr = true
        · simp only [hin, if_true]
          refine .plain _ _ hso (by simp [hk]) hs ⟨by simp, by simp, by simp, by simp⟩ (by simp) (by simp [key]) (by simp) ?_ (by simp) (by simp [hk]) (by simp [hk])
          rw [deliver_spec w _ p s.addr s.ports hso (by simp [hitS, hk, hin]) (by simp)]; simp
        · simp only [hin, if_false]
          refine .plain _ _ hso (by simp [hk]) hs ⟨by simp, by simp, by simp, by simp⟩ (by simp) (by simp [key]) (by simp) ?_ (by simp) (by simp [hk]) (by simp [hk])
          simp [dlvS, hitS, hk, hin]
    | gac a =>
      simp only
      by_cases hs : (p.so, p.sn) ∈ s.seen
      · simp only [List.contains_iff_mem, hs, if_true]; exact .ignore (Or.inr ⟨by simp [hk], hs⟩)
      · simp only [List.contains_iff_mem, hs, if_false]
        by_cases hin : w.inside a s.addr = true
        · simp only [hin, if_true]
          refine .plain _ _ hso (by simp [hk]) hs ⟨by simp, by simp, by simp, by simp⟩ (by simp) (by simp [key]) (by simp) ?_ (by simp) (by simp [hk]) (by simp [hk])
          rw [deliver_spec w _ p s.addr s.ports hso (by simp [hitS, hk, hin]) (by simp)]; simp
        · simp only [hin, if_false]
          refine .plain _ _ hso (by simp [hk]) hs ⟨by simp, by simp, by simp, by simp⟩ (by simp) (by simp [key]) (by simp) ?_ (by simp) (by simp [hk]) (by simp [hk])
          simp [dlvS, hitS, hk, hin]
    | guc de =>
      simp only
      by_cases hs : (p.so, p.sn) ∈ s.seen
      · simp only [List.contains_iff_mem, hs, if_true]; exact .ignore (Or.inr ⟨by simp [hk], hs⟩)
      · simp only [List.contains_iff_mem, hs, if_false]
        by_cases hin : de = s.addr
        · simp only [hin, if_true]
          refine .plain _ _ hso (by simp [hk]) hs ⟨by simp, by simp, by simp, by simp⟩ (by simp) (by simp [key]) (by simp) ?_ (by simp) (by simp [hk]) (by simp [hk])
          rw [deliver_spec w _ p s.addr s.ports hso (by simp [hitS, hk, hin]) (by simp)]; simp
        · simp only [hin, if_false]
          refine .plain _ _ hso (by simp [hk]) hs ⟨by simp, by simp, by simp, by simp⟩ (by simp) (by simp [key]) (by simp) ?_ (by simp) (by simp [hk]) (by simp [hk])
          simp [dlvS, hitS, hk, hin]
    | lsReq sought =>
      simp only
      by_cases hs : (p.so, p.sn) ∈ s.seen
      · simp only [List.contains_iff_mem, hs, if_true]; exact .ignore (Or.inr ⟨by simp [hk], hs⟩)
      · simp only [List.contains_iff_mem, hs, if_false]
        by_cases hin : sought = s.addr
        · subst hin
          simp only [if_true, learn_sn]
          exact .reply _ hso hk hs ⟨by simp, by simp, by simp, by simp⟩ (by simp) (by simp [key]) (by simp) (by simp)
        · simp only [hin, if_false]
          refine .plain _ _ hso (by simp [hk]) hs ⟨by simp, by simp, by simp, by simp⟩ (by simp) (by simp [key]) (by simp) ?_ (by simp) (by simp [hk]) (by simp [hk, hin])
          simp [dlvS, hitS, hk]
    | lsRep de =>
      simp only
      by_cases hs : (p.so, p.sn) ∈ s.seen
      · simp only [List.contains_iff_mem, hs, if_true]; exact .ignore (Or.inr ⟨by simp [hk], hs⟩)
      · simp only [List.contains_iff_mem, hs, if_false]
        by_cases hin : de = s.addr
        · subst hin
          simp only [if_true, learn_pending]
          cases hl : lookupPending s.pending p.so with
          | none =>
            simp only
            refine .plain _ _ hso (by simp [hk]) hs ⟨by simp, by simp, by simp, by simp⟩ (by simp) (by simp [key]) (by simp) ?_ (by simp) (fun _ => hl) (by simp [hk])
            simp [dlvS, hitS, hk]
          | some q =>
            simp only
            exact .flush _ q hso hk hs hl ⟨by simp, by simp, by simp, by simp⟩ (by simp) (by simp [key]) (by simp) (by simp)
        · simp only [hin, if_false]
          refine .plain _ _ hso (by simp [hk]) hs ⟨by simp, by simp, by simp, by simp⟩ (by simp) (by simp [key]) (by simp) ?_ (by simp) (by simp [hk, hin]) (by simp [hk])
          simp [dlvS, hitS, hk]

/-! ### list helpers -/
section ListHelpers
open List

theorem mem_bcast (ids : List Addr) (x : Addr) (out : List Pkt) (j : Addr) (q : Pkt) :
    (j, q) ∈ bcast ids x out ↔ q ∈ out ∧ j ∈ ids ∧ j ≠ x := by
  simp [bcast]
  constructor
  · rintro ⟨a, ha, k, ⟨hk1, hk2⟩, rfl, rfl⟩; exact ⟨ha, hk1, hk2⟩
  · rintro ⟨h1, h2, h3⟩; exact ⟨q, h1, j, ⟨h2, h3⟩, rfl, rfl⟩

theorem count_erase_split {α β : Type} [DecidableEq β] (l : List α) (k : Nat) (f : α) (h : l[k]? = some f)
    (q : α → Bool) (g : α → List β) (d : β) :
    count d ((l.filter q).flatMap g) =
      count d (if q f then g f else []) + count d (((l.eraseIdx k).filter q).flatMap g) := by
  induction l generalizing k with
  | nil => simp at h
  | cons a l ih =>
    cases k with
    | zero =>
      simp at h; subst h
      by_cases hq : q a <;> simp [filter_cons, hq, count_append]
    | succ k =>
      simp at h
      have := ih k h
      by_cases hq : q a <;> simp [filter_cons, hq, count_append, this] <;> omega

theorem mem_eraseIdx_or {α : Type} (l : List α) (k : Nat) (f x : α) (h : l[k]? = some f) (hx : x ∈ l) :
    x = f ∨ x ∈ l.eraseIdx k := by
  induction l generalizing k with
  | nil => simp at h
  | cons a l ih =>
    cases k with
    | zero => simp at h; subst h; simp at hx ⊢; exact hx
    | succ k =>
      simp at h hx ⊢
      rcases hx with rfl | hx
      · right; left; rfl
      · rcases ih k h hx with h1 | h1
        · left; exact h1
        · right; right; exact h1

theorem count_filter_flip {α β : Type} [DecidableEq β] (l : List α) (P : α) (hP : P ∈ l) (hnd : l.Nodup)
    (q q' : α → Bool) (hq : q P = true) (hq' : q' P = false) (hrest : ∀ x ∈ l, x ≠ P → q' x = q x)
    (g : α → List β) (d : β) :
    count d ((l.filter q).flatMap g) = count d (g P) + count d ((l.filter q').flatMap g) := by
  induction l with
  | nil => simp at hP
  | cons a l ih =>
    simp at hnd
    by_cases ha : a = P
    · subst ha
      have : l.filter q' = l.filter q := by
        apply filter_congr
        intro x hx
        exact hrest x (by simp [hx]) (fun e => hnd.1 (e ▸ hx))
      simp [filter_cons, hq, hq', count_append, this]
    · have hP' : P ∈ l := by simp at hP; rcases hP with h | h; exact absurd h.symm ha; exact h
      have := ih hP' hnd.2 (fun x hx hne => hrest x (by simp [hx]) hne)
      have e := hrest a (by simp) ha
      by_cases hqa : q a <;> simp [filter_cons, hqa, e, count_append, this] <;> omega

theorem flatMap_congr' {α β : Type} (l : List α) (F F' : α → List β) (h : ∀ i ∈ l, F' i = F i) :
    l.flatMap F' = l.flatMap F := by
  induction l with
  | nil => rfl
  | cons a l ih => simp [h a (by simp), ih (fun i hi => h i (by simp [hi]))]

theorem count_flatMap_upd {β : Type} [DecidableEq β] (ids : List Addr) (x : Addr) (hx : x ∈ ids) (hnd : ids.Nodup)
    (F F' : Addr → List β) (h : ∀ i, i ≠ x → F' i = F i) (d : β) :
    count d (ids.flatMap F') + count d (F x) = count d (ids.flatMap F) + count d (F' x) := by
  induction ids with
  | nil => simp at hx
  | cons a l ih =>
    simp at hnd
    by_cases ha : a = x
    · subst ha
      have : l.flatMap F' = l.flatMap F := by
        apply flatMap_congr'; intro i hi; exact h i (fun e => hnd.1 (e ▸ hi))
      simp [count_append, this]; omega
    · have hx' : x ∈ l := by simp at hx; rcases hx with h | h; exact absurd h.symm ha; exact h
      have := ih hx' hnd.2
      simp [count_append, h a ha]; omega
end ListHelpers

/-! ### requests, expected deliveries, location-service buffers -/
section Requests
open List

def kindOf : Transport → Kind
  | .shb => .shb | .gbc a => .gbc a | .gac a => .gac a | .guc de => .guc de

/-- the data packet originated for request `r` with sequence number `sn` -/
def dataPkt (s : Station) (r : Req) (sn : Nat) : Pkt :=
  { so := s.addr, soPos := s.pos, sn := sn, kind := kindOf r.transport, btpB := r.btpB,
    rhl := if r.transport = .shb then 1 else hops s r, data := btpEncode r }

def lsReqPkt (s : Station) (de : Addr) : Pkt :=
  { so := s.addr, soPos := s.pos, sn := s.sn + 1, kind := .lsReq de, btpB := false, rhl := s.defaultHops, data := [] }

/-- the prescribed delivery of request `r` of station (`i`, position `posi`) at station (`j`, ports `portsj`) -/
def expS (w : World) (i : Addr) (posi : Nat) (j : Addr) (portsj : List Nat) (r : Req) : List Delivery :=
  if i ≠ j ∧ hitS w j (kindOf r.transport) = true ∧ portsj.contains r.dport = true then
    [{ port := r.dport, info := r.info, btpB := r.btpB, payload := r.payload, so := i, soPos := posi,
       kind := kindOf r.transport }]
  else []

theorem dlvS_dataPkt (w : World) (s : Station) (r : Req) (sn : Nat) (j : Addr) (ports : List Nat)
    (hd : r.dport < 65536) (hi : r.info < 65536) :
    dlvS w j ports (dataPkt s r sn) = expS w s.addr s.pos j ports r := by
  simp [dlvS, expS, dataPkt, btp_roundtrip r hd hi]

theorem gucPkt_eq (s : Station) (r : Req) (de : Addr) (sn : Nat) (h : r.transport = .guc de) :
    gucPkt s r de sn = dataPkt s r sn := by
  simp [gucPkt, dataPkt, h, kindOf]

theorem expS_expected (w : World) (a b : Station) (r : Req) :
    expS w a.addr a.pos b.addr b.ports r = if a.addr = b.addr then [] else expected w a b r := by
  unfold expS expected
  by_cases h : a.addr = b.addr
  · simp [h]
  · cases ht : r.transport <;> simp [h, hitS, kindOf, ht]

/-- requests in the scope of the theorem: 16-bit ports, not parked in a (stub) store-carry-forward buffer -/
def RqOK (r : Req) : Prop := r.dport < 65536 ∧ r.info < 65536 ∧ r.scfBlocked = false

inductive ReqCase (s : Station) (r : Req) : Station × List Pkt → Prop
  | shb : r.transport = .shb → ReqCase s r (s, [dataPkt s r 0])
  | imm (s' : Station) : r.transport ≠ .shb → Same s s' → s'.sn = s.sn + 1 → s'.seen = s.seen →
      s'.pending = s.pending → s'.delivered = s.delivered →
      (∀ de, r.transport = .guc de → lookupPending s.pending de = none) → ReqCase s r (s', [dataPkt s r (s.sn + 1)])
  | queue (s' : Station) (de : Addr) (q : List Req) : r.transport = .guc de → lookupPending s.pending de = some q →
      Same s s' → s'.sn = s.sn → s'.seen = s.seen → s'.pending = setPending s.pending de (q ++ [r]) →
      s'.delivered = s.delivered → ReqCase s r (s', [])
  | start (s' : Station) (de : Addr) : r.transport = .guc de → lookupPending s.pending de = none →
      Same s s' → s'.sn = s.sn + 1 → s'.seen = s.seen → s'.pending = setPending s.pending de [r] →
      s'.delivered = s.delivered → ReqCase s r (s', [lsReqPkt s de])

theorem request_spec (s : Station) (r : Req) (hb : r.scfBlocked = false) : ReqCase s r (request s r) := by
  unfold request
  cases ht : r.transport with
  | shb =>
    simp only
    have : dataPkt s r 0 = { so := s.addr, soPos := s.pos, sn := 0, kind := .shb, btpB := r.btpB, rhl := 1, data := btpEncode r } := by
      simp [dataPkt, ht, kindOf]
    rw [← this]; exact .shb ht
  | gbc a =>
    simp only [hb, Bool.false_eq_true, if_false]
    have : dataPkt s r (s.sn + 1) = { so := s.addr, soPos := s.pos, sn := s.sn + 1, kind := .gbc a, btpB := r.btpB, rhl := hops s r, data := btpEncode r } := by
      simp [dataPkt, ht, kindOf]
    rw [← this]; exact .imm _ (by simp [ht]) ⟨rfl, rfl, rfl, rfl⟩ rfl rfl rfl rfl (by simp [ht])
  | gac a =>
    simp only [hb, Bool.false_eq_true, if_false]
    have : dataPkt s r (s.sn + 1) = { so := s.addr, soPos := s.pos, sn := s.sn + 1, kind := .gac a, btpB := r.btpB, rhl := hops s r, data := btpEncode r } := by
      simp [dataPkt, ht, kindOf]
    rw [← this]; exact .imm _ (by simp [ht]) ⟨rfl, rfl, rfl, rfl⟩ rfl rfl rfl rfl (by simp [ht])
  | guc de =>
    simp only
    cases hl : lookupPending s.pending de with
    | some q => simp only; exact .queue _ de q ht hl ⟨rfl, rfl, rfl, rfl⟩ rfl rfl rfl rfl
    | none =>
      simp only
      by_cases hk : s.known.contains de = true
      · simp only [hk, if_true, hb, Bool.false_eq_true, if_false]
        rw [gucPkt_eq s r de _ ht]
        exact .imm _ (by simp [ht]) ⟨rfl, rfl, rfl, rfl⟩ rfl rfl rfl rfl (by intro de' h'; rw [ht] at h'; cases h'; exact hl)
      · simp only [hk, if_false]
        exact .start _ de ht hl ⟨rfl, rfl, rfl, rfl⟩ rfl rfl rfl rfl

/-! pending buffers -/

/-- what the requests waiting in location-service buffers `pend` of station `i` still owe to station `j` -/
def bufExp (w : World) (i : Addr) (posi : Nat) (j : Addr) (portsj : List Nat) (pend : List (Addr × List Req)) :
    List Delivery :=
  pend.flatMap (fun e => e.2.flatMap (expS w i posi j portsj))

theorem lookup_none_iff (p : List (Addr × List Req)) (a : Addr) :
    lookupPending p a = none ↔ ∀ e ∈ p, e.1 ≠ a := by
  simp [lookupPending]

theorem lookup_some_mem (p : List (Addr × List Req)) (a : Addr) (q : List Req) (h : lookupPending p a = some q) :
    (a, q) ∈ p := by
  unfold lookupPending at h
  cases hf : p.find? (fun e => decide (e.1 = a)) with
  | none => simp [hf] at h
  | some x =>
    have h1 := List.find?_some hf
    have hm := List.mem_of_find?_eq_some hf
    obtain ⟨x1, x2⟩ := x
    simp [hf] at h h1
    subst h; subst h1; exact hm

theorem setPending_new (p : List (Addr × List Req)) (a : Addr) (q : List Req) (h : lookupPending p a = none) :
    setPending p a q = p ++ [(a, q)] := by
  have := (lookup_none_iff p a).mp h
  have hany : p.any (fun e => decide (e.1 = a)) = false := by
    simp only [List.any_eq_false, decide_eq_true_eq]; exact this
  simp [setPending, hany]

theorem count_bufExp_set (w : World) (i posi j portsj) (p : List (Addr × List Req)) (a : Addr) (q : List Req) (r : Req)
    (h : lookupPending p a = some q) (hnd : (p.map (·.1)).Nodup) (d : Delivery) :
    count d (bufExp w i posi j portsj (setPending p a (q ++ [r]))) =
      count d (bufExp w i posi j portsj p) + count d (expS w i posi j portsj r) := by
  have hm := lookup_some_mem p a q h
  have hany : p.any (fun e => decide (e.1 = a)) = true := by simp; exact ⟨_, hm⟩
  simp only [setPending, hany, if_true]
  clear hany h
  induction p with
  | nil => simp at hm
  | cons e p ih =>
    simp at hnd
    simp at hm
    rcases hm with rfl | hm
    · have : p.map (fun e => if e.1 = a then (a, q ++ [r]) else e) = p := by
        conv => rhs; rw [← List.map_id p]
        apply List.map_congr_left
        intro x hx
        have : x.1 ≠ a := fun e => hnd.1 x.2 (by rw [← e]; exact hx)
        simp [this]
      simp [bufExp, this, count_append]; omega
    · have hne : e.1 ≠ a := fun h => hnd.1 q (by rw [h]; exact hm)
      have := ih hnd.2 hm
      simp [bufExp, hne, count_append] at this ⊢
      omega

theorem count_bufExp_erase (w : World) (i posi j portsj) (p : List (Addr × List Req)) (a : Addr) (q : List Req)
    (h : lookupPending p a = some q) (hnd : (p.map (·.1)).Nodup) (d : Delivery) :
    count d (bufExp w i posi j portsj p) =
      count d (bufExp w i posi j portsj (erasePending p a)) + count d (q.flatMap (expS w i posi j portsj)) := by
  have hm := lookup_some_mem p a q h
  clear h
  induction p with
  | nil => simp at hm
  | cons e p ih =>
    simp at hnd
    simp at hm
    rcases hm with rfl | hm
    · have : p.filter (fun e => !decide (e.1 = a)) = p := by
        apply List.filter_eq_self.mpr
        intro x hx
        simp only [Bool.not_eq_eq_eq_not, Bool.not_true, decide_eq_false_iff_not]
        exact fun e => hnd.1 x.2 (by rw [← e]; exact hx)
      simp [bufExp, erasePending, count_append, this]; omega
    · have hne : e.1 ≠ a := fun h => hnd.1 q (by rw [h]; exact hm)
      have := ih hnd.2 hm
      simp [bufExp, erasePending, hne, count_append] at this ⊢
      omega
end Requests

end FlexModel.Net

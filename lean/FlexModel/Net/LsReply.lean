import FlexModel.Net.LagLemmas
import FlexModel.Net.MeshRing
/-!
C01 round 5: a location-service lookup that is answered MORE THAN ONCE (slow first answer, retransmitted LS request,
the sought station answers every request: the replies are different packets with different sequence numbers, duplicate
packet detection does not filter them).  The first reply TAKES the packet buffer of the lookup (`erasePending`; in the
code `self._ls_packet_buffers.pop(...)`, a fact re-read from the source: `Generated.NetFacts.lsFlushTakesBuffer`),
so every later reply of that station - whatever the requester received or was asked to send in between - finds no
lookup, transmits nothing and hands nothing to a handler.
-/
namespace FlexModel.Net
open List

theorem flush_known (s : Station) (de : Addr) (q : List Req) : (flush s de q).1.known = s.known := by
  induction q generalizing s with
  | nil => rfl
  | cons r rs ih => simp only [flush]; rw [ih]

theorem lookup_setPending_ne (p : List (Addr × List Req)) (a a' : Addr) (q : List Req) (hne : a' ≠ a) :
    lookupPending (setPending p a q) a' = lookupPending p a' := by
  cases h : lookupPending p a with
  | some q0 => exact lookup_set_other p a a' q q0 h hne
  | none =>
    rw [setPending_new p a q h]
    have h1 : ¬ a = a' := fun e => hne e.symm
    simp [lookupPending, find?_append, h1]

/-- the lookup for `de` is over: `de` has a location table entry with a position vector and no lookup is pending -/
def Settled (s : Station) (de : Addr) : Prop := s.known.contains de = true ∧ lookupPending s.pending de = none

theorem learn_known_mono (s : Station) (a de : Addr) (h : s.known.contains de = true) :
    (learn s a).known.contains de = true := by
  unfold learn; split
  · exact h
  · simp at h ⊢; exact Or.inl h

theorem learn_known_self (s : Station) (a : Addr) : (learn s a).known.contains a = true := by
  unfold learn; split
  · assumption
  · simp

/-- what a reception does to the set of known stations: it only grows -/
theorem receive_known_mono (w : World) (s : Station) (p : Pkt) (de : Addr) (h : s.known.contains de = true) :
    (receive w s p).1.known.contains de = true := by
  have hl : ∀ (s' : Station), s'.known = s.known → (learn s' p.so).known.contains de = true :=
    fun s' e => learn_known_mono s' p.so de (by rw [e]; exact h)
  unfold receive
  by_cases h0 : p.so = s.addr
  · simp only [h0, if_true]; exact h
  · simp only [h0, if_false]
    cases hk : p.kind with
    | shb => simp only [deliver_known]; exact hl s rfl
    | gbc a =>
      simp only
      split
      · exact h
      · split <;> simp only [deliver_known] <;> exact hl _ rfl
    | gac a =>
      simp only
      split
      · exact h
      · split <;> simp only [deliver_known] <;> exact hl _ rfl
    | guc d =>
      simp only
      split
      · exact h
      · split <;> simp only [deliver_known] <;> exact hl _ rfl
    | lsReq a =>
      simp only
      split
      · exact h
      · split <;> exact hl _ rfl
    | lsRep d =>
      simp only
      split
      · exact h
      · split
        · split
          · simp only [flush_known]; exact hl _ rfl
          · exact hl _ rfl
        · exact hl _ rfl

/-- **The first reply takes the buffer.**  An LS reply of `p.so` addressed to this station that passes duplicate
address / duplicate packet detection leaves no lookup for `p.so` behind (whether one was pending or not), and `p.so`
is known from now on. -/
theorem settled_after_reply (w : World) (s : Station) (p : Pkt) (hk : p.kind = .lsRep s.addr)
    (hne : p.so ≠ s.addr) (hd : s.seen.contains (p.so, p.sn) = false) : Settled (receive w s p).1 p.so := by
  unfold Settled receive
  simp only [hne, if_false, hk, hd, Bool.false_eq_true, if_true, learn_pending]
  split
  · simp only [flush_known, flush_pending]
    exact ⟨learn_known_self _ _, lookup_erase_same _ _⟩
  · rename_i hq
    exact ⟨learn_known_self _ _, by simpa using hq⟩

theorem settled_receive (w : World) (s : Station) (p : Pkt) (de : Addr) (h : Settled s de) :
    Settled (receive w s p).1 de := by
  refine ⟨receive_known_mono w s p de h.1, ?_⟩
  by_cases hx : p.kind = .lsRep s.addr ∧ p.so = de
  · obtain ⟨hk, hso⟩ := hx
    subst hso
    unfold receive
    by_cases h0 : p.so = s.addr
    · simp only [h0, if_true]; rw [← h0]; exact h.2
    · simp only [h0, if_false, hk]
      split
      · exact h.2
      · simp only [if_true, learn_pending, h.2]
  · rw [lookup_survives_reception w s p de hx]; exact h.2

theorem settled_request (s : Station) (r : Req) (de : Addr) (h : Settled s de) : Settled (request s r).1 de := by
  unfold Settled request
  cases ht : r.transport with
  | shb => exact h
  | gbc a => exact h
  | gac a => exact h
  | guc d =>
    simp only
    by_cases hd : d = de
    · subst hd
      simp only [h.2, h.1, if_true]
      exact ⟨trivial, trivial⟩
    · cases hq : lookupPending s.pending d with
      | some q => simp only; exact ⟨h.1, by rw [lookup_setPending_ne _ _ _ _ (Ne.symm hd)]; exact h.2⟩
      | none =>
        simp only
        split
        · exact h
        · exact ⟨h.1, by rw [lookup_setPending_ne _ _ _ _ (Ne.symm hd)]; exact h.2⟩

/-- **A reply without a lookup is silent**: nothing is transmitted, no handler is invoked, no sequence number is
consumed. -/
theorem reply_without_lookup_silent (w : World) (s : Station) (p : Pkt) (hk : p.kind = .lsRep s.addr)
    (hp : lookupPending s.pending p.so = none) :
    (receive w s p).2 = [] ∧ (receive w s p).1.delivered = s.delivered ∧ (receive w s p).1.sn = s.sn := by
  unfold receive
  by_cases h0 : p.so = s.addr
  · simp [h0]
  · simp only [h0, if_false, hk]
    split
    · simp
    · simp only [if_true, learn_pending, hp, learn_delivered, learn_sn]
      simp

/-- what happens at one station: it receives a packet or is handed a request -/
inductive SEv
  | rx (p : Pkt)
  | rq (r : Req)

def stepS (w : World) (s : Station) : SEv → Station
  | .rx p => (receive w s p).1
  | .rq r => (request s r).1

theorem settled_run (w : World) (s : Station) (de : Addr) (evs : List SEv) (h : Settled s de) :
    Settled (evs.foldl (stepS w) s) de := by
  induction evs generalizing s with
  | nil => exact h
  | cons e es ih =>
    apply ih
    cases e with
    | rx p => exact settled_receive w s p de h
    | rq r => exact settled_request s r de h

theorem receive_addr (w : World) (s : Station) (p : Pkt) : (receive w s p).1.addr = s.addr := by
  generalize hx : receive w s p = x
  have hc := receive_spec w s p
  rw [hx] at hc
  cases hc with
  | ignore _ => rfl
  | shb s' _ _ hs => exact hs.1
  | plain s' out _ _ _ hs => exact hs.1
  | reply s' _ _ _ hs => exact hs.1
  | flush s2 q _ _ _ _ hs => rw [flush_addr]; exact hs.1

theorem request_addr (s : Station) (r : Req) : (request s r).1.addr = s.addr := by
  unfold request
  cases r.transport <;> simp only [] <;> (repeat' split) <;> rfl

theorem stepS_addr (w : World) (s : Station) (e : SEv) : (stepS w s e).addr = s.addr := by
  cases e with
  | rx p => exact receive_addr w s p
  | rq r => exact request_addr s r

theorem runS_addr (w : World) (s : Station) (evs : List SEv) : (evs.foldl (stepS w) s).addr = s.addr := by
  induction evs generalizing s with
  | nil => rfl
  | cons e es ih => simp only [foldl_cons]; rw [ih, stepS_addr]

/-- **A second reply flushes nothing.**  Station `s` receives an LS reply `p1` of station `p1.so` (accepted: not its
own, not a duplicate); then ANYTHING happens at `s` - receptions of any packets, requests of any kind, in any
number and order (`evs`); then another LS reply `p2` of the same station for `s` arrives (the answer to a
retransmitted LS request: a different packet, a different sequence number).  It transmits nothing, invokes no
handler and consumes no sequence number: the unicast requests that waited for the lookup were sent once, by the
first reply. -/
theorem second_reply_flushes_nothing (w : World) (s : Station) (p1 p2 : Pkt) (evs : List SEv)
    (hk1 : p1.kind = .lsRep s.addr) (hne : p1.so ≠ s.addr) (hd : s.seen.contains (p1.so, p1.sn) = false)
    (hk2 : p2.kind = .lsRep s.addr) (hso : p2.so = p1.so) :
    let s' := evs.foldl (stepS w) (receive w s p1).1
    (receive w s' p2).2 = [] ∧ (receive w s' p2).1.delivered = s'.delivered ∧ (receive w s' p2).1.sn = s'.sn := by
  intro s'
  have hs : Settled s' p1.so := settled_run w _ _ evs (settled_after_reply w s p1 hk1 hne hd)
  have ha : s'.addr = s.addr := by rw [runS_addr, receive_addr]
  exact reply_without_lookup_silent w s' p2 (by rw [hk2, ha]) (by rw [hso]; exact hs.2)

end FlexModel.Net

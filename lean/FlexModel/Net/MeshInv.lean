import FlexModel.Net.MeshLemmas
/-!
Invariant of the asynchronous n-station mesh (C01) and its preservation by every event.

Ghost data: `orig` = the multi-hop packets (everything but SHB) originated so far, without their hop limit;
`base j` = everything station `j` has been or will still be handed.
-/
namespace FlexModel.Net
open List
set_option linter.unusedSimpArgs false
set_option linter.unusedVariables false

/-- what never changes at a station: position vector and registered ports, by address -/
structure Static where
  pos : Addr → Nat
  ports : Addr → List Nat

/-- the common shape of all events: station `x` moves to `s'`, the air becomes `air'` plus what `x` transmits -/
def Mesh.act (m : Mesh) (x : Addr) (s' : Station) (air' : List (Addr × Pkt)) (out : List Pkt) : Mesh :=
  { m with st := upd m.st x s', air := air' ++ bcast m.ids x out }

@[simp] theorem upd_same (f : Addr → Station) (x : Addr) (s : Station) : upd f x s x = s := by simp [upd]
theorem upd_other (f : Addr → Station) (x a : Addr) (s : Station) (h : a ≠ x) : upd f x s a = f a := by simp [upd, h]
@[simp] theorem act_ids (m : Mesh) (x s' air' out) : (m.act x s' air' out).ids = m.ids := rfl
@[simp] theorem act_st_same (m : Mesh) (x s' air' out) : (m.act x s' air' out).st x = s' := by simp [Mesh.act]
theorem act_st_other (m : Mesh) (x s' air' out) (a : Addr) (h : a ≠ x) : (m.act x s' air' out).st a = m.st a := by
  simp [Mesh.act, upd_other _ _ _ _ h]
@[simp] theorem act_air (m : Mesh) (x s' air' out) : (m.act x s' air' out).air = air' ++ bcast m.ids x out := rfl

/-- structural part of the invariant -/
structure InvS (σ : Static) (m : Mesh) (orig : List Pkt) : Prop where
  nodup : m.ids.Nodup
  stat : ∀ a, (m.st a).addr = a ∧ (m.st a).pos = σ.pos a ∧ (m.st a).ports = σ.ports a
  air_ids : ∀ f ∈ m.air, f.1 ∈ m.ids
  air_ok : ∀ f ∈ m.air, f.2.kind ≠ .shb → core f.2 ∈ orig
  orig_ok : ∀ P ∈ orig, P.kind ≠ .shb ∧ P.rhl = 0 ∧ P.sn ≤ (m.st P.so).sn
  keys_nd : (orig.map key).Nodup
  seen_ok : ∀ j a sn, a ∈ m.ids → (a, sn) ∈ (m.st j).seen → sn ≤ (m.st a).sn
  live : ∀ P ∈ orig, ∀ j ∈ m.ids, j ≠ P.so → key P ∈ (m.st j).seen ∨ ∃ f ∈ m.air, f.1 = j ∧ core f.2 = P

theorem eq_of_key_eq {l : List Pkt} (h : (l.map key).Nodup) {P Q : Pkt} (hP : P ∈ l) (hQ : Q ∈ l)
    (e : key P = key Q) : P = Q := by
  induction l with
  | nil => simp at hP
  | cons a l ih =>
    simp only [map_cons, nodup_cons, mem_map, not_exists, not_and] at h
    simp only [mem_cons] at hP hQ
    rcases hP with rfl | hP <;> rcases hQ with rfl | hQ
    · rfl
    · exact absurd e.symm (h.1 Q hQ)
    · exact absurd e (h.1 P hP)
    · exact ih h.2 hP hQ

theorem InvS.act {σ : Static} {m : Mesh} {orig : List Pkt} (h : InvS σ m orig)
    (x : Addr) (s' : Station) (air' : List (Addr × Pkt)) (out news : List Pkt)
    (hsame : Same (m.st x) s') (hsn : (m.st x).sn ≤ s'.sn)
    (hair : ∀ f ∈ air', f ∈ m.air)
    (hrm : ∀ f ∈ m.air, f ∈ air' ∨ (f.1 = x ∧ (f.2.kind = .shb ∨ f.2.so = x ∨ key f.2 ∈ s'.seen)))
    (hseen : ∀ k ∈ s'.seen, k ∈ (m.st x).seen ∨ ∃ P ∈ orig, key P = k)
    (hmono : ∀ k ∈ (m.st x).seen, k ∈ s'.seen)
    (hnd : (news.map key).Nodup)
    (hnews : ∀ Q ∈ news, Q.so = x ∧ Q.kind ≠ .shb ∧ (m.st x).sn < Q.sn ∧ Q.sn ≤ s'.sn ∧ Q ∈ out)
    (hout : ∀ q ∈ out, q.kind ≠ .shb → core q ∈ orig ∨ q ∈ news) :
    InvS σ (m.act x s' air' out) (orig ++ news.map core) := by
  have hst : ∀ a, (m.st a).sn ≤ ((m.act x s' air' out).st a).sn := by
    intro a
    by_cases ha : a = x
    · subst ha; simpa using hsn
    · rw [act_st_other _ _ _ _ _ _ ha]; exact Nat.le_refl _
  refine ⟨h.nodup, ?_, ?_, ?_, ?_, ?_, ?_, ?_⟩
  · intro a
    by_cases ha : a = x
    · subst ha
      have := h.stat a
      simp only [act_st_same]
      exact ⟨hsame.1.trans this.1, hsame.2.1.trans this.2.1, hsame.2.2.1.trans this.2.2⟩
    · rw [act_st_other _ _ _ _ _ _ ha]; exact h.stat a
  · intro f hf
    simp only [act_air, mem_append] at hf
    rcases hf with hf | hf
    · exact h.air_ids f (hair f hf)
    · obtain ⟨j, q⟩ := f
      exact ((mem_bcast _ _ _ _ _).mp hf).2.1
  · intro f hf hk
    simp only [act_air, mem_append] at hf
    rcases hf with hf | hf
    · exact mem_append_left _ (h.air_ok f (hair f hf) hk)
    · obtain ⟨j, q⟩ := f
      have := (mem_bcast _ _ _ _ _).mp hf
      rcases hout q this.1 hk with h1 | h1
      · exact mem_append_left _ h1
      · exact mem_append_right _ (mem_map.mpr ⟨q, h1, rfl⟩)
  · intro P hP
    rcases mem_append.mp hP with hP | hP
    · have := h.orig_ok P hP
      exact ⟨this.1, this.2.1, Nat.le_trans this.2.2 (hst _)⟩
    · obtain ⟨Q, hQ, rfl⟩ := mem_map.mp hP
      have := hnews Q hQ
      refine ⟨this.2.1, rfl, ?_⟩
      simp only [core_so, core_sn, this.1, act_st_same]
      exact this.2.2.2.1
  · rw [map_append, nodup_append]
    refine ⟨h.keys_nd, ?_, ?_⟩
    · simpa [Function.comp_def] using hnd
    · intro a ha b hb e
      obtain ⟨P, hP, rfl⟩ := mem_map.mp ha
      obtain ⟨Q', hQ', rfl⟩ := mem_map.mp hb
      obtain ⟨Q, hQ, rfl⟩ := mem_map.mp hQ'
      have h1 := h.orig_ok P hP
      have h2 := hnews Q hQ
      simp only [key, core_so, core_sn, Prod.mk.injEq] at e
      rw [e.1, h2.1] at h1
      omega
  · intro j a sn ha hm
    simp only [act_ids] at ha
    refine Nat.le_trans ?_ (hst a)
    by_cases hj : j = x
    · subst hj
      simp only [act_st_same] at hm
      rcases hseen _ hm with h1 | ⟨P, hP, hk⟩
      · exact h.seen_ok _ _ _ ha h1
      · have := h.orig_ok P hP
        simp only [key, Prod.mk.injEq] at hk
        rw [← hk.1, ← hk.2]; exact this.2.2
    · rw [act_st_other _ _ _ _ _ _ hj] at hm
      exact h.seen_ok _ _ _ ha hm
  · intro P hP j hj hne
    simp only [act_ids] at hj
    rcases mem_append.mp hP with hP | hP
    · rcases h.live P hP j hj hne with h1 | ⟨f, hf, hf1, hf2⟩
      · left
        by_cases hjx : j = x
        · subst hjx; simp only [act_st_same]; exact hmono _ h1
        · rw [act_st_other _ _ _ _ _ _ hjx]; exact h1
      · rcases hrm f hf with h2 | ⟨h2, h3⟩
        · right; exact ⟨f, by simp [h2], hf1, hf2⟩
        · left
          have hjx : j = x := hf1 ▸ h2
          subst hjx
          simp only [act_st_same]
          rcases h3 with h3 | h3 | h3
          · have := (h.orig_ok P hP).1
            rw [← hf2] at this; exact absurd h3 this
          · rw [← hf2] at hne; exact absurd h3.symm hne
          · rw [← hf2]; exact h3
    · obtain ⟨Q, hQ, rfl⟩ := mem_map.mp hP
      have := hnews Q hQ
      right
      refine ⟨(j, Q), ?_, rfl, rfl⟩
      simp only [act_air, mem_append]
      right
      exact (mem_bcast _ _ _ _ _).mpr ⟨this.2.2.2.2, hj, by simpa [this.1] using hne⟩

/-! ### the balance: delivered + still owed = prescribed -/

/-- deliveries still owed to `j` by multi-hop packets it has not accepted yet -/
def owedO (w : World) (σ : Static) (seen : List (Addr × Nat)) (orig : List Pkt) (j : Addr) : List Delivery :=
  (orig.filter (fun P => !seen.contains (key P))).flatMap (dlvS w j (σ.ports j))
/-- … by single-hop broadcasts in the air -/
def owedA (w : World) (σ : Static) (air : List (Addr × Pkt)) (j : Addr) : List Delivery :=
  (air.filter (fun f => f.1 == j && f.2.kind == .shb)).flatMap (fun f => dlvS w j (σ.ports j) f.2)
/-- … by requests waiting in location-service buffers -/
def owedB (w : World) (σ : Static) (st : Addr → Station) (ids : List Addr) (j : Addr) : List Delivery :=
  ids.flatMap (fun i => bufExp w i (σ.pos i) j (σ.ports j) (st i).pending)

def InvB (w : World) (σ : Static) (m : Mesh) (orig : List Pkt) (base : Addr → List Delivery) : Prop :=
  ∀ j ∈ m.ids, ∀ d, count d (m.st j).delivered + count d (owedO w σ (m.st j).seen orig j)
    + count d (owedA w σ m.air j) + count d (owedB w σ m.st m.ids j) = count d (base j)

theorem expS_self (w : World) (i posi ports) (r : Req) : expS w i posi i ports r = [] := by simp [expS]

theorem bufExp_self (w : World) (i posi ports) (p : List (Addr × List Req)) : bufExp w i posi i ports p = [] := by
  simp [bufExp, expS_self]

theorem dlvS_own (w : World) (me : Addr) (ports) (p : Pkt) (h : p.so = me) : dlvS w me ports p = [] := by
  simp [dlvS, h]

theorem flatMap_filter_nil {α β : Type} (l : List α) (q : α → Bool) (g : α → List β) (h : ∀ a ∈ l, g a = []) :
    (l.filter q).flatMap g = [] := by
  simp only [flatMap_eq_nil_iff, mem_filter]
  intro a ha; exact h a ha.1

theorem owedA_bcast_self (w : World) (σ : Static) (ids : List Addr) (x : Addr) (out : List Pkt) :
    owedA w σ (bcast ids x out) x = [] := by
  unfold owedA
  have : (bcast ids x out).filter (fun f => f.1 == x && f.2.kind == .shb) = [] := by
    simp only [filter_eq_nil_iff]
    intro f hf
    obtain ⟨j, q⟩ := f
    have := (mem_bcast _ _ _ _ _).mp hf
    simp [this.2.2]
  simp [this]

theorem count_owedA_bcast (w : World) (σ : Static) (ids : List Addr) (hnd : ids.Nodup) (x j : Addr) (hj : j ∈ ids)
    (hjx : j ≠ x) (out : List Pkt) (d : Delivery) :
    count d (owedA w σ (bcast ids x out) j) =
      count d ((out.filter (fun p => p.kind == .shb)).flatMap (dlvS w j (σ.ports j))) := by
  have hone : ∀ p : Pkt, ((ids.filter (fun k => k != x)).map (fun k => (k, p))).filter (fun f => f.1 == j && f.2.kind == .shb)
      = if p.kind == .shb then [(j, p)] else [] := by
    intro p
    induction ids with
    | nil => simp at hj
    | cons a l ih =>
      simp only [nodup_cons] at hnd
      by_cases ha : a = j
      · subst ha
        have : ((l.filter (fun k => k != x)).map (fun k => (k, p))).filter (fun f => f.1 == a && f.2.kind == .shb) = [] := by
          simp only [filter_eq_nil_iff, mem_map, mem_filter]
          rintro f ⟨k, ⟨hk, _⟩, rfl⟩
          have : k ≠ a := fun e => hnd.1 (e ▸ hk)
          simp [this]
        by_cases hp : p.kind == .shb <;> simp [filter_cons, hjx, hp, this]
      · have hj' : j ∈ l := by simp at hj; rcases hj with h | h; exact absurd h.symm ha; exact h
        have := ih hnd.2 hj'
        by_cases hax : a = x <;> simp [filter_cons, hax, ha, this]
  unfold owedA bcast
  induction out with
  | nil => simp
  | cons p ps ih =>
    simp only [flatMap_cons, filter_append, flatMap_append, count_append, hone p, ih]
    by_cases hp : p.kind == .shb <;> simp [filter_cons, hp, count_append]


theorem owedO_append (w : World) (σ : Static) (seen) (o1 o2 : List Pkt) (j : Addr) :
    owedO w σ seen (o1 ++ o2) j = owedO w σ seen o1 j ++ owedO w σ seen o2 j := by
  simp [owedO]

theorem owedA_append (w : World) (σ : Static) (a1 a2 : List (Addr × Pkt)) (j : Addr) :
    owedA w σ (a1 ++ a2) j = owedA w σ a1 j ++ owedA w σ a2 j := by
  simp [owedA]

theorem InvB.act {w : World} {σ : Static} {m : Mesh} {orig : List Pkt} {base : Addr → List Delivery}
    (hS : InvS σ m orig) (hB : InvB w σ m orig base)
    (x : Addr) (hx : x ∈ m.ids) (s' : Station) (air' : List (Addr × Pkt)) (out news : List Pkt)
    (rm acc : Option Pkt) (dl : List Delivery) (extra : Addr → List Delivery)
    (hdel : s'.delivered = (m.st x).delivered ++ dl)
    (hseenEq : s'.seen = (m.st x).seen ++ acc.toList.map key)
    (hacc : ∀ p, acc = some p → core p ∈ orig ∧ key p ∉ (m.st x).seen)
    (hair : ∀ (q : Addr × Pkt → Bool) (g : Addr × Pkt → List Delivery) (d : Delivery),
      count d ((m.air.filter q).flatMap g) =
        count d (((rm.toList.map (fun p => (x, p))).filter q).flatMap g) + count d ((air'.filter q).flatMap g))
    (hdl : ∀ d, count d dl =
      count d ((rm.toList.filter (fun p => p.kind == .shb)).flatMap (dlvS w x (σ.ports x)))
        + count d (acc.toList.flatMap (dlvS w x (σ.ports x))))
    (hnews : ∀ Q ∈ news, Q.so = x ∧ (m.st x).sn < Q.sn)
    (hother : ∀ j ∈ m.ids, j ≠ x → ∀ d,
      count d (news.flatMap (dlvS w j (σ.ports j)))
        + count d ((out.filter (fun p => p.kind == .shb)).flatMap (dlvS w j (σ.ports j)))
        + count d (bufExp w x (σ.pos x) j (σ.ports j) s'.pending)
      = count d (bufExp w x (σ.pos x) j (σ.ports j) (m.st x).pending) + count d (extra j))
    (hextra : extra x = []) :
    InvB w σ (m.act x s' air' out) (orig ++ news.map core) (fun j => base j ++ extra j) := by
  intro j hj d
  simp only [act_ids] at hj
  have hold := hB j hj d
  -- location-service buffers: only x's own buffers changed
  have hBuf := count_flatMap_upd m.ids x hx hS.nodup
    (fun i => bufExp w i (σ.pos i) j (σ.ports j) (m.st i).pending)
    (fun i => bufExp w i (σ.pos i) j (σ.ports j) ((m.act x s' air' out).st i).pending)
    (by intro i hi; simp only [act_st_other _ _ _ _ _ _ hi]) d
  simp only [act_st_same] at hBuf
  have hA := hair (fun f => f.1 == j && f.2.kind == .shb) (fun f => dlvS w j (σ.ports j) f.2) d
  by_cases hjx : j = x
  · subst hjx
    simp only [act_st_same, act_air, act_ids, owedO_append, owedA_append, count_append, hdel,
      owedA_bcast_self, count_nil, Nat.add_zero, hextra, append_nil]
    simp only [bufExp_self, count_nil, Nat.add_zero] at hBuf
    have hnewsO : owedO w σ s'.seen (news.map core) j = [] := by
      unfold owedO
      apply flatMap_filter_nil
      intro a ha
      obtain ⟨Q, hQ, rfl⟩ := mem_map.mp ha
      exact dlvS_own _ _ _ _ (hnews Q hQ).1
    have hO : count d (owedO w σ (m.st j).seen orig j) =
        count d (acc.toList.flatMap (dlvS w j (σ.ports j))) + count d (owedO w σ s'.seen orig j) := by
      cases hac : acc with
      | none => simp [hac] at hseenEq; simp [hseenEq]
      | some p =>
        simp only [hac, Option.toList_some, map_cons, map_nil] at hseenEq
        obtain ⟨h1, h2⟩ := hacc p hac
        unfold owedO
        rw [hseenEq]
        have := count_filter_flip orig (core p) h1 (Pairwise.of_map key (fun a b h e => h (by rw [e])) hS.keys_nd)
          (fun P => !(m.st j).seen.contains (key P)) (fun P => !((m.st j).seen ++ [key p]).contains (key P))
          (by simpa using h2) (by simp) (by
            intro y hy hne
            have : key y ≠ key p := fun e => hne (eq_of_key_eq hS.keys_nd hy h1 (by simpa using e))
            simp [this]) (dlvS w j (σ.ports j)) d
        simpa using this
    have hd := hdl d
    unfold owedB at hold ⊢
    unfold owedA at hold ⊢
    rw [hnewsO]
    simp only [count_nil, Nat.add_zero]
    have hrm : count d (((rm.toList.map (fun p => (j, p))).filter (fun f => f.1 == j && f.2.kind == .shb)).flatMap
          (fun f => dlvS w j (σ.ports j) f.2))
        = count d ((rm.toList.filter (fun p => p.kind == .shb)).flatMap (dlvS w j (σ.ports j))) := by
      cases rm with
      | none => simp
      | some p => by_cases hp : p.kind == .shb <;> simp [filter_cons, hp]
    rw [hrm] at hA
    omega
  · simp only [act_st_other _ _ _ _ _ _ hjx, act_air, act_ids, owedO_append, owedA_append, count_append]
    have hnewsO : owedO w σ (m.st j).seen (news.map core) j = news.flatMap (dlvS w j (σ.ports j)) := by
      unfold owedO
      have : (news.map core).filter (fun P => !(m.st j).seen.contains (key P)) = news.map core := by
        apply filter_eq_self.mpr
        intro a ha
        obtain ⟨Q, hQ, rfl⟩ := mem_map.mp ha
        have hq := hnews Q hQ
        simp only [key_core, Bool.not_eq_eq_eq_not, Bool.not_true, contains_eq_mem, decide_eq_false_iff_not]
        intro hm
        have := hS.seen_ok j Q.so Q.sn (by rw [hq.1]; exact hx) hm
        rw [hq.1] at this; omega
      rw [this]
      simp [flatMap_map, dlvS_core, Function.comp_def]
    have hxj : (x == j) = false := by simp [Ne.symm hjx]
    have hrm : count d (((rm.toList.map (fun p => (x, p))).filter (fun f => f.1 == j && f.2.kind == .shb)).flatMap
          (fun f => dlvS w j (σ.ports j) f.2)) = 0 := by
      cases rm with
      | none => simp
      | some p => simp [filter_cons, hxj]
    have hbc := count_owedA_bcast w σ m.ids hS.nodup x j hj hjx out d
    have ho := hother j hj hjx d
    unfold owedB at hold ⊢
    unfold owedA at hold ⊢
    unfold owedA at hbc
    rw [hnewsO]
    omega


/-! ### location-service lookups and the full invariant -/

/-- a location-service lookup of `i` for `de` is in progress and will be answered: the request `Q` is on its way
or, once `de` has accepted it, the reply `R` is on its way -/
def PendLS (m : Mesh) (orig : List Pkt) (i de : Addr) : Prop :=
  de ∈ m.ids ∧ de ≠ i ∧ ∃ Q ∈ orig, Q.kind = .lsReq de ∧ Q.so = i ∧
    (key Q ∈ (m.st de).seen → ∃ R ∈ orig, R.kind = .lsRep i ∧ R.so = de ∧ key R ∉ (m.st i).seen)

def PendReqs (e : Addr × List Req) : Prop := ∀ r ∈ e.2, RqOK r ∧ r.transport = .guc e.1

def InvP (m : Mesh) (orig : List Pkt) : Prop :=
  ∀ i ∈ m.ids, ((m.st i).pending.map (·.1)).Nodup ∧ ∀ e ∈ (m.st i).pending, PendReqs e ∧ PendLS m orig i e.1

theorem PendLS.act {σ : Static} {m : Mesh} {orig : List Pkt} (hS : InvS σ m orig)
    (x : Addr) (s' : Station) (air' : List (Addr × Pkt)) (out news : List Pkt) (acc : Option Pkt)
    (hseenEq : s'.seen = (m.st x).seen ++ acc.toList.map key)
    (hacc : ∀ p, acc = some p → core p ∈ orig)
    (hrep : ∀ p, acc = some p → p.kind = .lsReq x → lsRepPkt (m.st x) p.so ∈ news)
    (i de : Addr) (h : PendLS m orig i de)
    (hkeep : i = x → ∀ p, acc = some p → p.kind = .lsRep x → de ≠ p.so) :
    PendLS (m.act x s' air' out) (orig ++ news.map core) i de := by
  obtain ⟨hde, hne, Q, hQ, hQk, hQs, himp⟩ := h
  refine ⟨hde, hne, Q, mem_append_left _ hQ, hQk, hQs, ?_⟩
  intro hin
  by_cases hold : key Q ∈ (m.st de).seen
  · obtain ⟨R, hR, hRk, hRs, hRn⟩ := himp hold
    refine ⟨R, mem_append_left _ hR, hRk, hRs, ?_⟩
    by_cases hix : i = x
    · subst hix
      simp only [act_st_same, hseenEq, mem_append, not_or]
      refine ⟨hRn, ?_⟩
      cases hac : acc with
      | none => simp
      | some p =>
        simp only [Option.toList_some, map_cons, map_nil, mem_singleton]
        intro e
        have hc := hacc p hac
        have : R = core p := eq_of_key_eq hS.keys_nd hR hc (by simpa using e)
        have hk : p.kind = .lsRep i := by rw [← hRk, this]; rfl
        have hso : p.so = de := by rw [← hRs, this]; rfl
        exact hkeep rfl p hac hk hso.symm
    · rw [act_st_other _ _ _ _ _ _ hix]; exact hRn
  · by_cases hdx : de = x
    · subst hdx
      simp only [act_st_same, hseenEq, mem_append] at hin
      rcases hin with hin | hin
      · exact absurd hin hold
      · cases hac : acc with
        | none => simp [hac] at hin
        | some p =>
          simp only [hac, Option.toList_some, map_cons, map_nil, mem_singleton] at hin
          have hc := hacc p hac
          have hQp : Q = core p := eq_of_key_eq hS.keys_nd hQ hc (by simpa using hin)
          have hk : p.kind = .lsReq de := by rw [← hQk, hQp]; rfl
          have hso : p.so = i := by rw [← hQs, hQp]; rfl
          have hR := hrep p hac hk
          refine ⟨core (lsRepPkt (m.st de) p.so), mem_append_right _ (mem_map.mpr ⟨_, hR, rfl⟩), ?_, ?_, ?_⟩
          · simp [lsRepPkt, hso]
          · simp [lsRepPkt, (hS.stat de).1]
          · rw [act_st_other _ _ _ _ _ _ (Ne.symm hne)]
            intro hm
            have := hS.seen_ok i _ _ (show (m.st de).addr ∈ m.ids by rw [(hS.stat de).1]; exact hde) hm
            simp [lsRepPkt, (hS.stat de).1] at this
            omega
    · rw [act_st_other _ _ _ _ _ _ hdx] at hin; exact absurd hin hold

/-- **the invariant** -/
structure Inv (w : World) (σ : Static) (m : Mesh) (orig : List Pkt) (base : Addr → List Delivery) : Prop where
  s : InvS σ m orig
  p : InvP m orig
  b : InvB w σ m orig base

/-- how the air changes: nothing removed (a request) or the pair (x, p) at some index removed (a delivery) -/
def AirRm (m : Mesh) (x : Addr) (rm : Option Pkt) (air' : List (Addr × Pkt)) : Prop :=
  (rm = none ∧ air' = m.air) ∨ ∃ p k, rm = some p ∧ m.air[k]? = some (x, p) ∧ air' = m.air.eraseIdx k

theorem Inv.act {w : World} {σ : Static} {m : Mesh} {orig : List Pkt} {base : Addr → List Delivery}
    (h : Inv w σ m orig base)
    (x : Addr) (hx : x ∈ m.ids) (s' : Station) (air' : List (Addr × Pkt)) (out news : List Pkt)
    (rm acc : Option Pkt) (dl : List Delivery) (extra : Addr → List Delivery)
    (hsame : Same (m.st x) s') (hsn : (m.st x).sn ≤ s'.sn)
    (hrm : AirRm m x rm air')
    (hdel : s'.delivered = (m.st x).delivered ++ dl)
    (hseenEq : s'.seen = (m.st x).seen ++ acc.toList.map key)
    (hacc : ∀ p, acc = some p → rm = some p ∧ p.kind ≠ .shb ∧ key p ∉ (m.st x).seen)
    (hharm : ∀ p, rm = some p → p.kind = .shb ∨ p.so = x ∨ key p ∈ s'.seen)
    (hnd : (news.map key).Nodup)
    (hnews : ∀ Q ∈ news, Q.so = x ∧ Q.kind ≠ .shb ∧ (m.st x).sn < Q.sn ∧ Q.sn ≤ s'.sn ∧ Q ∈ out)
    (hout : ∀ q ∈ out, q.kind ≠ .shb → (∃ p, acc = some p ∧ core q = core p) ∨ q ∈ news)
    (hdl : ∀ d, count d dl =
      count d ((rm.toList.filter (fun p => p.kind == .shb)).flatMap (dlvS w x (σ.ports x)))
        + count d (acc.toList.flatMap (dlvS w x (σ.ports x))))
    (hother : ∀ j ∈ m.ids, j ≠ x → ∀ d,
      count d (news.flatMap (dlvS w j (σ.ports j)))
        + count d ((out.filter (fun p => p.kind == .shb)).flatMap (dlvS w j (σ.ports j)))
        + count d (bufExp w x (σ.pos x) j (σ.ports j) s'.pending)
      = count d (bufExp w x (σ.pos x) j (σ.ports j) (m.st x).pending) + count d (extra j))
    (hextra : extra x = [])
    (hrep : ∀ p, acc = some p → p.kind = .lsReq x → lsRepPkt (m.st x) p.so ∈ news)
    (hpnd : (s'.pending.map (·.1)).Nodup)
    (hpend : ∀ e ∈ s'.pending, PendReqs e ∧
      ((∃ e0 ∈ (m.st x).pending, e0.1 = e.1 ∧ ∀ p, acc = some p → p.kind = .lsRep x → e.1 ≠ p.so)
       ∨ (e.1 ∈ m.ids ∧ e.1 ≠ x ∧ ∃ Q ∈ news, Q.kind = .lsReq e.1))) :
    Inv w σ (m.act x s' air' out) (orig ++ news.map core) (fun j => base j ++ extra j) := by
  have hS := h.s
  -- facts about the removed pair
  have hrmAir : ∀ p, rm = some p → (x, p) ∈ m.air := by
    intro p hp
    rcases hrm with ⟨h1, _⟩ | ⟨p', k, h1, h2, _⟩
    · simp [h1] at hp
    · rw [h1] at hp; cases hp; exact mem_of_getElem? h2
  have haccO : ∀ p, acc = some p → core p ∈ orig := by
    intro p hp
    obtain ⟨h1, h2, _⟩ := hacc p hp
    exact hS.air_ok _ (hrmAir p h1) h2
  have hairSub : ∀ f ∈ air', f ∈ m.air := by
    intro f hf
    rcases hrm with ⟨_, h1⟩ | ⟨p', k, _, _, h1⟩
    · rw [h1] at hf; exact hf
    · rw [h1] at hf; exact mem_of_mem_eraseIdx hf
  have hairRm : ∀ f ∈ m.air, f ∈ air' ∨ (f.1 = x ∧ (f.2.kind = .shb ∨ f.2.so = x ∨ key f.2 ∈ s'.seen)) := by
    intro f hf
    rcases hrm with ⟨_, h1⟩ | ⟨p', k, h0, h2, h1⟩
    · left; rw [h1]; exact hf
    · rcases mem_eraseIdx_or _ k _ f h2 hf with e | e
      · right; subst e; exact ⟨rfl, hharm p' h0⟩
      · left; rw [h1]; exact e
  have hairCnt : ∀ (q : Addr × Pkt → Bool) (g : Addr × Pkt → List Delivery) (d : Delivery),
      count d ((m.air.filter q).flatMap g) =
        count d (((rm.toList.map (fun p => (x, p))).filter q).flatMap g) + count d ((air'.filter q).flatMap g) := by
    intro q g d
    rcases hrm with ⟨h0, h1⟩ | ⟨p', k, h0, h2, h1⟩
    · simp [h0, h1]
    · rw [h0, h1, count_erase_split _ k _ h2 q g d]
      by_cases hq : q (x, p') <;> simp [filter_cons, hq]
  refine ⟨?_, ?_, ?_⟩
  · refine hS.act x s' air' out news hsame hsn hairSub hairRm ?_ ?_ hnd hnews ?_
    · intro k hk
      rw [hseenEq] at hk
      rcases mem_append.mp hk with h1 | h1
      · left; exact h1
      · right
        cases hac : acc with
        | none => simp [hac] at h1
        | some p =>
          simp only [hac, Option.toList_some, map_cons, map_nil, mem_singleton] at h1
          exact ⟨core p, haccO p hac, by simpa using h1.symm⟩
    · intro k hk; rw [hseenEq]; exact mem_append_left _ hk
    · intro q hq hk
      rcases hout q hq hk with ⟨p, hp, e⟩ | h1
      · left; rw [e]; exact haccO p hp
      · right; exact h1
  · intro i hi
    simp only [act_ids] at hi
    by_cases hix : i = x
    · subst hix
      simp only [act_st_same]
      refine ⟨hpnd, ?_⟩
      intro e he
      obtain ⟨h1, h2⟩ := hpend e he
      refine ⟨h1, ?_⟩
      rcases h2 with ⟨e0, he0, he1, hk⟩ | ⟨hde, hne, Q, hQ, hQk⟩
      · have := ((h.p i hi).2 e0 he0).2
        rw [he1] at this
        exact PendLS.act hS i s' air' out news acc hseenEq haccO hrep i e.1 this (fun _ => hk)
      · have hq := hnews Q hQ
        refine ⟨hde, hne, core Q, mem_append_right _ (mem_map.mpr ⟨Q, hQ, rfl⟩), hQk, hq.1, ?_⟩
        intro hin
        rw [act_st_other _ _ _ _ _ _ hne] at hin
        have := hS.seen_ok e.1 Q.so Q.sn (by rw [hq.1]; exact hx) hin
        rw [hq.1] at this; omega
    · rw [act_st_other _ _ _ _ _ _ hix]
      refine ⟨(h.p i hi).1, ?_⟩
      intro e he
      have := (h.p i hi).2 e he
      exact ⟨this.1, PendLS.act hS x s' air' out news acc hseenEq haccO hrep i e.1 this.2 (fun e => absurd e hix)⟩
  · exact InvB.act hS h.b x hx s' air' out news rm acc dl extra hdel hseenEq
      (fun p hp => ⟨haccO p hp, (hacc p hp).2.2⟩) hairCnt hdl (fun Q hQ => ⟨(hnews Q hQ).1, (hnews Q hQ).2.2.1⟩)
      hother hextra


end FlexModel.Net

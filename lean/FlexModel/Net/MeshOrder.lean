import FlexModel.Net.MeshRun
/-! Request order per destination on a medium that is FIFO per receiver (C01): definitions and lemmas. -/
namespace FlexModel.Net
open List
set_option linter.unusedSimpArgs false
set_option linter.unusedVariables false

def isData : Kind → Bool
  | .shb => true | .gbc _ => true | .gac _ => true | .guc _ => true | _ => false

/-- frames queued for receiver `j`, oldest first -/
def airTo (air : List (Addr × Pkt)) (j : Addr) : List Pkt := (air.filter (fun f => f.1 == j)).map (·.2)

/-- what station `j` (duplicate list `seen`) accepts when it processes the frames `A` in order -/
def acceptSeq (j : Addr) : List (Addr × Nat) → List Pkt → List Pkt
  | _, [] => []
  | seen, p :: A =>
    if p.so = j then acceptSeq j seen A
    else if p.kind = .shb then core p :: acceptSeq j seen A
    else if seen.contains (key p) then acceptSeq j seen A
    else core p :: acceptSeq j (seen ++ [key p]) A

def seenAfter (j : Addr) : List (Addr × Nat) → List Pkt → List (Addr × Nat)
  | seen, [] => seen
  | seen, p :: A =>
    if p.so = j then seenAfter j seen A
    else if p.kind = .shb then seenAfter j seen A
    else if seen.contains (key p) then seenAfter j seen A
    else seenAfter j (seen ++ [key p]) A

theorem acceptSeq_append (j : Addr) (seen : List (Addr × Nat)) (A B : List Pkt) :
    acceptSeq j seen (A ++ B) = acceptSeq j seen A ++ acceptSeq j (seenAfter j seen A) B := by
  induction A generalizing seen with
  | nil => rfl
  | cons p A ih =>
    simp only [cons_append, acceptSeq, seenAfter]
    split
    · exact ih seen
    · split
      · simp [ih seen]
      · split
        · exact ih seen
        · simp [ih]

theorem mem_seenAfter (j : Addr) (seen : List (Addr × Nat)) (A : List Pkt) (k : Addr × Nat) :
    k ∈ seenAfter j seen A ↔ k ∈ seen ∨ ∃ p ∈ A, p.so ≠ j ∧ p.kind ≠ .shb ∧ key p = k := by
  induction A generalizing seen with
  | nil => simp [seenAfter]
  | cons p A ih =>
    simp only [seenAfter]
    split
    · rename_i h1
      rw [ih]; constructor
      · rintro (h | ⟨q, hq, h⟩); exact Or.inl h; exact Or.inr ⟨q, by simp [hq], h⟩
      · rintro (h | ⟨q, hq, h⟩); exact Or.inl h
        simp only [mem_cons] at hq
        rcases hq with rfl | hq
        · exact absurd h1 h.1
        · exact Or.inr ⟨q, hq, h⟩
    · split
      · rename_i h1 h2
        rw [ih]; constructor
        · rintro (h | ⟨q, hq, h⟩); exact Or.inl h; exact Or.inr ⟨q, by simp [hq], h⟩
        · rintro (h | ⟨q, hq, h⟩); exact Or.inl h
          simp only [mem_cons] at hq
          rcases hq with rfl | hq
          · exact absurd h2 h.2.1
          · exact Or.inr ⟨q, hq, h⟩
      · split
        · rename_i h1 h2 h3
          rw [ih]; constructor
          · rintro (h | ⟨q, hq, h⟩); exact Or.inl h; exact Or.inr ⟨q, by simp [hq], h⟩
          · rintro (h | ⟨q, hq, h⟩); exact Or.inl h
            simp only [mem_cons] at hq
            rcases hq with rfl | hq
            · left; rw [← h.2.2]; simpa using h3
            · exact Or.inr ⟨q, hq, h⟩
        · rename_i h1 h2 h3
          rw [ih]; constructor
          · rintro (h | ⟨q, hq, h⟩)
            · rcases mem_append.mp h with h | h
              · exact Or.inl h
              · simp only [mem_singleton] at h
                exact Or.inr ⟨p, by simp, h1, h2, h.symm⟩
            · exact Or.inr ⟨q, by simp [hq], h⟩
          · rintro (h | ⟨q, hq, h⟩)
            · exact Or.inl (mem_append_left _ h)
            · simp only [mem_cons] at hq
              rcases hq with rfl | hq
              · left; rw [← h.2.2]; simp
              · exact Or.inr ⟨q, hq, h⟩

/-- accepted packets are cores of frames of the list -/
theorem mem_acceptSeq (j : Addr) (seen : List (Addr × Nat)) (A : List Pkt) (c : Pkt) (h : c ∈ acceptSeq j seen A) :
    ∃ p ∈ A, c = core p ∧ p.so ≠ j := by
  induction A generalizing seen with
  | nil => simp [acceptSeq] at h
  | cons p A ih =>
    simp only [acceptSeq] at h
    split at h
    · obtain ⟨q, hq, e⟩ := ih seen h; exact ⟨q, by simp [hq], e⟩
    · rename_i h1
      split at h
      · simp only [mem_cons] at h
        rcases h with rfl | h
        · exact ⟨p, by simp, rfl, h1⟩
        · obtain ⟨q, hq, e⟩ := ih seen h; exact ⟨q, by simp [hq], e⟩
      · split at h
        · obtain ⟨q, hq, e⟩ := ih seen h; exact ⟨q, by simp [hq], e⟩
        · simp only [mem_cons] at h
          rcases h with rfl | h
          · exact ⟨p, by simp, rfl, h1⟩
          · obtain ⟨q, hq, e⟩ := ih _ h; exact ⟨q, by simp [hq], e⟩

/-- a list of frames every one of which is the station's own or a multi-hop packet whose key will have been seen
adds nothing -/
theorem acceptSeq_nothing (j : Addr) (seen : List (Addr × Nat)) (B : List Pkt)
    (h : ∀ q ∈ B, q.so = j ∨ (q.kind ≠ .shb ∧ key q ∈ seen)) : acceptSeq j seen B = [] := by
  induction B with
  | nil => rfl
  | cons q B ih =>
    have hq := h q (by simp)
    have := ih (fun q' hq' => h q' (by simp [hq']))
    simp only [acceptSeq]
    rcases hq with hq | hq
    · simp [hq, this]
    · split
      · exact this
      · simp [hq.1, hq.2, this]

/-- fresh packets of another station are all accepted, in order -/
theorem acceptSeq_fresh (j : Addr) (seen : List (Addr × Nat)) (B : List Pkt)
    (hso : ∀ q ∈ B, q.so ≠ j) (hfresh : ∀ q ∈ B, q.kind ≠ .shb → key q ∉ seen)
    (hnd : (B.filter (fun q => q.kind != .shb)).map key |>.Nodup) : acceptSeq j seen B = B.map core := by
  induction B generalizing seen with
  | nil => rfl
  | cons q B ih =>
    have h1 := hso q (by simp)
    simp only [acceptSeq, h1, if_false, map_cons]
    by_cases hk : q.kind = .shb
    · simp only [hk, if_true]
      rw [ih seen (fun q' h' => hso q' (by simp [h'])) (fun q' h' => hfresh q' (by simp [h']))
        (by simpa [filter_cons, hk] using hnd)]
    · have h2 := hfresh q (by simp) hk
      have hc : seen.contains (key q) = false := by simpa using h2
      simp only [hk, if_false, hc, Bool.false_eq_true]
      have hnd' : ((q :: B).filter (fun q => q.kind != .shb)).map key =
          key q :: (B.filter (fun q => q.kind != .shb)).map key := by simp [filter_cons, hk]
      rw [hnd', nodup_cons] at hnd
      rw [ih (seen ++ [key q]) (fun q' h' => hso q' (by simp [h'])) ?_ hnd.2]
      intro q' h' hk'
      simp only [mem_append, mem_singleton, not_or]
      refine ⟨hfresh q' (by simp [h']) hk', ?_⟩
      intro e
      exact hnd.1 (mem_map.mpr ⟨q', by simp [h', hk'], e⟩)


/-- the medium is FIFO per receiver: a pair may be delivered only if no older pair for the same receiver is still
in the air (every station hears the frames in the order in which they were transmitted); requests are always
admissible -/
def fifoOK (m : Mesh) : Ev → Bool
  | .req _ _ => true
  | .dlv k => match m.air[k]? with
    | none => true
    | some f => (m.air.take k).all (fun g => g.1 != f.1)

/-- a whole schedule is FIFO per receiver -/
def FifoRun (w : World) : Mesh → List Ev → Prop
  | _, [] => True
  | m, ev :: evs => fifoOK m ev = true ∧ FifoRun w (m.step w ev) evs

theorem airTo_append (a b : List (Addr × Pkt)) (j : Addr) : airTo (a ++ b) j = airTo a j ++ airTo b j := by
  simp [airTo]

theorem airTo_erase_head (air : List (Addr × Pkt)) (k : Nat) (x : Addr) (p : Pkt) (hk : air[k]? = some (x, p))
    (hf : (air.take k).all (fun g => g.1 != x) = true) :
    airTo air x = p :: airTo (air.eraseIdx k) x := by
  induction air generalizing k with
  | nil => simp at hk
  | cons a air ih =>
    cases k with
    | zero => simp at hk; subst hk; simp [airTo]
    | succ k =>
      simp only [getElem?_cons_succ] at hk
      simp only [take_succ_cons, all_cons, Bool.and_eq_true, bne_iff_ne, ne_eq] at hf
      have := ih k hk hf.2
      have ha : (a.1 == x) = false := by simpa using hf.1
      simp only [airTo, filter_cons, ha, Bool.false_eq_true, if_false, eraseIdx_cons_succ] at this ⊢
      exact this

theorem airTo_erase_other (air : List (Addr × Pkt)) (k : Nat) (x j : Addr) (p : Pkt) (hk : air[k]? = some (x, p))
    (hj : j ≠ x) : airTo (air.eraseIdx k) j = airTo air j := by
  induction air generalizing k with
  | nil => simp at hk
  | cons a air ih =>
    cases k with
    | zero =>
      simp at hk; subst hk
      have : (x == j) = false := by simpa using Ne.symm hj
      simp [airTo, filter_cons, this]
    | succ k =>
      simp only [getElem?_cons_succ] at hk
      have := ih k hk
      simp only [airTo, eraseIdx_cons_succ, filter_cons] at this ⊢
      split <;> simp [this]

theorem airTo_bcast (ids : List Addr) (hnd : ids.Nodup) (x j : Addr) (out : List Pkt) :
    airTo (bcast ids x out) j = if j ∈ ids ∧ j ≠ x then out else [] := by
  have hone : ∀ p : Pkt, (((ids.filter (fun k => k != x)).map (fun k => (k, p))).filter (fun f => f.1 == j)).map (·.2)
      = if j ∈ ids ∧ j ≠ x then [p] else [] := by
    intro p
    induction ids with
    | nil => simp
    | cons a l ih =>
      simp only [nodup_cons] at hnd
      have := ih hnd.2
      by_cases hax : a = x
      · subst hax
        simp only [filter_cons, bne_self_eq_false, Bool.false_eq_true, if_false, this, mem_cons]
        by_cases hj : j = a
        · subst hj; simp [hnd.1]
        · simp [hj]
      · have hax' : (a != x) = true := by simpa using hax
        simp only [filter_cons, hax', if_true, map_cons, mem_cons]
        by_cases hj : a = j
        · subst hj
          have hn : ¬ (a ∈ l ∧ a ≠ x) := fun h => hnd.1 h.1
          simp only [beq_self_eq_true, if_true, map_cons, this, hn, if_false]
          simp [hax]
        · have hj' : (a == j) = false := by simpa using hj
          simp only [hj', Bool.false_eq_true, if_false, this]
          have : (j = a ∨ j ∈ l) ∧ j ≠ x ↔ j ∈ l ∧ j ≠ x := by
            constructor
            · rintro ⟨h1 | h1, h2⟩; exact absurd h1.symm hj; exact ⟨h1, h2⟩
            · rintro ⟨h1, h2⟩; exact ⟨Or.inr h1, h2⟩
          simp [this]
  unfold airTo bcast
  induction out with
  | nil => simp
  | cons p ps ih =>
    simp only [flatMap_cons, filter_append, map_append, hone p, ih]
    split <;> simp



/-- ghost data of the order proof: `got j` = packets accepted by `j` so far (oldest first, without hop limit),
`olog i` = data packets originated by `i` so far, each with the request it carries -/
structure Ghost where
  got : Addr → List Pkt
  olog : Addr → List (Req × Pkt)

def fromData (i : Addr) (p : Pkt) : Bool := p.so == i && isData p.kind

/-- requests of a station waiting in the location-service buffer for the destination of transport `t` -/
def buffered (pend : List (Addr × List Req)) : Transport → List Req
  | .guc de => (lookupPending pend de).getD []
  | _ => []

structure InvO (w : World) (σ : Static) (m : Mesh) (G : Ghost) (reqlog : Addr → List Req)
    (dbase : Addr → List Delivery) : Prop where
  del : ∀ j ∈ m.ids, (m.st j).delivered = dbase j ++ (G.got j).flatMap (dlvS w j (σ.ports j))
  ord : ∀ i ∈ m.ids, ∀ j ∈ m.ids, i ≠ j →
    (G.got j).filter (fromData i) ++ (acceptSeq j (m.st j).seen (airTo m.air j)).filter (fromData i)
      = (G.olog i).map (·.2)
  olog_ok : ∀ i ∈ m.ids, ∀ e ∈ G.olog i, e.2.kind = kindOf e.1.transport ∧
    ∀ j, dlvS w j (σ.ports j) e.2 = expS w i (σ.pos i) j (σ.ports j) e.1
  req_ok : ∀ i ∈ m.ids, ∀ t, ((G.olog i).map (·.1)).filter (fun r => r.transport == t)
    ++ buffered (m.st i).pending t = (reqlog i).filter (fun r => r.transport == t)

def Ghost.upd (G : Ghost) (x : Addr) (took : List Pkt) (newLog : List (Req × Pkt)) : Ghost :=
  { got := fun j => if j = x then G.got x ++ took else G.got j
    olog := fun i => if i = x then G.olog x ++ newLog else G.olog i }

theorem InvO.act {w : World} {σ : Static} {m : Mesh} {orig : List Pkt} {base : Addr → List Delivery}
    {G : Ghost} {reqlog : Addr → List Req} {dbase : Addr → List Delivery}
    (h : Inv w σ m orig base) (hO : InvO w σ m G reqlog dbase)
    (x : Addr) (hx : x ∈ m.ids) (s' : Station) (air' : List (Addr × Pkt)) (out : List Pkt)
    (rm took : Option Pkt) (newLog : List (Req × Pkt)) (newReqs : List Req)
    (hAx : airTo m.air x = rm.toList ++ airTo air' x)
    (hAo : ∀ j, j ≠ x → airTo air' j = airTo m.air j)
    (hdel : s'.delivered = (m.st x).delivered ++ took.toList.flatMap (dlvS w x (σ.ports x)))
    (hacc : ∀ rest, acceptSeq x (m.st x).seen (rm.toList ++ rest) = took.toList.map core ++ acceptSeq x s'.seen rest)
    (hout : ∀ j ∈ m.ids, j ≠ x → ∀ i,
      (acceptSeq j (seenAfter j (m.st j).seen (airTo m.air j)) out).filter (fromData i)
        = if i = x then newLog.map (·.2) else [])
    (hlog : ∀ e ∈ newLog, e.2.kind = kindOf e.1.transport ∧
      ∀ j, dlvS w j (σ.ports j) e.2 = expS w x (σ.pos x) j (σ.ports j) e.1)
    (hreq : ∀ t, (newLog.map (·.1)).filter (fun r => r.transport == t) ++ buffered s'.pending t
      = buffered (m.st x).pending t ++ newReqs.filter (fun r => r.transport == t)) :
    InvO w σ (m.act x s' air' out) (G.upd x (took.toList.map core) newLog)
      (fun i => if i = x then reqlog x ++ newReqs else reqlog i) dbase := by
  refine ⟨?_, ?_, ?_, ?_⟩
  · intro j hj
    simp only [act_ids] at hj
    by_cases hjx : j = x
    · subst hjx
      simp only [act_st_same, Ghost.upd, if_true, hdel, hO.del j hj, flatMap_append, append_assoc,
        append_cancel_left_eq]
      cases took <;> simp [dlvS_core]
    · simp only [act_st_other _ _ _ _ _ _ hjx, Ghost.upd, hjx, if_false]
      exact hO.del j hj
  · intro i hi j hj hij
    simp only [act_ids] at hi hj
    by_cases hjx : j = x
    · subst hjx
      have hix : i ≠ j := hij
      have hold := hO.ord i hi j hj hij
      rw [hAx, hacc] at hold
      simp only [act_st_same, act_air, airTo_append, airTo_bcast m.ids h.s.nodup j j out, ne_eq, not_true,
        and_false, if_false, append_nil, Ghost.upd, if_true, hix]
      rw [← hold]
      simp only [filter_append, append_assoc]
    · have hold := hO.ord i hi j hj hij
      have hb : airTo (bcast m.ids x out) j = out := by
        rw [airTo_bcast m.ids h.s.nodup x j out]; simp [hj, hjx]
      simp only [act_st_other _ _ _ _ _ _ hjx, act_air, airTo_append, hAo j hjx, hb, acceptSeq_append,
        filter_append, Ghost.upd, hjx, if_false, hout j hj hjx i]
      by_cases hix : i = x
      · subst hix
        simp only [if_true, map_append]
        rw [← hold]; simp only [append_assoc]
      · simp only [hix, if_false, append_nil]
        exact hold
  · intro i hi e he
    simp only [act_ids] at hi
    by_cases hix : i = x
    · subst hix
      simp only [Ghost.upd, if_true, mem_append] at he
      rcases he with he | he
      · exact hO.olog_ok i hi e he
      · exact hlog e he
    · simp only [Ghost.upd, hix, if_false] at he
      exact hO.olog_ok i hi e he
  · intro i hi t
    simp only [act_ids] at hi
    by_cases hix : i = x
    · subst hix
      have hold := hO.req_ok i hi t
      have hr := hreq t
      simp only [act_st_same, Ghost.upd, if_true, map_append, filter_append, append_assoc]
      rw [hr, ← append_assoc, hold]
    · simp only [act_st_other _ _ _ _ _ _ hix, Ghost.upd, hix, if_false]
      exact hO.req_ok i hi t



theorem lookup_erase_same (p : List (Addr × List Req)) (a : Addr) : lookupPending (erasePending p a) a = none := by
  rw [lookup_none_iff]
  intro e he; exact (mem_erasePending p a e he).2

theorem lookup_erase_other (p : List (Addr × List Req)) (a a' : Addr) (h : a' ≠ a) :
    lookupPending (erasePending p a) a' = lookupPending p a' := by
  induction p with
  | nil => rfl
  | cons e p ih =>
    simp only [lookupPending, erasePending] at ih ⊢
    by_cases he : e.1 = a
    · have h1 : ¬ e.1 = a' := fun e' => h (e'.symm.trans he)
      have h2 : ¬ a = a' := fun e' => h e'.symm
      simp only [filter_cons, he, ne_eq, not_true, decide_false, Bool.false_eq_true, if_false, find?_cons, h1, h2]
      simpa using ih
    · simp only [filter_cons, he, ne_eq, not_false_eq_true, decide_true, if_true, find?_cons]
      by_cases he' : e.1 = a'
      · simp [he']
      · simp only [he', decide_false]; simpa using ih

theorem lookup_set_same (p : List (Addr × List Req)) (a : Addr) (q q0 : List Req) (h : lookupPending p a = some q0) :
    lookupPending (setPending p a q) a = some q := by
  have hm := lookup_some_mem p a q0 h
  have hany : p.any (fun e => decide (e.1 = a)) = true := by simp; exact ⟨_, hm⟩
  simp only [setPending, hany, if_true]
  clear hany h
  induction p with
  | nil => simp at hm
  | cons e p ih =>
    simp only [lookupPending, map_cons, find?_cons]
    by_cases he : e.1 = a
    · simp [he]
    · simp only [mem_cons] at hm
      rcases hm with rfl | hm
      · exact absurd rfl he
      · simp only [he, if_false, decide_false]
        exact ih hm

theorem lookup_set_other (p : List (Addr × List Req)) (a a' : Addr) (q q0 : List Req)
    (h : lookupPending p a = some q0) (hne : a' ≠ a) :
    lookupPending (setPending p a q) a' = lookupPending p a' := by
  have hm := lookup_some_mem p a q0 h
  have hany : p.any (fun e => decide (e.1 = a)) = true := by simp; exact ⟨_, hm⟩
  simp only [setPending, hany, if_true]
  clear hany h hm
  induction p with
  | nil => rfl
  | cons e p ih =>
    simp only [lookupPending, map_cons, find?_cons] at ih ⊢
    by_cases he : e.1 = a
    · have h1 : ¬ e.1 = a' := fun e' => hne (e'.symm.trans he)
      have h2 : ¬ a = a' := fun e' => hne e'.symm
      simp only [he, if_true, h1, h2, decide_false]
      simpa using ih
    · simp only [he, if_false]
      by_cases he' : e.1 = a'
      · simp [he']
      · simp only [he', decide_false]; simpa using ih

theorem lookup_append_same (p : List (Addr × List Req)) (a : Addr) (q : List Req) (h : lookupPending p a = none) :
    lookupPending (p ++ [(a, q)]) a = some q := by
  have := (lookup_none_iff p a).mp h
  simp only [lookupPending, find?_append]
  have hf : p.find? (fun e => decide (e.1 = a)) = none := by
    rw [find?_eq_none]; intro e he; simpa using this e he
  simp [hf]

theorem lookup_append_other (p : List (Addr × List Req)) (a a' : Addr) (q : List Req) (hne : a' ≠ a) :
    lookupPending (p ++ [(a, q)]) a' = lookupPending p a' := by
  simp only [lookupPending, find?_append]
  cases hf : p.find? (fun e => decide (e.1 = a')) with
  | none => simp [Ne.symm hne]
  | some e => simp

theorem mem_airTo (air : List (Addr × Pkt)) (j : Addr) (p : Pkt) : p ∈ airTo air j ↔ (j, p) ∈ air := by
  simp only [airTo, mem_map, mem_filter, beq_iff_eq]
  constructor
  · rintro ⟨f, ⟨hf, h1⟩, rfl⟩; obtain ⟨a, b⟩ := f; simp at h1; subst h1; exact hf
  · intro h; exact ⟨(j, p), ⟨h, rfl⟩, rfl⟩

variable {w : World} {σ : Static} {m : Mesh} {orig : List Pkt} {base : Addr → List Delivery}

/-- forwarded copies of an accepted packet add nothing to what another station will accept -/
theorem out_forwarded (h : Inv w σ m orig base) (p : Pkt) (hp : core p ∈ orig) (out : List Pkt)
    (hfw : ∀ q ∈ out, core q = core p) (j : Addr) (hj : j ∈ m.ids) :
    acceptSeq j (seenAfter j (m.st j).seen (airTo m.air j)) out = [] := by
  apply acceptSeq_nothing
  intro q hq
  have hc := hfw q hq
  by_cases hso : q.so = j
  · exact Or.inl hso
  · right
    have hk : q.kind = p.kind := by have := congrArg Pkt.kind hc; simpa using this
    have hkey : key q = key p := by have := congrArg key hc; simpa using this
    have hsoq : q.so = p.so := by have := congrArg Pkt.so hc; simpa using this
    have hns : p.kind ≠ .shb := (h.s.orig_ok _ hp).1
    refine ⟨by rw [hk]; exact hns, ?_⟩
    rw [mem_seenAfter]
    rcases h.s.live _ hp j hj (by simp only [core_so]; rw [← hsoq]; exact Ne.symm hso) with h1 | ⟨f, hf, hf1, hf2⟩
    · left; rw [hkey]; simpa using h1
    · right
      obtain ⟨a, b⟩ := f
      simp only at hf1 hf2; subst hf1
      have hbk : b.kind = p.kind := by have := congrArg Pkt.kind hf2; simpa using this
      have hbs : b.so = p.so := by have := congrArg Pkt.so hf2; simpa using this
      have hbkey : key b = key p := by have := congrArg key hf2; simpa using this
      exact ⟨b, (mem_airTo _ _ _).mpr hf, by rw [hbs, ← hsoq]; exact hso, by rw [hbk]; exact hns, by rw [hbkey, hkey]⟩

/-- packets freshly originated by `x` are all accepted by every other station, in order -/
theorem out_fresh (h : Inv w σ m orig base) (x : Addr) (hx : x ∈ m.ids) (out : List Pkt)
    (hso : ∀ q ∈ out, q.so = x) (hfresh : ∀ q ∈ out, q.kind ≠ .shb → (m.st x).sn < q.sn)
    (hnd : ((out.filter (fun q => q.kind != .shb)).map key).Nodup) (j : Addr) (hjx : j ≠ x) :
    acceptSeq j (seenAfter j (m.st j).seen (airTo m.air j)) out = out.map core := by
  apply acceptSeq_fresh _ _ _ _ _ hnd
  · intro q hq; rw [hso q hq]; exact Ne.symm hjx
  · intro q hq hk hm
    have hf := hfresh q hq hk
    rw [mem_seenAfter] at hm
    rcases hm with hm | ⟨b, hb, _, hbk, hbkey⟩
    · have := h.s.seen_ok j q.so q.sn (by rw [hso q hq]; exact hx) hm
      rw [hso q hq] at this; omega
    · have hbo := h.s.air_ok _ ((mem_airTo _ _ _).mp hb) hbk
      have := (h.s.orig_ok _ hbo).2.2
      simp only [key, Prod.mk.injEq] at hbkey
      simp only [core_so, core_sn, hbkey.1, hbkey.2, hso q hq] at this
      omega

/-- the (request, packet) pairs of a flush -/
def flushLog (s : Station) (de : Addr) : Nat → List Req → List (Req × Pkt)
  | _, [] => []
  | sn, r :: rs => (r, core (gucPkt s r de (sn + 1))) :: flushLog s de (sn + 1) rs

theorem flushLog_snd (s : Station) (de : Addr) (n : Nat) (q : List Req) :
    (flushLog s de n q).map (·.2) = (flushPkts s de n q).map core := by
  induction q generalizing n with
  | nil => rfl
  | cons r rs ih => simp [flushLog, flushPkts, ih]

theorem flushLog_fst (s : Station) (de : Addr) (n : Nat) (q : List Req) : (flushLog s de n q).map (·.1) = q := by
  induction q generalizing n with
  | nil => rfl
  | cons r rs ih => simp [flushLog, ih]

theorem flushLog_ok (w : World) (σ : Static) (s : Station) (de : Addr) (n : Nat) (q : List Req)
    (hq : ∀ r ∈ q, RqOK r ∧ r.transport = .guc de) (e : Req × Pkt) (he : e ∈ flushLog s de n q) :
    e.2.kind = kindOf e.1.transport ∧ ∀ j, dlvS w j (σ.ports j) e.2 = expS w s.addr s.pos j (σ.ports j) e.1 := by
  induction q generalizing n with
  | nil => simp [flushLog] at he
  | cons r rs ih =>
    simp only [flushLog, mem_cons] at he
    rcases he with rfl | he
    · have hr := hq r (by simp)
      refine ⟨by simp [gucPkt, hr.2, kindOf], ?_⟩
      intro j
      rw [dlvS_core, gucPkt_eq s r de _ hr.2, dlvS_dataPkt w s r _ j _ hr.1.1 hr.1.2.1]
    · exact ih (n + 1) (fun r hr => hq r (by simp [hr])) he



variable {w : World} {σ : Static} {m : Mesh} {orig : List Pkt} {base : Addr → List Delivery}
  {G : Ghost} {reqlog : Addr → List Req} {dbase : Addr → List Delivery}

theorem InvO.congr (h : InvO w σ m G reqlog dbase) {reqlog' : Addr → List Req} (e : ∀ i, reqlog' i = reqlog i) :
    InvO w σ m G reqlog' dbase := by
  have : reqlog' = reqlog := funext e
  rw [this]; exact h

theorem Ghost.upd_nil (G : Ghost) (x : Addr) : G.upd x [] [] = G := by
  cases G; simp only [Ghost.upd, append_nil, Ghost.mk.injEq]
  constructor <;> funext j <;> split <;> simp_all

theorem acceptSeq_head_acc (j : Addr) (seen : List (Addr × Nat)) (p : Pkt) (rest : List Pkt) (h1 : p.so ≠ j)
    (hk : p.kind ≠ .shb) (hns : key p ∉ seen) :
    acceptSeq j seen (p :: rest) = core p :: acceptSeq j (seen ++ [key p]) rest := by
  simp [acceptSeq, h1, hk, hns]

theorem InvO.dlv_case (h : Inv w σ m orig base) (hO : InvO w σ m G reqlog dbase) (k : Nat) (x : Addr) (p : Pkt)
    (hk : m.air[k]? = some (x, p)) (hf : (m.air.take k).all (fun g => g.1 != x) = true)
    (res : Station × List Pkt) (hspec : RecvCase w (m.st x) p res) :
    ∃ G', InvO w σ (m.act x res.1 (m.air.eraseIdx k) res.2) G' reqlog dbase := by
  have hx : x ∈ m.ids := h.s.air_ids _ (mem_of_getElem? hk)
  have hst := h.s.stat x
  have hAx : airTo m.air x = (some p).toList ++ airTo (m.air.eraseIdx k) x := airTo_erase_head _ k x p hk hf
  have hAo : ∀ j, j ≠ x → airTo (m.air.eraseIdx k) j = airTo m.air j := fun j hj => airTo_erase_other _ k x j p hk hj
  have hpx := h.p x hx
  have hreq0 : ∀ (pend : List (Addr × List Req)), pend = (m.st x).pending → ∀ t,
      ((([] : List (Req × Pkt)).map (·.1)).filter (fun r => r.transport == t)) ++ buffered pend t
        = buffered (m.st x).pending t ++ ([] : List Req).filter (fun r => r.transport == t) := by
    intro pend e t; simp [e]
  have hlog0 : ∀ e ∈ ([] : List (Req × Pkt)), e.2.kind = kindOf e.1.transport ∧
      ∀ j, dlvS w j (σ.ports j) e.2 = expS w x (σ.pos x) j (σ.ports j) e.1 := by simp
  have hrl : ∀ i, (if i = x then reqlog x ++ [] else reqlog i) = reqlog i := by intro i; split <;> simp_all
  cases hspec with
  | ignore hig =>
    refine ⟨G.upd x ((none : Option Pkt).toList.map core) [], (InvO.act h hO x hx (m.st x) _ [] (some p) none [] [] hAx hAo
      (by simp) ?_ (by intro j _ _ i; simp [acceptSeq]) hlog0 (hreq0 _ rfl)).congr (fun i => (hrl i).symm)⟩
    intro rest
    simp only [Option.toList_some, Option.toList_none, map_nil, nil_append, singleton_append, acceptSeq]
    rcases hig with h1 | h1
    · simp [h1, hst.1]
    · split
      · rfl
      · simp [h1.1, h1.2]
  | shb s' hso hkind hsame hsn hseen hpend hdel =>
    refine ⟨G.upd x ((some p).toList.map core) [], (InvO.act h hO x hx s' _ [] (some p) (some p) [] [] hAx hAo
      (by simp [hdel, hst.1, hst.2.2]) ?_ (by intro j _ _ i; simp [acceptSeq]) hlog0 (hreq0 _ hpend)).congr (fun i => (hrl i).symm)⟩
    intro rest
    have : ¬ p.so = x := by rw [← hst.1]; exact hso
    simp [acceptSeq, this, hkind, hseen]
  | plain s' out hso hkind hns hsame hsn hseen hpend hdel hfw hlk hnrq =>
    have hpo : core p ∈ orig := h.s.air_ok _ (mem_of_getElem? hk) hkind
    refine ⟨G.upd x ((some p).toList.map core) [], (InvO.act h hO x hx s' _ out (some p) (some p) [] [] hAx hAo
      (by simp [hdel, hst.1, hst.2.2]) ?_ ?_ hlog0 (hreq0 _ hpend)).congr (fun i => (hrl i).symm)⟩
    · intro rest
      have h1 : ¬ p.so = x := by rw [← hst.1]; exact hso
      simp [acceptSeq_head_acc x _ p rest h1 hkind hns, hseen]
    · intro j hj _ i
      rw [out_forwarded h p hpo out (fun q hq => forwardCopy_core p q (hfw q hq)) j hj]
      simp
  | reply s' hso hkind hns hsame hsn hseen hpend hdel =>
    have hks : p.kind ≠ .shb := by simp [hkind]
    refine ⟨G.upd x ((some p).toList.map core) [], (InvO.act h hO x hx s' _ [lsRepPkt (m.st x) p.so] (some p) (some p) [] [] hAx hAo
      (by simp [hdel, dlvS_nodata w x (σ.ports x) p (Or.inl ⟨_, hkind⟩)]) ?_ ?_ hlog0 (hreq0 _ hpend)).congr (fun i => (hrl i).symm)⟩
    · intro rest
      have h1 : ¬ p.so = x := by rw [← hst.1]; exact hso
      simp [acceptSeq_head_acc x _ p rest h1 hks hns, hseen]
    · intro j hj hjx i
      rw [out_fresh h x hx [lsRepPkt (m.st x) p.so]
        (by intro q hq; simp only [mem_singleton] at hq; subst hq; simp [lsRepPkt, hst.1])
        (by intro q hq _; simp only [mem_singleton] at hq; subst hq; simp [lsRepPkt])
        (by simp [filter_cons, lsRepPkt]) j hjx]
      simp [fromData, isData, lsRepPkt]
  | flush s2 q hso hkind hns hlk hsame2 hsn2 hseen2 hpend2 hdel2 =>
    have hks : p.kind ≠ .shb := by simp [hkind]
    have hmem := lookup_some_mem _ _ _ hlk
    have hreqs := (hpx.2 _ hmem).1
    obtain ⟨f1, f2, f3, f4, f5, f6⟩ := flush_spec s2 p.so q (fun r hr => (hreqs r hr).1.2.2)
    have hs2a : s2.addr = x := by rw [hsame2.1, hst.1]
    have hs2p : s2.pos = σ.pos x := by rw [hsame2.2.1, hst.2.1]
    rw [f6]
    refine ⟨G.upd x ((some p).toList.map core) (flushLog s2 p.so s2.sn q),
      (InvO.act h hO x hx _ _ (flushPkts s2 p.so s2.sn q) (some p) (some p) (flushLog s2 p.so s2.sn q) [] hAx hAo
      (by simp [f5, hdel2, dlvS_nodata w x (σ.ports x) p (Or.inr ⟨_, hkind⟩)]) ?_ ?_ ?_ ?_).congr (fun i => (hrl i).symm)⟩
    · intro rest
      have h1 : ¬ p.so = x := by rw [← hst.1]; exact hso
      simp [acceptSeq_head_acc x _ p rest h1 hks hns, f3, hseen2]
    · intro j hj hjx i
      have hnd : (((flushPkts s2 p.so s2.sn q).filter (fun q => q.kind != .shb)).map key).Nodup := by
        have : (flushPkts s2 p.so s2.sn q).filter (fun q => q.kind != .shb) = flushPkts s2 p.so s2.sn q := by
          apply filter_eq_self.mpr
          intro a ha; simp [(flushPkts_mem _ _ _ _ _ ha).2.1]
        rw [this]; exact flushPkts_keys _ _ _ _
      rw [out_fresh h x hx _ (fun a ha => by rw [(flushPkts_mem _ _ _ _ _ ha).1, hs2a])
        (fun a ha _ => by have := (flushPkts_mem _ _ _ _ _ ha).2.2.1; omega) hnd j hjx, ← flushLog_snd]
      by_cases hix : i = x
      · subst hix
        simp only [if_true]
        apply filter_eq_self.mpr
        intro c hc
        rw [flushLog_snd] at hc
        obtain ⟨a, ha, rfl⟩ := mem_map.mp hc
        have := flushPkts_mem _ _ _ _ _ ha
        simp [fromData, isData, this.1, this.2.1, hs2a]
      · simp only [hix, if_false, filter_eq_nil_iff]
        intro c hc
        rw [flushLog_snd] at hc
        obtain ⟨a, ha, rfl⟩ := mem_map.mp hc
        have := flushPkts_mem _ _ _ _ _ ha
        simp [fromData, this.1, hs2a, Ne.symm hix]
    · intro e he
      have := flushLog_ok w σ s2 p.so s2.sn q hreqs e he
      rw [hs2a, hs2p] at this; exact this
    · intro t
      rw [flushLog_fst, f4, hpend2]
      simp only [filter_nil, append_nil]
      by_cases ht : t = .guc p.so
      · subst ht
        have : q.filter (fun r => r.transport == Transport.guc p.so) = q := by
          apply filter_eq_self.mpr; intro r hr; simp [(hreqs r hr).2]
        simp [this, buffered, lookup_erase_same, hlk]
      · have : q.filter (fun r => r.transport == t) = [] := by
          simp only [filter_eq_nil_iff]; intro r hr
          simp only [(hreqs r hr).2, beq_iff_eq]; exact fun e => ht e.symm
        rw [this, nil_append]
        cases t with
        | guc de' =>
          have hne : de' ≠ p.so := fun e => ht (by rw [e])
          simp [buffered, lookup_erase_other _ _ _ hne]
        | _ => rfl



theorem buffered_ne (pend : List (Addr × List Req)) (t : Transport) (h : ∀ de, t ≠ .guc de) : buffered pend t = [] := by
  cases t with
  | guc de => exact absurd rfl (h de)
  | _ => rfl

theorem InvO.req_case (h : Inv w σ m orig base) (hO : InvO w σ m G reqlog dbase) (x : Addr) (hx : x ∈ m.ids)
    (r : Req) (hr : RqOK r) (res : Station × List Pkt) (hspec : ReqCase (m.st x) r res) :
    ∃ G', InvO w σ (m.act x res.1 m.air res.2) G' (fun i => if i = x then reqlog x ++ [r] else reqlog i) dbase := by
  have hst := h.s.stat x
  have hpx := h.p x hx
  have hAx : airTo m.air x = (none : Option Pkt).toList ++ airTo m.air x := by simp
  have hAo : ∀ j, j ≠ x → airTo m.air j = airTo m.air j := fun _ _ => rfl
  have hdata : ∀ sn j, dlvS w j (σ.ports j) (core (dataPkt (m.st x) r sn)) = expS w x (σ.pos x) j (σ.ports j) r := by
    intro sn j; rw [dlvS_core, dlvS_dataPkt w _ r sn j _ hr.1 hr.2.1, hst.1, hst.2.1]
  have hacc : ∀ (seen' : List (Addr × Nat)), seen' = (m.st x).seen → ∀ rest,
      acceptSeq x (m.st x).seen ((none : Option Pkt).toList ++ rest)
        = (none : Option Pkt).toList.map core ++ acceptSeq x seen' rest := by
    intro s e rest; simp [e]
  cases hspec with
  | shb ht =>
    have hk : (dataPkt (m.st x) r 0).kind = .shb := by simp [dataPkt, ht, kindOf]
    refine ⟨G.upd x ((none : Option Pkt).toList.map core) [(r, core (dataPkt (m.st x) r 0))],
      InvO.act h hO x hx (m.st x) _ [dataPkt (m.st x) r 0] none none [(r, core (dataPkt (m.st x) r 0))] [r] hAx hAo
        (by simp) (hacc _ rfl) ?_ ?_ ?_⟩
    · intro j hj hjx i
      rw [out_fresh h x hx [dataPkt (m.st x) r 0]
        (by intro q hq; simp only [mem_singleton] at hq; subst hq; simp [dataPkt, hst.1])
        (by intro q hq hq'; simp only [mem_singleton] at hq; subst hq; exact absurd hk hq')
        (by simp [filter_cons, hk]) j hjx]
      by_cases hix : i = x
      · subst hix
        have hd : isData (dataPkt (m.st i) r 0).kind = true := by rw [hk]; rfl
        have : fromData i (core (dataPkt (m.st i) r 0)) = true := by
          simp only [fromData, core_so, core_kind, hd, Bool.and_true]; simp [dataPkt, hst.1]
        simp [filter_cons, this]
      · simp [fromData, dataPkt, hst.1, Ne.symm hix, hix]
    · intro e he; simp only [mem_singleton] at he; subst he
      exact ⟨by simp [dataPkt], hdata 0⟩
    · intro t
      by_cases htt : r.transport == t
      · have : t = .shb := by rw [← ht]; exact (beq_iff_eq.mp htt).symm
        subst this
        simp [htt, buffered]
      · simp [htt]
  | imm s' ht hsame hsn hseen hpend hdel hlk =>
    have hk : (dataPkt (m.st x) r ((m.st x).sn + 1)).kind ≠ .shb := by simp [dataPkt]; exact kindOf_ne_shb _ ht
    have hkb : ((dataPkt (m.st x) r ((m.st x).sn + 1)).kind != Kind.shb) = true := by simpa using hk
    have hd : isData (dataPkt (m.st x) r ((m.st x).sn + 1)).kind = true := by
      simp only [dataPkt]; cases r.transport <;> simp [kindOf, isData]
    refine ⟨G.upd x ((none : Option Pkt).toList.map core) [(r, core (dataPkt (m.st x) r ((m.st x).sn + 1)))],
      InvO.act h hO x hx s' _ [dataPkt (m.st x) r ((m.st x).sn + 1)] none none
        [(r, core (dataPkt (m.st x) r ((m.st x).sn + 1)))] [r] hAx hAo
        (by simp [hdel]) (hacc _ hseen) ?_ ?_ ?_⟩
    · intro j hj hjx i
      rw [out_fresh h x hx [dataPkt (m.st x) r ((m.st x).sn + 1)]
        (by intro q hq; simp only [mem_singleton] at hq; subst hq; simp [dataPkt, hst.1])
        (by intro q hq _; simp only [mem_singleton] at hq; subst hq; simp [dataPkt])
        (by simp [filter_cons, hkb]) j hjx]
      by_cases hix : i = x
      · subst hix
        have : fromData i (core (dataPkt (m.st i) r ((m.st i).sn + 1))) = true := by
          simp only [fromData, core_so, core_kind, hd, Bool.and_true]; simp [dataPkt, hst.1]
        simp [filter_cons, this]
      · simp [fromData, dataPkt, hst.1, Ne.symm hix, hix]
    · intro e he; simp only [mem_singleton] at he; subst he
      exact ⟨by simp [dataPkt], hdata _⟩
    · intro t
      by_cases htt : r.transport == t
      · have et : t = r.transport := (beq_iff_eq.mp htt).symm
        have hb : ∀ pend, pend = (m.st x).pending → buffered pend t = [] := by
          intro pend e
          subst et
          cases hrt : r.transport with
          | guc de => simp [buffered, e, hlk de hrt]
          | _ => rfl
        simp [htt, hb _ hpend, hb _ rfl]
      · simp [htt, hpend]
  | queue s' de q ht hlk hsame hsn hseen hpend hdel =>
    refine ⟨G.upd x ((none : Option Pkt).toList.map core) [],
      InvO.act h hO x hx s' _ [] none none [] [r] hAx hAo (by simp [hdel]) (hacc _ hseen)
        (by intro j _ _ i; simp [acceptSeq]) (by simp) ?_⟩
    intro t
    rw [hpend]
    by_cases htt : r.transport == t
    · have et : t = .guc de := by rw [← ht]; exact (beq_iff_eq.mp htt).symm
      subst et
      simp [htt, buffered, lookup_set_same _ _ _ _ hlk, hlk]
    · have hne : t ≠ .guc de := fun e => by rw [e, ← ht] at htt; simp at htt
      have : buffered (setPending (m.st x).pending de (q ++ [r])) t = buffered (m.st x).pending t := by
        cases t with
        | guc de' =>
          have : de' ≠ de := fun e => hne (by rw [e])
          simp [buffered, lookup_set_other _ _ _ _ _ hlk this]
        | _ => rfl
      simp [htt, this]
  | start s' de ht hlk hsame hsn hseen hpend hdel =>
    have hnew := setPending_new _ de [r] hlk
    refine ⟨G.upd x ((none : Option Pkt).toList.map core) [],
      InvO.act h hO x hx s' _ [lsReqPkt (m.st x) de] none none [] [r] hAx hAo (by simp [hdel]) (hacc _ hseen)
        ?_ (by simp) ?_⟩
    · intro j hj hjx i
      rw [out_fresh h x hx [lsReqPkt (m.st x) de]
        (by intro q hq; simp only [mem_singleton] at hq; subst hq; simp [lsReqPkt, hst.1])
        (by intro q hq _; simp only [mem_singleton] at hq; subst hq; simp [lsReqPkt])
        (by simp [filter_cons, lsReqPkt]) j hjx]
      simp [fromData, isData, lsReqPkt]
    · intro t
      rw [hpend, hnew]
      by_cases htt : r.transport == t
      · have et : t = .guc de := by rw [← ht]; exact (beq_iff_eq.mp htt).symm
        subst et
        simp [htt, buffered, lookup_append_same _ _ _ hlk, hlk]
      · have hne : t ≠ .guc de := fun e => by rw [e, ← ht] at htt; simp at htt
        have : buffered ((m.st x).pending ++ [(de, [r])]) t = buffered (m.st x).pending t := by
          cases t with
          | guc de' =>
            have : de' ≠ de := fun e => hne (by rw [e])
            simp [buffered, lookup_append_other _ _ _ _ this]
          | _ => rfl
        simp [htt, this]



/-- the requests handed to station `i` by a schedule, in order -/
def reqsOf (evs : List Ev) (i : Addr) : List Req :=
  evs.filterMap (fun ev => match ev with
    | .req i' r => if i' = i then some r else none
    | .dlv _ => none)

theorem InvO.congr_ids (h : InvO w σ m G reqlog dbase) {reqlog' : Addr → List Req}
    (e : ∀ i ∈ m.ids, reqlog' i = reqlog i) : InvO w σ m G reqlog' dbase :=
  ⟨h.del, h.ord, h.olog_ok, fun i hi t => by rw [e i hi]; exact h.req_ok i hi t⟩

theorem InvO.step (h : Inv w σ m orig base) (hO : InvO w σ m G reqlog dbase) (ev : Ev) (hev : EvOK m ev)
    (hf : fifoOK m ev = true) :
    ∃ G', InvO w σ (m.step w ev) G' (fun i => reqlog i ++ reqsOf [ev] i) dbase := by
  cases ev with
  | req i r =>
    by_cases hi : m.ids.contains i = true
    · have hx : i ∈ m.ids := by simpa using hi
      obtain ⟨G', hG⟩ := InvO.req_case h hO i hx r hev.1 _ (request_spec (m.st i) r hev.1.2.2)
      refine ⟨G', ?_⟩
      simp only [Mesh.step, hi, if_true]
      refine InvO.congr_ids hG ?_
      intro j _
      by_cases hj : j = i
      · subst hj; simp [reqsOf]
      · simp [reqsOf, hj, Ne.symm hj]
    · refine ⟨G, ?_⟩
      simp only [Mesh.step, hi]
      refine hO.congr_ids ?_
      intro j hj
      have : i ≠ j := fun e => hi (by simpa [e] using hj)
      simp [reqsOf, this]
  | dlv k =>
    cases hk : m.air[k]? with
    | none =>
      refine ⟨G, ?_⟩
      simp only [Mesh.step, hk]
      exact hO.congr_ids (by intro j _; simp [reqsOf])
    | some f =>
      obtain ⟨x, p⟩ := f
      have hf' : (m.air.take k).all (fun g => g.1 != x) = true := by simpa [fifoOK, hk] using hf
      obtain ⟨G', hG⟩ := InvO.dlv_case h hO k x p hk hf' _ (receive_spec w (m.st x) p)
      refine ⟨G', ?_⟩
      simp only [Mesh.step, hk]
      exact hG.congr_ids (by intro j _; simp [reqsOf])

theorem reqsOf_cons (ev : Ev) (evs : List Ev) (i : Addr) : reqsOf (ev :: evs) i = reqsOf [ev] i ++ reqsOf evs i := by
  simp only [reqsOf, filterMap_cons]
  cases ev with
  | req i' r => by_cases h : i' = i <;> simp [h]
  | dlv k => simp

theorem run_both (h : Inv w σ m orig base) (hO : InvO w σ m G reqlog dbase) (evs : List Ev)
    (hev : ∀ ev ∈ evs, EvOK m ev) (hf : FifoRun w m evs) :
    ∃ orig' base' G', Inv w σ (m.run w evs) orig' base' ∧
      InvO w σ (m.run w evs) G' (fun i => reqlog i ++ reqsOf evs i) dbase := by
  induction evs generalizing m orig base G reqlog with
  | nil => exact ⟨orig, base, G, h, hO.congr_ids (by intro i _; simp [reqsOf])⟩
  | cons e es ih =>
    obtain ⟨hf1, hf2⟩ := hf
    obtain ⟨o1, h1⟩ := h.step e (hev e (by simp))
    obtain ⟨G1, hG1⟩ := InvO.step h hO e (hev e (by simp)) hf1
    obtain ⟨o2, b2, G2, h2, hG2⟩ := ih h1 hG1 (fun ev hm => EvOK_congr (step_ids w m e) ev (hev ev (by simp [hm]))) hf2
    refine ⟨o2, b2, G2, ?_, ?_⟩
    · simpa [Mesh.run] using h2
    · simp only [Mesh.run, foldl_cons] at hG2 ⊢
      exact hG2.congr_ids (by intro i _; rw [reqsOf_cons, append_assoc])

theorem kindOf_inj (a b : Transport) : kindOf a = kindOf b ↔ a = b := by
  cases a <;> cases b <;> simp [kindOf]

theorem filter_flatMap_dlvS (w : World) (j : Addr) (ports : List Nat) (L : List Pkt) (i : Addr) (k : Kind) :
    (L.flatMap (dlvS w j ports)).filter (fun d => d.so == i && d.kind == k)
      = (L.filter (fun p => p.so == i && p.kind == k)).flatMap (dlvS w j ports) := by
  induction L with
  | nil => rfl
  | cons p L ih =>
    simp only [flatMap_cons, filter_append, ih, filter_cons]
    by_cases hp : (p.so == i && p.kind == k) = true
    · simp only [hp, if_true, flatMap_cons]
      congr 1
      unfold dlvS
      split
      · simp [filter_cons, hp]
      · rfl
    · have : (dlvS w j ports p).filter (fun d => d.so == i && d.kind == k) = [] := by
        unfold dlvS
        split
        · simp only [filter_cons]; simp [hp]
        · rfl
      rw [this, nil_append]
      simp [hp]

/-- **request order per destination on a medium that is FIFO per receiver.**  From a quiet mesh, after any
interleaving of requests and deliveries in which every station hears the frames in the order in which they were
transmitted (`FifoRun`; different stations may lag behind each other arbitrarily) and after which nothing is left
in the air: what station `j` has been handed from station `i` for the destination of transport `t` (SHB, a given
area, a given unicast address) is exactly what the requests of `i` with that transport prescribe, IN REQUEST ORDER
— also for requests issued while frames of earlier requests are in the air and for unicast requests issued while a
location-service lookup for their destination is pending. -/
theorem fifo_order (w : World) (m : Mesh) (hq : QuietM m) (evs : List Ev) (hev : ∀ ev ∈ evs, EvOK m ev)
    (hfifo : FifoRun w m evs) (hair : (m.run w evs).air = []) :
    ∀ i ∈ m.ids, ∀ j ∈ m.ids, i ≠ j → ∀ t : Transport,
      ((m.run w evs).st j).delivered.filter (fun d => d.so == i && d.kind == kindOf t) =
        (m.st j).delivered.filter (fun d => d.so == i && d.kind == kindOf t) ++
        ((reqsOf evs i).filter (fun r => r.transport == t)).flatMap
          (expS w i ((staticOf m).pos i) j ((staticOf m).ports j)) := by
  have hO0 : InvO w (staticOf m) m ⟨fun _ => [], fun _ => []⟩ (fun _ => []) (fun j => (m.st j).delivered) := by
    refine ⟨by intro j _; simp, ?_, by intro i _ e he; simp at he, ?_⟩
    · intro i _ j _ _; simp [hq.air, airTo, acceptSeq]
    · intro i hi t
      rw [hq.pend i hi]
      cases t <;> simp [buffered, lookupPending]
  obtain ⟨o, b, G', hI, hO⟩ := run_both (hq.inv w) hO0 evs hev hfifo
  intro i hi j hj hij t
  have hi' : i ∈ (m.run w evs).ids := by simpa using hi
  have hj' : j ∈ (m.run w evs).ids := by simpa using hj
  have hdel := hO.del j hj'
  have hord := hO.ord i hi' j hj' hij
  have hreq := hO.req_ok i hi' t
  have hpend := (hI.quiescent hair).1 i hi'
  simp only [hair, airTo, filter_nil, map_nil, acceptSeq, append_nil] at hord
  rw [hpend] at hreq
  have hb : buffered [] t = [] := by cases t <;> simp [buffered, lookupPending]
  rw [hb, append_nil, nil_append] at hreq
  rw [hdel, filter_append, filter_flatMap_dlvS]
  congr 1
  have hsplit : (G'.got j).filter (fun p => p.so == i && p.kind == kindOf t)
      = ((G'.got j).filter (fromData i)).filter (fun p => p.kind == kindOf t) := by
    rw [filter_filter]
    apply filter_congr
    intro p _
    simp only [fromData]
    by_cases hk : p.kind = kindOf t
    · have : isData (kindOf t) = true := by cases t <;> rfl
      simp [hk, this]
    · have : (p.kind == kindOf t) = false := by simpa using hk
      simp [this]
  rw [hsplit, hord, ← hreq]
  have hok := hO.olog_ok i hi'
  generalize G'.olog i = L at hok
  induction L with
  | nil => rfl
  | cons e L ih =>
    have he := hok e (by simp)
    have ih' := ih (fun e' he' => hok e' (by simp [he']))
    simp only [map_cons, filter_cons]
    by_cases ht : e.1.transport = t
    · have hk : e.2.kind = kindOf t := by rw [he.1, ht]
      simp only [hk, beq_self_eq_true, if_true, ht, flatMap_cons, ih', he.2 j]
    · have hk : ¬ e.2.kind = kindOf t := by rw [he.1, kindOf_inj]; exact ht
      simp only [hk, beq_iff_eq, if_false, ht, ih']


instance decFifoRun (w : World) : (m : Mesh) → (evs : List Ev) → Decidable (FifoRun w m evs)
  | _, [] => isTrue trivial
  | m, ev :: evs => by
    unfold FifoRun
    exact @instDecidableAnd _ _ _ (decFifoRun w _ evs)

end FlexModel.Net

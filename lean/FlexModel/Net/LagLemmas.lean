import FlexModel.Net.MeshOrder
import FlexModel.Net.Lag
/-!
C01 round 4: (1) every lag pump (`drainLag`) and every programme of requests and lag pumps is a FIFO-per-receiver
schedule, so `fifo_order` / `request_order_per_destination` speak about exactly the interleavings the
correspondence programmes with lagging receivers execute; (2) a pending location-service lookup survives every
reception except the reply it waits for - in particular the destination's own SHB / beacon, which makes the
destination a known neighbour while the lookup is still pending - and a unicast request issued then is still
queued behind the buffered ones.
-/
namespace FlexModel.Net

theorem pickLag_spec (lag : List Addr) (air : List (Addr × Pkt)) (k : Nat) (h : pickLag lag air = some k) :
    ∃ f, air[k]? = some f ∧ lag.contains f.1 = false ∧ (air.take k).all (fun g => lag.contains g.1) = true := by
  induction air generalizing k with
  | nil => simp [pickLag] at h
  | cons a air ih =>
    simp only [pickLag] at h
    by_cases ha : lag.contains a.1 = true
    · rw [if_pos ha] at h
      cases hr : pickLag lag air with
      | none => simp [hr] at h
      | some k' =>
        simp [hr] at h
        subst h
        obtain ⟨f, h1, h2, h3⟩ := ih k' hr
        refine ⟨f, by simpa using h1, h2, ?_⟩
        simp only [List.take_succ_cons, List.all_cons, ha, Bool.true_and]
        exact h3
    · rw [if_neg ha] at h
      simp at h
      subst h
      exact ⟨a, rfl, by simpa using ha, by simp⟩

/-- the pair a lag pump delivers next is the oldest pending pair of its receiver -/
theorem pickLag_fifoOK (lag : List Addr) (m : Mesh) (k : Nat) (h : pickLag lag m.air = some k) :
    fifoOK m (.dlv k) = true := by
  obtain ⟨f, h1, h2, h3⟩ := pickLag_spec lag m.air k h
  simp only [fifoOK, h1]
  rw [List.all_eq_true] at h3 ⊢
  intro g hg
  have := h3 g hg
  by_cases e : g.1 = f.1
  · rw [e, h2] at this; exact absurd this (by simp)
  · simpa using e

theorem run_append (w : World) (m : Mesh) (a b : List Ev) : m.run w (a ++ b) = (m.run w a).run w b := by
  simp [Mesh.run, List.foldl_append]

theorem FifoRun.append (w : World) (m : Mesh) (a b : List Ev) (ha : FifoRun w m a) (hb : FifoRun w (m.run w a) b) :
    FifoRun w m (a ++ b) := by
  induction a generalizing m with
  | nil => exact hb
  | cons e es ih =>
    obtain ⟨h1, h2⟩ := ha
    exact ⟨h1, ih _ h2 hb⟩

/-- a lag pump with the station semantics of the theorems is a FIFO-per-receiver schedule of single deliveries -/
theorem drainLag_fifo (w : World) (lag : List Addr) (fuel : Nat) (m : Mesh) :
    FifoRun w m ((drainLag (plainSem w) fullRange lag fuel m).2.map .dlv) ∧
    (drainLag (plainSem w) fullRange lag fuel m).1 = m.run w ((drainLag (plainSem w) fullRange lag fuel m).2.map .dlv) := by
  induction fuel generalizing m with
  | zero => exact ⟨trivial, rfl⟩
  | succ n ih =>
    unfold drainLag
    cases hk : pickLag lag m.air with
    | none => exact ⟨trivial, rfl⟩
    | some k =>
      simp only [List.map_cons]
      have e : m.stepG (plainSem w) fullRange (.dlv k) = m.step w (.dlv k) := stepG_full w m (.dlv k)
      rw [e]
      obtain ⟨i1, i2⟩ := ih (m.step w (.dlv k))
      exact ⟨⟨pickLag_fifoOK lag m k hk, i1⟩, by rw [i2]; rfl⟩

/-- programmes of the correspondence check with lagging receivers: a request, or a lag pump -/
inductive LagOp
  | rq (i : Addr) (r : Req)
  | pump (lag : List Addr)

/-- the event sequence a lag programme executes -/
def lagEvs (w : World) (fuel : Nat) : Mesh → List LagOp → List Ev
  | _, [] => []
  | m, .rq i r :: ops => .req i r :: lagEvs w fuel (m.step w (.req i r)) ops
  | m, .pump lag :: ops =>
    let d := drainLag (plainSem w) fullRange lag fuel m
    d.2.map .dlv ++ lagEvs w fuel d.1 ops

/-- **Every lag programme is a FIFO run**: whichever stations lag at whichever time, each station hears the frames
in the order in which they were transmitted -/
theorem lagEvs_fifo (w : World) (fuel : Nat) (m : Mesh) (ops : List LagOp) : FifoRun w m (lagEvs w fuel m ops) := by
  induction ops generalizing m with
  | nil => exact trivial
  | cons op ops ih =>
    cases op with
    | rq i r => exact ⟨rfl, ih _⟩
    | pump lag =>
      simp only [lagEvs]
      obtain ⟨h1, h2⟩ := drainLag_fifo w lag fuel m
      refine FifoRun.append w m _ _ h1 ?_
      rw [← h2]
      exact ih _

/-! ### a pending lookup and what the station hears meanwhile -/

theorem flush_pending (s : Station) (de : Addr) (q : List Req) : (flush s de q).1.pending = s.pending := by
  induction q generalizing s with
  | nil => rfl
  | cons r rs ih => simp only [flush]; rw [ih]

/-- **A pending lookup survives every reception but its reply.**  Whatever packet `p` the station receives -
single-hop broadcasts and beacons (also of the sought station itself), broadcasts, unicasts, location-service
requests, replies of other stations or for other stations - the lookup for `de` and its packet buffer are
untouched, unless `p` is the location-service reply of `de` addressed to this station. -/
theorem lookup_survives_reception (w : World) (s : Station) (p : Pkt) (de : Addr)
    (h : ¬ (p.kind = .lsRep s.addr ∧ p.so = de)) :
    lookupPending (receive w s p).1.pending de = lookupPending s.pending de := by
  unfold receive
  by_cases h0 : p.so = s.addr
  · simp [h0]
  · simp only [h0, if_false]
    cases hk : p.kind with
    | shb => simp
    | gbc a =>
      simp only
      split
      · rfl
      · split <;> simp
    | gac a =>
      simp only
      split
      · rfl
      · split <;> simp
    | guc d =>
      simp only
      split
      · rfl
      · split <;> simp
    | lsReq a =>
      simp only
      split
      · rfl
      · split <;> simp
    | lsRep d =>
      simp only
      split
      · rfl
      · split
        · rename_i hd
          have hne : p.so ≠ de := fun e => h ⟨by rw [hk, hd], e⟩
          simp only [learn_pending]
          cases hq : lookupPending s.pending p.so with
          | none => simp
          | some q => simp only [flush_pending]; exact lookup_erase_other _ _ _ (Ne.symm hne)
        · simp

/-- **The destination is heard while its lookup is pending** (its SHB / beacon arrives before the location-service
reply): it becomes a known neighbour, the lookup stays pending, and the next unicast request for it is queued behind
the buffered ones - nothing is transmitted, no sequence number is consumed. -/
theorem heard_destination_still_queues (w : World) (s : Station) (p : Pkt) (r : Req) (de : Addr) (q : List Req)
    (hso : p.so = de) (hne : de ≠ s.addr) (hk : p.kind = .shb)
    (hp : lookupPending s.pending de = some q) (ht : r.transport = .guc de) :
    (receive w s p).1.known.contains de = true ∧
    request (receive w s p).1 r =
      ({ (receive w s p).1 with pending := setPending (receive w s p).1.pending de (q ++ [r]) }, []) := by
  have hl : lookupPending (receive w s p).1.pending de = some q := by
    rw [lookup_survives_reception w s p de (by simp [hk])]; exact hp
  refine ⟨?_, by simp [request, ht, hl]⟩
  have h0 : ¬ p.so = s.addr := by rw [hso]; exact hne
  simp only [receive, h0, if_false, hk, deliver_known]
  unfold learn
  split
  · rename_i hc; rw [hso] at hc; exact hc
  · simp [hso]

end FlexModel.Net

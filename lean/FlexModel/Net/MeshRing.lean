import FlexModel.Net.MeshRun
/-! The duplicate ring / sequence-number wrap semantics of the driver refine the plain semantics of the theorems
as long as the ring answers the duplicate test like the complete history (C01). -/
namespace FlexModel.Net
open List
set_option linter.unusedSimpArgs false
set_option linter.unusedVariables false

/-- a packet as the code sees it: sequence number modulo `M` -/
def ringP (M : Nat) (p : Pkt) : Pkt := { p with sn := p.sn % M }

/-- the duplicate packet list the code keeps for the history `seen` of accepted (source, sequence number) pairs:
per source the last `L` numbers, modulo `M` -/
def ringSeen (L M : Nat) (seen : List (Addr × Nat)) : List (Addr × Nat) :=
  seen.foldl (fun acc k => trimSeen L k.1 (acc ++ [(k.1, k.2 % M)])) []

def ringS (L M : Nat) (s : Station) : Station := { s with sn := s.sn % M, seen := ringSeen L M s.seen }

theorem ringSeen_append (L M : Nat) (seen : List (Addr × Nat)) (k : Addr × Nat) :
    ringSeen L M (seen ++ [k]) = trimSeen L k.1 (ringSeen L M seen ++ [(k.1, k.2 % M)]) := by
  simp [ringSeen, foldl_append]

theorem count_erase_le {α : Type} [BEq α] [LawfulBEq α] (l : List α) (a : α) (q : α → Bool) :
    ((l.erase a).filter q).length ≤ (l.filter q).length := by
  exact (Sublist.filter q (erase_sublist)).length_le

theorem trimSeen_count (L : Nat) (so : Addr) (seen : List (Addr × Nat))
    (h : (seen.filter (fun e => e.1 == so)).length ≤ L + 1) :
    ((trimSeen L so seen).filter (fun e => e.1 == so)).length ≤ L := by
  unfold trimSeen
  simp only
  split
  · assumption
  · rename_i hgt
    cases hh : (seen.filter (fun e => e.1 == so)).head? with
    | none =>
      simp only
      have : seen.filter (fun e => e.1 == so) = [] := by simpa using hh
      simp [this] at hgt
    | some old =>
      simp only
      have hmem : old ∈ seen.filter (fun e => e.1 == so) := by
        cases hl : seen.filter (fun e => e.1 == so) with
        | nil => simp [hl] at hh
        | cons a l => simp [hl] at hh; subst hh; simp
      have hold := mem_filter.mp hmem
      have : ((seen.erase old).filter (fun e => e.1 == so)).length + 1 = (seen.filter (fun e => e.1 == so)).length := by
        have hp := (perm_cons_erase hold.1).filter (fun e => e.1 == so)
        have := hp.length_eq
        simp only [filter_cons, hold.2, if_true, length_cons] at this
        omega
      omega

theorem trimSeen_other (L : Nat) (so so' : Addr) (seen : List (Addr × Nat)) (h : so' ≠ so) :
    ((trimSeen L so seen).filter (fun e => e.1 == so')).length = (seen.filter (fun e => e.1 == so')).length := by
  unfold trimSeen
  simp only
  split
  · rfl
  · cases hh : (seen.filter (fun e => e.1 == so)).head? with
    | none => rfl
    | some old =>
      simp only
      have hmem : old ∈ seen.filter (fun e => e.1 == so) := by
        cases hl : seen.filter (fun e => e.1 == so) with
        | nil => simp [hl] at hh
        | cons a l => simp [hl] at hh; subst hh; simp
      have hold := mem_filter.mp hmem
      have ho : old.1 = so := by simpa using hold.2
      have hp := (perm_cons_erase hold.1).filter (fun e => e.1 == so')
      have := hp.length_eq
      have hne : (old.1 == so') = false := by simp [ho, Ne.symm h]
      simp only [filter_cons, hne, Bool.false_eq_true, if_false] at this
      omega

theorem ringFold_count (L M : Nat) (seen acc : List (Addr × Nat)) (so : Addr)
    (h : (acc.filter (fun e => e.1 == so)).length ≤ L) :
    ((seen.foldl (fun acc k => trimSeen L k.1 (acc ++ [(k.1, k.2 % M)])) acc).filter (fun e => e.1 == so)).length ≤ L := by
  induction seen generalizing acc with
  | nil => simpa using h
  | cons k l ih =>
    simp only [foldl_cons]
    apply ih
    by_cases hk : k.1 = so
    · subst hk
      apply trimSeen_count
      simp only [filter_append, length_append]
      have : ([(k.1, k.2 % M)].filter (fun e => e.1 == k.1)).length = 1 := by simp
      omega
    · rw [trimSeen_other L k.1 so _ (Ne.symm hk)]
      have : [(k.1, k.2 % M)].filter (fun e => e.1 == so) = [] := by simp [hk]
      simp only [filter_append, this, append_nil]
      exact h

/-- the ring never holds more than `L` numbers of one source -/
theorem ringSeen_count (L M : Nat) (seen : List (Addr × Nat)) (so : Addr) :
    ((ringSeen L M seen).filter (fun e => e.1 == so)).length ≤ L :=
  ringFold_count L M seen [] so (by simp)

theorem trimSeen_id (L : Nat) (so : Addr) (seen : List (Addr × Nat))
    (h : (seen.filter (fun e => e.1 == so)).length ≤ L) : trimSeen L so seen = seen := by
  simp [trimSeen, h]


/-- replace sequence counter and duplicate list -/
def setSS (s : Station) (sn : Nat) (seen : List (Addr × Nat)) : Station := { s with sn := sn, seen := seen }

theorem ringS_eq (L M : Nat) (s : Station) : ringS L M s = setSS s (s.sn % M) (ringSeen L M s.seen) := rfl

@[simp] theorem setSS_addr (s a b) : (setSS s a b).addr = s.addr := rfl
@[simp] theorem setSS_pos (s a b) : (setSS s a b).pos = s.pos := rfl
@[simp] theorem setSS_sn (s a b) : (setSS s a b).sn = a := rfl
@[simp] theorem setSS_seen (s a b) : (setSS s a b).seen = b := rfl
@[simp] theorem setSS_pending (s a b) : (setSS s a b).pending = s.pending := rfl
@[simp] theorem setSS_hops (s a b) : (setSS s a b).defaultHops = s.defaultHops := rfl
@[simp] theorem setSS_setSS (s a b c d) : setSS (setSS s a b) c d = setSS s c d := rfl

theorem learn_setSS (s : Station) (a : Nat) (b : List (Addr × Nat)) (x : Addr) :
    learn (setSS s a b) x = setSS (learn s x) a b := by
  unfold learn setSS; simp only; split <;> rfl

theorem deliver_setSS (s : Station) (a : Nat) (b : List (Addr × Nat)) (p : Pkt) :
    deliver (setSS s a b) p = setSS (deliver s p) a b := by
  unfold deliver setSS; simp only; split <;> rfl

theorem deliver_ringP (M : Nat) (s : Station) (p : Pkt) : deliver s (ringP M p) = deliver s p := rfl

theorem setSS_self (s : Station) : setSS s s.sn s.seen = s := rfl

theorem forwardCopy_ringP (M : Nat) (p : Pkt) : forwardCopy (ringP M p) = (forwardCopy p).map (ringP M) := by
  unfold forwardCopy ringP; simp only; split <;> simp

/-- `wrapSn` on a station written with `setSS` -/
theorem wrapSn_setSS (M : Nat) (s : Station) (a : Nat) (b : List (Addr × Nat)) (out : List Pkt) :
    wrapSn M (setSS s a b, out) = (setSS s (a % M) b, out.map (fun q => if q.so = s.addr then { q with sn := q.sn % M } else q)) := rfl

theorem ring_receive_ignored (w : World) (L M : Nat) (s : Station) (p : Pkt)
    (h : receive w (ringS L M s) (ringP M p) = (ringS L M s, [])) (h' : receive w s p = (s, [])) :
    (ringSem w L M).rc (ringS L M s) (ringP M p) = (ringS L M (receive w s p).1, (receive w s p).2.map (ringP M)) := by
  simp only [ringSem, h, h', map_nil]
  have : trimSeen L (ringP M p).so (ringS L M s).seen = (ringS L M s).seen :=
    trimSeen_id _ _ _ (ringSeen_count L M s.seen _)
  simp only [this]
  simp [wrapSn, ringS, Nat.mod_mod]



theorem succ_mod_mod (a M : Nat) : (a % M + 1) % M = (a + 1) % M := by
  rw [Nat.add_mod, Nat.mod_mod, ← Nat.add_mod]

theorem add_mod_mod (a k M : Nat) : (a % M + k) % M = (a + k) % M := by
  rw [Nat.add_mod, Nat.mod_mod, ← Nat.add_mod]

/-- flush from a station whose counter was reduced modulo M, then reduced again, is the reduced flush -/
theorem flush_ring (M : Nat) (s : Station) (a : Nat) (b : List (Addr × Nat)) (de : Addr) (q : List Req)
    (ha : a % M = s.sn % M) :
    wrapSn M (flush (setSS s a b) de q) =
      (setSS (flush s de q).1 ((flush s de q).1.sn % M) b, (flush s de q).2.map (ringP M)) := by
  induction q generalizing s a with
  | nil => simp [flush, wrapSn_setSS, ha]
  | cons r rs ih =>
    have ih' := ih { s with sn := s.sn + 1 } (a + 1) (by rw [Nat.add_mod, ha, ← Nat.add_mod])
    simp only [flush]
    have e1 : ({ setSS s a b with sn := (setSS s a b).sn + 1 } : Station) = setSS { s with sn := s.sn + 1 } (a + 1) b := rfl
    rw [e1]
    simp only [wrapSn] at ih' ⊢
    have haddr : ∀ x : Station × List Pkt, True := fun _ => trivial
    cases hb : r.scfBlocked
    · simp only [Bool.false_eq_true, if_false, map_cons]
      rw [Prod.mk.injEq] at ih' ⊢
      refine ⟨ih'.1, ?_⟩
      have hfa : (flush (setSS { s with sn := s.sn + 1 } (a + 1) b) de rs).1.addr = s.addr := by
        have := (flush_spec_addr (setSS { s with sn := s.sn + 1 } (a + 1) b) de rs); simpa using this
      rw [cons.injEq]
      refine ⟨?_, ih'.2⟩
      simp [gucPkt, hfa, ringP, hops, Nat.add_mod, ha]
    · simp only [if_true]
      exact ih'
where
  flush_spec_addr (s : Station) (de : Addr) (q : List Req) : (flush s de q).1.addr = s.addr := by
    induction q generalizing s with
    | nil => rfl
    | cons r rs ih => simp only [flush]; rw [ih]



theorem setSS_upd_seen (s : Station) (X : List (Addr × Nat)) (a : Nat) (b : List (Addr × Nat)) :
    setSS { s with seen := X } a b = setSS s a b := rfl
theorem setSS_upd_sn (s : Station) (n : Nat) (a : Nat) (b : List (Addr × Nat)) :
    setSS { s with sn := n } a b = setSS s a b := rfl
theorem upd_seen_setSS (s : Station) (X : List (Addr × Nat)) (a : Nat) (b : List (Addr × Nat)) :
    ({ setSS s a b with seen := X } : Station) = setSS s a X := rfl
theorem upd_sn_setSS (s : Station) (n : Nat) (a : Nat) (b : List (Addr × Nat)) :
    ({ setSS s a b with sn := n } : Station) = setSS s n b := rfl
theorem upd_pending_setSS (s : Station) (P : List (Addr × List Req)) (a : Nat) (b : List (Addr × Nat)) :
    ({ setSS s a b with pending := P } : Station) = setSS { s with pending := P } a b := rfl
theorem plain_seen_upd (s : Station) (X : List (Addr × Nat)) : ({ s with seen := X } : Station) = setSS s s.sn X := rfl
theorem ringS_setSS (L M : Nat) (s : Station) (a : Nat) (b : List (Addr × Nat)) :
    ringS L M (setSS s a b) = setSS s (a % M) (ringSeen L M b) := rfl
theorem setSS_learn_sn (s : Station) (x : Addr) (b) : setSS (learn s x) (learn s x).sn b = setSS (learn s x) s.sn b := by
  rw [learn_sn]

theorem map_fwd_id (M : Nat) (s : Station) (p : Pkt) (hso : ¬ p.so = s.addr) (l : List Pkt) (hl : ∀ q ∈ l, q.so = p.so) :
    l.map (fun q => if q.so = s.addr then { q with sn := q.sn % M } else q) = l := by
  conv => rhs; rw [← map_id l]
  apply map_congr_left
  intro q hq
  simp [hl q hq, hso]

theorem forwardCopy_so (p q : Pkt) (h : q ∈ forwardCopy p) : q.so = p.so := by
  unfold forwardCopy at h; split at h
  · simp at h; subst h; rfl
  · simp at h

@[simp] theorem ringP_so (M : Nat) (p : Pkt) : (ringP M p).so = p.so := rfl
@[simp] theorem ringP_kind (M : Nat) (p : Pkt) : (ringP M p).kind = p.kind := rfl
@[simp] theorem ringP_sn (M : Nat) (p : Pkt) : (ringP M p).sn = p.sn % M := rfl

theorem ringSem_rc (w : World) (L M : Nat) (s : Station) (p : Pkt) :
    (ringSem w L M).rc s p =
      wrapSn M (setSS (receive w s p).1 (receive w s p).1.sn (trimSeen L p.so (receive w s p).1.seen), (receive w s p).2) := rfl

/-- what `receive` does with a multi-hop packet once it is accepted (`s1` = state with the key remembered and the
source learnt) -/
def recvAcc (w : World) (s1 : Station) (p : Pkt) : Station × List Pkt :=
  match p.kind with
  | .shb => (s1, [])
  | .gbc a => (if w.inside a s1.addr then deliver s1 p else s1, forwardCopy p)
  | .gac a => if w.inside a s1.addr then (deliver s1 p, []) else (s1, forwardCopy p)
  | .guc de => if de = s1.addr then (deliver s1 p, []) else (s1, forwardCopy p)
  | .lsReq sought =>
    if sought = s1.addr then
      ({ s1 with sn := s1.sn + 1 },
        [{ so := s1.addr, soPos := s1.pos, sn := s1.sn + 1, kind := .lsRep p.so, btpB := false, rhl := s1.defaultHops, data := [] }])
    else (s1, forwardCopy p)
  | .lsRep de =>
    if de = s1.addr then
      match lookupPending s1.pending p.so with
      | some q => flush { s1 with pending := erasePending s1.pending p.so } p.so q
      | none => (s1, [])
    else (s1, forwardCopy p)

theorem receive_acc (w : World) (s : Station) (p : Pkt) (hso : ¬ p.so = s.addr) (hk : p.kind ≠ .shb)
    (hnd : s.seen.contains (p.so, p.sn) = false) :
    receive w s p = recvAcc w (learn { s with seen := s.seen ++ [(p.so, p.sn)] } p.so) p := by
  unfold receive recvAcc
  cases hk' : p.kind <;> simp_all <;> rfl

theorem flush_addr (s : Station) (de : Addr) (q : List Req) : (flush s de q).1.addr = s.addr := by
  induction q generalizing s with
  | nil => rfl
  | cons r rs ih => simp only [flush]; rw [ih]

theorem flush_seen (s : Station) (de : Addr) (q : List Req) : (flush s de q).1.seen = s.seen := by
  induction q generalizing s with
  | nil => rfl
  | cons r rs ih => simp only [flush]; rw [ih]

theorem recvAcc_seen (w : World) (x : Station) (p : Pkt) : (recvAcc w x p).1.seen = x.seen := by
  unfold recvAcc
  cases p.kind with
  | shb => rfl
  | gbc a => simp only; split <;> simp
  | gac a => simp only; split <;> simp
  | guc de => simp only; split <;> simp
  | lsReq sought => simp only; split <;> simp
  | lsRep de =>
    simp only
    split
    · cases lookupPending x.pending p.so with
      | none => rfl
      | some q => simp [flush_seen]
    · rfl

theorem lsReq_ring (M : Nat) (x : Station) (a : Nat) (b : List (Addr × Nat)) (to : Addr) (ha : a % M = x.sn % M) :
    wrapSn M (setSS x (a + 1) b,
        [{ so := x.addr, soPos := x.pos, sn := a + 1, kind := .lsRep to, btpB := false, rhl := x.defaultHops, data := [] }]) =
      (setSS { x with sn := x.sn + 1 } ((x.sn + 1) % M) b,
        [ringP M { so := x.addr, soPos := x.pos, sn := x.sn + 1, kind := .lsRep to, btpB := false, rhl := x.defaultHops, data := [] }]) := by
  have : (a + 1) % M = (x.sn + 1) % M := by rw [Nat.add_mod, ha, ← Nat.add_mod]
  simp [wrapSn_setSS, ringP, this]
  rfl

/-- the accepted-packet part of `receive` on the ring view of a station -/
theorem recvAcc_ring (w : World) (M : Nat) (x : Station) (a : Nat) (b : List (Addr × Nat)) (p : Pkt)
    (ha : a % M = x.sn % M) (hso : ¬ p.so = x.addr) :
    wrapSn M (recvAcc w (setSS x a b) (ringP M p)) =
      (setSS (recvAcc w x p).1 ((recvAcc w x p).1.sn % M) b, (recvAcc w x p).2.map (ringP M)) := by
  have hfwd : ((forwardCopy p).map (ringP M)).map (fun q => if q.so = x.addr then { q with sn := q.sn % M } else q)
      = (forwardCopy p).map (ringP M) := by
    apply map_fwd_id M x p hso
    intro q hq; obtain ⟨q', hq', rfl⟩ := mem_map.mp hq; exact forwardCopy_so p q' hq'
  unfold recvAcc
  cases hk : p.kind with
  | shb => simp [hk, wrapSn_setSS, ha]
  | gbc ar =>
    simp only [ringP_kind, hk, setSS_addr, deliver_ringP, forwardCopy_ringP]
    by_cases hin : w.inside ar x.addr = true <;> simp [hin, deliver_setSS, wrapSn_setSS, hfwd, ha]
  | gac ar =>
    simp only [ringP_kind, hk, setSS_addr, deliver_ringP, forwardCopy_ringP]
    by_cases hin : w.inside ar x.addr = true <;> simp [hin, deliver_setSS, wrapSn_setSS, hfwd, ha]
  | guc de =>
    simp only [ringP_kind, hk, setSS_addr, deliver_ringP, forwardCopy_ringP]
    by_cases hin : de = x.addr <;> simp [hin, deliver_setSS, wrapSn_setSS, hfwd, ha]
  | lsReq sought =>
    simp only [ringP_kind, hk, setSS_addr, setSS_pos, setSS_sn, setSS_hops, ringP_so, forwardCopy_ringP, upd_sn_setSS]
    by_cases hin : sought = x.addr
    · simp only [hin, if_true]
      exact lsReq_ring M x a b p.so ha
    · simp [hin, wrapSn_setSS, hfwd, ha]
  | lsRep de =>
    simp only [ringP_kind, hk, setSS_addr, setSS_pending, ringP_so, forwardCopy_ringP, upd_pending_setSS]
    by_cases hin : de = x.addr
    · simp only [hin, if_true]
      cases hl : lookupPending x.pending p.so with
      | none => simp [wrapSn_setSS, ha]
      | some q =>
        simp only
        exact flush_ring M { x with pending := erasePending x.pending p.so } a b p.so q ha
    · simp [hin, wrapSn_setSS, hfwd, ha]

theorem flush_setSeen (s : Station) (S : List (Addr × Nat)) (de : Addr) (q : List Req) :
    flush { s with seen := S } de q = ({ (flush s de q).1 with seen := S }, (flush s de q).2) := by
  induction q generalizing s with
  | nil => rfl
  | cons r rs ih =>
    simp only [flush]
    have := ih { s with sn := s.sn + 1 }
    have e : ({ ({ s with seen := S } : Station) with sn := ({ s with seen := S } : Station).sn + 1 } : Station)
        = { ({ s with sn := s.sn + 1 } : Station) with seen := S } := rfl
    rw [e, this]
    cases r.scfBlocked <;> simp [gucPkt, hops]

/-- changing the duplicate list of the state does not change what happens to an accepted packet -/
theorem recvAcc_setSeen (w : World) (x : Station) (S : List (Addr × Nat)) (p : Pkt) :
    recvAcc w { x with seen := S } p = ({ (recvAcc w x p).1 with seen := S }, (recvAcc w x p).2) := by
  unfold recvAcc
  cases hk : p.kind with
  | shb => rfl
  | gbc ar => simp only; by_cases hin : w.inside ar x.addr = true <;> simp [hin, deliver]; split <;> rfl
  | gac ar => simp only; by_cases hin : w.inside ar x.addr = true <;> simp [hin, deliver]; split <;> rfl
  | guc de => simp only; by_cases hin : de = x.addr <;> simp [hin, deliver]; split <;> rfl
  | lsReq sought => simp only; by_cases hin : sought = x.addr <;> simp [hin]
  | lsRep de =>
    simp only
    by_cases hin : de = x.addr
    · simp only [hin, if_true]
      cases hl : lookupPending x.pending p.so with
      | none => rfl
      | some q => simp only; exact flush_setSeen { x with pending := erasePending x.pending p.so } S p.so q
    · simp [hin]

theorem wrapSn_setSeen (M : Nat) (y : Station) (T : List (Addr × Nat)) (out : List Pkt) :
    wrapSn M ({ y with seen := T }, out) = ({ (wrapSn M (y, out)).1 with seen := T }, (wrapSn M (y, out)).2) := rfl

theorem ring_receive_acc (w : World) (L M : Nat) (s : Station) (p : Pkt) (hso : ¬ p.so = s.addr) (hks : p.kind ≠ .shb)
    (hnd : s.seen.contains (p.so, p.sn) = false)
    (hndr : (ringS L M s).seen.contains ((ringP M p).so, (ringP M p).sn) = false) :
    (ringSem w L M).rc (ringS L M s) (ringP M p) = (ringS L M (receive w s p).1, (receive w s p).2.map (ringP M)) := by
  have F1 : receive w s p = recvAcc w (setSS (learn s p.so) (learn s p.so).sn (s.seen ++ [(p.so, p.sn)])) p := by
    rw [receive_acc w s p hso hks hnd, plain_seen_upd, learn_setSS, learn_sn]
  have F2 : receive w (ringS L M s) (ringP M p)
      = recvAcc w (setSS (learn s p.so) (s.sn % M) (ringSeen L M s.seen ++ [(p.so, p.sn % M)])) (ringP M p) := by
    rw [receive_acc w (ringS L M s) (ringP M p) hso hks hndr]
    exact congrArg (fun t => recvAcc w t (ringP M p)) (learn_setSS s (s.sn % M) _ p.so)
  have F3 : recvAcc w (setSS (learn s p.so) (learn s p.so).sn (s.seen ++ [(p.so, p.sn)])) p
      = (setSS (recvAcc w (learn s p.so) p).1 (recvAcc w (learn s p.so) p).1.sn (s.seen ++ [(p.so, p.sn)]),
         (recvAcc w (learn s p.so) p).2) := recvAcc_setSeen w (learn s p.so) _ p
  have hR := recvAcc_ring w M (learn s p.so) (s.sn % M) (ringSeen L M s.seen ++ [(p.so, p.sn % M)]) p
    (by simp [Nat.mod_mod]) (by simpa using hso)
  have hy := recvAcc_seen w (setSS (learn s p.so) (s.sn % M) (ringSeen L M s.seen ++ [(p.so, p.sn % M)])) (ringP M p)
  rw [ringSem_rc, F2, F1, F3]
  generalize recvAcc w (setSS (learn s p.so) (s.sn % M) (ringSeen L M s.seen ++ [(p.so, p.sn % M)])) (ringP M p) = R
    at hR hy ⊢
  obtain ⟨y, out⟩ := R
  simp only [setSS_seen] at hy
  have e3 : wrapSn M (setSS y y.sn (trimSeen L (ringP M p).so y.seen), out)
      = ({ (wrapSn M (y, out)).1 with seen := trimSeen L (ringP M p).so y.seen }, (wrapSn M (y, out)).2) := rfl
  simp only at e3 ⊢
  rw [e3, hR, hy, ringP_so, (ringSeen_append L M s.seen (p.so, p.sn)).symm]
  rfl

/-- **the ring semantics commute with the plain semantics** as long as the ring answers the duplicate test for the
received packet like the complete history does -/
theorem ring_receive (w : World) (L M : Nat) (s : Station) (p : Pkt)
    (hA : (ringSeen L M s.seen).contains (p.so, p.sn % M) = s.seen.contains (p.so, p.sn)) :
    (ringSem w L M).rc (ringS L M s) (ringP M p) = (ringS L M (receive w s p).1, (receive w s p).2.map (ringP M)) := by
  by_cases hso : p.so = s.addr
  · apply ring_receive_ignored <;> simp [receive, hso, ringS, ringP]
  · have hfw : ∀ q ∈ (forwardCopy p).map (ringP M), q.so = p.so := by
      intro q hq; obtain ⟨q', hq', rfl⟩ := mem_map.mp hq; exact forwardCopy_so p q' hq'
    have htrim : trimSeen L p.so (ringSeen L M s.seen ++ [(p.so, p.sn % M)]) = ringSeen L M (s.seen ++ [(p.so, p.sn)]) :=
      (ringSeen_append L M s.seen (p.so, p.sn)).symm
    by_cases hdup : p.kind ≠ .shb ∧ s.seen.contains (p.so, p.sn) = true
    · apply ring_receive_ignored
      · have : (ringSeen L M s.seen).contains (p.so, p.sn % M) = true := by rw [hA]; exact hdup.2
        cases hk : p.kind <;> simp_all [receive, ringS, ringP]
      · cases hk : p.kind <;> simp_all [receive]
    · have hrso : ¬ (ringP M p).so = (ringS L M s).addr := hso
      have hringS : ringS L M s = setSS s (s.sn % M) (ringSeen L M s.seen) := rfl
      have hra : (ringS L M s).addr = s.addr := rfl
      cases hk : p.kind with
      | shb =>
        have e1 : receive w s p = (deliver (learn s p.so) p, []) := by simp [receive, hso, hk]
        have e2 : receive w (ringS L M s) (ringP M p) = (deliver (learn (ringS L M s) p.so) p, []) := by
          simp [receive, hk, hra, hso, deliver_ringP]
        rw [ringSem_rc, e2, e1]
        simp only [map_nil, hringS, learn_setSS, deliver_setSS, setSS_setSS, wrapSn_setSS, setSS_sn, setSS_seen,
          ringS_eq, deliver_sn, learn_sn, deliver_seen, learn_seen, Nat.mod_mod]
        rw [show (ringP M p).so = p.so from rfl, trimSeen_id _ _ _ (ringSeen_count L M s.seen _)]
      | gbc a =>
        have hks : p.kind ≠ .shb := by simp [hk]
        have hnd : s.seen.contains (p.so, p.sn) = false := by simpa [hk] using hdup
        have hndr : (ringS L M s).seen.contains ((ringP M p).so, (ringP M p).sn) = false := by
          show (ringSeen L M s.seen).contains (p.so, p.sn % M) = false; rw [hA]; exact hnd
        exact ring_receive_acc w L M s p hso hks hnd hndr
      | gac a =>
        have hks : p.kind ≠ .shb := by simp [hk]
        have hnd : s.seen.contains (p.so, p.sn) = false := by simpa [hk] using hdup
        have hndr : (ringS L M s).seen.contains ((ringP M p).so, (ringP M p).sn) = false := by
          show (ringSeen L M s.seen).contains (p.so, p.sn % M) = false; rw [hA]; exact hnd
        exact ring_receive_acc w L M s p hso hks hnd hndr
      | guc de =>
        have hks : p.kind ≠ .shb := by simp [hk]
        have hnd : s.seen.contains (p.so, p.sn) = false := by simpa [hk] using hdup
        have hndr : (ringS L M s).seen.contains ((ringP M p).so, (ringP M p).sn) = false := by
          show (ringSeen L M s.seen).contains (p.so, p.sn % M) = false; rw [hA]; exact hnd
        exact ring_receive_acc w L M s p hso hks hnd hndr
      | lsReq sought =>
        have hks : p.kind ≠ .shb := by simp [hk]
        have hnd : s.seen.contains (p.so, p.sn) = false := by simpa [hk] using hdup
        have hndr : (ringS L M s).seen.contains ((ringP M p).so, (ringP M p).sn) = false := by
          show (ringSeen L M s.seen).contains (p.so, p.sn % M) = false; rw [hA]; exact hnd
        exact ring_receive_acc w L M s p hso hks hnd hndr
      | lsRep de =>
        have hks : p.kind ≠ .shb := by simp [hk]
        have hnd : s.seen.contains (p.so, p.sn) = false := by simpa [hk] using hdup
        have hndr : (ringS L M s).seen.contains ((ringP M p).so, (ringP M p).sn) = false := by
          show (ringSeen L M s.seen).contains (p.so, p.sn % M) = false; rw [hA]; exact hnd
        exact ring_receive_acc w L M s p hso hks hnd hndr



theorem setPending_setSS (x : Station) (a : Nat) (b : List (Addr × Nat)) (P : List (Addr × List Req)) :
    ({ setSS x a b with pending := P } : Station) = setSS { x with pending := P } a b := rfl

/-- source operations on the ring view -/
theorem ring_request (w : World) (L M : Nat) (s : Station) (r : Req) :
    (ringSem w L M).rq (ringS L M s) r = (ringS L M (request s r).1, (request s r).2.map (ringP M)) := by
  show wrapSn M (request (ringS L M s) r) = _
  have hringS : ringS L M s = setSS s (s.sn % M) (ringSeen L M s.seen) := rfl
  have h1 : (s.sn % M + 1) % M = (s.sn + 1) % M := succ_mod_mod s.sn M
  unfold request
  cases ht : r.transport with
  | shb => simp [wrapSn, ringS, ringP, Nat.mod_mod]
  | gbc a =>
    simp only
    cases r.scfBlocked <;> simp [wrapSn, ringS, ringP, hops, h1]
  | gac a =>
    simp only
    cases r.scfBlocked <;> simp [wrapSn, ringS, ringP, hops, h1]
  | guc de =>
    simp only
    have hp : (ringS L M s).pending = s.pending := rfl
    have hkn : (ringS L M s).known = s.known := rfl
    rw [hp, hkn]
    cases hl : lookupPending s.pending de with
    | some q => simp [wrapSn, ringS, ringP, Nat.mod_mod]
    | none =>
      simp only
      by_cases hk : s.known.contains de = true
      · simp only [hk, if_true]
        cases r.scfBlocked <;> simp [wrapSn, ringS, ringP, hops, h1, gucPkt]
      · simp only [hk, if_false]
        simp [wrapSn, ringS, ringP, h1]

/-- the mesh as the code sees it -/
def ringM (L M : Nat) (m : Mesh) : Mesh :=
  { ids := m.ids, st := fun a => ringS L M (m.st a), air := m.air.map (fun f => (f.1, ringP M f.2)) }

/-- window hypothesis for one event: when a station tests a received packet against its duplicate list, the ring of
the last `L` sequence numbers per source modulo `M` answers like the complete history -/
def windowOK (L M : Nat) (m : Mesh) : Ev → Bool
  | .req _ _ => true
  | .dlv k => match m.air[k]? with
    | none => true
    | some f => (ringSeen L M (m.st f.1).seen).contains (f.2.so, f.2.sn % M) == (m.st f.1).seen.contains (f.2.so, f.2.sn)

def WindowRun (w : World) (L M : Nat) : Mesh → List Ev → Prop
  | _, [] => True
  | m, ev :: evs => windowOK L M m ev = true ∧ WindowRun w L M (m.step w ev) evs

instance decWindowRun (w : World) (L M : Nat) : (m : Mesh) → (evs : List Ev) → Decidable (WindowRun w L M m evs)
  | _, [] => isTrue trivial
  | m, ev :: evs => by
    unfold WindowRun
    exact @instDecidableAnd _ _ _ (decWindowRun w L M _ evs)

theorem bcastR_full (ids : List Addr) (x : Addr) (out : List Pkt) : bcastR fullRange ids x out = bcast ids x out := by
  simp [bcastR, bcast, fullRange]

theorem bcast_map (M : Nat) (ids : List Addr) (x : Addr) (out : List Pkt) :
    bcast ids x (out.map (ringP M)) = (bcast ids x out).map (fun f => (f.1, ringP M f.2)) := by
  simp [bcast, flatMap_map, map_flatMap, Function.comp_def]

theorem eraseIdx_map' {α β : Type} (f : α → β) (l : List α) (k : Nat) : (l.map f).eraseIdx k = (l.eraseIdx k).map f := by
  induction l generalizing k with
  | nil => rfl
  | cons a l ih => cases k <;> simp [ih]

theorem ringM_upd (L M : Nat) (st : Addr → Station) (x : Addr) (s' : Station) :
    (fun a => ringS L M (upd st x s' a)) = upd (fun a => ringS L M (st a)) x (ringS L M s') := by
  funext a; simp only [upd]; split <;> rfl

/-- **one event**: the driver's step (ring semantics) on the ring view = ring view of the theorems' step -/
theorem ring_step (w : World) (L M : Nat) (m : Mesh) (ev : Ev) (hw : windowOK L M m ev = true) :
    (ringM L M m).stepG (ringSem w L M) fullRange ev = ringM L M (m.step w ev) := by
  cases ev with
  | req i r =>
    simp only [Mesh.stepG, Mesh.step, ringM]
    by_cases hi : m.ids.contains i = true
    · simp only [hi, if_true, ring_request, bcastR_full, bcast_map, map_append, ringM_upd]
    · simp only [hi]; rfl
  | dlv k =>
    simp only [Mesh.stepG, Mesh.step, ringM, getElem?_map]
    cases hk : m.air[k]? with
    | none => simp
    | some f =>
      obtain ⟨x, p⟩ := f
      have : (ringSeen L M (m.st x).seen).contains (p.so, p.sn % M) = (m.st x).seen.contains (p.so, p.sn) := by
        simpa [windowOK, hk] using hw
      simp only [Option.map_some, ring_receive w L M (m.st x) p this, bcastR_full, bcast_map, map_append,
        ringM_upd, eraseIdx_map']

theorem ring_run (w : World) (L M : Nat) (m : Mesh) (evs : List Ev) (hw : WindowRun w L M m evs) :
    evs.foldl (Mesh.stepG (ringSem w L M) fullRange) (ringM L M m) = ringM L M (m.run w evs) := by
  induction evs generalizing m with
  | nil => rfl
  | cons e es ih =>
    simp only [foldl_cons, Mesh.run]
    rw [ring_step w L M m e hw.1]
    exact ih (m.step w e) hw.2

/-- fresh stations (empty duplicate list, counter below the modulus) look the same in both views -/
theorem ringM_fresh (L M : Nat) (m : Mesh) (hair : m.air = []) (h : ∀ a, (m.st a).seen = [] ∧ (m.st a).sn < M) :
    ringM L M m = m := by
  cases m with
  | mk ids st air =>
    simp only at hair h
    subst hair
    simp only [ringM, map_nil, Mesh.mk.injEq, true_and, and_true]
    funext a
    have := h a
    simp only [ringS, ringSeen, this.1, foldl_nil, Nat.mod_eq_of_lt this.2]
    rw [← this.1]


end FlexModel.Net

import FlexModel.Net.MeshInv
/-! Every event preserves the invariant of the asynchronous mesh (C01). -/
namespace FlexModel.Net
open List
set_option linter.unusedSimpArgs false
set_option linter.unusedVariables false

theorem kindOf_ne_shb (t : Transport) (h : t ≠ .shb) : kindOf t ≠ .shb := by
  cases t <;> simp_all [kindOf]

theorem forwardCopy_core (p q : Pkt) (h : q ∈ forwardCopy p) : core q = core p := by
  unfold forwardCopy at h
  split at h
  · simp at h; subst h; rfl
  · simp at h

theorem flushPkts_dlv (w : World) (s : Station) (de : Addr) (n : Nat) (q : List Req) (j : Addr) (ports : List Nat)
    (hq : ∀ r ∈ q, RqOK r ∧ r.transport = .guc de) :
    (flushPkts s de n q).flatMap (dlvS w j ports) = q.flatMap (expS w s.addr s.pos j ports) := by
  induction q generalizing n with
  | nil => rfl
  | cons r rs ih =>
    have hr := hq r (by simp)
    simp only [flushPkts, flatMap_cons, ih (n + 1) (fun r hr => hq r (by simp [hr]))]
    rw [gucPkt_eq s r de _ hr.2, dlvS_dataPkt w s r _ j ports hr.1.1 hr.1.2.1]

theorem flushPkts_keys (s : Station) (de : Addr) (n : Nat) (q : List Req) :
    ((flushPkts s de n q).map key).Nodup := by
  have h := flushPkts_keys_nodup s de n q
  generalize hl : flushPkts s de n q = l at h
  have hso : ∀ p ∈ l, p.so = s.addr := by
    intro p hp; rw [← hl] at hp; exact (flushPkts_mem s de n q p hp).1
  clear hl
  induction l with
  | nil => simp
  | cons a l ih =>
    simp only [map_cons, pairwise_cons, mem_map, forall_exists_index, and_imp, forall_apply_eq_imp_iff₂] at h
    simp only [map_cons, nodup_cons, mem_map, not_exists, not_and]
    refine ⟨?_, ih h.2 (fun p hp => hso p (by simp [hp]))⟩
    intro p hp e
    have := h.1 p hp
    simp only [key, Prod.mk.injEq] at e
    omega

theorem erasePending_nodup (p : List (Addr × List Req)) (a : Addr) (h : (p.map (·.1)).Nodup) :
    ((erasePending p a).map (·.1)).Nodup := by
  unfold erasePending
  exact Nodup.sublist ((filter_sublist).map _) h

theorem mem_erasePending (p : List (Addr × List Req)) (a : Addr) (e : Addr × List Req) (h : e ∈ erasePending p a) :
    e ∈ p ∧ e.1 ≠ a := by
  simpa [erasePending] using h

theorem setPending_keys (p : List (Addr × List Req)) (a : Addr) (q q0 : List Req) (h : lookupPending p a = some q0) :
    (setPending p a q).map (·.1) = p.map (·.1) := by
  have hm := lookup_some_mem p a q0 h
  have hany : p.any (fun e => decide (e.1 = a)) = true := by simp; exact ⟨_, hm⟩
  simp only [setPending, hany, if_true, map_map]
  apply map_congr_left
  intro e he
  by_cases hea : e.1 = a <;> simp [hea]

theorem mem_setPending (p : List (Addr × List Req)) (a : Addr) (q q0 : List Req) (h : lookupPending p a = some q0)
    (e : Addr × List Req) (he : e ∈ setPending p a q) : (e ∈ p ∧ e.1 ≠ a) ∨ e = (a, q) := by
  have hm := lookup_some_mem p a q0 h
  have hany : p.any (fun e => decide (e.1 = a)) = true := by simp; exact ⟨_, hm⟩
  simp only [setPending, hany, if_true, mem_map] at he
  obtain ⟨e0, he0, rfl⟩ := he
  by_cases hea : e0.1 = a
  · right; simp [hea]
  · left; simp [hea, he0]

theorem Inv.base_congr {w : World} {σ : Static} {m : Mesh} {orig : List Pkt} {base base' : Addr → List Delivery}
    (h : Inv w σ m orig base) (e : ∀ j, base' j = base j) : Inv w σ m orig base' := by
  have : base' = base := funext e
  rw [this]; exact h


variable {w : World} {σ : Static} {m : Mesh} {orig : List Pkt} {base : Addr → List Delivery}

theorem Inv.dlv_case (h : Inv w σ m orig base) (k : Nat) (x : Addr) (p : Pkt) (hk : m.air[k]? = some (x, p))
    (res : Station × List Pkt) (hspec : RecvCase w (m.st x) p res) :
    ∃ orig', Inv w σ (m.act x res.1 (m.air.eraseIdx k) res.2) orig' base := by
  have hx : x ∈ m.ids := h.s.air_ids _ (mem_of_getElem? hk)
  have hst := h.s.stat x
  have hrm : AirRm m x (some p) (m.air.eraseIdx k) := Or.inr ⟨p, k, rfl, hk, rfl⟩
  have hpx := h.p x hx
  have hpold : ∀ e ∈ (m.st x).pending, PendReqs e ∧
      ((∃ e0 ∈ (m.st x).pending, e0.1 = e.1 ∧ ∀ p', (none : Option Pkt) = some p' → p'.kind = .lsRep x → e.1 ≠ p'.so)
       ∨ (e.1 ∈ m.ids ∧ e.1 ≠ x ∧ ∃ Q ∈ ([] : List Pkt), Q.kind = .lsReq e.1)) :=
    fun e he => ⟨(hpx.2 e he).1, Or.inl ⟨e, he, rfl, by simp⟩⟩
  cases hspec with
  | ignore hig =>
    refine ⟨orig ++ ([] : List Pkt).map core, Inv.base_congr
      (h.act x hx (m.st x) _ [] [] (some p) none [] (fun _ => []) (Same.refl _) (Nat.le_refl _) hrm
        (by simp) (by simp) (by simp) ?_ (by simp) (by simp) (by simp) ?_ (by simp) rfl (by simp) hpx.1 hpold)
      (by simp)⟩
    · intro p' hp'; cases hp'
      rcases hig with h1 | h1
      · right; left; rw [h1, hst.1]
      · right; right; exact h1.2
    · intro d
      simp only [Option.toList_some, Option.toList_none, flatMap_nil, count_nil, Nat.add_zero]
      by_cases hs : p.kind == .shb
      · have : p.so = x := by
          rcases hig with h1 | h1
          · rw [h1, hst.1]
          · exact absurd (by simpa using hs) h1.1
        simp [filter_cons, hs, dlvS_own _ _ _ _ this]
      · simp [filter_cons, hs]
  | shb s' hso hkind hsame hsn hseen hpend hdel =>
    refine ⟨orig ++ ([] : List Pkt).map core, Inv.base_congr
      (h.act x hx s' _ [] [] (some p) none (dlvS w x (σ.ports x) p) (fun _ => []) hsame (by omega) hrm
        (by rw [hdel, hst.1, hst.2.2]) (by simp [hseen]) (by simp) ?_ (by simp) (by simp) (by simp) ?_
        (by simp [hpend]) rfl (by simp) (by rw [hpend]; exact hpx.1) (by rw [hpend]; exact hpold))
      (by simp)⟩
    · intro p' hp'; cases hp'; left; exact hkind
    · intro d; simp [filter_cons, hkind]
  | plain s' out hso hkind hns hsame hsn hseen hpend hdel hfw hlk hnrq =>
    have hkb : (p.kind == Kind.shb) = false := by simpa using hkind
    refine ⟨orig ++ ([] : List Pkt).map core, Inv.base_congr
      (h.act x hx s' _ out [] (some p) (some p) (dlvS w x (σ.ports x) p) (fun _ => []) hsame (by omega) hrm
        (by rw [hdel, hst.1, hst.2.2]) (by simp [hseen]) ?_ ?_ (by simp) (by simp) ?_ ?_ ?_ rfl ?_
        (by rw [hpend]; exact hpx.1) ?_)
      (by simp)⟩
    · intro p' hp'; cases hp'; exact ⟨rfl, hkind, hns⟩
    · intro p' hp'; cases hp'; right; right; simp [hseen]
    · intro q hq _; left; exact ⟨p, rfl, forwardCopy_core p q (hfw q hq)⟩
    · intro d; simp [filter_cons, hkb]
    · intro j hj hjx d
      have : out.filter (fun p => p.kind == .shb) = [] := by
        simp only [filter_eq_nil_iff]
        intro q hq
        have := forwardCopy_core p q (hfw q hq)
        have hk2 : q.kind = p.kind := by have := congrArg Pkt.kind this; simpa using this
        simp [hk2, hkind]
      simp [this, hpend]
    · intro p' hp' hk'; cases hp'; rw [← hst.1] at hk'; exact absurd hk' hnrq
    · rw [hpend]
      intro e he
      refine ⟨(hpx.2 e he).1, Or.inl ⟨e, he, rfl, ?_⟩⟩
      intro p' hp' hk'; cases hp'
      rw [← hst.1] at hk'
      have := (lookup_none_iff _ _).mp (hlk hk') e he
      exact this
  | reply s' hso hkind hns hsame hsn hseen hpend hdel =>
    have hkb : (p.kind == Kind.shb) = false := by simp [hkind]
    have hR1 : (lsRepPkt (m.st x) p.so).so = x := by simp [lsRepPkt, hst.1]
    refine ⟨orig ++ ([lsRepPkt (m.st x) p.so]).map core, Inv.base_congr
      (h.act x hx s' _ [lsRepPkt (m.st x) p.so] [lsRepPkt (m.st x) p.so] (some p) (some p) [] (fun _ => []) hsame (by omega) hrm
        (by simp [hdel]) (by simp [hseen]) ?_ ?_ (by simp) ?_ ?_ ?_ ?_ rfl (by simp)
        (by rw [hpend]; exact hpx.1) ?_)
      (by simp)⟩
    · intro p' hp'; cases hp'; exact ⟨rfl, by simp [hkind], hns⟩
    · intro p' hp'; cases hp'; right; right; simp [hseen]
    · intro Q hQ; simp only [mem_singleton] at hQ; subst hQ
      exact ⟨hR1, by simp [lsRepPkt], by simp [lsRepPkt], by simp [lsRepPkt, hsn], by simp⟩
    · intro q hq _; right; exact hq
    · intro d
      simp [filter_cons, hkb, dlvS_nodata w x (σ.ports x) p (Or.inl ⟨_, hkind⟩)]
    · intro j hj hjx d
      have hz := dlvS_nodata w j (σ.ports j) (lsRepPkt (m.st x) p.so) (Or.inr ⟨_, rfl⟩)
      have hkR : ((lsRepPkt (m.st x) p.so).kind == Kind.shb) = false := by simp [lsRepPkt]
      simp [filter_cons, hpend, hz, hkR]
    · rw [hpend]
      intro e he
      refine ⟨(hpx.2 e he).1, Or.inl ⟨e, he, rfl, ?_⟩⟩
      intro p' hp' hk'; cases hp'; rw [hkind] at hk'; cases hk'
  | flush s2 q hso hkind hns hlk hsame2 hsn2 hseen2 hpend2 hdel2 =>
    have hkb : (p.kind == Kind.shb) = false := by simp [hkind]
    have hmem := lookup_some_mem _ _ _ hlk
    have hreqs := (hpx.2 _ hmem).1
    have hfs := flush_spec s2 p.so q (fun r hr => (hreqs r hr).1.2.2)
    obtain ⟨f1, f2, f3, f4, f5, f6⟩ := hfs
    have hsame := hsame2.trans f1
    have hs2a : s2.addr = x := by rw [hsame2.1, hst.1]
    have hs2p : s2.pos = σ.pos x := by rw [hsame2.2.1, hst.2.1]
    rw [f6]
    refine ⟨orig ++ (flushPkts s2 p.so s2.sn q).map core, Inv.base_congr
      (h.act x hx _ _ (flushPkts s2 p.so s2.sn q) (flushPkts s2 p.so s2.sn q) (some p) (some p) [] (fun _ => []) hsame (by omega) hrm
        (by simp [f5, hdel2]) (by simp [f3, hseen2]) ?_ ?_ (flushPkts_keys _ _ _ _) ?_ ?_ ?_ ?_ rfl ?_
        (by rw [f4, hpend2]; exact erasePending_nodup _ _ hpx.1) ?_)
      (by simp)⟩
    · intro p' hp'; cases hp'; exact ⟨rfl, by simp [hkind], hns⟩
    · intro p' hp'; cases hp'; right; right; simp [f3, hseen2]
    · intro Q hQ
      have := flushPkts_mem _ _ _ _ _ hQ
      exact ⟨by rw [this.1, hs2a], by simp [this.2.1], by omega, by omega, hQ⟩
    · intro q' hq' _; right; exact hq'
    · intro d
      simp [filter_cons, hkb, dlvS_nodata w x (σ.ports x) p (Or.inr ⟨_, hkind⟩)]
    · intro j hj hjx d
      have hns : (flushPkts s2 p.so s2.sn q).filter (fun p => p.kind == .shb) = [] := by
        simp only [filter_eq_nil_iff]
        intro q' hq'
        simp [(flushPkts_mem _ _ _ _ _ hq').2.1]
      have hE := count_bufExp_erase w x (σ.pos x) j (σ.ports j) _ _ _ hlk hpx.1 d
      rw [hns, flushPkts_dlv w s2 p.so _ q j (σ.ports j) hreqs, f4, hpend2, hs2a, hs2p]
      simp only [flatMap_nil, count_nil, Nat.add_zero]
      omega
    · intro p' hp' hk'; cases hp'; rw [hkind] at hk'; cases hk'
    · rw [f4, hpend2]
      intro e he
      have := mem_erasePending _ _ _ he
      refine ⟨(hpx.2 e this.1).1, Or.inl ⟨e, this.1, rfl, ?_⟩⟩
      intro p' hp' _; cases hp'; exact this.2



theorem Inv.req_case (h : Inv w σ m orig base) (x : Addr) (hx : x ∈ m.ids) (r : Req) (hr : RqOK r)
    (hde : ∀ de, r.transport = .guc de → de ∈ m.ids ∧ de ≠ x)
    (res : Station × List Pkt) (hspec : ReqCase (m.st x) r res) :
    ∃ orig', Inv w σ (m.act x res.1 m.air res.2) orig'
      (fun j => base j ++ expS w x (σ.pos x) j (σ.ports j) r) := by
  have hst := h.s.stat x
  have hrm : AirRm m x none m.air := Or.inl ⟨rfl, rfl⟩
  have hpx := h.p x hx
  have hpold : ∀ (news : List Pkt), ∀ e ∈ (m.st x).pending, PendReqs e ∧
      ((∃ e0 ∈ (m.st x).pending, e0.1 = e.1 ∧ ∀ p', (none : Option Pkt) = some p' → p'.kind = .lsRep x → e.1 ≠ p'.so)
       ∨ (e.1 ∈ m.ids ∧ e.1 ≠ x ∧ ∃ Q ∈ news, Q.kind = .lsReq e.1)) :=
    fun news e he => ⟨(hpx.2 e he).1, Or.inl ⟨e, he, rfl, by simp⟩⟩
  have hdata : ∀ sn j, dlvS w j (σ.ports j) (dataPkt (m.st x) r sn) = expS w x (σ.pos x) j (σ.ports j) r := by
    intro sn j; rw [dlvS_dataPkt w _ r sn j _ hr.1 hr.2.1, hst.1, hst.2.1]
  cases hspec with
  | shb ht =>
    have hk : (dataPkt (m.st x) r 0).kind = .shb := by simp [dataPkt, ht, kindOf]
    refine ⟨orig ++ ([] : List Pkt).map core,
      h.act x hx (m.st x) _ [dataPkt (m.st x) r 0] [] none none [] (fun j => expS w x (σ.pos x) j (σ.ports j) r)
        (Same.refl _) (Nat.le_refl _) hrm
        (by simp) (by simp) (by simp) (by simp) (by simp) (by simp) ?_ (by simp) ?_ (expS_self _ _ _ _ _) (by simp)
        hpx.1 (hpold _)⟩
    · intro q hq hkq; simp only [mem_singleton] at hq; subst hq; exact absurd hk hkq
    · intro j hj hjx d
      simp [filter_cons, hk, hdata]
      omega
  | imm s' ht hsame hsn hseen hpend hdel _ =>
    have hk : (dataPkt (m.st x) r ((m.st x).sn + 1)).kind ≠ .shb := by simp [dataPkt]; exact kindOf_ne_shb _ ht
    have hkb : ((dataPkt (m.st x) r ((m.st x).sn + 1)).kind == Kind.shb) = false := by simpa using hk
    refine ⟨orig ++ ([dataPkt (m.st x) r ((m.st x).sn + 1)]).map core,
      h.act x hx s' _ [dataPkt (m.st x) r ((m.st x).sn + 1)] [dataPkt (m.st x) r ((m.st x).sn + 1)] none none []
        (fun j => expS w x (σ.pos x) j (σ.ports j) r) hsame (by omega) hrm
        (by simp [hdel]) (by simp [hseen]) (by simp) (by simp) (by simp) ?_ ?_ (by simp) ?_ (expS_self _ _ _ _ _) (by simp)
        (by rw [hpend]; exact hpx.1) (by rw [hpend]; exact hpold _)⟩
    · intro Q hQ; simp only [mem_singleton] at hQ; subst hQ
      exact ⟨by simp [dataPkt, hst.1], hk, by simp [dataPkt], by simp [dataPkt, hsn], by simp⟩
    · intro q hq _; right; exact hq
    · intro j hj hjx d
      simp [filter_cons, hkb, hdata, hpend]
      omega
  | queue s' de q ht hlk hsame hsn hseen hpend hdel =>
    have hmem := lookup_some_mem _ _ _ hlk
    refine ⟨orig ++ ([] : List Pkt).map core,
      h.act x hx s' _ [] [] none none [] (fun j => expS w x (σ.pos x) j (σ.ports j) r) hsame (by omega) hrm
        (by simp [hdel]) (by simp [hseen]) (by simp) (by simp) (by simp) (by simp) (by simp) (by simp) ?_
        (expS_self _ _ _ _ _) (by simp)
        (by rw [hpend, setPending_keys _ _ _ _ hlk]; exact hpx.1) ?_⟩
    · intro j hj hjx d
      rw [hpend, count_bufExp_set w x (σ.pos x) j (σ.ports j) _ de q r hlk hpx.1 d]
      simp
    · rw [hpend]
      intro e he
      rcases mem_setPending _ _ _ _ hlk e he with ⟨h1, h2⟩ | h1
      · exact hpold _ e h1
      · subst h1
        refine ⟨?_, Or.inl ⟨(de, q), hmem, rfl, by simp⟩⟩
        intro r' hr'
        rcases mem_append.mp hr' with h2 | h2
        · exact (hpx.2 _ hmem).1 r' h2
        · simp only [mem_singleton] at h2; subst h2; exact ⟨hr, ht⟩
  | start s' de ht hlk hsame hsn hseen hpend hdel =>
    have hk : (lsReqPkt (m.st x) de).kind = .lsReq de := rfl
    have hkb : ((lsReqPkt (m.st x) de).kind == Kind.shb) = false := by simp [lsReqPkt]
    have hz : ∀ j, dlvS w j (σ.ports j) (lsReqPkt (m.st x) de) = [] :=
      fun j => dlvS_nodata w j (σ.ports j) _ (Or.inl ⟨_, rfl⟩)
    have hnew := setPending_new _ de [r] hlk
    refine ⟨orig ++ ([lsReqPkt (m.st x) de]).map core,
      h.act x hx s' _ [lsReqPkt (m.st x) de] [lsReqPkt (m.st x) de] none none []
        (fun j => expS w x (σ.pos x) j (σ.ports j) r) hsame (by omega) hrm
        (by simp [hdel]) (by simp [hseen]) (by simp) (by simp) (by simp) ?_ ?_ (by simp) ?_ (expS_self _ _ _ _ _) (by simp)
        ?_ ?_⟩
    · intro Q hQ; simp only [mem_singleton] at hQ; subst hQ
      exact ⟨by simp [lsReqPkt, hst.1], by simp [lsReqPkt], by simp [lsReqPkt], by simp [lsReqPkt, hsn], by simp⟩
    · intro q hq _; right; exact hq
    · intro j hj hjx d
      rw [hpend, hnew]
      simp [filter_cons, hkb, hz, bufExp, count_append]
    · rw [hpend, hnew, map_append, nodup_append]
      refine ⟨hpx.1, by simp, ?_⟩
      intro a ha b hb
      simp only [map_cons, map_nil, mem_singleton] at hb
      obtain ⟨e, he, rfl⟩ := mem_map.mp ha
      rw [hb]
      exact (lookup_none_iff _ _).mp hlk e he
    · rw [hpend, hnew]
      intro e he
      rcases mem_append.mp he with h1 | h1
      · exact hpold _ e h1
      · simp only [mem_singleton] at h1; subst h1
        refine ⟨?_, Or.inr ⟨(hde de ht).1, (hde de ht).2, _, by simp, hk⟩⟩
        intro r' hr'; simp only [mem_singleton] at hr'; subst hr'; exact ⟨hr, ht⟩

/-- events in the scope of the theorem -/
def EvOK (m : Mesh) : Ev → Prop
  | .req i r => RqOK r ∧ ∀ de, r.transport = .guc de → de ∈ m.ids ∧ de ≠ i
  | .dlv _ => True

/-- what the property prescribes station `j` to be handed because of event `ev` -/
def extraOf (w : World) (σ : Static) (m : Mesh) : Ev → Addr → List Delivery
  | .req i r, j => if m.ids.contains i then expS w i (σ.pos i) j (σ.ports j) r else []
  | .dlv _, _ => []

theorem Inv.step (h : Inv w σ m orig base) (ev : Ev) (hev : EvOK m ev) :
    ∃ orig', Inv w σ (m.step w ev) orig' (fun j => base j ++ extraOf w σ m ev j) := by
  cases ev with
  | req i r =>
    by_cases hi : m.ids.contains i = true
    · have hx : i ∈ m.ids := by simpa using hi
      obtain ⟨o, ho⟩ := h.req_case i hx r hev.1 hev.2 _ (request_spec (m.st i) r hev.1.2.2)
      refine ⟨o, ?_⟩
      simp only [Mesh.step, hi, if_true, extraOf]
      exact ho
    · refine ⟨orig, ?_⟩
      simp only [Mesh.step, hi, extraOf]
      exact h.base_congr (by simp)
  | dlv k =>
    cases hk : m.air[k]? with
    | none =>
      refine ⟨orig, ?_⟩
      simp only [Mesh.step, hk, extraOf]
      exact h.base_congr (by simp)
    | some f =>
      obtain ⟨x, p⟩ := f
      obtain ⟨o, ho⟩ := h.dlv_case k x p hk _ (receive_spec w (m.st x) p)
      refine ⟨o, ?_⟩
      simp only [Mesh.step, hk, extraOf]
      exact ho.base_congr (by simp)


end FlexModel.Net

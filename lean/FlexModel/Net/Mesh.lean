import FlexModel.Net.Stack
/-!
n stations in mutual radio range on an ASYNCHRONOUS single-hop broadcast medium (C01, n-station theorem and the
executable model of the correspondence check).

Every frame a station transmits is put in the air once per OTHER station; the medium delivers the pending
(receiver, frame) pairs one at a time in an order chosen by the schedule — any order: across receivers, across
senders and (unless the schedule is restricted) even between two frames of one sender.  Each pair is delivered
exactly once.  Forwarded copies, location-service requests/replies and the packets flushed from a location-service
buffer are transmitted the same way.

Core Lean only.
-/
namespace FlexModel.Net

/-- the mesh: station identities (GN addresses), the station states, the (receiver, frame) pairs in the air -/
structure Mesh where
  ids : List Addr
  st : Addr → Station
  air : List (Addr × Pkt) := []

def upd (f : Addr → Station) (a : Addr) (s : Station) : Addr → Station := fun x => if x = a then s else f x

/-- the frames `ps` transmitted by `snd`, one copy per other station -/
def bcast (ids : List Addr) (snd : Addr) (ps : List Pkt) : List (Addr × Pkt) :=
  ps.flatMap (fun p => (ids.filter (fun k => k != snd)).map (fun k => (k, p)))

/-- what can happen: station `i` is handed request `r` by its upper layer (at any time, also while frames of
earlier requests are still in the air or a location-service lookup is pending), or the medium delivers the `k`-th
pending (receiver, frame) pair -/
inductive Ev
  | req (i : Addr) (r : Req)
  | dlv (k : Nat)
deriving Repr

def Mesh.step (w : World) (m : Mesh) : Ev → Mesh
  | .req i r =>
    if m.ids.contains i then
      let x := request (m.st i) r
      { m with st := upd m.st i x.1, air := m.air ++ bcast m.ids i x.2 }
    else m
  | .dlv k =>
    match m.air[k]? with
    | none => m
    | some f =>
      let x := receive w (m.st f.1) f.2
      { m with st := upd m.st f.1 x.1, air := m.air.eraseIdx k ++ bcast m.ids f.1 x.2 }

def Mesh.run (w : World) (m : Mesh) (evs : List Ev) : Mesh := evs.foldl (Mesh.step w) m

/-- a mesh from a list of stations (looked up by GN address; addresses that belong to no station map to an
inert placeholder that is never stepped) -/
def Mesh.ofList (sts : List Station) : Mesh :=
  { ids := sts.map (·.addr)
    st := fun a => (sts.find? (fun s => s.addr = a)).getD { addr := a, pos := 0 } }

def Mesh.toList (m : Mesh) : List Station := m.ids.map m.st

/-! ### Exchanges: a request followed by the deliveries of a schedule -/

/-- one programme step: request `req` at station `snd`, then the medium delivers pending pairs in the order
given by `sched` (indices into the list of pairs in the air at that moment) -/
structure Exch where
  snd : Addr
  req : Req
  sched : List Nat
deriving Repr

def Exch.evs (x : Exch) : List Ev := .req x.snd x.req :: x.sched.map .dlv

def Mesh.runProg (w : World) (m : Mesh) (prog : List Exch) : Mesh := prog.foldl (fun m x => m.run w x.evs) m

/-- the schedules of a programme are complete: after each exchange nothing is left in the air -/
def Complete (w : World) (m : Mesh) : List Exch → Prop
  | [] => True
  | x :: xs => (m.run w x.evs).air = [] ∧ Complete w (m.run w x.evs) xs

/-! ### The executable mesh of the driver: partial radio range, duplicate-packet ring, sequence-number wrap

The theorems are about `Mesh.step` (everybody hears everybody, unbounded duplicate memory, unbounded sequence
numbers).  The driver runs `Mesh.stepG`, the same step function with three more parameters: who hears whom, the
station semantics (`request`/`receive` or their ring variants).  `stepG_full` (MeshRun) shows that `stepG` with full
range and the plain semantics IS `Mesh.step`; `ring_*` theorems relate the ring variant to the plain one. -/

def bcastR (reach : Addr → Addr → Bool) (ids : List Addr) (snd : Addr) (ps : List Pkt) : List (Addr × Pkt) :=
  ps.flatMap (fun p => (ids.filter (fun k => k != snd && reach snd k)).map (fun k => (k, p)))

/-- station semantics: source operations and receive operation -/
structure Sem where
  rq : Station → Req → Station × List Pkt
  rc : Station → Pkt → Station × List Pkt

def Mesh.stepG (sem : Sem) (reach : Addr → Addr → Bool) (m : Mesh) : Ev → Mesh
  | .req i r =>
    if m.ids.contains i then
      let x := sem.rq (m.st i) r
      { m with st := upd m.st i x.1, air := m.air ++ bcastR reach m.ids i x.2 }
    else m
  | .dlv k =>
    match m.air[k]? with
    | none => m
    | some f =>
      let x := sem.rc (m.st f.1) f.2
      { m with st := upd m.st f.1 x.1, air := m.air.eraseIdx k ++ bcastR reach m.ids f.1 x.2 }

def plainSem (w : World) : Sem := { rq := request, rc := receive w }

/-- keep only the last `L` remembered sequence numbers of source `so` (the per-source duplicate packet list of the
location table entry is a ring of `itsGnDPLLength` entries) -/
def trimSeen (L : Nat) (so : Addr) (seen : List (Addr × Nat)) : List (Addr × Nat) :=
  let mine := seen.filter (fun e => e.1 == so)
  if mine.length ≤ L then seen else
  match mine.head? with
  | none => seen
  | some old => seen.erase old

/-- sequence numbers are allocated modulo `M` (`get_sequence_number`: `(sn + 1) % (2**16 - 1)`): reduce the
station's counter and the sequence numbers of the packets it originates -/
def wrapSn (M : Nat) (x : Station × List Pkt) : Station × List Pkt :=
  ({ x.1 with sn := x.1.sn % M }, x.2.map (fun q => if q.so = x.1.addr then { q with sn := q.sn % M } else q))

/-- the station semantics of the code: duplicate ring of length `L`, sequence numbers modulo `M` -/
def ringSem (w : World) (L M : Nat) : Sem :=
  { rq := fun s r => wrapSn M (request s r)
    rc := fun s p => let x := receive w s p; wrapSn M ({ x.1 with seen := trimSeen L p.so x.1.seen }, x.2) }

/-- location-service retransmission timer of station `i` for a pending lookup of `de` (driver only) -/
def lsRetransmit (s : Station) (de : Addr) : Station × List Pkt :=
  match lookupPending s.pending de with
  | none => (s, [])
  | some _ =>
    let sn := s.sn + 1
    ({ s with sn := sn },
      [{ so := s.addr, soPos := s.pos, sn := sn, kind := .lsReq de, btpB := false, rhl := s.defaultHops, data := [] }])

def Mesh.retx (M : Nat) (reach : Addr → Addr → Bool) (m : Mesh) (i de : Addr) : Mesh :=
  if m.ids.contains i then
    let x := wrapSn M (lsRetransmit (m.st i) de)
    { m with st := upd m.st i x.1, air := m.air ++ bcastR reach m.ids i x.2 }
  else m

/-- pseudo-random complete schedule used by the driver: deliver pending pairs picked by a linear congruential
generator (seed 0: always the oldest pair, i.e. FIFO) until the air is empty or the fuel is used up; returns the
schedule it followed -/
def drain (sem : Sem) (reach : Addr → Addr → Bool) : Nat → Nat → Mesh → Mesh × List Nat
  | 0, _, m => (m, [])
  | fuel + 1, seed, m =>
    if m.air.isEmpty then (m, []) else
    let seed' := if seed = 0 then 0 else (seed * 1103515245 + 12345) % 2147483648
    let k := (seed' / 65536) % m.air.length
    let r := drain sem reach fuel (if seed' = 0 ∧ seed ≠ 0 then 1 else seed') (m.stepG sem reach (.dlv k))
    (r.1, k :: r.2)

instance decComplete (w : World) : (m : Mesh) → (prog : List Exch) → Decidable (Complete w m prog)
  | _, [] => isTrue trivial
  | m, x :: xs => by
    unfold Complete
    exact @instDecidableAnd _ _ _ (decComplete w _ xs)

def fullRange : Addr → Addr → Bool := fun _ _ => true

/-- a programme with complete schedules computed by `drain` (one seed per request); used for the non-vacuity
examples and by the driver -/
def mkProg (w : World) (fuel : Nat) : Mesh → List (Addr × Req × Nat) → List Exch
  | _, [] => []
  | m, (i, r, seed) :: rest =>
    let d := drain (plainSem w) fullRange fuel seed (m.stepG (plainSem w) fullRange (.req i r))
    { snd := i, req := r, sched := d.2 } :: mkProg w fuel d.1 rest

/-- what the property prescribes station `b` to be handed for request `r` issued at the station with address `i` -/
def expectedFrom (w : World) (sts : List Station) (i : Addr) (b : Station) (r : Req) : List Delivery :=
  match sts.find? (fun s => s.addr = i) with
  | some a => if a.addr = b.addr then [] else expected w a b r
  | none => []

end FlexModel.Net

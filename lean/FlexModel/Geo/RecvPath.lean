/-
Byte-level model of the GeoNetworking receive dispatch (`Router.process_basic_header`,
`process_common_header`, the header-decoding prologue of every `gn_data_indicate_*` handler) and of the
two link-layer receive loops (`RawLinkLayer.receive`, `CV2XLinkLayer.callback_handler_loop`) with
*explicit exception kinds*.  Which exception classes each `except` clause names is NOT written here: it is
regenerated from the source into `Generated/Except.lean` on every run.

Core Lean only.
-/
import Generated.Enums

namespace FlexModel.Geo.Recv

/-- exception classes that the modelled code can raise (`opaque` = anything raised by third-party or
upper-layer code: asn1tools, ecdsa, facility callbacks — assumed to derive from `Exception`). -/
inductive Exc
  | decodeError | decapError | valueError | notImplementedError | zeroDivisionError | opaque
deriving DecidableEq, Repr

def Exc.name : Exc → String
  | .decodeError => "DecodeError"
  | .decapError => "DecapError"
  | .valueError => "ValueError"
  | .notImplementedError => "NotImplementedError"
  | .zeroDivisionError => "ZeroDivisionError"
  | .opaque => "Exception"

inductive Handler
  | beacon | shb | tsb | gbc | gac | guc | lsRequest | lsReply
deriving DecidableEq, Repr

def Handler.name : Handler → String
  | .beacon => "beacon" | .shb => "shb" | .tsb => "tsb" | .gbc => "gbc" | .gac => "gac"
  | .guc => "guc" | .lsRequest => "ls_request" | .lsReply => "ls_reply"

/-- outcome of the stateless prologue of the receive path for one frame -/
inductive Outcome
  | raised (e : Exc)        -- an exception leaves `process_basic_header` before any router state was touched
  | dropped                 -- silently discarded before any router state was touched
  | secured                 -- handed to the verify service (C03/C05)
  | handled (h : Handler)   -- headers well-formed: the stateful part of handler `h` (DAD, LocT, delivery, forwarding) runs
deriving DecidableEq, Repr

structure Cfg where
  version : Nat := 1
  securityEnabled : Bool := false
  hasVerifyService : Bool := false

def byteAt (f : List Nat) (i : Nat) : Nat := f.getD i 0

/-- big-endian 16-bit field -/
def u16 (f : List Nat) (i : Nat) : Nat := byteAt f i * 256 + byteAt f (i + 1)

/-- station-type field of a GN address whose first octet is `b` (`(b & 0x7C) >> 2`); `ST(...)` raises
`ValueError` outside the enum -/
def stOk (b : Nat) : Bool := Generated.Enums.ST_values.contains ((b % 128) / 4)

/-- header sub-type check performed by `CommonHeader.decode_from_int` (enum constructor per header type) -/
def hstOk (ht hst : Nat) : Bool :=
  if ht = 4 then Generated.Enums.GeoBroadcastHST_values.contains hst
  else if ht = 5 then Generated.Enums.TopoBroadcastHST_values.contains hst
  else if ht = 3 then Generated.Enums.GeoAnycastHST_values.contains hst
  else if ht = 6 then Generated.Enums.LocationServiceHST_values.contains hst
  else Generated.Enums.HeaderSubType_values.contains hst

/-- prologue of the GBC/GAC handlers on the packet body `p` (after basic+common header):
44-octet extended header, SO PV station type, then the geometric function (division by the semi-axes). -/
def geoPrologue (h : Handler) (hst : Nat) (p : List Nat) : Outcome :=
  if p.length < 44 then .raised .decodeError
  else if !stOk (byteAt p 4) then .raised .valueError
  else
    let a := u16 p 36
    let b := u16 p 38
    if a = 0 then .raised .zeroDivisionError
    else if hst ≠ 0 ∧ b = 0 then .raised .zeroDivisionError
    else .handled h

/-- the common-header stage (`process_common_header`) on `p` = frame after the basic header -/
def commonStage (rhl : Nat) (p : List Nat) : Outcome :=
  if p.length < 8 then .raised .decodeError
  else
    let nh := byteAt p 0 / 16
    let ht := byteAt p 1 / 16
    let hst := byteAt p 1 % 16
    let mhl := byteAt p 6
    let body := p.drop 8
    if !Generated.Enums.CommonNH_values.contains nh then .raised .valueError
    else if !Generated.Enums.HeaderType_values.contains ht then .raised .valueError
    else if !hstOk ht hst then .raised .valueError
    else if mhl < rhl then .raised .decapError
    else if ht = 0 then .raised .notImplementedError
    else if ht = 1 then
      -- beacon: LongPositionVector.decode inside the handler's try (DecodeError caught there)
      if body.length < 24 then .dropped
      else if !stOk (byteAt body 0) then .raised .valueError
      else .handled .beacon
    else if ht = 2 then
      if body.length < 48 then .raised .decodeError
      else if !stOk (byteAt body 4) then .raised .valueError
      else if !stOk (byteAt body 28) then .raised .valueError
      else .handled .guc
    else if ht = 3 then geoPrologue .gac hst body
    else if ht = 4 then geoPrologue .gbc hst body
    else if ht = 5 then
      if hst = 0 then
        if body.length < 24 then .dropped
        else if !stOk (byteAt body 0) then .raised .valueError
        else .handled .shb
      else if hst = 1 then
        if body.length < 28 then .raised .decodeError
        else if !stOk (byteAt body 4) then .raised .valueError
        else .handled .tsb
      else .raised .notImplementedError
    else if ht = 6 then
      if hst = 0 then
        if body.length < 36 then .raised .decodeError
        else if !stOk (byteAt body 4) then .raised .valueError
        else if !stOk (byteAt body 28) then .raised .valueError
        else .handled .lsRequest
      else if hst = 1 then
        if body.length < 48 then .raised .decodeError
        else if !stOk (byteAt body 4) then .raised .valueError
        else if !stOk (byteAt body 28) then .raised .valueError
        else .handled .lsReply
      else .raised .notImplementedError
    else .raised .notImplementedError

/-- `process_basic_header` on the whole frame -/
def classify (cfg : Cfg) (f : List Nat) : Outcome :=
  if f.length < 4 then .raised .decodeError
  else
    let version := byteAt f 0 / 16
    let nh := byteAt f 0 % 16
    let rhl := byteAt f 3
    if !Generated.Enums.BasicNH_values.contains nh then .raised .valueError
    else if version ≠ cfg.version then .raised .notImplementedError
    else if nh = 1 then
      if cfg.securityEnabled then .dropped else commonStage rhl (f.drop 4)
    else if nh = 2 then
      if cfg.hasVerifyService then .secured else .dropped
    else .raised .notImplementedError

/-! ### Receive loops -/

/-- Python `except` semantics: an exception is caught by a clause naming any class of its MRO.
`mro` maps the model's exception kinds to their class names (generated from the running interpreter). -/
def caught (mro : Exc → List String) (catches : List String) (e : Exc) : Bool :=
  (mro e).any (fun c => catches.contains c)

inductive LoopResult (σ α : Type)
  | continue (st : σ) (acts : List α)
  | dead (e : Exc)

/-- one iteration of a receive loop around an arbitrary frame processor `recv`
(`recv` returns the state reached, the actions performed and the exception that escaped, if any) -/
def loopStep {σ α φ : Type} (mro : Exc → List String) (catches : List String)
    (recv : σ → φ → σ × List α × Option Exc) (st : σ) (f : φ) : LoopResult σ α :=
  match recv st f with
  | (st', acts, none) => .continue st' acts
  | (st', acts, some e) => if caught mro catches e then .continue st' acts else .dead e

/-- run the loop over a list of frames; `none` = the receiving thread died -/
def loopRun {σ α φ : Type} (mro : Exc → List String) (catches : List String)
    (recv : σ → φ → σ × List α × Option Exc) : σ → List φ → Option (σ × List α)
  | st, [] => some (st, [])
  | st, f :: fs =>
    match loopStep mro catches recv st f with
    | .dead _ => none
    | .continue st' acts =>
      match loopRun mro catches recv st' fs with
      | none => none
      | some (st'', acts') => some (st'', acts ++ acts')

/-- the GN receive function built from the stateless prologue and an arbitrary stateful handler part -/
def recvGN {σ α : Type} (cfg : Cfg) (handle : σ → Handler → List Nat → σ × List α × Option Exc)
    (verify : σ → List Nat → σ × List α × Option Exc) (st : σ) (f : List Nat) : σ × List α × Option Exc :=
  match classify cfg f with
  | .raised e => (st, [], some e)
  | .dropped => (st, [], none)
  | .secured => verify st f
  | .handled h => handle st h f

/-- MAC filter of `RawLinkLayer.receive`: frames addressed to the own MAC, or broadcast frames not sent by
the station itself, are passed up; everything else is ignored. -/
def macAccept (own dst src : List Nat) : Bool :=
  if dst = own then true
  else if dst = [255, 255, 255, 255, 255, 255] ∧ src ≠ own then true
  else false

end FlexModel.Geo.Recv

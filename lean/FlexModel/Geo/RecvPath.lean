/-
Byte-level model of the GeoNetworking receive dispatch (`Router.process_basic_header`,
`process_common_header`, the header-decoding prologue of every `gn_data_indicate_*` handler) and of the
two link-layer receive loops (`RawLinkLayer.receive`, `CV2XLinkLayer.callback_handler_loop`) with
*explicit exception kinds*.  Which exception classes each `except` clause names is NOT written here: it is
regenerated from the source into `Generated/Except.lean` on every run.

Core Lean only.
-/
import Generated.Enums

namespace FlexModel.Geo.Recv

/-- exception classes that the modelled code can raise.
`stdoutError`: what `print` raises when stdout is closed or broken (`BrokenPipeError`, an `OSError`) - a fault of the
environment, raised INSIDE an except handler that reports with `print`.
`listed i`: the i-th class of the generated table `Generated.Except.raiseTable` = every class named by a `raise`
statement in the packages on the receive path (flexstack, asn1tools, ecdsa: ast pass) plus every class observed
by the fuzzing runs; an index outside the table stands for `Exception` itself. -/
inductive Exc
  | decodeError | decapError | valueError | notImplementedError | zeroDivisionError | stdoutError
  | listed (i : Nat)
deriving DecidableEq, Repr

def Exc.name : Exc → String
  | .decodeError => "DecodeError"
  | .decapError => "DecapError"
  | .valueError => "ValueError"
  | .notImplementedError => "NotImplementedError"
  | .zeroDivisionError => "ZeroDivisionError"
  | .stdoutError => "BrokenPipeError"
  | .listed _ => "Exception"

inductive Handler
  | beacon | shb | tsb | gbc | gac | guc | lsRequest | lsReply
deriving DecidableEq, Repr

def Handler.name : Handler → String
  | .beacon => "beacon" | .shb => "shb" | .tsb => "tsb" | .gbc => "gbc" | .gac => "gac"
  | .guc => "guc" | .lsRequest => "ls_request" | .lsReply => "ls_reply"

/-- outcome of the stateless prologue of the receive path for one frame -/
inductive Outcome
  | raised (e : Exc)        -- an exception leaves `process_basic_header` before any router state was touched
  | dropped                 -- silently discarded before any router state was touched
  | secured                 -- handed to the verify service (C03/C05)
  | handled (h : Handler)   -- headers well-formed: the stateful part of handler `h` (DAD, LocT, delivery, forwarding) runs
deriving DecidableEq, Repr

structure Cfg where
  version : Nat := 1
  securityEnabled : Bool := false
  hasVerifyService : Bool := false

def byteAt (f : List Nat) (i : Nat) : Nat := f.getD i 0

/-- big-endian 16-bit field -/
def u16 (f : List Nat) (i : Nat) : Nat := byteAt f i * 256 + byteAt f (i + 1)

/-- station-type field of a GN address whose first octet is `b` (`(b & 0x7C) >> 2`); `ST(...)` raises
`ValueError` outside the enum -/
def stOk (b : Nat) : Bool := Generated.Enums.ST_values.contains ((b % 128) / 4)

/-- header sub-type check performed by `CommonHeader.decode_from_int` (enum constructor per header type) -/
def hstOk (ht hst : Nat) : Bool :=
  if ht = 4 then Generated.Enums.GeoBroadcastHST_values.contains hst
  else if ht = 5 then Generated.Enums.TopoBroadcastHST_values.contains hst
  else if ht = 3 then Generated.Enums.GeoAnycastHST_values.contains hst
  else if ht = 6 then Generated.Enums.LocationServiceHST_values.contains hst
  else Generated.Enums.HeaderSubType_values.contains hst

/-- prologue of the GBC/GAC handlers on the packet body `p` (after basic+common header):
44-octet extended header, SO PV station type, then the geometric function (division by the semi-axes). -/
def geoPrologue (h : Handler) (hst : Nat) (p : List Nat) : Outcome :=
  if p.length < 44 then .raised .decodeError
  else if !stOk (byteAt p 4) then .raised .valueError
  else
    let a := u16 p 36
    let b := u16 p 38
    if a = 0 then .raised .zeroDivisionError
    else if hst ≠ 0 ∧ b = 0 then .raised .zeroDivisionError
    else .handled h

/-- the common-header stage (`process_common_header`) on `p` = frame after the basic header -/
def commonStage (rhl : Nat) (p : List Nat) : Outcome :=
  if p.length < 8 then .raised .decodeError
  else
    let nh := byteAt p 0 / 16
    let ht := byteAt p 1 / 16
    let hst := byteAt p 1 % 16
    let mhl := byteAt p 6
    let body := p.drop 8
    if !Generated.Enums.CommonNH_values.contains nh then .raised .valueError
    else if !Generated.Enums.HeaderType_values.contains ht then .raised .valueError
    else if !hstOk ht hst then .raised .valueError
    else if mhl < rhl then .raised .decapError
    else if ht = 0 then .raised .notImplementedError
    else if ht = 1 then
      -- beacon: LongPositionVector.decode inside the handler's try (DecodeError caught there)
      if body.length < 24 then .dropped
      else if !stOk (byteAt body 0) then .raised .valueError
      else .handled .beacon
    else if ht = 2 then
      if body.length < 48 then .raised .decodeError
      else if !stOk (byteAt body 4) then .raised .valueError
      else if !stOk (byteAt body 28) then .raised .valueError
      else .handled .guc
    else if ht = 3 then geoPrologue .gac hst body
    else if ht = 4 then geoPrologue .gbc hst body
    else if ht = 5 then
      if hst = 0 then
        if body.length < 24 then .dropped
        else if !stOk (byteAt body 0) then .raised .valueError
        else .handled .shb
      else if hst = 1 then
        if body.length < 28 then .raised .decodeError
        else if !stOk (byteAt body 4) then .raised .valueError
        else .handled .tsb
      else .raised .notImplementedError
    else if ht = 6 then
      if hst = 0 then
        if body.length < 36 then .raised .decodeError
        else if !stOk (byteAt body 4) then .raised .valueError
        else if !stOk (byteAt body 28) then .raised .valueError
        else .handled .lsRequest
      else if hst = 1 then
        if body.length < 48 then .raised .decodeError
        else if !stOk (byteAt body 4) then .raised .valueError
        else if !stOk (byteAt body 28) then .raised .valueError
        else .handled .lsReply
      else .raised .notImplementedError
    else .raised .notImplementedError

/-- `process_basic_header` on the whole frame -/
def classify (cfg : Cfg) (f : List Nat) : Outcome :=
  if f.length < 4 then .raised .decodeError
  else
    let version := byteAt f 0 / 16
    let nh := byteAt f 0 % 16
    let rhl := byteAt f 3
    if !Generated.Enums.BasicNH_values.contains nh then .raised .valueError
    else if version ≠ cfg.version then .raised .notImplementedError
    else if nh = 1 then
      if cfg.securityEnabled then .dropped else commonStage rhl (f.drop 4)
    else if nh = 2 then
      if cfg.hasVerifyService then .secured else .dropped
    else .raised .notImplementedError

/-! ### Receive loops -/

/-- Python `except` semantics: an exception is caught by a clause naming any class of its MRO.
`mro` maps the model's exception kinds to their class names (generated from the running interpreter). -/
def caught (mro : Exc → List String) (catches : List String) (e : Exc) : Bool :=
  (mro e).any (fun c => catches.contains c)

/-- what the body of a catching `except` handler does (read from the source by `gen_except.py`) -/
inductive HandlerKind
  | safe       -- only allow-listed statements that cannot raise, break or return: logging calls, `pass`, `continue`
  | printing   -- allow-listed statements plus `print(...)`: raises iff stdout is closed / broken
  | exits      -- anything else (`break`, `return`, `raise`, unknown statements): the loop does not continue
deriving DecidableEq, Repr

/-- shape of the `try` statement that guards the call of the frame processor, regenerated from the source -/
structure LoopShape where
  /-- class names of the handlers of the innermost `try` whose body calls the frame processor -/
  catches : List String
  /-- that `try` is (transitively) inside the body of the function's `while` loop: catching continues the loop.
  (A `try` AROUND the loop would catch the exception and leave the loop.) -/
  inWhile : Bool
  handler : HandlerKind
deriving DecidableEq, Repr

inductive LoopResult (σ α : Type)
  | continue (st : σ) (acts : List α)
  | dead (e : Exc)

/-- does the loop survive exception `e` of a frame received while stdout is `broken`? -/
def survives (mro : Exc → List String) (sh : LoopShape) (e : Exc) (broken : Bool) : Bool :=
  sh.inWhile && caught mro sh.catches e &&
    (match sh.handler with
     | .safe => true
     | .printing => !broken
     | .exits => false)

/-- one iteration of a receive loop around an arbitrary frame processor `recv`
(`recv` returns the state reached, the actions performed and the exception that escaped, if any);
`broken f` = stdout is closed / broken while frame `f` is processed (fault input) -/
def loopStep {σ α φ : Type} (mro : Exc → List String) (sh : LoopShape) (broken : φ → Bool)
    (recv : σ → φ → σ × List α × Option Exc) (st : σ) (f : φ) : LoopResult σ α :=
  match recv st f with
  | (st', acts, none) => .continue st' acts
  | (st', acts, some e) =>
    if survives mro sh e (broken f) then .continue st' acts
    else .dead (if sh.inWhile && caught mro sh.catches e then .stdoutError else e)

/-- run the loop over a list of frames; `none` = the receiving thread died -/
def loopRun {σ α φ : Type} (mro : Exc → List String) (sh : LoopShape) (broken : φ → Bool)
    (recv : σ → φ → σ × List α × Option Exc) : σ → List φ → Option (σ × List α)
  | st, [] => some (st, [])
  | st, f :: fs =>
    match loopStep mro sh broken recv st f with
    | .dead _ => none
    | .continue st' acts =>
      match loopRun mro sh broken recv st' fs with
      | none => none
      | some (st'', acts') => some (st'', acts ++ acts')

/-! ## the C-V2X queue: modem process -> queue -> callback thread -/

/-- how the callback thread recognises the stop signal among the items it takes from the queue (regenerated from the
source by `gen_except.queue_stop_test`) -/
inductive StopTest
  | never    -- the loop has no exit
  | isNone   -- `if data is None: break`: identity test against the stop signal
  | falsy    -- the test looks at the VALUE of the item (`if not data`, `len(data) == 0`, ...)
  | other    -- an exit that is unguarded or guarded by something else
deriving DecidableEq, Repr

/-- what `callback_queue.get()` returns -/
inductive QItem
  | stop                       -- `None`, put by `stop()`
  | frame (gn : List Nat)      -- a GN packet (possibly EMPTY: the radio frame held the family id only)
deriving DecidableEq, Repr

/-- does the callback thread leave its loop when it dequeues `q`? -/
def stopsOn : StopTest → QItem → Bool
  | .never, _ => false
  | .isNone, .stop => true
  | .isNone, .frame _ => false
  | .falsy, .stop => true
  | .falsy, .frame b => b.isEmpty
  | .other, _ => true

/-- the GN packets handed to `receive_callback`, in order, until the loop ends -/
def served (t : StopTest) : List QItem → List (List Nat)
  | [] => []
  | .stop :: r => if stopsOn t .stop then [] else served t r
  | .frame b :: r => if stopsOn t (.frame b) then [] else b :: served t r

/-- `receive_process`: a radio frame is family id + GN packet; an empty read (`if data:`) means the modem had nothing -/
def radioToQueue (radio : List (List Nat)) : List QItem :=
  radio.filterMap (fun r => match r with | [] => none | _ :: gn => some (.frame gn))

/-- the GN packets the radio frames carry (what the station received) -/
def radioPackets (radio : List (List Nat)) : List (List Nat) :=
  radio.filterMap (fun r => match r with | [] => none | _ :: gn => some gn)

/-- `Router.gn_data_indicate`: catch-all around the frame processor `proc`; what escapes it is raised INTO the
link layer's loop.  `sh.inWhile` is not used here (there is no loop in `gn_data_indicate`). -/
def indicate {σ α φ : Type} (mro : Exc → List String) (sh : LoopShape) (broken : φ → Bool)
    (proc : σ → φ → σ × List α × Option Exc) (st : σ) (f : φ) : σ × List α × Option Exc :=
  match proc st f with
  | (st', acts, none) => (st', acts, none)
  | (st', acts, some e) =>
    if caught mro sh.catches e then
      match sh.handler with
      | .safe => (st', acts, none)
      | .printing => if broken f then (st', acts, some .stdoutError) else (st', acts, none)
      | .exits => (st', acts, some e)
    else (st', acts, some e)

/-- the GN receive function built from the stateless prologue and an arbitrary stateful handler part -/
def recvGN {σ α : Type} (cfg : Cfg) (handle : σ → Handler → List Nat → σ × List α × Option Exc)
    (verify : σ → List Nat → σ × List α × Option Exc) (st : σ) (f : List Nat) : σ × List α × Option Exc :=
  match classify cfg f with
  | .raised e => (st, [], some e)
  | .dropped => (st, [], none)
  | .secured => verify st f
  | .handled h => handle st h f

/-- MAC filter of `RawLinkLayer.receive` (repaired code, fixes/C04-own-source-ignored): a frame carrying the station's
own source address is ignored whatever its destination; frames of other stations addressed to the own MAC or to
broadcast are passed up; everything else is ignored. -/
def macAccept (own dst src : List Nat) : Bool :=
  if src = own then false
  else if dst = own then true
  else if dst = [255, 255, 255, 255, 255, 255] then true
  else false

/-- the filter before the repair: the source was looked at for broadcast frames only -/
def macAcceptOld (own dst src : List Nat) : Bool :=
  if dst = own then true
  else if dst = [255, 255, 255, 255, 255, 255] ∧ src ≠ own then true
  else false

end FlexModel.Geo.Recv

/-
Model of the geo-area decisions of geonet/router.py (C07), over exact rationals:
  gn_geometric_function_f   (EN 302 931 function F; the point is given in the area's own Cartesian frame:
                             origin = centre, abscissa along the azimuth direction — projection and rotation are
                             float/trig glue outside Lean and are supplied by the harness)
  _compute_area_size_m2     (π = the exact rational value of Python's math.pi)
  gn_forwarding_algorithm_selection (EN 302 636-4-1 Annex D)
  gn_data_request_gbc / gac (area size control at the source)
  gn_data_indicate_gbc / gac + gn_data_forward_gbc  (deliver / forward / discard)
Core Lean only.
-/
namespace FlexModel.Geo.Area

inductive Shape | circle | rect | ellipse
  deriving DecidableEq, Repr

inductive Err | zeroDivision
  deriving DecidableEq, Repr

def sqr (r : Rat) : Rat := r * r

/-- the arithmetic of `gn_geometric_function_f` for non-degenerate semi-axes -/
def Fval : Shape → (a b x y : Rat) → Rat
  | .circle, a, _, x, y => 1 - sqr (x / a) - sqr (y / a)
  | .ellipse, a, b, x, y => 1 - sqr (x / a) - sqr (y / b)
  | .rect, a, b, x, y => min (1 - sqr (x / a)) (1 - sqr (y / b))

/-- does Python raise ZeroDivisionError?  (`x / area.a` with `a = 0`; `b` is only used by rectangle and ellipse) -/
def degenerate : Shape → (a b : Rat) → Bool
  | .circle, a, _ => a == 0
  | _, a, b => a == 0 || b == 0

/-- `gn_geometric_function_f` on frame coordinates -/
def F (s : Shape) (a b x y : Rat) : Except Err Rat :=
  if degenerate s a b then .error .zeroDivision else .ok (Fval s a b x y)

/-- membership per EN 302 931 (written from the standard, independently of `Fval`) -/
def inside : Shape → (a b x y : Rat) → Prop
  | .circle, a, _, x, y => x * x + y * y ≤ a * a
  | .rect, a, b, x, y => (-a ≤ x ∧ x ≤ a) ∧ (-b ≤ y ∧ y ≤ b)
  | .ellipse, a, b, x, y => sqr (x / a) + sqr (y / b) ≤ 1

/-- on the border of the shape -/
def onBorder : Shape → (a b x y : Rat) → Prop
  | .circle, a, _, x, y => x * x + y * y = a * a
  | .rect, a, b, x, y => ((-a ≤ x ∧ x ≤ a) ∧ (-b ≤ y ∧ y ≤ b)) ∧ (x = a ∨ x = -a ∨ y = b ∨ y = -b)
  | .ellipse, a, b, x, y => sqr (x / a) + sqr (y / b) = 1

instance (s : Shape) (a b x y : Rat) : Decidable (inside s a b x y) := by
  cases s <;> unfold inside <;> infer_instance

instance (s : Shape) (a b x y : Rat) : Decidable (onBorder s a b x y) := by
  cases s <;> unfold onBorder <;> infer_instance

/-! ## Rotation into the area frame (EN 302 931: the abscissa of the shape points along the azimuth)

The receiver is given by its offsets (north, east) from the area centre in the LOCAL tangent frame of the centre
(metres; the projection from WGS-84 is float glue outside Lean).  The azimuth θ (degrees clockwise from North) enters
through an abstract unit vector `(c, s)` = (cos θ, sin θ), `c² + s² = 1`, over the rationals. -/

/-- the point's coordinates in the area frame: abscissa along the azimuth direction `(c north, s east)`, ordinate along
`(−s north, c east)` -/
def toFrame (c s north east : Rat) : Rat × Rat := (north * c + east * s, -north * s + east * c)

/-- what the code computes: `calculate_distance` returns `(x, y) = (−north, east)` (its x axis points south) and
`rotate_to_area_frame` returns `(x·cos − y·sin, x·sin + y·cos)` -/
def codeFrame (c s north east : Rat) : Rat × Rat :=
  ((-north) * c - east * s, (-north) * s + east * c)

/-- F of a point given in the local (north, east) frame of the centre, for an area of azimuth `(c, s)` -/
def FvalLocal (sh : Shape) (a b c s north east : Rat) : Rat :=
  Fval sh a b (toFrame c s north east).1 (toFrame c s north east).2

/-- `gn_geometric_function_f` after the projection: F on the code's own frame coordinates -/
def FvalCode (sh : Shape) (a b c s north east : Rat) : Rat :=
  Fval sh a b (codeFrame c s north east).1 (codeFrame c s north east).2

/-- **membership in the rotated shape, written from EN 302 931 independently of `toFrame`**: the area is the
axis-aligned shape (semi-axis `a` along the abscissa) turned so that its abscissa points along the azimuth; the point
(north, east) belongs to it iff it is the image `u·(c, s) + v·(−s, c)` of a point `(u, v)` of the axis-aligned shape -/
def insideRotated (sh : Shape) (a b c s north east : Rat) : Prop :=
  ∃ u v : Rat, north = u * c - v * s ∧ east = u * s + v * c ∧ inside sh a b u v

/-- on the border of the rotated shape -/
def onBorderRotated (sh : Shape) (a b c s north east : Rat) : Prop :=
  ∃ u v : Rat, north = u * c - v * s ∧ east = u * s + v * c ∧ onBorder sh a b u v

/-- exact (cos, sin) of the four azimuths whose sine and cosine are rational among the integer degrees -/
def quarterCS (quarter : Nat) : Rat × Rat :=
  match quarter % 4 with
  | 0 => (1, 0)       -- θ = 0°
  | 1 => (0, 1)       -- θ = 90°
  | 2 => (-1, 0)      -- θ = 180°
  | _ => (0, -1)      -- θ = 270°

/-- rotation of a point given as (north, east) offsets from the centre into the area frame of azimuth θ, for the
    four azimuths whose sine and cosine are rational (= `toFrame (quarterCS q)`, theorem `toFrameQuarter_eq`) -/
def toFrameQuarter (quarter : Nat) (north east : Rat) : Rat × Rat :=
  match quarter % 4 with
  | 0 => (north, east)          -- θ = 0°   : abscissa points north
  | 1 => (east, -north)         -- θ = 90°  : abscissa points east
  | 2 => (-north, -east)        -- θ = 180°
  | _ => (-east, north)         -- θ = 270°

/-- the code before fix C07-F1: `area.angle` was ignored, i.e. F was evaluated on the output of `calculate_distance`
as if the azimuth were 0° — the code's frame with `(c, s) = (1, 0)` whatever the azimuth of the area -/
def FvalUnrotated (s : Shape) (a b north east : Rat) : Rat := FvalCode s a b 1 0 north east

/-! ## Area size control (§B.3) -/

/-- Python's `math.pi` as an exact rational -/
def pyPi : Rat := 884279719003555 / 281474976710656

def areaSize : Shape → (a b : Rat) → Rat
  | .circle, a, _ => pyPi * (a * a)
  | .ellipse, a, b => pyPi * a * b
  | .rect, a, b => 4 * a * b

/-- `area > itsGnMaxGeoAreaSize * 1_000_000` (MIB value in km²) -/
def oversize (s : Shape) (a b : Rat) (maxKm2 : Nat) : Bool :=
  decide ((maxKm2 : Rat) * 1000000 < areaSize s a b)

/-! ## Annex D -/

inductive Fwd | areaForwarding | nonAreaForwarding | discard
  deriving DecidableEq, Repr

/-- `gn_forwarding_algorithm_selection`: `se` = position-vector of the sender from the location table
    (`none` at the source or when unknown) as (PAI, F(sender)) -/
def annexD (fEgo : Rat) (se : Option (Bool × Rat)) : Fwd :=
  if 0 ≤ fEgo then .areaForwarding
  else match se with
    | some (pai, fSe) => if pai && decide (0 ≤ fSe) then .discard else .nonAreaForwarding
    | none => .nonAreaForwarding

/-- EN 302 636-4-1 Annex D written as the table over (ego inside or at border, SE_POS_VALID, sender inside or at border) -/
def annexDTable : Bool → Bool → Bool → Fwd
  | true,  _,     _     => .areaForwarding
  | false, true,  true  => .discard
  | false, true,  false => .nonAreaForwarding
  | false, false, _     => .nonAreaForwarding

/-! ## Source: GN-DATA.request (GBC and GAC share the code) -/

inductive Confirm | accepted | geographicalScopeTooLarge
  deriving DecidableEq, Repr

structure SrcOut where
  confirm : Confirm
  sent : Nat            -- packets handed to the link layer
  deriving DecidableEq, Repr

/-- `gn_data_request_gbc`: `bufferCase` = no neighbour ∧ SCF; `greedyOk` = result of §E.2 greedy forwarding -/
def srcRequest (s : Shape) (a b : Rat) (maxKm2 : Nat) (fEgo : Rat) (bufferCase greedyOk : Bool) : SrcOut :=
  if oversize s a b maxKm2 then ⟨.geographicalScopeTooLarge, 0⟩
  else if bufferCase then ⟨.accepted, 0⟩
  else match annexD fEgo none with
    | .areaForwarding => ⟨.accepted, 1⟩
    | .nonAreaForwarding => ⟨.accepted, if greedyOk then 1 else 0⟩
    | .discard => ⟨.accepted, 0⟩

/-! ## Receivers / forwarders -/

inductive Action | deliver | forwardArea | forwardNonArea
  deriving DecidableEq, Repr

/-- inputs of a receive decision: F at ego, remaining hop limit on the wire, area-size verdict, source packet-data-rate
    verdict, sender PV as (PAI, F(sender)) -/
structure RxIn where
  fEgo : Rat
  rhl : Nat
  oversize : Bool
  pdrExceeded : Bool
  se : Option (Bool × Rat)

/-- `gn_data_indicate_gbc` + `gn_data_forward_gbc` (duplicate / DAD rejections happen before and are C06's) -/
def recvGBC (i : RxIn) : List Action :=
  (if 0 ≤ i.fEgo then [Action.deliver] else []) ++
  (if i.oversize || i.pdrExceeded || decide (i.rhl ≤ 1) then []
   else match annexD i.fEgo i.se with
     | .areaForwarding => [Action.forwardArea]
     | .nonAreaForwarding => [Action.forwardNonArea]
     | .discard => [])

/-- `gn_data_indicate_gac` -/
def recvGAC (i : RxIn) : List Action :=
  if 0 ≤ i.fEgo then [Action.deliver]
  else if i.oversize || i.pdrExceeded then []
  else match i.se with
    | some (true, fSe) => if 0 ≤ fSe then [] else if i.rhl ≤ 1 then [] else [Action.forwardNonArea]
    | _ => if i.rhl ≤ 1 then [] else [Action.forwardNonArea]

/-- the transmissions a forwarding verdict results in -/
def fwdActs : Fwd → List Action
  | .areaForwarding => [Action.forwardArea]
  | .nonAreaForwarding => [Action.forwardNonArea]
  | .discard => []

/-- `gn_data_indicate_gbc` + `gn_data_forward_gbc` in a given STATE of the forwarder: `bc` = no neighbour in the location
    table and store-carry-forward set in the traffic class (step 10 of 10.3.11.3: the packet belongs into the BC
    forwarding packet buffer; the code's stand-in passes the PDU to the link layer once, without Annex D).  The area-size
    and packet-data-rate controls of `gn_data_indicate_gbc` come BEFORE the forwarder is entered, i.e. in both states. -/
def recvGBCst (bc : Bool) (i : RxIn) : List Action :=
  (if 0 ≤ i.fEgo then [Action.deliver] else []) ++
  (if i.oversize || i.pdrExceeded || decide (i.rhl ≤ 1) then []
   else if bc then [Action.forwardArea] else fwdActs (annexD i.fEgo i.se))

/-- `gn_data_indicate_gac` in a given state of the forwarder (`bc` as above: step 10b keeps the packet back) -/
def recvGACst (bc : Bool) (i : RxIn) : List Action :=
  if 0 ≤ i.fEgo then [Action.deliver]
  else if i.oversize || i.pdrExceeded then []
  else match i.se with
    | some (true, fSe) => if 0 ≤ fSe then [] else if i.rhl ≤ 1 then [] else if bc then [] else [Action.forwardNonArea]
    | _ => if i.rhl ≤ 1 then [] else if bc then [] else [Action.forwardNonArea]

/-- the variant with the size control INSIDE the forwarder's "a neighbour exists or SCF not set" branch (seeded change
    C07-m10): `guardOutside = false` -/
def recvGBCguardAt (guardOutside : Bool) (bc : Bool) (i : RxIn) : List Action :=
  if guardOutside then recvGBCst bc i
  else (if 0 ≤ i.fEgo then [Action.deliver] else []) ++
    (if i.pdrExceeded || decide (i.rhl ≤ 1) then []
     else if bc then [Action.forwardArea] else if i.oversize then [] else fwdActs (annexD i.fEgo i.se))

/-- SE_POS_VALID / "sender inside or at border" of a sender PV given as (PAI, F(sender)) -/
def sePai (se : Option (Bool × Rat)) : Bool := match se with | some (p, _) => p | none => false
def seIn (se : Option (Bool × Rat)) : Bool := match se with | some (_, f) => decide (0 ≤ f) | none => false

/-! ## Packet level: from the packet's area fields, the receiver's position and its location table to the decision

The WGS-84 → metres projection (`Router.calculate_distance`) and the trigonometry (`math.cos/sin(math.radians(angle))`)
are abstract parameters: every statement below holds for EVERY projection `proj` and every table of unit vectors. -/

/-- WGS-84 position in 1/10 µdeg -/
structure Pos where
  lat : Int
  lon : Int
  deriving DecidableEq, Repr

/-- destination area as carried in the GBC/GAC extended header -/
structure GeoArea where
  shape : Shape
  a : Nat
  b : Nat
  centre : Pos
  az : Nat
  deriving DecidableEq, Repr

/-- the float glue, abstract: `proj centre p` = (north, east) metres of `p` relative to `centre`;
`cos az`, `sin az` = cosine / sine of the azimuth given in degrees -/
structure Glue where
  proj : Pos → Pos → Rat × Rat
  cos : Nat → Rat
  sin : Nat → Rat

/-- the trigonometric table consists of unit vectors -/
def Glue.UnitCS (g : Glue) : Prop := ∀ az, g.cos az * g.cos az + g.sin az * g.sin az = 1

/-- `gn_geometric_function_f(hst, area, lat, lon)` -/
def fAt (g : Glue) (A : GeoArea) (p : Pos) : Rat :=
  FvalCode A.shape A.a A.b (g.cos A.az) (g.sin A.az) (g.proj A.centre p).1 (g.proj A.centre p).2

/-- the position lies inside or on the border of the destination area (EN 302 931, rotated shape) -/
def insideArea (g : Glue) (A : GeoArea) (p : Pos) : Prop :=
  insideRotated A.shape A.a A.b (g.cos A.az) (g.sin A.az) (g.proj A.centre p).1 (g.proj A.centre p).2

/-- location table entry as far as Annex D is concerned -/
structure LocTE where
  pos : Pos
  pai : Bool
  deriving DecidableEq, Repr

/-- a received GBC / GAC packet: area, remaining hop limit on the wire, GN address of the SOURCE (SO PV) -/
structure GeoPkt where
  area : GeoArea
  rhl : Nat
  so : Nat

/-- the receiving station: position, `itsGnMaxGeoAreaSize`, PDR verdict per source, location table -/
structure Station where
  ego : Pos
  maxKm2 : Nat
  pdrExceeded : Nat → Bool
  locT : Nat → Option LocTE

/-- whose location-table entry plays the role of Annex D's sender position vector PV_SE -/
inductive SeKey
  /-- the code as it is: the packet's SOURCE (`gbc_extended_header.so_pv.gn_addr`, router.py gn_data_forward_gbc /
      gn_data_indicate_gac) — the link layer hands over no sender address (known finding C07-KF1) -/
  | source
  /-- EN 302 636-4-1 Annex D: the SENDER, i.e. the previous hop the frame was received from -/
  | sender
  deriving DecidableEq, Repr

/-- `RxIn` of a packet `pk` received by station `st` from link-layer sender `sender` -/
def rxInOf (g : Glue) (k : SeKey) (st : Station) (pk : GeoPkt) (sender : Nat) : RxIn :=
  { fEgo := fAt g pk.area st.ego
    rhl := pk.rhl
    oversize := oversize pk.area.shape pk.area.a pk.area.b st.maxKm2
    pdrExceeded := st.pdrExceeded pk.so
    se := (st.locT (match k with | .source => pk.so | .sender => sender)).map
            (fun e => (e.pai, fAt g pk.area e.pos)) }

/-- `gn_data_indicate_gbc` on a whole packet -/
def recvGBCpkt (g : Glue) (k : SeKey) (st : Station) (pk : GeoPkt) (sender : Nat) : List Action :=
  recvGBC (rxInOf g k st pk sender)

/-- `gn_data_indicate_gac` on a whole packet -/
def recvGACpkt (g : Glue) (k : SeKey) (st : Station) (pk : GeoPkt) (sender : Nat) : List Action :=
  recvGAC (rxInOf g k st pk sender)

/-- SE_POS_VALID of Annex D for the entry `e` -/
def sePosValid (e : Option LocTE) : Bool := match e with | some x => x.pai | none => false

/-- "sender inside or at the border" (F(sender) ≥ 0; false when there is no entry) -/
def seInside (g : Glue) (A : GeoArea) (e : Option LocTE) : Bool :=
  match e with | some x => decide (0 ≤ fAt g A x.pos) | none => false

/-- flat test glue for the witnesses: 1 unit = 1 m, quarter-turn azimuths -/
def flatGlue : Glue :=
  { proj := fun c p => ((p.lat - c.lat : Int), (p.lon - c.lon : Int))
    cos := fun az => (quarterCS (az / 90)).1
    sin := fun az => (quarterCS (az / 90)).2 }

/-! ## Sequences of evaluations on ONE instance (round 6)

`gn_geometric_function_f` is a method of the router: what it returns for a query must not depend on what the instance
was asked before. -/

/-- one query: shape, semi-axes, unit vector `(c, s)` of the azimuth, offset of the point from the centre (north, east) -/
structure FQuery where
  sh : Shape
  a : Rat
  b : Rat
  c : Rat
  s : Rat
  north : Rat
  east : Rat
  deriving DecidableEq

/-- the rotated offset the code evaluates F at -/
def FQuery.frame (q : FQuery) : Rat × Rat := codeFrame q.c q.s q.north q.east

/-- the stateless evaluation (the source as it is): project, rotate, evaluate -/
def FQuery.eval (q : FQuery) : Except Err Rat := F q.sh q.a q.b q.frame.1 q.frame.2

/-- evaluation by an instance that keeps the LAST rotated offset under `key q` (a one-entry memo) -/
def evalMemo {κ : Type} [DecidableEq κ] (key : FQuery → κ) (m : Option (κ × Rat × Rat)) (q : FQuery) :
    Option (κ × Rat × Rat) × Except Err Rat :=
  let p : Rat × Rat := match m with
    | some (k, p) => if k = key q then p else q.frame
    | none => q.frame
  (some (key q, p), F q.sh q.a q.b p.1 p.2)

/-- a sequence of queries answered by one such instance -/
def runMemo {κ : Type} [DecidableEq κ] (key : FQuery → κ) : Option (κ × Rat × Rat) → List FQuery → List (Except Err Rat)
  | _, [] => []
  | m, q :: qs => (evalMemo key m q).2 :: runMemo key (evalMemo key m q).1 qs

/-- the answers of ONE router instance to a sequence of queries: `stateless` = the function writes no state that outlives
    the call (regenerated fact); otherwise the memo keyed by centre and point only (seeded change C07-m12; the offset
    stands for the pair centre/point) -/
def evalSeqAt (stateless : Bool) (qs : List FQuery) : List (Except Err Rat) :=
  if stateless then qs.map FQuery.eval else runMemo (fun q => (q.north, q.east)) none qs

end FlexModel.Geo.Area

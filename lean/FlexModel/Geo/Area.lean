/-
Model of the geo-area decisions of geonet/router.py (C07), over exact rationals:
  gn_geometric_function_f   (EN 302 931 function F; the point is given in the area's own Cartesian frame:
                             origin = centre, abscissa along the azimuth direction — projection and rotation are
                             float/trig glue outside Lean and are supplied by the harness)
  _compute_area_size_m2     (π = the exact rational value of Python's math.pi)
  gn_forwarding_algorithm_selection (EN 302 636-4-1 Annex D)
  gn_data_request_gbc / gac (area size control at the source)
  gn_data_indicate_gbc / gac + gn_data_forward_gbc  (deliver / forward / discard)
Core Lean only.
-/
namespace FlexModel.Geo.Area

inductive Shape | circle | rect | ellipse
  deriving DecidableEq, Repr

inductive Err | zeroDivision
  deriving DecidableEq, Repr

def sqr (r : Rat) : Rat := r * r

/-- the arithmetic of `gn_geometric_function_f` for non-degenerate semi-axes -/
def Fval : Shape → (a b x y : Rat) → Rat
  | .circle, a, _, x, y => 1 - sqr (x / a) - sqr (y / a)
  | .ellipse, a, b, x, y => 1 - sqr (x / a) - sqr (y / b)
  | .rect, a, b, x, y => min (1 - sqr (x / a)) (1 - sqr (y / b))

/-- does Python raise ZeroDivisionError?  (`x / area.a` with `a = 0`; `b` is only used by rectangle and ellipse) -/
def degenerate : Shape → (a b : Rat) → Bool
  | .circle, a, _ => a == 0
  | _, a, b => a == 0 || b == 0

/-- `gn_geometric_function_f` on frame coordinates -/
def F (s : Shape) (a b x y : Rat) : Except Err Rat :=
  if degenerate s a b then .error .zeroDivision else .ok (Fval s a b x y)

/-- membership per EN 302 931 (written from the standard, independently of `Fval`) -/
def inside : Shape → (a b x y : Rat) → Prop
  | .circle, a, _, x, y => x * x + y * y ≤ a * a
  | .rect, a, b, x, y => (-a ≤ x ∧ x ≤ a) ∧ (-b ≤ y ∧ y ≤ b)
  | .ellipse, a, b, x, y => sqr (x / a) + sqr (y / b) ≤ 1

/-- on the border of the shape -/
def onBorder : Shape → (a b x y : Rat) → Prop
  | .circle, a, _, x, y => x * x + y * y = a * a
  | .rect, a, b, x, y => ((-a ≤ x ∧ x ≤ a) ∧ (-b ≤ y ∧ y ≤ b)) ∧ (x = a ∨ x = -a ∨ y = b ∨ y = -b)
  | .ellipse, a, b, x, y => sqr (x / a) + sqr (y / b) = 1

instance (s : Shape) (a b x y : Rat) : Decidable (inside s a b x y) := by
  cases s <;> unfold inside <;> infer_instance

instance (s : Shape) (a b x y : Rat) : Decidable (onBorder s a b x y) := by
  cases s <;> unfold onBorder <;> infer_instance

/-- rotation of a point given as (north, east) offsets from the centre into the area frame of azimuth θ, for the
    four azimuths whose sine and cosine are rational (used by the witness theorems only) -/
def toFrameQuarter (quarter : Nat) (north east : Rat) : Rat × Rat :=
  match quarter % 4 with
  | 0 => (north, east)          -- θ = 0°   : abscissa points north
  | 1 => (east, -north)         -- θ = 90°  : abscissa points east
  | 2 => (-north, -east)        -- θ = 180°
  | _ => (-east, north)         -- θ = 270°

/-- the code before fix C07-F1: `area.angle` was ignored, F was evaluated on the unrotated offsets -/
def FvalUnrotated (s : Shape) (a b north east : Rat) : Rat := Fval s a b north east

/-! ## Area size control (§B.3) -/

/-- Python's `math.pi` as an exact rational -/
def pyPi : Rat := 884279719003555 / 281474976710656

def areaSize : Shape → (a b : Rat) → Rat
  | .circle, a, _ => pyPi * (a * a)
  | .ellipse, a, b => pyPi * a * b
  | .rect, a, b => 4 * a * b

/-- `area > itsGnMaxGeoAreaSize * 1_000_000` (MIB value in km²) -/
def oversize (s : Shape) (a b : Rat) (maxKm2 : Nat) : Bool :=
  decide ((maxKm2 : Rat) * 1000000 < areaSize s a b)

/-! ## Annex D -/

inductive Fwd | areaForwarding | nonAreaForwarding | discard
  deriving DecidableEq, Repr

/-- `gn_forwarding_algorithm_selection`: `se` = position-vector of the sender from the location table
    (`none` at the source or when unknown) as (PAI, F(sender)) -/
def annexD (fEgo : Rat) (se : Option (Bool × Rat)) : Fwd :=
  if 0 ≤ fEgo then .areaForwarding
  else match se with
    | some (pai, fSe) => if pai && decide (0 ≤ fSe) then .discard else .nonAreaForwarding
    | none => .nonAreaForwarding

/-- EN 302 636-4-1 Annex D written as the table over (ego inside or at border, SE_POS_VALID, sender inside or at border) -/
def annexDTable : Bool → Bool → Bool → Fwd
  | true,  _,     _     => .areaForwarding
  | false, true,  true  => .discard
  | false, true,  false => .nonAreaForwarding
  | false, false, _     => .nonAreaForwarding

/-! ## Source: GN-DATA.request (GBC and GAC share the code) -/

inductive Confirm | accepted | geographicalScopeTooLarge
  deriving DecidableEq, Repr

structure SrcOut where
  confirm : Confirm
  sent : Nat            -- packets handed to the link layer
  deriving DecidableEq, Repr

/-- `gn_data_request_gbc`: `bufferCase` = no neighbour ∧ SCF; `greedyOk` = result of §E.2 greedy forwarding -/
def srcRequest (s : Shape) (a b : Rat) (maxKm2 : Nat) (fEgo : Rat) (bufferCase greedyOk : Bool) : SrcOut :=
  if oversize s a b maxKm2 then ⟨.geographicalScopeTooLarge, 0⟩
  else if bufferCase then ⟨.accepted, 0⟩
  else match annexD fEgo none with
    | .areaForwarding => ⟨.accepted, 1⟩
    | .nonAreaForwarding => ⟨.accepted, if greedyOk then 1 else 0⟩
    | .discard => ⟨.accepted, 0⟩

/-! ## Receivers / forwarders -/

inductive Action | deliver | forwardArea | forwardNonArea
  deriving DecidableEq, Repr

/-- inputs of a receive decision: F at ego, remaining hop limit on the wire, area-size verdict, source packet-data-rate
    verdict, sender PV as (PAI, F(sender)) -/
structure RxIn where
  fEgo : Rat
  rhl : Nat
  oversize : Bool
  pdrExceeded : Bool
  se : Option (Bool × Rat)

/-- `gn_data_indicate_gbc` + `gn_data_forward_gbc` (duplicate / DAD rejections happen before and are C06's) -/
def recvGBC (i : RxIn) : List Action :=
  (if 0 ≤ i.fEgo then [Action.deliver] else []) ++
  (if i.oversize || i.pdrExceeded || decide (i.rhl ≤ 1) then []
   else match annexD i.fEgo i.se with
     | .areaForwarding => [Action.forwardArea]
     | .nonAreaForwarding => [Action.forwardNonArea]
     | .discard => [])

/-- `gn_data_indicate_gac` -/
def recvGAC (i : RxIn) : List Action :=
  if 0 ≤ i.fEgo then [Action.deliver]
  else if i.oversize || i.pdrExceeded then []
  else match i.se with
    | some (true, fSe) => if 0 ≤ fSe then [] else if i.rhl ≤ 1 then [] else [Action.forwardNonArea]
    | _ => if i.rhl ≤ 1 then [] else [Action.forwardNonArea]

end FlexModel.Geo.Area

import FlexModel.Proto
import FlexModel.Geo.LT
import FlexModel.Geo.LTOrig
namespace FlexModel.Geo
open FlexModel.Proto

def transport? : String → Option Transport
  | "beacon" => some .beacon | "shb" => some .shb | "gbc" => some .gbc | "gac" => some .gac
  | "guc" => some .guc | "ls_request" => some .lsRequest | "ls_reply" => some .lsReply
  | _ => none

def ltStep (_ : Unit) (t : List String) : Unit × String :=
  match t with
  | ["set", c, v] =>
    match nat? c, nat? v with
    | some c, some v =>
      let r := LT.setMillis (c != 0) v
      ((), joinNat [r.mult, r.base, r.millis, r.encode])
    | _, _ => ((), "bad-op")
  | ["ind", b] =>
    match nat? b with
    | some b => ((), toString (indRemainingS b))
    | _ => ((), "bad-op")
  | ["dec", b] =>
    match nat? b with
    | some b => let r := LT.decode b; ((), joinNat [r.mult, r.base, r.millis, r.seconds])
    | _ => ((), "bad-op")
  | ["hops", tr, req, d] =>
    match transport? tr, nat? req, nat? d with
    | some tr, some req, some d => let r := srcHops tr req d; ((), joinNat [r.1, r.2])
    | _, _, _ => ((), "bad-op")
  | ["guard", r, m] =>
    match nat? r, nat? m with
    | some r, some m => ((), if recvHopGuard r m then "1" else "0")
    | _, _ => ((), "bad-op")
  | ["orig", sec, c, tr, req, d, ms, dS] =>
    -- secured/unsecured origination: `ms` = "-" when the request names no lifetime
    match nat? sec, nat? c, transport? tr, nat? req, nat? d, nat? dS with
    | some sec, some c, some tr, some req, some d, some dS =>
      match (if ms == "-" then some none else (nat? ms).map some) with
      | some rq =>
        let o := originate (sec != 0) (c != 0) tr req d rq dS
        ((), joinNat [o.hdr.nh, o.hdr.lt.encode, o.hdr.rhl, o.mhl, if o.secured then 1 else 0])
      | none => ((), "bad-op")
    | _, _, _, _, _, _ => ((), "bad-op")
  | _ => ((), "bad-op")

def ltDomain : Domain := { σ := Unit, init := (), step := ltStep }

end FlexModel.Geo

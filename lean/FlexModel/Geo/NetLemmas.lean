/-
Lemmas for the network-level theorem of C06: effect of one reception on medium and CBF buffer, weights, strict decrease.
-/
import FlexModel.Geo.RouterLemmas
import FlexModel.Geo.Net
namespace FlexModel.Geo

/-- what one reception can do to the medium and to the CBF buffer: nothing / drop a buffered copy / buffer one copy with
RHL one lower, or transmit exactly one copy with RHL one lower and leave the buffer alone -/
def Effect (buf buf' : List (Key × Pkt)) (p : Pkt) (acts : List Act) : Prop :=
  (sends acts = [] ∧ (buf' = buf ∨ (∃ k, buf' = bufDel buf k) ∨ (2 ≤ p.rhl ∧ ∃ k q, q.rhl + 1 = p.rhl ∧ buf' = buf ++ [(k, q)]))) ∨
  (∃ q, sends acts = [q] ∧ q.rhl + 1 = p.rhl ∧ buf' = buf)

theorem eff_none {buf : List (Key × Pkt)} {p : Pkt} {acts : List Act} (h : sends acts = []) : Effect buf buf p acts :=
  Or.inl ⟨h, Or.inl rfl⟩

theorem eff_send {buf : List (Key × Pkt)} {p q : Pkt} {acts : List Act} (h : sends acts = [q]) (hr : q.rhl + 1 = p.rhl) :
    Effect buf buf p acts := Or.inr ⟨q, h, hr, rfl⟩

/-- Location Service actions put nothing on the medium, start no CBF timer and deliver nothing -/
theorem ls_acts_silent {acts : List Act} {a : Addr} (h : ∀ act ∈ acts, act = .lsSend a ∨ act = .origGuc a) :
    sends acts = [] ∧ arms acts = [] ∧ dlvs acts = [] := by
  induction acts with
  | nil => exact ⟨rfl, rfl, rfl⟩
  | cons x r ih =>
    have := ih (fun act ha => h act (by simp [ha]))
    rcases h x (by simp) with rfl | rfl <;> simpa [sends, arms, dlvs] using this

theorem handle_effect (c : RCfg) (hg : c.gacFix = true) (s : RSt) (p : Pkt) (env : Env) :
    Effect s.buf (handle c s p env).1.buf p (handle c s p env).2 := by
  cases hk : p.kind <;> simp only [handle, hk]
  case beacon => exact eff_none rfl
  case shb => exact eff_none rfl
  case tsb =>
    repeat' split
    all_goals first
      | exact eff_none rfl
      | exact eff_send (q := fwd p) rfl (by simp only [fwd]; omega)
  case gac =>
    simp only [hg, if_true]
    repeat' split
    all_goals first
      | exact eff_none rfl
      | omega
      | exact eff_send rfl (by simp only []; omega)
  case guc =>
    repeat' split
    all_goals first
      | exact eff_none rfl
      | exact eff_send (q := fwd (refreshDE s.t p)) rfl (by simp only [fwd, (refreshDE_rhl s.t p).1]; omega)
  case lsReq =>
    repeat' split
    all_goals first
      | exact eff_none rfl
      | exact eff_send (q := fwd p) rfl (by simp only [fwd]; omega)
  case lsRep =>
    by_cases hme : mid p.de = mid c.loct.self
    · simp only [hme, if_true]
      obtain ⟨h1, h2, _⟩ := lsComplete_spec s p.so
      rw [h2]
      exact eff_none (ls_acts_silent h1).1
    simp only [hme, if_false]
    repeat' split
    all_goals first
      | exact eff_none rfl
      | exact eff_send (q := fwd (refreshDE s.t p)) rfl (by simp only [fwd, (refreshDE_rhl s.t p).1]; omega)
  case gbc =>
    cases h1 : env.areaTooBig
    case true => simp only [if_true]; split <;> exact eff_none rfl
    simp only [Bool.false_eq_true, if_false]
    cases h2 : env.pdrExceeded
    case true => simp only [if_true]; split <;> exact eff_none rfl
    simp only [Bool.false_eq_true, if_false]
    by_cases h3 : p.rhl - 1 > 0
    case neg => simp only [h3, if_false]; split <;> exact eff_none rfl
    simp only [h3, if_true, forwardGbc]
    have hr : (fwd p).rhl + 1 = p.rhl := by simp only [fwd]; omega
    cases h4 : (!(neighbours s.t).isEmpty || !p.scf)
    case false =>
      simp only [Bool.false_eq_true, if_false]
      split <;> exact eff_send (q := fwd p) rfl hr
    simp only [if_true]
    cases h5 : env.inside
    case false =>
      simp only [Bool.false_eq_true, if_false]
      repeat' split
      all_goals first
        | exact eff_none rfl
        | exact eff_send (q := fwd p) rfl hr
    simp only [if_true]
    cases h6 : c.cbf
    case false =>
      simp only [Bool.false_eq_true, if_false]
      exact eff_send (q := fwd p) rfl hr
    simp only [if_true, cbfForward]
    cases h7 : bufHas s.buf ((fwd p).so, (fwd p).sn)
    case true => simp only [if_true]; exact Or.inl ⟨rfl, Or.inr (Or.inl ⟨_, rfl⟩)⟩
    simp only [Bool.false_eq_true, if_false]
    exact Or.inl ⟨rfl, Or.inr (Or.inr ⟨by omega, _, fwd p, hr, rfl⟩)⟩


theorem recvR_effect (c : RCfg) (hg : c.gacFix = true) (s : RSt) (p : Pkt) (env : Env) (now : Nat) :
    Effect s.buf (recvR c s p env now).1.buf p (recvR c s p env now).2 := by
  unfold recvR
  by_cases h1 : p.rhl > p.mhl
  · simp only [h1, if_true]; exact eff_none rfl
  simp only [h1, if_false]
  cases hr : (recv c.loct s.t p.kind p.so p.soPV p.sn now).2
  case dad => exact eff_none rfl
  case dup =>
    simp only []
    split
    · simp only [cbfDiscard]
      split
      · exact Or.inl ⟨rfl, Or.inr (Or.inl ⟨_, rfl⟩)⟩
      · exact eff_none rfl
    · exact eff_none rfl
  case ok => exact handle_effect c hg { s with t := _ } p env

/-! ## weights -/

theorem bufWeight_del_le (A : Nat) (b : List (Key × Pkt)) (k : Key) : bufWeight A (bufDel b k) ≤ bufWeight A b := by
  induction b with
  | nil => simp [bufDel, bufWeight]
  | cons x r ih =>
    simp only [bufDel, List.filter]
    split
    · simp only [bufWeight, List.map_cons, List.sum_cons] at ih ⊢; simp only [bufDel, bufWeight] at ih; omega
    · simp only [bufWeight, List.map_cons, List.sum_cons] at ih ⊢; simp only [bufDel, bufWeight] at ih; omega

theorem bufWeight_get_del (A : Nat) (b : List (Key × Pkt)) (k : Key) (q : Pkt) (h : bufGet b k = some q) :
    bufWeight A (bufDel b k) + wBuf A q ≤ bufWeight A b := by
  induction b with
  | nil => simp [bufGet] at h
  | cons x r ih =>
    simp only [bufGet, List.find?_cons] at h
    cases hx : (x.1 == k) with
    | true =>
      simp only [hx, Option.map_some, Option.some.injEq] at h
      subst h
      have := bufWeight_del_le A r k
      simp only [bufDel, List.filter, hx, Bool.not_true, bufWeight, List.map_cons, List.sum_cons] at this ⊢
      omega
    | false =>
      simp only [hx] at h
      have := ih (by simpa [bufGet] using h)
      simp only [bufDel, List.filter, hx, Bool.not_false, bufWeight, List.map_cons, List.sum_cons] at this ⊢
      omega

theorem bufWeight_append (A : Nat) (b : List (Key × Pkt)) (x : Key × Pkt) :
    bufWeight A (b ++ [x]) = bufWeight A b + wBuf A x.2 := by
  simp [bufWeight]

theorem airWeight_broadcast_one (A : Nat) (rcv : List Nat) (q : Pkt) :
    airWeight A (broadcast rcv [q]) = rcv.length * wAir A q := by
  simp only [broadcast, List.flatMap_cons, List.flatMap_nil, List.append_nil, airWeight, List.map_map]
  induction rcv with
  | nil => simp
  | cons i r ih => simp only [List.map_cons, List.sum_cons, List.length_cons, Function.comp] at ih ⊢; rw [ih]; rw [Nat.add_mul]; omega

theorem pow_step (A r : Nat) : A ^ (2 * (r + 1)) = A * (A * A ^ (2 * r)) := by
  rw [show 2 * (r + 1) = 2 * r + 1 + 1 from by omega, Nat.pow_succ, Nat.pow_succ]
  rw [Nat.mul_comm (A ^ (2 * r) * A) A, Nat.mul_comm (A ^ (2 * r)) A]



theorem airWeight_erase (A : Nat) (l : List (Nat × Pkt)) (j : Nat) (x : Nat × Pkt) (h : l[j]? = some x) :
    airWeight A (l.eraseIdx j) + wAir A x.2 = airWeight A l := by
  induction l generalizing j with
  | nil => simp at h
  | cons y r ih =>
    cases j with
    | zero => simp at h; subst h; simp [airWeight]; omega
    | succ j' =>
      simp only [List.getElem?_cons_succ] at h
      have := ih j' h
      simp only [List.eraseIdx_cons_succ, airWeight, List.map_cons, List.sum_cons] at this ⊢
      omega

theorem airWeight_append (A : Nat) (l1 l2 : List (Nat × Pkt)) :
    airWeight A (l1 ++ l2) = airWeight A l1 + airWeight A l2 := by simp [airWeight]

theorem nodesWeight_set (A : Nat) (ns : List Node) (i : Nat) (nd x : Node) (h : ns[i]? = some nd) :
    nodesWeight A (ns.set i x) + bufWeight A nd.s.buf = nodesWeight A ns + bufWeight A x.s.buf := by
  induction ns generalizing i with
  | nil => simp at h
  | cons y r ih =>
    cases i with
    | zero => simp at h; subst h; simp [nodesWeight]; omega
    | succ i' =>
      simp only [List.getElem?_cons_succ] at h
      have := ih i' h
      simp only [List.set_cons_succ, nodesWeight, List.map_cons, List.sum_cons] at this ⊢
      omega

theorem bufHas_get (b : List (Key × Pkt)) (k : Key) (h : bufHas b k = true) : ∃ q, bufGet b k = some q := by
  induction b with
  | nil => simp [bufHas] at h
  | cons x r ih =>
    cases hx : (x.1 == k) with
    | true => exact ⟨x.2, by simp [bufGet, List.find?_cons, hx]⟩
    | false =>
      simp only [bufHas, List.any_cons, hx, Bool.false_or] at h
      obtain ⟨q, hq⟩ := ih (by simpa [bufHas] using h)
      exact ⟨q, by simpa [bufGet, List.find?_cons, hx] using hq⟩


theorem pow_pos' (F k : Nat) : 1 ≤ (F + 2) ^ k := Nat.pow_pos (by omega)

/-- weight of what a reception adds (transmissions to ≤ F stations, or one buffered copy) is smaller than the weight of
the received frame -/
theorem step_arith_send (F r m : Nat) (hm : m ≤ F) : m * (F + 2) ^ (2 * r) < (F + 2) ^ (2 * (r + 1)) := by
  rw [pow_step]
  have hx := pow_pos' F (2 * r)
  generalize (F + 2) ^ (2 * r) = X at hx ⊢
  have h1 : m * X ≤ F * X := Nat.mul_le_mul_right X hm
  have h2 : (F + 2) * X = F * X + 2 * X := Nat.add_mul F 2 X
  have h3 : (F + 2) * ((F + 2) * X) = F * ((F + 2) * X) + 2 * ((F + 2) * X) := Nat.add_mul F 2 _
  omega

theorem step_arith_buf (F r : Nat) : (F + 2) ^ (2 * r + 1) < (F + 2) ^ (2 * (r + 1)) := by
  rw [pow_step, Nat.pow_succ]
  have hx := pow_pos' F (2 * r)
  generalize (F + 2) ^ (2 * r) = X at hx ⊢
  have h2 : (F + 2) * X = F * X + 2 * X := Nat.add_mul F 2 X
  have h3 : (F + 2) * ((F + 2) * X) = F * ((F + 2) * X) + 2 * ((F + 2) * X) := Nat.add_mul F 2 _
  rw [Nat.mul_comm X (F + 2)]
  omega

theorem step_arith_fire (F r m : Nat) (hm : m ≤ F) : m * (F + 2) ^ (2 * r) < (F + 2) ^ (2 * r + 1) := by
  rw [Nat.pow_succ]
  have hx := pow_pos' F (2 * r)
  generalize (F + 2) ^ (2 * r) = X at hx ⊢
  have h1 : m * X ≤ F * X := Nat.mul_le_mul_right X hm
  have h2 : X * (F + 2) = F * X + 2 * X := by rw [Nat.mul_comm]; exact Nat.add_mul F 2 X
  omega

/-- FLOOD TERMINATION.  For every network (any number of stations, any configurations with the repaired GAC guard, any
states), every fan-out bound `F` and every effective operation of the medium whose transmissions are heard by at most
`F` stations: the measure strictly decreases.  Hence every run of the network - any delivery order, loss, SIMPLE or CBF,
any timer expiry points - performs at most `weight` effective operations and then the medium is silent. -/
theorem net_step_decreases (F : Nat) (n : Net) (op : NetOp) (hg : ∀ nd ∈ n.nodes, nd.c.gacFix = true)
    (hf : fanout op ≤ F) (he : Effective n op) : (netStep n op).weight (F + 2) < n.weight (F + 2) := by
  cases op with
  | lose j =>
    simp only [Effective] at he
    have hx : n.air[j]? = some n.air[j] := List.getElem?_eq_getElem he
    have := airWeight_erase (F + 2) n.air j _ hx
    have hp := pow_pos' F (2 * n.air[j].2.rhl)
    simp only [netStep, Net.weight, wAir] at this ⊢
    omega
  | fire i k rcv =>
    obtain ⟨nd, hnd, hb⟩ := he
    obtain ⟨q, hq⟩ := bufHas_get _ _ hb
    simp only [netStep, hnd, fire, hq, Net.weight, sends, airWeight_append, airWeight_broadcast_one]
    have h1 := nodesWeight_set (F + 2) n.nodes i nd { nd with s := { nd.s with buf := bufDel nd.s.buf k } } hnd
    have h2 := bufWeight_get_del (F + 2) nd.s.buf k q hq
    have h3 := step_arith_fire F q.rhl rcv.length hf
    simp only [wAir, wBuf] at h1 h2 h3 ⊢
    omega
  | deliver j env now rcv =>
    simp only [Effective] at he
    have hx : n.air[j]? = some n.air[j] := List.getElem?_eq_getElem he
    generalize n.air[j] = ip at hx
    obtain ⟨i, p⟩ := ip
    have hair := airWeight_erase (F + 2) n.air j _ hx
    have hp := pow_pos' F (2 * p.rhl)
    simp only [netStep, hx]
    cases hnd : n.nodes[i]? with
    | none => simp only [Net.weight, wAir] at hair ⊢; omega
    | some nd =>
      simp only [Net.weight, airWeight_append]
      have hgn : nd.c.gacFix = true := hg nd (List.mem_of_getElem? hnd)
      have h1 := nodesWeight_set (F + 2) n.nodes i nd { nd with s := (recvR nd.c nd.s p env now).1 } hnd
      simp only [wAir] at hair
      rcases recvR_effect nd.c hgn nd.s p env now with ⟨hs, hbuf⟩ | ⟨q, hs, hr, hbuf⟩
      · rw [hs]
        have h0 : airWeight (F + 2) (broadcast rcv []) = 0 := by simp [broadcast, airWeight]
        rcases hbuf with hb | ⟨k, hb⟩ | ⟨h2, k, q, hr, hb⟩
        · simp only [hb] at h1; omega
        · have := bufWeight_del_le (F + 2) nd.s.buf k
          simp only [hb] at h1; omega
        · have := bufWeight_append (F + 2) nd.s.buf (k, q)
          have ha := step_arith_buf F q.rhl
          rw [hr] at ha
          simp only [hb, wBuf] at h1 this; omega
      · rw [hs, airWeight_broadcast_one]
        have ha := step_arith_send F q.rhl rcv.length hf
        rw [hr] at ha
        simp only [hbuf, wAir] at h1 ⊢; omega

theorem netStep_gacFix (n : Net) (op : NetOp) (hg : ∀ nd ∈ n.nodes, nd.c.gacFix = true) :
    ∀ nd ∈ (netStep n op).nodes, nd.c.gacFix = true := by
  intro nd hnd
  cases op with
  | lose j => exact hg nd hnd
  | fire i k rcv =>
    simp only [netStep] at hnd
    cases h : n.nodes[i]? with
    | none => simp only [h] at hnd; exact hg nd hnd
    | some x =>
      simp only [h] at hnd
      rcases List.mem_or_eq_of_mem_set hnd with h1 | h1
      · exact hg nd h1
      · subst h1; exact hg x (List.mem_of_getElem? h)
  | deliver j env now rcv =>
    simp only [netStep] at hnd
    cases hx : n.air[j]? with
    | none => simp only [hx] at hnd; exact hg nd hnd
    | some ip =>
      obtain ⟨i, p⟩ := ip
      simp only [hx] at hnd
      cases h : n.nodes[i]? with
      | none => simp only [h] at hnd; exact hg nd hnd
      | some x =>
        simp only [h] at hnd
        rcases List.mem_or_eq_of_mem_set hnd with h1 | h1
        · exact hg nd h1
        · subst h1; exact hg x (List.mem_of_getElem? h)

theorem net_run_bound (F : Nat) : ∀ (ops : List NetOp) (n : Net), (∀ nd ∈ n.nodes, nd.c.gacFix = true) →
    AllEffective F n ops → ops.length + (netRun n ops).weight (F + 2) ≤ n.weight (F + 2) := by
  intro ops
  induction ops with
  | nil => intro n _ _; simp [netRun]
  | cons op r ih =>
    intro n hg h
    obtain ⟨h1, h2, h3⟩ := h
    have hd := net_step_decreases F n op hg h2 h1
    have := ih (netStep n op) (netStep_gacFix n op hg) h3
    simp only [netRun, List.length_cons]
    omega

end FlexModel.Geo

/-
Model of `flexstack.geonet.location_table.LocationTable` / `LocationTableEntry` together with the
duplicate-address check that `Router.gn_data_indicate_*` runs before every table update.

The table is an association list keyed by the full 64-bit GN address (the dict hashes M/ST/MID);
DAD compares the 48-bit MID only (`GNAddress.__eq__`).  PDR (float EMA) is not modelled.
The model mirrors the REPAIRED code (fixes C08-*); `Variant` switches single repairs off again so that
the old behaviour can be exhibited by `_witness` theorems.

Import-free apart from `TST`.
-/
import FlexModel.Geo.TST
namespace FlexModel.Geo

abbrev Addr := Nat

/-- MID part of a GN address (`GNAddress.__eq__` compares only this) -/
def mid (a : Addr) : Nat := a % 281474976710656

/-- Long position vector as far as the location table is concerned.  `time` is the acquisition time;
the model only ever looks at `time % 2^32` (`PV.tst`), so theorems may take `time` to be the real
(unwrapped) time while the driver passes the 32-bit field. -/
structure PV where
  time : Nat := 0
  lat : Int := 0
  lon : Int := 0
deriving DecidableEq, Repr

def PV.tst (p : PV) : Nat := p.time % W

structure Entry where
  pv : PV := {}
  /-- `position_vector is not _NO_POSITION_VECTOR` -/
  hasPV : Bool := false
  isNeighbour : Bool := false
  lsPending : Bool := false
  /-- `dpl_deque`, oldest first -/
  dpl : List Nat := []
deriving DecidableEq, Repr

/-- which repairs are present (all `true` = code after the C08 fixes) -/
structure Variant where
  /-- purge rule uses the millisecond clock and the wrap-aware order -/
  msClock : Bool := true
  /-- GBC leaves IS_NEIGHBOUR of an existing entry alone -/
  gbcKeepsNb : Bool := true
  /-- "no PV yet" is a flag, not `tst == 0` -/
  pvFlag : Bool := true
  /-- expired entries are purged before a reception is processed -/
  prePurge : Bool := true
deriving DecidableEq, Repr

structure Cfg where
  self : Addr
  /-- `itsGnLifetimeLocTE * 1000` -/
  lifetimeMs : Nat
  /-- `itsGnDPLLength` -/
  dplLen : Nat
  v : Variant := {}
deriving Repr

abbrev Table := List (Addr × Entry)

def lookup : Table → Addr → Option Entry
  | [], _ => none
  | (k, e) :: r, a => if k = a then some e else lookup r a

def insert : Table → Addr → Entry → Table
  | [], a, e => [(a, e)]
  | (k, x) :: r, a, e => if k = a then (k, e) :: r else (k, x) :: insert r a e

/-- age of a timestamp at receiver clock `now` (ITS ms, unreduced) -/
def ageAt (c : Cfg) (now tst : Nat) : Nat :=
  if c.v.msClock then TST.age (now % W) tst else TST.ageOld now tst

/-- keep-condition of `refresh_table`: an entry without PV (Location Service placeholder) has no age and is
kept exactly while its LS is pending; otherwise the PV must not be older than the lifetime.
(Before the repair every entry was aged by its - possibly default 0 - timestamp.) -/
def fresh (c : Cfg) (now : Nat) (e : Entry) : Bool :=
  if c.v.msClock && !e.hasPV then e.lsPending
  else decide (ageAt c now e.pv.tst ≤ c.lifetimeMs)

/-- `refresh_table` -/
def refresh (c : Cfg) (t : Table) (now : Nat) : Table := t.filter (fun ke => fresh c now ke.2)

/-- `update_position_vector` -/
def updPV (c : Cfg) (e : Entry) (p : PV) : Entry :=
  if (if c.v.pvFlag then !e.hasPV else e.pv.tst == 0) then { e with pv := p, hasPV := true }
  else if TST.gt p.tst e.pv.tst then { e with pv := p, hasPV := true }
  else e

/-- `check_duplicate_sn`, non-duplicate branch: ring of the last `L` sequence numbers -/
def dplPush (L : Nat) (d : List Nat) (sn : Nat) : List Nat :=
  if d.length == L then d.drop 1 ++ [sn] else d ++ [sn]

inductive Kind | beacon | shb | tsb | gbc | gac | guc | lsReq | lsRep
deriving DecidableEq, Repr

def Kind.singleHop : Kind → Bool
  | .beacon | .shb => true
  | _ => false

inductive Res | ok | dup | dad
deriving DecidableEq, Repr

/-- the per-entry part of `new_<kind>_packet` after get-or-create (`old = none`: entry just created):
DPD (multi-hop kinds only), PV update, DPL push, neighbour rule.
`dup` = `DuplicatedPacketException` (raised before any update and before the closing purge). -/
def entryStep (c : Cfg) (old : Option Entry) (k : Kind) (p : PV) (sn : Nat) : Entry × Res :=
  match old with
  | some e =>
    if k.singleHop then ({ updPV c e p with isNeighbour := true }, .ok)
    else if e.dpl.contains sn then (e, .dup)
    else
      let e1 := updPV c { e with dpl := dplPush c.dplLen e.dpl sn } p
      (if k = .gbc ∧ c.v.gbcKeepsNb = false then { e1 with isNeighbour := false } else e1, .ok)
  | none =>
    if k.singleHop then ({ updPV c {} p with isNeighbour := true }, .ok)
    else ({ updPV c { dpl := dplPush c.dplLen [] sn } p with isNeighbour := false }, .ok)

/-- one reception: `duplicate_address_detection`, then `LocationTable.new_<kind>_packet`
(= purge, get-or-create, `entryStep`, purge). -/
def recv (c : Cfg) (t : Table) (k : Kind) (a : Addr) (p : PV) (sn now : Nat) : Table × Res :=
  if mid a = mid c.self then (t, .dad)
  else
    let t0 := if c.v.prePurge then refresh c t now else t
    let r := entryStep c (lookup t0 a) k p sn
    if r.2 = .dup then (t0, .dup) else (refresh c (insert t0 a r.1) now, .ok)

/-- `ensure_entry(a).ls_pending = True` (`gn_ls_request`) -/
def ensure (t : Table) (a : Addr) : Table :=
  match lookup t a with
  | some e => insert t a { e with lsPending := true }
  | none => insert t a { lsPending := true }

/-- operations of a history; every operation carries the receiver clock at which it happens -/
inductive Op
  | pkt (k : Kind) (a : Addr) (p : PV) (sn now : Nat)
  | ensure (a : Addr)
  | refresh (now : Nat)
  /-- pure clock advance: the table is not touched -/
  | tick (now : Nat)
deriving Repr

def step (c : Cfg) (t : Table) : Op → Table
  | .pkt k a p sn now => (recv c t k a p sn now).1
  | .ensure a => ensure t a
  | .refresh now => refresh c t now
  | .tick _ => t

def run (c : Cfg) (ops : List Op) : Table := ops.foldl (step c) []

/-- `get_entry` as it is: no expiry check (lazy expiry, known finding C08-KF1) -/
def getEntry (t : Table) (a : Addr) : Option Entry := lookup t a

/-- `get_entry` of a table with eager expiry (the `fixed` variant of C08-KF1) -/
def getEntryEager (c : Cfg) (t : Table) (a : Addr) (now : Nat) : Option Entry := lookup (refresh c t now) a

/-- `get_neighbours` (addresses) -/
def neighbours (t : Table) : List Addr := (t.filter (fun ke => ke.2.isNeighbour)).map (·.1)

def neighboursEager (c : Cfg) (t : Table) (now : Nat) : List Addr := neighbours (refresh c t now)

/-! ## Well-formed configuration: `itsGnDPLLength > 0`

`dplPush` above is the ring for `L > 0`.  Python builds `deque(maxlen=L)`; for `L = 0` the test
`len(self.dpl_deque) == self.dpl_deque.maxlen` holds on the EMPTY deque and `popleft()` raises `IndexError` - every
multi-hop reception then dies in `check_duplicate_sn`, whereas `dplPush 0` would grow without bound.  `dplPushE` is the
Python behaviour including that branch; all history theorems about the duplicate list assume `Cfg.WF`
(`Props.C08.dplLen_default_wf`: the MIB default, regenerated from the source on every run, is positive). -/

inductive DplErr | indexError
deriving DecidableEq, Repr

/-- `check_duplicate_sn`, non-duplicate branch, exactly as Python executes it on a `deque(maxlen=L)` -/
def dplPushE (L : Nat) (d : List Nat) (sn : Nat) : Except DplErr (List Nat) :=
  if d.length == L then
    match d with
    | [] => .error .indexError            -- `popleft()` on an empty deque (only possible for L = 0)
    | _ :: r => .ok (r ++ [sn])
  else .ok (d ++ [sn])

/-- the configuration is well-formed: the duplicate packet list has room for at least one sequence number -/
def Cfg.WF (c : Cfg) : Prop := 0 < c.dplLen

instance (c : Cfg) : Decidable c.WF := by unfold Cfg.WF; infer_instance

end FlexModel.Geo

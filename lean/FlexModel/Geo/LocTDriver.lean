import FlexModel.Proto
import FlexModel.Geo.LocT
namespace FlexModel.Geo
open FlexModel.Proto

def kind? : String → Option Kind
  | "beacon" => some .beacon | "shb" => some .shb | "tsb" => some .tsb | "gbc" => some .gbc
  | "gac" => some .gac | "guc" => some .guc | "ls_request" => some .lsReq | "ls_reply" => some .lsRep
  | _ => none

def Res.str : Res → String
  | .ok => "ok" | .dup => "dup" | .dad => "dad"

def b01 (b : Bool) : String := if b then "1" else "0"

def Entry.str (a : Addr) (e : Entry) : String :=
  s!"{a}:{e.pv.tst}:{e.pv.lat}:{e.pv.lon}:{b01 e.isNeighbour}:{b01 e.lsPending}:" ++
    ",".intercalate (e.dpl.map toString)

/-- insertion sort by address (tables are tiny) -/
def insSorted (x : Addr × Entry) : Table → Table
  | [] => [x]
  | y :: r => if x.1 ≤ y.1 then x :: y :: r else y :: insSorted x r

def insNat (x : Nat) : List Nat → List Nat
  | [] => [x]
  | y :: r => if x ≤ y then x :: y :: r else y :: insNat x r

def Table.str (t : Table) : String :=
  match t.foldr insSorted [] with
  | [] => "-"
  | s => " ".intercalate (s.map fun ke => Entry.str ke.1 ke.2)

structure LocTSt where
  c : Cfg := { self := 0, lifetimeMs := 20000, dplLen := 8 }
  t : Table := []

def loctStep (s : LocTSt) (tk : List String) : LocTSt × String :=
  match tk with
  | ["cfg", a, l, d] =>
    match nat? a, nat? l, nat? d with
    | some a, some l, some d => ({ c := { self := a, lifetimeMs := l, dplLen := d }, t := [] }, "ok")
    | _, _, _ => (s, "bad-op")
  | ["pkt", k, a, tst, lat, lon, sn, now] =>
    match kind? k, nat? a, nat? tst, int? lat, int? lon, nat? sn, nat? now with
    | some k, some a, some tst, some lat, some lon, some sn, some now =>
      let r := recv s.c s.t k a { time := tst, lat := lat, lon := lon } sn now
      ({ s with t := r.1 }, r.2.str ++ " " ++ Table.str r.1)
    | _, _, _, _, _, _, _ => (s, "bad-op")
  | ["ens", a] =>
    match nat? a with
    | some a => let t := ensure s.t a; ({ s with t := t }, Table.str t)
    | _ => (s, "bad-op")
  | ["ref", now] =>
    match nat? now with
    | some now => let t := refresh s.c s.t now; ({ s with t := t }, Table.str t)
    | _ => (s, "bad-op")
  | ["get", a] =>
    match nat? a with
    | some a => (s, match getEntry s.t a with | some e => Entry.str a e | none => "none")
    | _ => (s, "bad-op")
  | ["gete", a, now] =>
    match nat? a, nat? now with
    | some a, some now => (s, match getEntryEager s.c s.t a now with | some e => Entry.str a e | none => "none")
    | _, _ => (s, "bad-op")
  | ["dple", l, sn, d] =>
    -- `check_duplicate_sn` non-duplicate branch as Python runs it on deque(maxlen=l): "dple <L> <sn> <d1,d2,..|->"
    match nat? l, nat? sn with
    | some l, some sn =>
      let ds := if d = "-" then some [] else (d.splitOn ",").foldr (fun x acc => match nat? x, acc with
        | some v, some r => some (v :: r) | _, _ => none) (some [])
      match ds with
      | some ds =>
        (s, match dplPushE l ds sn with
          | .error _ => "IndexError"
          | .ok r => "ok " ++ (if r.isEmpty then "-" else ",".intercalate (r.map toString)) ++
              (if l > 0 && r == dplPush l ds sn then "" else " !ring"))
      | none => (s, "bad-op")
    | _, _ => (s, "bad-op")
  | ["nbrs"] => (s, match neighbours s.t with | [] => "-" | l => joinNat (l.foldr insNat []))
  | [op, a, b] =>
    match nat? a, nat? b with
    | some a, some b =>
      match op with
      | "gt" => (s, b01 (TST.gt a b)) | "ge" => (s, b01 (TST.ge a b))
      | "lt" => (s, b01 (TST.lt a b)) | "le" => (s, b01 (TST.le a b))
      | "sub" => (s, toString (TST.sub a b)) | "age" => (s, toString (TST.age a b))
      | _ => (s, "bad-op")
    | _, _ => (s, "bad-op")
  | _ => (s, "bad-op")

def loctDomain : Domain := { σ := LocTSt, init := {}, step := loctStep }

end FlexModel.Geo

/-
Model of the multi-hop receive handlers of `flexstack.geonet.router.Router`
(`gn_data_indicate_{tsb,gbc,gac,guc,ls_request,ls_reply}`, `gn_data_forward_gbc`, `gn_area_cbf_forwarding`,
`_cbf_timeout`) over DECODED packets, plus the requester side of the Location Service as far as the receive path touches it
(`gn_ls_request`, completion + flush of the LS packet buffer on an LS reply).  The location table is the model of `LocT.lean`.

Opaque Boolean inputs (`Env`), supplied by the harness from the real run: geometry (F ≥ 0 at ego / at the sender,
area size gate), PDR gate, outcome of greedy forwarding, CBF timeout.  Their float maths is not part of C06.

The model mirrors the REPAIRED code (fixes/C06-*); `gacFix` / `cbfFix` switch single repairs off for `_witness`
theorems.  Import-free apart from `LocT`.
-/
import FlexModel.Geo.LocT
namespace FlexModel.Geo

/-- decoded GeoNetworking packet as far as the forwarding rules look at it -/
structure Pkt where
  kind : Kind
  /-- Basic Header RHL -/
  rhl : Nat
  /-- Common Header MHL -/
  mhl : Nat
  so : Addr
  soPV : PV := {}
  sn : Nat := 0
  /-- GUC / LS reply: address of the DE position vector; LS request: sought address -/
  de : Addr := 0
  /-- GUC / LS reply: DE short position vector -/
  dePV : PV := {}
  /-- store-carry-forward bit of the traffic class -/
  scf : Bool := false
  /-- everything else (lifetime, traffic class, area, payload …) as one opaque value -/
  body : Nat := 0
deriving DecidableEq, Repr

structure Env where
  /-- F(ego) ≥ 0 for the packet's area (GBC/GAC) -/
  inside : Bool := false
  /-- area larger than itsGnMaxGeoAreaSize (§B.3) -/
  areaTooBig : Bool := false
  /-- PDR(SO) above itsGnMaxPacketDataRate (§B.2) -/
  pdrExceeded : Bool := false
  /-- annex D: SO LocTE exists, PAI set and F(SO) ≥ 0 -/
  senderInside : Bool := false
  /-- return value of `gn_greedy_forwarding` -/
  greedy : Bool := true
  /-- CBF timeout (opaque number handed to the timer) -/
  cbfMs : Nat := 0
deriving DecidableEq, Repr

structure RCfg where
  loct : Cfg
  /-- itsGnAreaForwardingAlgorithm == CBF (otherwise SIMPLE/UNSPECIFIED) -/
  cbf : Bool := false
  /-- GAC forwarder stops for a decremented hop limit ≤ 0 (before the repair: == 0) -/
  gacFix : Bool := true
  /-- a duplicate GBC overheard under CBF discards the buffered copy (before the repair: DPD returned first) -/
  cbfFix : Bool := true
deriving Repr

abbrev Key := Addr × Nat

inductive Act
  | deliver (k : Kind) (so : Addr) (sn : Nat)
  | send (p : Pkt)
  | arm (key : Key) (ms : Nat)
  | cancel (key : Key)
  /-- LS reply originated for a request that sought this station -/
  | reply (to : Addr)
  /-- LS request for `a` originated (`_send_ls_request_packet`) and the LS retransmit timer started -/
  | lsSend (a : Addr)
  /-- a GUC request that waited for the Location Service of `a` re-submitted to the GUC source operations
  (`gn_data_request_guc`; whether a frame goes out is decided there: neighbours, SCF, greedy forwarding - not modelled) -/
  | origGuc (a : Addr)
deriving DecidableEq, Repr

structure RSt where
  t : Table := []
  /-- CBF buffer: key → re-encoded packet waiting for its timer -/
  buf : List (Key × Pkt) := []
  /-- `_ls_retransmit_counters` / `_ls_timers`: sought addresses with a Location Service in progress -/
  lsCnt : List Addr := []
  /-- `_ls_packet_buffers`: sought address ↦ number of GUC requests waiting for the LS reply -/
  lsBuf : List (Addr × Nat) := []
deriving Repr

def bufHas (b : List (Key × Pkt)) (k : Key) : Bool := b.any (fun x => x.1 == k)
def bufDel (b : List (Key × Pkt)) (k : Key) : List (Key × Pkt) := b.filter (fun x => !(x.1 == k))
def bufGet (b : List (Key × Pkt)) (k : Key) : Option Pkt := (b.find? (fun x => x.1 == k)).map (·.2)

/-- forwarded copy: RHL one lower -/
def fwd (p : Pkt) : Pkt := { p with rhl := p.rhl - 1 }

/-- §C.3 / step 8: DE PV of a forwarded GUC / LS reply is refreshed from the LocT only when DE is a neighbour and the
LocT PV is strictly newer -/
def refreshDE (t : Table) (p : Pkt) : Pkt :=
  match lookup t p.de with
  | some e => if e.isNeighbour && TST.gt e.pv.tst p.dePV.tst then { p with dePV := e.pv } else p
  | none => p

/-- `_cbf_discard` / the duplicate branch of `gn_area_cbf_forwarding` -/
def cbfDiscard (s : RSt) (k : Key) : RSt × List Act :=
  if bufHas s.buf k then ({ s with buf := bufDel s.buf k }, [.cancel k]) else (s, [])

/-- `gn_area_cbf_forwarding` for a packet that passed DPD -/
def cbfForward (s : RSt) (q : Pkt) (ms : Nat) : RSt × List Act :=
  let k : Key := (q.so, q.sn)
  if bufHas s.buf k then ({ s with buf := bufDel s.buf k }, [.cancel k])
  else ({ s with buf := s.buf ++ [(k, q)] }, [.arm k ms])

/-- `gn_data_forward_gbc` (called with received RHL > 1) -/
def forwardGbc (c : RCfg) (s : RSt) (p : Pkt) (env : Env) : RSt × List Act :=
  let q := fwd p
  if !(neighbours s.t).isEmpty || !p.scf then
    if env.inside then
      if c.cbf then cbfForward s q env.cbfMs else (s, [.send q])
    else if env.senderInside then (s, [])
    else if env.greedy then (s, [.send q]) else (s, [])
  else (s, [.send q])

/-! ### Location Service state at the requester (§10.3.7.1) -/

def lsBufGet (b : List (Addr × Nat)) (a : Addr) : Option Nat := (b.find? (fun x => x.1 == a)).map (·.2)
def lsBufDel (b : List (Addr × Nat)) (a : Addr) : List (Addr × Nat) := b.filter (fun x => !(x.1 == a))
def lsBufSet (b : List (Addr × Nat)) (a : Addr) (n : Nat) : List (Addr × Nat) := (a, n) :: lsBufDel b a

/-- `entry.ls_pending = False` for an existing entry -/
def clearLs (t : Table) (a : Addr) : Table :=
  match lookup t a with
  | some e => insert t a { e with lsPending := false }
  | none => t

/-- `(entry is not None and entry.ls_pending) or sought_gn_addr in self._ls_retransmit_counters` -/
def lsPend (s : RSt) (a : Addr) : Bool :=
  (match lookup s.t a with | some e => e.lsPending | none => false) || s.lsCnt.contains a

/-- `gn_ls_request(a, buffered_request)`: an LS already in progress only queues the request; otherwise placeholder entry,
LS request packet, retransmit timer -/
def lsRequest (s : RSt) (a : Addr) (req : Bool) : RSt × List Act :=
  if lsPend s a then
    ({ s with t := ensure s.t a,
              lsBuf := if req then lsBufSet s.lsBuf a ((lsBufGet s.lsBuf a).getD 0 + 1) else s.lsBuf }, [])
  else
    ({ s with t := ensure s.t a, lsBuf := lsBufSet s.lsBuf a (if req then 1 else 0), lsCnt := a :: s.lsCnt },
      [.lsSend a])

/-- the flush of the LS packet buffer: `gn_data_request_guc(req)` for each of the `n` buffered requests, as far as the
modelled state is concerned - a request whose destination has no entry (it expired at once) or a pending LS goes back to the
Location Service, otherwise the GUC source operations run -/
def flushReqs (s : RSt) (a : Addr) : Nat → RSt × List Act
  | 0 => (s, [])
  | n + 1 =>
    let r := match lookup s.t a with
      | some e => if e.lsPending then lsRequest s a true else (s, [.origGuc a])
      | none => lsRequest s a true
    let r2 := flushReqs r.1 a n
    (r2.1, r.2 ++ r2.2)

/-- §10.3.7.1.4, LS reply received by the requester: timer, counter and buffer of the sought address are dropped,
`ls_pending` of its entry is cleared, the buffered requests are re-submitted -/
def lsComplete (s : RSt) (a : Addr) : RSt × List Act :=
  let n := (lsBufGet s.lsBuf a).getD 0
  flushReqs { s with t := clearLs s.t a, lsCnt := s.lsCnt.filter (fun x => !(x == a)), lsBuf := lsBufDel s.lsBuf a } a n

/-- actions of the handler after the location table accepted the packet (`recv … = ok`); `s.t` is the updated table -/
def handle (c : RCfg) (s : RSt) (p : Pkt) (env : Env) : RSt × List Act :=
  let noNb := (neighbours s.t).isEmpty
  let me := mid c.loct.self
  match p.kind with
  | .beacon => (s, [])
  | .shb => (s, [.deliver .shb p.so 0])
  | .tsb =>
    let d := [Act.deliver .tsb p.so p.sn]
    if env.pdrExceeded then (s, d)
    else if p.rhl - 1 > 0 then
      if noNb && p.scf then (s, d) else (s, .send (fwd p) :: d)
    else (s, d)
  | .gbc =>
    let d := if env.inside then [Act.deliver .gbc p.so p.sn] else []
    if env.areaTooBig then (s, d)
    else if env.pdrExceeded then (s, d)
    else if p.rhl - 1 > 0 then
      let r := forwardGbc c s p env
      (r.1, r.2 ++ d)
    else (s, d)
  | .gac =>
    if env.inside then (s, [.deliver .gac p.so p.sn])
    else if env.areaTooBig then (s, [])
    else if env.pdrExceeded then (s, [])
    else if env.senderInside then (s, [])
    else if (if c.gacFix then p.rhl ≤ 1 else p.rhl = 1) then (s, [])
    else if noNb && p.scf then (s, [])
    else if env.greedy then
      -- `set_rhl(rhl - 1)` stores `(rhl - 1) % 256`: 255 for a received RHL of 0 (only reachable without `gacFix`)
      (s, [.send { p with rhl := if p.rhl = 0 then 255 else p.rhl - 1 }])
    else (s, [])
  | .guc =>
    if mid p.de = me then (s, [.deliver .guc p.so p.sn])
    else if env.pdrExceeded then (s, [])
    else
      let q := refreshDE s.t p
      if p.rhl - 1 > 0 then
        if noNb && p.scf then (s, [])
        else if env.greedy then (s, [.send (fwd q)]) else (s, [])
      else (s, [])
  | .lsReq =>
    if mid p.de = me then
      match lookup s.t p.so with
      | some _ => (s, [.reply p.so])
      | none => (s, [])
    else if env.pdrExceeded then (s, [])
    else if p.rhl - 1 > 0 then (s, [.send (fwd p)]) else (s, [])
  | .lsRep =>
    if mid p.de = me then lsComplete s p.so
    else if env.pdrExceeded then (s, [])
    else
      let q := refreshDE s.t p
      if p.rhl - 1 > 0 then (s, [.send (fwd q)]) else (s, [])

/-- one received frame: hop-limit sanity check of `process_common_header`, DAD + location table, handler -/
def recvR (c : RCfg) (s : RSt) (p : Pkt) (env : Env) (now : Nat) : RSt × List Act :=
  if p.rhl > p.mhl then (s, [])
  else
    let r := recv c.loct s.t p.kind p.so p.soPV p.sn now
    match r.2 with
    | .dad => (s, [])
    | .dup =>
      let s1 := { s with t := r.1 }
      if p.kind = .gbc ∧ c.cbf = true ∧ c.cbfFix = true then cbfDiscard s1 (p.so, p.sn) else (s1, [])
    | .ok => handle c { s with t := r.1 } p env

/-- `_cbf_timeout` -/
def fire (s : RSt) (k : Key) : RSt × List Act :=
  match bufGet s.buf k with
  | some q => ({ s with buf := bufDel s.buf k }, [.send q])
  | none => (s, [])

inductive ROp
  | rx (p : Pkt) (env : Env) (now : Nat)
  | fire (k : Key)
  /-- the station itself starts (or joins) a Location Service for `a` (`gn_ls_request`), with or without a GUC request
  to be buffered -/
  | lsreq (a : Addr) (req : Bool)
deriving Repr

def rstep (c : RCfg) (s : RSt) : ROp → RSt × List Act
  | .rx p env now => recvR c s p env now
  | .fire k => fire s k
  | .lsreq a req => lsRequest s a req

/-- run a history; the log keeps the actions of every operation (one list per operation) -/
def rrun (c : RCfg) : RSt → List ROp → RSt × List (List Act)
  | s, [] => (s, [])
  | s, op :: r =>
    let x := rstep c s op
    let y := rrun c x.1 r
    (y.1, x.2 :: y.2)

end FlexModel.Geo

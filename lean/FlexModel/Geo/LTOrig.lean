/-
Model of the ASSEMBLY of an originated GeoNetworking packet's basic header by the source operations of
`flexstack.geonet.router.Router` (Round 5 of C20): the basic header is built ONCE per operation from the resolved hop
limit and the requested (or default) lifetime; with itsGnSecurity = ENABLED the operations that have a security branch
(SHB, GBC, GAC) only change its NH to 2 (`basic_header.set_nh(BasicNH.SECURED_PACKET)`) and put the common header
(with MHL) inside the signed envelope.  Import-free apart from `LT.lean` so the line-protocol driver can run it.

Also here: `emitAll` (what a station with any number of originating threads writes, in the order some schedule
serialises the constructor calls) and `Memo`, a NEGATIVE model - a last-value memo in two shared variables - kept only as
the machine-checked reason why the regenerated fact `Generated.LTSrc.sharedWrites = []` is an obligation.
-/
import FlexModel.Geo.LT

namespace FlexModel.Geo

/-- the fields of `BasicHeader` that are chosen per packet (version and reserved are constants) -/
structure BasicHdr where
  nh : Nat
  lt : LT
  rhl : Nat
deriving DecidableEq, Repr

/-- `BasicHeader.set_nh`: a copy with another NH, LT and RHL untouched -/
def BasicHdr.setNh (b : BasicHdr) (nh : Nat) : BasicHdr := { b with nh := nh }

/-- the source operations that have an `itsGnSecurity == ENABLED` branch (GUC, beacon and the LS packets are sent
unsecured whatever the MIB says) -/
def hasSecBranch : Transport → Bool
  | .shb | .gbc | .gac => true
  | _ => false

/-- what leaves the station: the basic header (in the clear), the MHL of the common header, and whether the common
header travels inside a signed envelope -/
structure Originated where
  hdr : BasicHdr
  mhl : Nat
  secured : Bool
deriving DecidableEq, Repr

/-- a source operation. `security` = (itsGnSecurity = ENABLED); `reqHops` = `request.max_hop_limit`, `dflt` =
itsGnDefaultHopLimit; `reqMs` = requested lifetime (ms) if any, `dfltS` = itsGnDefaultPacketLifetime -/
def originate (security capped : Bool) (t : Transport) (reqHops dflt : Nat) (reqMs : Option Nat) (dfltS : Nat) :
    Originated :=
  let h := srcHops t reqHops dflt
  let b : BasicHdr := ⟨1, srcLifetime capped reqMs dfltS, h.1⟩
  if security && hasSecBranch t then ⟨b.setNh 2, h.2, true⟩ else ⟨b, h.2, false⟩

/-- lifetimes written for a HISTORY of requests: the constructor calls of any number of originating threads in the order
a schedule serialises them.  The constructors are functions of their arguments (tie: `Generated.LTSrc.sharedWrites`),
so the history is a `map` -/
def emitAll (capped : Bool) (dfltS : Nat) (reqs : List (Option Nat)) : List LT :=
  reqs.map (fun r => srcLifetime capped r dfltS)

/-! ### Negative model: a last-value memo in two shared variables (NOT the code; see the header) -/

structure Memo where
  key : Option Nat
  val : LT
deriving DecidableEq, Repr

/-- the pieces of a memoised constructor that other threads can observe between -/
inductive MemoOp
  | storeKey (ms : Nat)     -- `cls._last_millis = millis`                (miss, first half)
  | storeVal (ms : Nat)     -- `cls._last_lt = LT().set_value_in_millis(millis)` (miss, second half)
  | call (ms : Nat)         -- a whole constructor call that is not pre-empted
deriving DecidableEq, Repr

/-- one step; the `Option LT` is the lifetime a completed call writes on the wire -/
def Memo.step (capped : Bool) (m : Memo) : MemoOp → Memo × Option LT
  | .storeKey ms => ({ m with key := some ms }, none)
  | .storeVal ms => ({ m with val := LT.setMillis capped ms }, some (LT.setMillis capped ms))
  | .call ms =>
      if m.key = some ms then (m, some m.val)
      else (⟨some ms, LT.setMillis capped ms⟩, some (LT.setMillis capped ms))

def Memo.run (capped : Bool) : Memo → List MemoOp → List (Option LT)
  | _, [] => []
  | m, op :: ops => (m.step capped op).2 :: Memo.run capped (m.step capped op).1 ops

end FlexModel.Geo

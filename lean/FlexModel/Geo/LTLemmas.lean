/-
Helper lemmas for Props/C20.lean (and for the LT / hop-limit fields of Props/C02.lean): the model of `LT.lean` meets the
Spec of `LTSpec.lean`.  Core Lean only.
-/
import FlexModel.Geo.LT
import FlexModel.Geo.LTSpec

namespace FlexModel.Geo.LTLemmas
open FlexModel.Geo

/-! ## 1. Lifetime quantiser (model-level facts about `LT.greatest`, all `v : Nat`) -/

theorem unit_cases (b : Nat) (h : b < 4) : b = 0 ∨ b = 1 ∨ b = 2 ∨ b = 3 := by omega

/-- never exceeds the request (all `v`, not only ≤ 7 000 000) -/
theorem greatest_le (v : Nat) : (LT.greatest v).millis ≤ v := by
  simp only [LT.greatest, LT.stepQ, LT.unit]
  repeat' split
  all_goals (simp only [LT.millis, LT.unit] at *; omega)

/-- the written lifetime is the largest representable one not exceeding the request -/
theorem greatest_max (v : Nat) (c : LT) (hc : c.WF) (hle : c.millis ≤ v) :
    c.millis ≤ (LT.greatest v).millis := by
  obtain ⟨hm, hb⟩ := hc
  obtain ⟨m, b⟩ := c
  simp only at hm hb
  rcases unit_cases b hb with rfl | rfl | rfl | rfl <;>
  · simp only [LT.millis, LT.unit] at hle
    simp only [LT.greatest, LT.stepQ, LT.unit]
    repeat' split
    all_goals (simp only [LT.millis, LT.unit] at *; omega)

/-- non-zero whenever at least 50 ms were requested -/
theorem greatest_pos (v : Nat) (h : 50 ≤ v) : 0 < (LT.greatest v).millis := by
  simp only [LT.greatest, LT.stepQ, LT.unit]
  repeat' split
  all_goals (simp only [LT.millis, LT.unit] at *; omega)

/-- the result is always a well-formed (6-bit, 2-bit) code -/
theorem greatest_wf (v : Nat) : (LT.greatest v).WF := by
  simp only [LT.greatest, LT.stepQ, LT.unit]
  repeat' split
  all_goals (simp only [LT.WF] at *; omega)

/-- Full-strength statement for a quantiser without the ≥ 1 000 000 ms cap (`capped = false`). -/
theorem setMillis_spec (v : Nat) :
    let r := LT.setMillis false v
    r.WF ∧ r.millis ≤ v ∧ (∀ c : LT, c.WF → c.millis ≤ v → c.millis ≤ r.millis) ∧ (50 ≤ v → 0 < r.millis) := by
  simp only [LT.setMillis, Bool.false_eq_true, false_and, if_false]
  exact ⟨greatest_wf v, greatest_le v, fun c hc h => greatest_max v c hc h, greatest_pos v⟩

/-- The code as it is (`capped = true`): the property outside the known region `v ≥ 1 000 000`. -/
theorem setMillis_spec_partial (v : Nat) (hv : v < 1000000) :
    let r := LT.setMillis true v
    r.WF ∧ r.millis ≤ v ∧ (∀ c : LT, c.WF → c.millis ≤ v → c.millis ≤ r.millis) ∧ (50 ≤ v → 0 < r.millis) := by
  have : ¬ (1000000 ≤ v) := by omega
  simp only [LT.setMillis, this, and_false, if_false]
  exact ⟨greatest_wf v, greatest_le v, fun c hc h => greatest_max v c hc h, greatest_pos v⟩

/-- "never exceeds" holds for the capped code for every `v` (the cap only loses lifetime). -/
theorem setMillis_le (capped : Bool) (v : Nat) : (LT.setMillis capped v).millis ≤ v := by
  unfold LT.setMillis
  split
  · simp [LT.millis]
  · exact greatest_le v

theorem setMillis_wf (capped : Bool) (v : Nat) : (LT.setMillis capped v).WF := by
  unfold LT.setMillis
  split
  · simp [LT.WF]
  · exact greatest_wf v

/-! ## 2. Lifetime octet: codec round trip, and the model's reading of an octet IS the standard's (§9.6.4) -/

/-- `mult << 2 | base` is `4·mult + base` on well-formed codes -/
theorem encode_eq (c : LT) (h : c.WF) : c.encode = 4 * c.mult + c.base := by
  obtain ⟨m, b⟩ := c
  obtain ⟨hm, hb⟩ := h
  simp only at hm hb
  have : ∀ m : Fin 64, ∀ b : Fin 4, LT.encode ⟨m.1, b.1⟩ = 4 * m.1 + b.1 := by decide +kernel
  exact this ⟨m, hm⟩ ⟨b, hb⟩

theorem encode_lt (c : LT) (h : c.WF) : c.encode < 256 := by
  rw [encode_eq c h]; obtain ⟨h1, h2⟩ := h; omega

theorem decode_encode (c : LT) (h : c.WF) : LT.decode c.encode = c := by
  obtain ⟨m, b⟩ := c
  obtain ⟨hm, hb⟩ := h
  simp only at hm hb
  have : ∀ m : Fin 64, ∀ b : Fin 4, LT.decode (LT.encode ⟨m.1, b.1⟩) = ⟨m.1, b.1⟩ := by decide +kernel
  exact this ⟨m, hm⟩ ⟨b, hb⟩

theorem encode_decode (b : Nat) (h : b < 256) : (LT.decode b).encode = b ∧ (LT.decode b).WF := by
  have : ∀ b : Fin 256, (LT.decode b.1).encode = b.1 ∧ (LT.decode b.1).WF := by decide +kernel
  exact this ⟨b, h⟩

/-- decoding the lifetime octet yields the code its sender encoded -/
theorem decode_millis (c : LT) (h : c.WF) : (LT.decode c.encode).millis = c.millis := by
  rw [decode_encode c h]

/-- **decoding a lifetime field yields the value the standard assigns to the octet** — for all 256 octets the
shift/mask decoder followed by `get_value_in_millis` equals `LTSpec.octetMillis` (div/mod reading of §9.6.4 Table 5) -/
theorem decode_reads_octet (b : Nat) (h : b < 256) : (LT.decode b).millis = LTSpec.octetMillis b := by
  have : ∀ b : Fin 256, (LT.decode b.1).millis = LTSpec.octetMillis b.1 := by decide +kernel
  exact this ⟨b, h⟩

/-- and the octet an encoder writes for a code stands, by the standard's table, for the code's value -/
theorem encode_octet_millis (c : LT) (h : c.WF) : LTSpec.octetMillis c.encode = c.millis := by
  rw [← decode_reads_octet _ (encode_lt c h), decode_encode c h]

/-! ## 3. The written lifetime octet is the one the property demands (`LTSpec.IsLifetimeOctet`) -/

/-- Spec sanity (no model function involved): an admissible octet is non-zero from 50 ms on — the third clause of the
property follows from "largest representable not exceeding" because octet 4 stands for 50 ms -/
theorem spec_nonzero_from_50 (ms b : Nat) (h : LTSpec.IsLifetimeOctet ms b) (h50 : 50 ≤ ms) :
    0 < LTSpec.octetMillis b := by
  have := h.2.2 4 (by omega) (by show LTSpec.octetMillis 4 ≤ ms; have : LTSpec.octetMillis 4 = 50 := by decide
                                 omega)
  have h4 : LTSpec.octetMillis 4 = 50 := by decide
  omega

/-- Spec sanity: the demanded VALUE is unique (the octet need not be: 1000 ms = octet 0x50 = octet 0x05) -/
theorem spec_value_unique (ms b b' : Nat) (h : LTSpec.IsLifetimeOctet ms b) (h' : LTSpec.IsLifetimeOctet ms b') :
    LTSpec.octetMillis b = LTSpec.octetMillis b' := by
  have := h.2.2 b' h'.1 h'.2.1
  have := h'.2.2 b h.1 h.2.1
  omega

theorem greatest_octet (v : Nat) : LTSpec.IsLifetimeOctet v (LT.greatest v).encode := by
  have wf := greatest_wf v
  refine ⟨encode_lt _ wf, ?_, ?_⟩
  · rw [encode_octet_millis _ wf]; exact greatest_le v
  · intro b' hb' hle
    obtain ⟨_, hwf⟩ := encode_decode b' hb'
    rw [encode_octet_millis _ wf, ← decode_reads_octet b' hb']
    exact greatest_max v _ hwf (by rw [decode_reads_octet b' hb']; exact hle)

/-- **clauses 1-3, repaired quantiser**: for EVERY requested lifetime the written octet is the demanded one -/
theorem written_octet_meets_spec (v : Nat) : LTSpec.IsLifetimeOctet v (LT.setMillis false v).encode := by
  simp only [LT.setMillis, Bool.false_eq_true, false_and, if_false]
  exact greatest_octet v

/-- **clauses 1-3, the code as it is**: for every requested lifetime below 1 000 000 ms (known finding C20-KF1 above) -/
theorem written_octet_meets_spec_partial (v : Nat) (hv : v < 1000000) :
    LTSpec.IsLifetimeOctet v (LT.setMillis true v).encode := by
  have : ¬ (1000000 ≤ v) := by omega
  simp only [LT.setMillis, this, and_false, if_false]
  exact greatest_octet v

/-- C20-KF1 is EXACTLY the band `v ≥ 1 000 000`: there the code as it is writes an octet standing for 0 ms, which is
never the demanded one (octet 0x2B = 10 × 100 s does not exceed `v`) -/
theorem kf1_band (v : Nat) (hv : 1000000 ≤ v) :
    LTSpec.octetMillis (LT.setMillis true v).encode = 0 ∧ ¬ LTSpec.IsLifetimeOctet v (LT.setMillis true v).encode := by
  have e : LT.setMillis true v = ⟨0, 3⟩ := by simp [LT.setMillis, hv]
  have z : LTSpec.octetMillis (LT.encode ⟨0, 3⟩) = 0 := by decide
  have t : LTSpec.octetMillis 43 = 1000000 := by decide
  rw [e]
  refine ⟨z, fun h => ?_⟩
  have := h.2.2 43 (by omega) (by omega)
  omega

/-- lifetime of an originated packet: the model's choice (`srcLifetime`: request if present, else MIB default) writes
the octet demanded for `LTSpec.lifetimeMs` (request if specified, else itsGnDefaultPacketLifetime) -/
theorem src_lifetime_meets_spec (capped : Bool) (req : Option Nat) (dfltS : Nat)
    (h : capped = false ∨ LTSpec.lifetimeMs req dfltS < 1000000) :
    LTSpec.IsLifetimeOctet (LTSpec.lifetimeMs req dfltS) (srcLifetime capped req dfltS).encode := by
  have key : ∀ v, (capped = false ∨ v < 1000000) → LTSpec.IsLifetimeOctet v (LT.setMillis capped v).encode := by
    intro v hv
    cases capped with
    | false => exact written_octet_meets_spec v
    | true =>
      rcases hv with hv | hv
      · cases hv
      · exact written_octet_meets_spec_partial v hv
  cases req with
  | none => exact key _ h
  | some ms => exact key _ h

/-- "never exceeds" needs no restriction: also inside the KF1 band the written lifetime does not exceed the request -/
theorem src_lifetime_never_exceeds (capped : Bool) (req : Option Nat) (dfltS : Nat) :
    LTSpec.octetMillis (srcLifetime capped req dfltS).encode ≤ LTSpec.lifetimeMs req dfltS := by
  cases req <;>
    (simp only [srcLifetime, LTSpec.lifetimeMs, Option.getD]
     rw [encode_octet_millis _ (setMillis_wf _ _)]; exact setMillis_le _ _)


/-- the (multiplier, base) pair of a well-formed code read back from its octet the way the standard splits it -/
theorem octet_split (c : LT) (h : c.WF) : c.encode / 4 = c.mult ∧ c.encode % 4 = c.base := by
  rw [encode_eq c h]; obtain ⟨_, h2⟩ := h; omega

theorem srcLifetime_wf (capped : Bool) (req : Option Nat) (d : Nat) : (srcLifetime capped req d).WF := by
  cases req <;> exact setMillis_wf _ _

/-- the model of the six source operations (`srcHops`) is the Spec's `hops` under the interface convention
`LTSpec.requestedHops` ("0 and 1 mean: not specified") -/
theorem src_hops_meet_spec (t : Transport) (req dflt : Nat) :
    srcHops t req dflt = LTSpec.hops t (LTSpec.requestedHops req) dflt := by
  cases t <;> simp only [srcHops, LTSpec.hops, LTSpec.requestedHops, LTSpec.hopLimit] <;>
    (split <;> split <;> first | rfl | omega | simp_all)

end FlexModel.Geo.LTLemmas

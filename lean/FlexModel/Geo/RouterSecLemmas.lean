/-
Lemmas about the wire level of the receive path (`RouterSec.lean`): what `_forward_pdu` emits, the receive context is
clear between receptions (all histories, all fault points) when its reset sits in a `finally`, the CBF buffer keeps the
finished PDU of the reception that armed the timer.  Core Lean only.
-/
import FlexModel.Geo.RouterSec
import FlexModel.Geo.RouterOnce
namespace FlexModel.Geo

theorem mem_wsent {ctx : Option Nat} {acts : List Act} {g : WFrame} :
    g ∈ wsent ctx acts ↔ ∃ q, Act.send q ∈ acts ∧ g = forwardPdu ctx q := by
  simp only [wsent, List.mem_map, mem_sends]
  constructor
  · rintro ⟨q, h1, h2⟩; exact ⟨q, h1, h2.symm⟩
  · rintro ⟨q, h1, h2⟩; exact ⟨q, h1, h2.symm⟩

/-! ## the actions and the table of a wire-level reception are those of the decoded-packet model -/

/-- the reception is handed to the handlers: unsecured at a station that does not demand security, or secured, a verify
service configured and SN-VERIFY successful -/
def Processed (w : WCfg) (x : Rx) : Bool := if x.sec then w.hasVerify && x.vok else !w.secEnabled

theorem recvW_not_processed (w : WCfg) (s : WSt) (x : Rx) (env : Env) (now : Nat) (h : Processed w x = false) :
    recvW w s x env now = (s, [], none) := by
  unfold recvW
  unfold Processed at h
  cases hs : x.sec <;> simp only [hs, if_true, if_false, Bool.false_eq_true] at h ⊢
  · simp only [Bool.not_eq_false'] at h; simp [h]
  · have : (!w.hasVerify || !x.vok) = true := by
      cases h1 : w.hasVerify <;> cases h2 : x.vok <;> simp_all
    simp [this]

theorem recvW_processed (w : WCfg) (s : WSt) (x : Rx) (env : Env) (now : Nat) (h : Processed w x = true) :
    (recvW w s x env now).2.1 = (recvR w.c s.r x.p env now).2 ∧
    (recvW w s x env now).1.r = (recvR w.c s.r x.p env now).1 ∧
    (recvW w s x env now).2.2 = (if x.sec then some x.m else s.ctx x.thr) ∧
    (recvW w s x env now).1.wbuf =
      wbufSync s.wbuf (recvR w.c s.r x.p env now).1.buf (arms (recvR w.c s.r x.p env now).2)
        (if x.sec then some x.m else s.ctx x.thr) := by
  unfold recvW
  unfold Processed at h
  cases hs : x.sec <;> simp only [hs, if_true, if_false, Bool.false_eq_true] at h ⊢
  · simp only [Bool.not_eq_true'] at h; simp [h]
  · have : (!w.hasVerify || !x.vok) = false := by
      cases h1 : w.hasVerify <;> cases h2 : x.vok <;> simp_all
    simp [this]

theorem sentW_not_processed (w : WCfg) (s : WSt) (x : Rx) (env : Env) (now : Nat) (h : Processed w x = false) :
    sentW w s x env now = [] := by
  simp [sentW, recvW_not_processed w s x env now h, wsent, sends]

/-! ## the receive context -/

theorem recvW_ctx_clear (w : WCfg) (hf : w.ctxFinally = true) (s : WSt) (x : Rx) (env : Env) (now : Nat)
    (h : CtxClear s) : CtxClear (recvW w s x env now).1 := by
  intro t
  unfold recvW
  cases hs : x.sec <;> simp only [hs, if_true, if_false, Bool.false_eq_true]
  · split
    · exact h t
    · exact h t
  · split
    · exact h t
    · simp only [hf, Bool.true_or, if_true, setCtx]
      split
      · rfl
      · exact h t

theorem fireW_ctx (s : WSt) (k : Key) : (fireW s k).1.ctx = s.ctx := by
  unfold fireW; split <;> rfl

theorem wstep_ctx_clear (w : WCfg) (hf : w.ctxFinally = true) (s : WSt) (op : WOp) (h : CtxClear s) :
    CtxClear (wstep w s op).1 := by
  cases op with
  | rx x env now => exact recvW_ctx_clear w hf s x env now h
  | fire k => intro t; simp only [wstep, fireW_ctx]; exact h t
  | lsreq a req => exact h

theorem wrun_ctx_clear (w : WCfg) (hf : w.ctxFinally = true) : ∀ (ops : List WOp) (s : WSt), CtxClear s →
    CtxClear (wrun w s ops).1 := by
  intro ops
  induction ops with
  | nil => intro s h; exact h
  | cons op r ih => intro s h; exact ih _ (wstep_ctx_clear w hf s op h)

/-! ## the finished PDUs in the CBF buffer -/

theorem wbufGet_sync (old : List (Key × WFrame)) (armed : List Key) (ctx : Option Nat) (k : Key) :
    ∀ (buf : List (Key × Pkt)), wbufGet (wbufSync old buf armed ctx) k =
      (bufGet buf k).map (fun q => if armed.contains k then forwardPdu ctx q else (wbufGet old k).getD (.plain q)) := by
  intro buf
  induction buf with
  | nil => rfl
  | cons y r ih =>
    simp only [wbufGet, wbufSync, bufGet, List.map_cons, List.find?_cons] at ih ⊢
    cases hy : (y.1 == k)
    · simp only [ih]
    · have : y.1 = k := by simpa using hy
      subst this
      rfl

theorem wbufGet_filter_ne (b : List (Key × WFrame)) (k k' : Key) (h : k' ≠ k) :
    wbufGet (b.filter (fun x => !(x.1 == k'))) k = wbufGet b k := by
  induction b with
  | nil => rfl
  | cons y r ih =>
    unfold wbufGet at ih ⊢
    by_cases h1 : y.1 = k'
    · have hk : (y.1 == k) = false := beq_false_of_ne (by rw [h1]; exact h)
      have hk' : (y.1 == k') = true := by rw [h1]; exact beq_self_eq_true _
      rw [List.filter_cons, List.find?_cons]
      simp only [hk', hk, Bool.not_true, Bool.false_eq_true, if_false]
      exact ih
    · have hk' : (y.1 == k') = false := beq_false_of_ne h1
      rw [List.filter_cons]
      simp only [hk', Bool.not_false, if_true, List.find?_cons]
      cases (y.1 == k)
      · exact ih
      · rfl

theorem arms_subset_key (c : RCfg) (hg : c.gacFix = true) (s : RSt) (p : Pkt) (env : Env) (now : Nat) (k : Key)
    (hb : bufHas s.buf k = true) : (arms (recvR c s p env now).2).contains k = false := by
  rcases (recvR_buf c hg s p env now).2 with ⟨_, h⟩ | ⟨_, h, _⟩ | ⟨_, hn, h, _⟩
  · rw [h]; rfl
  · rw [h]; rfl
  · rw [h]
    have : (p.so, p.sn) ≠ k := by
      intro he; rw [he] at hn; rw [hn] at hb; cases hb
    simp only [List.contains_cons, List.contains_nil, Bool.or_false]
    exact beq_false_of_ne (Ne.symm this)

/-- `k` stays in the CBF buffer along the run: its timer neither fires nor is cancelled -/
def StaysBuffered (w : WCfg) (k : Key) : WSt → List WOp → Prop
  | s, [] => bufHas s.r.buf k = true
  | s, op :: r => bufHas s.r.buf k = true ∧ StaysBuffered w k (wstep w s op).1 r

def StaysBuffered.dec (w : WCfg) (k : Key) : (s : WSt) → (ops : List WOp) → Decidable (StaysBuffered w k s ops)
  | s, [] => inferInstanceAs (Decidable (bufHas s.r.buf k = true))
  | s, op :: r =>
    have := StaysBuffered.dec w k (wstep w s op).1 r
    inferInstanceAs (Decidable (bufHas s.r.buf k = true ∧ StaysBuffered w k (wstep w s op).1 r))

instance (w : WCfg) (k : Key) (s : WSt) (ops : List WOp) : Decidable (StaysBuffered w k s ops) := StaysBuffered.dec w k s ops

theorem staysBuffered_head {w : WCfg} {k : Key} {s : WSt} {ops : List WOp} (h : StaysBuffered w k s ops) :
    bufHas s.r.buf k = true := by
  cases ops with
  | nil => exact h
  | cons _ _ => exact h.1

theorem bufHas_false_get (b : List (Key × Pkt)) (k : Key) (h : bufGet b k = none) : bufHas b k = false := by
  cases hb : bufHas b k
  · rfl
  · obtain ⟨q, hq⟩ := bufHas_get b k hb
    rw [hq] at h; cases h

/-- the PDU stored under `k` is not touched by any operation that leaves `k` in the buffer -/
theorem wstep_keeps (w : WCfg) (hg : w.c.gacFix = true) (s : WSt) (op : WOp) (k : Key) (f : WFrame)
    (hf : wbufGet s.wbuf k = some f) (hb : bufHas s.r.buf k = true) (hb' : bufHas (wstep w s op).1.r.buf k = true) :
    wbufGet (wstep w s op).1.wbuf k = some f := by
  cases op with
  | lsreq a req => exact hf
  | fire k' =>
    simp only [wstep, fireW] at hb' ⊢
    cases hq : bufGet s.r.buf k' with
    | none => simp only [hq]; exact hf
    | some q =>
      simp only [hq] at hb' ⊢
      have hne : k' ≠ k := by
        intro he; subst he
        simp only [fire, hq] at hb'
        rw [bufHas_del] at hb'; cases hb'
      rw [wbufGet_filter_ne _ _ _ hne]; exact hf
  | rx x env now =>
    simp only [wstep] at hb' ⊢
    cases hp : Processed w x
    · rw [recvW_not_processed w s x env now hp]; exact hf
    · obtain ⟨_, h2, _, h4⟩ := recvW_processed w s x env now hp
      rw [h2] at hb'
      rw [h4, wbufGet_sync]
      obtain ⟨q, hq⟩ := bufHas_get _ _ hb'
      rw [hq, arms_subset_key w.c hg s.r x.p env now k hb]
      simp [hf]

theorem wrun_keeps (w : WCfg) (hg : w.c.gacFix = true) (k : Key) (f : WFrame) : ∀ (ops : List WOp) (s : WSt),
    wbufGet s.wbuf k = some f → StaysBuffered w k s ops →
    wbufGet (wrun w s ops).1.wbuf k = some f ∧ bufHas (wrun w s ops).1.r.buf k = true := by
  intro ops
  induction ops with
  | nil => intro s hf h; exact ⟨hf, h⟩
  | cons op r ih =>
    intro s hf h
    exact ih _ (wstep_keeps w hg s op k f hf h.1 (staysBuffered_head h.2)) h.2

end FlexModel.Geo

/-
Helper lemmas and composite theorems for C04 (receive path): loops with handler faults, frames without effect,
what a frame that fails late may change (C06 router model + C03 security gate), later frames of other sources,
honest secured frames after failed ones.  Property statements proper: `Props/C04.lean`.
-/
import FlexModel.Geo.RecvStation
import FlexModel.Geo.RouterLemmas
import FlexModel.Sec.Lemmas

namespace FlexModel.Geo.Recv
open FlexModel.Geo

/-! ## lists -/

theorem getD_of_all {α : Type} (p : α → Bool) (d : α) (hd : p d = true) :
    ∀ (l : List α), l.all p = true → ∀ i, p (l.getD i d) = true
  | [], _, i => by simpa using hd
  | a :: l, h, 0 => by
    simp only [List.all_cons, Bool.and_eq_true] at h
    simpa using h.1
  | a :: l, h, i + 1 => by
    simp only [List.all_cons, Bool.and_eq_true] at h
    simpa using getD_of_all p d hd l h.2 i

/-! ## receive loops -/

theorem survives_of_safe (mro : Exc → List String) (sh : LoopShape) (hW : sh.inWhile = true)
    (hS : sh.handler = .safe) (hc : ∀ e, caught mro sh.catches e = true) (e : Exc) (b : Bool) :
    survives mro sh e b = true := by
  simp [survives, hW, hS, hc e]

theorem loopStep_never_dead {σ α φ : Type} (mro : Exc → List String) (sh : LoopShape) (broken : φ → Bool)
    (hs : ∀ e b, survives mro sh e b = true)
    (recv : σ → φ → σ × List α × Option Exc) (st : σ) (f : φ) :
    ∀ e, loopStep mro sh broken recv st f ≠ .dead e := by
  intro e
  unfold loopStep
  rcases h : recv st f with ⟨st', acts, oe⟩
  cases oe with
  | none => simp
  | some e' => simp [hs e']

theorem loopRun_alive {σ α φ : Type} (mro : Exc → List String) (sh : LoopShape) (broken : φ → Bool)
    (hs : ∀ e b, survives mro sh e b = true)
    (recv : σ → φ → σ × List α × Option Exc) (fs : List φ) (st : σ) :
    (loopRun mro sh broken recv st fs).isSome = true := by
  induction fs generalizing st with
  | nil => simp [loopRun]
  | cons f fs ih =>
    unfold loopRun
    cases hstep : loopStep mro sh broken recv st f with
    | dead e => exact absurd hstep (loopStep_never_dead mro sh broken hs recv st f e)
    | «continue» st' acts =>
      simp only
      have := ih st'
      cases hrun : loopRun mro sh broken recv st' fs with
      | none => simp [hrun] at this
      | some r => simp

/-- `gn_data_indicate` raises nothing into the link layer -/
theorem indicate_never_raises {σ α φ : Type} (mro : Exc → List String) (sh : LoopShape) (broken : φ → Bool)
    (hS : sh.handler = .safe) (hc : ∀ e, caught mro sh.catches e = true)
    (proc : σ → φ → σ × List α × Option Exc) (st : σ) (f : φ) :
    (indicate mro sh broken proc st f).2.2 = none := by
  unfold indicate
  rcases h : proc st f with ⟨st', acts, oe⟩
  cases oe with
  | none => rfl
  | some e => simp [hc e, hS]

/-- the catch-all changes neither the state reached nor the actions performed -/
theorem indicate_state_acts {σ α φ : Type} (mro : Exc → List String) (sh : LoopShape) (broken : φ → Bool)
    (proc : σ → φ → σ × List α × Option Exc) (st : σ) (f : φ) :
    (indicate mro sh broken proc st f).1 = (proc st f).1 ∧ (indicate mro sh broken proc st f).2.1 = (proc st f).2.1 := by
  unfold indicate
  rcases h : proc st f with ⟨st', acts, oe⟩
  cases oe with
  | none => exact ⟨rfl, rfl⟩
  | some e =>
    simp only
    split
    · split
      · exact ⟨rfl, rfl⟩
      · split <;> exact ⟨rfl, rfl⟩
      · exact ⟨rfl, rfl⟩
    · exact ⟨rfl, rfl⟩

/-! ## frames without effect -/

/-- a frame that, in every state, changes nothing and causes no action -/
def NoEffect {σ α φ : Type} (recv : σ → φ → σ × List α × Option Exc) (f : φ) : Prop :=
  ∀ st, (recv st f).1 = st ∧ (recv st f).2.1 = []

/-- the catch-all of `gn_data_indicate` around a frame without effect is without effect -/
theorem noEffect_indicate {σ α φ : Type} (mro : Exc → List String) (sh : LoopShape) (broken : φ → Bool)
    (proc : σ → φ → σ × List α × Option Exc) (f : φ) (h : NoEffect proc f) :
    NoEffect (indicate mro sh broken proc) f := by
  intro st
  have hi := indicate_state_acts mro sh broken proc st f
  rw [hi.1, hi.2]
  exact h st

/-- as if never received, for ANY frame processor: a frame without effect, at any position of any stream, changes
neither the final state nor the actions of the run (provided the loop survives what the frame raises) -/
theorem no_effect_as_if_never_received {σ α φ : Type} (mro : Exc → List String) (sh : LoopShape) (broken : φ → Bool)
    (hs : ∀ e b, survives mro sh e b = true)
    (recv : σ → φ → σ × List α × Option Exc)
    (pre suf : List φ) (bad : φ) (hbad : NoEffect recv bad) (st : σ) :
    loopRun mro sh broken recv st (pre ++ bad :: suf) = loopRun mro sh broken recv st (pre ++ suf) := by
  induction pre generalizing st with
  | nil =>
    simp only [List.nil_append]
    have hne := hbad st
    conv => lhs; unfold loopRun
    unfold loopStep
    rcases hr : recv st bad with ⟨st', acts, oe⟩
    rw [hr] at hne
    simp only at hne
    obtain ⟨h1, h2⟩ := hne
    subst h1; subst h2
    cases oe with
    | none =>
      simp only
      cases loopRun mro sh broken recv st' suf with
      | none => rfl
      | some r => simp
    | some e =>
      simp only [hs e, if_true]
      cases loopRun mro sh broken recv st' suf with
      | none => rfl
      | some r => simp
  | cons p pre ih =>
    simp only [List.cons_append]
    unfold loopRun
    cases loopStep mro sh broken recv st p with
    | dead e => rfl
    | «continue» st' acts => simp only [ih st']


/-! ## what one frame may change in a station -/

/-- frames that the byte-level prologue rejects (exception or silent drop) -/
def rejected (cfg : Cfg) (f : List Nat) : Prop :=
  (∃ e, classify cfg f = .raised e) ∨ classify cfg f = .dropped

theorem gnStage_raised (D : Dec) (c : SCfg) (st : St) (e : Exc) (gn : List Nat) (x : Rx) :
    gnStage D c st (.raised e) gn x = (st, [], some e) := rfl

theorem gnStage_dropped (D : Dec) (c : SCfg) (st : St) (gn : List Nat) (x : Rx) :
    gnStage D c st .dropped gn x = (st, [], none) := rfl

/-- the GN stage never touches the security state -/
theorem gnStage_sec (D : Dec) (c : SCfg) (st : St) (o : Outcome) (gn : List Nat) (x : Rx) :
    (gnStage D c st o gn x).1.sec = st.sec := by
  cases o with
  | raised e => rfl
  | dropped => rfl
  | secured => rfl
  | handled h =>
    simp only [gnStage]
    split
    · rfl
    · split
      · rfl
      · split <;> rfl

/-- the GN stage changes the router state at most to what C06's `recvR` computes for the decoded packet -/
theorem gnStage_r (D : Dec) (c : SCfg) (st : St) (o : Outcome) (gn : List Nat) (x : Rx) :
    (gnStage D c st o gn x).1.r = st.r ∨
    ((∃ h, o = .handled h) ∧ (gnStage D c st o gn x).1.r = (recvR c.r st.r (D.pkt gn) x.env x.now).1) := by
  cases o with
  | raised e => exact Or.inl rfl
  | dropped => exact Or.inl rfl
  | secured => exact Or.inl rfl
  | handled h =>
    simp only [gnStage]
    split
    · exact Or.inr ⟨⟨h, rfl⟩, rfl⟩
    · split
      · exact Or.inr ⟨⟨h, rfl⟩, rfl⟩
      · split
        · exact Or.inl rfl
        · exact Or.inr ⟨⟨h, rfl⟩, rfl⟩

theorem prologue_rejected_no_effect (D : Dec) (c : SCfg) (x : Rx) (h : rejected c.recv x.bytes) :
    NoEffect (stationRecv D c) x := by
  intro st
  unfold stationRecv
  rcases h with ⟨e, he⟩ | hd
  · simp [he, gnStage]
  · simp [hd, gnStage]

/-- a secured envelope that does not parse (or names an algorithm the decoder does not know): the verify service
raises, nothing at all is changed -/
theorem unparsable_envelope_no_effect (D : Dec) (c : SCfg) (x : Rx)
    (hc : classify c.recv x.bytes = .secured) (hm : D.msg x.bytes = none) :
    NoEffect (stationRecv D c) x ∧ ∀ st, (stationRecv D c st x).2.2 = some (D.secExc x.bytes) := by
  refine ⟨fun st => ?_, fun st => ?_⟩ <;>
    simp [stationRecv, hc, hm, FlexModel.Sec.gate]

/-- a secured frame that is not passed on by the gate (verification fails, the verify service raises): the router
state (location table, duplicate packet lists, CBF buffer) is untouched, nothing is delivered, transmitted or armed;
only the security state moves, to what C03's `gate` computes -/
theorem failed_verification_effect (D : Dec) (c : SCfg) (st : St) (x : Rx)
    (hc : classify c.recv x.bytes = .secured)
    (hf : ∀ pl, (FlexModel.Sec.gate c.sec c.recv.securityEnabled true st.sec (.secured (D.msg x.bytes))).2 ≠ .pass pl) :
    (stationRecv D c st x).1.r = st.r ∧ (stationRecv D c st x).2.1 = [] ∧
    (stationRecv D c st x).1.sec =
      (FlexModel.Sec.gate c.sec c.recv.securityEnabled true st.sec (.secured (D.msg x.bytes))).1 := by
  unfold stationRecv
  simp only [hc]
  rcases hg : FlexModel.Sec.gate c.sec c.recv.securityEnabled true st.sec (.secured (D.msg x.bytes)) with ⟨S', out⟩
  rw [hg] at hf
  cases out with
  | pass pl => exact absurd rfl (hf pl)
  | drop w => exact ⟨rfl, rfl, rfl⟩
  | raise e => exact ⟨rfl, rfl, rfl⟩

/-- ... and the certificate library only grows by chain-verified certificates (C03 `packets_only_append`), roots and
own certificates stay -/
theorem failed_verification_store_grows (D : Dec) (c : SCfg) (st : St) (x : Rx)
    (hc : classify c.recv x.bytes = .secured) :
    FlexModel.Sec.Store.Grows st.sec.store (stationRecv D c st x).1.sec.store := by
  have hg : FlexModel.Sec.Store.Grows st.sec.store
      (FlexModel.Sec.gate c.sec c.recv.securityEnabled true st.sec (.secured (D.msg x.bytes))).1.store := by
    rw [FlexModel.Sec.gate_state]
    cases D.msg x.bytes with
    | none => exact FlexModel.Sec.Store.Grows.refl _
    | some m => simpa using FlexModel.Sec.verifyMsg_grows c.sec st.sec m
  unfold stationRecv
  simp only [hc]
  rcases hgt : FlexModel.Sec.gate c.sec c.recv.securityEnabled true st.sec (.secured (D.msg x.bytes)) with ⟨S', out⟩
  rw [hgt] at hg
  cases out with
  | pass pl => simpa [gnStage_sec] using hg
  | drop w => exact hg
  | raise e => exact hg

/-- an unsecured frame never touches the security state -/
theorem unsecured_keeps_sec (D : Dec) (c : SCfg) (st : St) (x : Rx) (hc : classify c.recv x.bytes ≠ .secured) :
    (stationRecv D c st x).1.sec = st.sec := by
  unfold stationRecv
  split
  · rename_i h; exact absurd h hc
  · exact gnStage_sec ..

/-- the exact effect of a frame that RAISES, code as it is: either nothing changed and nothing was done, or the frame
was a well-formed GN packet that the router accepted and delivered and the BTP / facility chain raised on its payload -
then the router state is exactly the one C06's `recvR` computes for a well-formed packet (C04-KF1 region) -/
theorem raising_frame_effect_partial (D : Dec) (c : SCfg) (st : St) (x : Rx) (e : Exc)
    (hc : classify c.recv x.bytes ≠ .secured) (he : (stationRecv D c st x).2.2 = some e) :
    ((stationRecv D c st x).1 = st ∧ (stationRecv D c st x).2.1 = []) ∨
    ((∃ h, classify c.recv x.bytes = .handled h) ∧ D.upper (D.pkt x.bytes) = some e ∧
      deliveries (recvR c.r st.r (D.pkt x.bytes) x.env x.now).2 ≠ [] ∧
      (stationRecv D c st x).1.r = (recvR c.r st.r (D.pkt x.bytes) x.env x.now).1 ∧
      (stationRecv D c st x).2.1 = (recvR c.r st.r (D.pkt x.bytes) x.env x.now).2) := by
  unfold stationRecv at he ⊢
  cases ho : classify c.recv x.bytes with
  | secured => exact absurd ho hc
  | raised e' => exact Or.inl ⟨rfl, rfl⟩
  | dropped => exact Or.inl ⟨rfl, rfl⟩
  | handled h =>
    simp only [ho, gnStage] at he ⊢
    by_cases hne : (deliveries (recvR c.r st.r (D.pkt x.bytes) x.env x.now).2).isEmpty = true
    · simp [hne] at he
    · simp only [hne] at he ⊢
      cases hu : D.upper (D.pkt x.bytes) with
      | none => simp [hu] at he
      | some e' =>
        simp only [hu] at he ⊢
        by_cases hpf : c.payloadFirst = true
        · simp only [hpf, if_true]
          exact Or.inl ⟨rfl, rfl⟩
        · simp only [hpf] at he ⊢
          obtain rfl : e' = e := by simpa using he
          right
          refine ⟨⟨h, rfl⟩, rfl, ?_, rfl, rfl⟩
          intro h0
          exact hne (by simp [h0])

/-- full statement for the variant in which the payload is validated before the GN layer commits
(`payloadFirst = true`, hypothetical repair of C04-KF1): a frame that raises has no effect whatsoever -/
theorem raising_frame_no_effect (D : Dec) (c : SCfg) (hpf : c.payloadFirst = true) (st : St) (x : Rx) (e : Exc)
    (hc : classify c.recv x.bytes ≠ .secured) (he : (stationRecv D c st x).2.2 = some e) :
    (stationRecv D c st x).1 = st ∧ (stationRecv D c st x).2.1 = [] := by
  unfold stationRecv at he ⊢
  cases ho : classify c.recv x.bytes with
  | secured => exact absurd ho hc
  | raised e' => exact ⟨rfl, rfl⟩
  | dropped => exact ⟨rfl, rfl⟩
  | handled h =>
    simp only [ho, gnStage] at he ⊢
    by_cases hne : (deliveries (recvR c.r st.r (D.pkt x.bytes) x.env x.now).2).isEmpty = true
    · simp [hne] at he
    · simp only [hne] at he ⊢
      cases hu : D.upper (D.pkt x.bytes) with
      | none => simp [hu] at he
      | some e' =>
        simp only [hpf, if_true]
        exact ⟨rfl, rfl⟩


/-! ## later frames of OTHER sources after a frame that left router state behind

A frame that reaches the location table (a well-formed GN packet - whether or not its payload decodes) changes the
entry of its source `b`, and purges entries that are expired at its reception time.  Frames of other sources that
arrive afterwards get the same duplicate / DAD verdict and the same deliveries as if it had never been received. -/

/-- the two tables agree outside address `b` -/
def AgreeOff (b : Addr) (t t' : Table) : Prop := ∀ a, a ≠ b → lookup t' a = lookup t a

/-- an entry of `t0` that is alive at `now` was alive at `nowb` (the bad frame purged nothing that a later reception
would have kept): holds whenever the clock is monotone within the half-window of the 32-bit timestamp -/
def Stable (c : FlexModel.Geo.Cfg) (t0 : Table) (nowb now : Nat) : Prop :=
  ∀ a e, lookup t0 a = some e → fresh c now e = true → fresh c nowb e = true

/-- relation between the table `t'` of the run that received the bad frame of source `b` at `nowb` (table `t0` at that
moment) and the table `t` of the run that did not: they agree outside `b`, or no purging reception has happened since
and `t'` is `t0` purged at `nowb` outside `b` -/
def TRel (c : FlexModel.Geo.Cfg) (b : Addr) (t0 : Table) (nowb : Nat) (t t' : Table) : Prop :=
  Uniq t ∧ Uniq t' ∧
    (AgreeOff b t t' ∨ (t = t0 ∧ ∀ a, a ≠ b → lookup t' a = keep (fresh c nowb) (lookup t0 a)))

theorem keep_keep_stable {c : FlexModel.Geo.Cfg} {t0 : Table} {nowb now : Nat} (hst : Stable c t0 nowb now) (a : Addr) :
    keep (fresh c now) (keep (fresh c nowb) (lookup t0 a)) = keep (fresh c now) (lookup t0 a) := by
  cases h : lookup t0 a with
  | none => rfl
  | some e =>
    simp only [keep]
    by_cases h1 : fresh c now e = true
    · have h2 := hst a e h h1
      simp [h1, h2]
    · by_cases h2 : fresh c nowb e = true
      · simp [h1, h2]
      · simp [h1, h2]

/-- what a reception at `now` looks at agrees in both runs -/
theorem trel_keep {c : FlexModel.Geo.Cfg} {b : Addr} {t0 : Table} {nowb : Nat} {t t' : Table}
    (h : TRel c b t0 nowb t t') {now : Nat} (hst : Stable c t0 nowb now) (a : Addr) (ha : a ≠ b) :
    keep (fresh c now) (lookup t' a) = keep (fresh c now) (lookup t a) := by
  rcases h.2.2 with hag | ⟨ht, hk⟩
  · rw [hag a ha]
  · rw [hk a ha, ht, keep_keep_stable hst]

theorem recv_rel (c : FlexModel.Geo.Cfg) (hv : c.v = {}) (b : Addr) (t0 : Table) (nowb : Nat) (t t' : Table)
    (h : TRel c b t0 nowb t t') (k : Kind) (a : Addr) (p : PV) (sn now : Nat) (ha : a ≠ b)
    (hst : Stable c t0 nowb now) :
    (recv c t' k a p sn now).2 = (recv c t k a p sn now).2 ∧
    TRel c b t0 nowb (recv c t k a p sn now).1 (recv c t' k a p sn now).1 := by
  by_cases hd : mid a = mid c.self
  · rw [recv_dad c t k a p sn now hd, recv_dad c t' k a p sn now hd]
    exact ⟨rfl, h⟩
  · have hK := trel_keep h hst
    have hso : selfOutcome c t' k a p sn now = selfOutcome c t k a p sn now := by
      unfold selfOutcome; rw [hK a ha]
    refine ⟨?_, uniq_recv c t k a p sn now h.1, uniq_recv c t' k a p sn now h.2.1, Or.inl ?_⟩
    · rw [recv_res c hv t' k a p sn now hd h.2.1, recv_res c hv t k a p sn now hd h.1, hso]
    · intro a' ha'
      by_cases haa : a' = a
      · subst haa
        rw [lookup_recv_self c hv t' k a' p sn now hd h.2.1, lookup_recv_self c hv t k a' p sn now hd h.1, hso, hK a' ha]
      · rw [lookup_recv_ne c hv t' k a a' p sn now hd haa h.2.1, lookup_recv_ne c hv t k a a' p sn now hd haa h.1,
          hK a' ha']

/-- the GN-DATA.indications of the handler depend on the packet and the geometry bits only -/
def handleDel (c : RCfg) (p : Pkt) (env : Env) : List Act :=
  match p.kind with
  | .beacon => []
  | .shb => [.deliver .shb p.so 0]
  | .tsb => [.deliver .tsb p.so p.sn]
  | .gbc => if env.inside then [.deliver .gbc p.so p.sn] else []
  | .gac => if env.inside then [.deliver .gac p.so p.sn] else []
  | .guc => if mid p.de = mid c.loct.self then [.deliver .guc p.so p.sn] else []
  | .lsReq => []
  | .lsRep => []

theorem deliveries_append (a b : List Act) : deliveries (a ++ b) = deliveries a ++ deliveries b := by
  simp [deliveries]

theorem forwardGbc_deliveries (c : RCfg) (s : RSt) (p : Pkt) (env : Env) : deliveries (forwardGbc c s p env).2 = [] := by
  simp only [forwardGbc, cbfForward]
  repeat' split
  all_goals simp [deliveries, isDeliver]

theorem deliveries_nil_of (acts : List Act) (h : ∀ act ∈ acts, isDeliver act = false) : deliveries acts = [] := by
  unfold deliveries
  rw [List.filter_eq_nil_iff]
  intro a ha
  simp [h a ha]

theorem handle_deliveries (c : RCfg) (s : RSt) (p : Pkt) (env : Env) :
    deliveries (handle c s p env).2 = handleDel c p env := by
  cases hk : p.kind <;> simp only [handle, handleDel, hk]
  case gbc =>
    repeat' split
    all_goals simp only [deliveries_append, forwardGbc_deliveries]
    all_goals simp [deliveries, isDeliver]
  case lsRep =>
    by_cases hme : mid p.de = mid c.loct.self
    · simp only [hme, if_true]
      apply deliveries_nil_of
      intro act hact
      rcases (lsComplete_spec s p.so).1 act hact with h | h <;> subst h <;> rfl
    · simp only [hme, if_false]
      repeat' split
      all_goals simp [deliveries, isDeliver]
  all_goals
    repeat' split
    all_goals simp [deliveries, isDeliver]

/-- a packet that is an LS reply addressed to this station (completion of an own Location Service, C06) -/
def LsReplyToSelf (c : RCfg) (p : Pkt) : Prop := p.kind = .lsRep ∧ mid p.de = mid c.loct.self

theorem recvR_rel (c : RCfg) (hv : c.loct.v = {}) (b : Addr) (t0 : Table) (nowb : Nat) (s s' : RSt)
    (h : TRel c.loct b t0 nowb s.t s'.t) (p : Pkt) (env : Env) (now : Nat) (hp : p.so ≠ b)
    (hnl : ¬ LsReplyToSelf c p) (hst : Stable c.loct t0 nowb now) :
    deliveries (recvR c s' p env now).2 = deliveries (recvR c s p env now).2 ∧
    TRel c.loct b t0 nowb (recvR c s p env now).1.t (recvR c s' p env now).1.t := by
  have hr := recv_rel c.loct hv b t0 nowb s.t s'.t h p.kind p.so p.soPV p.sn now hp hst
  refine ⟨?_, ?_⟩
  · unfold recvR
    by_cases h1 : p.rhl > p.mhl
    · simp [h1]
    · simp only [h1, if_false]
      rw [hr.1]
      cases hres : (recv c.loct s.t p.kind p.so p.soPV p.sn now).2 with
      | dad => rfl
      | dup =>
        simp only
        have hcd : ∀ (z : RSt), deliveries (cbfDiscard z (p.so, p.sn)).2 = [] := by
          intro z; simp only [cbfDiscard]; split <;> simp [deliveries, isDeliver]
        split
        · rw [hcd, hcd]
        · rfl
      | ok =>
        simp only
        rw [handle_deliveries, handle_deliveries]
  · rw [recvR_t c s p env now hnl, recvR_t c s' p env now hnl]
    unfold recvT
    by_cases h1 : p.rhl > p.mhl
    · simp only [h1, if_true]; exact h
    · simp only [h1, if_false]; exact hr.2

/-- what an observer of the station sees of one reception: the GN-DATA.indications and the exception raised -/
def obs (r : St × List Act × Option Exc) : List Act × Option Exc := (deliveries r.2.1, r.2.2)

/-- per-frame observations of a run -/
def obsRun (D : Dec) (c : SCfg) : St → List Rx → List (List Act × Option Exc)
  | _, [] => []
  | st, x :: xs => obs (stationRecv D c st x) :: obsRun D c (stationRecv D c st x).1 xs

structure SRel (c : SCfg) (b : Addr) (t0 : Table) (nowb : Nat) (st st' : St) : Prop where
  sec : st'.sec = st.sec
  t : TRel c.r.loct b t0 nowb st.r.t st'.r.t

theorem ite_ne_of {c : Prop} [Decidable c] {a b x : Outcome} (ha : a ≠ x) (hb : b ≠ x) :
    (if c then a else b) ≠ x := by
  by_cases h : c
  · rw [if_pos h]; exact ha
  · rw [if_neg h]; exact hb

theorem geoPrologue_not_secured (hd : Handler) (hst : Nat) (p : List Nat) : geoPrologue hd hst p ≠ .secured := by
  simp only [geoPrologue]
  repeat' (first | exact fun h => Outcome.noConfusion h | apply ite_ne_of)

theorem commonStage_not_secured (rhl : Nat) (p : List Nat) : commonStage rhl p ≠ .secured := by
  simp only [commonStage]
  repeat' (first | exact fun h => Outcome.noConfusion h | exact geoPrologue_not_secured _ _ _ | apply ite_ne_of)

theorem classify_not_secured (cfg : Cfg) (h : cfg.hasVerifyService = false) (f : List Nat) :
    classify cfg f ≠ .secured := by
  simp only [classify, h]
  repeat' (first | exact fun h => Outcome.noConfusion h | exact commonStage_not_secured _ _ | apply ite_ne_of)

theorem gnStage_rel (D : Dec) (c : SCfg) (hv : c.r.loct.v = {}) (b : Addr) (t0 : Table) (nowb : Nat) (st st' : St)
    (h : SRel c b t0 nowb st st') (o : Outcome) (gn : List Nat) (x : Rx) (hsrc : (D.pkt gn).so ≠ b)
    (hnl : ¬ LsReplyToSelf c.r (D.pkt gn)) (hst : Stable c.r.loct t0 nowb x.now) :
    obs (gnStage D c st' o gn x) = obs (gnStage D c st o gn x) ∧
    SRel c b t0 nowb (gnStage D c st o gn x).1 (gnStage D c st' o gn x).1 := by
  cases o with
  | raised e => exact ⟨rfl, h⟩
  | dropped => exact ⟨rfl, h⟩
  | secured => exact ⟨rfl, h⟩
  | handled hd =>
    have hr := recvR_rel c.r hv b t0 nowb st.r st'.r h.t (D.pkt gn) x.env x.now hsrc hnl hst
    have hne' : (deliveries (recvR c.r st'.r (D.pkt gn) x.env x.now).2).isEmpty =
        (deliveries (recvR c.r st.r (D.pkt gn) x.env x.now).2).isEmpty := by rw [hr.1]
    simp only [gnStage, hne']
    by_cases hne : (deliveries (recvR c.r st.r (D.pkt gn) x.env x.now).2).isEmpty = true
    · simp only [hne, if_true]
      exact ⟨by simp [obs, hr.1], ⟨h.sec, hr.2⟩⟩
    · simp only [hne]
      cases hu : D.upper (D.pkt gn) with
      | none =>
        simp only [Bool.false_eq_true, if_false]
        exact ⟨by simp [obs, hr.1], ⟨h.sec, hr.2⟩⟩
      | some e =>
        simp only [Bool.false_eq_true, if_false]
        by_cases hpf : c.payloadFirst = true
        · simp only [hpf, if_true]
          exact ⟨rfl, h⟩
        · simp only [hpf]
          exact ⟨by simp [obs, hr.1], ⟨h.sec, hr.2⟩⟩

theorem stationRecv_rel (D : Dec) (c : SCfg) (hv : c.r.loct.v = {}) (hns : c.recv.hasVerifyService = false)
    (b : Addr) (t0 : Table) (nowb : Nat) (st st' : St) (h : SRel c b t0 nowb st st') (x : Rx)
    (hsrc : (D.pkt x.bytes).so ≠ b) (hnl : ¬ LsReplyToSelf c.r (D.pkt x.bytes)) (hst : Stable c.r.loct t0 nowb x.now) :
    obs (stationRecv D c st' x) = obs (stationRecv D c st x) ∧
    SRel c b t0 nowb (stationRecv D c st x).1 (stationRecv D c st' x).1 := by
  have hc := classify_not_secured c.recv hns x.bytes
  unfold stationRecv
  split
  · rename_i hx; exact absurd hx hc
  · exact gnStage_rel D c hv b t0 nowb st st' h _ x.bytes x hsrc hnl hst

theorem obsRun_rel (D : Dec) (c : SCfg) (hv : c.r.loct.v = {}) (hns : c.recv.hasVerifyService = false)
    (b : Addr) (t0 : Table) (nowb : Nat) (suf : List Rx)
    (hsrc : ∀ x ∈ suf, (D.pkt x.bytes).so ≠ b) (hnl : ∀ x ∈ suf, ¬ LsReplyToSelf c.r (D.pkt x.bytes))
    (hst : ∀ x ∈ suf, Stable c.r.loct t0 nowb x.now)
    (st st' : St) (h : SRel c b t0 nowb st st') :
    obsRun D c st' suf = obsRun D c st suf := by
  induction suf generalizing st st' with
  | nil => rfl
  | cons x xs ih =>
    have h1 := stationRecv_rel D c hv hns b t0 nowb st st' h x (hsrc x (by simp)) (hnl x (by simp)) (hst x (by simp))
    simp only [obsRun]
    rw [h1.1, ih (fun y hy => hsrc y (by simp [hy])) (fun y hy => hnl y (by simp [hy]))
      (fun y hy => hst y (by simp [hy])) _ _ h1.2]

/-- the state left behind by ANY frame (whatever its outcome) is related to the state before it -/
theorem stationRecv_srel_init (D : Dec) (c : SCfg) (hv : c.r.loct.v = {}) (hns : c.recv.hasVerifyService = false)
    (st : St) (hu : Uniq st.r.t) (xb : Rx) :
    SRel c (D.pkt xb.bytes).so st.r.t xb.now st (stationRecv D c st xb).1 := by
  have hc := classify_not_secured c.recv hns xb.bytes
  refine ⟨unsecured_keeps_sec D c st xb hc, ?_⟩
  have hrefl : TRel c.r.loct (D.pkt xb.bytes).so st.r.t xb.now st.r.t st.r.t := ⟨hu, hu, Or.inl (fun _ _ => rfl)⟩
  have hrr : (stationRecv D c st xb).1.r = st.r ∨
      (stationRecv D c st xb).1.r = (recvR c.r st.r (D.pkt xb.bytes) xb.env xb.now).1 := by
    unfold stationRecv
    split
    · rename_i hx; exact absurd hx hc
    · rcases gnStage_r D c st (classify c.recv xb.bytes) xb.bytes xb with h | ⟨_, h⟩
      · exact Or.inl h
      · exact Or.inr h
  rcases hrr with h | h
  · rw [h]; exact hrefl
  · rw [h]
    obtain ⟨hsu, hsoff, _, _⟩ := recvR_sim c.r st.r (D.pkt xb.bytes) xb.env xb.now
    have hut := uniq_recvT c.r st.r (D.pkt xb.bytes) xb.now hu
    unfold recvT at hsu hsoff hut
    by_cases h1 : (D.pkt xb.bytes).rhl > (D.pkt xb.bytes).mhl
    · simp only [h1, if_true] at hsu hsoff
      exact ⟨hu, hsu hu, Or.inl (fun a ha => hsoff a ha)⟩
    · simp only [h1, if_false] at hsu hsoff hut
      by_cases hd : mid (D.pkt xb.bytes).so = mid c.r.loct.self
      · rw [recv_dad _ _ _ _ _ _ _ hd] at hsu hsoff
        exact ⟨hu, hsu hu, Or.inl (fun a ha => hsoff a ha)⟩
      · refine ⟨hu, hsu hut, Or.inr ⟨rfl, ?_⟩⟩
        intro a ha
        rw [hsoff a ha]
        exact lookup_recv_ne c.r.loct hv st.r.t _ _ a _ _ _ hd ha hu

/-- the location table keeps unique keys along the receive path (`Uniq` is an invariant; it holds of the empty table) -/
theorem stationRecv_uniq (D : Dec) (c : SCfg) (st : St) (x : Rx) (hu : Uniq st.r.t) : Uniq (stationRecv D c st x).1.r.t := by
  have hg : ∀ (s : St) o gn, Uniq s.r.t → Uniq (gnStage D c s o gn x).1.r.t := by
    intro s o gn hs
    rcases gnStage_r D c s o gn x with h | ⟨_, h⟩
    · rw [h]; exact hs
    · rw [h]
      exact (recvR_sim c.r s.r (D.pkt gn) x.env x.now).1 (uniq_recvT c.r s.r (D.pkt gn) x.now hs)
  unfold stationRecv
  split
  · split
    · exact hg _ _ _ hu
    · exact hu
    · exact hu
  · exact hg _ _ _ hu

/-! ## secured traffic: honest frames after frames that failed verification -/

open FlexModel.Sec in
/-- security state after a sequence of received secured envelopes (`none`: unparsable) -/
def secAfter (cfg : FlexModel.Sec.Cfg) (en : Bool) (S : Station) (ps : List (Option Msg)) : Station :=
  ps.foldl (fun S m => (gate cfg en true S (.secured m)).1) S

open FlexModel.Sec in
theorem ready_after (cfg : FlexModel.Sec.Cfg) (en : Bool) (c : Cert) (ps : List (Option Msg))
    (hnc : ∀ m, some m ∈ ps → m.noClash c) (S : Station) (hr : Ready cfg S.store c) :
    Ready cfg (secAfter cfg en S ps).store c := by
  induction ps generalizing S with
  | nil => exact hr
  | cons p ps ih =>
    simp only [secAfter, List.foldl_cons]
    apply ih (fun m hm => hnc m (by simp [hm]))
    rw [gate_state]
    cases p with
    | none => exact hr
    | some m => simpa using ready_rx hr m (hnc m (by simp))

open FlexModel.Sec in
theorem gate_pass_of_verify {cfg : FlexModel.Sec.Cfg} {en : Bool} {S : Station} {m : Msg} {o : VOut} {pl : Nat}
    (hv : (S.verifyMsg cfg m).2 = .ok o) (hrep : o.report = .success) (hpl : o.plain = some pl) :
    (gate cfg en true S (.secured (some m))).2 = .pass pl := by
  unfold gate
  simp only [Bool.not_true, Bool.false_eq_true, if_false]
  rcases hvm : S.verifyMsg cfg m with ⟨S', r⟩
  rw [hvm] at hv
  simp only at hv
  subst hv
  simp [hrep, hpl]

open FlexModel.Sec in
/-- an honest message that carries its certificate, from a ticket the receiver can verify (`Ready`: C05), is passed on
with its payload - before and after ANY sequence of other secured frames (forged, unparsable, failing or valid) -/
theorem honest_passes_after_any_frames (cfg : FlexModel.Sec.Cfg) (en : Bool) (S : Station) (c : Cert)
    (hr : Ready cfg S.store c) (m : Msg) (hm : HonestMsg m c) (hsg : m.signer = .certs [c])
    (ps : List (Option Msg)) (hnc : ∀ m', some m' ∈ ps → m'.noClash c) :
    (gate cfg en true (secAfter cfg en S ps) (.secured (some m))).2 = .pass m.payload ∧
    (gate cfg en true S (.secured (some m))).2 = .pass m.payload := by
  have h2 := ready_after cfg en c ps hnc S hr
  exact ⟨gate_pass_of_verify (accept_certificate h2 hm hsg).1 rfl rfl,
         gate_pass_of_verify (accept_certificate hr hm hsg).1 rfl rfl⟩

/-- the GN stage looks at the router part of the state only -/
theorem gnStage_congr (D : Dec) (c : SCfg) (st st' : St) (h : st'.r = st.r) (o : Outcome) (gn : List Nat) (x : Rx) :
    (gnStage D c st' o gn x).1.r = (gnStage D c st o gn x).1.r ∧ (gnStage D c st' o gn x).2 = (gnStage D c st o gn x).2 := by
  cases o with
  | raised e => exact ⟨h, rfl⟩
  | dropped => exact ⟨h, rfl⟩
  | secured => exact ⟨h, rfl⟩
  | handled hd =>
    simp only [gnStage, h]
    split
    · exact ⟨rfl, rfl⟩
    · split
      · exact ⟨rfl, rfl⟩
      · split
        · exact ⟨h, rfl⟩
        · exact ⟨rfl, rfl⟩

/-- a run of secured frames none of which passes the gate -/
inductive FailedRun (D : Dec) (c : SCfg) : St → List Rx → St → Prop
  | nil (st : St) : FailedRun D c st [] st
  | cons (st st2 : St) (y : Rx) (ys : List Rx)
      (hc : classify c.recv y.bytes = .secured)
      (hf : ∀ pl, (FlexModel.Sec.gate c.sec c.recv.securityEnabled true st.sec (.secured (D.msg y.bytes))).2 ≠ .pass pl)
      (hrest : FailedRun D c (stationRecv D c st y).1 ys st2) : FailedRun D c st (y :: ys) st2

theorem failedRun_effect (D : Dec) (c : SCfg) (st st2 : St) (ys : List Rx) (h : FailedRun D c st ys st2) :
    st2.r = st.r ∧
    st2.sec = secAfter c.sec c.recv.securityEnabled st.sec (ys.map (fun y => D.msg y.bytes)) := by
  induction h with
  | nil st => exact ⟨rfl, rfl⟩
  | cons st st2 y ys hc hf _ ih =>
    have he := failed_verification_effect D c st y hc hf
    refine ⟨ih.1.trans he.1, ?_⟩
    rw [ih.2, he.2.2]
    simp [secAfter]

open FlexModel.Sec in
/-- AS IF NEVER RECEIVED, secured traffic: after any run of secured frames that failed (bad envelopes, unsupported
algorithms, forged or flipped messages, unknown signers ...) an honest frame carrying its certificate is verified,
decapsulated and handled by the router EXACTLY as it would have been without them: same router state afterwards,
same deliveries / transmissions / timers, same exception if any.  (The security state may differ: certificates learnt,
P2PCD request lists - `failed_verification_effect`.) -/
theorem honest_secured_frame_after_failed_frames (D : Dec) (c : SCfg) (st st2 : St) (ys : List Rx)
    (hrun : FailedRun D c st ys st2) (x : Rx) (hcx : classify c.recv x.bytes = .secured)
    (m : Msg) (hmx : D.msg x.bytes = some m) (cert : Cert) (hr : Ready c.sec st.sec.store cert)
    (hm : HonestMsg m cert) (hsg : m.signer = .certs [cert])
    (hnc : ∀ y ∈ ys, ∀ m', D.msg y.bytes = some m' → m'.noClash cert) :
    (stationRecv D c st2 x).1.r = (stationRecv D c st x).1.r ∧
    (stationRecv D c st2 x).2 = (stationRecv D c st x).2 := by
  obtain ⟨hr2, hs2⟩ := failedRun_effect D c st st2 ys hrun
  have hp := honest_passes_after_any_frames c.sec c.recv.securityEnabled st.sec cert hr m hm hsg
    (ys.map (fun y => D.msg y.bytes)) (by
      intro m' hm'
      simp only [List.mem_map] at hm'
      obtain ⟨y, hy, hym⟩ := hm'
      exact hnc y hy m' hym)
  rw [← hs2] at hp
  unfold stationRecv
  simp only [hcx, hmx]
  rcases hg2 : gate c.sec c.recv.securityEnabled true st2.sec (.secured (some m)) with ⟨S2, o2⟩
  rcases hg1 : gate c.sec c.recv.securityEnabled true st.sec (.secured (some m)) with ⟨S1, o1⟩
  rw [hg2] at hp
  rw [hg1] at hp
  simp only at hp
  obtain ⟨h2, h1⟩ := hp
  subst h2; subst h1
  simp only
  exact gnStage_congr D c { st with sec := S1 } { st2 with sec := S2 } hr2 _ _ x

end FlexModel.Geo.Recv

/-
Helper lemmas for `Props/C08.lean` (and reused by the router model of C06): the TST order, association-list
facts, and the closed form of one reception.
-/
import FlexModel.Geo.LocT
namespace FlexModel.Geo

/-! ## TST order -/
namespace TST

theorem gt_iff (a b : Nat) : gt a b = true ↔ (b < a ∧ a - b ≤ HALF) ∨ (a < b ∧ HALF < b - a) := by
  simp [gt]

theorem gt_irrefl (a : Nat) : gt a a = false := by simp [gt]

theorem gt_asymm (a b : Nat) (h : gt a b = true) : gt b a = false := by
  rw [gt_iff] at h
  cases hb : gt b a with
  | false => rfl
  | true => rw [gt_iff] at hb; simp only [HALF] at *; omega

theorem gt_total (a b : Nat) (_ha : a < W) (_hb : b < W) (h : a ≠ b) : gt a b = true ∨ gt b a = true := by
  rw [gt_iff, gt_iff]; simp only [HALF, W] at *; omega

theorem gt_of_realtime (x y : Nat) (h1 : x < y) (h2 : y - x < HALF) : gt (y % W) (x % W) = true := by
  rw [gt_iff]; simp only [HALF, W] at *; omega

theorem not_gt_of_realtime (x y : Nat) (h1 : x ≤ y) (h2 : y - x < HALF) : gt (x % W) (y % W) = false := by
  cases h : gt (x % W) (y % W) with
  | false => rfl
  | true => rw [gt_iff] at h; simp only [HALF, W] at *; omega

theorem gt_antipode (x : Nat) : gt ((x + HALF) % W) (x % W) = true ↔ x % W < HALF := by
  rw [gt_iff]; simp only [HALF, W] at *; omega

theorem sub_spec (x y : Nat) (h : x ≤ y) : sub (y % W) (x % W) = (y - x) % W := by
  by_cases hc : y % W < x % W
  · simp only [sub, if_pos hc]; simp only [W] at *; omega
  · simp only [sub, if_neg hc]; simp only [W] at *; omega

/-- within a window of less than 2^31 ms the age is the elapsed real time, and 0 for a timestamp ahead of the clock -/
theorem age_spec (N T : Nat) (h1 : T < N + HALF) (h2 : N < T + HALF) : age (N % W) (T % W) = N - T := by
  simp only [age]
  split
  next h => rw [gt_iff] at h; simp only [HALF, W] at *; omega
  next h =>
    have : ¬ ((N % W < T % W ∧ T % W - N % W ≤ HALF) ∨ (T % W < N % W ∧ HALF < N % W - T % W)) := by
      rw [← gt_iff]; exact h
    by_cases hc : N % W < T % W
    · simp only [sub, if_pos hc]; simp only [HALF, W] at *; omega
    · simp only [sub, if_neg hc]; simp only [HALF, W] at *; omega

end TST

/-! ## association list -/

/-- keys are unique -/
def Uniq : Table → Prop
  | [] => True
  | (k, _) :: r => lookup r k = none ∧ Uniq r

theorem lookup_insert_self (t : Table) (a : Addr) (e : Entry) : lookup (insert t a e) a = some e := by
  induction t with
  | nil => simp [insert, lookup]
  | cons x r ih =>
    obtain ⟨k, v⟩ := x
    by_cases h : k = a
    · simp [insert, lookup, h]
    · simp [insert, lookup, h, ih]

theorem lookup_insert_ne (t : Table) (a b : Addr) (e : Entry) (h : b ≠ a) :
    lookup (insert t a e) b = lookup t b := by
  induction t with
  | nil => simp [insert, lookup]; exact fun h' => h h'.symm
  | cons x r ih =>
    obtain ⟨k, v⟩ := x
    by_cases hk : k = a
    · subst hk; simp [insert, lookup, Ne.symm h]
    · by_cases hb : k = b
      · subst hb; simp [insert, lookup, h]
      · simp [insert, lookup, hk, hb, ih]

theorem uniq_insert (t : Table) (a : Addr) (e : Entry) (h : Uniq t) : Uniq (insert t a e) := by
  induction t with
  | nil => simp [insert, Uniq, lookup]
  | cons x r ih =>
    obtain ⟨k, v⟩ := x
    obtain ⟨h1, h2⟩ := h
    by_cases hk : k = a
    · simp only [insert, hk, if_true, Uniq]; subst hk; exact ⟨h1, h2⟩
    · simp only [insert, hk, if_false, Uniq]
      exact ⟨by rw [lookup_insert_ne r a k e hk]; exact h1, ih h2⟩

theorem lookup_filter_none (t : Table) (p : Addr × Entry → Bool) (a : Addr) (h : lookup t a = none) :
    lookup (t.filter p) a = none := by
  induction t with
  | nil => simp [lookup]
  | cons x r ih =>
    obtain ⟨k, v⟩ := x
    by_cases hk : k = a
    · simp [lookup, hk] at h
    · simp only [lookup, hk, if_false] at h
      simp only [List.filter]
      split
      · simp [lookup, hk, ih h]
      · exact ih h

theorem uniq_filter (t : Table) (p : Addr × Entry → Bool) (h : Uniq t) : Uniq (t.filter p) := by
  induction t with
  | nil => simp [Uniq]
  | cons x r ih =>
    obtain ⟨k, v⟩ := x
    obtain ⟨h1, h2⟩ := h
    simp only [List.filter]
    split
    · exact ⟨lookup_filter_none r p k h1, ih h2⟩
    · exact ih h2

/-- `Option.filter` spelled out -/
def keep (p : Entry → Bool) : Option Entry → Option Entry
  | some e => if p e then some e else none
  | none => none

theorem lookup_filter (t : Table) (p : Entry → Bool) (a : Addr) (h : Uniq t) :
    lookup (t.filter (fun ke => p ke.2)) a = keep p (lookup t a) := by
  induction t with
  | nil => simp [lookup, keep]
  | cons x r ih =>
    obtain ⟨k, v⟩ := x
    obtain ⟨h1, h2⟩ := h
    by_cases hk : k = a
    · subst hk
      simp only [List.filter, lookup, if_true, keep]
      cases hp : p v with
      | true => simp [lookup]
      | false => simp only [Bool.false_eq_true, if_false]; exact lookup_filter_none r _ k h1
    · simp only [List.filter, lookup, hk, if_false]
      cases hp : p v with
      | true => simp [lookup, hk, ih h2]
      | false => exact ih h2

theorem lookup_refresh (c : Cfg) (t : Table) (now : Nat) (a : Addr) (h : Uniq t) :
    lookup (refresh c t now) a = keep (fresh c now) (lookup t a) :=
  lookup_filter t (fresh c now) a h

theorem uniq_refresh (c : Cfg) (t : Table) (now : Nat) (h : Uniq t) : Uniq (refresh c t now) :=
  uniq_filter t _ h

theorem keep_keep (p : Entry → Bool) (o : Option Entry) : keep p (keep p o) = keep p o := by
  cases o with
  | none => rfl
  | some e => simp only [keep]; cases h : p e <;> simp [keep, h]

theorem keep_some {p : Entry → Bool} {o : Option Entry} {e : Entry} (h : keep p o = some e) : o = some e ∧ p e = true := by
  cases o with
  | none => simp [keep] at h
  | some x =>
    simp only [keep] at h
    by_cases hp : p x = true
    · simp [hp] at h; subst h; exact ⟨rfl, hp⟩
    · simp [hp] at h

theorem keep_of_true {p : Entry → Bool} {e : Entry} (h : p e = true) : keep p (some e) = some e := by
  simp [keep, h]

/-! ## one reception in closed form -/

theorem recv_dad (c : Cfg) (t : Table) (k : Kind) (a : Addr) (p : PV) (sn now : Nat) (h : mid a = mid c.self) :
    recv c t k a p sn now = (t, .dad) := by simp [recv, h]

theorem uniq_recv (c : Cfg) (t : Table) (k : Kind) (a : Addr) (p : PV) (sn now : Nat) (h : Uniq t) :
    Uniq (recv c t k a p sn now).1 := by
  unfold recv
  by_cases hd : mid a = mid c.self
  · simp only [hd, if_true]; exact h
  · simp only [hd, if_false]
    generalize ht0 : (if c.v.prePurge = true then refresh c t now else t) = t0
    have h0 : Uniq t0 := by
      subst ht0
      by_cases hp : c.v.prePurge = true
      · simp only [hp, if_true]; exact uniq_refresh c t now h
      · simp only [hp, if_false]; exact h
    by_cases hdup : (entryStep c (lookup t0 a) k p sn).2 = .dup
    · simp only [hdup, if_true]; exact h0
    · simp only [hdup, if_false]; exact uniq_refresh _ _ _ (uniq_insert _ _ _ h0)

/-- the outcome for the source's own entry, repaired code -/
def selfOutcome (c : Cfg) (t : Table) (k : Kind) (a : Addr) (p : PV) (sn now : Nat) : Entry × Res :=
  entryStep c (keep (fresh c now) (lookup t a)) k p sn

theorem recv_res (c : Cfg) (hv : c.v = {}) (t : Table) (k : Kind) (a : Addr) (p : PV) (sn now : Nat)
    (hd : mid a ≠ mid c.self) (h : Uniq t) :
    (recv c t k a p sn now).2 = if (selfOutcome c t k a p sn now).2 = .dup then .dup else .ok := by
  have hp : c.v.prePurge = true := by rw [hv]
  simp only [recv, hd, if_false, hp, if_true, selfOutcome, lookup_refresh c t now a h]
  by_cases hdup : (entryStep c (keep (fresh c now) (lookup t a)) k p sn).2 = .dup
  · simp only [hdup, if_true]
  · simp only [hdup, if_false]

theorem lookup_recv_self (c : Cfg) (hv : c.v = {}) (t : Table) (k : Kind) (a : Addr) (p : PV) (sn now : Nat)
    (hd : mid a ≠ mid c.self) (h : Uniq t) :
    lookup (recv c t k a p sn now).1 a =
      if (selfOutcome c t k a p sn now).2 = .dup then keep (fresh c now) (lookup t a)
      else keep (fresh c now) (some (selfOutcome c t k a p sn now).1) := by
  have hp : c.v.prePurge = true := by rw [hv]
  simp only [recv, hd, if_false, hp, if_true, selfOutcome, lookup_refresh c t now a h]
  by_cases hdup : (entryStep c (keep (fresh c now) (lookup t a)) k p sn).2 = .dup
  · simp only [hdup, if_true, lookup_refresh c t now a h]
  · simp only [hdup, if_false]
    rw [lookup_refresh _ _ _ _ (uniq_insert _ _ _ (uniq_refresh c t now h)), lookup_insert_self]

theorem lookup_recv_ne (c : Cfg) (hv : c.v = {}) (t : Table) (k : Kind) (a b : Addr) (p : PV) (sn now : Nat)
    (hd : mid a ≠ mid c.self) (hb : b ≠ a) (h : Uniq t) :
    lookup (recv c t k a p sn now).1 b = keep (fresh c now) (lookup t b) := by
  have hp : c.v.prePurge = true := by rw [hv]
  simp only [recv, hd, if_false, hp, if_true]
  by_cases hdup : (entryStep c (lookup (refresh c t now) a) k p sn).2 = .dup
  · simp only [hdup, if_true, lookup_refresh c t now b h]
  · simp only [hdup, if_false]
    rw [lookup_refresh _ _ _ _ (uniq_insert _ _ _ (uniq_refresh c t now h)), lookup_insert_ne _ _ _ _ hb,
      lookup_refresh c t now b h, keep_keep]


/-! ## per-entry update, repaired code -/

theorem updPV_spec (c : Cfg) (hv : c.v = {}) (e : Entry) (p : PV) :
    (updPV c e p).hasPV = true ∧ (updPV c e p).isNeighbour = e.isNeighbour ∧
    (updPV c e p).lsPending = e.lsPending ∧ (updPV c e p).dpl = e.dpl ∧
    (updPV c e p).pv = if e.hasPV = true ∧ TST.gt p.tst e.pv.tst = false then e.pv else p := by
  have hf : c.v.pvFlag = true := by rw [hv]
  simp only [updPV, hf, if_true]
  cases hh : e.hasPV <;> cases hg : TST.gt p.tst e.pv.tst <;> simp [hh]

/-- what `entryStep` does to an existing entry -/
theorem entryStep_some (c : Cfg) (hv : c.v = {}) (e : Entry) (k : Kind) (p : PV) (sn : Nat) :
    let r := entryStep c (some e) k p sn
    (r.2 = .dup ↔ (k.singleHop = false ∧ sn ∈ e.dpl)) ∧
    (r.2 = .dup → r.1 = e) ∧
    (r.2 ≠ .dup → r.2 = .ok ∧ r.1.hasPV = true ∧ r.1.isNeighbour = (k.singleHop || e.isNeighbour) ∧
      r.1.lsPending = e.lsPending ∧
      r.1.pv = if e.hasPV = true ∧ TST.gt p.tst e.pv.tst = false then e.pv else p) := by
  have hg : c.v.gbcKeepsNb = true := by rw [hv]
  cases hs : k.singleHop
  · by_cases hd : sn ∈ e.dpl
    · simp [entryStep, hs, hd]
    · have := updPV_spec c hv { e with dpl := dplPush c.dplLen e.dpl sn } p
      simp only [] at this
      simp [entryStep, hs, hd, hg, this]
  · have := updPV_spec c hv e p
    simp [entryStep, hs, this]

/-- what `entryStep` does for a new entry -/
theorem entryStep_none (c : Cfg) (hv : c.v = {}) (k : Kind) (p : PV) (sn : Nat) :
    let r := entryStep c none k p sn
    r.2 = .ok ∧ r.1.hasPV = true ∧ r.1.isNeighbour = k.singleHop ∧ r.1.lsPending = false ∧ r.1.pv = p := by
  cases hs : k.singleHop
  · have := updPV_spec c hv { dpl := dplPush c.dplLen [] sn } p
    simp [entryStep, hs, this]
  · have := updPV_spec c hv {} p
    simp [entryStep, hs, this]

/-- window of less than 2^31 ms starting at `B` -/
def Win (B x : Nat) : Prop := B ≤ x ∧ x < B + HALF

theorem fresh_iff_window (c : Cfg) (hv : c.v = {}) (B now : Nat) (e : Entry) (hh : e.hasPV = true)
    (hw : Win B e.pv.time) (hn : Win B now) :
    fresh c now e = true ↔ now ≤ e.pv.time + c.lifetimeMs := by
  have hm : c.v.msClock = true := by rw [hv]
  obtain ⟨h1, h2⟩ := hw
  obtain ⟨h3, h4⟩ := hn
  have ha := TST.age_spec now e.pv.time (by simp only [HALF] at *; omega) (by simp only [HALF] at *; omega)
  simp only [fresh, hm, hh, ageAt, if_true, PV.tst, ha]
  simp
  omega


/-! ## live entries over histories -/

/-- position vectors of the packets of `a` that are accepted (neither DAD- nor DPD-dropped) along a history -/
def acc1 (c : Cfg) (a : Addr) (t : Table) : Op → List PV
  | .pkt k b p sn now => if b = a ∧ (recv c t k b p sn now).2 = .ok then [p] else []
  | _ => []

def acceptedFrom (c : Cfg) (a : Addr) : Table → List Op → List PV
  | _, [] => []
  | t, op :: r => acc1 c a t op ++ acceptedFrom c a (step c t op) r

/-- side conditions of a history segment during which the entry of `a` must stay alive:
every operation happens inside the window and not later than `lim`; the timestamps of `a`'s packets lie in the window -/
def OpOK (a : Addr) (B lim : Nat) : Op → Prop
  | .pkt _ b p _ now => Win B now ∧ now ≤ lim ∧ (b = a → Win B p.time)
  | .refresh now => Win B now ∧ now ≤ lim
  | .tick _ => True
  | .ensure _ => True

theorem uniq_step (c : Cfg) (t : Table) (op : Op) (h : Uniq t) : Uniq (step c t op) := by
  cases op with
  | pkt k a p sn now => exact uniq_recv c t k a p sn now h
  | ensure a => simp only [step, ensure]; split <;> exact uniq_insert _ _ _ h
  | refresh now => exact uniq_refresh c t now h
  | tick now => exact h

/-- the live-entry step: PV moves only forward in real time, flag and presence are kept -/
theorem live_step (c : Cfg) (hv : c.v = {}) (a : Addr) (B lim : Nat) (t : Table) (e : Entry) (op : Op)
    (hu : Uniq t) (hl : lookup t a = some e) (hh : e.hasPV = true) (hw : Win B e.pv.time)
    (hlim : lim ≤ e.pv.time + c.lifetimeMs) (hop : OpOK a B lim op) :
    ∃ e', lookup (step c t op) a = some e' ∧ e'.hasPV = true ∧ (e.isNeighbour = true → e'.isNeighbour = true) ∧
      e.pv.time ≤ e'.pv.time ∧ Win B e'.pv.time ∧ (∀ q ∈ acc1 c a t op, q.time ≤ e'.pv.time) ∧
      (e'.pv = e.pv ∨ e'.pv ∈ acc1 c a t op) := by
  have base : ∃ e', some e = some e' ∧ e'.hasPV = true ∧ (e.isNeighbour = true → e'.isNeighbour = true) ∧
      e.pv.time ≤ e'.pv.time ∧ Win B e'.pv.time ∧ (∀ q ∈ ([] : List PV), q.time ≤ e'.pv.time) ∧
      (e'.pv = e.pv ∨ e'.pv ∈ ([] : List PV)) :=
    ⟨e, rfl, hh, id, Nat.le_refl _, hw, by simp, Or.inl rfl⟩
  cases op with
  | tick now => simpa [step, acc1, hl] using base
  | refresh now =>
    obtain ⟨hn, hn2⟩ := hop
    have hf : fresh c now e = true := (fresh_iff_window c hv B now e hh hw hn).2 (by omega)
    simp only [step, acc1, lookup_refresh c t now a hu, hl, keep_of_true hf]
    exact base
  | ensure b =>
    by_cases hb : b = a
    · subst hb
      simp only [step, ensure, hl, lookup_insert_self, acc1]
      exact ⟨_, rfl, hh, id, Nat.le_refl _, hw, by simp, Or.inl rfl⟩
    · have : lookup (step c t (.ensure b)) a = lookup t a := by
        simp only [step, ensure]; split <;> exact lookup_insert_ne _ _ _ _ (Ne.symm hb)
      rw [this, hl]; simpa [acc1] using base
  | pkt k b p sn now =>
    obtain ⟨hn, hn2, hpw⟩ := hop
    have hf : fresh c now e = true := (fresh_iff_window c hv B now e hh hw hn).2 (by omega)
    by_cases hd : mid b = mid c.self
    · simp only [step, acc1, recv_dad c t k b p sn now hd, hl]
      simpa using base
    · by_cases hb : b = a
      · subst hb
        have hpw := hpw rfl
        have hres := recv_res c hv t k b p sn now hd hu
        have hlk := lookup_recv_self c hv t k b p sn now hd hu
        simp only [selfOutcome, hl, keep_of_true hf] at hres hlk
        obtain ⟨h1, h2, h3⟩ := entryStep_some c hv e k p sn
        by_cases hdup : (entryStep c (some e) k p sn).2 = .dup
        · simp only [hdup, if_true] at hres hlk
          simp only [step, acc1, hres, hlk]
          simpa using base
        · simp only [hdup, if_false] at hres hlk
          obtain ⟨_, g1, g2, _, g4⟩ := h3 hdup
          -- the resulting PV: the newer of the two in real time
          have hpv : (entryStep c (some e) k p sn).1.pv.time = max e.pv.time p.time ∧
              ((entryStep c (some e) k p sn).1.pv = e.pv ∨ (entryStep c (some e) k p sn).1.pv = p) := by
            rw [g4]
            by_cases hle : p.time ≤ e.pv.time
            · have := TST.not_gt_of_realtime p.time e.pv.time hle
                (by obtain ⟨a1, a2⟩ := hw; obtain ⟨b1, b2⟩ := hpw; simp only [HALF] at *; omega)
              simp only [PV.tst, hh, this, and_self, if_true]
              exact ⟨by omega, by simp⟩
            · have := TST.gt_of_realtime e.pv.time p.time (by omega)
                (by obtain ⟨a1, a2⟩ := hw; obtain ⟨b1, b2⟩ := hpw; simp only [HALF] at *; omega)
              simp only [PV.tst, hh, this, true_and, Bool.true_eq_false, if_false]
              exact ⟨by omega, by simp⟩
          obtain ⟨hmax, hor⟩ := hpv
          have hw' : Win B (entryStep c (some e) k p sn).1.pv.time := by
            rw [hmax]; obtain ⟨a1, a2⟩ := hw; obtain ⟨b1, b2⟩ := hpw
            exact ⟨by omega, by omega⟩
          have hf' : fresh c now (entryStep c (some e) k p sn).1 = true :=
            (fresh_iff_window c hv B now _ g1 hw' hn).2 (by rw [hmax]; omega)
          simp only [keep_of_true hf'] at hlk
          refine ⟨_, by simpa [step] using hlk, g1, ?_, by rw [hmax]; omega, hw', ?_, ?_⟩
          · intro hnb; rw [g2, hnb]; simp
          · simp only [acc1, hres, true_and, if_true]
            intro q hq; simp at hq; subst hq; rw [hmax]; omega
          · simp only [acc1, hres, true_and, if_true]
            cases hor with
            | inl h => exact Or.inl h
            | inr h => right; simp [h]
      · have hlk := lookup_recv_ne c hv t k b a p sn now hd (Ne.symm hb) hu
        rw [hl, keep_of_true hf] at hlk
        simp only [step, acc1, hb, false_and, if_false, hlk]
        simpa using base


/-- history form of `live_step` -/
theorem live_entry (c : Cfg) (hv : c.v = {}) (a : Addr) (B : Nat) :
    ∀ (ops : List Op) (t : Table) (e : Entry) (lim : Nat), Uniq t → lookup t a = some e → e.hasPV = true →
      Win B e.pv.time → lim ≤ e.pv.time + c.lifetimeMs → (∀ op ∈ ops, OpOK a B lim op) →
      ∃ e', lookup (ops.foldl (step c) t) a = some e' ∧ e'.hasPV = true ∧
        (e.isNeighbour = true → e'.isNeighbour = true) ∧ e.pv.time ≤ e'.pv.time ∧ Win B e'.pv.time ∧
        (∀ q ∈ acceptedFrom c a t ops, q.time ≤ e'.pv.time) ∧
        (e'.pv = e.pv ∨ e'.pv ∈ acceptedFrom c a t ops) := by
  intro ops
  induction ops with
  | nil =>
    intro t e lim _ hl hh hw _ _
    exact ⟨e, hl, hh, id, Nat.le_refl _, hw, by simp [acceptedFrom], Or.inl rfl⟩
  | cons op r ih =>
    intro t e lim hu hl hh hw hlim hops
    obtain ⟨e1, s1, s2, s3, s4, s5, s6, s7⟩ :=
      live_step c hv a B lim t e op hu hl hh hw hlim (hops op (by simp))
    obtain ⟨e2, r1, r2, r3, r4, r5, r6, r7⟩ :=
      ih (step c t op) e1 lim (uniq_step c t op hu) s1 s2 s5 (by omega) (fun o ho => hops o (by simp [ho]))
    refine ⟨e2, by simpa [List.foldl] using r1, r2, fun h => r3 (s3 h), by omega, r5, ?_, ?_⟩
    · intro q hq
      simp only [acceptedFrom, List.mem_append] at hq
      cases hq with
      | inl h => have := s6 q h; omega
      | inr h => exact r6 q h
    · simp only [acceptedFrom, List.mem_append]
      cases r7 with
      | inl h =>
        cases s7 with
        | inl h' => exact Or.inl (h.trans h')
        | inr h' => exact Or.inr (Or.inl (h ▸ h'))
      | inr h => exact Or.inr (Or.inr h)

/-! ## invariants over all histories -/

theorem uniq_run (c : Cfg) (ops : List Op) : Uniq (run c ops) := by
  suffices ∀ t, Uniq t → Uniq (ops.foldl (step c) t) from this [] trivial
  induction ops with
  | nil => exact fun t h => h
  | cons op r ih => exact fun t h => ih _ (uniq_step c t op h)

/-- generic lifting of a step-invariant (together with `Uniq`) to all histories -/
theorem run_invariant (c : Cfg) (P : Table → Prop) (ops : List Op) (Q : Op → Prop) (h0 : P [])
    (hstep : ∀ t op, Uniq t → P t → Q op → P (step c t op)) (hq : ∀ op ∈ ops, Q op) : P (run c ops) := by
  suffices ∀ t, Uniq t → P t → P (ops.foldl (step c) t) from this [] trivial h0
  induction ops with
  | nil => exact fun t _ h => h
  | cons op r ih =>
    intro t hu hp
    exact ih (fun o ho => hq o (by simp [ho])) _ (uniq_step c t op hu) (hstep t op hu hp (hq op (by simp)))

/-- every key of the table after one step was a key before or is the address the operation names -/
theorem step_key (c : Cfg) (hv : c.v = {}) (t : Table) (op : Op) (hu : Uniq t) (b : Addr) (e : Entry)
    (h : lookup (step c t op) b = some e) :
    (∃ e0, lookup t b = some e0) ∨
      (match op with | .pkt _ a _ _ _ => b = a ∧ mid a ≠ mid c.self | .ensure a => b = a | _ => False) := by
  cases op with
  | tick now => exact Or.inl ⟨e, h⟩
  | refresh now =>
    simp only [step, lookup_refresh c t now b hu] at h
    exact Or.inl ⟨e, (keep_some h).1⟩
  | ensure a =>
    by_cases hb : b = a
    · exact Or.inr hb
    · left
      have : lookup (step c t (.ensure a)) b = lookup t b := by
        simp only [step, ensure]; split <;> exact lookup_insert_ne _ _ _ _ hb
      exact ⟨e, this ▸ h⟩
  | pkt k a p sn now =>
    by_cases hd : mid a = mid c.self
    · simp only [step, recv_dad c t k a p sn now hd] at h; exact Or.inl ⟨e, h⟩
    · by_cases hb : b = a
      · exact Or.inr ⟨hb, hd⟩
      · simp only [step, lookup_recv_ne c hv t k a b p sn now hd hb hu] at h
        exact Or.inl ⟨e, (keep_some h).1⟩


/-! ## lifetime under a refreshed position vector: chaining `live_step` with a moving limit -/

/-- PV time of the newest PV among `T` and what one operation makes the table accept from `a` -/
def accTime (c : Cfg) (a : Addr) (t : Table) (op : Op) (T : Nat) : Nat :=
  (acc1 c a t op).foldl (fun m q => max m q.time) T

/-- chained side condition: every operation happens inside the window and not later than the lifetime after the
NEWEST position vector of `a` accepted so far (`T` = its time); the timestamps of `a`'s packets lie in the window -/
def ChainOK (c : Cfg) (a : Addr) (B : Nat) : Table → Nat → List Op → Prop
  | _, _, [] => True
  | t, T, op :: r => OpOK a B (T + c.lifetimeMs) op ∧ ChainOK c a B (step c t op) (accTime c a t op T) r

/-- time of the newest PV of `a` accepted along the history, starting from `T` -/
def latestTime (c : Cfg) (a : Addr) : Table → Nat → List Op → Nat
  | _, T, [] => T
  | t, T, op :: r => latestTime c a (step c t op) (accTime c a t op T) r

theorem acc1_cases (c : Cfg) (a : Addr) (t : Table) (op : Op) :
    acc1 c a t op = [] ∨ ∃ p, acc1 c a t op = [p] := by
  cases op with
  | pkt k b p sn now => simp only [acc1]; split <;> simp
  | ensure b => exact Or.inl rfl
  | refresh now => exact Or.inl rfl
  | tick now => exact Or.inl rfl

theorem accTime_ge (c : Cfg) (a : Addr) (t : Table) (op : Op) (T : Nat) : T ≤ accTime c a t op T := by
  unfold accTime
  rcases acc1_cases c a t op with h | ⟨p, h⟩ <;> rw [h] <;> simp only [List.foldl]
  · exact Nat.le_refl _
  · exact Nat.le_max_left _ _

theorem latestTime_ge (c : Cfg) (a : Addr) : ∀ (ops : List Op) (t : Table) (T : Nat), T ≤ latestTime c a t T ops := by
  intro ops
  induction ops with
  | nil => intro t T; exact Nat.le_refl _
  | cons op r ih =>
    intro t T
    exact Nat.le_trans (accTime_ge c a t op T) (ih _ _)

/-- the chained live-entry theorem: the entry stays, keeps its neighbour flag, and its PV time is the time of the newest
accepted PV, as long as every operation falls within the lifetime of the newest PV accepted BEFORE it -/
theorem live_chain (c : Cfg) (hv : c.v = {}) (a : Addr) (B : Nat) :
    ∀ (ops : List Op) (t : Table) (e : Entry), Uniq t → lookup t a = some e → e.hasPV = true →
      Win B e.pv.time → ChainOK c a B t e.pv.time ops →
      ∃ e', lookup (ops.foldl (step c) t) a = some e' ∧ e'.hasPV = true ∧
        (e.isNeighbour = true → e'.isNeighbour = true) ∧
        e'.pv.time = latestTime c a t e.pv.time ops ∧ Win B e'.pv.time := by
  intro ops
  induction ops with
  | nil =>
    intro t e _ hl hh hw _
    exact ⟨e, hl, hh, id, rfl, hw⟩
  | cons op r ih =>
    intro t e hu hl hh hw hch
    obtain ⟨hop, hrest⟩ := hch
    obtain ⟨e1, s1, s2, s3, s4, s5, s6, s7⟩ :=
      live_step c hv a B (e.pv.time + c.lifetimeMs) t e op hu hl hh hw (Nat.le_refl _) hop
    have ht : e1.pv.time = accTime c a t op e.pv.time := by
      unfold accTime
      rcases acc1_cases c a t op with h | ⟨p, h⟩
      · rw [h] at s7 ⊢
        rcases s7 with h7 | h7
        · simp [List.foldl, h7]
        · cases h7
      · rw [h] at s6 s7 ⊢
        have hp := s6 p (by simp)
        simp only [List.foldl]
        rcases s7 with h7 | h7
        · rw [h7] at hp ⊢; omega
        · simp at h7; rw [h7] at s4 ⊢; omega
    rw [← ht] at hrest
    obtain ⟨e2, r1, r2, r3, r4, r5⟩ := ih (step c t op) e1 (uniq_step c t op hu) s1 s2 s5 hrest
    exact ⟨e2, by simpa [List.foldl] using r1, r2, fun h => r3 (s3 h), by rw [r4, ht]; rfl, r5⟩

/-! ## the duplicate packet list under a well-formed configuration -/

theorem dplPushE_wf (L : Nat) (h : 0 < L) (d : List Nat) (sn : Nat) : dplPushE L d sn = .ok (dplPush L d sn) := by
  unfold dplPushE dplPush
  by_cases hl : d.length = L
  · cases d with
    | nil => simp at hl; omega
    | cons x r => simp [hl]
  · simp [hl]

theorem dplPush_length_le (L : Nat) (h : 0 < L) (d : List Nat) (sn : Nat) (hd : d.length ≤ L) :
    (dplPush L d sn).length ≤ L := by
  unfold dplPush
  by_cases hl : d.length = L
  · simp [hl]; omega
  · simp [hl]; omega

/-- every entry's duplicate list holds at most `itsGnDPLLength` sequence numbers -/
def DplBounded (c : Cfg) (t : Table) : Prop := ∀ b e, lookup t b = some e → e.dpl.length ≤ c.dplLen

theorem updPV_dpl (c : Cfg) (e : Entry) (p : PV) : (updPV c e p).dpl = e.dpl := by
  unfold updPV
  repeat' split
  all_goals rfl

theorem entryStep_dpl_le (c : Cfg) (hwf : c.WF) (old : Option Entry) (k : Kind) (p : PV) (sn : Nat)
    (hold : ∀ e, old = some e → e.dpl.length ≤ c.dplLen) :
    (entryStep c old k p sn).1.dpl.length ≤ c.dplLen := by
  unfold entryStep
  cases old with
  | none =>
    simp only []
    split
    · simp [updPV_dpl]
    · simp only [updPV_dpl]; exact dplPush_length_le c.dplLen hwf [] sn (by simp)
  | some e =>
    have he := hold e rfl
    simp only []
    split
    · simp [updPV_dpl, he]
    · split
      · exact he
      · split <;> simp only [updPV_dpl] <;> exact dplPush_length_le c.dplLen hwf e.dpl sn he

theorem dplBounded_step (c : Cfg) (hv : c.v = {}) (hwf : c.WF) (t : Table) (op : Op) (hu : Uniq t)
    (h : DplBounded c t) : DplBounded c (step c t op) := by
  intro b e hl
  cases op with
  | tick now => exact h b e hl
  | refresh now =>
    simp only [step, lookup_refresh c t now b hu] at hl
    exact h b e (keep_some hl).1
  | ensure a =>
    by_cases hb : b = a
    · subst hb
      simp only [step, ensure] at hl
      split at hl
      next e0 h0 => rw [lookup_insert_self] at hl; cases hl; exact h b e0 h0
      next => rw [lookup_insert_self] at hl; cases hl; simp
    · have : lookup (step c t (.ensure a)) b = lookup t b := by
        simp only [step, ensure]; split <;> exact lookup_insert_ne _ _ _ _ hb
      exact h b e (this ▸ hl)
  | pkt k a p sn now =>
    by_cases hd : mid a = mid c.self
    · simp only [step, recv_dad c t k a p sn now hd] at hl; exact h b e hl
    · by_cases hb : b = a
      · subst hb
        simp only [step, lookup_recv_self c hv t k b p sn now hd hu] at hl
        split at hl
        · exact h b e (keep_some hl).1
        · obtain ⟨heq, _⟩ := keep_some hl
          cases heq
          apply entryStep_dpl_le c hwf
          intro e0 he0
          exact h b e0 (keep_some he0).1
      · simp only [step, lookup_recv_ne c hv t k a b p sn now hd hb hu] at hl
        exact h b e (keep_some hl).1

end FlexModel.Geo

/-
Helper lemmas for Props/C06.lean: DPL ring, the actions of one reception, window persistence over histories.
-/
import FlexModel.Geo.Router
import FlexModel.Geo.LocTLemmas
namespace FlexModel.Geo

/-! ## DPL ring -/

/-- the last `L` elements -/
def lastN (L : Nat) (xs : List Nat) : List Nat := xs.drop (xs.length - L)

/-- specification of annex A.2: a sequence number is a duplicate iff it is among the last `L` accepted ones -/
def dplSpec (L : Nat) : List Nat → List Nat → List Bool
  | _, [] => []
  | acc, sn :: r =>
    if sn ∈ lastN L acc then true :: dplSpec L acc r else false :: dplSpec L (acc ++ [sn]) r

/-- the code: `check_duplicate_sn` on the ring -/
def dplImpl (L : Nat) : List Nat → List Nat → List Bool
  | _, [] => []
  | d, sn :: r =>
    if d.contains sn then true :: dplImpl L d r else false :: dplImpl L (dplPush L d sn) r

theorem lastN_push (L : Nat) (hL : 0 < L) (acc : List Nat) (sn : Nat) :
    dplPush L (lastN L acc) sn = lastN L (acc ++ [sn]) := by
  simp only [dplPush, lastN, List.length_drop, List.length_append, List.length_cons, List.length_nil]
  by_cases h : acc.length < L
  · have h1 : acc.length - L = 0 := by omega
    have h2 : acc.length + (0 + 1) - L = 0 := by omega
    simp [h1, h2]; omega
  · have h1 : acc.length - (acc.length - L) = L := by omega
    simp only [h1, beq_self_eq_true, if_true, List.drop_drop]
    rw [List.drop_append_of_le_length (by omega)]
    congr 2
    omega

theorem dpl_ring_gen (L : Nat) (hL : 0 < L) (sns acc : List Nat) :
    dplImpl L (lastN L acc) sns = dplSpec L acc sns := by
  induction sns generalizing acc with
  | nil => rfl
  | cons sn r ih =>
    simp only [dplImpl, dplSpec, List.contains_iff_mem]
    by_cases h : sn ∈ lastN L acc
    · simp only [h, if_true]; rw [ih]
    · simp only [h, if_false]; rw [lastN_push L hL, ih]

/-- what `refreshDE` may change: only the DE position vector, and only to the strictly newer PV of a neighbour entry -/
theorem refreshDE_spec (t : Table) (p : Pkt) :
    refreshDE t p = p ∨ ∃ e, lookup t p.de = some e ∧ e.isNeighbour = true ∧ TST.gt e.pv.tst p.dePV.tst = true ∧
      refreshDE t p = { p with dePV := e.pv } := by
  unfold refreshDE
  cases h : lookup t p.de with
  | none => exact Or.inl rfl
  | some e =>
    simp only []
    by_cases hc : (e.isNeighbour && TST.gt e.pv.tst p.dePV.tst) = true
    · simp only [hc, if_true]
      simp only [Bool.and_eq_true] at hc
      exact Or.inr ⟨e, rfl, hc.1, hc.2, rfl⟩
    · simp only [hc]; exact Or.inl rfl

theorem refreshDE_rhl (t : Table) (p : Pkt) : (refreshDE t p).rhl = p.rhl ∧ (refreshDE t p).mhl = p.mhl := by
  rcases refreshDE_spec t p with h | ⟨e, _, _, _, h⟩ <;> rw [h] <;> exact ⟨rfl, rfl⟩

/-- the forwarded copies allowed by the property: the packet with RHL one lower, DE PV possibly refreshed (GUC / LS reply) -/
def CopyOf (t : Table) (p q : Pkt) : Prop :=
  q = fwd p ∨ ((p.kind = .guc ∨ p.kind = .lsRep) ∧ q = fwd (refreshDE t p))

/-- what one action of the handler for packet `p` may be (`s` before, `s'` after the handler) -/
def ActOK (c : RCfg) (s s' : RSt) (p : Pkt) (act : Act) : Prop :=
  (∀ q, act = .send q → 2 ≤ p.rhl ∧ CopyOf s.t p q) ∧
  (∀ k ms, act = .arm k ms → 2 ≤ p.rhl ∧ p.kind = .gbc ∧ c.cbf = true ∧ k = (p.so, p.sn) ∧
      bufGet s'.buf k = some (fwd p)) ∧
  (∀ k so sn, act = .deliver k so sn → k = p.kind ∧ so = p.so ∧ (p.kind = .shb ∨ sn = p.sn)) ∧
  (∀ to, act = .reply to → p.kind = .lsReq ∧ mid p.de = mid c.loct.self)

theorem ok_send {c : RCfg} {s s' : RSt} {p q0 : Pkt} (h2 : 2 ≤ p.rhl) (hc : CopyOf s.t p q0) :
    ActOK c s s' p (.send q0) :=
  ⟨fun q hq => (by cases hq; exact ⟨h2, hc⟩), fun _ _ hq => (by cases hq), fun _ _ _ hq => (by cases hq),
    fun _ hq => (by cases hq)⟩

theorem ok_deliver {c : RCfg} {s s' : RSt} {p : Pkt} {k : Kind} {so sn : Nat}
    (h : k = p.kind ∧ so = p.so ∧ (p.kind = .shb ∨ sn = p.sn)) : ActOK c s s' p (.deliver k so sn) :=
  ⟨fun _ hq => (by cases hq), fun _ _ hq => (by cases hq), fun _ _ _ hq => (by cases hq; exact h), fun _ hq => (by cases hq)⟩

theorem ok_cancel {c : RCfg} {s s' : RSt} {p : Pkt} {k : Key} : ActOK c s s' p (.cancel k) :=
  ⟨fun _ hq => (by cases hq), fun _ _ hq => (by cases hq), fun _ _ _ hq => (by cases hq), fun _ hq => (by cases hq)⟩

theorem gacSend_eq (p : Pkt) (h : ¬ p.rhl ≤ 1) :
    ({ p with rhl := if p.rhl = 0 then 255 else p.rhl - 1 } : Pkt) = fwd p := by
  have : p.rhl ≠ 0 := by omega
  simp [fwd, this]

theorem bufGet_append_new (b : List (Key × Pkt)) (k : Key) (q : Pkt) (h : bufHas b k = false) :
    bufGet (b ++ [(k, q)]) k = some q := by
  induction b with
  | nil => simp [bufGet]
  | cons x r ih =>
    simp only [bufHas, List.any_cons, Bool.or_eq_false_iff] at h
    have ih' := ih (by simpa [bufHas] using h.2)
    simp only [bufGet, List.cons_append, List.find?_cons, h.1] at ih' ⊢
    exact ih'

/-! ## Location Service at the requester: only `lsSend` / `origGuc` actions, CBF buffer untouched, location table changed
only in the `ls_pending` flag of the sought address (or by a placeholder without PV for it) -/

theorem lsRequest_acts (s : RSt) (a : Addr) (req : Bool) : ∀ act ∈ (lsRequest s a req).2, act = .lsSend a := by
  unfold lsRequest; split <;> simp

theorem lsRequest_buf (s : RSt) (a : Addr) (req : Bool) : (lsRequest s a req).1.buf = s.buf := by
  unfold lsRequest; split <;> rfl

theorem lsRequest_t (s : RSt) (a : Addr) (req : Bool) : (lsRequest s a req).1.t = ensure s.t a := by
  unfold lsRequest; split <;> rfl

/-- `t'` is `t` up to the `ls_pending` flag of `a`'s entry, or has a placeholder (no PV, empty duplicate packet list) for `a`
where `t` has no entry -/
def LsSim (a : Addr) (t t' : Table) : Prop :=
  (Uniq t → Uniq t') ∧ (∀ b, b ≠ a → lookup t' b = lookup t b) ∧
  (∀ e, lookup t a = some e → ∃ f, lookup t' a = some { e with lsPending := f }) ∧
  (lookup t a = none → lookup t' a = none ∨ ∃ f, lookup t' a = some { lsPending := f })

theorem lsSim_refl (a : Addr) (t : Table) : LsSim a t t :=
  ⟨id, fun _ _ => rfl, fun e h => ⟨e.lsPending, h⟩, fun h => Or.inl h⟩

theorem lsSim_trans {a : Addr} {t t' t'' : Table} (h1 : LsSim a t t') (h2 : LsSim a t' t'') : LsSim a t t'' := by
  obtain ⟨a1, a2, a3, a4⟩ := h1
  obtain ⟨b1, b2, b3, b4⟩ := h2
  refine ⟨fun h => b1 (a1 h), fun b hb => by rw [b2 b hb, a2 b hb], fun e he => ?_, fun hn => ?_⟩
  · obtain ⟨f, hf⟩ := a3 e he
    obtain ⟨g, hg⟩ := b3 _ hf
    exact ⟨g, hg⟩
  · rcases a4 hn with h | ⟨f, hf⟩
    · exact b4 h
    · obtain ⟨g, hg⟩ := b3 _ hf
      exact Or.inr ⟨g, hg⟩

theorem lsSim_ensure (a : Addr) (t : Table) : LsSim a t (ensure t a) := by
  cases h : lookup t a with
  | some e =>
    simp only [ensure, h]
    refine ⟨fun hu => uniq_insert _ _ _ hu, fun b hb => lookup_insert_ne _ _ _ _ hb, fun e' he' => ?_,
      fun hn => by rw [h] at hn; cases hn⟩
    rw [h] at he'; cases he'; exact ⟨true, lookup_insert_self _ _ _⟩
  | none =>
    simp only [ensure, h]
    refine ⟨fun hu => uniq_insert _ _ _ hu, fun b hb => lookup_insert_ne _ _ _ _ hb, fun e' he' => ?_,
      fun _ => Or.inr ⟨true, lookup_insert_self _ _ _⟩⟩
    rw [h] at he'; cases he'

theorem lsSim_clearLs (a : Addr) (t : Table) : LsSim a t (clearLs t a) := by
  cases h : lookup t a with
  | some e =>
    simp only [clearLs, h]
    refine ⟨fun hu => uniq_insert _ _ _ hu, fun b hb => lookup_insert_ne _ _ _ _ hb, fun e' he' => ?_,
      fun hn => by rw [h] at hn; cases hn⟩
    rw [h] at he'; cases he'; exact ⟨false, lookup_insert_self _ _ _⟩
  | none =>
    simp only [clearLs, h]
    exact lsSim_refl _ _

theorem flushReqs_spec (a : Addr) : ∀ (n : Nat) (s : RSt),
    (∀ act ∈ (flushReqs s a n).2, act = .lsSend a ∨ act = .origGuc a) ∧ (flushReqs s a n).1.buf = s.buf ∧
    LsSim a s.t (flushReqs s a n).1.t := by
  intro n
  induction n with
  | zero => intro s; exact ⟨by simp [flushReqs], rfl, lsSim_refl _ _⟩
  | succ n ih =>
    intro s
    have step : ∀ (r : RSt × List Act), (∀ act ∈ r.2, act = .lsSend a ∨ act = .origGuc a) → r.1.buf = s.buf →
        LsSim a s.t r.1.t →
        (∀ act ∈ ((flushReqs r.1 a n).1, r.2 ++ (flushReqs r.1 a n).2).2, act = .lsSend a ∨ act = .origGuc a) ∧
        ((flushReqs r.1 a n).1, r.2 ++ (flushReqs r.1 a n).2).1.buf = s.buf ∧
        LsSim a s.t ((flushReqs r.1 a n).1, r.2 ++ (flushReqs r.1 a n).2).1.t := by
      intro r h1 h2 h3
      obtain ⟨i1, i2, i3⟩ := ih r.1
      refine ⟨?_, by simp only []; rw [i2, h2], lsSim_trans h3 i3⟩
      intro act hact
      rcases List.mem_append.1 hact with h | h
      · exact h1 act h
      · exact i1 act h
    have hls : (∀ act ∈ (lsRequest s a true).2, act = Act.lsSend a ∨ act = Act.origGuc a) ∧
        (lsRequest s a true).1.buf = s.buf ∧ LsSim a s.t (lsRequest s a true).1.t :=
      ⟨fun act h => Or.inl (lsRequest_acts s a true act h), lsRequest_buf s a true,
        by rw [lsRequest_t]; exact lsSim_ensure a s.t⟩
    simp only [flushReqs]
    cases hl : lookup s.t a with
    | none => exact step _ hls.1 hls.2.1 hls.2.2
    | some e =>
      simp only []
      cases hp : e.lsPending with
      | true => simp only [if_true]; exact step _ hls.1 hls.2.1 hls.2.2
      | false =>
        simp only [Bool.false_eq_true, if_false]
        exact step (s, [.origGuc a]) (by simp) rfl (lsSim_refl _ _)

theorem lsComplete_spec (s : RSt) (a : Addr) :
    (∀ act ∈ (lsComplete s a).2, act = .lsSend a ∨ act = .origGuc a) ∧ (lsComplete s a).1.buf = s.buf ∧
    LsSim a s.t (lsComplete s a).1.t := by
  unfold lsComplete
  obtain ⟨h1, h2, h3⟩ := flushReqs_spec a ((lsBufGet s.lsBuf a).getD 0)
    { s with t := clearLs s.t a, lsCnt := s.lsCnt.filter (fun x => !(x == a)), lsBuf := lsBufDel s.lsBuf a }
  exact ⟨h1, h2, lsSim_trans (lsSim_clearLs a s.t) h3⟩

/-- without a pending Location Service for `a` (no buffered request) the completion does nothing visible -/
theorem lsComplete_no_pending (s : RSt) (a : Addr) (h : (lsBufGet s.lsBuf a).getD 0 = 0) : (lsComplete s a).2 = [] := by
  unfold lsComplete; rw [h]; rfl

theorem flushReqs_known (a : Addr) (e : Entry) : ∀ (n : Nat) (s : RSt), lookup s.t a = some e → e.lsPending = false →
    flushReqs s a n = (s, List.replicate n (.origGuc a)) := by
  intro n
  induction n with
  | zero => intro s _ _; rfl
  | succ n ih =>
    intro s hl hp
    simp only [flushReqs, hl, hp, Bool.false_eq_true, if_false, ih s hl hp, List.replicate_succ]
    rfl

theorem lsBufGet_del (b : List (Addr × Nat)) (a : Addr) : lsBufGet (lsBufDel b a) a = none := by
  unfold lsBufGet lsBufDel
  have : (b.filter (fun x => !(x.1 == a))).find? (fun x => x.1 == a) = none := by
    rw [List.find?_eq_none]
    intro x hx
    have := (List.mem_filter.1 hx).2
    simpa using this
  rw [this]; rfl

/-- completion with the sought entry present: every buffered request is re-submitted exactly once, the pending flag, the
counter and the buffer of `a` are gone (so a second LS reply flushes nothing) -/
theorem lsComplete_known (s : RSt) (a : Addr) (e : Entry) (h : lookup s.t a = some e) :
    (lsComplete s a).2 = List.replicate ((lsBufGet s.lsBuf a).getD 0) (.origGuc a) ∧
    lookup (lsComplete s a).1.t a = some { e with lsPending := false } ∧
    lsBufGet (lsComplete s a).1.lsBuf a = none ∧ (lsComplete s a).1.lsCnt.contains a = false := by
  unfold lsComplete
  have hl : lookup (clearLs s.t a) a = some { e with lsPending := false } := by
    simp only [clearLs, h]; exact lookup_insert_self _ _ _
  rw [flushReqs_known a { e with lsPending := false } _ _ hl rfl]
  refine ⟨rfl, hl, lsBufGet_del _ _, ?_⟩
  simp

/-- what survives `LsSim` of a live entry: everything but the `ls_pending` flag -/
theorem lsSim_live {a' a : Addr} {t t' : Table} {e : Entry} (h : LsSim a' t t') (hl : lookup t a = some e) :
    ∃ e', lookup t' a = some e' ∧ e'.hasPV = e.hasPV ∧ e'.pv = e.pv ∧ e'.dpl = e.dpl ∧ e'.isNeighbour = e.isNeighbour := by
  by_cases ha : a = a'
  · subst ha
    obtain ⟨f, hf⟩ := h.2.2.1 e hl
    exact ⟨_, hf, rfl, rfl, rfl, rfl⟩
  · exact ⟨e, by rw [h.2.1 a ha]; exact hl, rfl, rfl, rfl, rfl⟩

/-- … and backwards: an entry with a position vector was there before -/
theorem lsSim_back {a' a : Addr} {t t' : Table} {e' : Entry} (h : LsSim a' t t') (hl : lookup t' a = some e')
    (hh : e'.hasPV = true) :
    ∃ e, lookup t a = some e ∧ e'.hasPV = e.hasPV ∧ e'.pv = e.pv ∧ e'.dpl = e.dpl ∧ e'.isNeighbour = e.isNeighbour := by
  by_cases ha : a = a'
  · subst ha
    cases hb : lookup t a with
    | some e =>
      obtain ⟨f, hf⟩ := h.2.2.1 e hb
      rw [hl] at hf; cases hf
      exact ⟨e, rfl, rfl, rfl, rfl, rfl⟩
    | none =>
      rcases h.2.2.2 hb with hn | ⟨f, hf⟩
      · rw [hl] at hn; cases hn
      · rw [hl] at hf; cases hf; cases hh
  · exact ⟨e', by rw [← h.2.1 a ha]; exact hl, rfl, rfl, rfl, rfl⟩

theorem ok_other {c : RCfg} {s s' : RSt} {p : Pkt} {act : Act} {a : Addr} (h : act = .lsSend a ∨ act = .origGuc a) :
    ActOK c s s' p act := by
  rcases h with rfl | rfl <;>
    exact ⟨fun _ hq => (by cases hq), fun _ _ hq => (by cases hq), fun _ _ _ hq => (by cases hq), fun _ hq => (by cases hq)⟩

/-- everything the handler can emit for an accepted packet -/
theorem handle_acts (c : RCfg) (hg : c.gacFix = true) (s : RSt) (p : Pkt) (env : Env) :
    ∀ act ∈ (handle c s p env).2, ActOK c s (handle c s p env).1 p act := by
  intro act hact
  cases hk : p.kind <;> simp only [handle, hk] at hact ⊢
  case beacon => simp at hact
  case shb => simp at hact; subst hact; exact ok_deliver ⟨hk.symm, rfl, Or.inl hk⟩
  case tsb =>
    repeat' split at hact
    all_goals simp at hact
    · subst hact; exact ok_deliver ⟨hk.symm, rfl, Or.inr rfl⟩
    · subst hact; exact ok_deliver ⟨hk.symm, rfl, Or.inr rfl⟩
    · rcases hact with rfl | rfl
      · exact ok_send (by omega) (Or.inl rfl)
      · exact ok_deliver ⟨hk.symm, rfl, Or.inr rfl⟩
    · subst hact; exact ok_deliver ⟨hk.symm, rfl, Or.inr rfl⟩
  case gac =>
    simp only [hg, if_true] at hact
    repeat' split at hact
    all_goals simp at hact
    · subst hact; exact ok_deliver ⟨hk.symm, rfl, Or.inr rfl⟩
    · omega
    · subst hact
      exact ok_send (by omega) (Or.inl (by cases p; simp only [fwd] at *; simp_all))
  case guc =>
    repeat' split at hact
    all_goals simp at hact
    · subst hact; exact ok_deliver ⟨hk.symm, rfl, Or.inr rfl⟩
    · subst hact; exact ok_send (by omega) (Or.inr ⟨Or.inl hk, rfl⟩)
  case lsReq =>
    repeat' split at hact
    all_goals simp at hact
    · subst hact
      rename_i h _ _ _
      exact ⟨fun _ hq => (by cases hq), fun _ _ hq => (by cases hq), fun _ _ _ hq => (by cases hq),
        fun _ _ => ⟨hk, h⟩⟩
    · subst hact; exact ok_send (by omega) (Or.inl (by cases p; simp only [fwd] at *; try simp_all))
  case lsRep =>
    by_cases hme : mid p.de = mid c.loct.self
    · simp only [hme, if_true] at hact ⊢
      exact ok_other ((lsComplete_spec s p.so).1 act hact)
    simp only [hme, if_false] at hact ⊢
    repeat' split at hact
    all_goals simp at hact
    · subst hact; exact ok_send (by omega) (Or.inr ⟨Or.inr hk, rfl⟩)
  case gbc =>
    have hd : ∀ s', ∀ a ∈ (if env.inside = true then [Act.deliver Kind.gbc p.so p.sn] else []), ActOK c s s' p a := by
      intro s' a ha
      split at ha
      · simp at ha; subst ha; exact ok_deliver ⟨hk.symm, rfl, Or.inr rfl⟩
      · simp at ha
    cases h1 : env.areaTooBig
    case true => simp only [h1, if_true] at hact ⊢; exact hd _ _ hact
    simp only [h1, Bool.false_eq_true, if_false] at hact ⊢
    cases h2 : env.pdrExceeded
    case true => simp only [h2, if_true] at hact ⊢; exact hd _ _ hact
    simp only [h2, Bool.false_eq_true, if_false] at hact ⊢
    by_cases h3 : p.rhl - 1 > 0
    case neg => simp only [h3, if_false] at hact ⊢; exact hd _ _ hact
    simp only [h3, if_true] at hact ⊢
    rcases List.mem_append.1 hact with hf | hdd
    case inr => exact hd _ _ hdd
    simp only [forwardGbc] at hf ⊢
    cases h4 : (!(neighbours s.t).isEmpty || !p.scf)
    case false =>
      simp only [h4, Bool.false_eq_true, if_false] at hf ⊢; simp at hf; subst hf; exact ok_send (by omega) (Or.inl rfl)
    simp only [h4, if_true] at hf ⊢
    cases h5 : env.inside
    case false =>
      simp only [h5, Bool.false_eq_true, if_false] at hf ⊢
      repeat' split at hf
      all_goals simp at hf
      subst hf; exact ok_send (by omega) (Or.inl rfl)
    simp only [h5, if_true] at hf ⊢
    cases h6 : c.cbf
    case false =>
      simp only [h6, Bool.false_eq_true, if_false] at hf ⊢; simp at hf; subst hf; exact ok_send (by omega) (Or.inl rfl)
    simp only [h6, if_true, cbfForward] at hf ⊢
    cases h7 : bufHas s.buf ((fwd p).so, (fwd p).sn)
    case true => simp only [h7, if_true] at hf ⊢; simp at hf; subst hf; exact ok_cancel
    simp only [h7, Bool.false_eq_true, if_false] at hf ⊢; simp at hf; subst hf
    refine ⟨fun _ hq => (by cases hq), fun k ms hq => ?_, fun _ _ _ hq => (by cases hq), fun _ hq => (by cases hq)⟩
    cases hq
    exact ⟨by omega, hk, h6, rfl, bufGet_append_new _ _ _ h7⟩

/-- every action of one reception: either the cancellation of the buffered copy (duplicate under CBF) or an action of the
handler for an accepted packet that passed the hop-limit check -/
theorem recvR_acts (c : RCfg) (hg : c.gacFix = true) (s : RSt) (p : Pkt) (env : Env) (now : Nat) :
    ∀ act ∈ (recvR c s p env now).2,
      (act = .cancel (p.so, p.sn) ∧ (recv c.loct s.t p.kind p.so p.soPV p.sn now).2 = .dup) ∨
      (ActOK c { s with t := (recv c.loct s.t p.kind p.so p.soPV p.sn now).1 } (recvR c s p env now).1 p act ∧
        p.rhl ≤ p.mhl ∧ (recv c.loct s.t p.kind p.so p.soPV p.sn now).2 = .ok) := by
  intro act hact
  unfold recvR at hact ⊢
  by_cases h1 : p.rhl > p.mhl
  · simp [h1] at hact
  simp only [h1, if_false] at hact ⊢
  cases hr : (recv c.loct s.t p.kind p.so p.soPV p.sn now).2
  case dad => simp [hr] at hact
  case dup =>
    simp only [hr] at hact
    left
    split at hact
    · simp only [cbfDiscard] at hact
      split at hact <;> simp at hact
      exact ⟨hact, rfl⟩
    · simp at hact
  case ok =>
    simp only [hr] at hact ⊢
    right
    exact ⟨handle_acts c hg _ p env act hact, by omega, trivial⟩


/-- the handler never touches the location table (only `recv` does) - except for an LS reply addressed to this station -/
theorem handle_t (c : RCfg) (s : RSt) (p : Pkt) (env : Env) (h : ¬ (p.kind = .lsRep ∧ mid p.de = mid c.loct.self)) :
    (handle c s p env).1.t = s.t := by
  cases hk : p.kind <;> simp only [handle, hk]
  case gbc =>
    simp only [forwardGbc, cbfForward]
    repeat' split
    all_goals rfl
  case lsRep =>
    have hme : ¬ mid p.de = mid c.loct.self := fun hx => h ⟨hk, hx⟩
    simp only [hme, if_false]
    repeat' split
    all_goals rfl
  all_goals
    repeat' split
    all_goals rfl

theorem handle_sim (c : RCfg) (s : RSt) (p : Pkt) (env : Env) : LsSim p.so s.t (handle c s p env).1.t := by
  by_cases h : p.kind = .lsRep ∧ mid p.de = mid c.loct.self
  · simp only [handle, h.1, h.2, if_true]
    exact (lsComplete_spec s p.so).2.2
  · rw [handle_t c s p env h]; exact lsSim_refl _ _

theorem recv_dad_table (c : Cfg) (t : Table) (k : Kind) (a : Addr) (p : PV) (sn now : Nat)
    (h : (recv c t k a p sn now).2 = .dad) : (recv c t k a p sn now).1 = t := by
  unfold recv at h ⊢
  by_cases hd : mid a = mid c.self
  · simp [hd]
  · simp only [hd, if_false] at h ⊢
    generalize (if c.v.prePurge = true then refresh c t now else t) = t0 at h ⊢
    by_cases hdup : (entryStep c (lookup t0 a) k p sn).2 = .dup
    · simp only [hdup, if_true] at h; cases h
    · simp only [hdup, if_false] at h; cases h

/-- the location table after the hop-limit check, DAD and the location table update of a reception (before the handler) -/
def recvT (c : RCfg) (s : RSt) (p : Pkt) (now : Nat) : Table :=
  if p.rhl > p.mhl then s.t else (recv c.loct s.t p.kind p.so p.soPV p.sn now).1

theorem recvR_t (c : RCfg) (s : RSt) (p : Pkt) (env : Env) (now : Nat)
    (h : ¬ (p.kind = .lsRep ∧ mid p.de = mid c.loct.self)) : (recvR c s p env now).1.t = recvT c s p now := by
  unfold recvR recvT
  by_cases h1 : p.rhl > p.mhl
  · simp [h1]
  simp only [h1, if_false]
  cases hr : (recv c.loct s.t p.kind p.so p.soPV p.sn now).2
  case dad =>
    simp only []
    exact (recv_dad_table _ _ _ _ _ _ _ hr).symm
  case dup =>
    simp only []
    split
    · simp only [cbfDiscard]; split <;> rfl
    · rfl
  case ok => simp only []; exact handle_t c _ p env h

theorem recvR_sim (c : RCfg) (s : RSt) (p : Pkt) (env : Env) (now : Nat) :
    LsSim p.so (recvT c s p now) (recvR c s p env now).1.t := by
  by_cases h : p.kind = .lsRep ∧ mid p.de = mid c.loct.self
  · unfold recvR recvT
    by_cases h1 : p.rhl > p.mhl
    · simp only [h1, if_true]; exact lsSim_refl _ _
    simp only [h1, if_false]
    cases hr : (recv c.loct s.t p.kind p.so p.soPV p.sn now).2
    case dad =>
      simp only []
      rw [recv_dad_table _ _ _ _ _ _ _ hr]; exact lsSim_refl _ _
    case dup =>
      simp only []
      have : ¬ (p.kind = .gbc ∧ c.cbf = true ∧ c.cbfFix = true) := by
        intro hx; rw [h.1] at hx; cases hx.1
      simp only [this, if_false]; exact lsSim_refl _ _
    case ok => simp only []; exact handle_sim c { s with t := _ } p env
  · rw [recvR_t c s p env now h]; exact lsSim_refl _ _

theorem uniq_recvT (c : RCfg) (s : RSt) (p : Pkt) (now : Nat) (hu : Uniq s.t) : Uniq (recvT c s p now) := by
  unfold recvT; split
  · exact hu
  · exact uniq_recv _ _ _ _ _ _ _ hu

/-- a reception that transmits something did not touch the table in the handler -/
theorem recvR_t_of_send (c : RCfg) (s : RSt) (p : Pkt) (env : Env) (now : Nat) (q : Pkt)
    (hq : Act.send q ∈ (recvR c s p env now).2) : (recvR c s p env now).1.t = recvT c s p now := by
  by_cases h : p.kind = .lsRep ∧ mid p.de = mid c.loct.self
  · exfalso
    unfold recvR at hq
    by_cases h1 : p.rhl > p.mhl
    · simp [h1] at hq
    simp only [h1, if_false] at hq
    cases hr : (recv c.loct s.t p.kind p.so p.soPV p.sn now).2
    case dad => simp [hr] at hq
    case dup =>
      simp only [hr] at hq
      have : ¬ (p.kind = .gbc ∧ c.cbf = true ∧ c.cbfFix = true) := by
        intro hx; rw [h.1] at hx; cases hx.1
      simp [this] at hq
    case ok =>
      simp only [hr] at hq
      simp only [handle, h.1, h.2, if_true] at hq
      rcases (lsComplete_spec _ p.so).1 _ hq with hc | hc <;> cases hc
  · exact recvR_t c s p env now h

theorem fire_t (s : RSt) (k : Key) : (fire s k).1.t = s.t := by
  unfold fire; split <;> rfl


/-! ## duplicate window over histories -/

theorem entryStep_dpl (c : Cfg) (hv : c.v = {}) (e : Entry) (k : Kind) (p : PV) (sn : Nat) :
    (entryStep c (some e) k p sn).1.dpl =
      if k.singleHop = true ∨ sn ∈ e.dpl then e.dpl else dplPush c.dplLen e.dpl sn := by
  have hg : c.v.gbcKeepsNb = true := by rw [hv]
  cases hs : k.singleHop
  · by_cases hd : sn ∈ e.dpl
    · simp [entryStep, hs, hd]
    · have := updPV_spec c hv { e with dpl := dplPush c.dplLen e.dpl sn } p
      simp only [] at this
      simp [entryStep, hs, hd, hg, this]
  · have := updPV_spec c hv e p
    simp [entryStep, hs, this]

/-- a packet whose sequence number is in the duplicate packet list of its source's live entry causes nothing but
(under CBF) the cancellation of its buffered copy -/
theorem duplicate_causes_nothing (c : RCfg) (hv : c.loct.v = {}) (hg : c.gacFix = true) (s : RSt) (p : Pkt) (env : Env)
    (now : Nat) (e : Entry) (hu : Uniq s.t) (hm : p.kind.singleHop = false)
    (hlive : keep (fresh c.loct now) (lookup s.t p.so) = some e) (hin : p.sn ∈ e.dpl) :
    ∀ act ∈ (recvR c s p env now).2, act = .cancel (p.so, p.sn) := by
  intro act hact
  rcases recvR_acts c hg s p env now act hact with h | ⟨_, _, hok⟩
  · exact h.1
  · exfalso
    by_cases hd : mid p.so = mid c.loct.self
    · rw [recv_dad _ _ _ _ _ _ _ hd] at hok; cases hok
    · rw [recv_res c.loct hv s.t p.kind p.so p.soPV p.sn now hd hu] at hok
      simp only [selfOutcome, hlive] at hok
      have := (entryStep_some c.loct hv e p.kind p.soPV p.sn).1.2 ⟨hm, hin⟩
      simp [this] at hok

theorem dplPush_keeps (L : Nat) (pre post : List Nat) (sn x : Nat) (h : post.length + 1 ≤ L - 1) :
    ∃ pre', dplPush L (pre ++ sn :: post) x = pre' ++ sn :: (post ++ [x]) := by
  unfold dplPush
  by_cases hl : ((pre ++ sn :: post).length == L) = true
  · simp only [hl, if_true]
    cases pre with
    | nil => simp at hl; omega
    | cons y r => exact ⟨r, by simp⟩
  · simp only [hl]
    exact ⟨pre, by simp⟩

def ROpOK (a : Addr) (B lim : Nat) : ROp → Prop
  | .rx p _ now => Win B now ∧ now ≤ lim ∧ (p.so = a → Win B p.soPV.time)
  | .fire _ => True
  | .lsreq _ _ => True

/-- number of multi-hop packets of `a` in a history segment (upper bound for the sequence numbers accepted from `a`) -/
def countRx (a : Addr) : List ROp → Nat
  | [] => 0
  | .rx p _ _ :: r => (if p.so = a ∧ p.kind.singleHop = false then 1 else 0) + countRx a r
  | .fire _ :: r => countRx a r
  | .lsreq _ _ :: r => countRx a r

/-- the live-entry step of a reception, on the table before the handler -/
theorem rlive_rx (c : RCfg) (hv : c.loct.v = {}) (a : Addr) (B lim : Nat) (s : RSt) (e : Entry) (p : Pkt) (env : Env)
    (now : Nat) (hu : Uniq s.t) (hl : lookup s.t a = some e) (hh : e.hasPV = true) (hw : Win B e.pv.time)
    (hlim : lim ≤ e.pv.time + c.loct.lifetimeMs) (hop : ROpOK a B lim (.rx p env now)) :
    ∃ e', lookup (recvT c s p now) a = some e' ∧ e'.hasPV = true ∧ e.pv.time ≤ e'.pv.time ∧ Win B e'.pv.time ∧
      (e'.dpl = e.dpl ∨ (p.so = a ∧ p.kind.singleHop = false ∧ p.sn ∉ e.dpl ∧
        e'.dpl = dplPush c.loct.dplLen e.dpl p.sn)) := by
  obtain ⟨hn, hn2, hpw⟩ := hop
  simp only [recvT]
  by_cases h1 : p.rhl > p.mhl
  · simp only [h1, if_true]; exact ⟨e, hl, hh, Nat.le_refl _, hw, Or.inl rfl⟩
  simp only [h1, if_false]
  have hstep : (recv c.loct s.t p.kind p.so p.soPV p.sn now).1 = step c.loct s.t (.pkt p.kind p.so p.soPV p.sn now) := rfl
  obtain ⟨e', r1, r2, _, r4, r5, _, _⟩ := live_step c.loct hv a B lim s.t e (.pkt p.kind p.so p.soPV p.sn now) hu hl hh hw hlim
    ⟨hn, hn2, hpw⟩
  rw [← hstep] at r1
  refine ⟨e', r1, r2, r4, r5, ?_⟩
  have hf : fresh c.loct now e = true := (fresh_iff_window c.loct hv B now e hh hw hn).2 (by omega)
  by_cases hd : mid p.so = mid c.loct.self
  · rw [recv_dad _ _ _ _ _ _ _ hd, hl] at r1; cases r1; exact Or.inl rfl
  by_cases hb : p.so = a
  · subst hb
    rw [lookup_recv_self c.loct hv s.t p.kind p.so p.soPV p.sn now hd hu] at r1
    simp only [selfOutcome, hl, keep_of_true hf] at r1
    by_cases hdup : (entryStep c.loct (some e) p.kind p.soPV p.sn).2 = .dup
    · simp only [hdup, if_true] at r1; cases r1; exact Or.inl rfl
    · simp only [hdup, if_false] at r1
      obtain ⟨heq, _⟩ := keep_some r1
      cases heq
      rw [entryStep_dpl c.loct hv]
      by_cases hcond : p.kind.singleHop = true ∨ p.sn ∈ e.dpl
      · rw [if_pos hcond]; exact Or.inl rfl
      · rw [if_neg hcond]
        have hs : p.kind.singleHop = false := by
          cases h : p.kind.singleHop with
          | false => rfl
          | true => exact absurd (Or.inl h) hcond
        exact Or.inr ⟨rfl, hs, fun h => hcond (Or.inr h), rfl⟩
  · rw [lookup_recv_ne c.loct hv s.t p.kind p.so a p.soPV p.sn now hd (Ne.symm hb) hu, hl, keep_of_true hf] at r1
    cases r1; exact Or.inl rfl

theorem rlive_step (c : RCfg) (hv : c.loct.v = {}) (a : Addr) (B lim : Nat) (s : RSt) (e : Entry) (op : ROp)
    (hu : Uniq s.t) (hl : lookup s.t a = some e) (hh : e.hasPV = true) (hw : Win B e.pv.time)
    (hlim : lim ≤ e.pv.time + c.loct.lifetimeMs) (hop : ROpOK a B lim op) :
    ∃ e', lookup (rstep c s op).1.t a = some e' ∧ e'.hasPV = true ∧ e.pv.time ≤ e'.pv.time ∧ Win B e'.pv.time ∧
      Uniq (rstep c s op).1.t ∧
      (e'.dpl = e.dpl ∨ ∃ p env now, op = .rx p env now ∧ p.so = a ∧ p.kind.singleHop = false ∧ p.sn ∉ e.dpl ∧
        e'.dpl = dplPush c.loct.dplLen e.dpl p.sn) := by
  cases op with
  | fire k =>
    simp only [rstep, fire_t]
    exact ⟨e, hl, hh, Nat.le_refl _, hw, hu, Or.inl rfl⟩
  | lsreq a' req =>
    simp only [rstep, lsRequest_t]
    obtain ⟨e', h1, h2, h3, h4, _⟩ := lsSim_live (lsSim_ensure a' s.t) hl
    exact ⟨e', h1, by rw [h2]; exact hh, by rw [h3]; exact Nat.le_refl _, by rw [h3]; exact hw,
      (lsSim_ensure a' s.t).1 hu, Or.inl h4⟩
  | rx p env now =>
    simp only [rstep]
    obtain ⟨e1, r1, r2, r3, r4, r6⟩ := rlive_rx c hv a B lim s e p env now hu hl hh hw hlim hop
    have hsim := recvR_sim c s p env now
    obtain ⟨e', h1, h2, h3, h4, _⟩ := lsSim_live hsim r1
    refine ⟨e', h1, by rw [h2]; exact r2, by rw [h3]; exact r3, by rw [h3]; exact r4,
      hsim.1 (uniq_recvT c s p now hu), ?_⟩
    rcases r6 with h | ⟨g1, g2, g3, g4⟩
    · exact Or.inl (by rw [h4, h])
    · exact Or.inr ⟨p, env, now, rfl, g1, g2, g3, by rw [h4, g4]⟩


/-- what is claimed about one operation of a history for the packet identity `(a, sn)`:
a reception of that identity causes nothing but the cancellation of its CBF copy -/
def Quiet (a : Addr) (sn : Nat) (op : ROp) (acts : List Act) : Prop :=
  match op with
  | .rx p _ _ => p.so = a → p.sn = sn → p.kind.singleHop = false → ∀ act ∈ acts, act = .cancel (a, sn)
  | .fire _ => True
  | .lsreq _ _ => True

/-- `AllQuiet a sn ops log`: every operation (paired with its action list) is quiet for `(a, sn)` -/
def AllQuiet (a : Addr) (sn : Nat) : List ROp → List (List Act) → Prop
  | op :: r, acts :: l => Quiet a sn op acts ∧ AllQuiet a sn r l
  | _, _ => True

/-- all histories: once `sn` is in the duplicate packet list of `a`'s live entry with `post` newer entries behind it,
every further reception of `(a, sn)` is quiet, as long as the entry lives (operations not later than `lim`) and fewer than
`L - post.length` further multi-hop packets of `a` are received -/
theorem window_quiet (c : RCfg) (hv : c.loct.v = {}) (hg : c.gacFix = true) (a : Addr) (sn B : Nat) :
    ∀ (ops : List ROp) (s : RSt) (e : Entry) (lim : Nat) (pre post : List Nat),
      Uniq s.t → lookup s.t a = some e → e.hasPV = true → Win B e.pv.time → lim ≤ e.pv.time + c.loct.lifetimeMs →
      e.dpl = pre ++ sn :: post → post.length + countRx a ops ≤ c.loct.dplLen - 1 →
      (∀ op ∈ ops, ROpOK a B lim op) → AllQuiet a sn ops (rrun c s ops).2 := by
  intro ops
  induction ops with
  | nil => intros; simp [rrun, AllQuiet]
  | cons op r ih =>
    intro s e lim pre post hu hl hh hw hlim hdpl hcnt hops
    simp only [rrun, AllQuiet]
    have hop := hops op (by simp)
    obtain ⟨e', r1, r2, r3, r4, r5, r6⟩ := rlive_step c hv a B lim s e op hu hl hh hw hlim hop
    constructor
    · -- the operation itself
      cases op with
      | fire k => simp [Quiet]
      | lsreq a' req => simp [Quiet]
      | rx p env now =>
        simp only [Quiet, rstep]
        intro h1 h2 h3
        subst h1; subst h2
        obtain ⟨hn, hn2, _⟩ := hop
        have hf : fresh c.loct now e = true := (fresh_iff_window c.loct hv B now e hh hw hn).2 (by omega)
        exact duplicate_causes_nothing c hv hg s p env now e hu h3 (by rw [hl, keep_of_true hf])
          (by rw [hdpl]; simp)
    · -- the rest of the history
      have hops' : ∀ o ∈ r, ROpOK a B lim o := fun o ho => hops o (by simp [ho])
      rcases r6 with hsame | ⟨p, env, now, rfl, hso, hm, _, hpush⟩
      · refine ih _ e' lim pre post r5 r1 r2 r4 (by omega) (by rw [hsame, hdpl]) ?_ hops'
        cases op with
        | fire k => simpa [countRx] using hcnt
        | lsreq a' req => simpa [countRx] using hcnt
        | rx p env now => simp only [countRx] at hcnt; omega
      · have hc1 : post.length + 1 + countRx a r ≤ c.loct.dplLen - 1 := by
          simp only [countRx, hso, hm, and_self, if_true] at hcnt; omega
        obtain ⟨pre', hp'⟩ := dplPush_keeps c.loct.dplLen pre post sn p.sn (by omega)
        refine ih _ e' lim pre' (post ++ [p.sn]) r5 r1 r2 r4 (by omega) (by rw [hpush, hdpl, hp']) ?_ hops'
        simp only [List.length_append, List.length_cons, List.length_nil]
        omega


theorem dplPush_ends (L : Nat) (d : List Nat) (sn : Nat) : ∃ pre, dplPush L d sn = pre ++ sn :: [] := by
  unfold dplPush; split
  · exact ⟨d.drop 1, rfl⟩
  · exact ⟨d, rfl⟩

/-- an accepted multi-hop packet leaves its sequence number as the newest element of its source's duplicate packet list
(if the source's entry survives the reception, i.e. its PV is not older than the lifetime; `hasPV` excludes the Location
Service placeholder that an LS reply with an expired PV can leave behind at the requester) -/
theorem accepted_sn_recorded (c : RCfg) (hv : c.loct.v = {}) (s : RSt) (p : Pkt) (env : Env) (now : Nat) (e' : Entry)
    (hu : Uniq s.t) (hm : p.kind.singleHop = false) (hle : p.rhl ≤ p.mhl)
    (hok : (recv c.loct s.t p.kind p.so p.soPV p.sn now).2 = .ok)
    (h' : lookup (recvR c s p env now).1.t p.so = some e') (hpv : e'.hasPV = true) :
    ∃ pre, e'.dpl = pre ++ p.sn :: [] := by
  have hd : mid p.so ≠ mid c.loct.self := by
    intro hd; rw [recv_dad _ _ _ _ _ _ _ hd] at hok; cases hok
  obtain ⟨e0, h0, _, _, hdpl, _⟩ := lsSim_back (recvR_sim c s p env now) h' hpv
  rw [hdpl]
  rw [recvT, if_neg (by omega), lookup_recv_self c.loct hv s.t p.kind p.so p.soPV p.sn now hd hu] at h0
  rw [recv_res c.loct hv s.t p.kind p.so p.soPV p.sn now hd hu] at hok
  by_cases hdup : (selfOutcome c.loct s.t p.kind p.so p.soPV p.sn now).2 = .dup
  · simp [hdup] at hok
  simp only [hdup, if_false] at h0
  obtain ⟨heq, _⟩ := keep_some h0
  cases heq
  simp only [selfOutcome] at hdup ⊢
  cases hold : keep (fresh c.loct now) (lookup s.t p.so) with
  | none =>
    have hg : c.loct.v.gbcKeepsNb = true := by rw [hv]
    have := updPV_spec c.loct hv { dpl := dplPush c.loct.dplLen [] p.sn } p.soPV
    simp only [entryStep, hm, Bool.false_eq_true, if_false, this]
    exact dplPush_ends _ _ _
  | some e =>
    rw [hold] at hdup
    rw [entryStep_dpl c.loct hv]
    have hnd : ¬ (p.kind.singleHop = true ∨ p.sn ∈ e.dpl) := by
      intro h
      rcases h with h | h
      · rw [hm] at h; cases h
      · exact hdup ((entryStep_some c.loct hv e p.kind p.soPV p.sn).1.2 ⟨hm, h⟩)
    rw [if_neg hnd]
    exact dplPush_ends _ _ _

/-! ## CBF buffer -/

theorem bufHas_del (b : List (Key × Pkt)) (k : Key) : bufHas (bufDel b k) k = false := by
  induction b with
  | nil => rfl
  | cons x r ih =>
    simp only [bufDel, List.filter]
    cases h : (x.1 == k) with
    | true => simpa [bufDel] using ih
    | false => simp [bufHas, h]

theorem bufGet_none_of_not_has (b : List (Key × Pkt)) (k : Key) (h : bufHas b k = false) : bufGet b k = none := by
  induction b with
  | nil => rfl
  | cons x r ih =>
    simp only [bufHas, List.any_cons, Bool.or_eq_false_iff] at h
    simp only [bufGet, List.find?_cons, h.1]
    exact ih (by simpa [bufHas] using h.2)

end FlexModel.Geo

/-
C06, round 6 — the CBF buffer of `flexstack.geonet.router` under CONCURRENT receive threads, at the granularity of the
`_cbf_lock` sections.

Three operations touch `Router._cbf_buffer`, each ONE `_cbf_lock` section in the source:
`gn_area_cbf_forwarding` (`buf`: "already buffered? → pop and cancel : insert"), `_cbf_discard` (`disc`: a duplicate was
overheard, DPD raised) and `_cbf_timeout` (`fire`).  `overheard_duplicate_drops_copy`: for EVERY interleaving of such
sections, once a thread has run `buf k` a later `disc k` (the overheard duplicate) leaves `k` out of the buffer, whatever
other threads do in between and afterwards, as long as nobody buffers `k` again (nobody can: every further copy of `k` is a
DPD duplicate and never reaches `gn_area_cbf_forwarding`).

The shape "test under the lock / build PDU and timer outside / insert under the lock" (seeded change C06-m11) has two
sections `chk k`, `ins k`; a `disc k` between them finds nothing: `split_buffering_keeps_copy_witness`.  Which shape the
SOURCE has is the regenerated fact `cbfBufferingIsOneSection` (from `Generated.Locks.shape`, harness/gen_locks.py),
discharged by `decide` in `Props.C06.cbf_test_and_insert_is_one_section`.
-/
import Generated.Locks

namespace FlexModel.Geo.RouterCbfConc

/-- CBF key: (source address, sequence number) -/
abbrev CKey := Nat × Nat

/-- `_cbf_lock` sections -/
inductive CBlk
  | buf (k : CKey)     -- gn_area_cbf_forwarding, one section: test + (pop | insert)
  | disc (k : CKey)    -- _cbf_discard
  | fire (k : CKey)    -- _cbf_timeout
  | chk (k : CKey)     -- split shape: the test alone (outcome "not buffered")
  | ins (k : CKey)     -- split shape: the insertion alone
  deriving DecidableEq, Repr

/-- the buffer = list of keys that have a timer -/
def bstep (b : List CKey) : CBlk → List CKey
  | .buf k => if k ∈ b then b.filter (· != k) else k :: b
  | .disc k => b.filter (· != k)
  | .fire k => b.filter (· != k)
  | .chk _ => b
  | .ins k => k :: b

def brun (b : List CKey) (bs : List CBlk) : List CKey := bs.foldl bstep b

/-- a block that does not put `k` into the buffer -/
def NoIns (k : CKey) : CBlk → Prop
  | .buf k' => k' ≠ k
  | .ins k' => k' ≠ k
  | _ => True

theorem step_keeps_absent (b : List CKey) (k : CKey) (x : CBlk) (h : NoIns k x) (hk : k ∉ b) : k ∉ bstep b x := by
  cases x with
  | buf k' =>
    simp only [NoIns] at h
    simp only [bstep]
    split
    · intro hm; exact hk (List.mem_filter.mp hm).1
    · intro hm
      rcases List.mem_cons.mp hm with h1 | h1
      · exact h h1.symm
      · exact hk h1
  | disc k' => simp only [bstep]; intro hm; exact hk (List.mem_filter.mp hm).1
  | fire k' => simp only [bstep]; intro hm; exact hk (List.mem_filter.mp hm).1
  | chk k' => simpa only [bstep] using hk
  | ins k' =>
    simp only [NoIns] at h
    simp only [bstep]
    intro hm
    rcases List.mem_cons.mp hm with h1 | h1
    · exact h h1.symm
    · exact hk h1

theorem run_keeps_absent (k : CKey) (bs : List CBlk) (h : ∀ x ∈ bs, NoIns k x) (b : List CKey) (hk : k ∉ b) :
    k ∉ brun b bs := by
  induction bs generalizing b with
  | nil => simpa [brun] using hk
  | cons x xs ih =>
    simp only [brun, List.foldl_cons]
    exact ih (fun y hy => h y (List.mem_cons_of_mem _ hy)) _ (step_keeps_absent b k x (h x List.mem_cons_self) hk)

theorem disc_removes (b : List CKey) (k : CKey) : k ∉ bstep b (.disc k) := by
  simp [bstep]

/-- the section shape of the source: every block of `gn_area_cbf_forwarding` that touches `_cbf_buffer` holds `_cbf_lock`
and there is exactly ONE such block (test and insertion are one critical section); `_cbf_discard` and `_cbf_timeout` are one
`_cbf_lock` section each; no access to `_cbf_buffer` anywhere outside `_cbf_lock` -/
def cbfBufferingIsOneSection : Bool :=
  open Generated.Locks in
  (((shape .Router_gn_area_cbf_forwarding).filter fun s => s.2.contains .Router__cbf_buffer).map (·.1)
      == [[.Router__cbf_lock]]) &&
  ((shape .Router__cbf_discard).map (·.1) == [[.Router__cbf_lock]]) &&
  ((shape .Router__cbf_timeout).map (·.1) == [[.Router__cbf_lock]]) &&
  allUnder .Router__cbf_buffer .Router__cbf_lock

end FlexModel.Geo.RouterCbfConc

/-
C06, round 5 — duplicate packet detection under CONCURRENT receive threads, at the granularity of the `loc_t_lock`
sections of `flexstack.geonet.location_table` (block model of `LocTConc`, C08 round 4).

The duplicate packet list of a source lives in its location table entry.  A reception on thread B is
`refresh_table()` / ONE `loc_t_lock` section (get-or-create + DPD + update, `core`) / `refresh_table()`; every other
receive thread runs the same kind of sections in between.  `recorded_under_every_schedule`: for EVERY interleaving of the
three sections of the reception of a multi-hop packet `(a, sn)` with any blocks of other threads (purges while `a`'s
position vector cannot be too old, receptions of other sources or of `(a, sn)` itself, Location Service placeholders) the
table afterwards holds `a`'s entry with `sn` in its duplicate list - so the next reception of `(a, sn)`, on any thread, is
a duplicate and changes nothing (`later_copy_is_duplicate`).

This needs `refresh_table()` to be ONE atomic block (snapshot, filter and store in one `loc_t_lock` section).  The shape
"snapshot under the lock / age outside / store under the lock" (seeded change C06-m9) is a lost update:
`split_refresh_loses_dpl_witness`.  Which shape the SOURCE has is the regenerated fact
`LocTConc.refreshIsOneSection` (from `Generated.Locks.shape`, harness/gen_locks.py), discharged by `decide` in
`Props.C06.refresh_table_is_one_section`.
-/
import FlexModel.Geo.LocTConc

namespace FlexModel.Geo.RouterDplConc
open FlexModel.Geo FlexModel.Geo.LocTConc

/-- what other threads may do while `(a, sn)` has to stay recorded: purges inside the clock window and not later than
`lim`; `core` sections of other sources, or of `(a, sn)` itself (multi-hop); Location Service placeholders.  Threads of
the unrepaired shape (`create` / `updateHeld`) do not exist in a source whose shape is the repaired one. -/
def EnvQ (a : Addr) (sn B lim : Nat) : Blk → Prop
  | .refresh now => Win B now ∧ now ≤ lim
  | .core k b _ s => b ≠ a ∨ (s = sn ∧ k.singleHop = false)
  | .ensure _ => True
  | .create _ => False
  | .updateHeld _ _ _ _ => False

/-- `(a, sn)` is recorded: `a` has an entry with a position vector not older than `p` and `sn` in its duplicate list -/
def Rec (a : Addr) (sn B : Nat) (p : PV) (t : Table) : Prop :=
  ∃ e, lookup t a = some e ∧ sn ∈ e.dpl ∧ e.hasPV = true ∧ p.time ≤ e.pv.time ∧ Win B e.pv.time

theorem mem_dplPush (L : Nat) (d : List Nat) (sn : Nat) : sn ∈ dplPush L d sn := by
  simp only [dplPush]; split <;> simp

/-- the duplicate list after a non-duplicate multi-hop `entryStep` -/
theorem entryStep_dpl (c : Cfg) (hv : c.v = {}) (old : Option Entry) (k : Kind) (hk : k.singleHop = false) (p : PV)
    (sn : Nat) (h : (entryStep c old k p sn).2 ≠ .dup) : sn ∈ (entryStep c old k p sn).1.dpl := by
  have hg : c.v.gbcKeepsNb = true := by rw [hv]
  cases old with
  | none =>
    have := (updPV_spec c hv { dpl := dplPush c.dplLen [] sn } p).2.2.2.1
    simp only [entryStep, hk, Bool.false_eq_true, if_false, this]
    exact mem_dplPush _ _ _
  | some e =>
    by_cases hd : sn ∈ e.dpl
    · simp [entryStep, hk, hd] at h
    · have := (updPV_spec c hv { e with dpl := dplPush c.dplLen e.dpl sn } p).2.2.2.1
      simp only [] at this
      simp [entryStep, hk, hd, hg, this]
      exact mem_dplPush _ _ _

/-- the thread's own `core` section records `(a, sn)` - whether the packet is accepted or already a duplicate -/
theorem core_records (c : Cfg) (hv : c.v = {}) (k : Kind) (hk : k.singleHop = false) (a : Addr) (B : Nat) (p : PV)
    (sn : Nat) (t : Table) (hi : SrcInv a B t) (hp : Win B p.time) : Rec a sn B p (core c t k a p sn).1 ∨
      (∃ e, lookup t a = some e ∧ sn ∈ e.dpl ∧ (core c t k a p sn) = (t, .dup)) := by
  simp only [core]
  cases hl : lookup t a with
  | none =>
    obtain ⟨g1, g2, _, _, g5⟩ := entryStep_none c hv k p sn
    have hnd : (entryStep c none k p sn).2 ≠ .dup := by rw [g1]; decide
    left
    simp only [hnd, if_false]
    exact ⟨_, lookup_insert_self _ _ _, entryStep_dpl c hv none k hk p sn hnd, g2, by rw [g5]; exact Nat.le_refl _,
      by rw [g5]; exact hp⟩
  | some e0 =>
    obtain ⟨g0, _, g3⟩ := entryStep_some c hv e0 k p sn
    by_cases hdup : (entryStep c (some e0) k p sn).2 = .dup
    · right
      exact ⟨e0, rfl, (g0.1 hdup).2, by simp [hdup]⟩
    · left
      obtain ⟨_, f2, _, _, f5⟩ := g3 hdup
      simp only [hdup, if_false]
      refine ⟨_, lookup_insert_self _ _ _, entryStep_dpl c hv (some e0) k hk p sn hdup, f2, ?_, ?_⟩
      · rw [f5]
        split
        next hc =>
          have hw0 := hi e0 hl hc.1
          by_cases hlt : e0.pv.time < p.time
          · have := (gt_window hw0 hp).2 hlt
            simp only [PV.tst] at hc; rw [this] at hc; cases hc.2
          · omega
        next => exact Nat.le_refl _
      · rw [f5]
        split
        next hc => exact hi e0 hl hc.1
        next => exact hp

/-- nothing another thread does - and no purge - removes the record -/
theorem rec_cstep (c : Cfg) (hv : c.v = {}) (a : Addr) (sn B lim : Nat) (p : PV) (hlim : lim ≤ p.time + c.lifetimeMs)
    (s : CS) (b : Blk) (hb : EnvQ a sn B lim b) (hu : Uniq s.t) (hl : Rec a sn B p s.t) : Rec a sn B p (cstep c s b).t := by
  obtain ⟨e, h1, h2, h3, h4, h5⟩ := hl
  cases b with
  | refresh now =>
    obtain ⟨hn, hn2⟩ := hb
    have hf : fresh c now e = true := (fresh_iff_window c hv B now e h3 h5 hn).2 (by omega)
    exact ⟨e, by simp only [cstep, lookup_refresh c s.t now a hu, h1, keep_of_true hf], h2, h3, h4, h5⟩
  | core k x q s' =>
    by_cases hx : x = a
    · subst hx
      cases hb with
      | inl h => exact (h rfl).elim
      | inr h =>
        obtain ⟨hs, hk⟩ := h
        subst hs
        have hd : (entryStep c (some e) k q s').2 = .dup := ((entryStep_some c hv e k q s').1).2 ⟨hk, h2⟩
        exact ⟨e, by simp only [cstep, core, h1, hd, if_true], h2, h3, h4, h5⟩
    · exact ⟨e, by simp only [cstep, lookup_core_ne c s.t k x a q s' (Ne.symm hx), h1], h2, h3, h4, h5⟩
  | ensure d =>
    by_cases hd : d = a
    · subst hd
      exact ⟨{ e with lsPending := true }, by simp only [cstep, ensure, h1, lookup_insert_self], h2, h3, h4, h5⟩
    · exact ⟨e, by simp only [cstep, lookup_ensure_ne s.t d a (Ne.symm hd), h1], h2, h3, h4, h5⟩
  | create x => exact hb.elim
  | updateHeld k x q s' => exact hb.elim

theorem uniq_cstepQ (c : Cfg) (a : Addr) (sn B lim : Nat) (s : CS) (b : Blk) (hb : EnvQ a sn B lim b) (h : Uniq s.t) :
    Uniq (cstep c s b).t := by
  cases b with
  | refresh now => exact uniq_refresh c s.t now h
  | core k x p s' => exact uniq_core c s.t k x p s' h
  | ensure d => exact uniq_ensure s.t d h
  | create x => exact hb.elim
  | updateHeld k x p s' => exact hb.elim

/-- a segment of blocks of other threads keeps the record -/
theorem rec_segment (c : Cfg) (hv : c.v = {}) (a : Addr) (sn B lim : Nat) (p : PV) (hlim : lim ≤ p.time + c.lifetimeMs) :
    ∀ (bs : List Blk) (s : CS), (∀ b ∈ bs, EnvQ a sn B lim b) → Uniq s.t → Rec a sn B p s.t →
      Uniq (crun c s bs).t ∧ Rec a sn B p (crun c s bs).t := by
  intro bs
  induction bs with
  | nil => intro s _ hu hr; exact ⟨hu, hr⟩
  | cons b r ih =>
    intro s hb hu hr
    simp only [crun, List.foldl]
    exact ih (cstep c s b) (fun x hx => hb x (by simp [hx])) (uniq_cstepQ c a sn B lim s b (hb b (by simp)) hu)
      (rec_cstep c hv a sn B lim p hlim s b (hb b (by simp)) hu hr)

/-- **every schedule**: once the thread's `core` section has run on a table in which `(a, sn)` is recorded or gets
recorded by it, the environment segments `e2`, the closing purge and `e3` keep the record.  The table `t1` is the table
the section finds (after any prefix `e0`, the opening purge and `e1` - nothing is assumed about how it came about
except the C08 invariants). -/
theorem recorded_after_core (c : Cfg) (hv : c.v = {}) (k : Kind) (hk : k.singleHop = false) (a : Addr) (p : PV)
    (sn now B lim : Nat) (hp : Win B p.time) (hlim : lim ≤ p.time + c.lifetimeMs) (hnow : Win B now) (hnl : now ≤ lim)
    (s1 : CS) (hu : Uniq s1.t) (hi : SrcInv a B s1.t)
    (hnew : lookup s1.t a = none ∨ ∃ e, lookup s1.t a = some e ∧ sn ∉ e.dpl)
    (e2 e3 : List Blk) (h2 : ∀ b ∈ e2, EnvQ a sn B lim b) (h3 : ∀ b ∈ e3, EnvQ a sn B lim b) :
    Rec a sn B p (crun c s1 (.core k a p sn :: (e2 ++ .refresh now :: e3))).t := by
  have hr : EnvQ a sn B lim (.refresh now) := ⟨hnow, hnl⟩
  have u4 : Uniq (cstep c s1 (.core k a p sn)).t := uniq_core c _ k a p sn hu
  have l4 : Rec a sn B p (cstep c s1 (.core k a p sn)).t := by
    cases core_records c hv k hk a B p sn s1.t hi hp with
    | inl h => exact h
    | inr h =>
      obtain ⟨e, he, hm, _⟩ := h
      cases hnew with
      | inl hn => rw [hn] at he; cases he
      | inr hn => obtain ⟨e', he', hm'⟩ := hn; rw [he'] at he; cases he; exact (hm' hm).elim
  obtain ⟨u5, l5⟩ := rec_segment c hv a sn B lim p hlim e2 _ h2 u4 l4
  have u6 := uniq_cstepQ c a sn B lim _ _ hr u5
  have l6 := rec_cstep c hv a sn B lim p hlim _ _ hr u5 l5
  obtain ⟨_, l7⟩ := rec_segment c hv a sn B lim p hlim e3 _ h3 u6 l6
  simpa only [crun_append, crun_cons] using l7

/-- a later copy of a recorded `(a, sn)` - any multi-hop kind, any position vector, any thread - is a duplicate: the
`core` section returns `dup` and leaves the table as it is (the handlers then deliver / forward nothing:
`Props.C06.duplicate_is_quiet`) -/
theorem later_copy_is_duplicate (c : Cfg) (hv : c.v = {}) (a : Addr) (sn B : Nat) (p : PV) (t : Table)
    (h : Rec a sn B p t) (k : Kind) (hk : k.singleHop = false) (q : PV) : core c t k a q sn = (t, .dup) := by
  obtain ⟨e, h1, h2, _, _, _⟩ := h
  have hd : (entryStep c (some e) k q sn).2 = .dup := ((entryStep_some c hv e k q sn).1).2 ⟨hk, h2⟩
  simp only [core, h1, hd, if_true]

/-! ## the split shape of `refresh_table` (seeded change C06-m9): snapshot / age outside the lock / store -/

/-- blocks of a table whose `refresh_table` is NOT one section: `snap` (first `loc_t_lock` section: copy the items into the
thread's local list), `store now` (second section: the filtered SNAPSHOT replaces the table), and the blocks of the
repaired shape -/
inductive SBlk
  | std (b : Blk)
  | snap
  | store (now : Nat)
deriving DecidableEq, Repr

structure SS where
  cs : CS := {}
  /-- the snapshot held by the (single) thread that is between its two sections -/
  snapT : Table := []
deriving Repr

def sstep (c : Cfg) (s : SS) : SBlk → SS
  | .std b => { s with cs := cstep c s.cs b }
  | .snap => { s with snapT := s.cs.t }
  | .store now => { s with cs := { s.cs with t := refresh c s.snapT now } }

def srun (c : Cfg) (s : SS) (bs : List SBlk) : SS := bs.foldl (sstep c) s

/-- with nothing in between the split shape IS `refresh_table` (single-threaded behaviour unchanged: the suite passes) -/
theorem split_sequential (c : Cfg) (s : SS) (now : Nat) :
    (srun c s [.snap, .store now]).cs.t = (cstep c s.cs (.refresh now)).t := by
  simp [srun, sstep, cstep]

end FlexModel.Geo.RouterDplConc

/-
Network level of C06: in a network of any number of stations over a broadcast medium (arbitrary delivery order, loss,
duplication, arbitrary receiver sets = any topology, arbitrary CBF timer expiry) every station transmits a flooded packet
`(a, sn)` at most once and delivers it at most once, the originator does neither, so a flood costs at most `n - 1`
re-transmissions - under the explicit, decidable hypotheses `FloodHyp` (entry of `a` alive, duplicate packet list window not
overrun at every station).  Second part: ghost hop counters (`HNet`), every copy of the flood carries RHL = h - hops.
Core Lean only: the driver evaluates `floodHypB`, `txCount`, `netStepH` ... on the schedules of the real routers.
-/
import FlexModel.Geo.RouterOnce
namespace FlexModel.Geo

/-! ## a station's share of a network run is a run of that station -/

theorem netStep_nodes_none (n : Net) (op : NetOp) (h : netEv n op = none) : (netStep n op).nodes = n.nodes := by
  cases op with
  | lose j => rfl
  | fire i k rcv =>
    simp only [netEv, netStep] at h ⊢
    cases hnd : n.nodes[i]? with
    | none => rfl
    | some nd => simp [hnd] at h
  | deliver j env now rcv =>
    simp only [netEv, netStep] at h ⊢
    cases hx : n.air[j]? with
    | none => rfl
    | some ip =>
      obtain ⟨i, p⟩ := ip
      simp only [hx] at h ⊢
      cases hnd : n.nodes[i]? with
      | none => rfl
      | some nd => simp [hnd] at h

theorem netStep_nodes_some (n : Net) (op : NetOp) (e : Ev) (h : netEv n op = some e) :
    ∃ nd, n.nodes[e.st]? = some nd ∧ e.acts = (rstep nd.c nd.s e.op).2 ∧
      (netStep n op).nodes = n.nodes.set e.st { nd with s := (rstep nd.c nd.s e.op).1 } := by
  cases op with
  | lose j => simp [netEv] at h
  | fire i k rcv =>
    simp only [netEv, netStep] at h ⊢
    cases hnd : n.nodes[i]? with
    | none => simp [hnd] at h
    | some nd =>
      simp only [hnd, Option.some.injEq] at h ⊢
      subst h
      exact ⟨nd, hnd, rfl, rfl⟩
  | deliver j env now rcv =>
    simp only [netEv, netStep] at h ⊢
    cases hx : n.air[j]? with
    | none => simp [hx] at h
    | some ip =>
      obtain ⟨i, p⟩ := ip
      simp only [hx] at h ⊢
      cases hnd : n.nodes[i]? with
      | none => simp [hnd] at h
      | some nd =>
        simp only [hnd, Option.some.injEq] at h ⊢
        subst h
        exact ⟨nd, hnd, rfl, rfl⟩

theorem netStep_length (n : Net) (op : NetOp) : (netStep n op).nodes.length = n.nodes.length := by
  cases h : netEv n op with
  | none => rw [netStep_nodes_none n op h]
  | some e =>
    obtain ⟨nd, _, _, h3⟩ := netStep_nodes_some n op e h
    rw [h3, List.length_set]

/-- the actions of station `i` along any network run are the action log of the station model run on the station's own
history (the receptions addressed to it and its timer expiries) -/
theorem net_station (i : Nat) : ∀ (ops : List NetOp) (n : Net) (nd : Node), n.nodes[i]? = some nd →
    actsAt i (netTrace n ops) = (rrun nd.c nd.s (hist i (netTrace n ops))).2 := by
  intro ops
  induction ops with
  | nil => intro n nd _; simp [netTrace, actsAt, hist, rrun]
  | cons op r ih =>
    intro n nd hnd
    simp only [netTrace]
    cases he : netEv n op with
    | none =>
      simp only []
      exact ih (netStep n op) nd (by rw [netStep_nodes_none n op he]; exact hnd)
    | some e =>
      simp only []
      obtain ⟨nd', h1, h2, h3⟩ := netStep_nodes_some n op e he
      by_cases hi : e.st = i
      · subst hi
        rw [hnd] at h1; cases h1
        have hlt : e.st < n.nodes.length := by
          rcases Nat.lt_or_ge e.st n.nodes.length with h | h
          · exact h
          · rw [List.getElem?_eq_none h] at hnd; cases hnd
        have := ih (netStep n op) { nd with s := (rstep nd.c nd.s e.op).1 } (by rw [h3, List.getElem?_set_self hlt])
        simp only [actsAt, hist, if_true, rrun, this, h2]
      · have := ih (netStep n op) nd (by rw [h3, List.getElem?_set_ne hi]; exact hnd)
        simp only [actsAt, hist, hi, if_false, this]

theorem netTrace_st_lt : ∀ (ops : List NetOp) (n : Net), ∀ e ∈ netTrace n ops, e.st < n.nodes.length := by
  intro ops
  induction ops with
  | nil => intro n e he; simp [netTrace] at he
  | cons op r ih =>
    intro n e he
    simp only [netTrace] at he
    cases hev : netEv n op with
    | none =>
      simp only [hev] at he
      have := ih (netStep n op) e he
      rwa [netStep_length] at this
    | some e0 =>
      simp only [hev, List.mem_cons] at he
      rcases he with rfl | he
      · obtain ⟨nd, h1, _, _⟩ := netStep_nodes_some n op e hev
        rcases Nat.lt_or_ge e.st n.nodes.length with h | h
        · exact h
        · rw [List.getElem?_eq_none h] at h1; cases h1
      · have := ih (netStep n op) e he
        rwa [netStep_length] at this

/-! ## sums over the stations -/

theorem sum_zero_of : ∀ (l : List Nat), (∀ y ∈ l, y = 0) → l.sum = 0 := by
  intro l
  induction l with
  | nil => intro _; rfl
  | cons x r ih =>
    intro h
    have := h x (by simp)
    have := ih (fun y hy => h y (by simp [hy]))
    simp; omega

theorem sum_range_le (f : Nat → Nat) : ∀ N, (∀ i, i < N → f i ≤ 1) → ((List.range N).map f).sum ≤ N := by
  intro N
  induction N with
  | zero => intro _; simp
  | succ N ih =>
    intro h
    rw [List.range_succ, List.map_append, List.sum_append_nat]
    have := ih (fun i hi => h i (by omega))
    have := h N (by omega)
    simp; omega

theorem sum_range_lt (f : Nat → Nat) (o : Nat) : ∀ N, (∀ i, i < N → f i ≤ 1) → o < N → f o = 0 →
    ((List.range N).map f).sum + 1 ≤ N := by
  intro N
  induction N with
  | zero => intro _ h; omega
  | succ N ih =>
    intro h ho hz
    rw [List.range_succ, List.map_append, List.sum_append_nat]
    have hN := h N (by omega)
    by_cases hoN : o = N
    · subst hoN
      have := sum_range_le f o (fun i hi => h i (by omega))
      simp; omega
    · have := ih (fun i hi => h i (by omega)) (by omega) hz
      simp; omega

theorem sum_range_add (f g : Nat → Nat) (N : Nat) :
    ((List.range N).map (fun i => f i + g i)).sum = ((List.range N).map f).sum + ((List.range N).map g).sum := by
  induction N with
  | zero => simp
  | succ N ih => simp only [List.range_succ, List.map_append, List.sum_append_nat, ih]; simp; omega

theorem sum_range_ite (x o : Nat) : ∀ N, o < N → ((List.range N).map (fun i => if o = i then x else 0)).sum = x := by
  intro N
  induction N with
  | zero => intro h; omega
  | succ N ih =>
    intro h
    rw [List.range_succ, List.map_append, List.sum_append_nat]
    by_cases hoN : o = N
    · subst hoN
      have : ((List.range o).map (fun i => if o = i then x else 0)).sum = 0 := by
        apply sum_zero_of
        intro y hy
        simp only [List.mem_map, List.mem_range] at hy
        obtain ⟨i, hi, rfl⟩ := hy
        have : o ≠ i := by omega
        simp [this]
      simp [this]
    · rw [ih (by omega)]; simp [hoN]

theorem txCount_cons (a : Addr) (sn i : Nat) (e : Ev) (r : List Ev) :
    txCount a sn i (e :: r) = (if e.st = i then txOf a sn e.acts else 0) + txCount a sn i r := by
  simp only [txCount, actsAt]
  split <;> simp [txLog]

/-- the transmissions of a trace are the sum of the transmissions of the stations -/
theorem totalTx_eq_sum (a : Addr) (sn N : Nat) : ∀ (tr : List Ev), (∀ e ∈ tr, e.st < N) →
    totalTx a sn tr = ((List.range N).map (fun i => txCount a sn i tr)).sum := by
  intro tr
  induction tr with
  | nil =>
    intro _
    simp only [totalTx, txCount, actsAt, txLog]
    symm; apply sum_zero_of; intro y hy; simp at hy; exact hy.2.symm
  | cons e r ih =>
    intro h
    have h1 := ih (fun x hx => h x (by simp [hx]))
    have h2 := sum_range_ite (txOf a sn e.acts) e.st N (h e (by simp))
    simp only [totalTx, txCount_cons]
    rw [sum_range_add, h2, h1]

/-! ## hypotheses of the network-level theorem (decidable) -/

/-- what is assumed about station `i` (node `nd` at the start) along the trace `tr` for the flood `(a, sn)`:
repaired code; start state `StInit` (unique table keys, `a`'s entry absent or alive until `lim`, no copy of the packet in
the CBF buffer, buffer keyed); every reception of the station happens inside the clock window `[B, B + 2^31)` and not
later than `lim`, and every packet of `a` it receives carries a position timestamp not older than the entry lifetime at
`lim` (so `a`'s entry stays alive during the flood); the station receives at most `itsGnDPLLength - 1` multi-hop packets
of `a` with OTHER sequence numbers (the duplicate packet list window of `a` is not overrun).  `0 < itsGnDPLLength` is
well-formedness of the configuration: for length 0 the code's `deque(maxlen=0).popleft()` raises, which the model does not
mirror (`Props.C06.dpl_length_default_wellformed` re-checks the MIB default on every run) -/
def StationHyp (a : Addr) (sn B lim : Nat) (tr : List Ev) (i : Nat) (nd : Node) : Prop :=
  0 < nd.c.loct.dplLen ∧ nd.c.loct.v = {} ∧ nd.c.gacFix = true ∧ StInit nd.c a sn B lim nd.s ∧
  (∀ op ∈ hist i tr, ROpOK2 nd.c a B lim op) ∧ countOther a sn (hist i tr) ≤ nd.c.loct.dplLen - 1

/-- the hypotheses hold at every station of the network, along the trace of the schedule `ops` -/
def FloodHyp (a : Addr) (sn B lim : Nat) (n : Net) (ops : List NetOp) : Prop :=
  ∀ i nd, n.nodes[i]? = some nd → StationHyp a sn B lim (netTrace n ops) i nd

instance (B x : Nat) : Decidable (Win B x) := inferInstanceAs (Decidable (B ≤ x ∧ x < B + HALF))

def Uniq.dec : (t : Table) → Decidable (Uniq t)
  | [] => isTrue trivial
  | (k, _) :: r =>
    have := Uniq.dec r
    inferInstanceAs (Decidable (lookup r k = none ∧ Uniq r))

instance (t : Table) : Decidable (Uniq t) := Uniq.dec t

instance (c : RCfg) (a : Addr) (B lim : Nat) (t : Table) : Decidable (LiveOrAbsent c a B lim t) :=
  match h : lookup t a with
  | none => isTrue (fun e he => by rw [h] at he; cases he)
  | some e =>
    decidable_of_iff (e.hasPV = true ∧ Win B e.pv.time ∧ lim ≤ e.pv.time + c.loct.lifetimeMs)
      ⟨fun hx e' he' => by rw [h] at he'; cases he'; exact hx, fun hx => hx e h⟩

instance (b : List (Key × Pkt)) : Decidable (BufKeyed b) :=
  inferInstanceAs (Decidable (∀ x ∈ b, x.1 = (x.2.so, x.2.sn)))

instance (c : RCfg) (a : Addr) (sn B lim : Nat) (s : RSt) : Decidable (StInit c a sn B lim s) :=
  decidable_of_iff (Uniq s.t ∧ LiveOrAbsent c a B lim s.t ∧ bufHas s.buf (a, sn) = false ∧ BufKeyed s.buf)
    ⟨fun h => ⟨h.1, h.2.1, h.2.2.1, h.2.2.2⟩, fun h => ⟨h.uniq, h.live, h.nobuf, h.keyed⟩⟩

instance (c : RCfg) (a : Addr) (B lim : Nat) : (op : ROp) → Decidable (ROpOK2 c a B lim op)
  | .rx p _ now =>
    inferInstanceAs (Decidable (Win B now ∧ now ≤ lim ∧
      (p.so = a → Win B p.soPV.time ∧ lim ≤ p.soPV.time + c.loct.lifetimeMs)))
  | .fire _ => isTrue trivial
  | .lsreq a' _ => inferInstanceAs (Decidable (a' ≠ a))

instance (a : Addr) (sn B lim : Nat) (tr : List Ev) (i : Nat) (nd : Node) : Decidable (StationHyp a sn B lim tr i nd) :=
  inferInstanceAs (Decidable (_ ∧ _ ∧ _ ∧ _ ∧ _ ∧ _))

/-- `FloodHyp` as a computation (run by the driver on the schedules of the real routers) -/
def floodHypB (a : Addr) (sn B lim : Nat) (n : Net) (ops : List NetOp) : Bool :=
  (List.range n.nodes.length).all fun i =>
    match n.nodes[i]? with
    | some nd => decide (StationHyp a sn B lim (netTrace n ops) i nd)
    | none => true

theorem floodHypB_iff (a : Addr) (sn B lim : Nat) (n : Net) (ops : List NetOp) :
    floodHypB a sn B lim n ops = true ↔ FloodHyp a sn B lim n ops := by
  simp only [floodHypB, List.all_eq_true, List.mem_range, FloodHyp]
  constructor
  · intro h i nd hnd
    have hlt : i < n.nodes.length := by
      rcases Nat.lt_or_ge i n.nodes.length with h' | h'
      · exact h'
      · rw [List.getElem?_eq_none h'] at hnd; cases hnd
    have := h i hlt
    simpa [hnd] using this
  · intro h i hi
    cases hnd : n.nodes[i]? with
    | none => rfl
    | some nd => simpa using h i nd hnd

/-! ## the count -/

/-- EVERY STATION AT MOST ONCE, for every schedule -/
theorem flood_station_bound (a : Addr) (sn B lim : Nat) (n : Net) (ops : List NetOp) (h : FloodHyp a sn B lim n ops)
    (i : Nat) (nd : Node) (hnd : n.nodes[i]? = some nd) :
    txCount a sn i (netTrace n ops) ≤ 1 ∧ dlvCount a sn i (netTrace n ops) ≤ 1 ∧
    (mid a = mid nd.c.loct.self → txCount a sn i (netTrace n ops) = 0 ∧ dlvCount a sn i (netTrace n ops) = 0) := by
  obtain ⟨_, hv, hg, hi, hops, hcnt⟩ := h i nd hnd
  have := station_at_most_once nd.c hv hg a sn B lim (hist i (netTrace n ops)) nd.s hi hops hcnt
  simp only [txCount, dlvCount, net_station i ops n nd hnd]
  exact this

theorem txCount_out_of_range (a : Addr) (sn : Nat) (tr : List Ev) (i N : Nat) (h : ∀ e ∈ tr, e.st < N) (hi : N ≤ i) :
    txCount a sn i tr = 0 := by
  induction tr with
  | nil => rfl
  | cons e r ih =>
    rw [txCount_cons, ih (fun x hx => h x (by simp [hx]))]
    have := h e (by simp)
    have : e.st ≠ i := by omega
    simp [this]

/-- THE WHOLE FLOOD: at most `n - 1` re-transmissions in a network of `n` stations one of which (`o`) is the originator -/
theorem flood_total_bound (a : Addr) (sn B lim : Nat) (n : Net) (ops : List NetOp) (h : FloodHyp a sn B lim n ops)
    (o : Nat) (nd : Node) (hnd : n.nodes[o]? = some nd) (hself : mid a = mid nd.c.loct.self) :
    totalTx a sn (netTrace n ops) + 1 ≤ n.nodes.length := by
  rw [totalTx_eq_sum a sn n.nodes.length _ (netTrace_st_lt ops n)]
  have ho : o < n.nodes.length := by
    rcases Nat.lt_or_ge o n.nodes.length with h' | h'
    · exact h'
    · rw [List.getElem?_eq_none h'] at hnd; cases hnd
  apply sum_range_lt _ o _ _ ho
  · exact ((flood_station_bound a sn B lim n ops h o nd hnd).2.2 hself).1
  · intro i hi
    have hx : n.nodes[i]? = some n.nodes[i] := List.getElem?_eq_getElem hi
    exact (flood_station_bound a sn B lim n ops h i _ hx).1

/-! ## ghost hop counters: erasure and the hop budget -/

theorem eraseIdx_map {α β : Type} (f : α → β) : ∀ (l : List α) (j : Nat), (l.map f).eraseIdx j = (l.eraseIdx j).map f := by
  intro l
  induction l with
  | nil => intro j; rfl
  | cons x r ih =>
    intro j
    cases j with
    | zero => rfl
    | succ j => simp [List.eraseIdx_cons_succ, ih]

theorem broadcastH_map (rcv : List Nat) (qs : List Pkt) (h : Nat) :
    (broadcastH rcv qs h).map (fun f => (f.1, f.2.1)) = broadcast rcv qs := by
  simp [broadcastH, broadcast, List.map_flatMap, Function.comp_def]

/-- erasing the ghost fields commutes with a step: `HNet` runs are `Net` runs -/
theorem toNet_step (x : HNet) (op : NetOp) : (netStepH x op).toNet = netStep x.toNet op := by
  cases op with
  | lose j => simp [netStepH, netStep, HNet.toNet, eraseIdx_map]
  | fire i k rcv =>
    simp only [netStepH, netStep, HNet.toNet]
    cases hnd : x.nodes[i]? with
    | none => rfl
    | some nd => simp [broadcastH_map]
  | deliver j env now rcv =>
    simp only [netStepH, netStep, HNet.toNet, List.getElem?_map]
    cases hx : x.air[j]? with
    | none => rfl
    | some f =>
      obtain ⟨i, p, h⟩ := f
      simp only [Option.map_some]
      cases hnd : x.nodes[i]? with
      | none => simp [eraseIdx_map]
      | some nd => simp [eraseIdx_map, broadcastH_map]

theorem toNet_run : ∀ (ops : List NetOp) (x : HNet), (netRunH x ops).toNet = netRun x.toNet ops := by
  intro ops
  induction ops with
  | nil => intro x; rfl
  | cons op r ih => intro x; simp only [netRunH, netRun, ih, toNet_step]

/-- every copy of the flood `(a, sn)` - in flight or waiting in a CBF buffer - carries RHL = `h` minus the hops it made -/
def HopInv (a : Addr) (sn h : Nat) (x : HNet) : Prop :=
  (∀ f ∈ x.air, f.2.1.so = a → f.2.1.sn = sn → f.2.1.rhl + f.2.2 = h) ∧
  (∀ i nd k q, x.nodes[i]? = some nd → (k, q) ∈ nd.s.buf → q.so = a → q.sn = sn → q.rhl + hopOf x.bufH i k = h)

theorem hopOf_prepend (front bh : List ((Nat × Key) × Nat)) (i : Nat) (k : Key) (h : ∀ x ∈ front, x.1 ≠ (i, k)) :
    hopOf (front ++ bh) i k = hopOf bh i k := by
  unfold hopOf
  rw [List.find?_append]
  have : front.find? (fun x => x.1 == (i, k)) = none := by
    rw [List.find?_eq_none]
    intro x hx
    simpa using h x hx
  rw [this]; rfl

theorem mem_broadcastH {rcv : List Nat} {qs : List Pkt} {h : Nat} {f : Nat × Pkt × Nat} (hf : f ∈ broadcastH rcv qs h) :
    f.2.1 ∈ qs ∧ f.2.2 = h := by
  simp only [broadcastH, List.mem_flatMap, List.mem_map] at hf
  obtain ⟨q, hq, i, _, rfl⟩ := hf
  exact ⟨hq, rfl⟩

theorem not_bufHas_mem {b : List (Key × Pkt)} {k : Key} (h : bufHas b k = false) : ∀ x ∈ b, x.1 ≠ k := by
  intro x hx hk
  have : bufHas b k = true := by
    simp only [bufHas, List.any_eq_true]; exact ⟨x, hx, by simp [hk]⟩
  rw [h] at this; cases this

theorem hopInv_step (a : Addr) (sn h : Nat) (x : HNet) (op : NetOp) (hg : ∀ nd ∈ x.nodes, nd.c.gacFix = true)
    (hinv : HopInv a sn h x) : HopInv a sn h (netStepH x op) := by
  obtain ⟨hair, hbuf⟩ := hinv
  cases op with
  | lose j =>
    exact ⟨fun f hf => hair f (List.mem_of_mem_eraseIdx hf), hbuf⟩
  | fire i k rcv =>
    simp only [netStepH]
    cases hnd : x.nodes[i]? with
    | none => exact ⟨hair, hbuf⟩
    | some nd =>
      simp only []
      have hlt : i < x.nodes.length := by
        rcases Nat.lt_or_ge i x.nodes.length with h' | h'
        · exact h'
        · rw [List.getElem?_eq_none h'] at hnd; cases hnd
      constructor
      · intro f hf hso hsn
        rcases List.mem_append.1 hf with hf | hf
        · exact hair f hf hso hsn
        · obtain ⟨hq, hh⟩ := mem_broadcastH hf
          unfold fire at hq
          cases hget : bufGet nd.s.buf k with
          | none => simp [hget, sends] at hq
          | some q =>
            simp [hget, sends] at hq
            rw [hh, hq]
            exact hbuf i nd k q hnd (bufGet_mem hget) (hq ▸ hso) (hq ▸ hsn)
      · intro i' nd' k' q' hnd' hmem hso hsn
        by_cases hi : i = i'
        · subst hi
          rw [List.getElem?_set_self hlt] at hnd'
          cases hnd'
          have hsub : (k', q') ∈ nd.s.buf := by
            unfold fire at hmem
            split at hmem
            · exact (List.mem_filter.1 hmem).1
            · exact hmem
          exact hbuf i nd k' q' hnd hsub hso hsn
        · rw [List.getElem?_set_ne hi] at hnd'
          exact hbuf i' nd' k' q' hnd' hmem hso hsn
  | deliver j env now rcv =>
    simp only [netStepH]
    cases hx : x.air[j]? with
    | none => exact ⟨hair, hbuf⟩
    | some f0 =>
      obtain ⟨i, p, h0⟩ := f0
      simp only []
      have hf0 : (i, p, h0) ∈ x.air := List.mem_of_getElem? hx
      cases hnd : x.nodes[i]? with
      | none => exact ⟨fun f hf => hair f (List.mem_of_mem_eraseIdx hf), hbuf⟩
      | some nd =>
        simp only []
        have hlt : i < x.nodes.length := by
          rcases Nat.lt_or_ge i x.nodes.length with h' | h'
          · exact h'
          · rw [List.getElem?_eq_none h'] at hnd; cases hnd
        have hgn : nd.c.gacFix = true := hg nd (List.mem_of_getElem? hnd)
        constructor
        · intro f hf hso hsn
          rcases List.mem_append.1 hf with hf | hf
          · exact hair f (List.mem_of_mem_eraseIdx hf) hso hsn
          · obtain ⟨hq, hh⟩ := mem_broadcastH hf
            have hsend := mem_sends.1 hq
            rcases recvR_acts nd.c hgn nd.s p env now _ hsend with ⟨hc, _⟩ | ⟨hok, _, _⟩
            · cases hc
            · obtain ⟨h2, hcopy⟩ := hok.1 _ rfl
              obtain ⟨c1, c2, _⟩ := copyOf_id hcopy
              have hr : f.2.1.rhl + 1 = p.rhl := by
                rcases hcopy with hc | ⟨_, hc⟩
                · rw [hc]; simp only [fwd]; omega
                · rw [hc]; simp only [fwd, (refreshDE_rhl _ p).1]; omega
              have := hair (i, p, h0) hf0 (by rw [← c1]; exact hso) (by rw [← c2]; exact hsn)
              simp only [] at this
              rw [hh]; omega
        · intro i' nd' k' q' hnd' hmem hso hsn
          by_cases hi : i = i'
          · subst hi
            rw [List.getElem?_set_self hlt] at hnd'
            cases hnd'
            simp only [] at hmem
            rcases (recvR_buf nd.c hgn nd.s p env now).2 with ⟨hb, ha⟩ | ⟨hb, ha, _⟩ | ⟨hb, hno, ha, _, h2⟩
            · rw [hb] at hmem; rw [ha]
              exact hbuf i nd k' q' hnd hmem hso hsn
            · rw [hb] at hmem; rw [ha]
              exact hbuf i nd k' q' hnd (List.mem_filter.1 hmem).1 hso hsn
            · rw [hb] at hmem; rw [ha]
              rcases List.mem_append.1 hmem with hm | hm
              · have hne : k' ≠ (p.so, p.sn) := not_bufHas_mem hno _ hm
                rw [hopOf_prepend _ _ _ _ (by
                  intro y hy; simp at hy; subst hy; intro hc; apply hne; cases hc; rfl)]
                exact hbuf i nd k' q' hnd hm hso hsn
              · simp at hm
                obtain ⟨rfl, rfl⟩ := hm
                have := hair (i, p, h0) hf0 hso hsn
                simp only [] at this
                simp only [List.map_cons, List.map_nil, List.cons_append, List.nil_append, hopOf, List.find?_cons,
                  beq_self_eq_true, Option.map_some, Option.getD_some, fwd]
                omega
          · rw [List.getElem?_set_ne hi] at hnd'
            rw [hopOf_prepend _ _ _ _ (by
              intro y hy; simp only [List.mem_map] at hy; obtain ⟨_, _, rfl⟩ := hy
              intro hc; apply hi; cases hc; rfl)]
            exact hbuf i' nd' k' q' hnd' hmem hso hsn

theorem netStepH_gacFix (x : HNet) (op : NetOp) (hg : ∀ nd ∈ x.nodes, nd.c.gacFix = true) :
    ∀ nd ∈ (netStepH x op).nodes, nd.c.gacFix = true := by
  have := netStep_gacFix x.toNet op hg
  rw [← toNet_step] at this
  exact this

/-- HOP BUDGET over all schedules -/
theorem hopInv_run (a : Addr) (sn h : Nat) : ∀ (ops : List NetOp) (x : HNet), (∀ nd ∈ x.nodes, nd.c.gacFix = true) →
    HopInv a sn h x → HopInv a sn h (netRunH x ops) := by
  intro ops
  induction ops with
  | nil => intro x _ hi; exact hi
  | cons op r ih =>
    intro x hg hi
    exact ih (netStepH x op) (netStepH_gacFix x op hg) (hopInv_step a sn h x op hg hi)

/-- start of a flood: every copy of `(a, sn)` in flight is the originator's transmission (hop limit `h`, no hop made yet)
and no CBF buffer holds a copy -/
theorem hopInv_origin (a : Addr) (sn h : Nat) (x : HNet)
    (hair : ∀ f ∈ x.air, f.2.1.so = a → f.2.1.sn = sn → f.2.1.rhl = h ∧ f.2.2 = 0)
    (hbuf : ∀ nd ∈ x.nodes, ∀ y ∈ nd.s.buf, ¬ (y.2.so = a ∧ y.2.sn = sn)) : HopInv a sn h x := by
  constructor
  · intro f hf hso hsn
    obtain ⟨h1, h2⟩ := hair f hf hso hsn
    omega
  · intro i nd k q hnd hmem hso hsn
    exact absurd ⟨hso, hsn⟩ (hbuf nd (List.mem_of_getElem? hnd) (k, q) hmem)

/-- `FloodHyp` rules out a copy of the flood in any CBF buffer at the start -/
theorem floodHyp_no_buffered (a : Addr) (sn B lim : Nat) (n : Net) (ops : List NetOp) (h : FloodHyp a sn B lim n ops) :
    ∀ nd ∈ n.nodes, ∀ y ∈ nd.s.buf, ¬ (y.2.so = a ∧ y.2.sn = sn) := by
  intro nd hnd y hy hid
  obtain ⟨i, hi, rfl⟩ := List.getElem_of_mem hnd
  obtain ⟨_, _, _, hinit, _, _⟩ := h i _ (List.getElem?_eq_getElem hi)
  have hk := hinit.keyed y hy
  have : bufHas n.nodes[i].s.buf (a, sn) = true := by
    simp only [bufHas, List.any_eq_true]
    exact ⟨y, hy, by rw [hk, hid.1, hid.2]; simp⟩
  rw [hinit.nobuf] at this; cases this

theorem floodHyp_gacFix (a : Addr) (sn B lim : Nat) (n : Net) (ops : List NetOp) (h : FloodHyp a sn B lim n ops) :
    ∀ nd ∈ n.nodes, nd.c.gacFix = true := by
  intro nd hnd
  obtain ⟨i, hi, rfl⟩ := List.getElem_of_mem hnd
  exact (h i _ (List.getElem?_eq_getElem hi)).2.2.1

end FlexModel.Geo

/-
C04 composite: the receive path of one station = byte-level prologue (`RecvPath.classify`) + the security gate of
C03 (`FlexModel.Sec.gate`: `process_security_header` / `VerifyService.verify`) + the stateful GeoNetworking handlers
of C06 (`FlexModel.Geo.recvR`: DAD, location table, duplicate packet list, delivery, forwarding, CBF buffer) + the
BTP / facility chain as a function that may raise.  `RecvPath.recvGN` leaves `handle` and `verify` arbitrary; here
they are the two models the other properties verify, so that C04 can say what a frame that fails LATE (after the
prologue) may change.

The decoders are parameters (`Dec`): bytes → decoded packet is C02's subject, bytes → abstract signed message is
C03's (`sec_common.abs_msg`); nothing in C04's theorems depends on what they compute.

Core Lean only.
-/
import FlexModel.Geo.RecvPath
import FlexModel.Geo.Router
import FlexModel.Sec.Verify

namespace FlexModel.Geo.Recv
open FlexModel.Geo

/-- one reception: the frame, the receiver clock and the geometry / PDR bits of C06 for this reception -/
structure Rx where
  bytes : List Nat
  now : Nat := 0
  env : Env := {}
  /-- fault input: stdout is closed / broken while this frame is processed -/
  stdoutBroken : Bool := false

structure Dec where
  /-- decoded GN packet (basic header, common header, extended header, payload) of a frame whose headers are
  well-formed -/
  pkt : List Nat → Pkt
  /-- abstraction of the secured envelope of a frame with NH = SECURED_PACKET; `none`: it does not parse -/
  msg : List Nat → Option FlexModel.Sec.Msg
  /-- exception class `VerifyService.verify` raises for an envelope that does not parse / an unsupported algorithm -/
  secExc : List Nat → Exc
  /-- bytes of the verified plain message (common header, extended header, payload) -/
  plain : Nat → List Nat
  /-- exception raised by the BTP router / the addressed facility when handed this packet's payload
  (`none`: the payload decodes) -/
  upper : Pkt → Option Exc

structure SCfg where
  recv : Cfg := {}
  r : RCfg
  sec : FlexModel.Sec.Cfg := {}
  /-- C04-KF1 variant switch.  `false` = the code as it is: the GN layer commits (LocT, DPL, CBF buffer, forwarding)
  before the payload is handed to the facility.  `true` = hypothetical repaired variant in which a frame whose payload
  the facility cannot decode is discarded without any effect. -/
  payloadFirst : Bool := false

structure St where
  r : RSt := {}
  sec : FlexModel.Sec.Station := {}

def isDeliver : Act → Bool
  | .deliver .. => true
  | _ => false

/-- the GN-DATA.indications of one reception -/
def deliveries (acts : List Act) : List Act := acts.filter isDeliver

/-- the part of the receive path after the basic header: `process_common_header` for the GN packet `gn`
(= the frame itself, or the basic header followed by the verified plain message); `o` = outcome of the byte-level
prologue for it -/
def gnStage (D : Dec) (c : SCfg) (st : St) (o : Outcome) (gn : List Nat) (x : Rx) : St × List Act × Option Exc :=
  match o with
  | .raised e => (st, [], some e)
  | .dropped => (st, [], none)
  | .secured => (st, [], none)            -- not produced after the basic header
  | .handled _ =>
    let p := D.pkt gn
    let r := recvR c.r st.r p x.env x.now
    let st' : St := { st with r := r.1 }
    if (deliveries r.2).isEmpty then (st', r.2, none)
    else
      match D.upper p with
      | none => (st', r.2, none)
      | some e => if c.payloadFirst then (st, [], some e) else (st', r.2, some e)

/-- `Router.process_basic_header` of a complete station -/
def stationRecv (D : Dec) (c : SCfg) (st : St) (x : Rx) : St × List Act × Option Exc :=
  match classify c.recv x.bytes with
  | .secured =>
    match FlexModel.Sec.gate c.sec c.recv.securityEnabled true st.sec (.secured (D.msg x.bytes)) with
    | (S', .pass pl) =>
      gnStage D c { st with sec := S' } (commonStage (byteAt x.bytes 3) (D.plain pl)) (x.bytes.take 4 ++ D.plain pl) x
    | (S', .drop _) => ({ st with sec := S' }, [], none)
    | (S', .raise _) => ({ st with sec := S' }, [], some (D.secExc x.bytes))
  | o => gnStage D c st o x.bytes x

/-- a frame FAILS: it raises, or nothing is delivered to the upper layer and nothing is transmitted -/
def Failed (D : Dec) (c : SCfg) (st : St) (x : Rx) : Prop :=
  (stationRecv D c st x).2.2.isSome = true ∨ (stationRecv D c st x).2.1 = []

/-- the complete receive path of a station behind a link-layer loop: `gn_data_indicate` (catch-all `gi`) around
`process_basic_header` -/
def stationIndicate (mro : Exc → List String) (gi : LoopShape) (D : Dec) (c : SCfg) (st : St) (x : Rx) :
    St × List Act × Option Exc :=
  indicate mro gi Rx.stdoutBroken (stationRecv D c) st x

end FlexModel.Geo.Recv

/-
C07, round 4 — two structural aspects of the geo-area decisions of geonet/router.py that the sequential model
`Area.lean` takes for granted:

1. WHERE the Annex B.3 size guard of the source operation sits.  `Area.srcRequest` tests the size first.
   `srcRequestLate` is the order of seeded change C07-m6 (guard below the early `return ACCEPTED` of the
   "no neighbour and SCF" case); `srcRequestAt` selects by a flag that `Props.C07` computes from the regenerated
   facts `Generated.AreaFacts` (harness/gen_area.py).

2. HOW OFTEN a decision loads a position vector that other threads replace.  A LocTE's `position_vector` and the
   router's `ego_position_vector` are immutable objects; `LocationTableEntry.update_position_vector` /
   `refresh_ego_position_vector` REPLACE them from other threads.  `h t` is the vector the object holds at instant `t`;
   a function that loads the attribute `n` times sees the history at `n` instants `ts 0 ≤ ts 1 ≤ …`, and each of the
   fields it uses (PAI, latitude, longitude) is taken from one of those loads (`ld`).  With one load (`n ≤ 1`) the
   fields belong to ONE vector the object really held (`seen_of_single_load`); with more, PAI can come from one vector
   and the position from the next, or the latitude from one and the longitude from another (`torn_*_witness` in
   Props/C07.lean; seeded change C07-m5 and the code of `gn_data_indicate_gac` before fix C07-pv-snapshot).

Core Lean only.
-/
import FlexModel.Geo.Area
namespace FlexModel.Geo.Area

/-! ## 1. position of the size guard -/

/-- `gn_data_request_gbc` with the size guard placed AFTER the buffer case -/
def srcRequestLate (s : Shape) (a b : Rat) (maxKm2 : Nat) (fEgo : Rat) (bufferCase greedyOk : Bool) : SrcOut :=
  if bufferCase then ⟨.accepted, 0⟩
  else if oversize s a b maxKm2 then ⟨.geographicalScopeTooLarge, 0⟩
  else match annexD fEgo none with
    | .areaForwarding => ⟨.accepted, 1⟩
    | .nonAreaForwarding => ⟨.accepted, if greedyOk then 1 else 0⟩
    | .discard => ⟨.accepted, 0⟩

/-- the source operation as a function of the position of the guard in the source text -/
def srcRequestAt (guardFirst : Bool) (s : Shape) (a b : Rat) (maxKm2 : Nat) (fEgo : Rat) (bufferCase greedyOk : Bool) : SrcOut :=
  if guardFirst then srcRequest s a b maxKm2 fEgo bufferCase greedyOk
  else srcRequestLate s a b maxKm2 fEgo bufferCase greedyOk

/-! ## 2. loads of a replaceable position vector -/

/-- the fields of a position vector the area decisions use (coordinates in 1/10 micro-degree as on the wire) -/
structure SPV where
  pai : Bool
  lat : Int
  lon : Int
deriving DecidableEq, Repr

/-- what a function SEES of an object whose vector over time is `h`, when its loads happen at the instants `ts 0, ts 1, …`
and field `i` (0 = PAI, 1 = latitude, 2 = longitude) is taken from load `ld i` -/
def seen (ld : Nat → Nat) (h : Nat → SPV) (ts : Nat → Nat) : SPV :=
  ⟨(h (ts (ld 0))).pai, (h (ts (ld 1))).lat, (h (ts (ld 2))).lon⟩

/-- with at most one load every field comes from the vector held at that load -/
theorem seen_of_single_load (n : Nat) (hn : n ≤ 1) (ld : Nat → Nat) (hld : ∀ i, ld i < n) (h : Nat → SPV) (ts : Nat → Nat) :
    seen ld h ts = h (ts 0) := by
  have h0 : ∀ i, ld i = 0 := fun i => by have := hld i; omega
  simp only [seen, h0]

/-- Annex D's sender entry `(PAI, F(sender))` computed from what the function saw; `F` = the geometric function of the
packet's area on WGS-84 coordinates (projection + rotation: glue) -/
def seOf (F : Int → Int → Rat) (v : SPV) : Bool × Rat := (v.pai, F v.lat v.lon)

/-- the forwarder's Annex D selection with `n`-load access to the sender's LocTE -/
def selectionSeen (F : Int → Int → Rat) (fEgo : Rat) (ld : Nat → Nat) (h : Nat → SPV) (ts : Nat → Nat) : Fwd :=
  annexD fEgo (some (seOf F (seen ld h ts)))

/-- the delivery decision (F(ego) ≥ 0) with `n`-load access to the ego position vector -/
def deliverSeen (F : Int → Int → Rat) (ld : Nat → Nat) (h : Nat → SPV) (ts : Nat → Nat) : Bool :=
  decide (0 ≤ F (seen ld h ts).lat (seen ld h ts).lon)

end FlexModel.Geo.Area

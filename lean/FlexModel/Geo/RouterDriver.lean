import FlexModel.Proto
import FlexModel.Geo.LocTDriver
import FlexModel.Geo.Router
namespace FlexModel.Geo
open FlexModel.Proto

def Kind.str : Kind → String
  | .beacon => "beacon" | .shb => "shb" | .tsb => "tsb" | .gbc => "gbc" | .gac => "gac" | .guc => "guc"
  | .lsReq => "ls_request" | .lsRep => "ls_reply"

def Pkt.str (p : Pkt) : String :=
  s!"{p.kind.str} {p.rhl} {p.mhl} {p.so} {p.soPV.tst} {p.soPV.lat} {p.soPV.lon} {p.sn} {p.de} {p.dePV.tst} {p.dePV.lat} {p.dePV.lon} {b01 p.scf} {p.body}"

def Act.str : Act → String
  | .deliver k so sn => s!"deliver {k.str} {so} {sn}"
  | .send p => "send " ++ p.str
  | .arm k ms => s!"arm {k.1} {k.2} {ms}"
  | .cancel k => s!"cancel {k.1} {k.2}"
  | .reply to => s!"reply {to}"

def outStr (s : RSt) (acts : List Act) : String :=
  (match acts with | [] => "-" | l => " | ".intercalate (l.map Act.str)) ++ " # " ++
    " ".intercalate (s.buf.map fun x => s!"{x.1.1}:{x.1.2}")

structure RStation where
  c : RCfg := { loct := { self := 0, lifetimeMs := 20000, dplLen := 8 } }
  s : RSt := {}

/-- several stations (topology runs): `sel i` switches the station the following lines talk to -/
structure RDrvSt where
  cur : Nat := 0
  sts : List (Nat × RStation) := []

def RDrvSt.get (d : RDrvSt) : RStation := ((d.sts.find? (·.1 == d.cur)).map (·.2)).getD {}
def RDrvSt.set (d : RDrvSt) (x : RStation) : RDrvSt :=
  { d with sts := (d.cur, x) :: d.sts.filter (fun y => !(y.1 == d.cur)) }

def bool? : String → Option Bool
  | "0" => some false | "1" => some true | _ => none

def routerStep (d : RDrvSt) (tk : List String) : RDrvSt × String :=
  match tk with
  | ["sel", i] =>
    match nat? i with
    | some i => ({ d with cur := i }, "ok")
    | none => (d, "bad-op")
  | ["cfg", a, l, n, cbf] =>
    match nat? a, nat? l, nat? n, bool? cbf with
    | some a, some l, some n, some cbf =>
      (d.set { c := { loct := { self := a, lifetimeMs := l, dplLen := n }, cbf := cbf }, s := {} }, "ok")
    | _, _, _, _ => (d, "bad-op")
  | ["rx", k, rhl, mhl, so, tst, lat, lon, sn, de, dt, dla, dlo, scf, body, xin, xbig, xpdr, xsin, xgr, xms, now] =>
    match kind? k, [rhl, mhl, so, tst, sn, de, dt, body, xms, now].mapM nat?, [lat, lon, dla, dlo].mapM int?,
        [scf, xin, xbig, xpdr, xsin, xgr].mapM bool? with
    | some k, some [rhl, mhl, so, tst, sn, de, dt, body, xms, now], some [lat, lon, dla, dlo],
        some [scf, xin, xbig, xpdr, xsin, xgr] =>
      let p : Pkt := { kind := k, rhl := rhl, mhl := mhl, so := so, soPV := { time := tst, lat := lat, lon := lon }, sn := sn, de := de, dePV := { time := dt, lat := dla, lon := dlo }, scf := scf, body := body }
      let env : Env := { inside := xin, areaTooBig := xbig, pdrExceeded := xpdr, senderInside := xsin, greedy := xgr, cbfMs := xms }
      let x := d.get
      let r := recvR x.c x.s p env now
      (d.set { x with s := r.1 }, outStr r.1 r.2)
    | _, _, _, _ => (d, "bad-op")
  | ["fire", so, sn] =>
    match nat? so, nat? sn with
    | some so, some sn =>
      let x := d.get
      let r := fire x.s (so, sn)
      (d.set { x with s := r.1 }, outStr r.1 r.2)
    | _, _ => (d, "bad-op")
  | ["table"] => (d, Table.str d.get.s.t)
  | _ => (d, "bad-op")

def routerDomain : Domain := { σ := RDrvSt, init := {}, step := routerStep }

end FlexModel.Geo

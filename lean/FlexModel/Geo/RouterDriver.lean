import FlexModel.Proto
import FlexModel.Geo.LocTDriver
import FlexModel.Geo.Router
import FlexModel.Geo.NetFlood
import FlexModel.Geo.RouterSec
namespace FlexModel.Geo
open FlexModel.Proto

def Kind.str : Kind → String
  | .beacon => "beacon" | .shb => "shb" | .tsb => "tsb" | .gbc => "gbc" | .gac => "gac" | .guc => "guc"
  | .lsReq => "ls_request" | .lsRep => "ls_reply"

def Pkt.str (p : Pkt) : String :=
  s!"{p.kind.str} {p.rhl} {p.mhl} {p.so} {p.soPV.tst} {p.soPV.lat} {p.soPV.lon} {p.sn} {p.de} {p.dePV.tst} {p.dePV.lat} {p.dePV.lon} {b01 p.scf} {p.body}"

def Act.str : Act → String
  | .deliver k so sn => s!"deliver {k.str} {so} {sn}"
  | .send p => "send " ++ p.str
  | .arm k ms => s!"arm {k.1} {k.2} {ms}"
  | .cancel k => s!"cancel {k.1} {k.2}"
  | .reply to => s!"reply {to}"
  | .lsSend a => s!"lssend {a}"
  | .origGuc a => s!"origguc {a}"

def outStr (s : RSt) (acts : List Act) : String :=
  (match acts with | [] => "-" | l => " | ".intercalate (l.map Act.str)) ++ " # " ++
    " ".intercalate (s.buf.map fun x => s!"{x.1.1}:{x.1.2}")

def WFrame.str : WFrame → String
  | .plain q => "send " ++ q.str
  | .secured rhl m => s!"sends {rhl} {m}"

/-- wire-level output: actions with every transmission shown as the PDU `_forward_pdu` builds under `ctx`, then the CBF
buffer with the kind of the finished PDU stored under each key (`P` re-assembled, `S<m>` secured message `m`) -/
def wireOutStr (wbuf : List (Key × WFrame)) (acts : List Act) (ctx : Option Nat) : String :=
  (match acts with
    | [] => "-"
    | l => " | ".intercalate (l.map fun a => match a with | .send q => (forwardPdu ctx q).str | a => a.str)) ++ " # " ++
    " ".intercalate (wbuf.map fun x => s!"{x.1.1}:{x.1.2}:" ++ (match x.2 with | .plain _ => "P" | .secured _ m => s!"S{m}"))

structure RStation where
  c : RCfg := { loct := { self := 0, lifetimeMs := 20000, dplLen := 8 } }
  s : RSt := {}
  /-- wire level (`wcfg` / `wrx` / `wfire`): verify service configured, itsGnSecurity ENABLED, receive contexts, stored PDUs -/
  hv : Bool := false
  en : Bool := false
  ctx : Nat → Option Nat := fun _ => none
  wbuf : List (Key × WFrame) := []

def RStation.w (x : RStation) : WCfg := { c := x.c, hasVerify := x.hv, secEnabled := x.en }
def RStation.ws (x : RStation) : WSt := { r := x.s, ctx := x.ctx, wbuf := x.wbuf }
def RStation.put (x : RStation) (s : WSt) : RStation := { x with s := s.r, ctx := s.ctx, wbuf := s.wbuf }

/-- several stations (topology runs): `sel i` switches the station the following lines talk to -/
structure RDrvSt where
  cur : Nat := 0
  sts : List (Nat × RStation) := []
  /-- network mode (`n…` operations): the network at the start, the schedule so far, the network now and the trace so far.
  `hn = netRunH n0 ops` and `tr = netTrace n0.toNet ops` by construction; `ncount` / `nhyp` / `nhops` recompute from
  `n0` and `ops` with the definitions the theorems of `Props.C06` are about -/
  n0 : HNet := { nodes := [], air := [] }
  ops : List NetOp := []
  hn : HNet := { nodes := [], air := [] }
  tr : List Ev := []

def RDrvSt.get (d : RDrvSt) : RStation := ((d.sts.find? (·.1 == d.cur)).map (·.2)).getD {}
def RDrvSt.set (d : RDrvSt) (x : RStation) : RDrvSt :=
  { d with sts := (d.cur, x) :: d.sts.filter (fun y => !(y.1 == d.cur)) }

def bool? : String → Option Bool
  | "0" => some false | "1" => some true | _ => none

def pkt? (tk : List String) : Option Pkt :=
  match tk with
  | [k, rhl, mhl, so, tst, lat, lon, sn, de, dt, dla, dlo, scf, body] =>
    match kind? k, [rhl, mhl, so, tst, sn, de, dt, body].mapM nat?, [lat, lon, dla, dlo].mapM int?, bool? scf with
    | some k, some [rhl, mhl, so, tst, sn, de, dt, body], some [lat, lon, dla, dlo], some scf =>
      some { kind := k, rhl := rhl, mhl := mhl, so := so, soPV := { time := tst, lat := lat, lon := lon }, sn := sn, de := de,
             dePV := { time := dt, lat := dla, lon := dlo }, scf := scf, body := body }
    | _, _, _, _ => none
  | _ => none

def env? (tk : List String) : Option Env :=
  match tk with
  | [xin, xbig, xpdr, xsin, xgr, xms] =>
    match [xin, xbig, xpdr, xsin, xgr].mapM bool?, nat? xms with
    | some [xin, xbig, xpdr, xsin, xgr], some xms =>
      some { inside := xin, areaTooBig := xbig, pdrExceeded := xpdr, senderInside := xsin, greedy := xgr, cbfMs := xms }
    | _, _ => none
  | _ => none

/-- one medium operation in network mode: the event (`netEv`), then the step (`netStepH`); output = station, delivered
frame, actions + buffer keys of the station afterwards, frames put on the air as `dest:hops`, size of the air, and the
station's transmissions / deliveries of the packet identity `(a, sn)` so far (`txCount` / `dlvCount` on the trace) -/
def netOp (d : RDrvSt) (op : NetOp) (a sn : Nat) (what : String) : RDrvSt × String :=
  let ev := netEv d.hn.toNet op
  let hn' := netStepH d.hn op
  let tr' := match ev with | some e => d.tr ++ [e] | none => d.tr
  let d' := { d with ops := d.ops ++ [op], hn := hn', tr := tr' }
  match ev with
  | none => (d', s!"none | air {hn'.air.length}")
  | some e =>
    let st := ((hn'.nodes[e.st]?).map (·.s)).getD {}
    let newAir := hn'.air.drop (hn'.air.length - (sends e.acts).length * (match op with
      | .deliver _ _ _ rcv => rcv.length | .fire _ _ rcv => rcv.length | .lose _ => 0))
    (d', s!"st {e.st} | {what} | {outStr st e.acts} | new " ++ " ".intercalate (newAir.map fun f => s!"{f.1}:{f.2.2}") ++
      s!" | air {hn'.air.length} | tx {txCount a sn e.st tr'} dl {dlvCount a sn e.st tr'}")

def routerStep (d : RDrvSt) (tk : List String) : RDrvSt × String :=
  match tk with
  | ["nreset"] => ({ d with n0 := { nodes := [], air := [] }, ops := [], hn := { nodes := [], air := [] }, tr := [] }, "ok")
  | ["nnode", a, l, n, cbf] =>
    match d.ops, nat? a, nat? l, nat? n, bool? cbf with
    | [], some a, some l, some n, some cbf =>
      let nd : Node := { c := { loct := { self := a, lifetimeMs := l, dplLen := n }, cbf := cbf }, s := {} }
      let x : HNet := { d.n0 with nodes := d.n0.nodes ++ [nd] }
      ({ d with n0 := x, hn := x }, "ok")
    | _, _, _, _, _ => (d, "bad-op")
  | "nair" :: dest :: rest =>
    match d.ops, nat? dest, pkt? rest with
    | [], some dest, some p =>
      let x : HNet := { d.n0 with air := d.n0.air ++ [(dest, p, 0)] }
      ({ d with n0 := x, hn := x }, "ok")
    | _, _, _ => (d, "bad-op")
  | "nrx" :: j :: xin :: xbig :: xpdr :: xsin :: xgr :: xms :: now :: rcv =>
    match nat? j, env? [xin, xbig, xpdr, xsin, xgr, xms], nat? now, rcv.mapM nat? with
    | some j, some env, some now, some rcv =>
      match d.hn.air[j]? with
      | some (_, p, h) => netOp d (.deliver j env now rcv) p.so p.sn s!"rx {p.str} hops {h}"
      | none => netOp d (.deliver j env now rcv) 0 0 "rx -"
    | _, _, _, _ => (d, "bad-op")
  | "nfire" :: i :: so :: sn :: rcv =>
    match nat? i, nat? so, nat? sn, rcv.mapM nat? with
    | some i, some so, some sn, some rcv => netOp d (.fire i (so, sn) rcv) so sn s!"fire {so} {sn}"
    | _, _, _, _ => (d, "bad-op")
  | ["nlose", j] =>
    match nat? j with
    | some j => netOp d (.lose j) 0 0 "lose"
    | none => (d, "bad-op")
  | ["ncount", a, sn] =>
    match nat? a, nat? sn with
    | some a, some sn =>
      let tr := netTrace d.n0.toNet d.ops
      let ix := List.range d.n0.nodes.length
      (d, "tx " ++ joinNat (ix.map fun i => txCount a sn i tr) ++ " | dl " ++ joinNat (ix.map fun i => dlvCount a sn i tr) ++
        s!" | total {totalTx a sn tr}")
    | _, _ => (d, "bad-op")
  | ["nhyp", a, sn, b, lim] =>
    match nat? a, nat? sn, nat? b, nat? lim with
    | some a, some sn, some b, some lim => (d, b01 (floodHypB a sn b lim d.n0.toNet d.ops))
    | _, _, _, _ => (d, "bad-op")
  | ["nhops", a, sn, h] =>
    match nat? a, nat? sn, nat? h with
    | some a, some sn, some h =>
      let x := netRunH d.n0 d.ops
      let ok := x.air.all (fun f => !(f.2.1.so == a && f.2.1.sn == sn) || f.2.1.rhl + f.2.2 == h)
      let okb := (List.range x.nodes.length).all fun i =>
        match x.nodes[i]? with
        | some nd => nd.s.buf.all (fun y => !(y.2.so == a && y.2.sn == sn) || y.2.rhl + hopOf x.bufH i y.1 == h)
        | none => true
      (d, b01 (ok && okb))
    | _, _, _ => (d, "bad-op")
  | ["sel", i] =>
    match nat? i with
    | some i => ({ d with cur := i }, "ok")
    | none => (d, "bad-op")
  | ["cfg", a, l, n, cbf] =>
    match nat? a, nat? l, nat? n, bool? cbf with
    | some a, some l, some n, some cbf =>
      (d.set { c := { loct := { self := a, lifetimeMs := l, dplLen := n }, cbf := cbf }, s := {} }, "ok")
    | _, _, _, _ => (d, "bad-op")
  | ["rx", k, rhl, mhl, so, tst, lat, lon, sn, de, dt, dla, dlo, scf, body, xin, xbig, xpdr, xsin, xgr, xms, now] =>
    match kind? k, [rhl, mhl, so, tst, sn, de, dt, body, xms, now].mapM nat?, [lat, lon, dla, dlo].mapM int?,
        [scf, xin, xbig, xpdr, xsin, xgr].mapM bool? with
    | some k, some [rhl, mhl, so, tst, sn, de, dt, body, xms, now], some [lat, lon, dla, dlo],
        some [scf, xin, xbig, xpdr, xsin, xgr] =>
      let p : Pkt := { kind := k, rhl := rhl, mhl := mhl, so := so, soPV := { time := tst, lat := lat, lon := lon }, sn := sn, de := de, dePV := { time := dt, lat := dla, lon := dlo }, scf := scf, body := body }
      let env : Env := { inside := xin, areaTooBig := xbig, pdrExceeded := xpdr, senderInside := xsin, greedy := xgr, cbfMs := xms }
      let x := d.get
      let r := recvR x.c x.s p env now
      (d.set { x with s := r.1 }, outStr r.1 r.2)
    | _, _, _, _ => (d, "bad-op")
  | ["wcfg", a, l, n, cbf, hv, en] =>
    match nat? a, nat? l, nat? n, [cbf, hv, en].mapM bool? with
    | some a, some l, some n, some [cbf, hv, en] =>
      (d.set { c := { loct := { self := a, lifetimeMs := l, dplLen := n }, cbf := cbf }, s := {}, hv := hv, en := en }, "ok")
    | _, _, _, _ => (d, "bad-op")
  | "wrx" :: thr :: sec :: m :: vok :: cb :: rest =>
    match nat? thr, [sec, vok, cb].mapM bool?, nat? m, pkt? (rest.take 14), env? ((rest.drop 14).take 6), (rest.drop 20).mapM nat? with
    | some thr, some [sec, vok, cb], some m, some p, some env, some [now] =>
      let x := d.get
      let r := recvW x.w x.ws { thr := thr, sec := sec, m := m, vok := vok, p := p, cbRaises := cb } env now
      (d.set (x.put r.1), wireOutStr r.1.wbuf r.2.1 r.2.2)
    | _, _, _, _, _, _ => (d, "bad-op")
  | ["wfire", so, sn] =>
    match nat? so, nat? sn with
    | some so, some sn =>
      let x := d.get
      let r := fireW x.ws (so, sn)
      (d.set (x.put r.1), (match r.2 with | [] => "-" | l => " | ".intercalate (l.map WFrame.str)) ++ " # " ++
        " ".intercalate (r.1.wbuf.map fun y => s!"{y.1.1}:{y.1.2}:" ++ (match y.2 with | .plain _ => "P" | .secured _ m => s!"S{m}")))
    | _, _ => (d, "bad-op")
  | ["fire", so, sn] =>
    match nat? so, nat? sn with
    | some so, some sn =>
      let x := d.get
      let r := fire x.s (so, sn)
      (d.set { x with s := r.1 }, outStr r.1 r.2)
    | _, _ => (d, "bad-op")
  | ["lsreq", a, req] =>
    match nat? a, bool? req with
    | some a, some req =>
      let x := d.get
      let r := lsRequest x.s a req
      (d.set { x with s := r.1 }, outStr r.1 r.2)
    | _, _ => (d, "bad-op")
  | ["table"] => (d, Table.str d.get.s.t)
  | _ => (d, "bad-op")

def routerDomain : Domain := { σ := RDrvSt, init := {}, step := routerStep }

end FlexModel.Geo

/-
Per-station counting lemmas for the network-level theorem of C06: along ANY history of one station (receptions of any
packets, CBF timer expiries), the packet identity `(a, sn)` is transmitted at most once and delivered at most once, as long
as `a`'s location table entry lives and the duplicate packet list window is not overrun - from an arbitrary start state in
which the packet has not been seen yet (`StInit`).  Built on `RouterLemmas` (`rlive_step`, `duplicate_causes_nothing`,
`accepted_sn_recorded`).  Core Lean only (the driver imports the hypothesis definitions).
-/
import FlexModel.Geo.RouterLemmas
import FlexModel.Geo.NetLemmas
namespace FlexModel.Geo

theorem refreshDE_id (t : Table) (p : Pkt) :
    (refreshDE t p).so = p.so ∧ (refreshDE t p).sn = p.sn ∧ (refreshDE t p).kind = p.kind := by
  rcases refreshDE_spec t p with h | ⟨e, _, _, _, h⟩ <;> rw [h] <;> exact ⟨rfl, rfl, rfl⟩

theorem copyOf_id {t : Table} {p q : Pkt} (h : CopyOf t p q) : q.so = p.so ∧ q.sn = p.sn ∧ q.kind = p.kind := by
  rcases h with rfl | ⟨_, rfl⟩
  · exact ⟨rfl, rfl, rfl⟩
  · exact refreshDE_id t p

/-- what the handler does to the CBF buffer, which timers it starts and how many deliveries it makes -/
theorem handle_buf (c : RCfg) (hg : c.gacFix = true) (s : RSt) (p : Pkt) (env : Env) :
    (dlvs (handle c s p env).2).length ≤ 1 ∧
    (((handle c s p env).1.buf = s.buf ∧ arms (handle c s p env).2 = []) ∨
     ((handle c s p env).1.buf = bufDel s.buf (p.so, p.sn) ∧ arms (handle c s p env).2 = [] ∧
        sends (handle c s p env).2 = []) ∨
     ((handle c s p env).1.buf = s.buf ++ [((p.so, p.sn), fwd p)] ∧ bufHas s.buf (p.so, p.sn) = false ∧
        arms (handle c s p env).2 = [(p.so, p.sn)] ∧ sends (handle c s p env).2 = [] ∧ 2 ≤ p.rhl)) := by
  cases hk : p.kind <;> simp only [handle, hk]
  case beacon => (refine ⟨by simp [dlvs], ?_⟩; simp [arms, sends])
  case shb => (refine ⟨by simp [dlvs], ?_⟩; simp [arms, sends])
  case tsb =>
    repeat' split
    all_goals (refine ⟨by simp [dlvs], ?_⟩; simp [arms, sends])
  case gac =>
    simp only [hg, if_true]
    repeat' split
    all_goals (refine ⟨by simp [dlvs], ?_⟩; simp [arms, sends])
  case guc =>
    repeat' split
    all_goals (refine ⟨by simp [dlvs], ?_⟩; simp [arms, sends])
  case lsReq =>
    repeat' split
    all_goals (refine ⟨by simp [dlvs], ?_⟩; simp [arms, sends])
  case lsRep =>
    by_cases hme : mid p.de = mid c.loct.self
    · simp only [hme, if_true]
      obtain ⟨h1, h2, _⟩ := lsComplete_spec s p.so
      obtain ⟨_, g2, g3⟩ := ls_acts_silent h1
      exact ⟨by rw [g3]; simp, Or.inl ⟨h2, g2⟩⟩
    simp only [hme, if_false]
    repeat' split
    all_goals (refine ⟨by simp [dlvs], ?_⟩; simp [arms, sends])
  case gbc =>
    cases h0 : env.inside <;> simp only [Bool.false_eq_true, if_false, if_true]
    all_goals
      cases h1 : env.areaTooBig <;> simp only [Bool.false_eq_true, if_false, if_true]
      case true => (refine ⟨by simp [dlvs], ?_⟩; simp [arms, sends])
      cases h2 : env.pdrExceeded <;> simp only [Bool.false_eq_true, if_false, if_true]
      case true => (refine ⟨by simp [dlvs], ?_⟩; simp [arms, sends])
      by_cases h3 : p.rhl - 1 > 0
      case neg => simp only [h3, if_false]; (refine ⟨by simp [dlvs], ?_⟩; simp [arms, sends])
      simp only [h3, if_true, forwardGbc, h0, Bool.false_eq_true, if_false, if_true]
      cases h4 : (!(neighbours s.t).isEmpty || !p.scf) <;> simp only [Bool.false_eq_true, if_false, if_true]
      case false => (refine ⟨by simp [dlvs], ?_⟩; simp [arms, sends])
    · repeat' split
      all_goals (refine ⟨by simp [dlvs], ?_⟩; simp [arms, sends])
    · cases h6 : c.cbf <;> simp only [Bool.false_eq_true, if_false, if_true]
      case false => (refine ⟨by simp [dlvs], ?_⟩; simp [arms, sends])
      simp only [cbfForward]
      have hid : ((fwd p).so, (fwd p).sn) = (p.so, p.sn) := rfl
      cases h7 : bufHas s.buf ((fwd p).so, (fwd p).sn) <;> simp only [Bool.false_eq_true, if_false, if_true]
      case true => exact ⟨by simp [dlvs], Or.inr (Or.inl ⟨rfl, rfl, rfl⟩)⟩
      exact ⟨by simp [dlvs], Or.inr (Or.inr ⟨rfl, h7, rfl, rfl, by omega⟩)⟩

/-- what one reception does to the CBF buffer, which timers it starts and how many deliveries it makes -/
theorem recvR_buf (c : RCfg) (hg : c.gacFix = true) (s : RSt) (p : Pkt) (env : Env) (now : Nat) :
    (dlvs (recvR c s p env now).2).length ≤ 1 ∧
    (((recvR c s p env now).1.buf = s.buf ∧ arms (recvR c s p env now).2 = []) ∨
     ((recvR c s p env now).1.buf = bufDel s.buf (p.so, p.sn) ∧ arms (recvR c s p env now).2 = [] ∧
        sends (recvR c s p env now).2 = []) ∨
     ((recvR c s p env now).1.buf = s.buf ++ [((p.so, p.sn), fwd p)] ∧ bufHas s.buf (p.so, p.sn) = false ∧
        arms (recvR c s p env now).2 = [(p.so, p.sn)] ∧ sends (recvR c s p env now).2 = [] ∧ 2 ≤ p.rhl)) := by
  unfold recvR
  by_cases h1 : p.rhl > p.mhl
  · simp only [h1, if_true]; refine ⟨by simp [dlvs], ?_⟩; simp [arms, sends]
  simp only [h1, if_false]
  cases hr : (recv c.loct s.t p.kind p.so p.soPV p.sn now).2
  case dad => exact ⟨by simp [dlvs], Or.inl ⟨rfl, rfl⟩⟩
  case dup =>
    simp only []
    split
    · simp only [cbfDiscard]
      split
      · exact ⟨by simp [dlvs], Or.inr (Or.inl ⟨rfl, rfl, rfl⟩)⟩
      · exact ⟨by simp [dlvs], Or.inl ⟨rfl, rfl⟩⟩
    · exact ⟨by simp [dlvs], Or.inl ⟨rfl, rfl⟩⟩
  case ok => exact handle_buf c hg { s with t := _ } p env

/-! ## small facts about the counters and the buffer -/

theorem txOf_le_sends (a : Addr) (sn : Nat) (acts : List Act) : txOf a sn acts ≤ (sends acts).length :=
  List.countP_le_length

theorem dlvOf_le_dlvs (a : Addr) (sn : Nat) (acts : List Act) : dlvOf a sn acts ≤ (dlvs acts).length :=
  List.countP_le_length

theorem mem_sends {acts : List Act} {q : Pkt} : q ∈ sends acts ↔ Act.send q ∈ acts := by
  induction acts with
  | nil => simp [sends]
  | cons x r ih => cases x <;> simp [sends, ih]

theorem mem_dlvs {acts : List Act} {k : Kind} {so sn : Nat} : (k, so, sn) ∈ dlvs acts ↔ Act.deliver k so sn ∈ acts := by
  induction acts with
  | nil => simp [dlvs]
  | cons x r ih => cases x <;> simp [dlvs, ih]

theorem mem_arms {acts : List Act} {k : Key} : k ∈ arms acts ↔ ∃ ms, Act.arm k ms ∈ acts := by
  induction acts with
  | nil => simp [arms]
  | cons x r ih =>
    cases x <;> simp [arms, ih]
    case arm k' ms' =>
      constructor
      · rintro (rfl | ⟨ms, h⟩)
        · exact ⟨ms', Or.inl ⟨rfl, rfl⟩⟩
        · exact ⟨ms, Or.inr h⟩
      · rintro ⟨ms, (⟨rfl, _⟩ | h)⟩
        · exact Or.inl rfl
        · exact Or.inr ⟨ms, h⟩

theorem txOf_eq_zero {a : Addr} {sn : Nat} {acts : List Act}
    (h : ∀ q, Act.send q ∈ acts → ¬ (q.so = a ∧ q.sn = sn)) : txOf a sn acts = 0 := by
  simp only [txOf, List.countP_eq_zero]
  intro q hq
  have := h q (mem_sends.1 hq)
  simpa using this

theorem dlvOf_eq_zero {a : Addr} {sn : Nat} {acts : List Act}
    (h : ∀ k so sn', Act.deliver k so sn' ∈ acts → ¬ (k.singleHop = false ∧ so = a ∧ sn' = sn)) : dlvOf a sn acts = 0 := by
  simp only [dlvOf, List.countP_eq_zero]
  intro d hd
  obtain ⟨k, so, sn'⟩ := d
  have := h k so sn' (mem_dlvs.1 hd)
  simpa using this

theorem bufHas_del_ne (b : List (Key × Pkt)) (k k' : Key) (h : k' ≠ k) : bufHas (bufDel b k) k' = bufHas b k' := by
  induction b with
  | nil => rfl
  | cons x r ih =>
    simp only [bufDel, List.filter]
    cases hx : (x.1 == k) with
    | true =>
      have : (x.1 == k') = false := by
        have : x.1 = k := by simpa using hx
        simp [this, Ne.symm h]
      simp only [Bool.not_true, bufHas, List.any_cons, this, Bool.false_or]
      simpa [bufDel, bufHas] using ih
    | false =>
      simp only [Bool.not_false, bufHas, List.any_cons]
      simp only [bufDel, bufHas] at ih
      rw [ih]

theorem bufHas_del_le (b : List (Key × Pkt)) (k k' : Key) (h : bufHas (bufDel b k) k' = true) : bufHas b k' = true := by
  by_cases hk : k' = k
  · subst hk; rw [bufHas_del] at h; cases h
  · rwa [bufHas_del_ne b k k' hk] at h

theorem bufHas_append (b : List (Key × Pkt)) (x : Key × Pkt) (k : Key) :
    bufHas (b ++ [x]) k = (bufHas b k || x.1 == k) := by
  simp [bufHas]

/-- every buffered copy sits under the key made of its own source address and sequence number -/
def BufKeyed (b : List (Key × Pkt)) : Prop := ∀ x ∈ b, x.1 = (x.2.so, x.2.sn)

theorem bufKeyed_del {b : List (Key × Pkt)} (k : Key) (h : BufKeyed b) : BufKeyed (bufDel b k) :=
  fun x hx => h x (List.mem_filter.1 hx).1

theorem bufGet_mem {b : List (Key × Pkt)} {k : Key} {q : Pkt} (h : bufGet b k = some q) : (k, q) ∈ b := by
  unfold bufGet at h
  cases hf : b.find? (fun x => x.1 == k) with
  | none => simp [hf] at h
  | some x =>
    simp only [hf, Option.map_some, Option.some.injEq] at h
    have h1 := List.find?_some hf
    have h2 := List.mem_of_find?_eq_some hf
    have : x.1 = k := by simpa using h1
    subst h; subst this; exact h2

theorem recvR_keyed (c : RCfg) (hg : c.gacFix = true) (s : RSt) (p : Pkt) (env : Env) (now : Nat)
    (h : BufKeyed s.buf) : BufKeyed (recvR c s p env now).1.buf := by
  rcases (recvR_buf c hg s p env now).2 with ⟨hb, _⟩ | ⟨hb, _⟩ | ⟨hb, _⟩
  · rw [hb]; exact h
  · rw [hb]; exact bufKeyed_del _ h
  · rw [hb]
    intro x hx
    rcases List.mem_append.1 hx with hx | hx
    · exact h x hx
    · simp at hx; subst hx; rfl

theorem fire_keyed (s : RSt) (k : Key) (h : BufKeyed s.buf) : BufKeyed (fire s k).1.buf := by
  unfold fire; split
  · exact bufKeyed_del _ h
  · exact h

/-! ## hypotheses on a station's history and start state -/

/-- side conditions of one operation of a station's history for the flood of source `a` that has to end by `lim`:
the clock stays inside the 2^31 ms window starting at `B` and does not pass `lim`; packets of `a` carry a position
timestamp inside the window that is not older than the location table entry lifetime at `lim` (so `a`'s entry, once
created, cannot expire before `lim`); the station does not itself start a Location Service for `a` meanwhile (that would
put a placeholder entry without position vector for `a` into the table) -/
def ROpOK2 (c : RCfg) (a : Addr) (B lim : Nat) : ROp → Prop
  | .rx p _ now => Win B now ∧ now ≤ lim ∧ (p.so = a → Win B p.soPV.time ∧ lim ≤ p.soPV.time + c.loct.lifetimeMs)
  | .fire _ => True
  | .lsreq a' _ => a' ≠ a

theorem ropOK2_ok {c : RCfg} {a : Addr} {B lim : Nat} {op : ROp} (h : ROpOK2 c a B lim op) : ROpOK a B lim op := by
  cases op with
  | fire k => trivial
  | lsreq a' req => trivial
  | rx p env now => exact ⟨h.1, h.2.1, fun hp => (h.2.2 hp).1⟩

/-- `a` has no location table entry, or one that lives until `lim` -/
def LiveOrAbsent (c : RCfg) (a : Addr) (B lim : Nat) (t : Table) : Prop :=
  ∀ e, lookup t a = some e → e.hasPV = true ∧ Win B e.pv.time ∧ lim ≤ e.pv.time + c.loct.lifetimeMs

/-- start state of a station for the flood `(a, sn)`: unique table keys (true of every reachable table), `a`'s entry absent
or alive until `lim`, no copy of the packet waiting in the CBF buffer, buffer keyed by packet identity -/
structure StInit (c : RCfg) (a : Addr) (sn B lim : Nat) (s : RSt) : Prop where
  uniq : Uniq s.t
  live : LiveOrAbsent c a B lim s.t
  nobuf : bufHas s.buf (a, sn) = false
  keyed : BufKeyed s.buf

/-- the station has accepted `(a, sn)`: `a`'s entry lives until `lim` and holds `sn` in its duplicate packet list with
`post` newer sequence numbers behind it -/
def Accepted (c : RCfg) (a : Addr) (sn B lim : Nat) (s : RSt) (post : List Nat) : Prop :=
  Uniq s.t ∧ ∃ e pre, lookup s.t a = some e ∧ e.hasPV = true ∧ Win B e.pv.time ∧
    lim ≤ e.pv.time + c.loct.lifetimeMs ∧ e.dpl = pre ++ sn :: post

/-- potential: a copy of `(a, sn)` still waits in the CBF buffer -/
def pend (a : Addr) (sn : Nat) (s : RSt) : Nat := if bufHas s.buf (a, sn) = true then 1 else 0

theorem rstep_uniq (c : RCfg) (s : RSt) (op : ROp) (hu : Uniq s.t) : Uniq (rstep c s op).1.t := by
  cases op with
  | fire k => simp only [rstep, fire_t]; exact hu
  | lsreq a req => simp only [rstep, lsRequest_t]; exact (lsSim_ensure a s.t).1 hu
  | rx p env now => simp only [rstep]; exact (recvR_sim c s p env now).1 (uniq_recvT c s p now hu)

/-- the first packet of a source creates a live entry -/
theorem create_step (c : RCfg) (hv : c.loct.v = {}) (s : RSt) (p : Pkt) (env : Env) (now B lim : Nat)
    (hu : Uniq s.t) (hn : lookup s.t p.so = none) (hd : mid p.so ≠ mid c.loct.self) (hle : ¬ p.rhl > p.mhl)
    (hnow : Win B now) (hlim : now ≤ lim) (hpw : Win B p.soPV.time) (hpl : lim ≤ p.soPV.time + c.loct.lifetimeMs) :
    ∃ e', lookup (recvR c s p env now).1.t p.so = some e' ∧ e'.hasPV = true ∧ e'.pv = p.soPV := by
  have h0 : ∃ e0, lookup (recvT c s p now) p.so = some e0 ∧ e0.hasPV = true ∧ e0.pv = p.soPV := by
    rw [recvT, if_neg hle, lookup_recv_self c.loct hv s.t p.kind p.so p.soPV p.sn now hd hu]
    have hk : keep (fresh c.loct now) (lookup s.t p.so) = none := by rw [hn]; rfl
    obtain ⟨h1, h2, _, _, h5⟩ := entryStep_none c.loct hv p.kind p.soPV p.sn
    simp only [selfOutcome, hk]
    have hnd : ¬ (entryStep c.loct none p.kind p.soPV p.sn).2 = .dup := by rw [h1]; intro h; cases h
    simp only [hnd, if_false]
    have hf : fresh c.loct now (entryStep c.loct none p.kind p.soPV p.sn).1 = true :=
      (fresh_iff_window c.loct hv B now _ h2 (by rw [h5]; exact hpw) hnow).2 (by rw [h5]; omega)
    exact ⟨_, keep_of_true hf, h2, h5⟩
  obtain ⟨e0, g1, g2, g3⟩ := h0
  obtain ⟨e', h1, h2, h3, _, _⟩ := lsSim_live (recvR_sim c s p env now) g1
  exact ⟨e', h1, by rw [h2]; exact g2, by rw [h3]; exact g3⟩

theorem live_or_absent_step (c : RCfg) (hv : c.loct.v = {}) (a : Addr) (B lim : Nat) (s : RSt) (op : ROp)
    (hu : Uniq s.t) (hl : LiveOrAbsent c a B lim s.t) (hop : ROpOK2 c a B lim op) :
    LiveOrAbsent c a B lim (rstep c s op).1.t := by
  cases hlk : lookup s.t a with
  | some e =>
    obtain ⟨h1, h2, h3⟩ := hl e hlk
    obtain ⟨e', r1, r2, r3, r4, _, _⟩ := rlive_step c hv a B lim s e op hu hlk h1 h2 h3 (ropOK2_ok hop)
    intro e'' he''
    rw [r1] at he''; cases he''
    exact ⟨r2, r4, by omega⟩
  | none =>
    cases op with
    | fire k => simp only [rstep, fire_t]; intro e he; rw [hlk] at he; cases he
    | lsreq a' req =>
      simp only [rstep, lsRequest_t]
      intro e he
      rw [(lsSim_ensure a' s.t).2.1 a (Ne.symm hop), hlk] at he; cases he
    | rx p env now =>
      obtain ⟨hn, hn2, hpa⟩ := hop
      simp only [rstep]
      by_cases h1 : p.rhl > p.mhl
      · have : recvR c s p env now = (s, []) := by unfold recvR; simp [h1]
        rw [this]; intro e he; rw [hlk] at he; cases he
      by_cases hd : mid p.so = mid c.loct.self
      · have : recvR c s p env now = (s, []) := by unfold recvR; simp [h1, recv_dad _ _ _ _ _ _ _ hd]
        rw [this]; intro e he; rw [hlk] at he; cases he
      by_cases hb : p.so = a
      · subst hb
        obtain ⟨hpw, hpl⟩ := hpa rfl
        obtain ⟨e', r1, r2, r3⟩ := create_step c hv s p env now B lim hu hlk hd h1 hn hn2 hpw hpl
        intro e'' he''
        rw [r1] at he''; cases he''
        exact ⟨r2, by rw [r3]; exact hpw, by rw [r3]; exact hpl⟩
      · intro e he
        rw [(recvR_sim c s p env now).2.1 a (Ne.symm hb), recvT, if_neg h1,
          lookup_recv_ne c.loct hv s.t p.kind p.so a p.soPV p.sn now hd (Ne.symm hb) hu, hlk] at he
        cases he

theorem countOther_cons (a : Addr) (sn : Nat) (op : ROp) (r : List ROp) :
    countOther a sn (op :: r) = countOther a sn [op] + countOther a sn r := by
  cases op <;> simp [countOther]

/-- an accepted sequence number stays in the list over one operation that leaves room in the window -/
theorem acc_step (c : RCfg) (hv : c.loct.v = {}) (a : Addr) (sn B lim : Nat) (s : RSt) (post : List Nat) (op : ROp)
    (h : Accepted c a sn B lim s post) (hop : ROpOK2 c a B lim op)
    (hb : post.length + countOther a sn [op] ≤ c.loct.dplLen - 1) :
    ∃ post', Accepted c a sn B lim (rstep c s op).1 post' ∧ post'.length ≤ post.length + countOther a sn [op] := by
  obtain ⟨hu, e, pre, hl, hh, hw, hlim, hdpl⟩ := h
  obtain ⟨e', r1, r2, r3, r4, r5, r6⟩ := rlive_step c hv a B lim s e op hu hl hh hw hlim (ropOK2_ok hop)
  rcases r6 with hsame | ⟨p, env, now, rfl, hso, hm, hnot, hpush⟩
  · exact ⟨post, ⟨r5, e', pre, r1, r2, r4, by omega, by rw [hsame, hdpl]⟩, by omega⟩
  · have hne : p.sn ≠ sn := by
      intro hx; apply hnot; rw [hdpl, hx]; simp
    have hc : countOther a sn [ROp.rx p env now] = 1 := by simp [countOther, hso, hm, hne]
    obtain ⟨pre', hp'⟩ := dplPush_keeps c.loct.dplLen pre post sn p.sn (by omega)
    exact ⟨post ++ [p.sn], ⟨r5, e', pre', r1, r2, r4, by omega, by rw [hpush, hdpl, hp']⟩, by simp; omega⟩

/-- single-hop packets cause at most their own delivery and never touch the buffer -/
theorem recvR_singleHop (c : RCfg) (s : RSt) (p : Pkt) (env : Env) (now : Nat) (h : p.kind.singleHop = true) :
    ((recvR c s p env now).2 = [] ∨ (recvR c s p env now).2 = [.deliver .shb p.so 0]) ∧
    (recvR c s p env now).1.buf = s.buf := by
  unfold recvR
  by_cases h1 : p.rhl > p.mhl
  · simp [h1]
  simp only [h1, if_false]
  cases hr : (recv c.loct s.t p.kind p.so p.soPV p.sn now).2
  case dad => simp
  case dup =>
    simp only []
    have : ¬ (p.kind = .gbc ∧ c.cbf = true ∧ c.cbfFix = true) := by
      intro hx; rw [hx.1] at h; cases h
    simp [this]
  case ok =>
    cases hk : p.kind <;> rw [hk] at h <;> simp [Kind.singleHop] at h
    · simp [handle, hk]
    · simp [handle, hk]

/-- a reception that is not a multi-hop packet `(a, sn)` neither transmits nor delivers `(a, sn)` and leaves its buffered
copy alone -/
theorem other_rx (c : RCfg) (hg : c.gacFix = true) (a : Addr) (sn : Nat) (s : RSt) (p : Pkt) (env : Env) (now : Nat)
    (hne : ¬ (p.so = a ∧ p.sn = sn ∧ p.kind.singleHop = false)) :
    txOf a sn (recvR c s p env now).2 = 0 ∧ dlvOf a sn (recvR c s p env now).2 = 0 ∧
    bufHas (recvR c s p env now).1.buf (a, sn) = bufHas s.buf (a, sn) := by
  cases hs : p.kind.singleHop with
  | true =>
    obtain ⟨h1, h2⟩ := recvR_singleHop c s p env now hs
    rw [h2]
    rcases h1 with h1 | h1 <;> rw [h1] <;> simp [txOf, dlvOf, sends, dlvs, Kind.singleHop]
  | false =>
    have hid : ¬ (p.so = a ∧ p.sn = sn) := fun hx => hne ⟨hx.1, hx.2, hs⟩
    have hkey : (a, sn) ≠ (p.so, p.sn) := by
      intro hx; cases hx; exact hid ⟨rfl, rfl⟩
    refine ⟨txOf_eq_zero ?_, dlvOf_eq_zero ?_, ?_⟩
    · intro q hq
      rcases recvR_acts c hg s p env now _ hq with ⟨hc, _⟩ | ⟨hok, _, _⟩
      · cases hc
      · obtain ⟨h1, h2, _⟩ := copyOf_id (hok.1 q rfl).2
        rw [h1, h2]; exact hid
    · intro k so sn' hq
      rcases recvR_acts c hg s p env now _ hq with ⟨hc, _⟩ | ⟨hok, _, _⟩
      · cases hc
      · obtain ⟨h1, h2, h3⟩ := hok.2.2.1 k so sn' rfl
        rintro ⟨_, rfl, rfl⟩
        rcases h3 with h3 | h3
        · rw [h3] at hs; cases hs
        · exact hid ⟨h2.symm, h3.symm⟩
    · rcases (recvR_buf c hg s p env now).2 with ⟨hb, _⟩ | ⟨hb, _⟩ | ⟨hb, _⟩
      · rw [hb]
      · rw [hb, bufHas_del_ne _ _ _ hkey]
      · rw [hb, bufHas_append]
        have : ((p.so, p.sn) == (a, sn)) = false := by
          simp only [beq_eq_false_iff_ne]; exact fun hx => hkey hx.symm
        simp [this]

theorem arms_of_cancels {acts : List Act} {k : Key} (h : ∀ act ∈ acts, act = .cancel k) : arms acts = [] ∧
    sends acts = [] ∧ dlvs acts = [] := by
  induction acts with
  | nil => exact ⟨rfl, rfl, rfl⟩
  | cons x r ih =>
    have hx := h x (by simp)
    subst hx
    have := ih (fun act ha => h act (by simp [ha]))
    simpa [arms, sends, dlvs] using this

/-- a multi-hop packet `(a, sn)` received after its acceptance: nothing is transmitted or delivered, and the buffered copy
can only disappear -/
theorem flood_rx_quiet (c : RCfg) (hv : c.loct.v = {}) (hg : c.gacFix = true) (a : Addr) (sn B lim : Nat) (s : RSt)
    (post : List Nat) (p : Pkt) (env : Env) (now : Nat) (h : Accepted c a sn B lim s post)
    (hop : ROpOK2 c a B lim (.rx p env now)) (hso : p.so = a) (hsn : p.sn = sn) (hm : p.kind.singleHop = false) :
    txOf a sn (recvR c s p env now).2 = 0 ∧ dlvOf a sn (recvR c s p env now).2 = 0 ∧
    pend a sn (recvR c s p env now).1 ≤ pend a sn s := by
  obtain ⟨hu, e, pre, hl, hh, hw, hlim, hdpl⟩ := h
  obtain ⟨hn, hn2, _⟩ := hop
  subst hso; subst hsn
  have hf : fresh c.loct now e = true := (fresh_iff_window c.loct hv B now e hh hw hn).2 (by omega)
  have hq := duplicate_causes_nothing c hv hg s p env now e hu hm (by rw [hl, keep_of_true hf]) (by rw [hdpl]; simp)
  obtain ⟨h1, h2, h3⟩ := arms_of_cancels hq
  refine ⟨by simp [txOf, h2], by simp [dlvOf, h3], ?_⟩
  unfold pend
  rcases (recvR_buf c hg s p env now).2 with ⟨hb, _⟩ | ⟨hb, _⟩ | ⟨_, _, hb, _⟩
  · rw [hb]; exact Nat.le_refl _
  · rw [hb, bufHas_del]; simp
  · rw [h1] at hb; cases hb

theorem fire_flood (a : Addr) (sn : Nat) (s : RSt) (k : Key) (hkeyed : BufKeyed s.buf) :
    txOf a sn (fire s k).2 + pend a sn (fire s k).1 ≤ pend a sn s ∧ dlvOf a sn (fire s k).2 = 0 := by
  unfold fire pend
  cases hq : bufGet s.buf k with
  | none => simp [txOf, dlvOf, sends, dlvs]
  | some q =>
    simp only []
    have hmem := bufGet_mem hq
    have hkq : k = (q.so, q.sn) := hkeyed _ hmem
    refine ⟨?_, by simp [dlvOf, dlvs]⟩
    by_cases hk : k = (a, sn)
    · subst hk
      have hhas : bufHas s.buf (a, sn) = true := by
        simp only [bufHas, List.any_eq_true]; exact ⟨_, hmem, by simp⟩
      rw [bufHas_del, hhas]
      have := txOf_le_sends a sn [Act.send q]
      simp [sends] at this ⊢; omega
    · rw [bufHas_del_ne _ _ _ (Ne.symm hk)]
      have : txOf a sn [Act.send q] = 0 := by
        apply txOf_eq_zero
        intro q' hq'
        simp at hq'; subst hq'
        intro hx; apply hk; rw [hkq, hx.1, hx.2]
      rw [this]; omega

/-- the station starting a Location Service transmits and delivers no received packet and leaves the CBF buffer alone -/
theorem lsreq_flood (a : Addr) (sn : Nat) (s : RSt) (a' : Addr) (req : Bool) :
    txOf a sn (lsRequest s a' req).2 = 0 ∧ dlvOf a sn (lsRequest s a' req).2 = 0 ∧ (lsRequest s a' req).1.buf = s.buf := by
  obtain ⟨h1, _, h3⟩ := ls_acts_silent (a := a') (fun act h => Or.inl (lsRequest_acts s a' req act h))
  exact ⟨by simp [txOf, h1], by simp [dlvOf, h3], lsRequest_buf s a' req⟩

/-- one operation in the accepted phase -/
theorem acc_op (c : RCfg) (hv : c.loct.v = {}) (hg : c.gacFix = true) (a : Addr) (sn B lim : Nat) (s : RSt)
    (post : List Nat) (op : ROp) (h : Accepted c a sn B lim s post) (hkeyed : BufKeyed s.buf)
    (hop : ROpOK2 c a B lim op) (hb : post.length + countOther a sn [op] ≤ c.loct.dplLen - 1) :
    txOf a sn (rstep c s op).2 + pend a sn (rstep c s op).1 ≤ pend a sn s ∧ dlvOf a sn (rstep c s op).2 = 0 ∧
    BufKeyed (rstep c s op).1.buf ∧
    ∃ post', Accepted c a sn B lim (rstep c s op).1 post' ∧ post'.length ≤ post.length + countOther a sn [op] := by
  have hacc := acc_step c hv a sn B lim s post op h hop hb
  cases op with
  | fire k =>
    obtain ⟨h1, h2⟩ := fire_flood a sn s k hkeyed
    exact ⟨h1, h2, fire_keyed s k hkeyed, hacc⟩
  | lsreq a' req =>
    obtain ⟨h1, h2, h3⟩ := lsreq_flood a sn s a' req
    simp only [rstep] at hacc ⊢
    refine ⟨?_, h2, by rw [h3]; exact hkeyed, hacc⟩
    unfold pend; rw [h3, h1]; omega
  | rx p env now =>
    simp only [rstep] at hacc ⊢
    refine ⟨?_, ?_, recvR_keyed c hg s p env now hkeyed, hacc⟩
    · by_cases hfl : p.so = a ∧ p.sn = sn ∧ p.kind.singleHop = false
      · obtain ⟨h1, _, h3⟩ := flood_rx_quiet c hv hg a sn B lim s post p env now h hop hfl.1 hfl.2.1 hfl.2.2
        omega
      · obtain ⟨h1, _, h3⟩ := other_rx c hg a sn s p env now hfl
        unfold pend; rw [h3, h1]; omega
    · by_cases hfl : p.so = a ∧ p.sn = sn ∧ p.kind.singleHop = false
      · exact (flood_rx_quiet c hv hg a sn B lim s post p env now h hop hfl.1 hfl.2.1 hfl.2.2).2.1
      · exact (other_rx c hg a sn s p env now hfl).2.1

/-- ALL HISTORIES after the acceptance of `(a, sn)`: at most the buffered copy is still transmitted, nothing is delivered -/
theorem accepted_run (c : RCfg) (hv : c.loct.v = {}) (hg : c.gacFix = true) (a : Addr) (sn B lim : Nat) :
    ∀ (H : List ROp) (s : RSt) (post : List Nat), Accepted c a sn B lim s post → BufKeyed s.buf →
      (∀ op ∈ H, ROpOK2 c a B lim op) → post.length + countOther a sn H ≤ c.loct.dplLen - 1 →
      txLog a sn (rrun c s H).2 ≤ pend a sn s ∧ dlvLog a sn (rrun c s H).2 = 0 := by
  intro H
  induction H with
  | nil => intro s post _ _ _ _; simp [rrun, txLog, dlvLog]
  | cons op r ih =>
    intro s post hacc hkeyed hops hcnt
    rw [countOther_cons] at hcnt
    obtain ⟨h1, h2, h3, post', h4, h5⟩ := acc_op c hv hg a sn B lim s post op hacc hkeyed (hops op (by simp)) (by omega)
    obtain ⟨i1, i2⟩ := ih (rstep c s op).1 post' h4 h3 (fun o ho => hops o (by simp [ho])) (by omega)
    simp only [rrun, txLog, dlvLog]
    omega

theorem pend_le_one (a : Addr) (sn : Nat) (s : RSt) : pend a sn s ≤ 1 := by
  unfold pend; split <;> omega

theorem pend_zero {a : Addr} {sn : Nat} {s : RSt} (h : bufHas s.buf (a, sn) = false) : pend a sn s = 0 := by
  simp [pend, h]

theorem stInit_of (c : RCfg) (hv : c.loct.v = {}) (a : Addr) (sn B lim : Nat) (s : RSt) (op : ROp)
    (hi : StInit c a sn B lim s) (hop : ROpOK2 c a B lim op) (hb : bufHas (rstep c s op).1.buf (a, sn) = false)
    (hk : BufKeyed (rstep c s op).1.buf) : StInit c a sn B lim (rstep c s op).1 :=
  ⟨rstep_uniq c s op hi.uniq, live_or_absent_step c hv a B lim s op hi.uniq hi.live hop, hb, hk⟩

/-- one operation before `(a, sn)` has been accepted: either it still has not been (nothing transmitted or delivered), or
this operation is its first acceptance: at most one transmission or one buffered copy, at most one delivery -/
theorem idle_op (c : RCfg) (hv : c.loct.v = {}) (hg : c.gacFix = true) (a : Addr) (sn B lim : Nat) (s : RSt) (op : ROp)
    (hi : StInit c a sn B lim s) (hop : ROpOK2 c a B lim op) :
    (StInit c a sn B lim (rstep c s op).1 ∧ txOf a sn (rstep c s op).2 = 0 ∧ dlvOf a sn (rstep c s op).2 = 0) ∨
    (mid a ≠ mid c.loct.self ∧ countOther a sn [op] = 0 ∧ Accepted c a sn B lim (rstep c s op).1 [] ∧
      BufKeyed (rstep c s op).1.buf ∧ txOf a sn (rstep c s op).2 + pend a sn (rstep c s op).1 ≤ 1 ∧
      dlvOf a sn (rstep c s op).2 ≤ 1) := by
  cases op with
  | fire k =>
    left
    obtain ⟨h1, h2⟩ := fire_flood a sn s k hi.keyed
    rw [pend_zero hi.nobuf] at h1
    have hb : bufHas (fire s k).1.buf (a, sn) = false := by
      cases hx : bufHas (fire s k).1.buf (a, sn) with
      | false => rfl
      | true => simp [pend, hx] at h1
    exact ⟨stInit_of c hv a sn B lim s (.fire k) hi hop hb (fire_keyed s k hi.keyed), by simp only [rstep]; omega, h2⟩
  | lsreq a' req =>
    left
    obtain ⟨h1, h2, h3⟩ := lsreq_flood a sn s a' req
    exact ⟨stInit_of c hv a sn B lim s (.lsreq a' req) hi hop (by simp only [rstep]; rw [h3]; exact hi.nobuf)
      (by simp only [rstep]; rw [h3]; exact hi.keyed), h1, h2⟩
  | rx p env now =>
    have hkeyed := recvR_keyed c hg s p env now hi.keyed
    by_cases hfl : p.so = a ∧ p.sn = sn ∧ p.kind.singleHop = false
    case neg =>
      left
      obtain ⟨h1, h2, h3⟩ := other_rx c hg a sn s p env now hfl
      exact ⟨stInit_of c hv a sn B lim s (.rx p env now) hi hop (by simp only [rstep]; rw [h3]; exact hi.nobuf) hkeyed, h1, h2⟩
    obtain ⟨hso, hsn, hm⟩ := hfl
    subst hso; subst hsn
    -- not accepted: the station stays idle
    have idle : (∀ act ∈ (recvR c s p env now).2, act = .cancel (p.so, p.sn)) →
        StInit c p.so p.sn B lim (rstep c s (.rx p env now)).1 ∧ txOf p.so p.sn (rstep c s (.rx p env now)).2 = 0 ∧
          dlvOf p.so p.sn (rstep c s (.rx p env now)).2 = 0 := by
      intro hq
      obtain ⟨h1, h2, h3⟩ := arms_of_cancels hq
      simp only [rstep]
      refine ⟨stInit_of c hv p.so p.sn B lim s (.rx p env now) hi hop ?_ hkeyed, by simp [txOf, h2], by simp [dlvOf, h3]⟩
      simp only [rstep]
      rcases (recvR_buf c hg s p env now).2 with ⟨hb, _⟩ | ⟨hb, _⟩ | ⟨_, _, hb, _⟩
      · rw [hb]; exact hi.nobuf
      · rw [hb]; exact bufHas_del _ _
      · rw [h1] at hb; cases hb
    by_cases h1 : p.rhl > p.mhl
    · left; apply idle; intro act hact; unfold recvR at hact; simp [h1] at hact
    by_cases hd : mid p.so = mid c.loct.self
    · left; apply idle; intro act hact
      have : recvR c s p env now = (s, []) := by unfold recvR; simp [h1, recv_dad _ _ _ _ _ _ _ hd]
      rw [this] at hact; cases hact
    cases hr : (recv c.loct s.t p.kind p.so p.soPV p.sn now).2
    case dad =>
      rw [recv_res c.loct hv s.t p.kind p.so p.soPV p.sn now hd hi.uniq] at hr
      split at hr <;> cases hr
    case dup =>
      left; apply idle; intro act hact
      rcases recvR_acts c hg s p env now act hact with h | ⟨_, _, hok⟩
      · exact h.1
      · rw [hr] at hok; cases hok
    case ok =>
      right
      obtain ⟨hn, hn2, hpa⟩ := hop
      obtain ⟨hpw, hpl⟩ := hpa rfl
      simp only [rstep]
      refine ⟨hd, by simp [countOther], ?_, hkeyed, ?_, ?_⟩
      · -- the entry of the source exists afterwards, lives, and has `sn` as newest element of its list
        have hex : ∃ e', lookup (recvR c s p env now).1.t p.so = some e' ∧ e'.hasPV = true ∧ Win B e'.pv.time ∧
            lim ≤ e'.pv.time + c.loct.lifetimeMs := by
          cases hlk : lookup s.t p.so with
          | some e =>
            obtain ⟨g1, g2, g3⟩ := hi.live e hlk
            obtain ⟨e', r1, r2, r3, r4, _, _⟩ := rlive_step c hv p.so B lim s e (.rx p env now) hi.uniq hlk g1 g2 g3
              ⟨hn, hn2, fun _ => hpw⟩
            exact ⟨e', r1, r2, r4, by omega⟩
          | none =>
            obtain ⟨e', r1, r2, r3⟩ := create_step c hv s p env now B lim hi.uniq hlk hd h1 hn hn2 hpw hpl
            exact ⟨e', r1, r2, by rw [r3]; exact hpw, by rw [r3]; exact hpl⟩
        obtain ⟨e', r1, r2, r3, r4⟩ := hex
        obtain ⟨pre, hpre⟩ := accepted_sn_recorded c hv s p env now e' hi.uniq hm (by omega) hr r1 r2
        exact ⟨rstep_uniq c s (.rx p env now) hi.uniq, e', pre, r1, r2, r3, r4, hpre⟩
      · rcases recvR_effect c hg s p env now with ⟨hs, _⟩ | ⟨q, hs, _, hb⟩
        · have := txOf_le_sends p.so p.sn (recvR c s p env now).2
          rw [hs] at this
          have := pend_le_one p.so p.sn (recvR c s p env now).1
          simp at *; omega
        · have := txOf_le_sends p.so p.sn (recvR c s p env now).2
          rw [hs] at this
          have hp : pend p.so p.sn (recvR c s p env now).1 = 0 := by
            unfold pend; rw [hb, hi.nobuf]; simp
          simp at this; omega
      · have := dlvOf_le_dlvs p.so p.sn (recvR c s p env now).2
        have := (recvR_buf c hg s p env now).1
        omega

/-- ALL HISTORIES OF ONE STATION.  From any start state in which the packet `(a, sn)` has not been seen yet (`StInit`), for
every sequence of receptions (any packets of any sources, any opaque inputs) and CBF timer expiries that happen before
`lim`, keep `a`'s entry alive (`ROpOK2`) and contain at most `L - 1` multi-hop packets of `a` with other sequence numbers:
the station transmits `(a, sn)` at most once - at once or from the CBF buffer - and delivers it at most once; a station
whose own address is `a` does neither. -/
theorem station_at_most_once (c : RCfg) (hv : c.loct.v = {}) (hg : c.gacFix = true) (a : Addr) (sn B lim : Nat) :
    ∀ (H : List ROp) (s : RSt), StInit c a sn B lim s → (∀ op ∈ H, ROpOK2 c a B lim op) →
      countOther a sn H ≤ c.loct.dplLen - 1 →
      txLog a sn (rrun c s H).2 ≤ 1 ∧ dlvLog a sn (rrun c s H).2 ≤ 1 ∧
      (mid a = mid c.loct.self → txLog a sn (rrun c s H).2 = 0 ∧ dlvLog a sn (rrun c s H).2 = 0) := by
  intro H
  induction H with
  | nil => intro s _ _ _; simp [rrun, txLog, dlvLog]
  | cons op r ih =>
    intro s hi hops hcnt
    rw [countOther_cons] at hcnt
    simp only [rrun, txLog, dlvLog]
    rcases idle_op c hv hg a sn B lim s op hi (hops op (by simp)) with ⟨h1, h2, h3⟩ | ⟨h0, h1, h2, h3, h4, h5⟩
    · obtain ⟨i1, i2, i3⟩ := ih (rstep c s op).1 h1 (fun o ho => hops o (by simp [ho])) (by omega)
      refine ⟨by omega, by omega, fun hm => ?_⟩
      obtain ⟨j1, j2⟩ := i3 hm
      omega
    · obtain ⟨i1, i2⟩ := accepted_run c hv hg a sn B lim r (rstep c s op).1 [] h2 h3 (fun o ho => hops o (by simp [ho]))
        (by simp; omega)
      exact ⟨by omega, by omega, fun hm => absurd hm h0⟩

end FlexModel.Geo

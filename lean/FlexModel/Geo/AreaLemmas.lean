/-
Helper lemmas for Props/C07.lean (model: FlexModel/Geo/Area.lean).  Single Mathlib modules only.
-/
import FlexModel.Geo.Area
import Mathlib.Tactic.Linarith
import Mathlib.Tactic.Ring
import Mathlib.Tactic.FieldSimp
import Mathlib.Algebra.Order.Field.Rat
import Mathlib.Algebra.Order.Field.Basic
namespace FlexModel.Geo.Area

theorem sqr_div (x a : Rat) : sqr (x / a) = (x * x) / (a * a) := by
  unfold sqr; rw [div_mul_div_comm]

theorem circle_iff (a b x y : Rat) (ha : 0 < a) :
    0 ≤ Fval .circle a b x y ↔ inside .circle a b x y := by
  have ha2 : 0 < a * a := mul_pos ha ha
  simp only [Fval, inside, sqr_div]
  have e : 1 - x * x / (a * a) - y * y / (a * a) = (a * a - (x * x + y * y)) / (a * a) := by
    field_simp; ring
  rw [e, le_div_iff₀ ha2]
  constructor <;> intro h <;> linarith

theorem circle_zero_iff (a b x y : Rat) (ha : 0 < a) :
    Fval .circle a b x y = 0 ↔ onBorder .circle a b x y := by
  have ha2 : 0 < a * a := mul_pos ha ha
  simp only [Fval, onBorder, sqr_div]
  have e : 1 - x * x / (a * a) - y * y / (a * a) = (a * a - (x * x + y * y)) / (a * a) := by
    field_simp; ring
  rw [e, div_eq_zero_iff]
  constructor
  · rintro (h | h) <;> linarith
  · intro h; left; linarith

theorem ellipse_iff (a b x y : Rat) :
    0 ≤ Fval .ellipse a b x y ↔ inside .ellipse a b x y := by
  simp only [Fval, inside]
  constructor <;> intro h <;> linarith

theorem ellipse_zero_iff (a b x y : Rat) :
    Fval .ellipse a b x y = 0 ↔ onBorder .ellipse a b x y := by
  simp only [Fval, onBorder]
  constructor <;> intro h <;> linarith

/-- the ellipse membership in polynomial form -/
theorem ellipse_inside_poly (a b x y : Rat) (ha : 0 < a) (hb : 0 < b) :
    inside .ellipse a b x y ↔ b * b * (x * x) + a * a * (y * y) ≤ a * a * (b * b) := by
  have ha2 : 0 < a * a := mul_pos ha ha
  have hb2 : 0 < b * b := mul_pos hb hb
  simp only [inside, sqr_div]
  have e : x * x / (a * a) + y * y / (b * b) = (b * b * (x * x) + a * a * (y * y)) / (a * a * (b * b)) := by
    field_simp
  rw [e, div_le_one (mul_pos ha2 hb2)]

theorem sqr_le_one_iff (x a : Rat) (ha : 0 < a) : 0 ≤ 1 - sqr (x / a) ↔ (-a ≤ x ∧ x ≤ a) := by
  have ha2 : 0 < a * a := mul_pos ha ha
  rw [sqr_div, sub_nonneg, div_le_one ha2]
  constructor
  · intro h
    constructor <;> nlinarith
  · rintro ⟨h1, h2⟩
    nlinarith

theorem rect_iff (a b x y : Rat) (ha : 0 < a) (hb : 0 < b) :
    0 ≤ Fval .rect a b x y ↔ inside .rect a b x y := by
  simp only [Fval, inside, le_min_iff, sqr_le_one_iff x a ha, sqr_le_one_iff y b hb]

theorem sqr_eq_one_iff (x a : Rat) (ha : 0 < a) : 1 - sqr (x / a) = 0 ↔ (x = a ∨ x = -a) := by
  have ha2 : 0 < a * a := mul_pos ha ha
  rw [sqr_div, sub_eq_zero, eq_comm, div_eq_one_iff_eq (ne_of_gt ha2)]
  constructor
  · intro h
    have : (x - a) * (x + a) = 0 := by ring_nf; linarith
    rcases mul_eq_zero.1 this with h1 | h1
    · left; linarith
    · right; linarith
  · rintro (h | h) <;> subst h <;> ring

theorem min_eq_zero_iff (p q : Rat) : min p q = 0 ↔ (0 ≤ p ∧ 0 ≤ q) ∧ (p = 0 ∨ q = 0) := by
  rcases le_total p q with h | h
  · rw [min_eq_left h]
    constructor
    · intro hp; subst hp; exact ⟨⟨le_refl _, h⟩, Or.inl rfl⟩
    · rintro ⟨⟨h1, h2⟩, h3 | h3⟩
      · exact h3
      · linarith
  · rw [min_eq_right h]
    constructor
    · intro hq; subst hq; exact ⟨⟨h, le_refl _⟩, Or.inr rfl⟩
    · rintro ⟨⟨h1, h2⟩, h3 | h3⟩
      · linarith
      · exact h3

theorem rect_zero_iff (a b x y : Rat) (ha : 0 < a) (hb : 0 < b) :
    Fval .rect a b x y = 0 ↔ onBorder .rect a b x y := by
  simp only [Fval, onBorder, min_eq_zero_iff, sqr_le_one_iff x a ha, sqr_le_one_iff y b hb,
    sqr_eq_one_iff x a ha, sqr_eq_one_iff y b hb, or_assoc]

theorem Fval_neg_x (s : Shape) (a b x y : Rat) : Fval s a b (-x) y = Fval s a b x y := by
  cases s <;> simp [Fval, sqr, neg_div]

theorem Fval_neg_y (s : Shape) (a b x y : Rat) : Fval s a b x (-y) = Fval s a b x y := by
  cases s <;> simp [Fval, sqr, neg_div]

theorem circle_rot (a b x y c s : Rat) (h : c * c + s * s = 1) :
    Fval .circle a b (c * x + s * y) (-(s * x) + c * y) = Fval .circle a b x y := by
  simp only [Fval, sqr_div]
  have e : (c * x + s * y) * (c * x + s * y) + (-(s * x) + c * y) * (-(s * x) + c * y)
      = (c * c + s * s) * (x * x + y * y) := by ring
  have e2 : ∀ p q : Rat, 1 - p / (a * a) - q / (a * a) = 1 - (p + q) / (a * a) := by
    intro p q; rw [add_div]; ring
  rw [e2, e2, e, h, one_mul]

theorem F_ok (s : Shape) (a b x y : Rat) (ha : 0 < a) (hb : 0 < b) : F s a b x y = .ok (Fval s a b x y) := by
  have h1 : (a == 0) = false := by simpa using ne_of_gt ha
  have h2 : (b == 0) = false := by simpa using ne_of_gt hb
  cases s <;> simp [F, degenerate, h1, h2]

end FlexModel.Geo.Area

/-
Helper lemmas for Props/C07.lean (model: FlexModel/Geo/Area.lean).  Single Mathlib modules only.
-/
import FlexModel.Geo.Area
import Mathlib.Tactic.Linarith
import Mathlib.Tactic.Ring
import Mathlib.Tactic.FieldSimp
import Mathlib.Algebra.Order.Field.Rat
import Mathlib.Algebra.Order.Field.Basic
namespace FlexModel.Geo.Area

theorem sqr_div (x a : Rat) : sqr (x / a) = (x * x) / (a * a) := by
  unfold sqr; rw [div_mul_div_comm]

theorem circle_iff (a b x y : Rat) (ha : 0 < a) :
    0 ≤ Fval .circle a b x y ↔ inside .circle a b x y := by
  have ha2 : 0 < a * a := mul_pos ha ha
  simp only [Fval, inside, sqr_div]
  have e : 1 - x * x / (a * a) - y * y / (a * a) = (a * a - (x * x + y * y)) / (a * a) := by
    field_simp; ring
  rw [e, le_div_iff₀ ha2]
  constructor <;> intro h <;> linarith

theorem circle_zero_iff (a b x y : Rat) (ha : 0 < a) :
    Fval .circle a b x y = 0 ↔ onBorder .circle a b x y := by
  have ha2 : 0 < a * a := mul_pos ha ha
  simp only [Fval, onBorder, sqr_div]
  have e : 1 - x * x / (a * a) - y * y / (a * a) = (a * a - (x * x + y * y)) / (a * a) := by
    field_simp; ring
  rw [e, div_eq_zero_iff]
  constructor
  · rintro (h | h) <;> linarith
  · intro h; left; linarith

theorem ellipse_iff (a b x y : Rat) :
    0 ≤ Fval .ellipse a b x y ↔ inside .ellipse a b x y := by
  simp only [Fval, inside]
  constructor <;> intro h <;> linarith

theorem ellipse_zero_iff (a b x y : Rat) :
    Fval .ellipse a b x y = 0 ↔ onBorder .ellipse a b x y := by
  simp only [Fval, onBorder]
  constructor <;> intro h <;> linarith

/-- the ellipse membership in polynomial form -/
theorem ellipse_inside_poly (a b x y : Rat) (ha : 0 < a) (hb : 0 < b) :
    inside .ellipse a b x y ↔ b * b * (x * x) + a * a * (y * y) ≤ a * a * (b * b) := by
  have ha2 : 0 < a * a := mul_pos ha ha
  have hb2 : 0 < b * b := mul_pos hb hb
  simp only [inside, sqr_div]
  have e : x * x / (a * a) + y * y / (b * b) = (b * b * (x * x) + a * a * (y * y)) / (a * a * (b * b)) := by
    field_simp
  rw [e, div_le_one (mul_pos ha2 hb2)]

theorem sqr_le_one_iff (x a : Rat) (ha : 0 < a) : 0 ≤ 1 - sqr (x / a) ↔ (-a ≤ x ∧ x ≤ a) := by
  have ha2 : 0 < a * a := mul_pos ha ha
  rw [sqr_div, sub_nonneg, div_le_one ha2]
  constructor
  · intro h
    constructor <;> nlinarith
  · rintro ⟨h1, h2⟩
    nlinarith

theorem rect_iff (a b x y : Rat) (ha : 0 < a) (hb : 0 < b) :
    0 ≤ Fval .rect a b x y ↔ inside .rect a b x y := by
  simp only [Fval, inside, le_min_iff, sqr_le_one_iff x a ha, sqr_le_one_iff y b hb]

theorem sqr_eq_one_iff (x a : Rat) (ha : 0 < a) : 1 - sqr (x / a) = 0 ↔ (x = a ∨ x = -a) := by
  have ha2 : 0 < a * a := mul_pos ha ha
  rw [sqr_div, sub_eq_zero, eq_comm, div_eq_one_iff_eq (ne_of_gt ha2)]
  constructor
  · intro h
    have : (x - a) * (x + a) = 0 := by ring_nf; linarith
    rcases mul_eq_zero.1 this with h1 | h1
    · left; linarith
    · right; linarith
  · rintro (h | h) <;> subst h <;> ring

theorem min_eq_zero_iff (p q : Rat) : min p q = 0 ↔ (0 ≤ p ∧ 0 ≤ q) ∧ (p = 0 ∨ q = 0) := by
  rcases le_total p q with h | h
  · rw [min_eq_left h]
    constructor
    · intro hp; subst hp; exact ⟨⟨le_refl _, h⟩, Or.inl rfl⟩
    · rintro ⟨⟨h1, h2⟩, h3 | h3⟩
      · exact h3
      · linarith
  · rw [min_eq_right h]
    constructor
    · intro hq; subst hq; exact ⟨⟨h, le_refl _⟩, Or.inr rfl⟩
    · rintro ⟨⟨h1, h2⟩, h3 | h3⟩
      · linarith
      · exact h3

theorem rect_zero_iff (a b x y : Rat) (ha : 0 < a) (hb : 0 < b) :
    Fval .rect a b x y = 0 ↔ onBorder .rect a b x y := by
  simp only [Fval, onBorder, min_eq_zero_iff, sqr_le_one_iff x a ha, sqr_le_one_iff y b hb,
    sqr_eq_one_iff x a ha, sqr_eq_one_iff y b hb, or_assoc]

theorem Fval_neg_x (s : Shape) (a b x y : Rat) : Fval s a b (-x) y = Fval s a b x y := by
  cases s <;> simp [Fval, sqr, neg_div]

theorem Fval_neg_y (s : Shape) (a b x y : Rat) : Fval s a b x (-y) = Fval s a b x y := by
  cases s <;> simp [Fval, sqr, neg_div]

theorem circle_rot (a b x y c s : Rat) (h : c * c + s * s = 1) :
    Fval .circle a b (c * x + s * y) (-(s * x) + c * y) = Fval .circle a b x y := by
  simp only [Fval, sqr_div]
  have e : (c * x + s * y) * (c * x + s * y) + (-(s * x) + c * y) * (-(s * x) + c * y)
      = (c * c + s * s) * (x * x + y * y) := by ring
  have e2 : ∀ p q : Rat, 1 - p / (a * a) - q / (a * a) = 1 - (p + q) / (a * a) := by
    intro p q; rw [add_div]; ring
  rw [e2, e2, e, h, one_mul]

theorem F_ok (s : Shape) (a b x y : Rat) (ha : 0 < a) (hb : 0 < b) : F s a b x y = .ok (Fval s a b x y) := by
  have h1 : (a == 0) = false := by simpa using ne_of_gt ha
  have h2 : (b == 0) = false := by simpa using ne_of_gt hb
  cases s <;> simp [F, degenerate, h1, h2]

theorem codeFrame_eq (c s n e : Rat) :
    codeFrame c s n e = (-(toFrame c s n e).1, (toFrame c s n e).2) := by
  simp only [codeFrame, toFrame, Prod.mk.injEq]; exact ⟨by ring, trivial⟩

theorem FvalCode_eq_FvalLocal (sh : Shape) (a b c s n e : Rat) :
    FvalCode sh a b c s n e = FvalLocal sh a b c s n e := by
  simp only [FvalCode, FvalLocal, codeFrame_eq, Fval_neg_x]

/-- `toFrame` is inverted by the rotation back -/
theorem toFrame_inv (c s n e : Rat) (h : c * c + s * s = 1) :
    n = (toFrame c s n e).1 * c - (toFrame c s n e).2 * s ∧ e = (toFrame c s n e).1 * s + (toFrame c s n e).2 * c := by
  simp only [toFrame]
  constructor
  · have : (n * c + e * s) * c - (-n * s + e * c) * s = n * (c * c + s * s) := by ring
    rw [this, h, mul_one]
  · have : (n * c + e * s) * s + (-n * s + e * c) * c = e * (c * c + s * s) := by ring
    rw [this, h, mul_one]

theorem toFrame_of_image (c s u v : Rat) (h : c * c + s * s = 1) :
    toFrame c s (u * c - v * s) (u * s + v * c) = (u, v) := by
  simp only [toFrame]
  have h1 : (u * c - v * s) * c + (u * s + v * c) * s = u * (c * c + s * s) := by ring
  have h2 : -(u * c - v * s) * s + (u * s + v * c) * c = v * (c * c + s * s) := by ring
  rw [h1, h2, h, mul_one, mul_one]

theorem insideRotated_iff (sh : Shape) (a b c s n e : Rat) (h : c * c + s * s = 1) :
    insideRotated sh a b c s n e ↔ inside sh a b (toFrame c s n e).1 (toFrame c s n e).2 := by
  constructor
  · rintro ⟨u, v, hn, he, hin⟩
    subst hn; subst he
    rw [toFrame_of_image c s u v h]; exact hin
  · intro hin
    obtain ⟨h1, h2⟩ := toFrame_inv c s n e h
    exact ⟨_, _, h1, h2, hin⟩

theorem onBorderRotated_iff (sh : Shape) (a b c s n e : Rat) (h : c * c + s * s = 1) :
    onBorderRotated sh a b c s n e ↔ onBorder sh a b (toFrame c s n e).1 (toFrame c s n e).2 := by
  constructor
  · rintro ⟨u, v, hn, he, hin⟩
    subst hn; subst he
    rw [toFrame_of_image c s u v h]; exact hin
  · intro hin
    obtain ⟨h1, h2⟩ := toFrame_inv c s n e h
    exact ⟨_, _, h1, h2, hin⟩

/-- the rotation preserves the distance from the centre -/
theorem toFrame_norm (c s n e : Rat) (h : c * c + s * s = 1) :
    (toFrame c s n e).1 * (toFrame c s n e).1 + (toFrame c s n e).2 * (toFrame c s n e).2 = n * n + e * e := by
  simp only [toFrame]
  have : (n * c + e * s) * (n * c + e * s) + (-n * s + e * c) * (-n * s + e * c) = (c * c + s * s) * (n * n + e * e) := by ring
  rw [this, h, one_mul]

theorem FvalLocal_circle (a b c s n e : Rat) (h : c * c + s * s = 1) :
    FvalLocal .circle a b c s n e = Fval .circle a b n e := by
  have := circle_rot a b n e c s h
  simp only [FvalLocal, toFrame]
  rw [← this]; congr 1 <;> ring

theorem FvalLocal_half_turn (sh : Shape) (a b c s n e : Rat) :
    FvalLocal sh a b (-c) (-s) n e = FvalLocal sh a b c s n e := by
  have e1 : (toFrame (-c) (-s) n e).1 = -(toFrame c s n e).1 := by simp only [toFrame]; ring
  have e2 : (toFrame (-c) (-s) n e).2 = -(toFrame c s n e).2 := by simp only [toFrame]; ring
  simp only [FvalLocal, e1, e2, Fval_neg_x, Fval_neg_y]

theorem FvalLocal_quarter_turn_swap (sh : Shape) (hs : sh ≠ .circle) (a b c s n e : Rat) :
    FvalLocal sh b a (-s) c n e = FvalLocal sh a b c s n e := by
  have e1 : (toFrame (-s) c n e).1 = (toFrame c s n e).2 := by simp only [toFrame]; ring
  have e2 : (toFrame (-s) c n e).2 = -(toFrame c s n e).1 := by simp only [toFrame]; ring
  simp only [FvalLocal, e1, e2]
  cases sh
  · exact absurd rfl hs
  · simp only [Fval, sqr, neg_div, neg_mul_neg]; exact min_comm _ _
  · simp only [Fval, sqr, neg_div, neg_mul_neg]; ring

theorem toFrame_north (n e : Rat) : toFrame 1 0 n e = (n, e) := by
  simp [toFrame]

theorem toFrameQuarter_eq (q : Nat) (n e : Rat) :
    toFrameQuarter q n e = toFrame (quarterCS q).1 (quarterCS q).2 n e := by
  simp only [toFrameQuarter, quarterCS]
  split <;> simp [toFrame]

theorem quarterCS_unit (q : Nat) : (quarterCS q).1 * (quarterCS q).1 + (quarterCS q).2 * (quarterCS q).2 = 1 := by
  simp only [quarterCS]; split <;> norm_num


/-! ## receive decisions in closed form -/

theorem recvGBC_deliver_iff (i : RxIn) : Action.deliver ∈ recvGBC i ↔ 0 ≤ i.fEgo := by
  unfold recvGBC
  by_cases h : 0 ≤ i.fEgo
  · simp [h]
  · simp only [h, if_false, List.nil_append, iff_false]
    split
    · simp
    · split <;> simp

theorem recvGAC_deliver_iff (i : RxIn) : Action.deliver ∈ recvGAC i ↔ 0 ≤ i.fEgo := by
  unfold recvGAC
  by_cases h : 0 ≤ i.fEgo
  · simp [h]
  · simp only [h, if_false, iff_false]
    repeat' split
    all_goals simp

theorem annexD_eq_table (fEgo : Rat) (se : Option (Bool × Rat)) :
    annexD fEgo se = annexDTable (decide (0 ≤ fEgo)) (sePai se) (seIn se) := by
  rcases se with _ | ⟨pai, f⟩
  · by_cases h1 : 0 ≤ fEgo <;> simp [annexD, annexDTable, sePai, seIn, h1]
  · by_cases h1 : 0 ≤ fEgo <;> by_cases h2 : 0 ≤ f <;> cases pai <;> simp [annexD, annexDTable, sePai, seIn, h1, h2]

theorem recvGBC_eq (i : RxIn) (ho : i.oversize = false) (hp : i.pdrExceeded = false) (hr : 1 < i.rhl) :
    recvGBC i = (if 0 ≤ i.fEgo then [Action.deliver] else []) ++ fwdActs (annexD i.fEgo i.se) := by
  have : ¬ i.rhl ≤ 1 := by omega
  simp only [recvGBC, ho, hp, this, Bool.or_self, decide_false, Bool.false_eq_true, if_false]
  cases annexD i.fEgo i.se <;> rfl

theorem recvGAC_eq (i : RxIn) (ho : i.oversize = false) (hp : i.pdrExceeded = false) (hr : 1 < i.rhl) :
    recvGAC i = if 0 ≤ i.fEgo then [Action.deliver] else fwdActs (annexD i.fEgo i.se) := by
  have hr' : ¬ i.rhl ≤ 1 := by omega
  by_cases h : 0 ≤ i.fEgo
  · simp [recvGAC, h]
  · simp only [recvGAC, h, if_false, ho, hp, Bool.or_self, Bool.false_eq_true, hr', annexD]
    rcases i.se with _ | ⟨pai, f⟩
    · rfl
    · cases pai <;> by_cases h2 : 0 ≤ f <;> simp [h2, fwdActs]

/-- closed forms without side conditions -/
theorem recvGBC_form (i : RxIn) :
    recvGBC i = (if 0 ≤ i.fEgo then [Action.deliver] else []) ++
      (if i.oversize || i.pdrExceeded || decide (i.rhl ≤ 1) then [] else fwdActs (annexD i.fEgo i.se)) := by
  simp only [recvGBC]
  cases annexD i.fEgo i.se <;> rfl

theorem recvGAC_form (i : RxIn) :
    recvGAC i = if 0 ≤ i.fEgo then [Action.deliver]
      else if i.oversize || i.pdrExceeded then [] else if i.rhl ≤ 1 then [] else fwdActs (annexD i.fEgo i.se) := by
  by_cases h : 0 ≤ i.fEgo
  · simp [recvGAC, h]
  · simp only [recvGAC, h, if_false, annexD]
    rcases i.se with _ | ⟨pai, f⟩
    · by_cases h1 : (i.oversize || i.pdrExceeded) = true <;> by_cases h2 : i.rhl ≤ 1 <;> simp [h1, h2, fwdActs]
    · cases pai <;> by_cases h3 : 0 ≤ f <;> by_cases h1 : (i.oversize || i.pdrExceeded) = true <;>
        by_cases h2 : i.rhl ≤ 1 <;> simp [h1, h2, h3, fwdActs]

/-- only the conjunction SE_POS_VALID ∧ F(sender) ≥ 0 of the sender PV matters to Annex D -/
theorem annexD_congr (fEgo : Rat) (se se' : Option (Bool × Rat))
    (h : (sePai se && seIn se) = (sePai se' && seIn se')) : annexD fEgo se = annexD fEgo se' := by
  rw [annexD_eq_table, annexD_eq_table]
  by_cases h1 : 0 ≤ fEgo
  · simp [annexDTable, h1]
  · have hd : decide (0 ≤ fEgo) = false := by simp [h1]
    rw [hd]
    revert h
    cases sePai se <;> cases seIn se <;> cases sePai se' <;> cases seIn se' <;> simp [annexDTable]

theorem flatGlue_unit : flatGlue.UnitCS := fun az => quarterCS_unit (az / 90)

end FlexModel.Geo.Area

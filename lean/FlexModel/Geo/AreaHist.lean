/-
C07, round 5 — two pieces of STATE the geo-area decisions of geonet/router.py read, as functions of the HISTORY that
produced them (the sequential model `Area.lean` takes both as given):

1. The sender's position vector in the location table.  `LocationTableEntry.update_position_vector` (annex C.2) keeps
   the stored vector unless the received one is strictly newer: after receptions out of order the table holds the
   vector with the NEWEST timestamp, not the one of the packet being handled.  Annex D's PV_SE is the table's vector
   (`gn_forwarding_algorithm_selection`: `se_entry.position_vector`, `gn_data_indicate_gac`: `so_entry.position_vector`);
   seeded change C07-m8 took it from the header of the packet instead (`stationHeader`).

2. The ego position.  `Router.refresh_ego_position_vector` (callback of the location service) feeds every TPV report
   of the GNSS daemon to `LongPositionVector.refresh_with_tpv_data`.  gpsd leaves out the attributes it has no value
   for: a report without position fix (mode 0/1) has no `lat`/`lon`; a report with a fix may lack `speed`/`track`.
   `egoRefresh` is the position part of that function: a report without `lat` or `lon` keeps the position (in the
   code: returns the vector unchanged; before fix C07-F4: KeyError, same state).  `needMotion = true` is the code
   before fix C07-F4, which also rejected a report WITH a position when `speed` or `track` was missing;
   `egoRefreshZero` is seeded change C07-m9 (missing attributes read as 0.0: a report without fix moves the station to
   0 N 0 E).

Core Lean only.
-/
import FlexModel.Geo.Area
import FlexModel.Geo.TST
namespace FlexModel.Geo.Area

/-! ## 1. the location table's vector of one station after a history of receptions -/

/-- a received long position vector as far as annex C.2 and Annex D are concerned; `tst` = its timestamp in ms, not
reduced modulo 2^32 (the comparison of the code is the wrap-around comparison `TST.__gt__`, which agrees with `<` on
histories shorter than 2^31 ms: `tst_gt_window`) -/
structure StPV where
  tst : Nat
  pos : Pos
  pai : Bool
  deriving DecidableEq, Repr

/-- `LocationTableEntry.update_position_vector`: first vector accepted, afterwards only a strictly newer one -/
def locStore (cur : Option StPV) (p : StPV) : Option StPV :=
  match cur with
  | none => some p
  | some c => if c.tst < p.tst then some p else some c

/-- the vector the entry holds after the receptions `h` (oldest reception first) -/
def locAfter (h : List StPV) : Option StPV := h.foldl locStore none

def StPV.toLocTE (p : StPV) : LocTE := ⟨p.pos, p.pai⟩

/-- the code's comparison on reduced timestamps is `<` within a window of 2^31 ms -/
theorem tst_gt_window (a b : Nat) (h1 : a < b + HALF) (h2 : b < a + HALF) :
    TST.gt (a % W) (b % W) = decide (b < a) := by
  unfold TST.gt W HALF at *
  by_cases h : b < a <;> simp [h] <;> omega

theorem locAfter_append (h : List StPV) (p : StPV) : locAfter (h ++ [p]) = locStore (locAfter h) p := by
  simp [locAfter, List.foldl_append]

theorem foldl_locStore_spec (h : List StPV) : ∀ (acc : Option StPV) (c : StPV), h.foldl locStore acc = some c →
    (acc = some c ∨ c ∈ h) ∧ (∀ a, acc = some a → a.tst ≤ c.tst) ∧ (∀ q ∈ h, q.tst ≤ c.tst) := by
  induction h with
  | nil => intro acc c hc; simp at hc; subst hc; simp
  | cons p t ih =>
    intro acc c hc
    simp only [List.foldl_cons] at hc
    obtain ⟨h1, h2, h3⟩ := ih _ c hc
    cases acc with
    | none =>
      simp only [locStore] at h1 h2
      refine ⟨Or.inr ?_, by simp, ?_⟩
      · rcases h1 with h1 | h1
        · simp at h1; simp [h1]
        · simp [h1]
      · intro q hq
        rcases List.mem_cons.1 hq with rfl | hq
        · exact h2 _ rfl
        · exact h3 q hq
    | some a0 =>
      simp only [locStore] at h1 h2
      by_cases hlt : a0.tst < p.tst
      · simp only [hlt, if_true] at h1 h2
        have hp : p.tst ≤ c.tst := h2 _ rfl
        refine ⟨Or.inr ?_, ?_, ?_⟩
        · rcases h1 with h1 | h1
          · simp at h1; simp [h1]
          · simp [h1]
        · intro a ha; simp at ha; subst ha; omega
        · intro q hq
          rcases List.mem_cons.1 hq with rfl | hq
          · exact hp
          · exact h3 q hq
      · simp only [hlt, if_false] at h1 h2
        have ha0 : a0.tst ≤ c.tst := h2 _ rfl
        refine ⟨?_, ?_, ?_⟩
        · rcases h1 with h1 | h1
          · exact Or.inl h1
          · exact Or.inr (by simp [h1])
        · intro a ha; simp at ha; subst ha; exact ha0
        · intro q hq
          rcases List.mem_cons.1 hq with rfl | hq
          · omega
          · exact h3 q hq

/-- the stored vector is one of the received ones and none of them is newer -/
theorem locAfter_mem_max (h : List StPV) (c : StPV) (hc : locAfter h = some c) :
    c ∈ h ∧ ∀ q ∈ h, q.tst ≤ c.tst := by
  obtain ⟨h1, _, h3⟩ := foldl_locStore_spec h none c hc
  rcases h1 with h1 | h1
  · simp at h1
  · exact ⟨h1, h3⟩

theorem foldl_locStore_some (h : List StPV) : ∀ a : StPV, ∃ c, h.foldl locStore (some a) = some c := by
  induction h with
  | nil => intro a; exact ⟨a, rfl⟩
  | cons p t ih =>
    intro a
    simp only [List.foldl_cons, locStore]
    by_cases hlt : a.tst < p.tst
    · simp only [hlt, if_true]; exact ih p
    · simp only [hlt, if_false]; exact ih a

/-- after at least one reception the entry holds a vector -/
theorem locAfter_some (p : StPV) (t : List StPV) : ∃ c, locAfter (p :: t) = some c := by
  simp only [locAfter, List.foldl_cons, locStore]; exact foldl_locStore_some t p

theorem locAfter_some_of_mem (h : List StPV) (q : StPV) (hq : q ∈ h) : ∃ c, locAfter h = some c := by
  cases h with
  | nil => simp at hq
  | cons p t => exact locAfter_some p t

/-- **the packet's own vector is the table's vector exactly when it is strictly the newest** (in-order reception) … -/
theorem locAfter_packet_newest (h : List StPV) (p : StPV) (hn : ∀ q ∈ h, q.tst < p.tst) :
    locAfter (h ++ [p]) = some p := by
  rw [locAfter_append]
  cases hc : locAfter h with
  | none => rfl
  | some c =>
    have := hn c (locAfter_mem_max h c hc).1
    simp [locStore, this]

/-- … and **a packet that is not strictly newer than everything received before leaves the table alone** (delayed
multi-hop packet after a newer beacon / SHB / packet of the same station) -/
theorem locAfter_packet_late (h : List StPV) (p q : StPV) (hq : q ∈ h) (hl : p.tst ≤ q.tst) :
    locAfter (h ++ [p]) = locAfter h := by
  rw [locAfter_append]
  obtain ⟨c, hc⟩ := locAfter_some_of_mem h q hq
  have := (locAfter_mem_max h c hc).2 q hq
  rw [hc]
  have hlt : ¬ c.tst < p.tst := by omega
  simp [locStore, hlt]

/-- the receiving station as far as source `so` is concerned: its location table knows `so` through the receptions `h` -/
def stationAfter (ego : Pos) (maxKm2 : Nat) (so : Nat) (h : List StPV) : Station :=
  { ego := ego, maxKm2 := maxKm2, pdrExceeded := fun _ => false,
    locT := fun a => if a = so then (locAfter h).map StPV.toLocTE else none }

/-- seeded change C07-m8: Annex D's sender vector is the SO PV of the packet's header, whatever the table holds -/
def stationHeader (ego : Pos) (maxKm2 : Nat) (so : Nat) (hp : StPV) : Station :=
  { ego := ego, maxKm2 := maxKm2, pdrExceeded := fun _ => false,
    locT := fun a => if a = so then some hp.toLocTE else none }

/-- the station at the Annex D step of the reception of a packet with header vector `hp`, after the earlier receptions
`h` from the same source — as a function of where the source text takes PV_SE from -/
def stationAt (fromTable : Bool) (ego : Pos) (maxKm2 : Nat) (so : Nat) (h : List StPV) (hp : StPV) : Station :=
  if fromTable then stationAfter ego maxKm2 so (h ++ [hp]) else stationHeader ego maxKm2 so hp

/-! ## 2. the ego position after a history of TPV reports -/

/-- a TPV report of the GNSS daemon as far as `refresh_with_tpv_data` reads it: `lat`/`lon` in 1/10 µdeg when present,
presence of `speed` and `track` -/
structure Tpv where
  lat : Option Int
  lon : Option Int
  speed : Bool
  track : Bool
  deriving DecidableEq, Repr

/-- the position fix a report carries: both coordinates present -/
def Tpv.fix (r : Tpv) : Option Pos :=
  match r.lat, r.lon with
  | some la, some lo => some ⟨la, lo⟩
  | _, _ => none

/-- `Router.refresh_ego_position_vector`, position part.  `needMotion` = code before fix C07-F4 (KeyError on a missing
`speed` / `track` although the report carries a position) -/
def egoRefresh (needMotion : Bool) (ego : Pos) (r : Tpv) : Pos :=
  match r.fix with
  | some p => if needMotion && !(r.speed && r.track) then ego else p
  | none => ego

/-- the ego position after the reports `h` (oldest first), starting from `ego0` -/
def egoAfter (needMotion : Bool) (ego0 : Pos) (h : List Tpv) : Pos := h.foldl (egoRefresh needMotion) ego0

/-- seeded change C07-m9: `tpv_data.get("lat", 0.0)` … — a missing attribute reads as 0 -/
def egoRefreshZero (_ego : Pos) (r : Tpv) : Pos := ⟨r.lat.getD 0, r.lon.getD 0⟩

theorem foldl_egoRefresh_nofix (nm : Bool) (suf : List Tpv) (hs : ∀ q ∈ suf, q.fix = none) :
    ∀ x, suf.foldl (egoRefresh nm) x = x := by
  induction suf with
  | nil => intro x; rfl
  | cons r t ih =>
    intro x
    have hr : r.fix = none := hs r (by simp)
    simp only [List.foldl_cons, egoRefresh, hr]
    exact ih (fun q hq => hs q (by simp [hq])) x

/-- **the ego position is the position of the LAST report that carries a fix**, whatever came before it and however
many reports without fix came after it -/
theorem egoAfter_last_fix (ego0 : Pos) (pre suf : List Tpv) (r : Tpv) (p : Pos) (hr : r.fix = some p)
    (hs : ∀ q ∈ suf, q.fix = none) : egoAfter false ego0 (pre ++ r :: suf) = p := by
  simp only [egoAfter, List.foldl_append, List.foldl_cons]
  rw [foldl_egoRefresh_nofix false suf hs]
  simp [egoRefresh, hr]

/-- no report with a fix at all: the position stays what it was -/
theorem egoAfter_no_fix (nm : Bool) (ego0 : Pos) (h : List Tpv) (hs : ∀ q ∈ h, q.fix = none) :
    egoAfter nm ego0 h = ego0 := foldl_egoRefresh_nofix nm h hs ego0

/-- the code before fix C07-F4 agrees on histories in which every report with a position also has speed and track -/
theorem egoAfter_needMotion_partial (ego0 : Pos) (h : List Tpv)
    (hm : ∀ q ∈ h, q.fix ≠ none → (q.speed && q.track) = true) : egoAfter true ego0 h = egoAfter false ego0 h := by
  unfold egoAfter
  induction h generalizing ego0 with
  | nil => rfl
  | cons r t ih =>
    simp only [List.foldl_cons]
    have e : egoRefresh true ego0 r = egoRefresh false ego0 r := by
      unfold egoRefresh
      cases hf : r.fix with
      | none => rfl
      | some p =>
        have := hm r (by simp) (by simp [hf])
        simp [this]
    rw [e]
    exact ih _ (fun q hq => hm q (by simp [hq]))

end FlexModel.Geo.Area

import FlexModel.Proto
import FlexModel.Geo.Area
import FlexModel.Geo.AreaHist
namespace FlexModel.Geo.Area
open FlexModel.Proto

/-- "n", "-n" or "n/d" -/
def rat? (s : String) : Option Rat :=
  match s.splitOn "/" with
  | [n] => (int? n).map (fun (i : Int) => (i : Rat))
  | [n, d] =>
    match int? n, nat? d with
    | some n, some d => if d = 0 then none else some (mkRat n d)
    | _, _ => none
  | _ => none

def shape? : String → Option Shape
  | "circle" => some .circle | "rect" => some .rect | "ellipse" => some .ellipse | _ => none

def bool? : String → Option Bool
  | "0" => some false | "1" => some true | _ => none

def sgn (r : Rat) : String := if r < 0 then "-" else if r = 0 then "0" else "+"

def fwdStr : Fwd → String
  | .areaForwarding => "AREA" | .nonAreaForwarding => "NONAREA" | .discard => "DISCARD"

def actStr : Action → String
  | .deliver => "deliver" | .forwardArea => "fwd-area" | .forwardNonArea => "fwd-nonarea"

def b01 (b : Bool) : String := if b then "1" else "0"

/-- sender PV token: "none" or "<pai 0/1>:<F(sender) rational>" -/
def se? (s : String) : Option (Option (Bool × Rat)) :=
  if s = "none" then some none else
  match s.splitOn ":" with
  | [p, f] => match bool? p, rat? f with
    | some p, some f => some (some (p, f))
    | _, _ => none
  | _ => none

def rxIn? (f r o p s : String) : Option RxIn :=
  match rat? f, nat? r, bool? o, bool? p, se? s with
  | some f, some r, some o, some p, some s => some ⟨f, r, o, p, s⟩
  | _, _, _, _, _ => none

/-- whole-packet decision with the Annex D key: "gbc2|gac2 source|sender F(ego) rhl oversize pdr se(source) se(sender)" -/
def pkt2 (gbc : Bool) (key f r o p sSrc sSnd : String) : String :=
  match (if key = "source" then some SeKey.source else if key = "sender" then some SeKey.sender else none),
        se? sSrc, se? sSnd with
  | some k, some sSrc, some sSnd =>
    let se := match k with | .source => sSrc | .sender => sSnd
    match rat? f, nat? r, bool? o, bool? p with
    | some f, some r, some o, some p =>
      let i : RxIn := ⟨f, r, o, p, se⟩
      "[" ++ " ".intercalate ((if gbc then recvGBC i else recvGAC i).map actStr) ++ "]"
    | _, _, _, _ => "bad-op"
  | _, _, _ => "bad-op"

/-- whole-packet decision in a state of the forwarder: "gbc3|gac3 bc source|sender F(ego) rhl oversize pdr se(source) se(sender)",
    bc = no neighbour in the location table and SCF traffic class -/
def pkt3 (gbc : Bool) (bc key f r o p sSrc sSnd : String) : String :=
  match bool? bc, (if key = "source" then some SeKey.source else if key = "sender" then some SeKey.sender else none),
        se? sSrc, se? sSnd with
  | some bc, some k, some sSrc, some sSnd =>
    let se := match k with | .source => sSrc | .sender => sSnd
    match rat? f, nat? r, bool? o, bool? p with
    | some f, some r, some o, some p =>
      let i : RxIn := ⟨f, r, o, p, se⟩
      "[" ++ " ".intercalate ((if gbc then recvGBCst bc i else recvGACst bc i).map actStr) ++ "]"
    | _, _, _, _ => "bad-op"
  | _, _, _, _ => "bad-op"

/-- "-" (attribute absent) or an integer -/
def optInt? (s : String) : Option (Option Int) := if s = "-" then some none else (int? s).map some

/-- TPV report token "lat,lon,speed,track": lat / lon = integer (1/10 µdeg) or "-", speed / track = 1 (present) / 0 -/
def tpv? (s : String) : Option Tpv :=
  match s.splitOn "," with
  | [la, lo, sp, tr] =>
    match optInt? la, optInt? lo, bool? sp, bool? tr with
    | some la, some lo, some sp, some tr => some ⟨la, lo, sp, tr⟩
    | _, _, _, _ => none
  | _ => none

/-- "tst pai north east" groups of a `hist` line -/
def groups4 : List String → Option (List (String × String × String × String))
  | [] => some []
  | t :: p :: n :: e :: rest => (groups4 rest).map (fun l => (t, p, n, e) :: l)
  | _ => none

/-- one received vector of a `hist` line: timestamp, PAI, local offsets from the area centre -/
def histPv? (i : Nat) (g : String × String × String × String) : Option (StPV × Rat × Rat) :=
  match nat? g.1, bool? g.2.1, rat? g.2.2.1, rat? g.2.2.2 with
  | some t, some p, some n, some e => some (⟨t, ⟨Int.ofNat i, 0⟩, p⟩, n, e)
  | _, _, _, _ => none

/-- reception of a GBC / GAC packet after earlier receptions from its source (round 5): the location table keeps the
newest vector (`locAfter`), Annex D is evaluated on it.
"hist gbc|gac <rhl> <shape> <a> <b> <c> <s> <ego north> <ego east> (<tst> <pai> <north> <east>)+" (last group = the
packet's own header vector) -> "<c²+s²=1?> <index of the table's vector> [actions]" -/
def histLine (gbc : Bool) (rhl sh a b c sn en ee : String) (rest : List String) : String :=
  match nat? rhl, shape? sh, rat? a, rat? b, rat? c, rat? sn, rat? en, rat? ee, groups4 rest with
  | some rhl, some sh, some a, some b, some c, some sn, some en, some ee, some gs =>
    match (List.range gs.length).zipWith histPv? gs |>.mapM id with
    | some pvs =>
      match locAfter (pvs.map (·.1)) with
      | some st =>
        match pvs[st.pos.lat.toNat]? with
        | some (_, n, e) =>
          if degenerate sh a b then "ZeroDivisionError" else
          let i : RxIn := ⟨FvalCode sh a b c sn en ee, rhl, false, false, some (st.pai, FvalCode sh a b c sn n e)⟩
          s!"{b01 (decide (c * c + sn * sn = 1))} {st.pos.lat} [" ++
            " ".intercalate ((if gbc then recvGBC i else recvGAC i).map actStr) ++ "]"
        | none => "bad-op"
      | none => "bad-op"
    | none => "bad-op"
  | _, _, _, _, _, _, _, _, _ => "bad-op"

def areaStep (_ : Unit) (t : List String) : Unit × String :=
  match t with
  | "hist" :: "gbc" :: rhl :: sh :: a :: b :: c :: sn :: en :: ee :: rest => ((), histLine true rhl sh a b c sn en ee rest)
  | "hist" :: "gac" :: rhl :: sh :: a :: b :: c :: sn :: en :: ee :: rest => ((), histLine false rhl sh a b c sn en ee rest)
  | "ego" :: nm :: la :: lo :: rs =>
    -- ego position after a history of TPV reports: "ego <speed/track required 0|1> <lat0> <lon0> <report>*" -> "<lat> <lon>"
    match bool? nm, int? la, int? lo, rs.mapM tpv? with
    | some nm, some la, some lo, some rs =>
      let p := egoAfter nm ⟨la, lo⟩ rs
      ((), s!"{p.lat} {p.lon}")
    | _, _, _, _ => ((), "bad-op")
  | ["F", s, a, b, x, y] =>
    match shape? s, rat? a, rat? b, rat? x, rat? y with
    | some s, some a, some b, some x, some y =>
      match F s a b x y with
      | .error _ => ((), "ZeroDivisionError")
      | .ok v => ((), s!"{sgn v} {b01 (decide (inside s a b x y))} {b01 (decide (onBorder s a b x y))}")
    | _, _, _, _, _ => ((), "bad-op")
  | ["Floc", s, a, b, c, sn, n, e] =>
    -- F of a point given in the local (north, east) frame for the azimuth unit vector (c, sn):
    -- "<c²+s²=1?> <sign of FvalCode> <inside rotated shape> <on its border> <sign of the unrotated (pre-F1) evaluation>"
    match shape? s, rat? a, rat? b, rat? c, rat? sn, rat? n, rat? e with
    | some s, some a, some b, some c, some sn, some n, some e =>
      if degenerate s a b then ((), "ZeroDivisionError") else
      let p := toFrame c sn n e
      ((), s!"{b01 (decide (c * c + sn * sn = 1))} {sgn (FvalCode s a b c sn n e)} {b01 (decide (inside s a b p.1 p.2))} {b01 (decide (onBorder s a b p.1 p.2))} {sgn (FvalUnrotated s a b n e)}")
    | _, _, _, _, _, _, _ => ((), "bad-op")
  | ["frame", c, sn, n, e] =>
    -- the code's frame coordinates of the local offsets (n, e) for the unit vector (c, sn): "<c²+s²=1?> <x> <y>" (exact rationals)
    match rat? c, rat? sn, rat? n, rat? e with
    | some c, some sn, some n, some e =>
      let p := codeFrame c sn n e
      ((), s!"{b01 (decide (c * c + sn * sn = 1))} {p.1.num}/{p.1.den} {p.2.num}/{p.2.den}")
    | _, _, _, _ => ((), "bad-op")
  | ["gbc3", bc, key, f, r, o, p, sSrc, sSnd] => ((), pkt3 true bc key f r o p sSrc sSnd)
  | ["gac3", bc, key, f, r, o, p, sSrc, sSnd] => ((), pkt3 false bc key f r o p sSrc sSnd)
  | ["gbc2", key, f, r, o, p, sSrc, sSnd] => ((), pkt2 true key f r o p sSrc sSnd)
  | ["gac2", key, f, r, o, p, sSrc, sSnd] => ((), pkt2 false key f r o p sSrc sSnd)
  | ["size", s, a, b, m] =>
    match shape? s, rat? a, rat? b, nat? m with
    | some s, some a, some b, some m => ((), b01 (oversize s a b m))
    | _, _, _, _ => ((), "bad-op")
  | ["annexd", f, s] =>
    match rat? f, se? s with
    | some f, some s => ((), fwdStr (annexD f s))
    | _, _ => ((), "bad-op")
  | ["src", s, a, b, m, f, bc, g] =>
    match shape? s, rat? a, rat? b, nat? m, rat? f, bool? bc, bool? g with
    | some s, some a, some b, some m, some f, some bc, some g =>
      let o := srcRequest s a b m f bc g
      ((), s!"{match o.confirm with | .accepted => "ACCEPTED" | .geographicalScopeTooLarge => "GEOGRAPHICAL_SCOPE_TOO_LARGE"} {o.sent}")
    | _, _, _, _, _, _, _ => ((), "bad-op")
  | ["gbc", f, r, o, p, s] =>
    match rxIn? f r o p s with
    | some i => ((), "[" ++ " ".intercalate ((recvGBC i).map actStr) ++ "]")
    | none => ((), "bad-op")
  | ["gac", f, r, o, p, s] =>
    match rxIn? f r o p s with
    | some i => ((), "[" ++ " ".intercalate ((recvGAC i).map actStr) ++ "]")
    | none => ((), "bad-op")
  | _ => ((), "bad-op")

def areaDomain : Domain := { σ := Unit, init := (), step := areaStep }

end FlexModel.Geo.Area

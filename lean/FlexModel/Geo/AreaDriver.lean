import FlexModel.Proto
import FlexModel.Geo.Area
namespace FlexModel.Geo.Area
open FlexModel.Proto

/-- "n", "-n" or "n/d" -/
def rat? (s : String) : Option Rat :=
  match s.splitOn "/" with
  | [n] => (int? n).map (fun (i : Int) => (i : Rat))
  | [n, d] =>
    match int? n, nat? d with
    | some n, some d => if d = 0 then none else some (mkRat n d)
    | _, _ => none
  | _ => none

def shape? : String → Option Shape
  | "circle" => some .circle | "rect" => some .rect | "ellipse" => some .ellipse | _ => none

def bool? : String → Option Bool
  | "0" => some false | "1" => some true | _ => none

def sgn (r : Rat) : String := if r < 0 then "-" else if r = 0 then "0" else "+"

def fwdStr : Fwd → String
  | .areaForwarding => "AREA" | .nonAreaForwarding => "NONAREA" | .discard => "DISCARD"

def actStr : Action → String
  | .deliver => "deliver" | .forwardArea => "fwd-area" | .forwardNonArea => "fwd-nonarea"

def b01 (b : Bool) : String := if b then "1" else "0"

/-- sender PV token: "none" or "<pai 0/1>:<F(sender) rational>" -/
def se? (s : String) : Option (Option (Bool × Rat)) :=
  if s = "none" then some none else
  match s.splitOn ":" with
  | [p, f] => match bool? p, rat? f with
    | some p, some f => some (some (p, f))
    | _, _ => none
  | _ => none

def rxIn? (f r o p s : String) : Option RxIn :=
  match rat? f, nat? r, bool? o, bool? p, se? s with
  | some f, some r, some o, some p, some s => some ⟨f, r, o, p, s⟩
  | _, _, _, _, _ => none

/-- whole-packet decision with the Annex D key: "gbc2|gac2 source|sender F(ego) rhl oversize pdr se(source) se(sender)" -/
def pkt2 (gbc : Bool) (key f r o p sSrc sSnd : String) : String :=
  match (if key = "source" then some SeKey.source else if key = "sender" then some SeKey.sender else none),
        se? sSrc, se? sSnd with
  | some k, some sSrc, some sSnd =>
    let se := match k with | .source => sSrc | .sender => sSnd
    match rat? f, nat? r, bool? o, bool? p with
    | some f, some r, some o, some p =>
      let i : RxIn := ⟨f, r, o, p, se⟩
      "[" ++ " ".intercalate ((if gbc then recvGBC i else recvGAC i).map actStr) ++ "]"
    | _, _, _, _ => "bad-op"
  | _, _, _ => "bad-op"

def areaStep (_ : Unit) (t : List String) : Unit × String :=
  match t with
  | ["F", s, a, b, x, y] =>
    match shape? s, rat? a, rat? b, rat? x, rat? y with
    | some s, some a, some b, some x, some y =>
      match F s a b x y with
      | .error _ => ((), "ZeroDivisionError")
      | .ok v => ((), s!"{sgn v} {b01 (decide (inside s a b x y))} {b01 (decide (onBorder s a b x y))}")
    | _, _, _, _, _ => ((), "bad-op")
  | ["Floc", s, a, b, c, sn, n, e] =>
    -- F of a point given in the local (north, east) frame for the azimuth unit vector (c, sn):
    -- "<c²+s²=1?> <sign of FvalCode> <inside rotated shape> <on its border> <sign of the unrotated (pre-F1) evaluation>"
    match shape? s, rat? a, rat? b, rat? c, rat? sn, rat? n, rat? e with
    | some s, some a, some b, some c, some sn, some n, some e =>
      if degenerate s a b then ((), "ZeroDivisionError") else
      let p := toFrame c sn n e
      ((), s!"{b01 (decide (c * c + sn * sn = 1))} {sgn (FvalCode s a b c sn n e)} {b01 (decide (inside s a b p.1 p.2))} {b01 (decide (onBorder s a b p.1 p.2))} {sgn (FvalUnrotated s a b n e)}")
    | _, _, _, _, _, _, _ => ((), "bad-op")
  | ["frame", c, sn, n, e] =>
    -- the code's frame coordinates of the local offsets (n, e) for the unit vector (c, sn): "<c²+s²=1?> <x> <y>" (exact rationals)
    match rat? c, rat? sn, rat? n, rat? e with
    | some c, some sn, some n, some e =>
      let p := codeFrame c sn n e
      ((), s!"{b01 (decide (c * c + sn * sn = 1))} {p.1.num}/{p.1.den} {p.2.num}/{p.2.den}")
    | _, _, _, _ => ((), "bad-op")
  | ["gbc2", key, f, r, o, p, sSrc, sSnd] => ((), pkt2 true key f r o p sSrc sSnd)
  | ["gac2", key, f, r, o, p, sSrc, sSnd] => ((), pkt2 false key f r o p sSrc sSnd)
  | ["size", s, a, b, m] =>
    match shape? s, rat? a, rat? b, nat? m with
    | some s, some a, some b, some m => ((), b01 (oversize s a b m))
    | _, _, _, _ => ((), "bad-op")
  | ["annexd", f, s] =>
    match rat? f, se? s with
    | some f, some s => ((), fwdStr (annexD f s))
    | _, _ => ((), "bad-op")
  | ["src", s, a, b, m, f, bc, g] =>
    match shape? s, rat? a, rat? b, nat? m, rat? f, bool? bc, bool? g with
    | some s, some a, some b, some m, some f, some bc, some g =>
      let o := srcRequest s a b m f bc g
      ((), s!"{match o.confirm with | .accepted => "ACCEPTED" | .geographicalScopeTooLarge => "GEOGRAPHICAL_SCOPE_TOO_LARGE"} {o.sent}")
    | _, _, _, _, _, _, _ => ((), "bad-op")
  | ["gbc", f, r, o, p, s] =>
    match rxIn? f r o p s with
    | some i => ((), "[" ++ " ".intercalate ((recvGBC i).map actStr) ++ "]")
    | none => ((), "bad-op")
  | ["gac", f, r, o, p, s] =>
    match rxIn? f r o p s with
    | some i => ((), "[" ++ " ".intercalate ((recvGAC i).map actStr) ++ "]")
    | none => ((), "bad-op")
  | _ => ((), "bad-op")

def areaDomain : Domain := { σ := Unit, init := (), step := areaStep }

end FlexModel.Geo.Area

/-
A network of stations (each the router model of `Router.lean`) over a broadcast medium with arbitrary delivery order, loss and
CBF timer expiry, and the termination measure used by `Props.C06.flood_terminates`.  Imports the router model only.
-/
import FlexModel.Geo.Router
namespace FlexModel.Geo

/-- frames handed to the link layer by a list of actions -/
def sends : List Act → List Pkt
  | [] => []
  | .send q :: r => q :: sends r
  | _ :: r => sends r


/-- weight of a frame in flight / of a buffered frame; `A = fan-out bound + 2` -/
def wAir (A : Nat) (p : Pkt) : Nat := A ^ (2 * p.rhl)
def wBuf (A : Nat) (p : Pkt) : Nat := A ^ (2 * p.rhl + 1)

def bufWeight (A : Nat) (b : List (Key × Pkt)) : Nat := (b.map (fun x => wBuf A x.2)).sum
def airWeight (A : Nat) (l : List (Nat × Pkt)) : Nat := (l.map (fun x => wAir A x.2)).sum


/-- weight of broadcasting the frames `qs` to the receiver set `rcv` -/
def broadcast (rcv : List Nat) (qs : List Pkt) : List (Nat × Pkt) := qs.flatMap (fun q => rcv.map (fun i => (i, q)))


structure Node where
  c : RCfg
  s : RSt

/-- `air`: frames in flight, each addressed to the station (index) that will hear it -/
structure Net where
  nodes : List Node
  air : List (Nat × Pkt)

/-- the medium: `deliver j` lets the `j`-th frame in flight be received (with arbitrary opaque inputs and clock); every
frame the receiver transmits is heard by the stations `rcv` chosen by the medium (loss = fewer, any order);
`fire` = a CBF timer of station `i` expires; `lose` = the medium drops a frame -/
inductive NetOp
  | deliver (j : Nat) (env : Env) (now : Nat) (rcv : List Nat)
  | fire (i : Nat) (k : Key) (rcv : List Nat)
  | lose (j : Nat)

def netStep (n : Net) : NetOp → Net
  | .deliver j env now rcv =>
    match n.air[j]? with
    | none => n
    | some (i, p) =>
      match n.nodes[i]? with
      | none => { n with air := n.air.eraseIdx j }
      | some nd =>
        let r := recvR nd.c nd.s p env now
        { nodes := n.nodes.set i { nd with s := r.1 }, air := n.air.eraseIdx j ++ broadcast rcv (sends r.2) }
  | .fire i k rcv =>
    match n.nodes[i]? with
    | none => n
    | some nd =>
      let r := fire nd.s k
      { nodes := n.nodes.set i { nd with s := r.1 }, air := n.air ++ broadcast rcv (sends r.2) }
  | .lose j => { n with air := n.air.eraseIdx j }

def nodesWeight (A : Nat) (ns : List Node) : Nat := (ns.map (fun nd => bufWeight A nd.s.buf)).sum

/-- termination measure: frames in flight weigh `A^(2·rhl)`, buffered copies `A^(2·rhl+1)` -/
def Net.weight (A : Nat) (n : Net) : Nat := airWeight A n.air + nodesWeight A n.nodes

/-- the operation does something: it names an existing frame / a buffered key -/
def Effective (n : Net) : NetOp → Prop
  | .deliver j _ _ _ => j < n.air.length
  | .fire i k _ => ∃ nd, n.nodes[i]? = some nd ∧ bufHas nd.s.buf k = true
  | .lose j => j < n.air.length

def fanout : NetOp → Nat
  | .deliver _ _ _ rcv => rcv.length
  | .fire _ _ rcv => rcv.length
  | .lose _ => 0


def netRun (n : Net) : List NetOp → Net
  | [] => n
  | op :: r => netRun (netStep n op) r

/-- every operation of the schedule is effective in the state it is applied to and heard by at most `F` stations -/
def AllEffective (F : Nat) : Net → List NetOp → Prop
  | _, [] => True
  | n, op :: r => Effective n op ∧ fanout op ≤ F ∧ AllEffective F (netStep n op) r

end FlexModel.Geo

/-
A network of stations (each the router model of `Router.lean`) over a broadcast medium with arbitrary delivery order, loss,
duplication (the receiver list of every transmission is chosen by the medium) and CBF timer expiry; the termination measure
used by `Props.C06.flood_terminates`; the trace of a run (`netTrace`: which station did what) with the per-station counters
`txCount` / `dlvCount` / `totalTx` of `Props.C06.network_flood_at_most_once`; and the same network with ghost hop counters
(`HNet`, `netStepH`).  Imports the router model only; executed by the driver on the schedules of the real routers.
-/
import FlexModel.Geo.Router
namespace FlexModel.Geo

/-- frames handed to the link layer by a list of actions -/
def sends : List Act → List Pkt
  | [] => []
  | .send q :: r => q :: sends r
  | _ :: r => sends r


/-- CBF timers started by a list of actions -/
def arms : List Act → List Key
  | [] => []
  | .arm k _ :: r => k :: arms r
  | _ :: r => arms r

/-- deliveries to the upper layer in a list of actions -/
def dlvs : List Act → List (Kind × Addr × Nat)
  | [] => []
  | .deliver k so sn :: r => (k, so, sn) :: dlvs r
  | _ :: r => dlvs r

/-- transmissions of the packet identity `(a, sn)` in a list of actions -/
def txOf (a : Addr) (sn : Nat) (acts : List Act) : Nat := (sends acts).countP (fun q => q.so == a && q.sn == sn)

/-- deliveries of the multi-hop packet identity `(a, sn)` to the upper layer in a list of actions -/
def dlvOf (a : Addr) (sn : Nat) (acts : List Act) : Nat :=
  (dlvs acts).countP (fun d => !d.1.singleHop && d.2.1 == a && d.2.2 == sn)

/-- the same over an action log (one action list per operation) -/
def txLog (a : Addr) (sn : Nat) : List (List Act) → Nat
  | [] => 0
  | x :: r => txOf a sn x + txLog a sn r

def dlvLog (a : Addr) (sn : Nat) : List (List Act) → Nat
  | [] => 0
  | x :: r => dlvOf a sn x + dlvLog a sn r

/-- number of multi-hop packets of `a` with a sequence number other than `sn` in a station's history: what can push
`sn` out of the duplicate packet list of `a` -/
def countOther (a : Addr) (sn : Nat) : List ROp → Nat
  | [] => 0
  | .rx p _ _ :: r => (if p.so = a ∧ p.kind.singleHop = false ∧ p.sn ≠ sn then 1 else 0) + countOther a sn r
  | .fire _ :: r => countOther a sn r
  | .lsreq _ _ :: r => countOther a sn r

/-- weight of a frame in flight / of a buffered frame; `A = fan-out bound + 2` -/
def wAir (A : Nat) (p : Pkt) : Nat := A ^ (2 * p.rhl)
def wBuf (A : Nat) (p : Pkt) : Nat := A ^ (2 * p.rhl + 1)

def bufWeight (A : Nat) (b : List (Key × Pkt)) : Nat := (b.map (fun x => wBuf A x.2)).sum
def airWeight (A : Nat) (l : List (Nat × Pkt)) : Nat := (l.map (fun x => wAir A x.2)).sum


/-- weight of broadcasting the frames `qs` to the receiver set `rcv` -/
def broadcast (rcv : List Nat) (qs : List Pkt) : List (Nat × Pkt) := qs.flatMap (fun q => rcv.map (fun i => (i, q)))


structure Node where
  c : RCfg
  s : RSt

/-- `air`: frames in flight, each addressed to the station (index) that will hear it -/
structure Net where
  nodes : List Node
  air : List (Nat × Pkt)

/-- the medium: `deliver j` lets the `j`-th frame in flight be received (with arbitrary opaque inputs and clock); every
frame the receiver transmits is heard by the stations `rcv` chosen by the medium (loss = fewer, any order);
`fire` = a CBF timer of station `i` expires; `lose` = the medium drops a frame -/
inductive NetOp
  | deliver (j : Nat) (env : Env) (now : Nat) (rcv : List Nat)
  | fire (i : Nat) (k : Key) (rcv : List Nat)
  | lose (j : Nat)

def netStep (n : Net) : NetOp → Net
  | .deliver j env now rcv =>
    match n.air[j]? with
    | none => n
    | some (i, p) =>
      match n.nodes[i]? with
      | none => { n with air := n.air.eraseIdx j }
      | some nd =>
        let r := recvR nd.c nd.s p env now
        { nodes := n.nodes.set i { nd with s := r.1 }, air := n.air.eraseIdx j ++ broadcast rcv (sends r.2) }
  | .fire i k rcv =>
    match n.nodes[i]? with
    | none => n
    | some nd =>
      let r := fire nd.s k
      { nodes := n.nodes.set i { nd with s := r.1 }, air := n.air ++ broadcast rcv (sends r.2) }
  | .lose j => { n with air := n.air.eraseIdx j }

def nodesWeight (A : Nat) (ns : List Node) : Nat := (ns.map (fun nd => bufWeight A nd.s.buf)).sum

/-- termination measure: frames in flight weigh `A^(2·rhl)`, buffered copies `A^(2·rhl+1)` -/
def Net.weight (A : Nat) (n : Net) : Nat := airWeight A n.air + nodesWeight A n.nodes

/-- the operation does something: it names an existing frame / a buffered key -/
def Effective (n : Net) : NetOp → Prop
  | .deliver j _ _ _ => j < n.air.length
  | .fire i k _ => ∃ nd, n.nodes[i]? = some nd ∧ bufHas nd.s.buf k = true
  | .lose j => j < n.air.length

def fanout : NetOp → Nat
  | .deliver _ _ _ rcv => rcv.length
  | .fire _ _ rcv => rcv.length
  | .lose _ => 0


def netRun (n : Net) : List NetOp → Net
  | [] => n
  | op :: r => netRun (netStep n op) r

/-- every operation of the schedule is effective in the state it is applied to and heard by at most `F` stations -/
def AllEffective (F : Nat) : Net → List NetOp → Prop
  | _, [] => True
  | n, op :: r => Effective n op ∧ fanout op ≤ F ∧ AllEffective F (netStep n op) r

/-! ## trace of a run: which station did what -/

/-- one event of a network run: station `st` performed `op` (a reception or a CBF timer expiry) with the actions `acts` -/
structure Ev where
  st : Nat
  op : ROp
  acts : List Act

/-- the event of one medium operation (`none`: the operation names no frame in flight / no station, or is a loss) -/
def netEv (n : Net) : NetOp → Option Ev
  | .deliver j env now _ =>
    match n.air[j]? with
    | none => none
    | some (i, p) =>
      match n.nodes[i]? with
      | none => none
      | some nd => some ⟨i, .rx p env now, (recvR nd.c nd.s p env now).2⟩
  | .fire i k _ =>
    match n.nodes[i]? with
    | none => none
    | some nd => some ⟨i, .fire k, (fire nd.s k).2⟩
  | .lose _ => none

def netTrace : Net → List NetOp → List Ev
  | _, [] => []
  | n, op :: r =>
    match netEv n op with
    | some e => e :: netTrace (netStep n op) r
    | none => netTrace (netStep n op) r

/-- history of station `i` (its receptions and timer expiries, in order) and its action log -/
def hist (i : Nat) : List Ev → List ROp
  | [] => []
  | e :: r => if e.st = i then e.op :: hist i r else hist i r

def actsAt (i : Nat) : List Ev → List (List Act)
  | [] => []
  | e :: r => if e.st = i then e.acts :: actsAt i r else actsAt i r

/-- transmissions / deliveries of the packet identity `(a, sn)` by station `i` along a trace -/
def txCount (a : Addr) (sn : Nat) (i : Nat) (tr : List Ev) : Nat := txLog a sn (actsAt i tr)
def dlvCount (a : Addr) (sn : Nat) (i : Nat) (tr : List Ev) : Nat := dlvLog a sn (actsAt i tr)

/-- all transmissions of `(a, sn)` along a trace, whoever made them -/
def totalTx (a : Addr) (sn : Nat) : List Ev → Nat
  | [] => 0
  | e :: r => txOf a sn e.acts + totalTx a sn r

/-! ## the same network with a ghost hop counter on every frame (for the hop-budget theorem)

`HNet` is `Net` plus: on every frame in flight the number of hops it made (0 = the originator's own transmission), and for
every copy put into a CBF buffer the number of hops it will have made when its timer sends it.  Erasing the ghost fields
gives `netStep` (`NetLemmas.toNet_step`). -/

structure HNet where
  nodes : List Node
  /-- destination station, frame, hops made -/
  air : List (Nat × Pkt × Nat)
  /-- (station, key) ↦ hops of the buffered copy; most recent first -/
  bufH : List ((Nat × Key) × Nat) := []

def HNet.toNet (x : HNet) : Net := { nodes := x.nodes, air := x.air.map (fun f => (f.1, f.2.1)) }

def hopOf (bh : List ((Nat × Key) × Nat)) (i : Nat) (k : Key) : Nat :=
  ((bh.find? (fun x => x.1 == (i, k))).map (·.2)).getD 0

def broadcastH (rcv : List Nat) (qs : List Pkt) (h : Nat) : List (Nat × Pkt × Nat) :=
  qs.flatMap (fun q => rcv.map (fun i => (i, q, h)))

def netStepH (x : HNet) : NetOp → HNet
  | .deliver j env now rcv =>
    match x.air[j]? with
    | none => x
    | some (i, p, h) =>
      match x.nodes[i]? with
      | none => { x with air := x.air.eraseIdx j }
      | some nd =>
        let r := recvR nd.c nd.s p env now
        { nodes := x.nodes.set i { nd with s := r.1 },
          air := x.air.eraseIdx j ++ broadcastH rcv (sends r.2) (h + 1),
          bufH := (arms r.2).map (fun k => ((i, k), h + 1)) ++ x.bufH }
  | .fire i k rcv =>
    match x.nodes[i]? with
    | none => x
    | some nd =>
      let r := fire nd.s k
      { x with nodes := x.nodes.set i { nd with s := r.1 },
               air := x.air ++ broadcastH rcv (sends r.2) (hopOf x.bufH i k) }
  | .lose j => { x with air := x.air.eraseIdx j }

def netRunH (x : HNet) : List NetOp → HNet
  | [] => x
  | op :: r => netRunH (netStepH x op) r

end FlexModel.Geo

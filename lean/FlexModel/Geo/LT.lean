/-
Model of `flexstack.geonet.basic_header.LT` (lifetime field, EN 302 636-4-1 §9.6.4) and of the
hop-limit selection of the originating operations of `flexstack.geonet.router.Router`.

Import-free (core Lean only) so the line-protocol driver can run it.
-/
namespace FlexModel.Geo

/-- `LT(multiplier, base)`; `base` is the *value* of the `LTbase` enum (0..3). -/
structure LT where
  mult : Nat
  base : Nat
deriving DecidableEq, Repr

/-- milliseconds per unit of each base; `get_value_in_millis` falls through to 0 for an unknown base -/
def LT.unit : Nat → Nat
  | 0 => 50
  | 1 => 1000
  | 2 => 10000
  | 3 => 100000
  | _ => 0

/-- `LT.get_value_in_millis` -/
def LT.millis (c : LT) : Nat := c.mult * LT.unit c.base

/-- `LT.get_value_in_seconds` (`// 1000`) – what the router reports as remaining lifetime -/
def LT.seconds (c : LT) : Nat := c.millis / 1000

/-- one iteration of the candidate loop of `set_value_in_millis` -/
def LT.stepQ (v : Nat) (acc : LT × Nat) (b : Nat) : LT × Nat :=
  let m := min (v / LT.unit b) 63
  if 0 < m ∧ acc.2 ≤ m * LT.unit b then (⟨m, b⟩, m * LT.unit b) else acc

/-- greatest representable lifetime not exceeding `v` (the loop of `set_value_in_millis`) -/
def LT.greatest (v : Nat) : LT :=
  ((LT.stepQ v (LT.stepQ v (LT.stepQ v (LT.stepQ v (⟨0, 0⟩, 0) 0) 1) 2) 3)).1

/--
`LT.set_value_in_millis`.  `capped = true` mirrors the code as it is: requests of 1 000 000 ms and more
are written as multiplier 0 (behaviour pinned by the repository's own unit test
`test_basic_header.TestLT.test_set_value_in_milis`, known finding C20-KF1).
`capped = false` is the variant a repaired quantiser would have.
-/
def LT.setMillis (capped : Bool) (v : Nat) : LT :=
  if capped = true ∧ 1000000 ≤ v then ⟨0, 3⟩ else LT.greatest v

/-- the quantiser of the pinned commit before the `fix:` commit (kept as the recorded witness of
defect C20-F1: 500..999 ms → 0, 1999 ms → 1000 although 1950 is representable). -/
def LT.setMillisOld (v : Nat) : LT :=
  if v < 50 then ⟨0, 0⟩
  else if v < 100 then ⟨1, 0⟩
  else if v < 500 then ⟨v / 50 % 64, 0⟩
  else if v < 1000 then ⟨0, 1⟩
  else if v < 10000 then ⟨v / 1000 % 64, 1⟩
  else if v < 100000 then ⟨v / 10000 % 64, 2⟩
  else if v < 1000000 then ⟨v / 100000 % 64, 3⟩
  else ⟨0, 3⟩

/-- `LT.encode_to_int` : `multiplier << 2 | base.value` -/
def LT.encode (c : LT) : Nat := (c.mult <<< 2) ||| c.base

/-- the LT part of `BasicHeader.decode_from_int` (`(value >> 10) & 0x3F`, `(value >> 8) & 0x03` on the byte) -/
def LT.decode (b : Nat) : LT := ⟨(b >>> 2) &&& 0x3F, b &&& 0x03⟩

/-- well-formed lifetime: 6-bit multiplier, 2-bit base -/
def LT.WF (c : LT) : Prop := c.mult < 64 ∧ c.base < 4

instance (c : LT) : Decidable c.WF := by unfold LT.WF; exact inferInstance

/-! ### Hop limits of originated packets -/

inductive Transport
  | beacon | shb | gbc | gac | guc | lsRequest | lsReply
deriving DecidableEq, Repr

/-- `(RHL of the basic header, MHL of the common header)` written by the source operations
(`gn_data_request_beacon/shb/gbc/gac/guc`, `_send_ls_request_packet`, LS reply in
`gn_data_indicate_ls_request`). `req` is `request.max_hop_limit`, `dflt` is `itsGnDefaultHopLimit`. -/
def srcHops (t : Transport) (req dflt : Nat) : Nat × Nat :=
  match t with
  | .beacon => (1, 1)
  | .shb => (1, 1)
  | .gbc | .gac | .guc =>
      let h := if req ≤ 1 then dflt else req
      (h, h)
  | .lsRequest | .lsReply => (dflt, dflt)

/-- receiver guard of `process_common_header`: `rhl > mhl` → `DecapError` (packet discarded) -/
def recvHopGuard (rhl mhl : Nat) : Bool := decide (rhl ≤ mhl)

/-- lifetime of an originated packet: requested ms if present, else MIB default seconds·1000 -/
def srcLifetime (capped : Bool) (reqMs : Option Nat) (mibDefaultS : Nat) : LT :=
  match reqMs with
  | some ms => LT.setMillis capped ms
  | none => LT.setMillis capped (mibDefaultS * 1000)

/-- remaining packet lifetime (whole seconds) a receiver reports upward for a packet whose LT octet is `b`:
`remaining_packet_lifetime=float(basic_header.lt.get_value_in_seconds())` at the five indication sites of the Router
(SHB, TSB, GBC, GAC, GUC) -/
def indRemainingS (b : Nat) : Nat := (LT.decode b).seconds

end FlexModel.Geo

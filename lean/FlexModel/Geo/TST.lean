/-
Model of `flexstack.geonet.position_vector.TST` (32-bit millisecond timestamp, EN 302 636-4-1 §9.5.2,
comparison per annex C.2).  Values are `Nat`s below `W = 2^32`.

Import-free (core Lean only) so the line-protocol driver can run it.
-/
namespace FlexModel.Geo

/-- 2^32 -/
def W : Nat := 4294967296
/-- 2^31 = `(2**32)/2` -/
def HALF : Nat := 2147483648

namespace TST

/-- `TST.__gt__`:
`(a > b and a - b <= 2**32/2) or (b > a and b - a > 2**32/2)` -/
def gt (a b : Nat) : Bool :=
  (decide (b < a) && decide (a - b ≤ HALF)) || (decide (a < b) && decide (HALF < b - a))

/-- `TST.__ge__` = `__eq__ or __gt__` -/
def ge (a b : Nat) : Bool := a == b || gt a b
/-- `TST.__lt__` = `not __ge__` -/
def lt (a b : Nat) : Bool := !ge a b
/-- `TST.__le__` = `not __gt__` -/
def le (a b : Nat) : Bool := !gt a b

/-- `TST.__sub__`: `r = a - b; if r < 0: r += 2**32` -/
def sub (a b : Nat) : Nat := if a < b then a + W - b else a - b

/-- `LocationTable._age_ms` (repaired code): a timestamp ahead of the clock has age 0 -/
def age (now tst : Nat) : Nat := if gt tst now then 0 else sub now tst

/-- the purge rule before the repair: clock truncated to whole seconds, plain wrap-around subtraction.
`nowMs` is the receiver clock in (unreduced) ITS milliseconds. -/
def ageOld (nowMs tst : Nat) : Nat := sub ((nowMs / 1000 * 1000) % W) tst

end TST
end FlexModel.Geo

/-
C08, round 4 — the location table under CONCURRENT receptions, at the granularity of the `loc_t_lock` sections of
`flexstack.geonet.location_table`.

`LocationTable.new_<kind>_packet` is not atomic: it runs `refresh_table()` (one `loc_t_lock` section), then ONE
`loc_t_lock` section with get-or-create AND the entry update (`core`, repair C15-locte-update-under-lock), then
`refresh_table()` again.  Every other thread (link-layer receive threads, the beacon timer, Location Service) runs the
same kind of sections in between.  The sequential model `LocT.recv` is the special case "nothing in between"
(`recv_eq_sections`).

A schedule is an interleaving (`Interleave`) of the receiving thread's block list with an arbitrary block list of the
environment (= any merge of the blocks of any number of other threads).

The shape of the code BEFORE the repair (and of seeded change C08-m4: the entry update moved out of the section again)
is modelled too: `create` (get-or-create, the new LocTE has no position vector) and `updateHeld` (the update of the
OBJECT the thread holds in its local variable `entry`; the table sees it only while that object is still the one
stored under the address: `CS.held`).  A `refresh_table` of another thread in between drops the PV-less entry
(`fresh`: no PV and no pending Location Service) and the thread updates an orphan - `first_beacon_lost_unlocked_witness`
in `Props/C08.lean`.

Which shape the SOURCE has is read from `Generated.Locks` (regenerated from /repo on every run by harness/gen_locks.py):
`srcLocked`.
-/
import FlexModel.Geo.LocTLemmas
import Generated.Locks

namespace FlexModel.Geo.LocTConc
open FlexModel.Geo

/-! ## sections -/

/-- the `loc_t_lock` section of the repaired `new_<kind>_packet`: get-or-create, `entryStep`, store -/
def core (c : Cfg) (t : Table) (k : Kind) (a : Addr) (p : PV) (sn : Nat) : Table × Res :=
  let r := entryStep c (lookup t a) k p sn
  if r.2 = .dup then (t, .dup) else (insert t a r.1, .ok)

/-- the sequential model of one reception is: purge section, `core` section, purge section, nothing in between -/
theorem recv_eq_sections (c : Cfg) (hp : c.v.prePurge = true) (t : Table) (k : Kind) (a : Addr) (p : PV) (sn now : Nat)
    (hd : mid a ≠ mid c.self) :
    recv c t k a p sn now =
      (if (core c (refresh c t now) k a p sn).2 = .dup then (refresh c t now, .dup)
       else (refresh c (core c (refresh c t now) k a p sn).1 now, .ok)) := by
  simp only [recv, hd, if_false, hp, if_true, core]
  by_cases hdup : (entryStep c (lookup (refresh c t now) a) k p sn).2 = .dup
  · simp [hdup]
  · simp [hdup]

/-- atomic blocks (each one runs under `loc_t_lock` or touches only a thread-local object) -/
inductive Blk
  /-- `refresh_table()` at receiver clock `now` -/
  | refresh (now : Nat)
  /-- get-or-create + entry update in one section (repaired shape) -/
  | core (k : Kind) (a : Addr) (p : PV) (sn : Nat)
  /-- `ensure_entry(d).ls_pending = True` -/
  | ensure (d : Addr)
  /-- get-or-create alone (old shape / C08-m4): a new LocTE has no position vector yet -/
  | create (a : Addr)
  /-- entry update OUTSIDE the section on the object held in the thread's local variable -/
  | updateHeld (k : Kind) (a : Addr) (p : PV) (sn : Nat)
deriving DecidableEq, Repr

/-- table + which address the (single) old-shape thread's local `entry` object is currently stored under -/
structure CS where
  t : Table := []
  held : Option Addr := none
deriving Repr

def cstep (c : Cfg) (s : CS) : Blk → CS
  | .refresh now =>
      { t := refresh c s.t now, held := s.held.filter (fun a => (lookup (refresh c s.t now) a).isSome) }
  | .core k a p sn => { s with t := (core c s.t k a p sn).1 }
  | .ensure d => { s with t := ensure s.t d }
  | .create a => { t := (match lookup s.t a with | some _ => s.t | none => insert s.t a {}), held := some a }
  | .updateHeld k a p sn => if s.held = some a then { s with t := (core c s.t k a p sn).1 } else s

def crun (c : Cfg) (s : CS) (bs : List Blk) : CS := bs.foldl (cstep c) s

/-- the blocks of `LocationTable.new_<kind>_packet` for a frame of `a` at receiver clock `now` -/
def rxBlocks (locked : Bool) (k : Kind) (a : Addr) (p : PV) (sn now : Nat) : List Blk :=
  if locked then [.refresh now, .core k a p sn, .refresh now]
  else [.refresh now, .create a, .updateHeld k a p sn, .refresh now]

/-! ## schedules -/

/-- `Interleave xs ys m`: `m` is a merge of `xs` and `ys` keeping the order of each -/
inductive Interleave {α : Type} : List α → List α → List α → Prop
  | nil : Interleave [] [] []
  | left {x : α} {xs ys m : List α} : Interleave xs ys m → Interleave (x :: xs) ys (x :: m)
  | right {y : α} {xs ys m : List α} : Interleave xs ys m → Interleave xs (y :: ys) (y :: m)

theorem interleave_nil_left {α : Type} {ys m : List α} (h : Interleave [] ys m) : m = ys := by
  generalize hx : ([] : List α) = xs at h
  induction h with
  | nil => rfl
  | left _ _ => cases hx
  | right _ ih => rw [ih hx]

/-- the first block of the thread splits every schedule: environment prefix, the block, a schedule of the rest -/
theorem interleave_cons {α : Type} {x : α} {xs ys m : List α} (h : Interleave (x :: xs) ys m) :
    ∃ e ys' m', ys = e ++ ys' ∧ m = e ++ x :: m' ∧ Interleave xs ys' m' := by
  generalize hx : x :: xs = l at h
  induction h with
  | nil => cases hx
  | @left x' xs' ys' m' h' _ =>
    cases hx
    exact ⟨[], ys', m', rfl, rfl, h'⟩
  | @right y xs' ys' m' _ ih =>
    obtain ⟨e, ys'', m'', h1, h2, h3⟩ := ih hx
    exact ⟨y :: e, ys'', m'', by simp [h1], by simp [h2], h3⟩

/-- every schedule of a three-block thread: e0, x, e1, y, e2, z, e3 -/
theorem interleave_three {α : Type} {x y z : α} {env m : List α} (h : Interleave [x, y, z] env m) :
    ∃ e0 e1 e2 e3, env = e0 ++ e1 ++ e2 ++ e3 ∧ m = e0 ++ x :: (e1 ++ y :: (e2 ++ z :: e3)) := by
  obtain ⟨e0, r0, m0, h1, h2, h3⟩ := interleave_cons h
  obtain ⟨e1, r1, m1, h4, h5, h6⟩ := interleave_cons h3
  obtain ⟨e2, r2, m2, h7, h8, h9⟩ := interleave_cons h6
  have := interleave_nil_left h9
  subst this
  exact ⟨e0, e1, e2, m2, by simp [h1, h4, h7], by simp [h2, h5, h8]⟩

/-! ## what the environment may do while the entry of `a` has to stay alive -/

/-- blocks of other threads: purges inside the window and not later than `lim`; receptions (`core` sections) of any
source - timestamps of further packets of `a` itself lie in the window; LS placeholders.  Threads of the OLD shape
do not exist in a source whose shape is the repaired one. -/
def EnvOK (a : Addr) (B lim : Nat) : Blk → Prop
  | .refresh now => Win B now ∧ now ≤ lim
  | .core _ b q _ => b = a → Win B q.time
  | .ensure _ => True
  | .create _ => False
  | .updateHeld _ _ _ _ => False

/-- before the reception: whatever the table holds for `a` carries a timestamp of the window -/
def SrcInv (a : Addr) (B : Nat) (t : Table) : Prop :=
  ∀ e, lookup t a = some e → e.hasPV = true → Win B e.pv.time

/-- after the reception: `a` is present with a position vector not older than `p`, and is a neighbour -/
def Live (a : Addr) (B : Nat) (p : PV) (t : Table) : Prop :=
  ∃ e, lookup t a = some e ∧ e.hasPV = true ∧ e.isNeighbour = true ∧ p.time ≤ e.pv.time ∧ Win B e.pv.time

theorem uniq_core (c : Cfg) (t : Table) (k : Kind) (a : Addr) (p : PV) (sn : Nat) (h : Uniq t) :
    Uniq (core c t k a p sn).1 := by
  simp only [core]
  split
  · exact h
  · exact uniq_insert _ _ _ h

theorem uniq_ensure (t : Table) (d : Addr) (h : Uniq t) : Uniq (ensure t d) := by
  simp only [ensure]; split <;> exact uniq_insert _ _ _ h

theorem uniq_cstep (c : Cfg) (a : Addr) (B lim : Nat) (s : CS) (b : Blk) (hb : EnvOK a B lim b) (h : Uniq s.t) :
    Uniq (cstep c s b).t := by
  cases b with
  | refresh now => exact uniq_refresh c s.t now h
  | core k x p sn => exact uniq_core c s.t k x p sn h
  | ensure d => exact uniq_ensure s.t d h
  | create x => exact hb.elim
  | updateHeld k x p sn => exact hb.elim

theorem lookup_core_ne (c : Cfg) (t : Table) (k : Kind) (a b : Addr) (p : PV) (sn : Nat) (h : b ≠ a) :
    lookup (core c t k a p sn).1 b = lookup t b := by
  simp only [core]
  split
  · rfl
  · exact lookup_insert_ne _ _ _ _ h

theorem lookup_ensure_ne (t : Table) (d b : Addr) (h : b ≠ d) : lookup (ensure t d) b = lookup t b := by
  simp only [ensure]; split <;> exact lookup_insert_ne _ _ _ _ h

/-- newer-by-`TST.gt` means newer in real time inside one window -/
theorem gt_window {B x y : Nat} (hx : Win B x) (hy : Win B y) : TST.gt (y % W) (x % W) = true ↔ x < y := by
  obtain ⟨a1, a2⟩ := hx; obtain ⟨b1, b2⟩ := hy
  constructor
  · intro h
    by_cases hle : y ≤ x
    · have := TST.not_gt_of_realtime y x hle (by omega); rw [this] at h; cases h
    · omega
  · intro h; exact TST.gt_of_realtime x y h (by omega)

/-! ### phase 1: the environment before the thread's `core` section keeps `SrcInv` -/

theorem srcInv_cstep (c : Cfg) (hv : c.v = {}) (a : Addr) (B lim : Nat) (s : CS) (b : Blk) (hb : EnvOK a B lim b)
    (hu : Uniq s.t) (hi : SrcInv a B s.t) : SrcInv a B (cstep c s b).t := by
  cases b with
  | refresh now =>
    intro e he
    simp only [cstep, lookup_refresh c s.t now a hu] at he
    exact hi e (keep_some he).1
  | core k x q sn =>
    by_cases hx : x = a
    · subst hx
      have hq := hb rfl
      intro e he hh
      simp only [cstep, core] at he
      by_cases hdup : (entryStep c (lookup s.t x) k q sn).2 = .dup
      · simp only [hdup, if_true] at he; exact hi e he hh
      · simp only [hdup, if_false, lookup_insert_self, Option.some.injEq] at he
        cases hl : lookup s.t x with
        | none =>
          obtain ⟨_, _, _, _, g5⟩ := entryStep_none c hv k q sn
          rw [hl] at he; rw [← he, g5]; exact hq
        | some e0 =>
          rw [hl] at he hdup
          obtain ⟨_, _, g3⟩ := entryStep_some c hv e0 k q sn
          obtain ⟨_, _, _, _, g5⟩ := g3 hdup
          rw [← he, g5]
          split
          next hc => exact hi e0 hl hc.1
          next => exact hq
    · intro e he
      simp only [cstep, lookup_core_ne c s.t k x a q sn (Ne.symm hx)] at he
      exact hi e he
  | ensure d =>
    by_cases hd : d = a
    · subst hd
      intro e he hh
      simp only [cstep, ensure] at he
      cases hl : lookup s.t d with
      | none => rw [hl] at he; simp only [lookup_insert_self, Option.some.injEq] at he; subst he; cases hh
      | some e0 =>
        rw [hl] at he; simp only [lookup_insert_self, Option.some.injEq] at he; subst he
        exact hi e0 hl hh
    · intro e he
      simp only [cstep, lookup_ensure_ne s.t d a (Ne.symm hd)] at he
      exact hi e he
  | create x => exact hb.elim
  | updateHeld k x q sn => exact hb.elim

/-! ### the thread's own `core` section establishes `Live` -/

theorem core_establishes (c : Cfg) (hv : c.v = {}) (k : Kind) (hk : k.singleHop = true) (a : Addr) (B : Nat) (p : PV)
    (sn : Nat) (t : Table) (hi : SrcInv a B t) (hp : Win B p.time) : Live a B p (core c t k a p sn).1 := by
  simp only [core]
  cases hl : lookup t a with
  | none =>
    obtain ⟨g1, g2, g3, _, g5⟩ := entryStep_none c hv k p sn
    have hnd : (entryStep c none k p sn).2 ≠ .dup := by rw [g1]; decide
    simp only [hnd, if_false]
    exact ⟨_, lookup_insert_self _ _ _, g2, by rw [g3, hk], by rw [g5]; exact Nat.le_refl _, by rw [g5]; exact hp⟩
  | some e0 =>
    obtain ⟨g0, _, g3⟩ := entryStep_some c hv e0 k p sn
    have hnd : (entryStep c (some e0) k p sn).2 ≠ .dup := by
      intro h; have := (g0.1 h).1; rw [hk] at this; cases this
    obtain ⟨_, f2, f3, _, f5⟩ := g3 hnd
    simp only [hnd, if_false]
    refine ⟨_, lookup_insert_self _ _ _, f2, by rw [f3, hk]; rfl, ?_, ?_⟩
    · rw [f5]
      split
      next hc =>
        have hw0 := hi e0 hl hc.1
        by_cases hlt : e0.pv.time < p.time
        · have := (gt_window hw0 hp).2 hlt
          simp only [PV.tst] at hc; rw [this] at hc; cases hc.2
        · omega
      next => exact Nat.le_refl _
    · rw [f5]
      split
      next hc => exact hi e0 hl hc.1
      next => exact hp

/-! ### phase 2: nothing the environment (or the thread's closing purge) does removes the entry, its flag or its PV -/

theorem live_cstep (c : Cfg) (hv : c.v = {}) (a : Addr) (B lim : Nat) (p : PV) (hlim : lim ≤ p.time + c.lifetimeMs)
    (s : CS) (b : Blk) (hb : EnvOK a B lim b) (hu : Uniq s.t) (hl : Live a B p s.t) : Live a B p (cstep c s b).t := by
  obtain ⟨e, h1, h2, h3, h4, h5⟩ := hl
  cases b with
  | refresh now =>
    obtain ⟨hn, hn2⟩ := hb
    have hf : fresh c now e = true := (fresh_iff_window c hv B now e h2 h5 hn).2 (by omega)
    exact ⟨e, by simp only [cstep, lookup_refresh c s.t now a hu, h1, keep_of_true hf], h2, h3, h4, h5⟩
  | core k x q sn =>
    by_cases hx : x = a
    · subst hx
      have hq := hb rfl
      simp only [cstep, core, h1]
      by_cases hdup : (entryStep c (some e) k q sn).2 = .dup
      · simp only [hdup, if_true]; exact ⟨e, h1, h2, h3, h4, h5⟩
      · obtain ⟨_, _, g3⟩ := entryStep_some c hv e k q sn
        obtain ⟨_, f2, f3, _, f5⟩ := g3 hdup
        simp only [hdup, if_false]
        refine ⟨_, lookup_insert_self _ _ _, f2, by rw [f3, h3]; simp, ?_, ?_⟩
        · rw [f5]
          split
          next => exact h4
          next hc =>
            have hg : TST.gt q.tst e.pv.tst = true := by
              cases hgt : TST.gt q.tst e.pv.tst with
              | true => rfl
              | false => exact (hc ⟨h2, hgt⟩).elim
            have := (gt_window h5 hq).1 hg
            omega
        · rw [f5]
          split
          next => exact h5
          next => exact hq
    · exact ⟨e, by simp only [cstep, lookup_core_ne c s.t k x a q sn (Ne.symm hx), h1], h2, h3, h4, h5⟩
  | ensure d =>
    by_cases hd : d = a
    · subst hd
      exact ⟨{ e with lsPending := true }, by simp only [cstep, ensure, h1, lookup_insert_self], h2, h3, h4, h5⟩
    · exact ⟨e, by simp only [cstep, lookup_ensure_ne s.t d a (Ne.symm hd), h1], h2, h3, h4, h5⟩
  | create x => exact hb.elim
  | updateHeld k x q sn => exact hb.elim

/-! ### segments of environment blocks -/

theorem env_segment (c : Cfg) (a : Addr) (B lim : Nat) (P : Table → Prop)
    (hstep : ∀ s b, EnvOK a B lim b → Uniq s.t → P s.t → P (cstep c s b).t) :
    ∀ (bs : List Blk) (s : CS), (∀ b ∈ bs, EnvOK a B lim b) → Uniq s.t → P s.t →
      Uniq (crun c s bs).t ∧ P (crun c s bs).t := by
  intro bs
  induction bs with
  | nil => intro s _ hu hp; exact ⟨hu, hp⟩
  | cons b r ih =>
    intro s hb hu hp
    simp only [crun, List.foldl]
    exact ih (cstep c s b) (fun x hx => hb x (by simp [hx])) (uniq_cstep c a B lim s b (hb b (by simp)) hu)
      (hstep s b (hb b (by simp)) hu hp)

theorem crun_append (c : Cfg) (s : CS) (xs ys : List Blk) : crun c s (xs ++ ys) = crun c (crun c s xs) ys := by
  simp [crun, List.foldl_append]

theorem crun_cons (c : Cfg) (s : CS) (x : Blk) (xs : List Blk) : crun c s (x :: xs) = crun c (cstep c s x) xs := rfl

/-- **the repaired shape under every schedule**: the thread runs purge / `core` / purge, the environment runs
`e0 … e3` in between -/
theorem locked_segments (c : Cfg) (hv : c.v = {}) (k : Kind) (hk : k.singleHop = true) (a : Addr) (p : PV)
    (sn now B lim : Nat) (hp : Win B p.time) (hlim : lim ≤ p.time + c.lifetimeMs) (hnow : Win B now) (hnl : now ≤ lim)
    (s0 : CS) (hu : Uniq s0.t) (hi : SrcInv a B s0.t) (e0 e1 e2 e3 : List Blk)
    (h0 : ∀ b ∈ e0, EnvOK a B lim b) (h1 : ∀ b ∈ e1, EnvOK a B lim b) (h2 : ∀ b ∈ e2, EnvOK a B lim b)
    (h3 : ∀ b ∈ e3, EnvOK a B lim b) :
    Live a B p (crun c s0 (e0 ++ .refresh now :: (e1 ++ .core k a p sn :: (e2 ++ .refresh now :: e3)))).t := by
  have hr : EnvOK a B lim (.refresh now) := ⟨hnow, hnl⟩
  have inv := env_segment c a B lim (SrcInv a B) (fun s b hb hu hi => srcInv_cstep c hv a B lim s b hb hu hi)
  have liv := env_segment c a B lim (Live a B p) (fun s b hb hu hl => live_cstep c hv a B lim p hlim s b hb hu hl)
  -- e0, purge, e1
  obtain ⟨u1, i1⟩ := inv e0 s0 h0 hu hi
  have u2 := uniq_cstep c a B lim _ _ hr u1
  have i2 := srcInv_cstep c hv a B lim _ _ hr u1 i1
  obtain ⟨u3, i3⟩ := inv e1 _ h1 u2 i2
  -- core
  have u4 : Uniq (cstep c (crun c (cstep c (crun c s0 e0) (.refresh now)) e1) (.core k a p sn)).t :=
    uniq_core c _ k a p sn u3
  have l4 : Live a B p (cstep c (crun c (cstep c (crun c s0 e0) (.refresh now)) e1) (.core k a p sn)).t :=
    core_establishes c hv k hk a B p sn _ i3 hp
  -- e2, purge, e3
  obtain ⟨u5, l5⟩ := liv e2 _ h2 u4 l4
  have u6 := uniq_cstep c a B lim _ _ hr u5
  have l6 := live_cstep c hv a B lim p hlim _ _ hr u5 l5
  obtain ⟨_, l7⟩ := liv e3 _ h3 u6 l6
  simpa only [crun_append, crun_cons] using l7

/-! ## tie to the source: which shape do the seven `new_*_packet` functions have? -/

section Tie
open Generated.Locks

def rxFns : List Fn :=
  [.LocationTable_new_shb_packet, .LocationTable_new_guc_packet, .LocationTable_new_tsb_packet, .LocationTable_new_gac_packet,
   .LocationTable_new_ls_request_packet, .LocationTable_new_ls_reply_packet, .LocationTable_new_gbc_packet]

/-- the methods of LocationTableEntry that write the entry (DPL, position vector, PDR, IS_NEIGHBOUR) -/
def entryUpdaters : List Fn :=
  [.LocationTableEntry_check_duplicate_sn, .LocationTableEntry_update_position_vector, .LocationTableEntry_update_pdr,
   .LocationTableEntry_update_with_gbc_packet, .LocationTableEntry_update_with_shb_packet,
   .LocationTableEntry_update_with_tsb_packet]

/-- `f` = `refresh_table()`; exactly ONE `loc_t_lock` section, which touches `loc_t` (the get-or-create) and inside
which EVERY entry update of `f` is made (at least one); `refresh_table()` -/
def updateInCreationSection (f : Fn) : Bool :=
  (calls f).head? == some ([], .LocationTable_refresh_table) &&
  (calls f).getLast? == some ([], .LocationTable_refresh_table) &&
  (shape f).map (·.1) == [[.LocationTable_loc_t_lock]] &&
  ((shape f).all fun b => b.2.contains .LocationTable_loc_t) &&
  ((calls f).all fun c => !entryUpdaters.contains c.2 || c.1.contains .LocationTable_loc_t_lock) &&
  ((calls f).any fun c => entryUpdaters.contains c.2)

/-- `refresh_table` itself is one `loc_t_lock` section -/
def refreshIsOneSection : Bool :=
  shape .LocationTable_refresh_table == [([.LocationTable_loc_t_lock], [.LocationTable_loc_t])]

/-- the source has the repaired shape (all seven functions) -/
def srcLocked : Bool := rxFns.all updateInCreationSection && refreshIsOneSection

end Tie

end FlexModel.Geo.LocTConc

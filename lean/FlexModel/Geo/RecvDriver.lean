import FlexModel.Proto
import FlexModel.Geo.RecvPath
namespace FlexModel.Geo.Recv
open FlexModel.Proto

def hexVal (c : Char) : Option Nat :=
  if '0' ≤ c ∧ c ≤ '9' then some (c.toNat - '0'.toNat)
  else if 'a' ≤ c ∧ c ≤ 'f' then some (c.toNat - 'a'.toNat + 10)
  else none

def hexBytesAux : List Char → List Nat → Option (List Nat)
  | [], acc => some acc.reverse
  | [_], _ => none
  | a :: b :: rest, acc =>
    match hexVal a, hexVal b with
    | some x, some y => hexBytesAux rest ((x * 16 + y) :: acc)
    | _, _ => none

/-- "-" denotes the empty byte string -/
def hexBytes (s : String) : Option (List Nat) :=
  if s = "-" then some [] else hexBytesAux s.toList []

def Outcome.show : Outcome → String
  | .raised e => "raised:" ++ e.name
  | .dropped => "dropped"
  | .secured => "secured"
  | .handled h => "handled:" ++ h.name

def recvStep (_ : Unit) (t : List String) : Unit × String :=
  match t with
  | ["cls", v, sec, ver, hex] =>
    match nat? v, nat? sec, nat? ver, hexBytes hex with
    | some v, some sec, some ver, some f =>
      ((), (classify { version := v, securityEnabled := sec != 0, hasVerifyService := ver != 0 } f).show)
    | _, _, _, _ => ((), "bad-op")
  | ["mac", own, dst, src] =>
    match hexBytes own, hexBytes dst, hexBytes src with
    | some o, some d, some s => ((), if macAccept o d s then "1" else "0")
    | _, _, _ => ((), "bad-op")
  | _ => ((), "bad-op")

def recvDomain : Domain := { σ := Unit, init := (), step := recvStep }
end FlexModel.Geo.Recv

/-
Wire level of the receive path of `flexstack.geonet.router.Router` around the decoded-packet model of `Router.lean`:
Basic Header NH (unsecured / secured), `process_basic_header` (itsGnSecurity gate), `process_security_header` (SN-VERIFY,
the per-thread receive context `self._rx_context.secured_message` set for the duration of the dispatch and cleared in a
`finally`), `_forward_pdu` (a forwarder re-emits the received secured message behind the updated Basic Header when the
context holds one, otherwise re-assembles the PDU from the headers), the CBF buffer holding FINISHED PDUs (built by
`_forward_pdu` when the timer is armed), and the points at which the processing of a verified packet is aborted by an
exception that `gn_data_indicate` swallows: hop-limit check (`DecapError`) and a raising indication callback.

A secured message (everything behind the Basic Header) is an opaque identity `m : Nat`; SN-VERIFY is an opaque input
(`vok`, the decoded plain message `p`).  `ctxFinally = false` is the variant in which the reset of the context is
straight-line code after the dispatch (used by the `_witness` theorem only).  Core Lean only.
-/
import FlexModel.Geo.Net
namespace FlexModel.Geo

/-- GN-PDU handed to the link layer, as far as forwarding is concerned -/
inductive WFrame
  /-- Basic Header (NH = Common Header, RHL `q.rhl`) + Common Header + Extended Header + payload re-assembled from `q` -/
  | plain (q : Pkt)
  /-- Basic Header (NH = Secured Packet, RHL `rhl`) + the secured message `m`, octet for octet -/
  | secured (rhl : Nat) (m : Nat)
deriving DecidableEq, Repr

/-- one frame arriving from the link layer on receive thread `thr` -/
structure Rx where
  thr : Nat := 0
  /-- Basic Header NH = Secured Packet -/
  sec : Bool := false
  /-- identity of the secured message behind the Basic Header (meaningful for `sec`) -/
  m : Nat := 0
  /-- SN-VERIFY reports SUCCESS for `m` (opaque; an exception of the verify service counts as failure: nothing happens) -/
  vok : Bool := true
  /-- the decoded headers: of the frame itself (unsecured) or of the verified plain message, with the Basic Header's RHL -/
  p : Pkt
  /-- fault: the upper layer's indication callback raises when it is invoked for this packet -/
  cbRaises : Bool := false
deriving Repr

structure WCfg where
  c : RCfg
  /-- a verify service is configured (otherwise secured packets are discarded) -/
  hasVerify : Bool := false
  /-- itsGnSecurity == ENABLED: unsecured packets are discarded -/
  secEnabled : Bool := false
  /-- `self._rx_context.secured_message = None` sits in the `finally` of the `try` around the dispatch -/
  ctxFinally : Bool := true

structure WSt where
  r : RSt := {}
  /-- `self._rx_context.secured_message` per receive thread (a `threading.local`) -/
  ctx : Nat → Option Nat := fun _ => none
  /-- the finished PDUs waiting in the CBF buffer (`args=[cbf_key, full_packet]` of the timers), same keys as `r.buf` -/
  wbuf : List (Key × WFrame) := []

/-- `_forward_pdu` -/
def forwardPdu (ctx : Option Nat) (q : Pkt) : WFrame :=
  match ctx with
  | some m => .secured q.rhl m
  | none => .plain q

def setCtx (f : Nat → Option Nat) (t : Nat) (v : Option Nat) : Nat → Option Nat := fun u => if u = t then v else f u

def hasDeliver : List Act → Bool
  | [] => false
  | .deliver _ _ _ :: _ => true
  | _ :: r => hasDeliver r

def wbufGet (b : List (Key × WFrame)) (k : Key) : Option WFrame := (b.find? (fun x => x.1 == k)).map (·.2)

/-- the CBF buffer after a reception: a copy armed by this reception was built by `_forward_pdu` under the context of this
reception; every other buffered PDU is the one stored earlier -/
def wbufSync (old : List (Key × WFrame)) (buf : List (Key × Pkt)) (armed : List Key) (ctx : Option Nat) :
    List (Key × WFrame) :=
  buf.map (fun x => (x.1, if armed.contains x.1 then forwardPdu ctx x.2 else (wbufGet old x.1).getD (.plain x.2)))

/-- frames handed to the link layer during a dispatch that ran under context `ctx` -/
def wsent (ctx : Option Nat) (acts : List Act) : List WFrame := (sends acts).map (forwardPdu ctx)

/-- the dispatch of `process_common_header` is left by an exception (swallowed and logged by `gn_data_indicate`) -/
def raised (x : Rx) (acts : List Act) : Bool := decide (x.p.rhl > x.p.mhl) || (x.cbRaises && hasDeliver acts)

/-- `gn_data_indicate(frame)` on thread `x.thr`: new state, actions of the decoded-packet model, context in force while
the handlers ran -/
def recvW (w : WCfg) (s : WSt) (x : Rx) (env : Env) (now : Nat) : WSt × List Act × Option Nat :=
  if x.sec then
    if !w.hasVerify || !x.vok then (s, [], none)
    else
      let ctx := some x.m
      let r := recvR w.c s.r x.p env now
      let after := if w.ctxFinally || !raised x r.2 then none else ctx
      ({ r := r.1, ctx := setCtx s.ctx x.thr after, wbuf := wbufSync s.wbuf r.1.buf (arms r.2) ctx }, r.2, ctx)
  else if w.secEnabled then (s, [], none)
  else
    let ctx := s.ctx x.thr
    let r := recvR w.c s.r x.p env now
    ({ s with r := r.1, wbuf := wbufSync s.wbuf r.1.buf (arms r.2) ctx }, r.2, ctx)

/-- frames sent by one reception -/
def sentW (w : WCfg) (s : WSt) (x : Rx) (env : Env) (now : Nat) : List WFrame :=
  wsent (recvW w s x env now).2.2 (recvW w s x env now).2.1

/-- `_cbf_timeout(cbf_key, full_packet)` on the timer thread: sends the stored PDU if the key is still buffered -/
def fireW (s : WSt) (k : Key) : WSt × List WFrame :=
  match bufGet s.r.buf k with
  | some q =>
    ({ s with r := (fire s.r k).1, wbuf := s.wbuf.filter (fun x => !(x.1 == k)) }, [(wbufGet s.wbuf k).getD (.plain q)])
  | none => (s, [])

/-- the LATE-ASSEMBLY shape of the CBF path (seeded change C06-m8; used by `_witness` / negative theorems only): the buffer
keeps the decoded headers and payload, and `_cbf_timeout` builds the PDU with `_forward_pdu` at expiry - on the timer
thread `tthr`, i.e. under THAT thread's receive context -/
def fireLate (s : WSt) (tthr : Nat) (k : Key) : List WFrame :=
  match bufGet s.r.buf k with
  | some q => [forwardPdu (s.ctx tthr) q]
  | none => []

inductive WOp
  | rx (x : Rx) (env : Env) (now : Nat)
  | fire (k : Key)
  | lsreq (a : Addr) (req : Bool)

/-- one operation; output = frames handed to the link layer by forwarders (originations of the Location Service are not
forwarded copies and not listed) -/
def wstep (w : WCfg) (s : WSt) : WOp → WSt × List WFrame
  | .rx x env now => ((recvW w s x env now).1, sentW w s x env now)
  | .fire k => fireW s k
  | .lsreq a req => ({ s with r := (lsRequest s.r a req).1 }, [])

def wrun (w : WCfg) : WSt → List WOp → WSt × List (List WFrame)
  | s, [] => (s, [])
  | s, op :: r =>
    let x := wstep w s op
    let y := wrun w x.1 r
    (y.1, x.2 :: y.2)

/-- THE CLAUSE "every forwarded copy equals the received packet except for a remaining hop limit exactly one lower (and, for
unicast, a destination position vector refreshed only by a newer one)" on the wire: `g` is an admissible forwarded copy of
the received frame `x`.  Secured: the received secured message behind a Basic Header with NH = Secured Packet and RHL - 1
(nothing of the signed part may change, so no DE refresh).  Unsecured: the re-assembled packet with RHL - 1, DE position
vector possibly replaced by the strictly newer one of a neighbour's location table entry (`t`) for GUC / LS reply. -/
def WCopy (t : Table) (x : Rx) (g : WFrame) : Prop :=
  2 ≤ x.p.rhl ∧ x.p.rhl - 1 ≤ x.p.mhl ∧
  (if x.sec then g = .secured (x.p.rhl - 1) x.m
   else g = .plain { x.p with rhl := x.p.rhl - 1 } ∨
     ((x.p.kind = .guc ∨ x.p.kind = .lsRep) ∧
       ∃ e, lookup t x.p.de = some e ∧ e.isNeighbour = true ∧ TST.gt e.pv.tst x.p.dePV.tst = true ∧
         g = .plain { x.p with rhl := x.p.rhl - 1, dePV := e.pv }))

/-- no receive thread holds a stale secured message -/
def CtxClear (s : WSt) : Prop := ∀ t, s.ctx t = none

end FlexModel.Geo

/-
SPEC side of C20 (and of the LT / hop-limit fields in C02): what EN 302 636-4-1 V1.4.1 prescribes, written from the
standard's text and the property text — NOT from the code, and using none of the model functions of `LT.lean`
(`LT.millis`, `LT.greatest`, `LT.setMillis`, `LT.decode`, `srcHops`, `srcLifetime`, `recvHopGuard` do not occur here).

  §9.6.4  LT field: one octet, Multiplier in the 6 most significant bits, Base in the 2 least significant bits;
          Base 0 = 50 ms, 1 = 1 s, 2 = 10 s, 3 = 100 s; lifetime = Multiplier × Base.
  §10.3.2 / §10.3.4 field settings of the source operations:
          LT  = maximum packet lifetime of the GN-DATA.request if specified, otherwise itsGnDefaultPacketLifetime;
          MHL = maximum hop limit of the GN-DATA.request if specified, otherwise itsGnDefaultHopLimit; RHL = MHL
          (GUC §10.3.8.2, GBC §10.3.11.2, GAC §10.3.12.2); SHB §10.3.10.2 and beacon §10.3.6.2: RHL = MHL = 1;
          LS request §10.3.7.1.2 / LS reply §10.3.7.3: RHL = MHL = itsGnDefaultHopLimit.
  §10.3.5 common header processing: "if RHL > MHL, discard the packet and omit the execution of further steps".
  Table 29 (GN-DATA.indication): remaining packet lifetime = the lifetime carried by the packet.
Core Lean only.
-/
import FlexModel.Geo.LT

namespace FlexModel.Geo.LTSpec

/-- §9.6.4 Table 5: milliseconds per unit of the four LT bases -/
def baseMillis : List Nat := [50, 1000, 10000, 100000]

/-- the lifetime (ms) an LT octet `b` stands for: multiplier = the 6 MSBs, base = the 2 LSBs -/
def octetMillis (b : Nat) : Nat := (b / 4) * baseMillis.getD (b % 4) 0

/-- `b` is the octet the property demands for a lifetime of `ms` milliseconds: it does not exceed `ms` and no octet
that does not exceed `ms` stands for more (the standard fixes the VALUE, not the (multiplier, base) pair: e.g.
1000 ms = 20 × 50 ms = 1 × 1 s) -/
def IsLifetimeOctet (ms b : Nat) : Prop :=
  b < 256 ∧ octetMillis b ≤ ms ∧ ∀ b', b' < 256 → octetMillis b' ≤ ms → octetMillis b' ≤ octetMillis b

/-- lifetime (ms) a source operation has to write: the request's, if it specifies one, else the MIB default (s) -/
def lifetimeMs (requestedMs : Option Nat) (mibDefaultS : Nat) : Nat := requestedMs.getD (mibDefaultS * 1000)

/-- MHL of a multi-hop source operation: the request's, if it specifies one, else itsGnDefaultHopLimit -/
def hopLimit (requested : Option Nat) (mibDefault : Nat) : Nat := requested.getD mibDefault

/-- INTERFACE CONVENTION (property text of C20: "the requested limit when above 1, else the MIB default"):
`GNDataRequest.max_hop_limit` is a plain `int` (dataclass default 1, `from_dict` default 0) and has no value for
"not specified"; 0 and 1 stand for it.  Consequence, stated not hidden: a multi-hop request cannot ask for hop
limit 1 — it is sent with itsGnDefaultHopLimit (see design_notes/C20.md, "hop limit 1"). -/
def requestedHops (maxHopLimit : Nat) : Option Nat := if 1 < maxHopLimit then some maxHopLimit else none

/-- (RHL, MHL) the standard prescribes for an originated packet of transport type `t` -/
def hops (t : Transport) (requested : Option Nat) (mibDefault : Nat) : Nat × Nat :=
  match t with
  | .beacon => (1, 1)                                   -- §10.3.6.2
  | .shb => (1, 1)                                      -- §10.3.10.2
  | .gbc => (hopLimit requested mibDefault, hopLimit requested mibDefault)   -- §10.3.11.2
  | .gac => (hopLimit requested mibDefault, hopLimit requested mibDefault)   -- §10.3.12.2
  | .guc => (hopLimit requested mibDefault, hopLimit requested mibDefault)   -- §10.3.8.2
  | .lsRequest => (mibDefault, mibDefault)              -- §10.3.7.1.2
  | .lsReply => (mibDefault, mibDefault)                -- §10.3.7.3

/-- §10.3.5: a received packet whose RHL exceeds its MHL is discarded -/
def MustDiscard (rhl mhl : Nat) : Prop := mhl < rhl

instance (rhl mhl : Nat) : Decidable (MustDiscard rhl mhl) := by unfold MustDiscard; exact inferInstance

/-- the remaining lifetime (whole seconds) reported in a GN-DATA.indication is admissible for a packet carrying LT
octet `b` iff it does not exceed the lifetime the octet stands for -/
def AdmissibleRemaining (b reportedS : Nat) : Prop := reportedS * 1000 ≤ octetMillis b

instance (b s : Nat) : Decidable (AdmissibleRemaining b s) := by unfold AdmissibleRemaining; exact inferInstance

end FlexModel.Geo.LTSpec

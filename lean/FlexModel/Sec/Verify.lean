/-
Security model, part 3: `VerifyService.verify`, the P2PCD notifications of `SignService`, and the router's
security gate (`process_basic_header` / `process_security_header`).
A station = certificate library + the sign-service bookkeeping the verify path writes to.
-/
import FlexModel.Sec.Store
namespace FlexModel.Sec

inductive Signer where
  | digest (h : Nat) | certs (cs : List Cert) | selfS      -- selfS: `self` or an unrecognised extension alternative
  deriving DecidableEq, Repr, Inhabited

/-- abstract EtsiTs103097Data-Signed; `sigBy` = key under which the signature really verifies over the re-encoded
    ToBeSignedData (payload + headerInfo) as received -/
structure Msg where
  psid : Nat
  genTime : Option Nat            -- µs since the ITS epoch
  genLoc : Bool
  p2pcdLearn : Bool
  missingCrl : Bool
  expiry : Bool
  encKey : Bool
  inlineReq : Option (List Nat)   -- HashedId3 list
  reqCert : Option Cert
  signer : Signer
  sigFmtOk : Bool                 -- ecdsaNistP256Signature with x-only r (else verify_with_pk raises ValueError)
  sigBy : Option Nat
  payload : Nat
  sig : Nat := 0                  -- identity of the signature VALUE (r, s) as received; not read by the verify path
  deriving DecidableEq, Repr, Inhabited

/-- the signed content (ToBeSignedData = payload + headerInfo) of a message: everything the signature covers.
    `Msg.sigBy` is the key under which the signature value `Msg.sig` verifies over `Msg.tbs` -/
structure Tbs where
  psid : Nat
  genTime : Option Nat
  genLoc : Bool
  p2pcdLearn : Bool
  missingCrl : Bool
  expiry : Bool
  encKey : Bool
  inlineReq : Option (List Nat)
  reqCert : Option Cert
  payload : Nat
  deriving DecidableEq, Repr, Inhabited

def Msg.tbs (m : Msg) : Tbs :=
  { psid := m.psid, genTime := m.genTime, genLoc := m.genLoc, p2pcdLearn := m.p2pcdLearn, missingCrl := m.missingCrl,
    expiry := m.expiry, encKey := m.encKey, inlineReq := m.inlineReq, reqCert := m.reqCert, payload := m.payload }

inductive Report where
  | success | falseSignature | invalidCertificate | revokedCertificate | inconsistentChain | invalidTimestamp
  | duplicateMessage | invalidMobilityData | unsignedMessage | signerCertificateNotFound
  | unsupportedSignerIdentifierType | incompatibleProtocol
  deriving DecidableEq, Repr, Inhabited

def Report.code : Report → Nat
  | .success => 0 | .falseSignature => 1 | .invalidCertificate => 2 | .revokedCertificate => 3
  | .inconsistentChain => 4 | .invalidTimestamp => 5 | .duplicateMessage => 6 | .invalidMobilityData => 7
  | .unsignedMessage => 8 | .signerCertificateNotFound => 9 | .unsupportedSignerIdentifierType => 10
  | .incompatibleProtocol => 11

structure Station where
  store : Store := {}
  hasSign : Bool := true          -- VerifyService.sign_service is not None
  unknownAts : List Nat := []
  requestedAts : List Nat := []
  lastFull : Nat := 0             -- cam_handler.last_signer_full_certificate_time, ms (most recent inclusion, any ticket)
  reqOwn : Bool := false          -- cam_handler.requested_own_certificate
  perTicket : Bool := true        -- variant (C05-F2): true = inclusion timer and pending requests kept PER TICKET
                                  -- (repaired code); false = one timer and one flag for all tickets (code before)
  lastOf : List (Nat × Nat) := [] -- cam_handler.last_full_certificate_time_of: HashedId8 ↦ ms   (perTicket only)
  owed : List Nat := []           -- cam_handler.certificate_owed_by, a set of HashedId8          (perTicket only)
  deriving DecidableEq, Repr, Inhabited

structure VOut where
  report : Report
  certId : Option Nat := none
  plain : Option Nat := none
  deriving DecidableEq, Repr, Inhabited

open Store

namespace Station

/-- set union into `certificate_owed_by` -/
def addOwed (owed ids : List Nat) : List Nat := ids.foldl (fun o x => if o.contains x then o else o ++ [x]) owed

/-- `request_own_certificate`: the given own tickets include their certificate in their next CAM/VAM
    (code before C05-F2: the single flag) -/
def requestOwn (S : Station) (ids : List Nat) : Station :=
  if S.perTicket then { S with reqOwn := true, owed := addOwed S.owed ids } else { S with reqOwn := true }

def ownIds (S : Station) : List Nat := S.store.own.map (·.c.id)

/-- `notify_unknown_at`: every own ticket owes its certificate to the new neighbour -/
def notifyUnknown (S : Station) (h8 : Nat) : Station :=
  let x := h3 h8
  ({ S with unknownAts := if S.unknownAts.contains x then S.unknownAts else S.unknownAts ++ [x] }).requestOwn S.ownIds

def addRequested (S : Station) (x : Nat) : Station :=
  if (caByH3 S.store x).isSome && !S.requestedAts.contains x then { S with requestedAts := S.requestedAts ++ [x] } else S

/-- `notify_inline_p2pcd_request` -/
def notifyInline (S : Station) (reqs : List Nat) : Station :=
  let S1 := if S.store.own.any (fun o => reqs.contains (h3 o.c.id)) then
      S.requestOwn ((S.store.own.filter (fun o => reqs.contains (h3 o.c.id))).map (·.c.id)) else S
  reqs.foldl addRequested S1

/-- `notify_received_ca_certificate`: the certificate object is built WITHOUT an attached issuer -/
def notifyReceivedCa (cfg : Cfg) (S : Station) (c : Cert) : Station × Option Err :=
  let x := h3 c.id
  let S1 := { S with requestedAts := S.requestedAts.erase x, unknownAts := S.unknownAts.erase x }
  match S1.store.addAA cfg ⟨c, none⟩ with
  | .error e => (S1, some e)
  | .ok st => ({ S1 with store := st }, none)

def note (S : Station) (h8 : Nat) : Station := if S.hasSign then S.notifyUnknown h8 else S

/-- validity test of the repaired code: start ≤ generationTime ≤ start + duration (µs) -/
def withinValidity (a : Cert) (t : Nat) : Bool := a.start * 1000000 ≤ t && t ≤ a.start * 1000000 + a.durUs

/-- the checks after the ticket has been resolved (pure part: report, or the exception `verify_with_pk` raises) -/
def judge (cfg : Cfg) (m : Msg) (a : SC) : Except Err VOut :=
  if !(a.c.verify cfg a.att && a.c.isAT && a.c.vkiVerif) then .ok { report := .invalidCertificate }
  else match m.genTime with
  | none => .ok { report := .invalidTimestamp, certId := some a.c.id }
  | some t =>
    if m.p2pcdLearn || m.missingCrl then .ok { report := .incompatibleProtocol, certId := some a.c.id }
    else if m.psid == 37 && !m.genLoc then .ok { report := .incompatibleProtocol, certId := some a.c.id }
    else if m.psid == 37 && (m.expiry || m.encKey || m.inlineReq.isSome || m.reqCert.isSome) then
      .ok { report := .incompatibleProtocol, certId := some a.c.id }
    else if cfg.psidGuard && !(a.c.appList.contains m.psid) then
      .ok { report := .invalidCertificate, certId := some a.c.id }
    else if cfg.timeGuard && !(withinValidity a.c t) then
      .ok { report := .invalidTimestamp, certId := some a.c.id }
    else if !(m.sigFmtOk && a.c.keyP256 && a.c.keyUnc) then .error .valueError
    else if m.sigBy == some a.c.key then .ok { report := .success, certId := some a.c.id, plain := some m.payload }
    else .ok { report := .falseSignature, certId := some a.c.id }

def afterInline (S : Station) (m : Msg) : Station :=
  match m.inlineReq with | some r => S.notifyInline r | none => S

/-- P2PCD bookkeeping after a successful verification -/
def onSuccess (cfg : Cfg) (S : Station) (m : Msg) : Station × Option Err :=
  if !S.hasSign then (S, none)
  else
    match m.reqCert with
    | none => (S.afterInline m, none)
    | some c => (S.afterInline m).notifyReceivedCa cfg c

def verifyWith (cfg : Cfg) (S : Station) (m : Msg) (a : SC) : Station × Except Err VOut :=
  match judge cfg m a with
  | .error e => (S, .error e)
  | .ok o =>
    if o.report == .success then
      match onSuccess cfg S m with
      | (S', none) => (S', .ok o)
      | (S', some e) => (S', .error e)
    else (S, .ok o)

/-- `VerifyService.verify` on a message that decoded -/
def verifyMsg (cfg : Cfg) (S : Station) (m : Msg) : Station × Except Err VOut :=
  match m.signer with
  | .selfS => if m.psid == 37 then (S, .ok { report := .unsupportedSignerIdentifierType }) else (S, .error .exception)
  | .digest h =>
    if m.psid == 37 then (S, .ok { report := .unsupportedSignerIdentifierType })
    else match find S.store.ats h with
      | none => (S.note h, .ok { report := .signerCertificateNotFound })
      | some a => verifyWith cfg S m a
  | .certs cs =>
    match cs with
    | [c] =>
      match S.store.verifySeq1 cfg c with
      | .error e => (S, .error e)
      | .ok (_, none) =>
        ((match c.issuer with | .digest h => S.note h | _ => S), .ok { report := .inconsistentChain })
      | .ok (st, some a) => verifyWith cfg { S with store := st } m a
    | _ => (S, .ok { report := .unsupportedSignerIdentifierType })

end Station

/-! ## Router gate -/

inductive Packet where
  | unsecured (payload : Nat)        -- basic header NH = COMMON_HEADER
  | secured (m : Option Msg)         -- NH = SECURED_PACKET; `none`: what follows is not a decodable EtsiTs103097Data-Signed
                                     -- (the envelope does not decode, OR it decodes with a content choice other than
                                     -- signedData – unsecuredData / encryptedData / signedCertificateRequest –, OR its
                                     -- ToBeSignedData does not re-encode): `verify` raises on all of them
  | otherNH                          -- NH = ANY
  | badVersion
  deriving DecidableEq, Repr, Inhabited

inductive GateOut where
  | pass (payload : Nat)             -- handed to process_common_header (→ upper layers)
  | drop (why : String)
  | raise (e : String)
  deriving DecidableEq, Repr, Inhabited

/-- `process_basic_header` + `process_security_header` -/
def gate (cfg : Cfg) (secEnabled hasVerify : Bool) (S : Station) (p : Packet) : Station × GateOut :=
  match p with
  | .badVersion => (S, .raise "NotImplementedError")
  | .otherNH => (S, .raise "NotImplementedError")
  | .unsecured pl => if secEnabled then (S, .drop "unsecured") else (S, .pass pl)
  | .secured none => if hasVerify then (S, .raise "parse") else (S, .drop "no-verify-service")
  | .secured (some m) =>
    if !hasVerify then (S, .drop "no-verify-service")
    else match S.verifyMsg cfg m with
      | (S', .error e) => (S', .raise e.name)
      | (S', .ok o) =>
        if o.report != .success then (S', .drop ("report-" ++ toString o.report.code))
        else match o.plain with
          | some pl => (S', .pass pl)
          | none => (S', .drop "no-plain")

end FlexModel.Sec

/-
Security model, part 1: certificates and `Certificate.verify`  (src/flexstack/security/certificate.py).

Crypto is abstracted: a certificate carries `key` (its public verification key, a number) and
`sigBy : Option Nat` = the key under which its signature really verifies over its ToBeSignedCertificate
("perfect" signature relation; computed by the harness with the `ecdsa` package directly).
`id` is the HashedId8 of the encoded certificate.  Everything else mirrors the Python branch by branch.
Core Lean only.
-/
namespace FlexModel.Sec

/-- IssuerIdentifier: `self sha256`, `self <other hash>`, `sha256AndDigest h`, `sha384AndDigest` -/
inductive Issuer where
  | self | selfOther | digest (h : Nat) | other
  deriving DecidableEq, Repr, Inhabited

inductive Subj where
  | all | explicit (ps : List Nat)
  deriving DecidableEq, Repr, Inhabited

/-- one PsidGroupPermissions entry -/
structure IssuePerm where
  subj : Subj
  minChain : Int
  deriving DecidableEq, Repr, Inhabited

structure Cert where
  id : Nat
  issuer : Issuer
  ctype : Nat                       -- 0 explicit, 1 implicit
  vkiVerif : Bool                   -- verifyKeyIndicator is `verificationKey` (else reconstructionValue)
  sigP256 : Bool                    -- signature choice is ecdsaNistP256Signature
  keyP256 : Bool                    -- verification key choice is ecdsaNistP256
  keyUnc : Bool                     -- … and the point is uncompressedP256 (the only format verify_with_pk takes)
  idNone : Bool                     -- toBeSigned.id is `none`
  app : Option (List Nat)           -- appPermissions (none = field absent)
  issue : Option (List IssuePerm)   -- certIssuePermissions (none = field absent)
  start : Nat                       -- validityPeriod.start, seconds since the ITS epoch
  durUs : Nat                       -- validityPeriod.duration in microseconds
  key : Nat
  sigBy : Option Nat
  deriving DecidableEq, Repr, Inhabited

/-- model variants at the three repaired sites (`true` = code with the fix) -/
structure Cfg where
  allGuard : Bool := true     -- C09-F3: subject with the `all` issuing permission under an explicit issuer is refused
  psidGuard : Bool := true    -- C09-F1: message ITS-AID must be among the ticket's appPermissions
  timeGuard : Bool := true    -- C09-F2: generationTime must lie within the ticket's validity period
  deriving DecidableEq, Repr, Inhabited

def Cfg.fixed : Cfg := {}
def Cfg.old : Cfg := { allGuard := false, psidGuard := false, timeGuard := false }

namespace Cert

def issueList (c : Cert) : List IssuePerm := c.issue.getD []

/-- `certificate_has_all_permissions` -/
def hasAll (c : Cert) : Bool := c.issueList.any (fun p => p.subj == .all)

def explicitOf : IssuePerm → List Nat
  | ⟨.explicit ps, _⟩ => ps
  | ⟨.all, _⟩ => []

/-- `get_list_of_psid_from_cert_issue_permissions` = `get_list_of_allowed_persmissions` -/
def explicitPsids (c : Cert) : List Nat := c.issueList.flatMap explicitOf

def appList (c : Cert) : List Nat := c.app.getD []

/-- `get_list_of_needed_permissions` (order/duplicates irrelevant for the containment test) -/
def needed (c : Cert) : List Nat := c.explicitPsids ++ c.appList

/-- `check_issuer_has_subject_permissions` -/
def permsOk (cfg : Cfg) (c i : Cert) : Bool :=
  if i.hasAll then true
  else if cfg.allGuard && c.hasAll then false
  else c.needed.all (fun p => i.explicitPsids.contains p)

/-- §6 check at the top of `verify` -/
def typeOk (c : Cert) : Bool :=
  !((c.ctype == 0 && !c.vkiVerif) || (c.ctype == 1 && c.vkiVerif))

/-- `signature_is_nist_p256() and verification_key_is_nist_p256()` -/
def algOk (c : Cert) : Bool := c.sigP256 && c.vkiVerif && c.keyP256

/-- `verify_signature` under public key of `i` (`verify_with_pk` raises for other key formats → caught → False) -/
def sigUnder (c i : Cert) : Bool := i.vkiVerif && i.keyP256 && i.keyUnc && c.sigBy == some i.key

def verifyIssued (cfg : Cfg) (c i : Cert) (h : Nat) : Bool :=
  h == i.id && permsOk cfg c i && c.algOk && sigUnder c i

def verifySelf (c : Cert) : Bool := c.algOk && sigUnder c c

/-- `Certificate.verify` for a certificate object whose attached issuer is `att` -/
def verify (cfg : Cfg) (c : Cert) (att : Option Cert) : Bool :=
  if !c.typeOk then false
  else match att, c.issuer with
    | some i, .digest h => verifyIssued cfg c i h
    | _, .self => verifySelf c
    | _, _ => false

/-- `is_authorization_ticket` -/
def isAT (c : Cert) : Bool :=
  (match c.issuer with | .digest _ => true | .other => true | _ => false)
    && c.idNone && c.issue.isNone && c.app.isSome

end Cert

/-! ## Permission semantics used by the specifications (independent of the list representation) -/

/-- the issuer may issue certificates for `p` -/
def Issuable (i : Cert) (p : Nat) : Prop := i.hasAll = true ∨ p ∈ i.explicitPsids

/-- `c` is an issuer for everything -/
def IssuesAll (c : Cert) : Prop := c.hasAll = true

/-- every permission the subject holds – application or issuing – is covered by the issuer's issuing permissions -/
def PermsWithin (c i : Cert) : Prop :=
  (∀ p, p ∈ c.appList → Issuable i p) ∧ (∀ p, Issuable c p → Issuable i p)

end FlexModel.Sec

/-
The receiver's OWN certificates play no role in the verification of a received message: the verdict of
`VerifyService.verify` (report / exception, certificate id, plain message) and what the library learns are the same
whatever `own_certificates` holds.  (Round 4: a forged packet may name the receiver's own – public – ticket digest as
signer; the source consults `known_authorization_tickets` / `verify_sequence_of_certificates` only, regenerated fact
`Generated.SecRx.libraryUses`.)
-/
import FlexModel.Sec.Lemmas
namespace FlexModel.Sec
open Store

/-- the same library holding other own certificates -/
def Store.withOwn (st : Store) (o : List SC) : Store := { st with own := o }

@[simp] theorem withOwn_ats (st : Store) (o : List SC) : (st.withOwn o).ats = st.ats := rfl
@[simp] theorem withOwn_aas (st : Store) (o : List SC) : (st.withOwn o).aas = st.aas := rfl
@[simp] theorem withOwn_roots (st : Store) (o : List SC) : (st.withOwn o).roots = st.roots := rfl
@[simp] theorem withOwn_own (st : Store) (o : List SC) : (st.withOwn o).own = o := rfl

theorem getIssuer_withOwn (st : Store) (o : List SC) (c : Cert) : (st.withOwn o).getIssuer c = st.getIssuer c := by
  unfold Store.getIssuer; rfl

def liftOwn (o : List SC) : Except Err Store → Except Err Store
  | .ok st => .ok (st.withOwn o)
  | .error e => .error e

theorem addAT_withOwn (cfg : Cfg) (st : Store) (o : List SC) (s : SC) :
    (st.withOwn o).addAT cfg s = liftOwn o (st.addAT cfg s) := by
  unfold Store.addAT
  rw [getIssuer_withOwn]
  simp only [withOwn_ats]
  by_cases h : has st.ats s.c.id = true
  · simp only [h, if_true]; rfl
  · simp only [h]
    generalize st.getIssuer s.c = gi
    match gi with
    | .error e => rfl
    | .ok none => rfl
    | .ok (some i) =>
      simp only
      by_cases hv : Cert.verify cfg s.c s.att = true
      · simp only [hv, if_true]; rfl
      · simp only [hv]; rfl

theorem addAA_withOwn (cfg : Cfg) (st : Store) (o : List SC) (s : SC) :
    (st.withOwn o).addAA cfg s = liftOwn o (st.addAA cfg s) := by
  unfold Store.addAA
  rw [getIssuer_withOwn]
  simp only [withOwn_aas]
  by_cases h : has st.aas s.c.id = true
  · simp only [h, if_true]; rfl
  · simp only [h]
    generalize st.getIssuer s.c = gi
    match gi with
    | .error e => rfl
    | .ok none => rfl
    | .ok (some i) =>
      simp only
      by_cases hv : Cert.verify cfg s.c s.att = true
      · simp only [hv, if_true]; rfl
      · simp only [hv]; rfl

def liftOwn2 (o : List SC) : Except Err (Store × Option SC) → Except Err (Store × Option SC)
  | .ok (st, r) => .ok (st.withOwn o, r)
  | .error e => .error e

theorem verifySeq1_withOwn (cfg : Cfg) (st : Store) (o : List SC) (c : Cert) :
    (st.withOwn o).verifySeq1 cfg c = liftOwn2 o (st.verifySeq1 cfg c) := by
  unfold Store.verifySeq1
  rw [getIssuer_withOwn]
  simp only [withOwn_ats]
  generalize find st.ats c.id = fk
  match fk with
  | some k => rfl
  | none =>
    simp only
    generalize st.getIssuer c = gi
    match gi with
    | .error e => rfl
    | .ok none => rfl
    | .ok (some i) =>
      simp only
      by_cases hv : Cert.verify cfg c (some i.c) = true
      · simp only [hv, if_true]
        rw [addAT_withOwn]
        generalize st.addAT cfg ⟨c, some i.c⟩ = r
        match r with
        | .error e => rfl
        | .ok st' => rfl
      · simp only [hv]; rfl

theorem onSuccessCore_withOwn (cfg : Cfg) (st : Store) (o : List SC) (hs : Bool) (m : Msg) :
    onSuccessCore cfg (st.withOwn o) hs m = ((onSuccessCore cfg st hs m).1.withOwn o, (onSuccessCore cfg st hs m).2) := by
  unfold onSuccessCore
  cases hs with
  | false => rfl
  | true =>
    simp only [Bool.not_true, Bool.false_eq_true, if_false]
    generalize m.reqCert = rc
    match rc with
    | none => rfl
    | some c =>
      simp only
      rw [addAA_withOwn]
      generalize st.addAA cfg ⟨c, none⟩ = r
      match r with
      | .error e => rfl
      | .ok st' => rfl

theorem verifyWithCore_withOwn (cfg : Cfg) (st : Store) (o : List SC) (hs : Bool) (m : Msg) (a : SC) :
    verifyWithCore cfg (st.withOwn o) hs m a =
      ((verifyWithCore cfg st hs m a).1.withOwn o, (verifyWithCore cfg st hs m a).2) := by
  unfold verifyWithCore
  generalize Station.judge cfg m a = j
  match j with
  | .error e => rfl
  | .ok v =>
    simp only
    by_cases hr : (v.report == .success) = true
    · simp only [hr, if_true]
      rw [onSuccessCore_withOwn]
      generalize onSuccessCore cfg st hs m = r
      match r with
      | (st', none) => rfl
      | (st', some e) => rfl
    · simp only [hr]; rfl

/-- MAIN lemma: the library-level verdict commutes with replacing the own certificates -/
theorem verifyMsgCore_withOwn (cfg : Cfg) (st : Store) (o : List SC) (hs : Bool) (m : Msg) :
    verifyMsgCore cfg (st.withOwn o) hs m =
      ((verifyMsgCore cfg st hs m).1.withOwn o, (verifyMsgCore cfg st hs m).2) := by
  unfold verifyMsgCore
  generalize m.signer = sg
  match sg with
  | .selfS => simp only; by_cases h : (m.psid == 37) = true <;> simp [h]
  | .digest h =>
    simp only [withOwn_ats]
    by_cases h37 : (m.psid == 37) = true
    · simp only [h37, if_true] <;> rfl
    · simp only [h37]
      generalize find st.ats h = fk
      match fk with
      | none => rfl
      | some a => exact verifyWithCore_withOwn cfg st o hs m a
  | .certs [] => rfl
  | .certs (_ :: _ :: _) => rfl
  | .certs [c] =>
    simp only
    rw [verifySeq1_withOwn]
    generalize st.verifySeq1 cfg c = r
    match r with
    | .error e => rfl
    | .ok (st', none) => rfl
    | .ok (st', some a) => exact verifyWithCore_withOwn cfg st' o hs m a

/-- a station holding other own certificates -/
def Station.withOwn (S : Station) (o : List SC) : Station := { S with store := S.store.withOwn o }

theorem verifyMsg_withOwn (cfg : Cfg) (S : Station) (o : List SC) (m : Msg) :
    ((S.withOwn o).verifyMsg cfg m).2 = (S.verifyMsg cfg m).2 ∧
    ((S.withOwn o).verifyMsg cfg m).1.store = (S.verifyMsg cfg m).1.store.withOwn o := by
  have h1 := verifyMsg_core cfg (S.withOwn o) m
  have h2 := verifyMsg_core cfg S m
  have h3 := verifyMsgCore_withOwn cfg S.store o S.hasSign m
  have hs : (S.withOwn o).hasSign = S.hasSign := rfl
  have hst : (S.withOwn o).store = S.store.withOwn o := rfl
  rw [hs, hst, h3, ← h2] at h1
  simp only [Prod.mk.injEq] at h1
  exact ⟨h1.2, h1.1⟩

end FlexModel.Sec

/-
Issuing permissions are a LIST of PsidGroupPermissions entries; the issuing scope is the UNION over all entries
(IEEE 1609.2 certIssuePermissions), for every number of entries.  Lemmas used by Props/C09.lean (containment is decided
against the union) and Props/C05.lean (a ticket under an authority with several groups is accepted).
-/
import FlexModel.Sec.Lemmas
namespace FlexModel.Sec

/-- `p` is named by SOME explicit PsidGroupPermissions entry of `i` (any position in the list) -/
def InSomeGroup (i : Cert) (p : Nat) : Prop := ∃ g ∈ i.issueList, ∃ ps, g.subj = .explicit ps ∧ p ∈ ps

theorem mem_explicitOf {g : IssuePerm} {p : Nat} : p ∈ Cert.explicitOf g ↔ ∃ ps, g.subj = .explicit ps ∧ p ∈ ps := by
  cases g with
  | mk subj mc => cases subj <;> simp [Cert.explicitOf]

/-- `get_list_of_allowed_persmissions` is the union of all explicit groups -/
theorem mem_explicitPsids {i : Cert} {p : Nat} : p ∈ i.explicitPsids ↔ InSomeGroup i p := by
  unfold Cert.explicitPsids InSomeGroup
  simp only [List.mem_flatMap, mem_explicitOf]

theorem hasAll_iff {i : Cert} : i.hasAll = true ↔ ∃ g ∈ i.issueList, g.subj = .all := by
  unfold Cert.hasAll
  simp only [List.any_eq_true, beq_iff_eq]

theorem issuable_iff {i : Cert} {p : Nat} : Issuable i p ↔ ((∃ g ∈ i.issueList, g.subj = .all) ∨ InSomeGroup i p) := by
  unfold Issuable; rw [hasAll_iff, mem_explicitPsids]

/-- the containment test, spelled out over the list of groups -/
theorem permsOk_iff_union (c i : Cert) :
    Cert.permsOk Cfg.fixed c i = true ↔
      (i.hasAll = true ∨ (c.hasAll = false ∧ ∀ p ∈ c.needed, InSomeGroup i p)) := by
  unfold Cert.permsOk
  by_cases hi : i.hasAll = true
  · simp [hi]
  · have hi' : i.hasAll = false := by simpa using hi
    by_cases hc : c.hasAll = true
    · simp [hi', hc, Cfg.fixed]
    · have hc' : c.hasAll = false := by simpa using hc
      simp only [hi', hc', Cfg.fixed, Bool.false_eq_true, if_false, Bool.and_false, List.all_eq_true, false_or, true_and]
      constructor
      · intro h p hp; have := h p hp; exact mem_explicitPsids.1 (by simpa using this)
      · intro h p hp; have := mem_explicitPsids.2 (h p hp); simpa using this

/-- the verdict depends on the issuer's groups only through `hasAll` and the union of the explicit groups -/
theorem permsOk_congr_groups (cfg : Cfg) (c i i' : Cert) (hall : i.hasAll = i'.hasAll)
    (hu : ∀ p, InSomeGroup i p ↔ InSomeGroup i' p) : Cert.permsOk cfg c i = Cert.permsOk cfg c i' := by
  have hcontains : ∀ p, i.explicitPsids.contains p = i'.explicitPsids.contains p := by
    intro p
    rw [Bool.eq_iff_iff]
    simp only [List.contains_iff_mem, mem_explicitPsids]
    exact hu p
  unfold Cert.permsOk
  rw [hall]
  simp only [hcontains]

theorem inSomeGroup_perm {i i' : Cert} (h : List.Perm i.issueList i'.issueList) (p : Nat) :
    InSomeGroup i p ↔ InSomeGroup i' p := by
  unfold InSomeGroup
  constructor
  · rintro ⟨g, hg, r⟩; exact ⟨g, h.mem_iff.1 hg, r⟩
  · rintro ⟨g, hg, r⟩; exact ⟨g, h.mem_iff.2 hg, r⟩

theorem hasAll_perm {i i' : Cert} (h : List.Perm i.issueList i'.issueList) : i.hasAll = i'.hasAll := by
  rw [Bool.eq_iff_iff, hasAll_iff, hasAll_iff]
  constructor
  · rintro ⟨g, hg, r⟩; exact ⟨g, h.mem_iff.1 hg, r⟩
  · rintro ⟨g, hg, r⟩; exact ⟨g, h.mem_iff.2 hg, r⟩

/-! ### a ticket under an authority with any number of groups verifies and makes the receiver `Ready` -/

theorem at_no_issue {c : Cert} (h : c.isAT = true) : c.issueList = [] := by
  unfold Cert.isAT at h
  simp only [Bool.and_eq_true] at h
  unfold Cert.issueList
  cases hi : c.issue with
  | none => rfl
  | some l => rw [hi] at h; simp at h

/-- `Certificate.verify` of a ticket `c` under the authority `i`: named by digest, signed with its key, usable key
    formats, and every ITS-AID of the ticket named by SOME group of `i` (or `i` may issue everything) -/
theorem verify_of_union {cfg : Cfg} {c i : Cert} (hgood : CertGood c) (hct : c.ctype = 0) (hsa : c.sigP256 = true)
    (hiss : c.issuer = .digest i.id) (hsig : c.sigBy = some i.key)
    (hik : i.vkiVerif = true ∧ i.keyP256 = true ∧ i.keyUnc = true)
    (hperm : i.hasAll = true ∨ ∀ p ∈ c.appList, InSomeGroup i p) : c.verify cfg (some i) = true := by
  have hnil := at_no_issue hgood.isAT
  have hcall : c.hasAll = false := by unfold Cert.hasAll; rw [hnil]; rfl
  have hneed : c.needed = c.appList := by unfold Cert.needed Cert.explicitPsids; rw [hnil]; rfl
  have hp : Cert.permsOk cfg c i = true := by
    unfold Cert.permsOk
    rcases hperm with h | h
    · simp [h]
    · by_cases hi : i.hasAll = true
      · simp [hi]
      · simp only [hi, hcall, Bool.and_false, Bool.false_eq_true, if_false, hneed, List.all_eq_true]
        intro p hp'
        have := mem_explicitPsids.2 (h p hp')
        simpa using this
  unfold Cert.verify Cert.typeOk
  simp only [hct, hgood.vki, hiss]
  simp [Cert.verifyIssued, hp, Cert.algOk, hsa, hgood.vki, hgood.keyP256, Cert.sigUnder, hik.1, hik.2.1, hik.2.2, hsig]

theorem knownGood_of_unknown {cfg : Cfg} {st : Store} {c : Cert} (h : find st.ats c.id = none) : KnownGood cfg st c := by
  intro a ha hid
  have := find_none_has h
  unfold has at this
  rw [List.any_eq_false] at this
  have := this a ha
  simp [hid] at this

/-- the receiver configuration of C05 ("knows root + AA") in terms of the certificates: the library resolves the
    ticket's issuer to an authority `i` whose groups – however many – together cover the ticket's ITS-AIDs -/
theorem ready_of_union {cfg : Cfg} {st : Store} {c : Cert} {i : SC} (hgood : CertGood c) (hct : c.ctype = 0)
    (hsa : c.sigP256 = true) (hfind : st.getIssuer c = .ok (some i)) (hsig : c.sigBy = some i.c.key)
    (hik : i.c.vkiVerif = true ∧ i.c.keyP256 = true ∧ i.c.keyUnc = true)
    (hperm : i.c.hasAll = true ∨ ∀ p ∈ c.appList, InSomeGroup i.c p)
    (hknown : KnownGood cfg st c) : Ready cfg st c := by
  obtain ⟨hh, hiss, hid, _⟩ := getIssuer_some hfind
  refine ⟨hgood, ⟨i, hfind, ?_⟩, hknown⟩
  exact verify_of_union hgood hct hsa (by rw [hiss, hid]) hsig hik hperm

/-- "the receiver trusts the root and the AA, and the ticket is valid", read off the CERTIFICATES (no call of the
    receiver's own `verify`): `c` has the form of an authorization ticket with usable key formats; the library resolves
    its issuer digest to an authority `i` (under a root or another authority) whose key signed it and whose
    PsidGroupPermissions entries – any number – together name every ITS-AID of the ticket (or `i` may issue everything);
    and if the library already holds a ticket under `c`'s HashedId8 it is `c` itself, attached to that authority
    (pre-loaded peer ticket) -/
structure TrustsTicket (st : Store) (c : Cert) : Prop where
  good : CertGood c
  ctype : c.ctype = 0
  sigAlg : c.sigP256 = true
  issuer : ∃ i, st.getIssuer c = .ok (some i) ∧ c.sigBy = some i.c.key ∧
    (i.c.vkiVerif = true ∧ i.c.keyP256 = true ∧ i.c.keyUnc = true) ∧
    (i.c.hasAll = true ∨ ∀ p ∈ c.appList, InSomeGroup i.c p) ∧
    (∀ a ∈ st.ats, a.c.id = c.id → a.c = c ∧ a.att = some i.c)

/-- … implies what the acceptance lemmas need (`Ready`: the receiver's `verify` accepts the ticket) -/
theorem ready_of_trusts (cfg : Cfg) {st : Store} {c : Cert} (h : TrustsTicket st c) : Ready cfg st c := by
  obtain ⟨i, hfind, hsig, hik, hperm, hknown⟩ := h.issuer
  obtain ⟨hh, hiss, hid, _⟩ := getIssuer_some hfind
  have hv : c.verify cfg (some i.c) = true :=
    verify_of_union h.good h.ctype h.sigAlg (by rw [hiss, hid]) hsig hik hperm
  refine ⟨h.good, ⟨i, hfind, hv⟩, fun a ha hid' => ?_⟩
  obtain ⟨h1, h2⟩ := hknown a ha hid'
  exact ⟨h1, by rw [h1, h2]; exact hv⟩

end FlexModel.Sec

/-
Security model, part 5: source operations at the wire level - what `Router.gn_data_request_gbc` (GeoBroadcast; GeoAnycast
delegates to it) hands to the link layer for a packet it ORIGINATES.  The GN-PDU is assembled in the source operation
itself: Basic Header + (the secured message the sign service returned, when itsGnSecurity is ENABLED, else Common Header +
extended header + payload), identically in the AREA_FORWARDING branch (source inside the destination area) and in the
NON_AREA_FORWARDING branch (source outside: greedy forwarding towards the area).  The forwarders' helper `_forward_pdu`
- which takes the envelope from the per-thread RECEIVE context, empty at a source - is not involved: regenerated fact
`Generated.RouterRx.forwardPduCallers` (who calls it), obligation `Props.C05.source_operations_assemble_their_own_pdu`.
-/
import FlexModel.Sec.Sign
namespace FlexModel.Sec

/-- outcome of the forwarding algorithm selection (annex D) at the source -/
inductive SrcAlg where
  | area            -- source inside / at the border of the destination area
  | nonArea         -- source outside: greedy forwarding
  | discard
  deriving DecidableEq, Repr, Inhabited

/-- the decisions of one source operation that do not depend on security: `buffered` = no neighbour and SCF set (step 2),
    `alg` = annex D, `greedy` = `gn_greedy_forwarding` decides to transmit (a neighbour with progress, or no SCF) -/
structure SrcDecision where
  buffered : Bool
  alg : SrcAlg
  greedy : Bool
  deriving DecidableEq, Repr, Inhabited

/-- the frame handed to the link layer (`none`: nothing is sent).  `signed` = what the sign service returned
    (`some m` iff itsGnSecurity is ENABLED), `plain` = the unsecured PDU body -/
def originate (d : SrcDecision) (signed : Option Msg) (plain : Nat) : Option Packet :=
  let inner : Packet := match signed with
    | some m => .secured (some m)
    | none => .unsecured plain
  if d.buffered then none
  else match d.alg with
    | .area => some inner
    | .nonArea => if d.greedy then some inner else none
    | .discard => none

/-- a frame assembled by the forwarders' helper under receive context `ctx` (the secured message of the packet being
    RECEIVED by this thread, `none` at a source): Basic Header NH = SECURED followed by the context's envelope if there is
    one, by the plain headers otherwise - kept here to state what a source operation must NOT do -/
def viaForwardHelper (ctx : Option Msg) (secured : Bool) (plain : Nat) : Packet :=
  match ctx with
  | some m => .secured (some m)
  | none => if secured then .secured none else .unsecured plain

theorem originate_some {d : SrcDecision} {signed : Option Msg} {plain : Nat} {p : Packet}
    (h : originate d signed plain = some p) :
    p = (match signed with | some m => Packet.secured (some m) | none => Packet.unsecured plain) := by
  rcases d with ⟨b, alg, g⟩
  cases signed <;> cases b <;> cases alg <;> cases g <;> simp [originate] at h ⊢ <;> exact h.symm

end FlexModel.Sec

/-
Specification vocabulary of the security properties (C09, C03, C05), independent of the code's list encodings.
-/
import FlexModel.Sec.Sign
namespace FlexModel.Sec

/-- `c` verifies under `i`: names it as issuer, is signed with its key, and holds only permissions `i` may issue -/
structure Link (c i : Cert) : Prop where
  names : c.issuer = .digest i.id
  signed : c.sigBy = some i.key
  perms : PermsWithin c i

def certsOf (l : List SC) : List Cert := l.map (·.c)

/-- an abstract signature scheme: `V k t s` = the signature value `s` verifies over the signed content `t` under key
    `k`.  `binding` is the cryptographic ASSUMPTION the tamper theorems rest on (ECDSA unforgeability + SHA-256
    collision resistance, stated as: one signature value is valid for at most one content under a key) -/
structure SigScheme where
  V : Nat → Tbs → Nat → Prop
  binding : ∀ k t t' s, V k t s → V k t' s → t = t'

/-- soundness of the abstraction of a message: the key recorded in `sigBy` really validates the signature value over
    the message's signed content (what harness/sec_common.abs_msg computes by public-key recovery) -/
def Msg.SigSound (G : SigScheme) (m : Msg) : Prop := ∀ k, m.sigBy = some k → G.V k m.tbs m.sig

/-- a finite chain of `Link`s from `c` through stored authorities up to a configured root -/
inductive Chain (st : Store) : Cert → Prop
  | root {c : Cert} : c ∈ certsOf st.roots → Chain st c
  | step {c i : Cert} : (c ∈ certsOf st.aas ∨ c ∈ certsOf st.ats) →
      (i ∈ certsOf st.roots ∨ i ∈ certsOf st.aas) → Link c i → Chain st i → Chain st c

/-- trust-store closure: every stored authority and ticket chains to a configured root -/
def Closed (st : Store) : Prop := ∀ c, (c ∈ certsOf st.aas ∨ c ∈ certsOf st.ats) → Chain st c

/-- HashedId8 collision freedom on a universe of certificates -/
def IdInj (U : Cert → Prop) : Prop := ∀ a b, U a → U b → a.id = b.id → a = b

/-- every certificate held by the store belongs to the universe -/
def Store.Within (U : Cert → Prop) (st : Store) : Prop :=
  ∀ c, (c ∈ certsOf st.roots ∨ c ∈ certsOf st.aas ∨ c ∈ certsOf st.ats ∨ c ∈ certsOf st.own) → U c

def SC.Within (U : Cert → Prop) (s : SC) : Prop := U s.c ∧ ∀ i, s.att = some i → U i

/-- library / station operations of a history -/
inductive Op where
  | addRoot (s : SC) | addAA (s : SC) | addAT (s : SC) | addOwn (s : SC)
  | vseq (cs : List Cert)
  | msg (m : Msg)
  | signCam (now psid genTime payload : Nat)
  | signDenm (hasLoc : Bool) (psid genTime payload : Nat)
  | signOther (psid genTime payload : Nat)

def Msg.certs (m : Msg) : List Cert :=
  (match m.signer with | .certs cs => cs | _ => []) ++ (match m.reqCert with | some c => [c] | none => [])

/-- all certificates an operation mentions (incl. attached issuer objects) -/
def Op.certs : Op → List Cert
  | .addRoot s | .addAA s | .addAT s | .addOwn s => s.c :: (match s.att with | some i => [i] | none => [])
  | .vseq cs => cs
  | .msg m => m.certs
  | _ => []

def okOr {α} (d : α) : Except Err α → α
  | .ok a => a
  | .error _ => d

/-- one operation on a station (an operation that raises leaves what it had changed so far) -/
def Station.step (cfg : Cfg) (S : Station) : Op → Station
  | .addRoot s => { S with store := S.store.addRoot cfg s }
  | .addAA s => { S with store := okOr S.store (S.store.addAA cfg s) }
  | .addAT s => { S with store := okOr S.store (S.store.addAT cfg s) }
  | .addOwn s => { S with store := okOr S.store (S.store.addOwn cfg s) }
  | .vseq cs => { S with store := (okOr (S.store, none) (S.store.verifySeq cfg cs)).1 }
  | .msg m => (S.verifyMsg cfg m).1
  | .signCam now psid gt pl => (S.signCam now psid gt pl).1
  | .signDenm loc psid gt pl => (S.signDenm loc psid gt pl).1
  | .signOther psid gt pl => (S.signOther psid gt pl).1

def Station.run (cfg : Cfg) (S : Station) (ops : List Op) : Station := ops.foldl (Station.step cfg) S

end FlexModel.Sec

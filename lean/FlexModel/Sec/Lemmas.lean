/-
Helper lemmas for the security property theorems (Props/C09, C03, C05).
-/
import FlexModel.Sec.Spec
namespace FlexModel.Sec
open Store


/-! ### list lemmas -/

theorem find_some_mem {l : List SC} {h : Nat} {s : SC} (hf : find l h = some s) : s ∈ l ∧ s.c.id = h := by
  unfold find at hf
  have h1 := List.mem_of_find?_eq_some hf
  have h2 := List.find?_some hf
  exact ⟨h1, by simpa using h2⟩

theorem find_none_has {l : List SC} {h : Nat} (hf : find l h = none) : has l h = false := by
  unfold find at hf; unfold has
  rw [List.find?_eq_none] at hf
  simp only [List.any_eq_false]
  intro x hx; simpa using hf x hx

theorem mem_certsOf {l : List SC} {c : Cert} : c ∈ certsOf l ↔ ∃ s ∈ l, s.c = c := by
  simp [certsOf]

theorem certsOf_append (l : List SC) (s : SC) : certsOf (l ++ [s]) = certsOf l ++ [s.c] := by
  simp [certsOf]

theorem mem_certsOf_put {l : List SC} {s : SC} {c : Cert} (h : c ∈ certsOf (put l s)) : c ∈ certsOf l ∨ c = s.c := by
  unfold put at h
  split at h
  · rw [mem_certsOf] at h
    obtain ⟨x, hx, rfl⟩ := h
    rw [List.mem_map] at hx
    obtain ⟨y, hy, rfl⟩ := hx
    split
    · right; rfl
    · left; exact mem_certsOf.2 ⟨y, hy, rfl⟩
  · rw [certsOf_append] at h
    simp at h
    rcases h with h | h
    · left; exact h
    · right; exact h

theorem certsOf_put_self (l : List SC) (s : SC) : s.c ∈ certsOf (put l s) := by
  unfold put
  split
  · rename_i h
    unfold has at h
    rw [List.any_eq_true] at h
    obtain ⟨x, hx, hid⟩ := h
    rw [mem_certsOf]
    refine ⟨s, ?_, rfl⟩
    rw [List.mem_map]
    exact ⟨x, hx, by simp [hid]⟩
  · rw [certsOf_append]; simp

theorem certsOf_put_mono {U : Cert → Prop} (hinj : IdInj U) {l : List SC} {s : SC}
    (hl : ∀ c ∈ certsOf l, U c) (hs : U s.c) {c : Cert} (h : c ∈ certsOf l) : c ∈ certsOf (put l s) := by
  unfold put
  split
  · rw [mem_certsOf] at h ⊢
    obtain ⟨x, hx, rfl⟩ := h
    by_cases hid : x.c.id = s.c.id
    · have : x.c = s.c := hinj _ _ (hl _ (mem_certsOf.2 ⟨x, hx, rfl⟩)) hs hid
      refine ⟨s, ?_, this.symm⟩
      rw [List.mem_map]; exact ⟨x, hx, by simp [hid]⟩
    · refine ⟨x, ?_, rfl⟩
      rw [List.mem_map]; exact ⟨x, hx, by simp [hid]⟩
  · rw [certsOf_append]; simp [h]



/-! ### certificate verification facts -/

theorem permsOk_within {cfg : Cfg} (hg : cfg.allGuard = true) {c i : Cert} (h : Cert.permsOk cfg c i = true) :
    PermsWithin c i := by
  unfold Cert.permsOk at h
  by_cases hi : i.hasAll = true
  · exact ⟨fun p _ => Or.inl hi, fun p _ => Or.inl hi⟩
  · simp only [hi, hg, Bool.true_and, Bool.false_eq_true, if_false] at h
    by_cases hc : c.hasAll = true
    · simp [hc] at h
    · simp only [hc, Bool.false_eq_true, if_false, List.all_eq_true] at h
      have hn : ∀ p, p ∈ c.needed → p ∈ i.explicitPsids := by
        intro p hp; have := h p hp; simpa using this
      refine ⟨fun p hp => Or.inr (hn p ?_), fun p hp => Or.inr (hn p ?_)⟩
      · simp [Cert.needed, hp]
      · rcases hp with hp | hp
        · exact absurd hp hc
        · simp [Cert.needed, hp]

/-- what a successful `verify` of a certificate naming a digest issuer establishes -/
theorem verify_digest {cfg : Cfg} (hg : cfg.allGuard = true) {c : Cert} {att : Option Cert} {h : Nat}
    (hi : c.issuer = .digest h) (hv : c.verify cfg att = true) :
    ∃ i, att = some i ∧ h = i.id ∧ Link c i := by
  unfold Cert.verify at hv
  split at hv
  · simp at hv
  · rw [hi] at hv
    cases att with
    | none => simp at hv
    | some i =>
      simp only [Cert.verifyIssued, Cert.sigUnder, Bool.and_eq_true, beq_iff_eq] at hv
      obtain ⟨⟨⟨hh, hp⟩, _⟩, _, hs⟩ := hv
      exact ⟨i, rfl, hh, ⟨by rw [hi, hh], hs, permsOk_within hg hp⟩⟩

/-! ### chains are monotone in the store -/

def Store.Le (a b : Store) : Prop :=
  (∀ c, c ∈ certsOf a.roots → c ∈ certsOf b.roots) ∧ (∀ c, c ∈ certsOf a.aas → c ∈ certsOf b.aas) ∧
  (∀ c, c ∈ certsOf a.ats → c ∈ certsOf b.ats)

theorem Chain.mono {a b : Store} (hle : Store.Le a b) {c : Cert} (h : Chain a c) : Chain b c := by
  induction h with
  | root hr => exact Chain.root (hle.1 _ hr)
  | step hc hi hl _ ih =>
    refine Chain.step ?_ ?_ hl ih
    · rcases hc with hc | hc
      · exact Or.inl (hle.2.1 _ hc)
      · exact Or.inr (hle.2.2 _ hc)
    · rcases hi with hi | hi
      · exact Or.inl (hle.1 _ hi)
      · exact Or.inr (hle.2.1 _ hi)

theorem getIssuer_some {st : Store} {c : Cert} {j : SC} (h : st.getIssuer c = .ok (some j)) :
    ∃ hh, c.issuer = .digest hh ∧ j.c.id = hh ∧ (j.c ∈ certsOf st.roots ∨ j.c ∈ certsOf st.aas) := by
  unfold Store.getIssuer at h
  split at h
  · simp at h
  · simp at h
  · rename_i hh hiss
    refine ⟨hh, hiss, ?_⟩
    simp only [Except.ok.injEq] at h
    split at h
    · rename_i r hr
      cases h
      obtain ⟨hm, hid⟩ := find_some_mem hr
      exact ⟨hid, Or.inl (mem_certsOf.2 ⟨_, hm, rfl⟩)⟩
    · obtain ⟨hm, hid⟩ := find_some_mem h
      exact ⟨hid, Or.inr (mem_certsOf.2 ⟨_, hm, rfl⟩)⟩
  · simp at h

structure Inv (U : Cert → Prop) (st : Store) : Prop where
  within : st.Within U
  closed : Closed st

/-- the issuer found in the library IS the attached issuer the signature was checked against -/
theorem issuer_chain {U : Cert → Prop} (hinj : IdInj U) {cfg : Cfg} (hg : cfg.allGuard = true) {st : Store}
    (hinv : Inv U st) {s : SC} (hs : s.Within U) {j : SC} (hj : st.getIssuer s.c = .ok (some j))
    (hv : s.c.verify cfg s.att = true) :
    ∃ i, (i ∈ certsOf st.roots ∨ i ∈ certsOf st.aas) ∧ Link s.c i ∧ Chain st i := by
  obtain ⟨hh, hiss, hid, hmem⟩ := getIssuer_some hj
  obtain ⟨i, hatt, hhi, hl⟩ := verify_digest hg hiss hv
  have hUi : U i := hs.2 i hatt
  have hUj : U j.c := hinv.within _ (by rcases hmem with h | h; exact Or.inl h; exact Or.inr (Or.inl h))
  have : j.c = i := hinj _ _ hUj hUi (by rw [hid, hhi])
  subst this
  refine ⟨j.c, hmem, hl, ?_⟩
  rcases hmem with h | h
  · exact Chain.root h
  · exact hinv.closed _ (Or.inl h)


theorem Store.Le.refl (a : Store) : Store.Le a a := ⟨fun _ h => h, fun _ h => h, fun _ h => h⟩

theorem Closed.extend {a b : Store} (hle : Store.Le a b) (hc : Closed a)
    (hnew : ∀ c, (c ∈ certsOf b.aas ∨ c ∈ certsOf b.ats) → (c ∈ certsOf a.aas ∨ c ∈ certsOf a.ats) ∨ Chain b c) :
    Closed b := by
  intro c h
  rcases hnew c h with h' | h'
  · exact (hc c h').mono hle
  · exact h'

variable {U : Cert → Prop}

theorem addRoot_inv (hinj : IdInj U) (cfg : Cfg) {st : Store} (hinv : Inv U st) {s : SC} (hs : s.Within U) :
    Inv U (st.addRoot cfg s) := by
  unfold Store.addRoot
  split
  · have hroots : ∀ c ∈ certsOf st.roots, U c := fun c h => hinv.within c (Or.inl h)
    have hle : Store.Le st { st with roots := put st.roots s } :=
      ⟨fun c h => certsOf_put_mono hinj hroots hs.1 h, fun _ h => h, fun _ h => h⟩
    refine ⟨?_, Closed.extend hle hinv.closed (fun c h => Or.inl h)⟩
    intro c h
    rcases h with h | h
    · rcases mem_certsOf_put h with h | h
      · exact hinv.within c (Or.inl h)
      · exact h ▸ hs.1
    · exact hinv.within c (Or.inr h)
  · exact hinv

theorem addAA_inv (hinj : IdInj U) {cfg : Cfg} (hg : cfg.allGuard = true) {st st' : Store} (hinv : Inv U st)
    {s : SC} (hs : s.Within U) (h : st.addAA cfg s = .ok st') : Inv U st' := by
  unfold Store.addAA at h
  split at h
  · cases h; exact hinv
  · split at h
    · simp at h
    · cases h; exact hinv
    · rename_i j hj
      simp only [Except.ok.injEq] at h
      split at h
      · rename_i hv
        subst h
        obtain ⟨i, hmem, hl, hch⟩ := issuer_chain hinj hg hinv hs hj hv
        have hle : Store.Le st { st with aas := st.aas ++ [s] } :=
          ⟨fun _ h => h, fun c h => by rw [certsOf_append]; simp [h], fun _ h => h⟩
        refine ⟨?_, Closed.extend hle hinv.closed ?_⟩
        · intro c h
          rcases h with h | h | h
          · exact hinv.within c (Or.inl h)
          · rw [certsOf_append] at h; simp at h
            rcases h with h | h
            · exact hinv.within c (Or.inr (Or.inl h))
            · exact h ▸ hs.1
          · exact hinv.within c (Or.inr (Or.inr h))
        · intro c h
          rcases h with h | h
          · rw [certsOf_append] at h; simp at h
            rcases h with h | h
            · exact Or.inl (Or.inl h)
            · right; subst h
              refine Chain.step (Or.inl (by rw [certsOf_append]; simp)) ?_ hl (hch.mono hle)
              rcases hmem with hm | hm
              · exact Or.inl hm
              · exact Or.inr (hle.2.1 _ hm)
          · exact Or.inl (Or.inr h)
      · subst h; exact hinv

theorem addAT_inv (hinj : IdInj U) {cfg : Cfg} (hg : cfg.allGuard = true) {st st' : Store} (hinv : Inv U st)
    {s : SC} (hs : s.Within U) (h : st.addAT cfg s = .ok st') : Inv U st' := by
  unfold Store.addAT at h
  split at h
  · cases h; exact hinv
  · split at h
    · simp at h
    · cases h; exact hinv
    · rename_i j hj
      simp only [Except.ok.injEq] at h
      split at h
      · rename_i hv
        subst h
        obtain ⟨i, hmem, hl, hch⟩ := issuer_chain hinj hg hinv hs hj hv
        have hle : Store.Le st { st with ats := st.ats ++ [s] } :=
          ⟨fun _ h => h, fun _ h => h, fun c h => by rw [certsOf_append]; simp [h]⟩
        refine ⟨?_, Closed.extend hle hinv.closed ?_⟩
        · intro c h
          rcases h with h | h | h | h
          · exact hinv.within c (Or.inl h)
          · exact hinv.within c (Or.inr (Or.inl h))
          · rw [certsOf_append] at h; simp at h
            rcases h with h | h
            · exact hinv.within c (Or.inr (Or.inr (Or.inl h)))
            · exact h ▸ hs.1
          · exact hinv.within c (Or.inr (Or.inr (Or.inr h)))
        · intro c h
          rcases h with h | h
          · exact Or.inl (Or.inl h)
          · rw [certsOf_append] at h; simp at h
            rcases h with h | h
            · exact Or.inl (Or.inr h)
            · right; subst h
              exact Chain.step (Or.inr (by rw [certsOf_append]; simp)) hmem hl (hch.mono hle)
      · subst h; exact hinv

theorem addOwn_inv (_hinj : IdInj U) {cfg : Cfg} {st st' : Store} (hinv : Inv U st)
    {s : SC} (hs : s.Within U) (h : st.addOwn cfg s = .ok st') : Inv U st' := by
  unfold Store.addOwn at h
  split at h
  · simp at h
  · cases h; exact hinv
  · simp only [Except.ok.injEq] at h
    split at h
    · subst h
      have hle : Store.Le st { st with own := put st.own s } := ⟨fun _ h => h, fun _ h => h, fun _ h => h⟩
      refine ⟨?_, fun c hc => (hinv.closed c hc).mono hle⟩
      intro c h
      rcases h with h | h | h | h
      · exact hinv.within c (Or.inl h)
      · exact hinv.within c (Or.inr (Or.inl h))
      · exact hinv.within c (Or.inr (Or.inr (Or.inl h)))
      · rcases mem_certsOf_put h with h | h
        · exact hinv.within c (Or.inr (Or.inr (Or.inr h)))
        · exact h ▸ hs.1
    · subst h; exact hinv




theorem getIssuer_within {st : Store} (hw : st.Within U) {c : Cert} {j : SC} (hj : st.getIssuer c = .ok (some j)) :
    U j.c := by
  obtain ⟨_, _, _, hmem⟩ := getIssuer_some hj
  rcases hmem with h | h
  · exact hw _ (Or.inl h)
  · exact hw _ (Or.inr (Or.inl h))

theorem verifySeq1_inv (hinj : IdInj U) {cfg : Cfg} (hg : cfg.allGuard = true) {st st' : Store} (hinv : Inv U st)
    {c : Cert} (hc : U c) {r : Option SC} (h : st.verifySeq1 cfg c = .ok (st', r)) : Inv U st' := by
  unfold Store.verifySeq1 at h
  split at h
  · cases h; exact hinv
  · split at h
    · simp at h
    · cases h; exact hinv
    · rename_i i hi
      simp only at h
      split at h
      · split at h
        · simp at h
        · rename_i st2 hadd
          cases h
          refine addAT_inv hinj hg hinv ⟨hc, ?_⟩ hadd
          intro x hx; cases hx; exact getIssuer_within hinv.within hi
      · cases h; exact hinv

theorem verifySeq2_inv (hinj : IdInj U) {cfg : Cfg} (hg : cfg.allGuard = true) {st st' : Store} (hinv : Inv U st)
    {c aa : Cert} (hc : U c) (ha : U aa) {r : Option SC} (h : st.verifySeq2 cfg c aa = .ok (st', r)) : Inv U st' := by
  unfold Store.verifySeq2 at h
  split at h
  · split at h
    · cases h; exact hinv
    · rename_i rt hrt
      simp only at h
      have hUr : U rt.c := hinv.within _ (Or.inl (mem_certsOf.2 ⟨rt, (find_some_mem hrt).1, rfl⟩))
      split at h
      · split at h
        · simp at h
        · rename_i st1 hadd1
          have hinv1 : Inv U st1 := addAA_inv hinj hg hinv ⟨ha, by intro x hx; cases hx; exact hUr⟩ hadd1
          split at h
          · split at h
            · simp at h
            · rename_i st2 hadd2
              cases h
              exact addAT_inv hinj hg hinv1 ⟨hc, by intro x hx; cases hx; exact ha⟩ hadd2
          · cases h; exact hinv1
      · cases h; exact hinv
  · cases h; exact hinv
  · cases h; exact hinv
  · simp at h

theorem verifySeq_inv (hinj : IdInj U) {cfg : Cfg} (hg : cfg.allGuard = true) {st st' : Store} (hinv : Inv U st)
    {cs : List Cert} (hcs : ∀ c ∈ cs, U c) {r : Option SC} (h : st.verifySeq cfg cs = .ok (st', r)) : Inv U st' := by
  unfold Store.verifySeq at h
  split at h
  · exact verifySeq1_inv hinj hg hinv (hcs _ (by simp)) h
  · exact verifySeq2_inv hinj hg hinv (hcs _ (by simp)) (hcs _ (by simp)) h
  · split at h
    · exact verifySeq2_inv hinj hg hinv (hcs _ (by simp)) (hcs _ (by simp)) h
    · cases h; exact hinv
  · cases h; exact hinv

/-! ### notifications never touch the store, except `notifyReceivedCa` through `addAA` -/

@[simp] theorem requestOwn_store (S : Station) (ids : List Nat) : (S.requestOwn ids).store = S.store := by
  unfold Station.requestOwn; split <;> rfl
@[simp] theorem requestOwn_hasSign (S : Station) (ids : List Nat) : (S.requestOwn ids).hasSign = S.hasSign := by
  unfold Station.requestOwn; split <;> rfl
@[simp] theorem requestOwn_unknownAts (S : Station) (ids : List Nat) : (S.requestOwn ids).unknownAts = S.unknownAts := by
  unfold Station.requestOwn; split <;> rfl
@[simp] theorem requestOwn_requestedAts (S : Station) (ids : List Nat) :
    (S.requestOwn ids).requestedAts = S.requestedAts := by
  unfold Station.requestOwn; split <;> rfl
@[simp] theorem requestOwn_lastFull (S : Station) (ids : List Nat) : (S.requestOwn ids).lastFull = S.lastFull := by
  unfold Station.requestOwn; split <;> rfl
@[simp] theorem requestOwn_lastOf (S : Station) (ids : List Nat) : (S.requestOwn ids).lastOf = S.lastOf := by
  unfold Station.requestOwn; split <;> rfl
@[simp] theorem requestOwn_perTicket (S : Station) (ids : List Nat) : (S.requestOwn ids).perTicket = S.perTicket := by
  unfold Station.requestOwn; split <;> rfl
@[simp] theorem requestOwn_reqOwn (S : Station) (ids : List Nat) : (S.requestOwn ids).reqOwn = true := by
  unfold Station.requestOwn; split <;> rfl

@[simp] theorem included_store (S : Station) (t now : Nat) : (S.included t now).store = S.store := by
  unfold Station.included; split <;> rfl
@[simp] theorem included_hasSign (S : Station) (t now : Nat) : (S.included t now).hasSign = S.hasSign := by
  unfold Station.included; split <;> rfl
@[simp] theorem included_unknownAts (S : Station) (t now : Nat) : (S.included t now).unknownAts = S.unknownAts := by
  unfold Station.included; split <;> rfl
@[simp] theorem included_requestedAts (S : Station) (t now : Nat) :
    (S.included t now).requestedAts = S.requestedAts := by
  unfold Station.included; split <;> rfl
@[simp] theorem included_lastFull (S : Station) (t now : Nat) : (S.included t now).lastFull = now := by
  unfold Station.included; split <;> rfl
@[simp] theorem included_perTicket (S : Station) (t now : Nat) : (S.included t now).perTicket = S.perTicket := by
  unfold Station.included; split <;> rfl

@[simp] theorem notifyUnknown_store (S : Station) (h : Nat) : (S.notifyUnknown h).store = S.store := by
  unfold Station.notifyUnknown; simp
@[simp] theorem note_store (S : Station) (h : Nat) : (S.note h).store = S.store := by
  unfold Station.note; split <;> simp

theorem addRequested_store (S : Station) (x : Nat) : (S.addRequested x).store = S.store := by
  unfold Station.addRequested; split <;> rfl

theorem foldl_addRequested_store (l : List Nat) (S : Station) : (l.foldl Station.addRequested S).store = S.store := by
  induction l generalizing S with
  | nil => rfl
  | cons x xs ih => simp only [List.foldl_cons]; rw [ih, addRequested_store]

@[simp] theorem notifyInline_store (S : Station) (r : List Nat) : (S.notifyInline r).store = S.store := by
  unfold Station.notifyInline
  simp only
  rw [foldl_addRequested_store]
  split
  · exact requestOwn_store _ _
  · rfl

theorem notifyReceivedCa_inv (hinj : IdInj U) {cfg : Cfg} (hg : cfg.allGuard = true) {S : Station}
    (hinv : Inv U S.store) {c : Cert} (hc : U c) : Inv U (S.notifyReceivedCa cfg c).1.store := by
  unfold Station.notifyReceivedCa
  simp only
  split
  · exact hinv
  · rename_i st hadd
    exact addAA_inv hinj hg hinv ⟨hc, by intro x hx; cases hx⟩ hadd

@[simp] theorem afterInline_store (S : Station) (m : Msg) : (S.afterInline m).store = S.store := by
  unfold Station.afterInline; split
  · rw [notifyInline_store]
  · rfl

theorem onSuccess_inv (hinj : IdInj U) {cfg : Cfg} (hg : cfg.allGuard = true) {S : Station}
    (hinv : Inv U S.store) {m : Msg} (hm : ∀ c, m.reqCert = some c → U c) :
    Inv U (S.onSuccess cfg m).1.store := by
  unfold Station.onSuccess
  split
  · exact hinv
  · split
    · simpa using hinv
    · rename_i c hc
      exact notifyReceivedCa_inv hinj hg (S := S.afterInline m) (by simpa using hinv) (hm c hc)

theorem verifyWith_inv (hinj : IdInj U) {cfg : Cfg} (hg : cfg.allGuard = true) {S : Station}
    (hinv : Inv U S.store) {m : Msg} (hm : ∀ c, m.reqCert = some c → U c) (a : SC) :
    Inv U (S.verifyWith cfg m a).1.store := by
  unfold Station.verifyWith
  split
  · exact hinv
  · split
    · have := onSuccess_inv hinj hg hinv hm
      split <;> (rename_i h; rw [h] at this; exact this)
    · exact hinv

theorem verifyMsg_inv (hinj : IdInj U) {cfg : Cfg} (hg : cfg.allGuard = true) {S : Station}
    (hinv : Inv U S.store) {m : Msg} (hm : ∀ c ∈ m.certs, U c) :
    Inv U (S.verifyMsg cfg m).1.store := by
  have hrc : ∀ c, m.reqCert = some c → U c := by
    intro c hc; apply hm; simp [Msg.certs, hc]
  unfold Station.verifyMsg
  split
  · split <;> exact hinv
  · split
    · exact hinv
    · split
      · simpa using hinv
      · exact verifyWith_inv hinj hg hinv hrc _
  · rename_i cs hsg
    split
    · rename_i c
      split
      · exact hinv
      · split <;> simpa using hinv
      · rename_i st a hseq
        have hUc : U c := by apply hm; simp [Msg.certs, hsg]
        have : Inv U st := verifySeq1_inv hinj hg hinv hUc hseq
        exact verifyWith_inv hinj hg (S := { S with store := st }) this hrc _
    · exact hinv

theorem popRequested_store (S : Station) : (S.popRequested).1.store = S.store := by
  unfold Station.popRequested
  split
  · rfl
  · split <;> rfl

@[simp] theorem signCam_store (S : Station) (now psid gt pl : Nat) : (S.signCam now psid gt pl).1.store = S.store := by
  unfold Station.signCam
  have := popRequested_store S
  split
  · rename_i h; rw [h] at this; exact this
  · rename_i S1 rc h
    rw [h] at this
    split
    · exact this
    · exact this
    · split
      · rw [included_store]; exact this
      · exact this

@[simp] theorem signDenm_store (S : Station) (loc : Bool) (psid gt pl : Nat) :
    (S.signDenm loc psid gt pl).1.store = S.store := by
  unfold Station.signDenm
  split
  · rfl
  · split <;> rfl

@[simp] theorem signOther_store (S : Station) (psid gt pl : Nat) : (S.signOther psid gt pl).1.store = S.store := by
  unfold Station.signOther
  split <;> rfl

/-- every operation of a history preserves the invariant -/
theorem step_inv (hinj : IdInj U) {cfg : Cfg} (hg : cfg.allGuard = true) {S : Station}
    (hinv : Inv U S.store) (op : Op) (hop : ∀ c ∈ op.certs, U c) : Inv U (S.step cfg op).store := by
  cases op with
  | addRoot s =>
    exact addRoot_inv hinj cfg hinv ⟨hop _ (by simp [Op.certs]), fun i hi => hop _ (by simp [Op.certs, hi])⟩
  | addAA s =>
    have hs : s.Within U := ⟨hop _ (by simp [Op.certs]), fun i hi => hop _ (by simp [Op.certs, hi])⟩
    simp only [Station.step]
    cases h : S.store.addAA cfg s with
    | error e => exact hinv
    | ok st => exact addAA_inv hinj hg hinv hs h
  | addAT s =>
    have hs : s.Within U := ⟨hop _ (by simp [Op.certs]), fun i hi => hop _ (by simp [Op.certs, hi])⟩
    simp only [Station.step]
    cases h : S.store.addAT cfg s with
    | error e => exact hinv
    | ok st => exact addAT_inv hinj hg hinv hs h
  | addOwn s =>
    have hs : s.Within U := ⟨hop _ (by simp [Op.certs]), fun i hi => hop _ (by simp [Op.certs, hi])⟩
    simp only [Station.step]
    cases h : S.store.addOwn cfg s with
    | error e => exact hinv
    | ok st => exact addOwn_inv hinj hinv hs h
  | vseq cs =>
    simp only [Station.step]
    cases h : S.store.verifySeq cfg cs with
    | error e => exact hinv
    | ok r => obtain ⟨st, r⟩ := r; exact verifySeq_inv hinj hg hinv (fun c hc => hop c (by simpa [Op.certs] using hc)) h
  | msg m => exact verifyMsg_inv hinj hg hinv (fun c hc => hop c (by simpa [Op.certs] using hc))
  | signCam now psid gt pl => simpa [Station.step] using hinv
  | signDenm loc psid gt pl => simpa [Station.step] using hinv
  | signOther psid gt pl => simpa [Station.step] using hinv




/-- everything a SUCCESS report of `judge` establishes -/
structure Accepted (cfg : Cfg) (m : Msg) (a : SC) (o : VOut) : Prop where
  certOk : a.c.verify cfg a.att = true
  isAT : a.c.isAT = true
  psid : cfg.psidGuard = true → m.psid ∈ a.c.appList
  time : cfg.timeGuard = true → ∃ t, m.genTime = some t ∧ a.c.start * 1000000 ≤ t ∧ t ≤ a.c.start * 1000000 + a.c.durUs
  sig : m.sigBy = some a.c.key
  plain : o.plain = some m.payload
  certId : o.certId = some a.c.id

theorem judge_success {cfg : Cfg} {m : Msg} {a : SC} {o : VOut} (h : Station.judge cfg m a = .ok o)
    (hs : o.report = .success) : Accepted cfg m a o := by
  unfold Station.judge at h
  split at h
  · cases h; simp at hs
  · rename_i hcert
    simp only [Bool.not_eq_true', Bool.and_eq_false_iff, not_or, Bool.not_eq_false] at hcert
    split at h
    · cases h; simp at hs
    · rename_i t ht
      split at h
      · cases h; simp at hs
      · split at h
        · cases h; simp at hs
        · split at h
          · cases h; simp at hs
          · split at h
            · cases h; simp at hs
            · rename_i hp
              split at h
              · cases h; simp at hs
              · rename_i htm
                split at h
                · simp at h
                · split at h
                  · rename_i hsig
                    cases h
                    refine ⟨hcert.1.1, hcert.1.2, ?_, ?_, by simpa using hsig, rfl, rfl⟩
                    · intro hg; simpa [hg] using hp
                    · intro hg
                      refine ⟨t, ht, ?_⟩
                      simpa [hg, Station.withinValidity] using htm
                  · cases h; simp at hs

theorem verifyWith_success {cfg : Cfg} {S S' : Station} {m : Msg} {a : SC} {o : VOut}
    (h : S.verifyWith cfg m a = (S', .ok o)) (hs : o.report = .success) : Accepted cfg m a o := by
  unfold Station.verifyWith at h
  split at h
  · simp at h
  · rename_i o' hj
    split at h
    · split at h
      · simp only [Prod.mk.injEq, Except.ok.injEq] at h
        exact h.2 ▸ judge_success hj (h.2 ▸ hs)
      · simp at h
    · simp only [Prod.mk.injEq, Except.ok.injEq] at h
      exact h.2 ▸ judge_success hj (h.2 ▸ hs)

theorem addAA_ats {cfg : Cfg} {st st' : Store} {s : SC} (h : st.addAA cfg s = .ok st') : st'.ats = st.ats := by
  unfold Store.addAA at h
  split at h
  · cases h; rfl
  · split at h
    · simp at h
    · cases h; rfl
    · simp only [Except.ok.injEq] at h
      split at h <;> (subst h; rfl)

theorem onSuccess_ats (cfg : Cfg) (S : Station) (m : Msg) : (S.onSuccess cfg m).1.store.ats = S.store.ats := by
  unfold Station.onSuccess
  split
  · rfl
  · split
    · simp
    · unfold Station.notifyReceivedCa
      simp only
      split
      · simp
      · rename_i st hadd
        simp only
        rw [addAA_ats hadd]; simp

theorem verifyWith_ats (cfg : Cfg) (S : Station) (m : Msg) (a : SC) :
    (S.verifyWith cfg m a).1.store.ats = S.store.ats := by
  unfold Station.verifyWith
  split
  · rfl
  · split
    · have := onSuccess_ats cfg S m
      split <;> (rename_i h; rw [h] at this; exact this)
    · rfl

theorem addAT_mem {cfg : Cfg} {st st' : Store} {s : SC} (h : st.addAT cfg s = .ok st')
    (hn : has st.ats s.c.id = false) (hi : ∃ j, st.getIssuer s.c = .ok (some j)) (hv : s.c.verify cfg s.att = true) :
    s ∈ st'.ats := by
  unfold Store.addAT at h
  obtain ⟨j, hj⟩ := hi
  simp only [hn, Bool.false_eq_true, if_false, hj, hv, if_true, Except.ok.injEq] at h
  subst h; simp

/-- a ticket returned by the one-certificate chain check is in the resulting ticket dictionary and carries the
    offered certificate's HashedId8 -/
theorem verifySeq1_some {cfg : Cfg} {st st' : Store} {c : Cert} {a : SC}
    (h : st.verifySeq1 cfg c = .ok (st', some a)) : a ∈ st'.ats ∧ a.c.id = c.id := by
  unfold Store.verifySeq1 at h
  split at h
  · rename_i known hk
    cases h
    exact find_some_mem hk
  · rename_i hk
    split at h
    · simp at h
    · simp at h
    · rename_i i hi
      simp only at h
      split at h
      · rename_i hv
        split at h
        · simp at h
        · rename_i st2 hadd
          cases h
          exact ⟨addAT_mem hadd (find_none_has hk) ⟨i, hi⟩ hv, rfl⟩
      · simp at h

/-- SUCCESS of `VerifyService.verify`: the signer resolves to a ticket of the store after the call, the signature
    verifies under that ticket's key, and all acceptance conditions hold -/
theorem verifyMsg_success {cfg : Cfg} {S S' : Station} {m : Msg} {o : VOut}
    (h : S.verifyMsg cfg m = (S', .ok o)) (hs : o.report = .success) :
    ∃ a, a ∈ S'.store.ats ∧ Accepted cfg m a o ∧
      (m.signer = .digest a.c.id ∨ ∃ c, m.signer = .certs [c] ∧ c.id = a.c.id) := by
  unfold Station.verifyMsg at h
  split at h
  · split at h
    · simp only [Prod.mk.injEq, Except.ok.injEq] at h; rw [← h.2] at hs; simp at hs
    · simp at h
  · rename_i hd hsg
    split at h
    · simp only [Prod.mk.injEq, Except.ok.injEq] at h; rw [← h.2] at hs; simp at hs
    · split at h
      · simp only [Prod.mk.injEq, Except.ok.injEq] at h; rw [← h.2] at hs; simp at hs
      · rename_i a ha
        have hmem := find_some_mem ha
        refine ⟨a, ?_, verifyWith_success h hs, Or.inl (by rw [hmem.2]; exact hsg)⟩
        have := verifyWith_ats cfg S m a
        rw [h] at this; simp only at this
        rw [this]; exact hmem.1
  · rename_i cs hsg
    split at h
    · rename_i c
      split at h
      · simp at h
      · simp only [Prod.mk.injEq, Except.ok.injEq] at h; rw [← h.2] at hs; simp at hs
      · rename_i st a hseq
        obtain ⟨hmem, hid⟩ := verifySeq1_some hseq
        refine ⟨a, ?_, verifyWith_success h hs, Or.inr ⟨c, hsg, hid.symm⟩⟩
        have := verifyWith_ats cfg { S with store := st } m a
        rw [h] at this; simp only at this
        rw [this]; exact hmem
    · simp only [Prod.mk.injEq, Except.ok.injEq] at h; rw [← h.2] at hs; simp at hs




/-! ### issuing API -/

theorem verify_unsigned {cfg : Cfg} {c : Cert} (hs : c.sigBy = none) (att : Option Cert) : c.verify cfg att = false := by
  unfold Cert.verify
  split
  · rfl
  · split
    · simp [Cert.verifyIssued, Cert.sigUnder, hs]
    · simp [Cert.verifySelf, Cert.sigUnder, hs]
    · rfl

/-- the issuer's remaining chain length allows issuing: every issuing entry still has budget ≥ 1 -/
def ChainAllows (i : Cert) : Prop := ∀ q ∈ i.issueList, 1 ≤ q.minChain

theorem enoughChain_allows {i : Cert} (h : i.enoughChain = .ok true) : ChainAllows i := by
  unfold Cert.enoughChain at h
  split at h
  · simp at h
  · rename_i ps hps
    simp only [Except.ok.injEq, List.all_eq_true, decide_eq_true_eq] at h
    intro q hq
    apply h
    simpa [Cert.issueList, hps] using hq

theorem lastAllChain_mem {i : Cert} {m : Int} (h : i.lastAllChain = some m) : ∃ q ∈ i.issueList, q.minChain = m := by
  unfold Cert.lastAllChain at h
  simp only [Option.map_eq_some_iff] at h
  obtain ⟨q, hq, rfl⟩ := h
  have := List.mem_of_getLast? hq
  exact ⟨q, (List.mem_filter.1 this).1, rfl⟩

/-- every issuing entry of a chain-adjusted certificate keeps budget ≥ 1 and is one below an entry of the issuer -/
theorem setChainLen_budget (c i : Cert) :
    ∀ p ∈ (c.setChainLen i).issueList, 1 ≤ p.minChain ∧ ∃ q ∈ i.issueList, p.minChain = q.minChain - 1 := by
  intro p hp
  unfold Cert.setChainLen at hp
  split at hp
  · rename_i hn; simp [Cert.issueList, hn] at hp
  · rename_i ps hps
    simp only [Cert.issueList, Option.getD_some, List.mem_filter, decide_eq_true_eq, List.mem_map] at hp
    obtain ⟨⟨p1, hp1, rfl⟩, hge⟩ := hp
    refine ⟨hge, ?_⟩
    split at hp1
    · rename_i m hm
      split at hm
      · obtain ⟨q, hq, hqm⟩ := lastAllChain_mem hm
        rw [List.mem_map] at hp1
        obtain ⟨p0, _, rfl⟩ := hp1
        exact ⟨q, hq, by simp [hqm]⟩
      · simp at hm
    · rw [List.mem_flatMap] at hp1
      obtain ⟨ip, hip, hp1⟩ := hp1
      split at hp1
      · rw [List.mem_map] at hp1
        obtain ⟨_, _, rfl⟩ := hp1
        exact ⟨ip, hip, rfl⟩
      · simp at hp1




/-! ### router gate -/

theorem gate_pass {cfg : Cfg} {en hv : Bool} {S S' : Station} {p : Packet} {pl : Nat}
    (h : gate cfg en hv S p = (S', .pass pl)) :
    (p = .unsecured pl ∧ en = false ∧ S' = S) ∨
    (∃ m o, p = .secured (some m) ∧ hv = true ∧ S.verifyMsg cfg m = (S', .ok o) ∧ o.report = .success ∧
      o.plain = some pl) := by
  unfold gate at h
  split at h
  · simp at h
  · simp at h
  · split at h
    · simp at h
    · simp only [Prod.mk.injEq, GateOut.pass.injEq] at h
      rename_i hen
      exact Or.inl ⟨by rw [h.2], by simpa using hen, h.1.symm⟩
  · split at h <;> simp at h
  · rename_i m
    split at h
    · simp at h
    · rename_i hhv
      split at h
      · simp at h
      · rename_i S2 o hv2
        split at h
        · simp at h
        · rename_i hrep
          split at h
          · rename_i pl2 hpl
            simp only [Prod.mk.injEq, GateOut.pass.injEq] at h
            refine Or.inr ⟨m, o, rfl, by simpa using hhv, ?_, by simpa using hrep, ?_⟩
            · rw [hv2, h.1]
            · rw [hpl, h.2]
          · simp at h

/-- the gate changes the station only by running `verifyMsg` on a decodable secured packet -/
theorem gate_state (cfg : Cfg) (en hv : Bool) (S : Station) (p : Packet) :
    (gate cfg en hv S p).1 = match p with
      | .secured (some m) => if hv then (S.verifyMsg cfg m).1 else S
      | _ => S := by
  unfold gate
  split
  · rfl
  · rfl
  · split <;> rfl
  · split <;> rfl
  · rename_i m
    cases hv with
    | false => rfl
    | true =>
      simp only [Bool.not_true, Bool.false_eq_true, if_false, if_true]
      split
      · rename_i h; rw [h]
      · rename_i h; rw [h]; split
        · rfl
        · split <;> rfl




/-- a message can only append to the ticket / authority dictionaries; roots and own certificates stay -/
structure Store.Grows (a b : Store) : Prop where
  roots : b.roots = a.roots
  own : b.own = a.own
  aas : ∃ l, b.aas = a.aas ++ l
  ats : ∃ l, b.ats = a.ats ++ l

theorem Store.Grows.refl (a : Store) : Store.Grows a a := ⟨rfl, rfl, ⟨[], by simp⟩, ⟨[], by simp⟩⟩

theorem Store.Grows.trans {a b c : Store} (h1 : Store.Grows a b) (h2 : Store.Grows b c) : Store.Grows a c := by
  obtain ⟨l1, h1a⟩ := h1.aas; obtain ⟨l2, h2a⟩ := h2.aas
  obtain ⟨k1, h1t⟩ := h1.ats; obtain ⟨k2, h2t⟩ := h2.ats
  exact ⟨h2.roots.trans h1.roots, h2.own.trans h1.own, ⟨l1 ++ l2, by rw [h2a, h1a, List.append_assoc]⟩,
    ⟨k1 ++ k2, by rw [h2t, h1t, List.append_assoc]⟩⟩

theorem addAA_grows {cfg : Cfg} {st st' : Store} {s : SC} (h : st.addAA cfg s = .ok st') : Store.Grows st st' := by
  unfold Store.addAA at h
  split at h
  · cases h; exact Store.Grows.refl _
  · split at h
    · simp at h
    · cases h; exact Store.Grows.refl _
    · simp only [Except.ok.injEq] at h
      split at h
      · subst h; exact ⟨rfl, rfl, ⟨[s], rfl⟩, ⟨[], by simp⟩⟩
      · subst h; exact Store.Grows.refl _

theorem addAT_grows {cfg : Cfg} {st st' : Store} {s : SC} (h : st.addAT cfg s = .ok st') : Store.Grows st st' := by
  unfold Store.addAT at h
  split at h
  · cases h; exact Store.Grows.refl _
  · split at h
    · simp at h
    · cases h; exact Store.Grows.refl _
    · simp only [Except.ok.injEq] at h
      split at h
      · subst h; exact ⟨rfl, rfl, ⟨[], by simp⟩, ⟨[s], rfl⟩⟩
      · subst h; exact Store.Grows.refl _

theorem verifySeq1_grows {cfg : Cfg} {st st' : Store} {c : Cert} {r : Option SC}
    (h : st.verifySeq1 cfg c = .ok (st', r)) : Store.Grows st st' := by
  unfold Store.verifySeq1 at h
  split at h
  · cases h; exact Store.Grows.refl _
  · split at h
    · simp at h
    · cases h; exact Store.Grows.refl _
    · simp only at h
      split at h
      · split at h
        · simp at h
        · rename_i st2 hadd
          cases h; exact addAT_grows hadd
      · cases h; exact Store.Grows.refl _

/-- a one-certificate chain check that does not return a ticket leaves the library untouched -/
theorem verifySeq1_none {cfg : Cfg} {st st' : Store} {c : Cert}
    (h : st.verifySeq1 cfg c = .ok (st', none)) : st' = st := by
  unfold Store.verifySeq1 at h
  split at h
  · simp at h
  · split at h
    · simp at h
    · cases h; rfl
    · simp only at h
      split at h
      · split at h <;> simp at h
      · cases h; rfl

theorem onSuccess_grows (cfg : Cfg) (S : Station) (m : Msg) : Store.Grows S.store (S.onSuccess cfg m).1.store := by
  unfold Station.onSuccess
  split
  · exact Store.Grows.refl _
  · split
    · simpa using Store.Grows.refl S.store
    · unfold Station.notifyReceivedCa
      simp only
      split
      · simpa using Store.Grows.refl S.store
      · rename_i st hadd
        simpa using addAA_grows hadd

theorem verifyWith_grows (cfg : Cfg) (S : Station) (m : Msg) (a : SC) :
    Store.Grows S.store (S.verifyWith cfg m a).1.store := by
  unfold Station.verifyWith
  split
  · exact Store.Grows.refl _
  · split
    · have := onSuccess_grows cfg S m
      split <;> (rename_i h; rw [h] at this; exact this)
    · exact Store.Grows.refl _

/-- whatever is received, the library only grows (appended tickets / authorities) -/
theorem verifyMsg_grows (cfg : Cfg) (S : Station) (m : Msg) : Store.Grows S.store (S.verifyMsg cfg m).1.store := by
  unfold Station.verifyMsg
  split
  · split <;> exact Store.Grows.refl _
  · split
    · exact Store.Grows.refl _
    · split
      · simpa using Store.Grows.refl S.store
      · exact verifyWith_grows cfg S m _
  · split
    · split
      · exact Store.Grows.refl _
      · split <;> simpa using Store.Grows.refl S.store
      · rename_i st a hseq
        exact (verifySeq1_grows hseq).trans (verifyWith_grows cfg { S with store := st } m a)
    · exact Store.Grows.refl _

/-! ### the verdict as a function of (library, message) only -/

def onSuccessCore (cfg : Cfg) (st : Store) (hs : Bool) (m : Msg) : Store × Option Err :=
  if !hs then (st, none)
  else match m.reqCert with
    | none => (st, none)
    | some c =>
      match st.addAA cfg ⟨c, none⟩ with
      | .error e => (st, some e)
      | .ok st' => (st', none)

def verifyWithCore (cfg : Cfg) (st : Store) (hs : Bool) (m : Msg) (a : SC) : Store × Except Err VOut :=
  match Station.judge cfg m a with
  | .error e => (st, .error e)
  | .ok o =>
    if o.report == .success then
      match onSuccessCore cfg st hs m with
      | (st', none) => (st', .ok o)
      | (st', some e) => (st', .error e)
    else (st, .ok o)

/-- `VerifyService.verify` seen from the library: no timer, no P2PCD lists, no earlier traffic -/
def verifyMsgCore (cfg : Cfg) (st : Store) (hs : Bool) (m : Msg) : Store × Except Err VOut :=
  match m.signer with
  | .selfS => if m.psid == 37 then (st, .ok { report := .unsupportedSignerIdentifierType }) else (st, .error .exception)
  | .digest h =>
    if m.psid == 37 then (st, .ok { report := .unsupportedSignerIdentifierType })
    else match find st.ats h with
      | none => (st, .ok { report := .signerCertificateNotFound })
      | some a => verifyWithCore cfg st hs m a
  | .certs cs =>
    match cs with
    | [c] =>
      match st.verifySeq1 cfg c with
      | .error e => (st, .error e)
      | .ok (_, none) => (st, .ok { report := .inconsistentChain })
      | .ok (st', some a) => verifyWithCore cfg st' hs m a
    | _ => (st, .ok { report := .unsupportedSignerIdentifierType })

@[simp] theorem notifyUnknown_hasSign (S : Station) (h : Nat) : (S.notifyUnknown h).hasSign = S.hasSign := by
  unfold Station.notifyUnknown; simp
@[simp] theorem note_hasSign (S : Station) (h : Nat) : (S.note h).hasSign = S.hasSign := by
  unfold Station.note; split <;> simp

theorem onSuccess_core (cfg : Cfg) (S : Station) (m : Msg) :
    ((S.onSuccess cfg m).1.store, (S.onSuccess cfg m).2) = onSuccessCore cfg S.store S.hasSign m := by
  unfold Station.onSuccess onSuccessCore
  cases hs : S.hasSign with
  | false => simp
  | true =>
    cases hrc : m.reqCert with
    | none => simp
    | some c =>
      simp only [Bool.not_true, Bool.false_eq_true, if_false, Station.notifyReceivedCa, afterInline_store]
      cases hadd : addAA cfg S.store { c := c, att := none } with
      | error e => simp
      | ok st => simp

theorem verifyWith_core (cfg : Cfg) (S : Station) (m : Msg) (a : SC) :
    ((S.verifyWith cfg m a).1.store, (S.verifyWith cfg m a).2) = verifyWithCore cfg S.store S.hasSign m a := by
  unfold Station.verifyWith verifyWithCore
  cases hj : Station.judge cfg m a with
  | error e => rfl
  | ok o =>
    simp only
    by_cases hr : (o.report == .success) = true
    · simp only [hr, if_true]
      have := onSuccess_core cfg S m
      rw [← this]
      cases hos : Station.onSuccess cfg S m with
      | mk S' oe => cases oe <;> rfl
    · simp only [hr]; rfl

theorem verifyMsg_core (cfg : Cfg) (S : Station) (m : Msg) :
    ((S.verifyMsg cfg m).1.store, (S.verifyMsg cfg m).2) = verifyMsgCore cfg S.store S.hasSign m := by
  unfold Station.verifyMsg verifyMsgCore
  cases hsg : m.signer with
  | selfS => simp only; split <;> rfl
  | digest h =>
    simp only
    split
    · rfl
    · cases hf : find S.store.ats h with
      | none => simp
      | some a => exact verifyWith_core cfg S m a
  | certs cs =>
    match cs with
    | [] => rfl
    | _ :: _ :: _ => rfl
    | [c] =>
      simp only
      cases hseq : verifySeq1 cfg S.store c with
      | error e => rfl
      | ok r =>
        obtain ⟨st, oa⟩ := r
        cases oa with
        | none => simp only; split <;> simp
        | some a => exact verifyWith_core cfg { S with store := st } m a

/-- the verdict (report / exception, certificate id, plain message) and the resulting library depend on the library
    and on whether a sign service is attached – not on the P2PCD / timer bookkeeping, i.e. not on earlier traffic
    except through certificates it added -/
theorem verdict_depends_on_store_only (cfg : Cfg) (S T : Station) (m : Msg) (hst : S.store = T.store)
    (hs : S.hasSign = T.hasSign) :
    (S.verifyMsg cfg m).2 = (T.verifyMsg cfg m).2 ∧ (S.verifyMsg cfg m).1.store = (T.verifyMsg cfg m).1.store := by
  have h1 := verifyMsg_core cfg S m
  have h2 := verifyMsg_core cfg T m
  rw [hst, hs, ← h2] at h1
  simp only [Prod.mk.injEq] at h1
  exact ⟨h1.2, h1.1⟩




theorem judge_report {cfg : Cfg} {m : Msg} {a : SC} {o : VOut} (h : Station.judge cfg m a = .ok o) :
    o.report = .invalidCertificate ∨ o.report = .invalidTimestamp ∨ o.report = .incompatibleProtocol ∨
    o.report = .success ∨ o.report = .falseSignature := by
  unfold Station.judge at h
  repeat' split at h
  all_goals first
    | (cases h; simp)
    | simp at h

theorem verifyWithCore_ok {cfg : Cfg} {st st' : Store} {hs : Bool} {m : Msg} {a : SC} {o : VOut}
    (h : verifyWithCore cfg st hs m a = (st', .ok o)) : Station.judge cfg m a = .ok o := by
  unfold verifyWithCore at h
  split at h
  · simp at h
  · rename_i o' hj
    split at h
    · split at h
      · simp only [Prod.mk.injEq, Except.ok.injEq] at h; rw [hj, h.2]
      · simp at h
    · simp only [Prod.mk.injEq, Except.ok.injEq] at h; rw [hj, h.2]

theorem unresolved_core {cfg : Cfg} {st st' : Store} {hs : Bool} {m : Msg} {o : VOut}
    (h : verifyMsgCore cfg st hs m = (st', .ok o))
    (hr : o.report = .signerCertificateNotFound ∨ o.report = .inconsistentChain ∨
          o.report = .unsupportedSignerIdentifierType) : st' = st := by
  have hj : ∀ {st1 st2 : Store} {a : SC}, verifyWithCore cfg st1 hs m a = (st2, .ok o) → False := by
    intro st1 st2 a hw
    have := judge_report (verifyWithCore_ok hw)
    rcases hr with hr | hr | hr <;> rw [hr] at this <;> simp at this
  unfold verifyMsgCore at h
  split at h
  · split at h
    · simp only [Prod.mk.injEq] at h; exact h.1.symm
    · simp at h
  · split at h
    · simp only [Prod.mk.injEq] at h; exact h.1.symm
    · split at h
      · simp only [Prod.mk.injEq] at h; exact h.1.symm
      · exact (hj h).elim
  · split at h
    · split at h
      · simp at h
      · simp only [Prod.mk.injEq] at h; exact h.1.symm
      · exact (hj h).elim
    · simp only [Prod.mk.injEq] at h; exact h.1.symm




/-! ### SignService: what an emitted message looks like -/

/-- header profile of an emitted message: exactly psid + generationTime, plus the listed optional fields -/
structure BaseProfile (m : Msg) (psid gt pl : Nat) (a : SC) : Prop where
  psid : m.psid = psid
  genTime : m.genTime = some gt
  noLearn : m.p2pcdLearn = false
  noCrl : m.missingCrl = false
  noExpiry : m.expiry = false
  noEncKey : m.encKey = false
  payload : m.payload = pl
  sigFmt : m.sigFmtOk = true
  sig : m.sigBy = some a.c.key

theorem baseMsg_profile (psid gt pl : Nat) (a : SC) (sg : Signer) :
    BaseProfile (Station.baseMsg psid gt pl a sg) psid gt pl a := ⟨rfl, rfl, rfl, rfl, rfl, rfl, rfl, rfl, rfl⟩

theorem popRequested_spec (S : Station) :
    (S.popRequested).1 = { S with requestedAts := S.requestedAts.tail } ∧
    (∀ rc, (S.popRequested).2 = .ok rc →
      rc = none ∨ ∃ x ca, S.requestedAts.head? = some x ∧ caByH3 S.store x = some ca ∧ rc = some ca.c) := by
  unfold Station.popRequested
  split
  · rename_i h
    refine ⟨?_, by intro rc hrc; simp only [Except.ok.injEq] at hrc; exact Or.inl hrc.symm⟩
    cases S; simp_all
  · rename_i x rest h
    split
    · rename_i ca hca
      refine ⟨by simp [h], ?_⟩
      intro rc hrc
      simp only [Except.ok.injEq] at hrc
      exact Or.inr ⟨x, ca, by simp [h], hca, hrc.symm⟩
    · refine ⟨by simp [h], ?_⟩
      intro rc hrc; simp at hrc

/-- everything `sign_cam` decides, in one statement -/
theorem signCam_ok {S S' : Station} {now psid gt pl : Nat} {m : Msg}
    (h : S.signCam now psid gt pl = (S', .ok m)) :
    ∃ a, Station.presentAt S.store.own psid = .ok (some a) ∧ BaseProfile m psid gt pl a ∧ m.genLoc = false ∧
      m.inlineReq = S.inlineField ∧
      (m.reqCert = none ∨ ∃ x ca, S.requestedAts.head? = some x ∧ caByH3 S.store x = some ca ∧ m.reqCert = some ca.c) ∧
      S'.store = S.store ∧ S'.unknownAts = S.unknownAts ∧ S'.requestedAts = S.requestedAts.tail ∧ S'.hasSign = S.hasSign ∧
      ((S.wantsCert a.c.id now = true ∧ m.signer = .certs [a.c] ∧ S'.lastFull = now ∧
          S' = ({ S with requestedAts := S.requestedAts.tail }).included a.c.id now) ∨
       (S.wantsCert a.c.id now = false ∧ m.signer = .digest a.c.id ∧ S'.lastFull = S.lastFull ∧
          S' = { S with requestedAts := S.requestedAts.tail })) := by
  unfold Station.signCam at h
  obtain ⟨hp1, hp2⟩ := popRequested_spec S
  split at h
  · simp at h
  · rename_i S1 rc hpop
    rw [hpop] at hp1 hp2
    simp only at hp1
    have hrc := hp2 rc rfl
    subst hp1
    split at h
    · simp at h
    · simp at h
    · rename_i a hpa
      refine ⟨a, hpa, ?_⟩
      split at h
      · rename_i hw
        simp only [Prod.mk.injEq, Except.ok.injEq] at h
        obtain ⟨h1, h2⟩ := h
        subst h1 h2
        exact ⟨⟨rfl, rfl, rfl, rfl, rfl, rfl, rfl, rfl, rfl⟩, rfl, rfl, hrc, by simp, by simp, by simp, by simp,
          Or.inl ⟨hw, rfl, by simp, rfl⟩⟩
      · rename_i hw
        simp only [Prod.mk.injEq, Except.ok.injEq] at h
        obtain ⟨h1, h2⟩ := h
        subst h1 h2
        exact ⟨⟨rfl, rfl, rfl, rfl, rfl, rfl, rfl, rfl, rfl⟩, rfl, rfl, hrc, rfl, rfl, rfl, rfl,
          Or.inr ⟨by have := hw; simp only [Bool.not_eq_true] at this; exact this, rfl, rfl, rfl⟩⟩

theorem signDenm_ok {S S' : Station} {loc : Bool} {psid gt pl : Nat} {m : Msg}
    (h : S.signDenm loc psid gt pl = (S', .ok m)) :
    ∃ a, Station.presentAt S.store.own psid = .ok (some a) ∧ BaseProfile m psid gt pl a ∧ loc = true ∧ m.genLoc = true ∧
      m.inlineReq = none ∧ m.reqCert = none ∧ m.signer = .certs [a.c] ∧ S' = S := by
  unfold Station.signDenm at h
  split at h
  · simp at h
  · rename_i hl
    split at h
    · simp at h
    · simp at h
    · rename_i a hp
      simp only [Prod.mk.injEq, Except.ok.injEq] at h
      obtain ⟨h1, h2⟩ := h
      subst h1 h2
      exact ⟨a, hp, ⟨rfl, rfl, rfl, rfl, rfl, rfl, rfl, rfl, rfl⟩, by simpa using hl, rfl, rfl, rfl, rfl, rfl⟩

theorem signOther_ok {S S' : Station} {psid gt pl : Nat} {m : Msg}
    (h : S.signOther psid gt pl = (S', .ok m)) :
    ∃ a, Station.presentAt S.store.own psid = .ok (some a) ∧ BaseProfile m psid gt pl a ∧ m.genLoc = false ∧
      m.inlineReq = none ∧ m.reqCert = none ∧ m.signer = .digest a.c.id ∧ S' = S := by
  unfold Station.signOther at h
  split at h
  · simp at h
  · simp at h
  · rename_i a hp
    simp only [Prod.mk.injEq, Except.ok.injEq] at h
    obtain ⟨h1, h2⟩ := h
    subst h1 h2
    exact ⟨a, hp, baseMsg_profile .., rfl, rfl, rfl, rfl, rfl⟩

theorem presentAt_some {l : List SC} {psid : Nat} {a : SC} (h : Station.presentAt l psid = .ok (some a)) :
    a ∈ l ∧ psid ∈ a.c.appList := by
  induction l with
  | nil => simp [Station.presentAt] at h
  | cons s rest ih =>
    unfold Station.presentAt at h
    split at h
    · simp at h
    · rename_i ps hps
      split at h
      · rename_i hc
        simp only [Except.ok.injEq, Option.some.injEq] at h
        subst h
        exact ⟨by simp, by simpa [Cert.appList, hps] using hc⟩
      · obtain ⟨h1, h2⟩ := ih h
        exact ⟨by simp [h1], h2⟩




/-! ### acceptance of honest messages -/

/-- a ticket as the verify service wants it -/
structure GoodTicket (cfg : Cfg) (a : SC) : Prop where
  verifies : a.c.verify cfg a.att = true
  isAT : a.c.isAT = true
  vki : a.c.vkiVerif = true
  keyP256 : a.c.keyP256 = true
  keyUnc : a.c.keyUnc = true

/-- a message honestly signed with ticket `c`: signature by its key, ITS-AID covered, generation time within validity,
    header fields of its clause 7.1 profile -/
structure HonestMsg (m : Msg) (c : Cert) : Prop where
  sig : m.sigBy = some c.key
  sigFmt : m.sigFmtOk = true
  time : ∃ t, m.genTime = some t ∧ Station.withinValidity c t = true
  psid : m.psid ∈ c.appList
  noLearn : m.p2pcdLearn = false
  noCrl : m.missingCrl = false
  denm : m.psid = 37 → m.genLoc = true ∧ m.expiry = false ∧ m.encKey = false ∧ m.inlineReq = none ∧ m.reqCert = none
  reqCertOk : ∀ c', m.reqCert = some c' → c'.issuer ≠ .other

theorem judge_honest {cfg : Cfg} {m : Msg} {a : SC} (hg : GoodTicket cfg a) (hm : HonestMsg m a.c) :
    Station.judge cfg m a = .ok { report := .success, certId := some a.c.id, plain := some m.payload } := by
  obtain ⟨t, ht, hval⟩ := hm.time
  unfold Station.judge
  simp only [hg.verifies, hg.isAT, hg.vki, Bool.and_self, Bool.not_true, Bool.false_eq_true, if_false, ht,
    hm.noLearn, hm.noCrl, Bool.or_self]
  by_cases h37 : m.psid = 37
  · obtain ⟨h1, h2, h3, h4, h5⟩ := hm.denm h37
    have hb : (m.psid == 37) = true := by simpa using h37
    simp [hb, h1, h2, h3, h4, h5, hval, hm.sigFmt, hg.keyP256, hg.keyUnc, hm.sig, hm.psid]
  · have : (m.psid == 37) = false := by simpa using h37
    simp [this, hval, hm.sigFmt, hg.keyP256, hg.keyUnc, hm.sig, hm.psid]

theorem addAA_no_error {cfg : Cfg} {st : Store} {s : SC} (h : s.c.issuer ≠ .other) : ∃ st', st.addAA cfg s = .ok st' := by
  unfold Store.addAA
  split
  · exact ⟨_, rfl⟩
  · have : ∃ r, st.getIssuer s.c = .ok r := by
      unfold Store.getIssuer
      split
      · exact ⟨_, rfl⟩
      · exact ⟨_, rfl⟩
      · exact ⟨_, rfl⟩
      · rename_i ho; exact absurd ho h
    obtain ⟨r, hr⟩ := this
    rw [hr]
    cases r <;> exact ⟨_, rfl⟩

theorem onSuccess_no_error {cfg : Cfg} {S : Station} {m : Msg} (h : ∀ c', m.reqCert = some c' → c'.issuer ≠ .other) :
    (S.onSuccess cfg m).2 = none := by
  unfold Station.onSuccess
  split
  · rfl
  · split
    · rfl
    · rename_i c hc
      unfold Station.notifyReceivedCa
      simp only
      obtain ⟨st', hst⟩ := addAA_no_error (cfg := cfg) (st := (S.afterInline m).store) (s := ⟨c, none⟩) (h c hc)
      simp only [afterInline_store] at hst ⊢
      rw [hst]

/-- with a good ticket resolved, an honest message is accepted and its payload handed over unchanged -/
theorem verifyWith_honest {cfg : Cfg} {S : Station} {m : Msg} {a : SC} (hg : GoodTicket cfg a) (hm : HonestMsg m a.c) :
    (S.verifyWith cfg m a).2 = .ok { report := .success, certId := some a.c.id, plain := some m.payload } ∧
    (S.verifyWith cfg m a).1 = (S.onSuccess cfg m).1 := by
  unfold Station.verifyWith
  rw [judge_honest hg hm]
  simp only [beq_self_eq_true, if_true]
  have := onSuccess_no_error (cfg := cfg) (S := S) hm.reqCertOk
  cases hos : S.onSuccess cfg m with
  | mk S' oe =>
    rw [hos] at this
    simp only at this
    subst this
    exact ⟨rfl, rfl⟩




/-! ### readiness of a receiver for a peer ticket, and its persistence under traffic -/

structure CertGood (c : Cert) : Prop where
  isAT : c.isAT = true
  vki : c.vkiVerif = true
  keyP256 : c.keyP256 = true
  keyUnc : c.keyUnc = true

/-- the library can verify `c`: its issuer is found and `c` verifies under it -/
def Resolves (cfg : Cfg) (st : Store) (c : Cert) : Prop :=
  ∃ i, st.getIssuer c = .ok (some i) ∧ c.verify cfg (some i.c) = true

/-- whatever is stored under `c`'s HashedId8 is `c` itself, verified -/
def KnownGood (cfg : Cfg) (st : Store) (c : Cert) : Prop :=
  ∀ a ∈ st.ats, a.c.id = c.id → a.c = c ∧ a.c.verify cfg a.att = true

structure Ready (cfg : Cfg) (st : Store) (c : Cert) : Prop where
  good : CertGood c
  res : Resolves cfg st c
  known : KnownGood cfg st c

theorem find_append_some {l l' : List SC} {h : Nat} {s : SC} (hf : find l h = some s) : find (l ++ l') h = some s := by
  unfold find at *
  rw [List.find?_append, hf]; rfl

theorem getIssuer_grows {st st' : Store} (hg : Store.Grows st st') {c : Cert} {i : SC}
    (h : st.getIssuer c = .ok (some i)) : st'.getIssuer c = .ok (some i) := by
  unfold Store.getIssuer at *
  cases hiss : c.issuer with
  | self => rw [hiss] at h; simp at h
  | selfOther => rw [hiss] at h; simp at h
  | other => rw [hiss] at h; simp at h
  | digest hh =>
    rw [hiss] at h
    simp only [Except.ok.injEq] at h ⊢
    rw [hg.roots]
    obtain ⟨l, hl⟩ := hg.aas
    cases hr : find st.roots hh with
    | some r => rw [hr] at h; exact h
    | none =>
      rw [hr] at h
      simp only at h ⊢
      rw [hl, find_append_some h]

/-- what a received message can add to the ticket dictionary: verified entries for its own signer certificate -/
theorem verifySeq1_new {cfg : Cfg} {st st' : Store} {c : Cert} {r : Option SC}
    (h : st.verifySeq1 cfg c = .ok (st', r)) :
    ∀ a ∈ st'.ats, a ∈ st.ats ∨ (a.c = c ∧ a.c.verify cfg a.att = true) := by
  unfold Store.verifySeq1 at h
  split at h
  · cases h; exact fun a ha => Or.inl ha
  · split at h
    · simp at h
    · cases h; exact fun a ha => Or.inl ha
    · rename_i i hi
      simp only at h
      split at h
      · rename_i hv
        split at h
        · simp at h
        · rename_i st2 hadd
          cases h
          unfold Store.addAT at hadd
          split at hadd
          · cases hadd; exact fun a ha => Or.inl ha
          · simp only [hi, Except.ok.injEq] at hadd
            subst hadd
            intro a ha
            simp only [List.mem_append, List.mem_singleton] at ha
            rcases ha with ha | ha
            · exact Or.inl ha
            · subst ha; exact Or.inr ⟨rfl, hv⟩
      · cases h; exact fun a ha => Or.inl ha

theorem verifyMsg_new (cfg : Cfg) (S : Station) (m : Msg) :
    ∀ a ∈ (S.verifyMsg cfg m).1.store.ats,
      a ∈ S.store.ats ∨ (∃ c, m.signer = .certs [c] ∧ a.c = c ∧ a.c.verify cfg a.att = true) := by
  unfold Station.verifyMsg
  split
  · split <;> exact fun a ha => Or.inl ha
  · split
    · exact fun a ha => Or.inl ha
    · split
      · intro a ha; left; simpa using ha
      · intro a ha; rw [verifyWith_ats] at ha; exact Or.inl ha
  · rename_i cs hsg
    split
    · rename_i c
      split
      · exact fun a ha => Or.inl ha
      · intro a ha; left
        split at ha <;> simpa using ha
      · rename_i st a0 hseq
        intro a ha
        rw [verifyWith_ats] at ha
        rcases verifySeq1_new hseq a ha with h | ⟨h1, h2⟩
        · exact Or.inl h
        · exact Or.inr ⟨c, hsg, h1, h2⟩
    · exact fun a ha => Or.inl ha

/-- no HashedId8 clash of the message's signer certificate with ticket `c` -/
def Msg.noClash (m : Msg) (c : Cert) : Prop := ∀ c', m.signer = .certs [c'] → c'.id = c.id → c' = c

theorem ready_rx {cfg : Cfg} {S : Station} {c : Cert} (hr : Ready cfg S.store c) (m : Msg) (hm : m.noClash c) :
    Ready cfg (S.verifyMsg cfg m).1.store c := by
  refine ⟨hr.good, ?_, ?_⟩
  · obtain ⟨i, hi, hv⟩ := hr.res
    exact ⟨i, getIssuer_grows (verifyMsg_grows cfg S m) hi, hv⟩
  · intro a ha hid
    rcases verifyMsg_new cfg S m a ha with h | ⟨c', hsg, hc, hv⟩
    · exact hr.known a h hid
    · have : c' = c := hm c' hsg (by rw [← hc]; exact hid)
      exact ⟨by rw [hc, this], hv⟩

/-- honest message with the certificate attached: accepted at once by a ready receiver, payload unchanged -/
theorem accept_certificate {cfg : Cfg} {S : Station} {c : Cert} (hr : Ready cfg S.store c) {m : Msg}
    (hm : HonestMsg m c) (hsg : m.signer = .certs [c]) :
    (S.verifyMsg cfg m).2 = .ok { report := .success, certId := some c.id, plain := some m.payload } ∧
    (∃ a, find (S.verifyMsg cfg m).1.store.ats c.id = some a) := by
  unfold Station.verifyMsg
  simp only [hsg]
  cases hf : find S.store.ats c.id with
  | some known =>
    simp only [Store.verifySeq1, hf]
    obtain ⟨hm1, hm2⟩ := find_some_mem hf
    obtain ⟨hk1, hk2⟩ := hr.known known hm1 hm2
    have hg : GoodTicket cfg known := ⟨hk2, hk1 ▸ hr.good.isAT, hk1 ▸ hr.good.vki, hk1 ▸ hr.good.keyP256, hk1 ▸ hr.good.keyUnc⟩
    have := verifyWith_honest (S := { S with store := S.store }) hg (hk1 ▸ hm)
    refine ⟨by rw [this.1, hk1], known, ?_⟩
    have hats := verifyWith_ats cfg { S with store := S.store } m known
    unfold find at hf ⊢
    rw [hats]; exact hf
  | none =>
    obtain ⟨i, hi, hv⟩ := hr.res
    have hn := find_none_has hf
    simp only [Store.verifySeq1, hf, hi, hv, if_true, Store.addAT, hn, Bool.false_eq_true, if_false]
    have hg : GoodTicket cfg ⟨c, some i.c⟩ := ⟨hv, hr.good.isAT, hr.good.vki, hr.good.keyP256, hr.good.keyUnc⟩
    have := verifyWith_honest (S := { S with store := { S.store with ats := S.store.ats ++ [⟨c, some i.c⟩] } }) hg hm
    refine ⟨this.1, ⟨c, some i.c⟩, ?_⟩
    have hats := verifyWith_ats cfg { S with store := { S.store with ats := S.store.ats ++ [⟨c, some i.c⟩] } } m ⟨c, some i.c⟩
    rw [hats]
    unfold find at hf ⊢
    simp only [List.find?_append, hf, Option.none_or]
    simp

/-- honest digest-signed message of a known ticket: accepted at once -/
theorem accept_digest_known {cfg : Cfg} {S : Station} {c : Cert} (hr : Ready cfg S.store c) {m : Msg}
    (hm : HonestMsg m c) (hsg : m.signer = .digest c.id) (h37 : m.psid ≠ 37) {a : SC}
    (hf : find S.store.ats c.id = some a) :
    (S.verifyMsg cfg m).2 = .ok { report := .success, certId := some c.id, plain := some m.payload } := by
  unfold Station.verifyMsg
  have : (m.psid == 37) = false := by simpa using h37
  simp only [hsg, this, Bool.false_eq_true, if_false, hf]
  obtain ⟨hm1, hm2⟩ := find_some_mem hf
  obtain ⟨hk1, hk2⟩ := hr.known a hm1 hm2
  have hg : GoodTicket cfg a := ⟨hk2, hk1 ▸ hr.good.isAT, hk1 ▸ hr.good.vki, hk1 ▸ hr.good.keyP256, hk1 ▸ hr.good.keyUnc⟩
  have := verifyWith_honest (S := S) hg (hk1 ▸ hm)
  rw [this.1, hk1]




/-! ### P2PCD bookkeeping -/

open Station in
theorem mem_addOwed {owed ids : List Nat} {x : Nat} : x ∈ addOwed owed ids ↔ x ∈ owed ∨ x ∈ ids := by
  unfold addOwed
  induction ids generalizing owed with
  | nil => simp
  | cons y ys ih =>
    simp only [List.foldl_cons]
    rw [ih]
    by_cases hc : owed.contains y = true
    · have hy : y ∈ owed := by simpa using hc
      simp only [hc, if_true, List.mem_cons]
      grind
    · simp only [hc, Bool.false_eq_true, if_false, List.mem_append, List.mem_cons, List.mem_nil_iff, or_false]
      grind

open Station in
theorem addOwed_ne_nil {owed ids : List Nat} (h : owed ≠ [] ∨ ids ≠ []) : addOwed owed ids ≠ [] := by
  intro hn
  rcases h with h | h
  · cases owed with
    | nil => exact h rfl
    | cons a t => have : a ∈ addOwed (a :: t) ids := mem_addOwed.2 (Or.inl (by simp)); rw [hn] at this; simp at this
  · cases ids with
    | nil => exact h rfl
    | cons a t => have : a ∈ addOwed owed (a :: t) := mem_addOwed.2 (Or.inr (by simp)); rw [hn] at this; simp at this

/-- no request is pending that names no ticket (per-ticket variant; the repaired code serves such a request by the next
    signer, whichever ticket it uses) -/
def Station.OwedWF (S : Station) : Prop := S.perTicket = true → S.reqOwn = true → S.owed ≠ []

/-- ticket `t` owes its certificate to a peer's request -/
def Owes (S : Station) (t : Nat) : Prop := S.asked t = true ∧ S.OwedWF

/-- the request bookkeeping of `T` is that of `S` -/
def SameReq (S T : Station) : Prop := T.perTicket = S.perTicket ∧ T.reqOwn = S.reqOwn ∧ T.owed = S.owed

theorem SameReq.asked {S T : Station} (h : SameReq S T) (t : Nat) : T.asked t = S.asked t := by
  unfold Station.asked; rw [h.1, h.2.1, h.2.2]

theorem SameReq.wf {S T : Station} (h : SameReq S T) (hw : S.OwedWF) : T.OwedWF := by
  unfold Station.OwedWF at *; rw [h.1, h.2.1, h.2.2]; exact hw

theorem SameReq.owes {S T : Station} (h : SameReq S T) {t : Nat} (ho : Owes S t) : Owes T t :=
  ⟨by rw [h.asked]; exact ho.1, h.wf ho.2⟩

theorem SameReq.trans {S T V : Station} (h1 : SameReq S T) (h2 : SameReq T V) : SameReq S V :=
  ⟨h2.1.trans h1.1, h2.2.1.trans h1.2.1, h2.2.2.trans h1.2.2⟩

theorem asked_reqOwn {S : Station} {t : Nat} (ha : S.asked t = true) : S.reqOwn = true := by
  unfold Station.asked at ha
  by_cases hp : S.perTicket = true
  · simp only [hp, if_true, Bool.and_eq_true] at ha; exact ha.1
  · simpa [hp] using ha

theorem asked_requestOwn_mem (S : Station) {ids : List Nat} {t : Nat} (ht : t ∈ ids) :
    (S.requestOwn ids).asked t = true := by
  unfold Station.requestOwn Station.asked
  by_cases hp : S.perTicket = true
  · simp only [hp, if_true, Bool.true_and, Bool.or_eq_true, List.contains_iff_mem]
    exact Or.inr (mem_addOwed.2 (Or.inr ht))
  · simp [hp]

theorem requestOwn_wf (S : Station) {ids : List Nat} (h : ids ≠ [] ∨ (S.reqOwn = true ∧ S.OwedWF)) :
    (S.requestOwn ids).OwedWF := by
  unfold Station.requestOwn Station.OwedWF
  by_cases hp : S.perTicket = true
  · simp only [hp, if_true]
    intro _ _
    apply addOwed_ne_nil
    rcases h with h | ⟨h1, h2⟩
    · exact Or.inr h
    · exact Or.inl (h2 hp h1)
  · simp [hp]

/-- a further request never cancels a pending one -/
theorem requestOwn_owes {S : Station} {t : Nat} (h : Owes S t) (ids : List Nat) : Owes (S.requestOwn ids) t := by
  obtain ⟨ha, hwf⟩ := h
  have hr := asked_reqOwn ha
  refine ⟨?_, requestOwn_wf S (Or.inr ⟨hr, hwf⟩)⟩
  unfold Station.requestOwn Station.asked
  by_cases hp : S.perTicket = true
  · simp only [hp, if_true, Bool.true_and, Bool.or_eq_true, List.contains_iff_mem]
    right
    apply mem_addOwed.2; left
    have hne := hwf hp hr
    unfold Station.asked at ha
    simp only [hp, if_true, hr, Bool.true_and, Bool.or_eq_true, List.contains_iff_mem] at ha
    rcases ha with ha | ha
    · cases ho : S.owed with
      | nil => exact absurd ho hne
      | cons _ _ => rw [ho] at ha; simp at ha
    · exact ha
  · simp [hp]

/-- every own ticket owes its certificate (a new neighbour was seen) -/
def AllOwe (S : Station) : Prop := (∀ o ∈ S.store.own, S.asked o.c.id = true) ∧ S.OwedWF ∧ S.store.own ≠ []

theorem AllOwe.owes {S : Station} (h : AllOwe S) {o : SC} (ho : o ∈ S.store.own) : Owes S o.c.id := ⟨h.1 o ho, h.2.1⟩

theorem SameReq.allOwe {S T : Station} (h : SameReq S T) (hown : T.store.own = S.store.own) (ha : AllOwe S) : AllOwe T :=
  ⟨fun o ho => by rw [h.asked]; exact ha.1 o (hown ▸ ho), h.wf ha.2.1, by rw [hown]; exact ha.2.2⟩

theorem requestOwn_allOwe {S : Station} (h : AllOwe S) (ids : List Nat) : AllOwe (S.requestOwn ids) := by
  refine ⟨fun o ho => ?_, ?_, by simpa using h.2.2⟩
  · exact (requestOwn_owes (h.owes (by simpa using ho)) ids).1
  · cases hown : S.store.own with
    | nil => exact absurd hown h.2.2
    | cons o _ => exact (requestOwn_owes (h.owes (o := o) (by simp [hown])) ids).2

/-- `notify_unknown_at` makes every own ticket owe its certificate -/
theorem requestOwn_ownIds_allOwe (S : Station) (hne : S.store.own ≠ []) : AllOwe (S.requestOwn S.ownIds) := by
  have hids : S.ownIds ≠ [] := by
    unfold Station.ownIds; intro h; exact hne (List.map_eq_nil_iff.1 h)
  refine ⟨fun o ho => asked_requestOwn_mem S ?_, requestOwn_wf S (Or.inl hids), by simpa using hne⟩
  unfold Station.ownIds
  exact List.mem_map.2 ⟨o, by simpa using ho, rfl⟩

/-- the station will ask for ticket `x` (HashedId3) and attach its own certificate – whichever ticket it signs with –
    in its next CAM -/
def Asking (S : Station) (x : Nat) : Prop := x ∈ S.unknownAts ∧ AllOwe S

theorem notifyUnknown_unknownAts (S : Station) (h8 : Nat) :
    (S.notifyUnknown h8).unknownAts =
      (if S.unknownAts.contains (h3 h8) then S.unknownAts else S.unknownAts ++ [h3 h8]) := by
  unfold Station.notifyUnknown; simp

theorem notifyUnknown_allOwe (S : Station) (h8 : Nat) (hne : S.store.own ≠ []) : AllOwe (S.notifyUnknown h8) := by
  unfold Station.notifyUnknown
  exact requestOwn_ownIds_allOwe
    { S with unknownAts := if S.unknownAts.contains (h3 h8) then S.unknownAts else S.unknownAts ++ [h3 h8] } hne

theorem notifyUnknown_asking (S : Station) (h8 : Nat) (hne : S.store.own ≠ []) : Asking (S.notifyUnknown h8) (h3 h8) := by
  refine ⟨?_, notifyUnknown_allOwe S h8 hne⟩
  rw [notifyUnknown_unknownAts]
  split
  · rename_i h; simpa using h
  · simp

theorem notifyUnknown_keeps {S : Station} {x : Nat} (h : Asking S x) (h8 : Nat) : Asking (S.notifyUnknown h8) x := by
  refine ⟨?_, notifyUnknown_allOwe S h8 h.2.2.2⟩
  rw [notifyUnknown_unknownAts]
  split
  · exact h.1
  · simp [h.1]

theorem notifyUnknown_owes {S : Station} {t : Nat} (h : Owes S t) (h8 : Nat) : Owes (S.notifyUnknown h8) t := by
  unfold Station.notifyUnknown
  simp only
  exact requestOwn_owes (SameReq.owes (S := S)
    (T := { S with unknownAts := if S.unknownAts.contains (h3 h8) then S.unknownAts else S.unknownAts ++ [h3 h8] })
    ⟨rfl, rfl, rfl⟩ h) _

theorem note_keeps {S : Station} {x : Nat} (h : Asking S x) (h8 : Nat) : Asking (S.note h8) x := by
  unfold Station.note; split
  · exact notifyUnknown_keeps h h8
  · exact h

theorem note_owes {S : Station} {t : Nat} (h : Owes S t) (h8 : Nat) : Owes (S.note h8) t := by
  unfold Station.note; split
  · exact notifyUnknown_owes h h8
  · exact h

theorem addRequested_fields (S : Station) (x : Nat) :
    (S.addRequested x).unknownAts = S.unknownAts ∧ (S.addRequested x).reqOwn = S.reqOwn ∧
    (S.addRequested x).hasSign = S.hasSign := by
  unfold Station.addRequested; split <;> exact ⟨rfl, rfl, rfl⟩

theorem addRequested_sameReq (S : Station) (x : Nat) : SameReq S (S.addRequested x) := by
  unfold Station.addRequested; split <;> exact ⟨rfl, rfl, rfl⟩

theorem foldl_addRequested_fields (l : List Nat) (S : Station) :
    (l.foldl Station.addRequested S).unknownAts = S.unknownAts ∧ (l.foldl Station.addRequested S).reqOwn = S.reqOwn := by
  induction l generalizing S with
  | nil => exact ⟨rfl, rfl⟩
  | cons x xs ih =>
    simp only [List.foldl_cons]
    obtain ⟨h1, h2⟩ := ih (S.addRequested x)
    obtain ⟨h3, h4, _⟩ := addRequested_fields S x
    exact ⟨h1.trans h3, h2.trans h4⟩

theorem foldl_addRequested_sameReq (l : List Nat) (S : Station) : SameReq S (l.foldl Station.addRequested S) := by
  induction l generalizing S with
  | nil => exact ⟨rfl, rfl, rfl⟩
  | cons x xs ih => simp only [List.foldl_cons]; exact (addRequested_sameReq S x).trans (ih _)

theorem notifyInline_unknownAts (S : Station) (r : List Nat) : (S.notifyInline r).unknownAts = S.unknownAts := by
  unfold Station.notifyInline
  simp only
  rw [(foldl_addRequested_fields r _).1]
  split
  · simp
  · rfl

/-- an accepted inlineP2pcdRequest keeps what was owed, and makes every own ticket it names owe its certificate -/
theorem notifyInline_owes {S : Station} {t : Nat} (h : Owes S t) (r : List Nat) : Owes (S.notifyInline r) t := by
  unfold Station.notifyInline
  simp only
  refine (foldl_addRequested_sameReq r _).owes ?_
  split
  · exact requestOwn_owes h _
  · exact h

theorem notifyInline_allOwe {S : Station} (h : AllOwe S) (r : List Nat) : AllOwe (S.notifyInline r) := by
  unfold Station.notifyInline
  simp only
  refine (foldl_addRequested_sameReq r _).allOwe (by rw [foldl_addRequested_store]) ?_
  split
  · exact requestOwn_allOwe h _
  · exact h

theorem notifyInline_named (S : Station) {r : List Nat} {o : SC} (ho : o ∈ S.store.own) (hx : h3 o.c.id ∈ r) :
    Owes (S.notifyInline r) o.c.id := by
  unfold Station.notifyInline
  simp only
  refine (foldl_addRequested_sameReq r _).owes ?_
  have hany : S.store.own.any (fun o => r.contains (h3 o.c.id)) = true := by
    rw [List.any_eq_true]; exact ⟨o, ho, by simpa using hx⟩
  simp only [hany, if_true]
  have hmem : o.c.id ∈ (S.store.own.filter (fun o => r.contains (h3 o.c.id))).map (·.c.id) :=
    List.mem_map.2 ⟨o, List.mem_filter.2 ⟨ho, by simpa using hx⟩, rfl⟩
  exact ⟨asked_requestOwn_mem S hmem, requestOwn_wf S (Or.inl (List.ne_nil_of_mem hmem))⟩

theorem afterInline_unknownAts (S : Station) (m : Msg) : (S.afterInline m).unknownAts = S.unknownAts := by
  unfold Station.afterInline
  split
  · exact notifyInline_unknownAts S _
  · rfl

theorem afterInline_owes {S : Station} {t : Nat} (h : Owes S t) (m : Msg) : Owes (S.afterInline m) t := by
  unfold Station.afterInline
  split
  · exact notifyInline_owes h _
  · exact h

theorem afterInline_allOwe {S : Station} (h : AllOwe S) (m : Msg) : AllOwe (S.afterInline m) := by
  unfold Station.afterInline
  split
  · exact notifyInline_allOwe h _
  · exact h

theorem notifyReceivedCa_fields (cfg : Cfg) (S : Station) (c : Cert) :
    (S.notifyReceivedCa cfg c).1.unknownAts = S.unknownAts.erase (h3 c.id) ∧
    SameReq S (S.notifyReceivedCa cfg c).1 ∧ (S.notifyReceivedCa cfg c).1.store.own = S.store.own := by
  unfold Station.notifyReceivedCa
  simp only
  split
  · exact ⟨rfl, ⟨rfl, rfl, rfl⟩, rfl⟩
  · rename_i st hst
    exact ⟨rfl, ⟨rfl, rfl, rfl⟩, (addAA_grows hst).own⟩

/-- the message's requestedCertificate does not collide (HashedId3) with the awaited ticket -/
def Msg.noCaClash (m : Msg) (x : Nat) : Prop := ∀ c, m.reqCert = some c → h3 c.id ≠ x

theorem onSuccess_asking {cfg : Cfg} {S : Station} {x : Nat} (h : Asking S x) {m : Msg} (hm : m.noCaClash x) :
    Asking (S.onSuccess cfg m).1 x := by
  unfold Station.onSuccess
  split
  · exact h
  · have h1 := afterInline_unknownAts S m
    have h2 := afterInline_allOwe h.2 m
    split
    · exact ⟨by rw [h1]; exact h.1, h2⟩
    · rename_i c hc
      obtain ⟨h3', h4, h5⟩ := notifyReceivedCa_fields cfg (S.afterInline m) c
      refine ⟨?_, h4.allOwe h5 h2⟩
      rw [h3', h1]
      exact (List.mem_erase_of_ne (hm c hc).symm).2 h.1

theorem onSuccess_owes {cfg : Cfg} {S : Station} {t : Nat} (h : Owes S t) (m : Msg) :
    Owes (S.onSuccess cfg m).1 t := by
  unfold Station.onSuccess
  split
  · exact h
  · have h2 := afterInline_owes h m
    split
    · exact h2
    · rename_i c hc
      exact (notifyReceivedCa_fields cfg (S.afterInline m) c).2.1.owes h2

theorem verifyWith_asking {cfg : Cfg} {S : Station} {x : Nat} (h : Asking S x) {m : Msg} (hm : m.noCaClash x) (a : SC) :
    Asking (S.verifyWith cfg m a).1 x := by
  unfold Station.verifyWith
  split
  · exact h
  · split
    · have := onSuccess_asking (cfg := cfg) h hm
      split <;> (rename_i hh; rw [hh] at this; exact this)
    · exact h

theorem verifyWith_owes {cfg : Cfg} {S : Station} {t : Nat} (h : Owes S t) (m : Msg) (a : SC) :
    Owes (S.verifyWith cfg m a).1 t := by
  unfold Station.verifyWith
  split
  · exact h
  · split
    · have := onSuccess_owes (cfg := cfg) h m
      split <;> (rename_i hh; rw [hh] at this; exact this)
    · exact h

theorem asking_store {S : Station} {x : Nat} (h : Asking S x) {st : Store} (hown : st.own = S.store.own) :
    Asking { S with store := st } x :=
  ⟨h.1, SameReq.allOwe (S := S) ⟨rfl, rfl, rfl⟩ hown h.2⟩

theorem owes_store {S : Station} {t : Nat} (h : Owes S t) (st : Store) : Owes { S with store := st } t :=
  SameReq.owes (S := S) ⟨rfl, rfl, rfl⟩ h

/-- receiving anything keeps the pending request (unless a CA certificate with a colliding HashedId3 arrives) -/
theorem verifyMsg_asking {cfg : Cfg} {S : Station} {x : Nat} (h : Asking S x) {m : Msg} (hm : m.noCaClash x) :
    Asking (S.verifyMsg cfg m).1 x := by
  unfold Station.verifyMsg
  split
  · split <;> exact h
  · split
    · exact h
    · split
      · exact note_keeps h _
      · exact verifyWith_asking h hm _
  · split
    · split
      · exact h
      · split
        · exact note_keeps h _
        · exact h
      · rename_i st a hseq
        exact verifyWith_asking (S := { S with store := st }) (asking_store h (verifySeq1_grows hseq).own) hm a
    · exact h

/-- a request for the certificate of ticket `t`, once noted, survives every reception -/
theorem verifyMsg_owes {cfg : Cfg} {S : Station} {t : Nat} (h : Owes S t) (m : Msg) :
    Owes (S.verifyMsg cfg m).1 t := by
  unfold Station.verifyMsg
  split
  · split <;> exact h
  · split
    · exact h
    · split
      · exact note_owes h _
      · exact verifyWith_owes h m _
  · split
    · split
      · exact h
      · split
        · exact note_owes h _
        · exact h
      · rename_i st a hseq
        exact verifyWith_owes (S := { S with store := st }) (owes_store h st) m a
    · exact h

/-- (step 0) a digest-signed message of an unknown ticket is rejected and makes the receiver ask for it -/
theorem reject_unknown_digest {cfg : Cfg} {S : Station} (hs : S.hasSign = true) (hne : S.store.own ≠ []) {m : Msg}
    {h8 : Nat} (hsg : m.signer = .digest h8) (h37 : m.psid ≠ 37) (hun : find S.store.ats h8 = none) :
    (S.verifyMsg cfg m).2 = .ok { report := .signerCertificateNotFound } ∧
    Asking (S.verifyMsg cfg m).1 (h3 h8) ∧ (S.verifyMsg cfg m).1.store = S.store ∧
    (S.verifyMsg cfg m).1.hasSign = S.hasSign := by
  unfold Station.verifyMsg
  have : (m.psid == 37) = false := by simpa using h37
  simp only [hsg, this, Bool.false_eq_true, if_false, hun, Station.note, hs, if_true]
  exact ⟨trivial, notifyUnknown_asking S h8 hne, by simp, by simp [hs]⟩

theorem find_map_set (t now : Nat) : ∀ l : List (Nat × Nat), (∃ q ∈ l, (q.1 == t) = true) →
    (l.map (fun p => if p.1 == t then (t, now) else p)).find? (fun p => p.1 == t) = some (t, now) := by
  intro l
  induction l with
  | nil => rintro ⟨q, hq, _⟩; simp at hq
  | cons x xs ih =>
    rintro ⟨q, hq, hqt⟩
    by_cases hx : (x.1 == t) = true
    · simp only [List.map_cons, hx, if_true, List.find?_cons, beq_self_eq_true]
    · have hx' : (x.1 == t) = false := by simpa using hx
      simp only [List.map_cons, hx', Bool.false_eq_true, if_false, List.find?_cons]
      rcases List.mem_cons.1 hq with rfl | hq'
      · exact absurd hqt hx
      · exact ih ⟨q, hq', hqt⟩

theorem find_none_of_any_false (t : Nat) (l : List (Nat × Nat)) (h : l.any (fun p => p.1 == t) = false) :
    l.find? (fun p => p.1 == t) = none := by
  rw [List.find?_eq_none]
  intro x hx
  have := (List.any_eq_false.1 h) x hx
  simpa using this

/-- `dict[t] = now` then `dict.get(t, 0)` -/
theorem lastIncl_setLast_same (l : List (Nat × Nat)) (t now : Nat) :
    (match (Station.setLast l t now).find? (fun p => p.1 == t) with | some p => p.2 | none => 0) = now := by
  unfold Station.setLast
  by_cases ha : l.any (fun p => p.1 == t) = true
  · simp only [ha, if_true]
    rw [find_map_set t now l (List.any_eq_true.1 ha)]
  · have ha' : l.any (fun p => p.1 == t) = false := Bool.eq_false_iff.2 ha
    simp only [ha', Bool.false_eq_true, if_false]
    rw [List.find?_append, find_none_of_any_false t l ha']; simp

theorem included_lastFor (S : Station) (t now : Nat) : (S.included t now).lastFor t = now := by
  unfold Station.included Station.lastFor
  by_cases hp : S.perTicket = true
  · simp only [hp, if_true, Station.lastIncl]
    exact lastIncl_setLast_same S.lastOf t now
  · simp [hp]

theorem included_asked (S : Station) (t now : Nat) : (S.included t now).asked t = false := by
  unfold Station.included Station.asked
  by_cases hp : S.perTicket = true
  · simp only [hp, if_true]
    cases hf : S.owed.filter (fun x => x != t) with
    | nil => simp
    | cons y ys =>
      have hnot : t ∉ S.owed.filter (fun x => x != t) := by
        intro hm; have := (List.mem_filter.1 hm).2; simp at this
      rw [hf] at hnot
      simp only [List.isEmpty_cons, Bool.not_false, Bool.true_and, Bool.false_or]
      simpa using hnot
  · simp [hp]

theorem wantsCert_of_asked {S : Station} {t : Nat} (h : S.asked t = true) (now : Nat) : S.wantsCert t now = true := by
  unfold Station.wantsCert; simp [h]

/-- (step 1) a station that is asking puts the request and its own certificate into its next CAM -/
theorem asking_cam {S S' : Station} {x : Nat} (h : Asking S x) {now psid gt pl : Nat} {m : Msg}
    (hc : S.signCam now psid gt pl = (S', .ok m)) :
    ∃ a, Station.presentAt S.store.own psid = .ok (some a) ∧ m.signer = .certs [a.c] ∧
      (∃ l, m.inlineReq = some l ∧ x ∈ l) ∧ BaseProfile m psid gt pl a ∧ m.genLoc = false := by
  obtain ⟨a, hp, hb, hl, hinl, _, _, _, _, _, hw⟩ := signCam_ok hc
  refine ⟨a, hp, ?_, ⟨S.unknownAts, ?_, h.1⟩, hb, hl⟩
  · rcases hw with ⟨_, h2, _⟩ | ⟨h1, _⟩
    · exact h2
    · rw [wantsCert_of_asked (h.2.1 a (presentAt_some hp).1)] at h1; cases h1
  · rw [hinl]; unfold Station.inlineField
    have : S.unknownAts.isEmpty = false := by
      have h1 := h.1
      cases hl : S.unknownAts with
      | nil => rw [hl] at h1; simp at h1
      | cons _ _ => rfl
    simp [this]

/-- (step 2) accepting a CAM whose inlineP2pcdRequest names an own ticket makes that ticket attach its certificate next -/
theorem request_received {cfg : Cfg} {S : Station} (hs : S.hasSign = true) {m : Msg} {l : List Nat}
    (hinl : m.inlineReq = some l) {o : SC} (ho : o ∈ S.store.own) (hx : h3 o.c.id ∈ l) :
    Owes (S.onSuccess cfg m).1 o.c.id := by
  unfold Station.onSuccess
  simp only [hs, Bool.not_true, Bool.false_eq_true, if_false]
  have h1 : Owes (S.afterInline m) o.c.id := by
    unfold Station.afterInline
    simp only [hinl]
    exact notifyInline_named S ho hx
  split
  · exact h1
  · rename_i c hc
    exact (notifyReceivedCa_fields cfg (S.afterInline m) c).2.1.owes h1

/-- (step 3) a ticket whose certificate was requested signs its next CAM with the certificate, whatever its timer says -/
theorem requested_cam {S S' : Station} {now psid gt pl : Nat} {m : Msg}
    (hc : S.signCam now psid gt pl = (S', .ok m))
    (h : ∀ a, Station.presentAt S.store.own psid = .ok (some a) → S.asked a.c.id = true) :
    ∃ a, Station.presentAt S.store.own psid = .ok (some a) ∧ m.signer = .certs [a.c] ∧ BaseProfile m psid gt pl a ∧
      m.genLoc = false ∧ S'.lastFull = now := by
  obtain ⟨a, hp, hb, hl, _, _, _, _, _, _, hw⟩ := signCam_ok hc
  rcases hw with ⟨_, h2, h3', _⟩ | ⟨h1, _⟩
  · exact ⟨a, hp, h2, hb, hl, h3'⟩
  · rw [wantsCert_of_asked (h a hp)] at h1; cases h1




/-! ### traffic (receive / sign) operations of the exchange model -/

def Op.isTraffic : Op → Prop
  | .msg _ | .signCam .. | .signDenm .. | .signOther .. => True
  | _ => False

def Op.notCam : Op → Prop
  | .signCam .. => False
  | _ => True

def Op.noClash (c : Cert) : Op → Prop
  | .msg m => m.noClash c
  | _ => True

def Op.noCaClash (x : Nat) : Op → Prop
  | .msg m => m.noCaClash x
  | _ => True

theorem foldl_addRequested_hasSign (l : List Nat) (S : Station) :
    (l.foldl Station.addRequested S).hasSign = S.hasSign := by
  induction l generalizing S with
  | nil => rfl
  | cons x xs ih => simp only [List.foldl_cons]; rw [ih, (addRequested_fields S x).2.2]

theorem onSuccess_hasSign (cfg : Cfg) (S : Station) (m : Msg) : (S.onSuccess cfg m).1.hasSign = S.hasSign := by
  have hA : (S.afterInline m).hasSign = S.hasSign := by
    unfold Station.afterInline
    split
    · unfold Station.notifyInline; simp only; rw [foldl_addRequested_hasSign]; split <;> simp
    · rfl
  unfold Station.onSuccess
  split
  · rfl
  · split
    · exact hA
    · unfold Station.notifyReceivedCa; simp only; split <;> exact hA

theorem verifyWith_hasSign (cfg : Cfg) (S : Station) (m : Msg) (a : SC) : (S.verifyWith cfg m a).1.hasSign = S.hasSign := by
  unfold Station.verifyWith
  split
  · rfl
  · split
    · have := onSuccess_hasSign cfg S m
      split <;> (rename_i h; rw [h] at this; exact this)
    · rfl

theorem verifyMsg_hasSign (cfg : Cfg) (S : Station) (m : Msg) : (S.verifyMsg cfg m).1.hasSign = S.hasSign := by
  unfold Station.verifyMsg
  split
  · split <;> rfl
  · split
    · rfl
    · split
      · simp
      · exact verifyWith_hasSign cfg S m _
  · split
    · split
      · rfl
      · split <;> simp
      · rename_i st a hseq
        exact verifyWith_hasSign cfg { S with store := st } m a
    · rfl

theorem signCam_fields (S : Station) (now psid gt pl : Nat) :
    (S.signCam now psid gt pl).1.hasSign = S.hasSign ∧ (S.signCam now psid gt pl).1.unknownAts = S.unknownAts := by
  unfold Station.signCam
  have h1 := (popRequested_spec S).1
  split
  · rename_i h; rw [h] at h1; simp only at h1; subst h1; exact ⟨rfl, rfl⟩
  · rename_i S1 rc h
    rw [h] at h1; simp only at h1; subst h1
    split
    · exact ⟨rfl, rfl⟩
    · exact ⟨rfl, rfl⟩
    · split
      · exact ⟨by simp, by simp⟩
      · exact ⟨rfl, rfl⟩

/-- one traffic operation: own certificates, roots and the sign-service flag never change -/
theorem traffic_step_fixed {cfg : Cfg} (S : Station) {op : Op} (ht : op.isTraffic) :
    (S.step cfg op).store.own = S.store.own ∧ (S.step cfg op).hasSign = S.hasSign := by
  cases op with
  | msg m => exact ⟨(verifyMsg_grows cfg S m).own, verifyMsg_hasSign cfg S m⟩
  | signCam now psid gt pl =>
    exact ⟨by simp [Station.step], (signCam_fields S now psid gt pl).1⟩
  | signDenm loc psid gt pl =>
    refine ⟨by simp [Station.step], ?_⟩
    simp only [Station.step]; unfold Station.signDenm; split
    · rfl
    · split <;> rfl
  | signOther psid gt pl =>
    refine ⟨by simp [Station.step], ?_⟩
    simp only [Station.step]; unfold Station.signOther; split <;> rfl
  | addRoot s => exact absurd ht (by simp [Op.isTraffic])
  | addAA s => exact absurd ht (by simp [Op.isTraffic])
  | addAT s => exact absurd ht (by simp [Op.isTraffic])
  | addOwn s => exact absurd ht (by simp [Op.isTraffic])
  | vseq cs => exact absurd ht (by simp [Op.isTraffic])

theorem traffic_step_ready {cfg : Cfg} {S : Station} {c : Cert} (hr : Ready cfg S.store c) {op : Op}
    (ht : op.isTraffic) (hc : op.noClash c) : Ready cfg (S.step cfg op).store c := by
  cases op with
  | msg m => exact ready_rx hr m hc
  | signCam now psid gt pl => simpa [Station.step] using hr
  | signDenm loc psid gt pl => simpa [Station.step] using hr
  | signOther psid gt pl => simpa [Station.step] using hr
  | addRoot s => exact absurd ht (by simp [Op.isTraffic])
  | addAA s => exact absurd ht (by simp [Op.isTraffic])
  | addAT s => exact absurd ht (by simp [Op.isTraffic])
  | addOwn s => exact absurd ht (by simp [Op.isTraffic])
  | vseq cs => exact absurd ht (by simp [Op.isTraffic])

theorem signDenm_state (S : Station) (loc : Bool) (psid gt pl : Nat) : (S.signDenm loc psid gt pl).1 = S := by
  unfold Station.signDenm; split
  · rfl
  · split <;> rfl

theorem signOther_state (S : Station) (psid gt pl : Nat) : (S.signOther psid gt pl).1 = S := by
  unfold Station.signOther; split <;> rfl

theorem traffic_step_asking {cfg : Cfg} {S : Station} {x : Nat} (h : Asking S x) {op : Op}
    (ht : op.isTraffic) (hn : op.notCam) (hc : op.noCaClash x) : Asking (S.step cfg op) x := by
  cases op with
  | msg m => exact verifyMsg_asking h hc
  | signCam now psid gt pl => exact absurd hn (by simp [Op.notCam])
  | signDenm loc psid gt pl => simp only [Station.step]; rw [signDenm_state]; exact h
  | signOther psid gt pl => simp only [Station.step]; rw [signOther_state]; exact h
  | addRoot s => exact absurd ht (by simp [Op.isTraffic])
  | addAA s => exact absurd ht (by simp [Op.isTraffic])
  | addAT s => exact absurd ht (by simp [Op.isTraffic])
  | addOwn s => exact absurd ht (by simp [Op.isTraffic])
  | vseq cs => exact absurd ht (by simp [Op.isTraffic])

theorem traffic_step_owes {cfg : Cfg} {S : Station} {t : Nat} (h : Owes S t) {op : Op}
    (ht : op.isTraffic) (hn : op.notCam) : Owes (S.step cfg op) t := by
  cases op with
  | msg m => exact verifyMsg_owes h m
  | signCam now psid gt pl => exact absurd hn (by simp [Op.notCam])
  | signDenm loc psid gt pl => simp only [Station.step]; rw [signDenm_state]; exact h
  | signOther psid gt pl => simp only [Station.step]; rw [signOther_state]; exact h
  | addRoot s => exact absurd ht (by simp [Op.isTraffic])
  | addAA s => exact absurd ht (by simp [Op.isTraffic])
  | addAT s => exact absurd ht (by simp [Op.isTraffic])
  | addOwn s => exact absurd ht (by simp [Op.isTraffic])
  | vseq cs => exact absurd ht (by simp [Op.isTraffic])

/-! lifted to arbitrary interleavings (lists of operations) -/

theorem run_cons (cfg : Cfg) (S : Station) (op : Op) (ops : List Op) :
    S.run cfg (op :: ops) = (S.step cfg op).run cfg ops := rfl

theorem traffic_run_fixed {cfg : Cfg} (ops : List Op) (S : Station) (h : ∀ op ∈ ops, op.isTraffic) :
    (S.run cfg ops).store.own = S.store.own ∧ (S.run cfg ops).hasSign = S.hasSign := by
  induction ops generalizing S with
  | nil => exact ⟨rfl, rfl⟩
  | cons op rest ih =>
    rw [run_cons]
    obtain ⟨h1, h2⟩ := ih (S.step cfg op) (fun o ho => h o (by simp [ho]))
    obtain ⟨h3, h4⟩ := traffic_step_fixed (cfg := cfg) S (h op (by simp))
    exact ⟨h1.trans h3, h2.trans h4⟩

theorem traffic_run_ready {cfg : Cfg} {c : Cert} (ops : List Op) (S : Station) (hr : Ready cfg S.store c)
    (h : ∀ op ∈ ops, op.isTraffic ∧ op.noClash c) : Ready cfg (S.run cfg ops).store c := by
  induction ops generalizing S with
  | nil => exact hr
  | cons op rest ih =>
    rw [run_cons]
    exact ih _ (traffic_step_ready hr (h op (by simp)).1 (h op (by simp)).2) (fun o ho => h o (by simp [ho]))

theorem traffic_run_asking {cfg : Cfg} {x : Nat} (ops : List Op) (S : Station) (ha : Asking S x)
    (h : ∀ op ∈ ops, op.isTraffic ∧ op.notCam ∧ op.noCaClash x) : Asking (S.run cfg ops) x := by
  induction ops generalizing S with
  | nil => exact ha
  | cons op rest ih =>
    rw [run_cons]
    have := h op (by simp)
    exact ih _ (traffic_step_asking ha this.1 this.2.1 this.2.2) (fun o ho => h o (by simp [ho]))

theorem traffic_run_owes {cfg : Cfg} {t : Nat} (ops : List Op) (S : Station) (ha : Owes S t)
    (h : ∀ op ∈ ops, op.isTraffic ∧ op.notCam) : Owes (S.run cfg ops) t := by
  induction ops generalizing S with
  | nil => exact ha
  | cons op rest ih =>
    rw [run_cons]
    have := h op (by simp)
    exact ih _ (traffic_step_owes ha this.1 this.2) (fun o ho => h o (by simp [ho]))




theorem verifySeq2_grows {cfg : Cfg} {st st' : Store} {c aa : Cert} {r : Option SC}
    (h : st.verifySeq2 cfg c aa = .ok (st', r)) : Store.Grows st st' := by
  unfold Store.verifySeq2 at h
  split at h
  · split at h
    · cases h; exact Store.Grows.refl _
    · simp only at h
      split at h
      · split at h
        · simp at h
        · rename_i st1 hadd1
          split at h
          · split at h
            · simp at h
            · rename_i st2 hadd2
              cases h
              exact (addAA_grows hadd1).trans (addAT_grows hadd2)
          · cases h; exact addAA_grows hadd1
      · cases h; exact Store.Grows.refl _
  · cases h; exact Store.Grows.refl _
  · cases h; exact Store.Grows.refl _
  · simp at h

theorem verifySeq_grows {cfg : Cfg} {st st' : Store} {cs : List Cert} {r : Option SC}
    (h : st.verifySeq cfg cs = .ok (st', r)) : Store.Grows st st' := by
  unfold Store.verifySeq at h
  split at h
  · exact verifySeq1_grows h
  · exact verifySeq2_grows h
  · split at h
    · exact verifySeq2_grows h
    · cases h; exact Store.Grows.refl _
  · cases h; exact Store.Grows.refl _

theorem addOwn_roots {cfg : Cfg} {st st' : Store} {s : SC} (h : st.addOwn cfg s = .ok st') : st'.roots = st.roots := by
  unfold Store.addOwn at h
  split at h
  · simp at h
  · cases h; rfl
  · simp only [Except.ok.injEq] at h
    split at h <;> (subst h; rfl)

/-- the root dictionary changes only through `add_root_certificate`, and only by a certificate that verifies -/
theorem roots_only_by_addRoot (cfg : Cfg) (S : Station) (op : Op) :
    (S.step cfg op).store.roots = S.store.roots ∨
    ∃ s, op = .addRoot s ∧ s.c.verify cfg s.att = true ∧ (S.step cfg op).store.roots = put S.store.roots s := by
  cases op with
  | addRoot s =>
    simp only [Station.step, Store.addRoot]
    by_cases hv : s.c.verify cfg s.att = true
    · right; exact ⟨s, rfl, hv, by simp [hv]⟩
    · left; simp [hv]
  | addAA s =>
    left; simp only [Station.step]
    cases h : S.store.addAA cfg s with
    | error e => rfl
    | ok st => exact (addAA_grows h).roots
  | addAT s =>
    left; simp only [Station.step]
    cases h : S.store.addAT cfg s with
    | error e => rfl
    | ok st => exact (addAT_grows h).roots
  | addOwn s =>
    left; simp only [Station.step]
    cases h : S.store.addOwn cfg s with
    | error e => rfl
    | ok st => exact addOwn_roots h
  | vseq cs =>
    left; simp only [Station.step]
    cases h : S.store.verifySeq cfg cs with
    | error e => rfl
    | ok r => obtain ⟨st, r⟩ := r; exact (verifySeq_grows h).roots
  | msg m => left; exact (verifyMsg_grows cfg S m).roots
  | signCam now psid gt pl => left; simp [Station.step]
  | signDenm loc psid gt pl => left; simp [Station.step]
  | signOther psid gt pl => left; simp [Station.step]


end FlexModel.Sec

/-
The router's receive path around the security gate, with its thread-local receive context and with processing
BEHIND the gate that may raise (src/flexstack/geonet/router.py: `process_basic_header`, `process_security_header`,
`_rx_context`).

`gate` (Verify.lean) is a function of (configuration, station, packet): it has no router state.  The source keeps one
piece of per-thread state on this path – `_rx_context.secured_message`, set before `process_common_header` is called
for a verified packet and reset in a `finally` clause – and the processing behind the gate can leave through an
exception (DecapError "Hop limit exceeded" for a Basic Header RHL above the Common Header's MHL, decode errors,
NotImplementedError …).  This file models exactly that, so that "whatever packets were received before" covers
histories in which earlier packets were ABORTED behind the gate.

The tie to the source is the regenerated fact `Generated.SecRx` (ast pass of harness/gen_sec.py: the conditions of the
two functions read `mib.itsGnProtocolVersion`, `mib.itsGnSecurity`, `verify_service` and nothing else of `self`; the
only store that outlives the call is `_rx_context.secured_message`, re-assigned in a `finally`), checked by
`Props.C03.receive_path_matches_source`, plus the fault-injecting sequences of harness/props/c03.py.
Core Lean only.
-/
import FlexModel.Sec.Verify
namespace FlexModel.Sec

/-- `Router._rx_context` (threading.local): the secured message being processed, kept for forwarders -/
structure RxCtx where
  secured : Option Nat := none
  deriving DecidableEq, Repr, Inhabited

/-- what the GeoNetworking processing behind the gate does with a packet handed to it -/
inductive Upper where
  | returns | raises
  deriving DecidableEq, Repr, Inhabited

/-- one received frame: its abstraction for the gate, an identity of its bytes, and the fate of the processing behind
    the gate should the frame get that far -/
structure RxIn where
  pkt : Packet
  frame : Nat := 0
  upper : Upper := .returns
  deriving Repr, Inhabited

structure RxOut where
  gate : GateOut                -- the gate's verdict
  seen : Option Nat := none     -- `_rx_context.secured_message` as the processing behind the gate sees it
  raised : Bool := false        -- the call of process_basic_header left through an exception
  deriving DecidableEq, Repr, Inhabited

/-- `process_common_header` under the `try … finally` of `process_security_header`: the context attribute is set on
    the way in and reset on EVERY way out -/
def behindGate (rx : RxCtx) (x : RxIn) (secured : Bool) : RxCtx × Option Nat × Bool :=
  let rxIn : RxCtx := if secured then { rx with secured := some x.frame } else rx
  let rxOut : RxCtx := if secured then { rxIn with secured := none } else rxIn      -- finally
  (rxOut, rxIn.secured, x.upper == .raises)

/-- `Router.process_basic_header` for one frame -/
def rxStep (cfg : Cfg) (en hv : Bool) (st : Station × RxCtx) (x : RxIn) : (Station × RxCtx) × RxOut :=
  match gate cfg en hv st.1 x.pkt with
  | (S', .pass pl) =>
    let secured := match x.pkt with | .secured _ => true | _ => false
    let r := behindGate st.2 x secured
    ((S', r.1), { gate := .pass pl, seen := r.2.1, raised := r.2.2 })
  | (S', .raise e) => ((S', st.2), { gate := .raise e, raised := true })
  | (S', .drop w) => ((S', st.2), { gate := .drop w })

def rxRun (cfg : Cfg) (en hv : Bool) (st : Station × RxCtx) (hist : List RxIn) : Station × RxCtx :=
  hist.foldl (fun s x => (rxStep cfg en hv s x).1) st

/-- the verdict on a frame is the gate's verdict on the station state – the receive context plays no role -/
theorem rxStep_gate (cfg : Cfg) (en hv : Bool) (st : Station × RxCtx) (x : RxIn) :
    (rxStep cfg en hv st x).2.gate = (gate cfg en hv st.1 x.pkt).2 ∧
    (rxStep cfg en hv st x).1.1 = (gate cfg en hv st.1 x.pkt).1 := by
  unfold rxStep
  rcases h : gate cfg en hv st.1 x.pkt with ⟨S', o⟩
  cases o <;> simp

/-- the receive context is clean after every frame – delivered, dropped, rejected with an exception, or aborted by an
    exception behind the gate -/
theorem rxStep_clean (cfg : Cfg) (en hv : Bool) (st : Station × RxCtx) (x : RxIn) (hc : st.2.secured = none) :
    (rxStep cfg en hv st x).1.2.secured = none := by
  unfold rxStep
  rcases h : gate cfg en hv st.1 x.pkt with ⟨S', o⟩
  cases o with
  | pass pl =>
    simp only [behindGate]
    split <;> simp [hc]
  | drop w => simpa using hc
  | raise e => simpa using hc

theorem rxRun_clean (cfg : Cfg) (en hv : Bool) (hist : List RxIn) (st : Station × RxCtx) (hc : st.2.secured = none) :
    (rxRun cfg en hv st hist).2.secured = none := by
  induction hist generalizing st with
  | nil => exact hc
  | cons x xs ih =>
    simp only [rxRun, List.foldl_cons]
    exact ih _ (rxStep_clean cfg en hv st x hc)

/-- the station a history leaves behind does not depend on what happened behind the gate (which frames were aborted by
    an exception there): it is the fold of the gate over the packets -/
theorem rxRun_station (cfg : Cfg) (en hv : Bool) (hist : List RxIn) (st : Station × RxCtx) :
    (rxRun cfg en hv st hist).1 = (hist.map (·.pkt)).foldl (fun S p => (gate cfg en hv S p).1) st.1 := by
  induction hist generalizing st with
  | nil => rfl
  | cons x xs ih =>
    simp only [rxRun, List.foldl_cons, List.map_cons]
    have := ih (rxStep cfg en hv st x).1
    simp only [rxRun] at this
    rw [this, (rxStep_gate cfg en hv st x).2]

end FlexModel.Sec

/-
Security model, part 2: `CertificateLibrary` (src/flexstack/security/certificate_library.py).
The four dictionaries are association lists in insertion order (Python dict order matters for the HashedId3 lookup
and for `get_present_at_for_signging`).  A stored object is a certificate plus its attached issuer object.
-/
import FlexModel.Sec.Cert
namespace FlexModel.Sec

/-- a `Certificate` object: the dict plus the attached `issuer` object (one level is all `verify` looks at) -/
structure SC where
  c : Cert
  att : Option Cert
  deriving DecidableEq, Repr, Inhabited

structure Store where
  roots : List SC := []
  aas : List SC := []
  ats : List SC := []
  own : List SC := []
  deriving DecidableEq, Repr, Inhabited

inductive Err where
  | valueError      -- get_issuer_certificate: "Unknown issuer type"; verify_with_pk: unsupported formats
  | keyError        -- get_list_of_its_aid on a certificate without appPermissions
  | exception       -- VerifyService.verify: "Unknown signer type"
  | runtimeError    -- SignService: no AT / no CA certificate for request
  | notImplemented  -- sign_request with its_aid 36
  deriving DecidableEq, Repr, Inhabited

def Err.name : Err → String
  | .valueError => "ValueError" | .keyError => "KeyError" | .exception => "Exception"
  | .runtimeError => "RuntimeError" | .notImplemented => "NotImplementedError"

def find (l : List SC) (h : Nat) : Option SC := l.find? (fun s => s.c.id == h)

def has (l : List SC) (h : Nat) : Bool := l.any (fun s => s.c.id == h)

/-- `d[key] = value` -/
def put (l : List SC) (s : SC) : List SC :=
  if has l s.c.id then l.map (fun x => if x.c.id == s.c.id then s else x) else l ++ [s]

namespace Store

/-- `get_issuer_certificate` -/
def getIssuer (st : Store) (c : Cert) : Except Err (Option SC) :=
  match c.issuer with
  | .self | .selfOther => .ok none
  | .digest h => .ok (match find st.roots h with | some r => some r | none => find st.aas h)
  | .other => .error .valueError

/-- `add_root_certificate` -/
def addRoot (cfg : Cfg) (st : Store) (s : SC) : Store :=
  if s.c.verify cfg s.att then { st with roots := put st.roots s } else st

/-- `add_authorization_authority` -/
def addAA (cfg : Cfg) (st : Store) (s : SC) : Except Err Store :=
  if has st.aas s.c.id then .ok st
  else match st.getIssuer s.c with
    | .error e => .error e
    | .ok none => .ok st
    | .ok (some _) => .ok (if s.c.verify cfg s.att then { st with aas := st.aas ++ [s] } else st)

/-- `add_authorization_ticket` -/
def addAT (cfg : Cfg) (st : Store) (s : SC) : Except Err Store :=
  if has st.ats s.c.id then .ok st
  else match st.getIssuer s.c with
    | .error e => .error e
    | .ok none => .ok st
    | .ok (some _) => .ok (if s.c.verify cfg s.att then { st with ats := st.ats ++ [s] } else st)

/-- `add_own_certificate` -/
def addOwn (cfg : Cfg) (st : Store) (s : SC) : Except Err Store :=
  match st.getIssuer s.c with
  | .error e => .error e
  | .ok none => .ok st
  | .ok (some _) => .ok (if s.c.verify cfg s.att then { st with own := put st.own s } else st)

/-- `verify_sequence_of_certificates` with exactly one certificate -/
def verifySeq1 (cfg : Cfg) (st : Store) (c : Cert) : Except Err (Store × Option SC) :=
  match find st.ats c.id with
  | some known => .ok (st, some known)
  | none =>
    match st.getIssuer c with
    | .error e => .error e
    | .ok none => .ok (st, none)
    | .ok (some i) =>
      let t : SC := ⟨c, some i.c⟩
      if c.verify cfg (some i.c) then
        match st.addAT cfg t with
        | .error e => .error e
        | .ok st' => .ok (st', some t)
      else .ok (st, none)

/-- … with two certificates `[at, aa]` -/
def verifySeq2 (cfg : Cfg) (st : Store) (c aa : Cert) : Except Err (Store × Option SC) :=
  match aa.issuer with
  | .digest h =>
    match find st.roots h with
    | none => .ok (st, none)
    | some r =>
      let a : SC := ⟨aa, some r.c⟩
      if aa.verify cfg (some r.c) then
        match st.addAA cfg a with
        | .error e => .error e
        | .ok st1 =>
          let t : SC := ⟨c, some aa⟩
          if c.verify cfg (some aa) then
            match st1.addAT cfg t with
            | .error e => .error e
            | .ok st2 => .ok (st2, some t)
          else .ok (st1, none)
      else .ok (st, none)
  | .self | .selfOther => .ok (st, none)     -- get_issuer_hashedid8 → None, never a key of the dict
  | .other => .error .valueError             -- get_issuer_hashedid8 raises

/-- `verify_sequence_of_certificates` (first = ticket, then each one's issuer) -/
def verifySeq (cfg : Cfg) (st : Store) (cs : List Cert) : Except Err (Store × Option SC) :=
  match cs with
  | [c] => verifySeq1 cfg st c
  | [c, aa] => verifySeq2 cfg st c aa
  | [c, aa, root] => if has st.roots root.id then verifySeq2 cfg st c aa else .ok (st, none)
  | _ => .ok (st, none)

/-- `get_ca_certificate_by_hashedid3`; HashedId3 = low 24 bits of the HashedId8 -/
def h3 (id : Nat) : Nat := id % 16777216

def caByH3 (st : Store) (x : Nat) : Option SC :=
  match st.aas.find? (fun s => h3 s.c.id == x) with
  | some s => some s
  | none => st.roots.find? (fun s => h3 s.c.id == x)

end Store
end FlexModel.Sec

/-
Re-entrancy assumption of the verification model (C03).

`Station.verifyMsg` is a pure function `Station × Msg → Station × verdict`: everything one call of
`VerifyService.verify` leaves behind for a later (or overlapping) call is a field of `Station`.  That is an
ASSUMPTION about the source – the Python method could keep anything in `self.<attr>` – and it is tied to the source
here:

* `modelledWrites` lists, per Python function on the verification path, the stores to shared state the model
  accounts for, in the format of the regenerated fact `Generated.SecWrites.verifyPathWrites` (ast pass of
  harness/gen_sec.py).  `Props.C03.reentrancy_matches_source` proves the two lists equal by `decide`, so a new
  `self.x = …` (or `self.x.append`, `self.x[k] = …`, `del`, `setattr`, module global) anywhere on the path re-opens it.
* `fieldOfTarget` maps each written Python attribute to the `Station` field that models it; `writtenFields` is the
  image, and `verifyMsg_footprint` proves that `verifyMsg` leaves every OTHER field untouched – the model's write
  footprint is exactly the modelled Python writes.
-/
import FlexModel.Sec.Lemmas
namespace FlexModel.Sec

/-- the fields of `Station` (library dictionaries flattened) -/
inductive Field where
  | roots | aas | ats | own | hasSign | unknownAts | requestedAts | lastFull | reqOwn | perTicket | lastOf | owed
  deriving DecidableEq, Repr

/-- (class, function, kind, target) of every store on the verification path that outlives the call:
    the certificate library learns tickets / authorities (`Store.addAT`, `Store.addAA`), the sign service keeps the
    P2PCD bookkeeping (`notifyUnknown`, `notifyInline`, `notifyReceivedCa`).  `VerifyService` itself, `Certificate`
    and the ECDSA backend store nothing. -/
def modelledWrites : List (String × String × String × String) := [
  ("CertificateLibrary", "add_authorization_authority", "setitem", "known_authorization_authorities"),
  ("CertificateLibrary", "add_authorization_ticket", "setitem", "known_authorization_tickets"),
  ("CooperativeAwarenessMessageSecurityHandler", "request_own_certificate", "mut:update", "certificate_owed_by"),
  ("CooperativeAwarenessMessageSecurityHandler", "request_own_certificate", "set", "requested_own_certificate"),
  ("SignService", "notify_inline_p2pcd_request", "mut:append", "requested_ats"),
  ("SignService", "notify_received_ca_certificate", "mut:remove", "requested_ats"),
  ("SignService", "notify_received_ca_certificate", "mut:remove", "unknown_ats"),
  ("SignService", "notify_unknown_at", "mut:append", "unknown_ats")]

/-- the same for the code before repair C05-F2 (one request flag, set directly by the notifications;
    `Station.perTicket = false`) -/
def modelledWritesOld : List (String × String × String × String) := [
  ("CertificateLibrary", "add_authorization_authority", "setitem", "known_authorization_authorities"),
  ("CertificateLibrary", "add_authorization_ticket", "setitem", "known_authorization_tickets"),
  ("SignService", "notify_inline_p2pcd_request", "mut:append", "requested_ats"),
  ("SignService", "notify_inline_p2pcd_request", "set", "cam_handler.requested_own_certificate"),
  ("SignService", "notify_received_ca_certificate", "mut:remove", "requested_ats"),
  ("SignService", "notify_received_ca_certificate", "mut:remove", "unknown_ats"),
  ("SignService", "notify_unknown_at", "mut:append", "unknown_ats"),
  ("SignService", "notify_unknown_at", "set", "cam_handler.requested_own_certificate")]

/-- Python attribute → the `Station` field that models it -/
def fieldOfTarget (t : String) : Option Field :=
  if t == "known_root_certificates" then some .roots
  else if t == "known_authorization_authorities" then some .aas
  else if t == "known_authorization_tickets" then some .ats
  else if t == "own_certificates" then some .own
  else if t == "unknown_ats" then some .unknownAts
  else if t == "requested_ats" then some .requestedAts
  else if t == "cam_handler.last_signer_full_certificate_time" then some .lastFull
  else if t == "cam_handler.requested_own_certificate" then some .reqOwn
  else if t == "requested_own_certificate" then some .reqOwn              -- inside the handler itself
  else if t == "certificate_owed_by" then some .owed
  else if t == "last_full_certificate_time_of" then some .lastOf
  else none

/-- the fields a received message may change -/
def writtenFields : List Field := [.aas, .ats, .unknownAts, .requestedAts, .reqOwn, .owed]

/-- every modelled write lands in a `Station` field, and together they are exactly `writtenFields`
    (the code before C05-F2 has no `owed`: its writes land inside `writtenFields`) -/
theorem modelledWrites_fields :
    (modelledWrites.map (fun w => fieldOfTarget w.2.2.2)).all Option.isSome = true ∧
    (∀ f, f ∈ writtenFields ↔ some f ∈ modelledWrites.map (fun w => fieldOfTarget w.2.2.2)) ∧
    (modelledWritesOld.map (fun w => fieldOfTarget w.2.2.2)).all Option.isSome = true ∧
    (∀ f, some f ∈ modelledWritesOld.map (fun w => fieldOfTarget w.2.2.2) → f ∈ writtenFields) := by
  refine ⟨by decide, fun f => ?_, by decide, fun f => ?_⟩
  · cases f <;> decide
  · cases f <;> decide

/-! ### frame: the fields outside `writtenFields` are never touched by a received message -/

/-- the part of the sign-service state no reception writes: CAM timer(s) and the variant flag -/
def Station.timers (S : Station) : Nat × List (Nat × Nat) × Bool := (S.lastFull, S.lastOf, S.perTicket)

theorem requestOwn_timers (S : Station) (ids : List Nat) : (S.requestOwn ids).timers = S.timers := by
  unfold Station.requestOwn Station.timers; split <;> rfl

theorem addRequested_timers (S : Station) (x : Nat) : (S.addRequested x).timers = S.timers := by
  unfold Station.addRequested; split <;> rfl

theorem foldl_addRequested_timers (l : List Nat) (S : Station) :
    (l.foldl Station.addRequested S).timers = S.timers := by
  induction l generalizing S with
  | nil => rfl
  | cons x xs ih => simp only [List.foldl_cons]; rw [ih, addRequested_timers]

theorem onSuccess_timers (cfg : Cfg) (S : Station) (m : Msg) : (S.onSuccess cfg m).1.timers = S.timers := by
  have hA : (S.afterInline m).timers = S.timers := by
    unfold Station.afterInline
    split
    · unfold Station.notifyInline; simp only; rw [foldl_addRequested_timers]; split
      · exact requestOwn_timers _ _
      · rfl
    · rfl
  unfold Station.onSuccess
  split
  · rfl
  · split
    · exact hA
    · unfold Station.notifyReceivedCa; simp only; split <;> exact hA

theorem verifyWith_timers (cfg : Cfg) (S : Station) (m : Msg) (a : SC) :
    (S.verifyWith cfg m a).1.timers = S.timers := by
  unfold Station.verifyWith
  split
  · rfl
  · split
    · have := onSuccess_timers cfg S m
      split <;> (rename_i h; rw [h] at this; exact this)
    · rfl

theorem note_timers (S : Station) (h : Nat) : (S.note h).timers = S.timers := by
  unfold Station.note
  split
  · unfold Station.notifyUnknown; simp only; exact requestOwn_timers _ _
  · rfl

theorem verifyMsg_timers (cfg : Cfg) (S : Station) (m : Msg) : (S.verifyMsg cfg m).1.timers = S.timers := by
  unfold Station.verifyMsg
  split
  · split <;> rfl
  · split
    · rfl
    · split
      · exact note_timers S _
      · exact verifyWith_timers cfg S m _
  · split
    · split
      · rfl
      · split <;> first | exact note_timers S _ | rfl
      · rename_i st a hseq
        exact verifyWith_timers cfg { S with store := st } m a
    · rfl

theorem verifyMsg_lastFull (cfg : Cfg) (S : Station) (m : Msg) : (S.verifyMsg cfg m).1.lastFull = S.lastFull :=
  congrArg (·.1) (verifyMsg_timers cfg S m)

/-- the model's write footprint: a received message – genuine or forged – leaves the configured roots, the own
    certificates, the presence of a sign service, the CAM certificate timers (shared and per ticket) and the variant
    exactly as they were; whatever it changes is in `writtenFields` -/
theorem verifyMsg_footprint (cfg : Cfg) (S : Station) (m : Msg) :
    (S.verifyMsg cfg m).1.store.roots = S.store.roots ∧ (S.verifyMsg cfg m).1.store.own = S.store.own ∧
    (S.verifyMsg cfg m).1.hasSign = S.hasSign ∧ (S.verifyMsg cfg m).1.lastFull = S.lastFull ∧
    (S.verifyMsg cfg m).1.lastOf = S.lastOf ∧ (S.verifyMsg cfg m).1.perTicket = S.perTicket :=
  ⟨(verifyMsg_grows cfg S m).roots, (verifyMsg_grows cfg S m).own, verifyMsg_hasSign cfg S m, verifyMsg_lastFull cfg S m,
    congrArg (·.2.1) (verifyMsg_timers cfg S m), congrArg (·.2.2) (verifyMsg_timers cfg S m)⟩

end FlexModel.Sec

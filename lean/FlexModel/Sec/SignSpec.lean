/-
Specification of the CAM/VAM certificate-inclusion rule over the OBSERVABLE history of a station, independent of the
sign service's bookkeeping (C05): "the full certificate instead of its digest whenever more than one second has passed
since IT was last included or a peer has asked for IT" – `it` = the certificate of the ticket the message is signed
with.

* `Obs`: what can be seen at the station's interfaces, in order: CAM/VAM-profile emissions (time, signing ticket, did it
  carry the certificate), accepted messages carrying an inlineP2pcdRequest, receptions of a message of an unknown
  ticket.
* `lastInclR` / `pendingR`: the two notions of the rule, defined by recursion over the trace (newest first).
* `trace`: the observations of a run of traffic operations (computed from the operations and their results).
* `run_inv`: for the repaired code (`perTicket = true`) the signer's state after ANY history is exactly what the
  trace says, for every ticket; `spec_rule`: hence every emitted CAM/VAM obeys the rule.
* before the repair (`perTicket = false`) the same holds for a station that signs with ONE ticket (`run_inv_single`)
  and fails for two (`Props.C05.two_ticket_witness`).
-/
import FlexModel.Sec.Reentrancy
namespace FlexModel.Sec
open Store

inductive Obs where
  | sent (now : Nat) (ticket : Nat) (cert : Bool)
  | asked (l : List Nat)
  | unknown
  deriving DecidableEq, Repr

/-- time of the last emission signed with ticket `t` that carried its certificate (0 = never), newest event first -/
def lastInclR : List Obs → Nat → Nat
  | [], _ => 0
  | .sent now t' true :: rest, t => if t' = t then now else lastInclR rest t
  | _ :: rest, t => lastInclR rest t

/-- since the last inclusion of `t`'s certificate a peer asked for it: an accepted inlineP2pcdRequest named its
    HashedId3, or a message of an unknown ticket arrived (a new neighbour needs every own certificate) -/
def pendingR : List Obs → Nat → Bool
  | [], _ => false
  | .sent _ t' true :: rest, t => if t' = t then false else pendingR rest t
  | .sent _ _ false :: rest, t => pendingR rest t
  | .asked l :: rest, t => l.contains (h3 t) || pendingR rest t
  | .unknown :: _, _ => true

/-- the rule of the property text for an emission at `now` signed with ticket `t` after the (newest-first) trace -/
def Due (rtr : List Obs) (t now : Nat) : Prop := now - lastInclR rtr t > 1000 ∨ pendingR rtr t = true

instance (rtr : List Obs) (t now : Nat) : Decidable (Due rtr t now) := by unfold Due; exact inferInstance

/-! ### the observations of a run -/

def accObs (cfg : Cfg) (m : Msg) (a : SC) : List Obs :=
  match Station.judge cfg m a with
  | .ok o => if o.report == .success then (match m.inlineReq with | some l => [.asked l] | none => []) else []
  | .error _ => []

/-- what the reception of `m` shows: the message was accepted and carried a request, or its ticket is unknown -/
def rxObs (cfg : Cfg) (S : Station) (m : Msg) : List Obs :=
  if !S.hasSign then [] else
  match m.signer with
  | .selfS => []
  | .digest h =>
    if m.psid == 37 then []
    else match find S.store.ats h with
      | none => [.unknown]
      | some a => accObs cfg m a
  | .certs cs =>
    match cs with
    | [c] =>
      match S.store.verifySeq1 cfg c with
      | .error _ => []
      | .ok (_, none) => (match c.issuer with | .digest _ => [.unknown] | _ => [])
      | .ok (_, some a) => accObs cfg m a
    | _ => []

def sentObs (now : Nat) (r : Except Err Msg) : List Obs :=
  match r with
  | .ok m => (match m.signer with
    | .certs [c] => [.sent now c.id true]
    | .digest h => [.sent now h false]
    | _ => [])
  | .error _ => []

def stepObs (cfg : Cfg) (S : Station) : Op → List Obs
  | .msg m => rxObs cfg S m
  | .signCam now psid gt pl => sentObs now (S.signCam now psid gt pl).2
  | _ => []

/-- newest-first trace of a run -/
def trace (cfg : Cfg) : Station → List Op → List Obs → List Obs
  | _, [], acc => acc
  | S, op :: ops, acc => trace cfg (S.step cfg op) ops (stepObs cfg S op ++ acc)

/-! ### the signer's state is what the trace says (repaired code) -/

/-- per-ticket bookkeeping agrees with the trace -/
structure Agrees (S : Station) (rtr : List Obs) : Prop where
  pt : S.perTicket = true
  last : ∀ t, S.lastIncl t = lastInclR rtr t
  pend : ∀ o ∈ S.store.own, S.owed.contains o.c.id = pendingR rtr o.c.id
  flag : S.reqOwn = !S.owed.isEmpty
  sub : ∀ x ∈ S.owed, x ∈ S.ownIds
  ne : S.store.own ≠ []
  sign : S.hasSign = true

theorem Agrees.asked {S : Station} {rtr : List Obs} (h : Agrees S rtr) {o : SC} (ho : o ∈ S.store.own) :
    S.asked o.c.id = pendingR rtr o.c.id := by
  unfold Station.asked
  rw [h.pt, h.flag, ← h.pend o ho]
  cases hc : S.owed with
  | nil => simp
  | cons _ _ => simp

theorem mem_ownIds {S : Station} {x : Nat} : x ∈ S.ownIds ↔ ∃ o ∈ S.store.own, o.c.id = x := by
  unfold Station.ownIds; simp [List.mem_map]

/-- `requestOwn ids` for ids ⊆ own, nonempty: exactly the named tickets become pending -/
theorem agrees_request {S : Station} {rtr : List Obs} (h : Agrees S rtr) {ids : List Nat} (hne : ids ≠ [])
    (hsub : ∀ x ∈ ids, x ∈ S.ownIds) (ev : Obs)
    (hev : ∀ o ∈ S.store.own, pendingR (ev :: rtr) o.c.id = (ids.contains o.c.id || pendingR rtr o.c.id))
    (hlast : ∀ t, lastInclR (ev :: rtr) t = lastInclR rtr t) : Agrees (S.requestOwn ids) (ev :: rtr) := by
  have hpt := h.pt
  have hS : S.requestOwn ids = { S with reqOwn := true, owed := Station.addOwed S.owed ids } := by
    unfold Station.requestOwn; simp [hpt]
  rw [hS]
  refine ⟨hpt, fun t => by rw [hlast]; exact h.last t, fun o ho => ?_, ?_, fun x hx => ?_, h.ne, h.sign⟩
  · rw [hev o ho, ← h.pend o ho]
    rw [Bool.eq_iff_iff]
    simp only [List.contains_iff_mem, Bool.or_eq_true]
    rw [mem_addOwed]; exact Or.comm
  · have : Station.addOwed S.owed ids ≠ [] := addOwed_ne_nil (Or.inr hne)
    cases hc : Station.addOwed S.owed ids with
    | nil => exact absurd hc this
    | cons _ _ => simp
  · rcases mem_addOwed.1 hx with hx | hx
    · exact h.sub x hx
    · exact hsub x hx

theorem agrees_sameReq {S T : Station} {rtr : List Obs} (h : Agrees S rtr) (hr : SameReq S T)
    (hl : T.lastOf = S.lastOf) (hown : T.store.own = S.store.own) (hsg : T.hasSign = S.hasSign) : Agrees T rtr := by
  refine ⟨hr.1.trans h.pt, fun t => ?_, fun o ho => ?_, ?_, fun x hx => ?_, by rw [hown]; exact h.ne, hsg.trans h.sign⟩
  · have : T.lastIncl t = S.lastIncl t := by unfold Station.lastIncl; rw [hl]
    rw [this]; exact h.last t
  · rw [hr.2.2]; exact h.pend o (hown ▸ ho)
  · rw [hr.2.1, hr.2.2]; exact h.flag
  · rw [hr.2.2] at hx
    have := h.sub x hx
    unfold Station.ownIds at *; rw [hown]; exact this

/-- observations that change nothing of the two notions -/
theorem agrees_quiet {S : Station} {rtr : List Obs} (h : Agrees S rtr) (now t : Nat) :
    Agrees S (.sent now t false :: rtr) :=
  ⟨h.pt, fun t' => by simp only [lastInclR]; exact h.last t', fun o ho => by simp only [pendingR]; exact h.pend o ho,
    h.flag, h.sub, h.ne, h.sign⟩

theorem timers_lastOf {S T : Station} (h : T.timers = S.timers) : T.lastOf = S.lastOf := congrArg (·.2.1) h

/-- a message of an unknown ticket: every own ticket owes its certificate -/
theorem agrees_notifyUnknown {S : Station} {rtr : List Obs} (h : Agrees S rtr) (h8 : Nat) :
    Agrees (S.notifyUnknown h8) (.unknown :: rtr) := by
  unfold Station.notifyUnknown
  simp only
  have h0 : Agrees { S with unknownAts := if S.unknownAts.contains (h3 h8) then S.unknownAts else S.unknownAts ++ [h3 h8] } rtr :=
    agrees_sameReq h ⟨rfl, rfl, rfl⟩ rfl rfl rfl
  have hids : S.ownIds ≠ [] := by
    unfold Station.ownIds; intro hn; exact h.ne (List.map_eq_nil_iff.1 hn)
  refine agrees_request h0 hids (fun x hx => hx) .unknown (fun o ho => ?_) (fun t => rfl)
  simp only [pendingR]
  have : S.ownIds.contains o.c.id = true := by
    simp only [List.contains_iff_mem]; exact mem_ownIds.2 ⟨o, ho, rfl⟩
  show true = ((Station.ownIds { S with unknownAts := _ }).contains o.c.id || pendingR rtr o.c.id)
  simp only [Station.ownIds] at this ⊢
  rw [this]; rfl

/-- an accepted inlineP2pcdRequest: the own tickets it names owe their certificate -/
theorem agrees_notifyInline {S : Station} {rtr : List Obs} (h : Agrees S rtr) (l : List Nat) :
    Agrees (S.notifyInline l) (.asked l :: rtr) := by
  unfold Station.notifyInline
  simp only
  have hfold := foldl_addRequested_sameReq l
  by_cases hany : S.store.own.any (fun o => l.contains (h3 o.c.id)) = true
  · simp only [hany, if_true]
    have hids : (S.store.own.filter (fun o => l.contains (h3 o.c.id))).map (·.c.id) ≠ [] := by
      obtain ⟨o, ho, hc⟩ := List.any_eq_true.1 hany
      exact List.ne_nil_of_mem (List.mem_map.2 ⟨o, List.mem_filter.2 ⟨ho, hc⟩, rfl⟩)
    have h1 : Agrees (S.requestOwn ((S.store.own.filter (fun o => l.contains (h3 o.c.id))).map (·.c.id))) (.asked l :: rtr) := by
      refine agrees_request h hids (fun x hx => ?_) (.asked l) (fun o ho => ?_) (fun t => rfl)
      · obtain ⟨o, ho, rfl⟩ := List.mem_map.1 hx
        exact mem_ownIds.2 ⟨o, (List.mem_filter.1 ho).1, rfl⟩
      · simp only [pendingR]
        congr 1
        rw [Bool.eq_iff_iff]
        simp only [List.contains_iff_mem, List.mem_map, List.mem_filter]
        constructor
        · intro hc; exact ⟨o, ⟨ho, by simpa using hc⟩, rfl⟩
        · rintro ⟨o', ⟨_, hc⟩, hid⟩; rw [← hid]; simpa using hc
    refine agrees_sameReq h1 (hfold _) ?_ ?_ ?_
    · exact timers_lastOf (foldl_addRequested_timers l _)
    · rw [foldl_addRequested_store]
    · exact foldl_addRequested_hasSign l _
  · have hany' : S.store.own.any (fun o => l.contains (h3 o.c.id)) = false := Bool.eq_false_iff.2 hany
    simp only [hany', Bool.false_eq_true, if_false]
    have h1 : Agrees S (.asked l :: rtr) := by
      refine ⟨h.pt, fun t => by simp only [lastInclR]; exact h.last t, fun o ho => ?_, h.flag, h.sub, h.ne, h.sign⟩
      simp only [pendingR]
      have : l.contains (h3 o.c.id) = false := by
        have := (List.any_eq_false.1 hany') o ho
        simpa using this
      rw [this, Bool.false_or]; exact h.pend o ho
    refine agrees_sameReq h1 (hfold _) ?_ ?_ ?_
    · exact timers_lastOf (foldl_addRequested_timers l _)
    · rw [foldl_addRequested_store]
    · exact foldl_addRequested_hasSign l _

theorem agrees_afterInline {S : Station} {rtr : List Obs} (h : Agrees S rtr) (m : Msg) :
    Agrees (S.afterInline m) ((match m.inlineReq with | some l => [Obs.asked l] | none => []) ++ rtr) := by
  cases hr : m.inlineReq with
  | none => simp only [Station.afterInline, hr, List.nil_append]; exact h
  | some r => simp only [Station.afterInline, hr, List.cons_append, List.nil_append]; exact agrees_notifyInline h r

theorem agrees_notifyReceivedCa {S : Station} {rtr : List Obs} (h : Agrees S rtr) (cfg : Cfg) (c : Cert) :
    Agrees (S.notifyReceivedCa cfg c).1 rtr := by
  obtain ⟨_, h2, h3⟩ := notifyReceivedCa_fields cfg S c
  refine agrees_sameReq h h2 ?_ h3 ?_
  · unfold Station.notifyReceivedCa; simp only; split <;> rfl
  · unfold Station.notifyReceivedCa; simp only; split <;> rfl

theorem agrees_onSuccess {S : Station} {rtr : List Obs} (h : Agrees S rtr) (cfg : Cfg) (m : Msg) :
    Agrees (S.onSuccess cfg m).1 ((match m.inlineReq with | some l => [Obs.asked l] | none => []) ++ rtr) := by
  unfold Station.onSuccess
  simp only [h.sign, Bool.not_true, Bool.false_eq_true, if_false]
  split
  · exact agrees_afterInline h m
  · exact agrees_notifyReceivedCa (agrees_afterInline h m) cfg _

theorem verifyWith_state (cfg : Cfg) (S : Station) (m : Msg) (a : SC) :
    (S.verifyWith cfg m a).1 =
      (match Station.judge cfg m a with
       | .ok o => if o.report == .success then (S.onSuccess cfg m).1 else S
       | .error _ => S) := by
  unfold Station.verifyWith
  cases hj : Station.judge cfg m a with
  | error e => rfl
  | ok o =>
    simp only
    by_cases hs : (o.report == .success) = true
    · simp only [hs, if_true]
      cases hos : S.onSuccess cfg m with
      | mk S' oe => cases oe <;> rfl
    · have hs' : (o.report == .success) = false := Bool.eq_false_iff.2 hs
      simp only [hs', Bool.false_eq_true, if_false]

theorem agrees_verifyWith {S : Station} {rtr : List Obs} (h : Agrees S rtr) (cfg : Cfg) (m : Msg) (a : SC) :
    Agrees (S.verifyWith cfg m a).1 (accObs cfg m a ++ rtr) := by
  rw [verifyWith_state]
  unfold accObs
  cases hj : Station.judge cfg m a with
  | error e => simp only [List.nil_append]; exact h
  | ok o =>
    simp only
    by_cases hs : (o.report == .success) = true
    · simp only [hs, if_true]; exact agrees_onSuccess h cfg m
    · have hs' : (o.report == .success) = false := Bool.eq_false_iff.2 hs
      simp only [hs', Bool.false_eq_true, if_false, List.nil_append]; exact h

theorem agrees_store {S : Station} {rtr : List Obs} (h : Agrees S rtr) {st : Store} (hown : st.own = S.store.own) :
    Agrees { S with store := st } rtr :=
  agrees_sameReq h ⟨rfl, rfl, rfl⟩ rfl hown rfl

theorem agrees_note {S : Station} {rtr : List Obs} (h : Agrees S rtr) (h8 : Nat) :
    Agrees (S.note h8) (.unknown :: rtr) := by
  unfold Station.note
  simp only [h.sign, if_true]
  exact agrees_notifyUnknown h h8

/-- every reception keeps the agreement -/
theorem agrees_verifyMsg {S : Station} {rtr : List Obs} (h : Agrees S rtr) (cfg : Cfg) (m : Msg) :
    Agrees (S.verifyMsg cfg m).1 (rxObs cfg S m ++ rtr) := by
  unfold Station.verifyMsg rxObs
  have hns : (!S.hasSign) = false := by rw [h.sign]; rfl
  simp only [hns, Bool.false_eq_true, if_false]
  cases hsg : m.signer with
  | selfS => simp only [List.nil_append]; split <;> exact h
  | digest h8 =>
    simp only
    by_cases h37 : (m.psid == 37) = true
    · simp only [h37, if_true, List.nil_append]; exact h
    · have h37' : (m.psid == 37) = false := Bool.eq_false_iff.2 h37
      simp only [h37', Bool.false_eq_true, if_false]
      cases hf : find S.store.ats h8 with
      | none => simp only [List.cons_append, List.nil_append]; exact agrees_note h _
      | some a => simp only; exact agrees_verifyWith h cfg m a
  | certs cs =>
    simp only
    match cs with
    | [] => simp only [List.nil_append]; exact h
    | [c] =>
      simp only
      cases hseq : S.store.verifySeq1 cfg c with
      | error e => simp only [List.nil_append]; exact h
      | ok r =>
        obtain ⟨st, ra⟩ := r
        cases ra with
        | none =>
          simp only
          cases hi : c.issuer with
          | digest hh => simp only [List.cons_append, List.nil_append]; exact agrees_note h _
          | self => simp only [List.nil_append]; exact h
          | selfOther => simp only [List.nil_append]; exact h
          | other => simp only [List.nil_append]; exact h
        | some a =>
          simp only
          exact agrees_verifyWith (S := { S with store := st }) (agrees_store h (verifySeq1_grows hseq).own) cfg m a
    | _ :: _ :: _ => simp only [List.nil_append]; exact h

theorem lastIncl_setLast_other (l : List (Nat × Nat)) {t t' : Nat} (now : Nat) (hne : t' ≠ t) :
    (Station.setLast l t now).find? (fun p => p.1 == t') = l.find? (fun p => p.1 == t') := by
  unfold Station.setLast
  have hmap : ∀ l : List (Nat × Nat),
      (l.map (fun p => if p.1 == t then (t, now) else p)).find? (fun p => p.1 == t') = l.find? (fun p => p.1 == t') := by
    intro l
    induction l with
    | nil => rfl
    | cons x xs ih =>
      by_cases hx : (x.1 == t) = true
      · have hxt : x.1 = t := by simpa using hx
        have h1 : (t == t') = false := by simpa using (Ne.symm hne)
        have h2 : (x.1 == t') = false := by rw [hxt]; exact h1
        simp only [List.map_cons, hx, if_true, List.find?_cons, h1, h2]
        exact ih
      · have hx' : (x.1 == t) = false := Bool.eq_false_iff.2 hx
        simp only [List.map_cons, hx', Bool.false_eq_true, if_false, List.find?_cons]
        split
        · rfl
        · exact ih
  split
  · exact hmap l
  · rw [List.find?_append]
    have : (t == t') = false := by simpa using (Ne.symm hne)
    simp [this]

theorem included_pt {S : Station} (hp : S.perTicket = true) (t now : Nat) :
    (S.included t now).lastOf = Station.setLast S.lastOf t now ∧
    (S.included t now).owed = S.owed.filter (fun x => x != t) ∧
    (S.included t now).reqOwn = !(S.owed.filter (fun x => x != t)).isEmpty := by
  unfold Station.included; simp [hp]

/-- an emission carrying the certificate of ticket `t` -/
theorem agrees_included {S : Station} {rtr : List Obs} (h : Agrees S rtr) (t now : Nat) :
    Agrees (S.included t now) (.sent now t true :: rtr) := by
  obtain ⟨hl, ho', hr⟩ := included_pt h.pt t now
  refine ⟨by simp [h.pt], fun t' => ?_, fun o ho => ?_, by rw [hr, ho'], fun x hx => ?_, by simpa using h.ne,
    by simpa using h.sign⟩
  · simp only [lastInclR]
    unfold Station.lastIncl
    rw [hl]
    by_cases ht : t = t'
    · subst ht
      simp only [if_true]
      exact lastIncl_setLast_same S.lastOf t now
    · simp only [ht, if_false]
      rw [← h.last t']
      unfold Station.lastIncl
      rw [lastIncl_setLast_other S.lastOf now (Ne.symm ht)]
  · have ho2 : o ∈ S.store.own := by simpa using ho
    simp only [pendingR]
    rw [ho']
    by_cases ht : t = o.c.id
    · simp only [ht, if_true]
      rw [Bool.eq_false_iff]
      simp [List.contains_iff_mem, List.mem_filter]
    · simp only [ht, if_false]
      rw [← h.pend o ho2, Bool.eq_iff_iff]
      simp only [List.contains_iff_mem, List.mem_filter]
      constructor
      · exact fun hh => hh.1
      · exact fun hh => ⟨hh, by simpa using (Ne.symm ht)⟩
  · rw [ho'] at hx
    have := h.sub x (List.mem_filter.1 hx).1
    unfold Station.ownIds at *
    simpa using this

theorem agrees_pop {S : Station} {rtr : List Obs} (h : Agrees S rtr) :
    Agrees { S with requestedAts := S.requestedAts.tail } rtr :=
  agrees_sameReq h ⟨rfl, rfl, rfl⟩ rfl rfl rfl

/-- every CAM/VAM emission keeps the agreement -/
theorem agrees_signCam {S : Station} {rtr : List Obs} (h : Agrees S rtr) (now psid gt pl : Nat) :
    Agrees (S.signCam now psid gt pl).1 (sentObs now (S.signCam now psid gt pl).2 ++ rtr) := by
  unfold Station.signCam
  have h1 := (popRequested_spec S).1
  split
  · rename_i S1 e hpop; rw [hpop] at h1; simp only at h1; subst h1; exact agrees_pop h
  · rename_i S1 rc hpop
    rw [hpop] at h1; simp only at h1; subst h1
    split
    · exact agrees_pop h
    · exact agrees_pop h
    · rename_i a hpa
      split
      · exact agrees_included (agrees_pop h) a.c.id now
      · exact agrees_quiet (agrees_pop h) now a.c.id

/-- … and so does every traffic operation -/
theorem agrees_step {S : Station} {rtr : List Obs} (h : Agrees S rtr) (cfg : Cfg) {op : Op} (ht : op.isTraffic) :
    Agrees (S.step cfg op) (stepObs cfg S op ++ rtr) := by
  cases op with
  | msg m => exact agrees_verifyMsg h cfg m
  | signCam now psid gt pl => exact agrees_signCam h now psid gt pl
  | signDenm loc psid gt pl => simp only [Station.step, stepObs, List.nil_append]; rw [signDenm_state]; exact h
  | signOther psid gt pl => simp only [Station.step, stepObs, List.nil_append]; rw [signOther_state]; exact h
  | addRoot s => exact absurd ht (by simp [Op.isTraffic])
  | addAA s => exact absurd ht (by simp [Op.isTraffic])
  | addAT s => exact absurd ht (by simp [Op.isTraffic])
  | addOwn s => exact absurd ht (by simp [Op.isTraffic])
  | vseq cs => exact absurd ht (by simp [Op.isTraffic])

/-- ALL histories: after any list of receptions and emissions the signer's per-ticket state is what the observable
    trace says -/
theorem run_inv (cfg : Cfg) (ops : List Op) (S : Station) (rtr : List Obs) (h : Agrees S rtr)
    (hops : ∀ op ∈ ops, op.isTraffic) : Agrees (S.run cfg ops) (trace cfg S ops rtr) := by
  induction ops generalizing S rtr with
  | nil => exact h
  | cons op rest ih =>
    rw [run_cons]
    simp only [trace]
    exact ih _ _ (agrees_step h cfg (hops op (by simp))) (fun o ho => hops o (by simp [ho]))

/-- a sign service that has not signed or been asked yet -/
structure FreshSigner (S : Station) : Prop where
  pt : S.perTicket = true
  last : S.lastOf = []
  owed : S.owed = []
  flag : S.reqOwn = false
  ne : S.store.own ≠ []
  sign : S.hasSign = true

theorem FreshSigner.agrees {S : Station} (h : FreshSigner S) : Agrees S [] :=
  ⟨h.pt, fun t => (by unfold Station.lastIncl; rw [h.last]; rfl), fun o _ => (by rw [h.owed]; rfl),
    (by rw [h.flag, h.owed]; rfl), fun x hx => (by rw [h.owed] at hx; cases hx), h.ne, h.sign⟩

/-- SPEC (repaired code): after ANY history of receptions and emissions, a CAM/VAM signed with ticket `a` carries the
    certificate iff more than 1000 ms have passed since an emission signed with `a` last carried it, or a peer has
    asked for it since – both read off the observable trace, per ticket -/
theorem spec_rule (cfg : Cfg) (S0 : Station) (hfresh : FreshSigner S0) (ops : List Op) (hops : ∀ op ∈ ops, op.isTraffic)
    {now psid gt pl : Nat} {S' : Station} {m : Msg}
    (h : (S0.run cfg ops).signCam now psid gt pl = (S', .ok m)) :
    ∃ a, Station.presentAt S0.store.own psid = .ok (some a) ∧
      (m.signer = .certs [a.c] ∨ m.signer = .digest a.c.id) ∧
      (m.signer = .certs [a.c] ↔ Due (trace cfg S0 ops []) a.c.id now) := by
  have hag := run_inv cfg ops S0 [] hfresh.agrees hops
  obtain ⟨hown, _⟩ := traffic_run_fixed (cfg := cfg) ops S0 hops
  obtain ⟨a, hp, _, _, _, _, _, _, _, _, hw⟩ := signCam_ok h
  have hmem := (presentAt_some hp).1
  refine ⟨a, by rw [← hown]; exact hp, ?_, ?_⟩
  · rcases hw with ⟨_, h2, _⟩ | ⟨_, h2, _⟩
    · exact Or.inl h2
    · exact Or.inr h2
  · have hwc : (S0.run cfg ops).wantsCert a.c.id now = true ↔ Due (trace cfg S0 ops []) a.c.id now := by
      unfold Station.wantsCert Due Station.lastFor
      rw [hag.pt, hag.asked hmem]
      simp only [if_true, Bool.or_eq_true, decide_eq_true_eq, hag.last]
    rcases hw with ⟨h1, h2, _⟩ | ⟨h1, h2, _⟩
    · exact ⟨fun _ => hwc.1 h1, fun _ => h2⟩
    · refine ⟨fun hc => ?_, fun hd => ?_⟩
      · rw [h2] at hc; cases hc
      · rw [hwc.2 hd] at h1; cases h1

/-! ### the code before the repair (one timer, one flag): correct for a station that signs with ONE ticket -/

structure AgreesOld (S : Station) (rtr : List Obs) (a : SC) : Prop where
  pt : S.perTicket = false
  own : S.store.own = [a]
  last : S.lastFull = lastInclR rtr a.c.id
  pend : S.reqOwn = pendingR rtr a.c.id
  sign : S.hasSign = true

theorem agreesOld_sameReq {S T : Station} {rtr : List Obs} {a : SC} (h : AgreesOld S rtr a) (hr : SameReq S T)
    (hl : T.lastFull = S.lastFull) (hown : T.store.own = S.store.own) (hsg : T.hasSign = S.hasSign) :
    AgreesOld T rtr a :=
  ⟨hr.1.trans h.pt, hown.trans h.own, hl.trans h.last, hr.2.1.trans h.pend, hsg.trans h.sign⟩

theorem requestOwn_old {S : Station} (hp : S.perTicket = false) (ids : List Nat) :
    S.requestOwn ids = { S with reqOwn := true } := by
  unfold Station.requestOwn; simp [hp]

theorem agreesOld_notifyUnknown {S : Station} {rtr : List Obs} {a : SC} (h : AgreesOld S rtr a) (h8 : Nat) :
    AgreesOld (S.notifyUnknown h8) (.unknown :: rtr) a := by
  unfold Station.notifyUnknown
  simp only
  rw [requestOwn_old (by exact h.pt)]
  exact ⟨h.pt, h.own, by simp only [lastInclR]; exact h.last, by simp only [pendingR], h.sign⟩

theorem agreesOld_notifyInline {S : Station} {rtr : List Obs} {a : SC} (h : AgreesOld S rtr a) (l : List Nat) :
    AgreesOld (S.notifyInline l) (.asked l :: rtr) a := by
  unfold Station.notifyInline
  simp only
  have hfold := foldl_addRequested_sameReq l
  have hany : S.store.own.any (fun o => l.contains (h3 o.c.id)) = l.contains (h3 a.c.id) := by
    rw [h.own]; simp
  rw [hany]
  by_cases hc : l.contains (h3 a.c.id) = true
  · simp only [hc, if_true]
    rw [requestOwn_old h.pt]
    have h1 : AgreesOld { S with reqOwn := true } (.asked l :: rtr) a :=
      ⟨h.pt, h.own, by simp only [lastInclR]; exact h.last, by simp only [pendingR, hc, Bool.true_or], h.sign⟩
    refine agreesOld_sameReq h1 (hfold _) ?_ ?_ ?_
    · exact congrArg (·.1) (foldl_addRequested_timers l _)
    · rw [foldl_addRequested_store]
    · exact foldl_addRequested_hasSign l _
  · have hc' : l.contains (h3 a.c.id) = false := Bool.eq_false_iff.2 hc
    simp only [hc', Bool.false_eq_true, if_false]
    have h1 : AgreesOld S (.asked l :: rtr) a :=
      ⟨h.pt, h.own, by simp only [lastInclR]; exact h.last, by simp only [pendingR, hc', Bool.false_or]; exact h.pend, h.sign⟩
    refine agreesOld_sameReq h1 (hfold _) ?_ ?_ ?_
    · exact congrArg (·.1) (foldl_addRequested_timers l _)
    · rw [foldl_addRequested_store]
    · exact foldl_addRequested_hasSign l _

theorem agreesOld_onSuccess {S : Station} {rtr : List Obs} {a : SC} (h : AgreesOld S rtr a) (cfg : Cfg) (m : Msg) :
    AgreesOld (S.onSuccess cfg m).1 ((match m.inlineReq with | some l => [Obs.asked l] | none => []) ++ rtr) a := by
  have hA : AgreesOld (S.afterInline m) ((match m.inlineReq with | some l => [Obs.asked l] | none => []) ++ rtr) a := by
    cases hr : m.inlineReq with
    | none => simp only [Station.afterInline, hr, List.nil_append]; exact h
    | some r => simp only [Station.afterInline, hr, List.cons_append, List.nil_append]; exact agreesOld_notifyInline h r
  unfold Station.onSuccess
  simp only [h.sign, Bool.not_true, Bool.false_eq_true, if_false]
  split
  · exact hA
  · rename_i c hc
    obtain ⟨_, h2, h3⟩ := notifyReceivedCa_fields cfg (S.afterInline m) c
    refine agreesOld_sameReq hA h2 ?_ h3 ?_
    · unfold Station.notifyReceivedCa; simp only; split <;> rfl
    · unfold Station.notifyReceivedCa; simp only; split <;> rfl

theorem agreesOld_verifyWith {S : Station} {rtr : List Obs} {a : SC} (h : AgreesOld S rtr a) (cfg : Cfg) (m : Msg)
    (t : SC) : AgreesOld (S.verifyWith cfg m t).1 (accObs cfg m t ++ rtr) a := by
  rw [verifyWith_state]
  unfold accObs
  cases hj : Station.judge cfg m t with
  | error e => simp only [List.nil_append]; exact h
  | ok o =>
    simp only
    by_cases hs : (o.report == .success) = true
    · simp only [hs, if_true]; exact agreesOld_onSuccess h cfg m
    · have hs' : (o.report == .success) = false := Bool.eq_false_iff.2 hs
      simp only [hs', Bool.false_eq_true, if_false, List.nil_append]; exact h

theorem agreesOld_note {S : Station} {rtr : List Obs} {a : SC} (h : AgreesOld S rtr a) (h8 : Nat) :
    AgreesOld (S.note h8) (.unknown :: rtr) a := by
  unfold Station.note
  simp only [h.sign, if_true]
  exact agreesOld_notifyUnknown h h8

theorem agreesOld_verifyMsg {S : Station} {rtr : List Obs} {a : SC} (h : AgreesOld S rtr a) (cfg : Cfg) (m : Msg) :
    AgreesOld (S.verifyMsg cfg m).1 (rxObs cfg S m ++ rtr) a := by
  unfold Station.verifyMsg rxObs
  have hns : (!S.hasSign) = false := by rw [h.sign]; rfl
  simp only [hns, Bool.false_eq_true, if_false]
  cases hsg : m.signer with
  | selfS => simp only [List.nil_append]; split <;> exact h
  | digest h8 =>
    simp only
    by_cases h37 : (m.psid == 37) = true
    · simp only [h37, if_true, List.nil_append]; exact h
    · have h37' : (m.psid == 37) = false := Bool.eq_false_iff.2 h37
      simp only [h37', Bool.false_eq_true, if_false]
      cases hf : find S.store.ats h8 with
      | none => simp only [List.cons_append, List.nil_append]; exact agreesOld_note h _
      | some t => simp only; exact agreesOld_verifyWith h cfg m t
  | certs cs =>
    simp only
    match cs with
    | [] => simp only [List.nil_append]; exact h
    | [c] =>
      simp only
      cases hseq : S.store.verifySeq1 cfg c with
      | error e => simp only [List.nil_append]; exact h
      | ok r =>
        obtain ⟨st, ra⟩ := r
        cases ra with
        | none =>
          simp only
          cases hi : c.issuer with
          | digest hh => simp only [List.cons_append, List.nil_append]; exact agreesOld_note h _
          | self => simp only [List.nil_append]; exact h
          | selfOther => simp only [List.nil_append]; exact h
          | other => simp only [List.nil_append]; exact h
        | some t =>
          simp only
          exact agreesOld_verifyWith (S := { S with store := st })
            (agreesOld_sameReq h ⟨rfl, rfl, rfl⟩ rfl (verifySeq1_grows hseq).own rfl) cfg m t
    | _ :: _ :: _ => simp only [List.nil_append]; exact h

theorem presentAt_single {a a' : SC} {psid : Nat} (h : Station.presentAt [a] psid = .ok (some a')) : a' = a := by
  have := (presentAt_some h).1
  simpa using this

theorem agreesOld_signCam {S : Station} {rtr : List Obs} {a : SC} (h : AgreesOld S rtr a) (now psid gt pl : Nat) :
    AgreesOld (S.signCam now psid gt pl).1 (sentObs now (S.signCam now psid gt pl).2 ++ rtr) a := by
  have hpop : AgreesOld { S with requestedAts := S.requestedAts.tail } rtr a :=
    agreesOld_sameReq h ⟨rfl, rfl, rfl⟩ rfl rfl rfl
  unfold Station.signCam
  have h1 := (popRequested_spec S).1
  split
  · rename_i S1 e hp; rw [hp] at h1; simp only at h1; subst h1; exact hpop
  · rename_i S1 rc hp
    rw [hp] at h1; simp only at h1; subst h1
    split
    · exact hpop
    · exact hpop
    · rename_i a' hpa
      have ha' : a' = a := presentAt_single (by simpa [h.own] using hpa)
      subst ha'
      split
      · simp only [sentObs, Station.baseMsg, List.cons_append, List.nil_append]
        have : ({ S with requestedAts := S.requestedAts.tail } : Station).included a'.c.id now =
            { S with requestedAts := S.requestedAts.tail, lastFull := now, reqOwn := false } := by
          unfold Station.included; simp [h.pt]
        rw [this]
        exact ⟨h.pt, h.own, by simp [lastInclR], by simp [pendingR], h.sign⟩
      · simp only [sentObs, Station.baseMsg, List.cons_append, List.nil_append]
        exact ⟨h.pt, h.own, by simp only [lastInclR]; exact h.last, by simp only [pendingR]; exact h.pend, h.sign⟩

theorem agreesOld_step {S : Station} {rtr : List Obs} {a : SC} (h : AgreesOld S rtr a) (cfg : Cfg) {op : Op}
    (ht : op.isTraffic) : AgreesOld (S.step cfg op) (stepObs cfg S op ++ rtr) a := by
  cases op with
  | msg m => exact agreesOld_verifyMsg h cfg m
  | signCam now psid gt pl => exact agreesOld_signCam h now psid gt pl
  | signDenm loc psid gt pl => simp only [Station.step, stepObs, List.nil_append]; rw [signDenm_state]; exact h
  | signOther psid gt pl => simp only [Station.step, stepObs, List.nil_append]; rw [signOther_state]; exact h
  | addRoot s => exact absurd ht (by simp [Op.isTraffic])
  | addAA s => exact absurd ht (by simp [Op.isTraffic])
  | addAT s => exact absurd ht (by simp [Op.isTraffic])
  | addOwn s => exact absurd ht (by simp [Op.isTraffic])
  | vseq cs => exact absurd ht (by simp [Op.isTraffic])

theorem run_inv_single (cfg : Cfg) (ops : List Op) (S : Station) (rtr : List Obs) {a : SC} (h : AgreesOld S rtr a)
    (hops : ∀ op ∈ ops, op.isTraffic) : AgreesOld (S.run cfg ops) (trace cfg S ops rtr) a := by
  induction ops generalizing S rtr with
  | nil => exact h
  | cons op rest ih =>
    rw [run_cons]
    simp only [trace]
    exact ih _ _ (agreesOld_step h cfg (hops op (by simp))) (fun o ho => hops o (by simp [ho]))

/-- SPEC, code before the repair, PARTIAL: the rule holds for a station whose sign service holds ONE ticket -/
theorem spec_rule_single_ticket (cfg : Cfg) (S0 : Station) (a : SC) (hpt : S0.perTicket = false)
    (hown : S0.store.own = [a]) (h0 : S0.lastFull = 0) (hflag : S0.reqOwn = false) (hsign : S0.hasSign = true)
    (ops : List Op) (hops : ∀ op ∈ ops, op.isTraffic) {now psid gt pl : Nat} {S' : Station} {m : Msg}
    (h : (S0.run cfg ops).signCam now psid gt pl = (S', .ok m)) :
    (m.signer = .certs [a.c] ∨ m.signer = .digest a.c.id) ∧
    (m.signer = .certs [a.c] ↔ Due (trace cfg S0 ops []) a.c.id now) := by
  have hag := run_inv_single cfg ops S0 [] (a := a) ⟨hpt, hown, by rw [h0]; rfl, by rw [hflag]; rfl, hsign⟩ hops
  obtain ⟨a', hp, _, _, _, _, _, _, _, _, hw⟩ := signCam_ok h
  have ha' : a' = a := presentAt_single (by simpa [hag.own] using hp)
  subst ha'
  refine ⟨?_, ?_⟩
  · rcases hw with ⟨_, h2, _⟩ | ⟨_, h2, _⟩
    · exact Or.inl h2
    · exact Or.inr h2
  · have hwc : (S0.run cfg ops).wantsCert a'.c.id now = true ↔ Due (trace cfg S0 ops []) a'.c.id now := by
      unfold Station.wantsCert Due Station.lastFor Station.asked
      rw [hag.pt]
      simp only [Bool.false_eq_true, if_false, Bool.or_eq_true, decide_eq_true_eq, hag.last, hag.pend]
    rcases hw with ⟨h1, h2, _⟩ | ⟨h1, h2, _⟩
    · exact ⟨fun _ => hwc.1 h1, fun _ => h2⟩
    · refine ⟨fun hc => ?_, fun hd => ?_⟩
      · rw [h2] at hc; cases hc
      · rw [hwc.2 hd] at h1; cases h1

end FlexModel.Sec

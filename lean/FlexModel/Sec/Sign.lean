/-
Security model, part 4: `SignService` (sign_cam / sign_denm / sign_other / sign_request) with the CAM signer
alternation (`CooperativeAwarenessMessageSecurityHandler.set_up_signer`), and the issuing API of `OwnCertificate`.
Times are integer milliseconds of the station clock; `genTime` (µs, float glue of `timestamp_its`) is an input.
-/
import FlexModel.Sec.Verify
namespace FlexModel.Sec
open Store

namespace Station

/-- `get_present_at_for_signging`: first own certificate whose appPermissions contain the ITS-AID
    (`get_list_of_its_aid` raises KeyError on a certificate without appPermissions) -/
def presentAt : List SC → Nat → Except Err (Option SC)
  | [], _ => .ok none
  | s :: rest, psid =>
    match s.c.app with
    | none => .error .keyError
    | some ps => if ps.contains psid then .ok (some s) else presentAt rest psid

/-- `last_full_certificate_time_of.get(hashedid8, 0)` -/
def lastIncl (S : Station) (t : Nat) : Nat :=
  match S.lastOf.find? (fun p => p.1 == t) with
  | some p => p.2
  | none => 0

/-- the time the signer compares the clock with: per ticket (repaired), or the one shared timer (before) -/
def lastFor (S : Station) (t : Nat) : Nat := if S.perTicket then S.lastIncl t else S.lastFull

/-- a peer's request is pending for ticket `t` (a request raised without naming tickets is served by the next signer) -/
def asked (S : Station) (t : Nat) : Bool :=
  if S.perTicket then S.reqOwn && (S.owed.isEmpty || S.owed.contains t) else S.reqOwn

/-- `set_up_signer`: certificate iff more than 1 s since it was last included, or a peer asked for it -/
def wantsCert (S : Station) (t now : Nat) : Bool := decide (now - S.lastFor t > 1000) || S.asked t

def setLast (l : List (Nat × Nat)) (t now : Nat) : List (Nat × Nat) :=
  if l.any (fun p => p.1 == t) then l.map (fun p => if p.1 == t then (t, now) else p) else l ++ [(t, now)]

/-- the bookkeeping of `set_up_signer` when it includes the certificate of ticket `t` -/
def included (S : Station) (t now : Nat) : Station :=
  if S.perTicket then
    { S with lastFull := now, lastOf := setLast S.lastOf t now, owed := S.owed.filter (fun x => x != t),
             reqOwn := !(S.owed.filter (fun x => x != t)).isEmpty }
  else { S with lastFull := now, reqOwn := false }

def baseMsg (psid genTime payload : Nat) (a : SC) (sg : Signer) : Msg :=
  { psid := psid, genTime := some genTime, genLoc := false, p2pcdLearn := false, missingCrl := false,
    expiry := false, encKey := false, inlineReq := none, reqCert := none, signer := sg, sigFmtOk := true,
    sigBy := some a.c.key, payload := payload }

/-- `requested_ats.pop(0)` + `get_known_at_for_request`: the pop happens before the lookup that may raise -/
def popRequested (S : Station) : Station × Except Err (Option Cert) :=
  match S.requestedAts with
  | [] => (S, .ok none)
  | x :: rest =>
    match caByH3 S.store x with
    | some ca => ({ S with requestedAts := rest }, .ok (some ca.c))
    | none => ({ S with requestedAts := rest }, .error .runtimeError)

/-- `inlineP2pcdRequest` header field -/
def inlineField (S : Station) : Option (List Nat) := if S.unknownAts.isEmpty then none else some S.unknownAts

/-- `sign_cam` (also used for the VAM profile); `set_up_signer` inlined: certificate + timer restart, or digest -/
def signCam (S : Station) (now psid genTime payload : Nat) : Station × Except Err Msg :=
  match popRequested S with
  | (S1, .error e) => (S1, .error e)
  | (S1, .ok rc) =>
    match presentAt S1.store.own psid with
    | .error e => (S1, .error e)
    | .ok none => (S1, .error .runtimeError)
    | .ok (some a) =>
      if S1.wantsCert a.c.id now then
        (S1.included a.c.id now,
          .ok { baseMsg psid genTime payload a (.certs [a.c]) with inlineReq := S.inlineField, reqCert := rc })
      else
        (S1, .ok { baseMsg psid genTime payload a (.digest a.c.id) with inlineReq := S.inlineField, reqCert := rc })

/-- `sign_denm`: always the certificate; generationLocation mandatory -/
def signDenm (S : Station) (hasLoc : Bool) (psid genTime payload : Nat) : Station × Except Err Msg :=
  if !hasLoc then (S, .error .valueError)
  else match presentAt S.store.own psid with
    | .error e => (S, .error e)
    | .ok none => (S, .error .runtimeError)
    | .ok (some a) => (S, .ok { baseMsg psid genTime payload a (.certs [a.c]) with genLoc := true })

/-- `sign_other`: always the digest -/
def signOther (S : Station) (psid genTime payload : Nat) : Station × Except Err Msg :=
  match presentAt S.store.own psid with
  | .error e => (S, .error e)
  | .ok none => (S, .error .runtimeError)
  | .ok (some a) => (S, .ok (baseMsg psid genTime payload a (.digest a.c.id)))

/-- `sign_request` -/
def signRequest (S : Station) (hasLoc : Bool) (psid genTime payload : Nat) : Station × Except Err Msg :=
  if psid == 36 then (S, .error .notImplemented)
  else if psid == 37 then S.signDenm hasLoc psid genTime payload
  else S.signOther psid genTime payload

end Station

/-! ## Issuing API (`set_chain_length_issue_permissions`, `issue_certificate`, `initialize_certificate`) -/

namespace Cert

def lastAllChain (i : Cert) : Option Int :=
  (i.issueList.filter (fun p => p.subj == .all)).getLast?.map (·.minChain)

/-- `set_chain_length_issue_permissions` -/
def setChainLen (c i : Cert) : Cert :=
  match c.issue with
  | none => c
  | some ps =>
    let ps1 : List IssuePerm :=
      match (if i.hasAll then i.lastAllChain else none) with
      | some m => ps.map (fun p => { p with minChain := m })
      | none =>
        i.issueList.flatMap (fun ip =>
          match ip.subj with
          | .explicit es => (es.filter (fun e => c.explicitPsids.contains e)).map (fun _ => ip)
          | .all => [])
    let ps2 := ps1.map (fun p => { p with minChain := p.minChain - 1 })
    { c with issue := some (ps2.filter (fun p => decide (1 ≤ p.minChain))) }

/-- `check_enough_min_chain_length_for_issuer` (KeyError when the issuer has no certIssuePermissions) -/
def enoughChain (i : Cert) : Except Err Bool :=
  match i.issue with
  | none => .error .keyError
  | some ps => .ok (ps.all (fun p => decide (1 ≤ p.minChain)))

/-- `issue_certificate` of issuer `i` on subject `c`; `newId` = HashedId8 of the result.
    Not issued ⇒ the subject comes back unchanged (unsigned). -/
def issueCert (cfg : Cfg) (i c : Cert) (newId : Nat) : Except Err Cert :=
  if c.issuer = .self then .ok { c with id := newId, sigBy := some i.key }
  else if permsOk cfg c i then
    match enoughChain i with
    | .error e => .error e
    | .ok false => .ok c
    | .ok true => .ok { setChainLen c i with issuer := .digest i.id, id := newId, sigBy := some i.key }
  else .ok c

/-- `OwnCertificate.initialize_certificate` with an issuer whose own `verify` succeeded (`issuerOk`) -/
def initCert (cfg : Cfg) (i : Cert) (issuerOk : Bool) (c : Cert) (newId : Nat) : Except Err Cert :=
  if !issuerOk then .error .valueError
  else issueCert cfg i (setChainLen { c with issuer := .digest i.id } i) newId

end Cert
end FlexModel.Sec

/-
Line-protocol driver of the security model (C09, C03, C05).  One op per line, one canonical line out.
Certificates are defined once (`cert n …`) and referred to by number afterwards.
-/
import FlexModel.Proto
import FlexModel.Sec.Sign
namespace FlexModel.Sec
open FlexModel.Proto

structure DState where
  certs : List (Nat × Cert) := []
  stations : List (Nat × Station) := []
  deriving Inhabited

def splitOnChar (s : String) (c : String) : List String := (s.splitOn c).filter (· ≠ "")

def natList? (s : String) : Option (List Nat) := (splitOnChar s ".").mapM nat?

def optNatList? (s : String) : Option (Option (List Nat)) :=
  if s == "-" then some none else if s == "e" then some (some []) else (natList? s).map some

def bool? (s : String) : Option Bool := if s == "1" then some true else if s == "0" then some false else none

def issuer? (s : String) : Option Issuer :=
  if s == "s" then some .self else if s == "x" then some .selfOther else if s == "o" then some .other
  else if s.startsWith "d" then (nat? (s.drop 1).toString).map .digest else none

def perm? (s : String) : Option IssuePerm :=
  match s.splitOn ":" with
  | [a, m] =>
    match int? m with
    | none => none
    | some m =>
      if a == "a" then some ⟨.all, m⟩
      else if a.startsWith "e" then (natList? (a.drop 1).toString).map (fun ps => ⟨.explicit ps, m⟩)
      else none
  | _ => none

def issue? (s : String) : Option (Option (List IssuePerm)) :=
  if s == "-" then some none else if s == "e" then some (some []) else ((splitOnChar s ";").mapM perm?).map some

def optNat? (s : String) : Option (Option Nat) := if s == "-" then some none else (nat? s).map some

def showNats (l : List Nat) : String := if l.isEmpty then "-" else ".".intercalate (l.map toString)
def showOptNat : Option Nat → String | none => "-" | some n => toString n

def showPerm (p : IssuePerm) : String :=
  (match p.subj with | .all => "a" | .explicit ps => "e" ++ ".".intercalate (ps.map toString)) ++ ":" ++ toString p.minChain

def showIssue : Option (List IssuePerm) → String
  | none => "-" | some [] => "e" | some ps => ";".intercalate (ps.map showPerm)

def showIssuer : Issuer → String
  | .self => "s" | .selfOther => "x" | .other => "o" | .digest h => "d" ++ toString h

def showSC (s : SC) : String := toString s.c.id ++ "^" ++ (match s.att with | none => "-" | some a => toString a.id)
def showSCs (l : List SC) : String := if l.isEmpty then "-" else ",".intercalate (l.map showSC)

def dumpStore (st : Store) : String :=
  "r:" ++ showSCs st.roots ++ " a:" ++ showSCs st.aas ++ " t:" ++ showSCs st.ats ++ " o:" ++ showSCs st.own

def sortNats (l : List Nat) : List Nat := l.mergeSort (fun a b => decide (a ≤ b))

def showPairs (l : List (Nat × Nat)) : String :=
  if l.isEmpty then "-" else
    ",".intercalate ((l.mergeSort (fun a b => decide (a.1 ≤ b.1))).map (fun p => toString p.1 ++ "@" ++ toString p.2))

/-- the per-ticket bookkeeping is printed only for the per-ticket variant (sets / dicts in canonical order) -/
def dumpSign (S : Station) : String :=
  "u:" ++ showNats S.unknownAts ++ " q:" ++ showNats S.requestedAts ++ " lf:" ++ toString S.lastFull ++
    " ro:" ++ (if S.reqOwn then "1" else "0") ++
    (if S.perTicket then " lo:" ++ showPairs S.lastOf ++ " ow:" ++ showNats (sortNats S.owed) else "")

def dump (S : Station) : String := dumpStore S.store ++ " " ++ dumpSign S

def DState.cert? (d : DState) (s : String) : Option Cert := (nat? s).bind (fun n => (d.certs.find? (·.1 == n)).map (·.2))

def DState.optCert? (d : DState) (s : String) : Option (Option Cert) :=
  if s == "-" then some none else (d.cert? s).map some

def DState.station? (d : DState) (s : String) : Option (Nat × Station) :=
  (nat? s).bind (fun k => (d.stations.find? (·.1 == k)).map (fun p => (k, p.2)))

def DState.setStation (d : DState) (k : Nat) (S : Station) : DState :=
  { d with stations := (k, S) :: d.stations.filter (·.1 != k) }

def DState.sc? (d : DState) (n att : String) : Option SC :=
  match d.cert? n, d.optCert? att with
  | some c, some a => some ⟨c, a⟩
  | _, _ => none

def parseCert (t : List String) : Option (Nat × Cert) :=
  match t with
  | [n, id, iss, ct, vki, sp, kp, ku, idn, app, isu, st, du, key, sb] =>
    match nat? n, nat? id, issuer? iss, nat? ct, bool? vki, bool? sp, bool? kp, bool? ku, bool? idn with
    | some n, some id, some iss, some ct, some vki, some sp, some kp, some ku, some idn =>
      match optNatList? app, issue? isu, nat? st, nat? du, nat? key, optNat? sb with
      | some app, some isu, some st, some du, some key, some sb =>
        some (n, { id := id, issuer := iss, ctype := ct, vkiVerif := vki, sigP256 := sp, keyP256 := kp, keyUnc := ku,
                   idNone := idn, app := app, issue := isu, start := st, durUs := du, key := key, sigBy := sb })
      | _, _, _, _, _, _ => none
    | _, _, _, _, _, _, _, _, _ => none
  | _ => none

def DState.signer? (d : DState) (s : String) : Option Signer :=
  if s == "s" then some .selfS
  else if s == "ce" then some (.certs [])
  else if s.startsWith "d" then (nat? (s.drop 1).toString).map .digest
  else if s.startsWith "c" then ((splitOnChar (s.drop 1).toString ",").mapM d.cert?).map .certs
  else none

def DState.msg? (d : DState) (t : List String) : Option Msg :=
  match t with
  | [psid, gt, f1, f2, f3, f4, f5, inl, rc, sg, sf, sb, pl, sv] =>      -- … plus the id of the signature value
    match d.msg? [psid, gt, f1, f2, f3, f4, f5, inl, rc, sg, sf, sb, pl], nat? sv with
    | some m, some sv => some { m with sig := sv }
    | _, _ => none
  | [psid, gt, f1, f2, f3, f4, f5, inl, rc, sg, sf, sb, pl] =>
    match nat? psid, optNat? gt, bool? f1, bool? f2, bool? f3, bool? f4, bool? f5 with
    | some psid, some gt, some f1, some f2, some f3, some f4, some f5 =>
      match optNatList? inl, d.optCert? rc, d.signer? sg, bool? sf, optNat? sb, nat? pl with
      | some inl, some rc, some sg, some sf, some sb, some pl =>
        some { psid := psid, genTime := gt, genLoc := f1, p2pcdLearn := f2, missingCrl := f3, expiry := f4, encKey := f5,
               inlineReq := inl, reqCert := rc, signer := sg, sigFmtOk := sf, sigBy := sb, payload := pl }
      | _, _, _, _, _, _ => none
    | _, _, _, _, _, _, _ => none
  | _ => none

def showSigner : Signer → String
  | .selfS => "s" | .digest h => "d" ++ toString h
  | .certs cs => "c" ++ ",".intercalate (cs.map (fun c => toString c.id))

def showMsg (m : Msg) : String :=
  "sg:" ++ showSigner m.signer ++ " inl:" ++ (match m.inlineReq with | none => "-" | some l => showNats l) ++
  " rc:" ++ (match m.reqCert with | none => "-" | some c => toString c.id) ++
  " loc:" ++ (if m.genLoc then "1" else "0") ++ " key:" ++ showOptNat m.sigBy

def cfg : Cfg := Cfg.fixed

def storeOp (d : DState) (k n att : String) (f : Store → SC → Except Err Store) : DState × String :=
  match d.station? k, d.sc? n att with
  | some (k, S), some s =>
    match f S.store s with
    | .ok st => let S' := { S with store := st }; (d.setStation k S', "ok " ++ dumpStore st)
    | .error e => (d, "err:" ++ e.name ++ " " ++ dumpStore S.store)
  | _, _ => (d, "bad-op")

def signOut (d : DState) (k : Nat) (r : Station × Except Err Msg) : DState × String :=
  match r with
  | (S', .ok m) => (d.setStation k S', showMsg m ++ " " ++ dumpSign S')
  | (S', .error e) => (d.setStation k S', "err:" ++ e.name ++ " " ++ dumpSign S')

def showCertOut (c : Cert) : String :=
  "issuer:" ++ showIssuer c.issuer ++ " issue:" ++ showIssue c.issue ++ " sigBy:" ++ showOptNat c.sigBy

def secStep (d : DState) (t : List String) : DState × String :=
  match t with
  | "cert" :: rest =>
    match parseCert rest with
    | some (n, c) => ({ d with certs := (n, c) :: d.certs }, "ok")
    | none => (d, "bad-op")
  | ["new", k, hs] =>
    match nat? k, bool? hs with
    | some k, some hs => (d.setStation k { hasSign := hs, perTicket := false }, "ok")   -- two tokens: sign service before C05-F2
    | _, _ => (d, "bad-op")
  | ["new", k, hs, pt] =>       -- third token: per-ticket variant of the sign service (1 = repaired code)
    match nat? k, bool? hs, bool? pt with
    | some k, some hs, some pt => (d.setStation k { hasSign := hs, perTicket := pt }, "ok")
    | _, _, _ => (d, "bad-op")
  | ["addroot", k, n, att] => storeOp d k n att (fun st s => .ok (st.addRoot cfg s))
  | ["addaa", k, n, att] => storeOp d k n att (fun st s => st.addAA cfg s)
  | ["addat", k, n, att] => storeOp d k n att (fun st s => st.addAT cfg s)
  | ["addown", k, n, att] => storeOp d k n att (fun st s => st.addOwn cfg s)
  | ["vseq", k, cs] =>
    match d.station? k, (if cs == "-" then some [] else (splitOnChar cs ",").mapM d.cert?) with
    | some (k, S), some cs =>
      match S.store.verifySeq cfg cs with
      | .ok (st, r) =>
        (d.setStation k { S with store := st }, "ret:" ++ (match r with | none => "-" | some s => showSC s) ++ " " ++ dumpStore st)
      | .error e => (d, "err:" ++ e.name ++ " " ++ dumpStore S.store)
    | _, _ => (d, "bad-op")
  | "verify" :: k :: rest =>
    match d.station? k, d.msg? rest with
    | some (k, S), some m =>
      match S.verifyMsg cfg m with
      | (S', .ok o) =>
        (d.setStation k S', "rep:" ++ toString o.report.code ++ " cid:" ++ showOptNat o.certId ++ " plain:" ++ showOptNat o.plain
          ++ " " ++ dump S')
      | (S', .error e) => (d.setStation k S', "err:" ++ e.name ++ " " ++ dump S')
    | _, _ => (d, "bad-op")
  | "gate" :: k :: en :: hv :: kind :: rest =>
    match d.station? k, bool? en, bool? hv with
    | some (k, S), some en, some hv =>
      let p : Option Packet :=
        match kind, rest with
        | "U", [pl] => (nat? pl).map .unsecured
        | "S", m => (d.msg? m).map (fun m => .secured (some m))
        | "P", [] => some (.secured none)
        | "E", [] => some (.secured none)     -- the envelope decodes, its content choice is not signedData
        | "O", [] => some .otherNH
        | "V", [] => some .badVersion
        | _, _ => none
      match p with
      | none => (d, "bad-op")
      | some p =>
        let (S', o) := gate cfg en hv S p
        let os := match o with | .pass pl => "pass:" ++ toString pl | .drop w => "drop:" ++ w | .raise e => "raise:" ++ e
        (d.setStation k S', os ++ " " ++ dump S')
    | _, _, _ => (d, "bad-op")
  | ["signcam", k, now, psid, gt, pl] =>
    match d.station? k, nat? now, nat? psid, nat? gt, nat? pl with
    | some (k, S), some now, some psid, some gt, some pl => signOut d k (S.signCam now psid gt pl)
    | _, _, _, _, _ => (d, "bad-op")
  | ["signdenm", k, loc, psid, gt, pl] =>
    match d.station? k, bool? loc, nat? psid, nat? gt, nat? pl with
    | some (k, S), some loc, some psid, some gt, some pl => signOut d k (S.signDenm loc psid gt pl)
    | _, _, _, _, _ => (d, "bad-op")
  | ["signother", k, psid, gt, pl] =>
    match d.station? k, nat? psid, nat? gt, nat? pl with
    | some (k, S), some psid, some gt, some pl => signOut d k (S.signOther psid gt pl)
    | _, _, _, _ => (d, "bad-op")
  | ["signreq", k, loc, psid, gt, pl] =>
    match d.station? k, bool? loc, nat? psid, nat? gt, nat? pl with
    | some (k, S), some loc, some psid, some gt, some pl => signOut d k (S.signRequest loc psid gt pl)
    | _, _, _, _, _ => (d, "bad-op")
  | ["cverify", c, att] =>
    match d.sc? c att with
    | some s => (d, if s.c.verify cfg s.att then "1" else "0")
    | none => (d, "bad-op")
  | ["setchain", c, i] =>
    match d.cert? c, d.cert? i with
    | some c, some i => (d, showIssue (c.setChainLen i).issue)
    | _, _ => (d, "bad-op")
  | ["issue", i, c, newId] =>
    match d.cert? i, d.cert? c, nat? newId with
    | some i, some c, some newId =>
      (d, match Cert.issueCert cfg i c newId with | .ok r => showCertOut r | .error e => "err:" ++ e.name)
    | _, _, _ => (d, "bad-op")
  | ["initcert", i, ok, c, newId] =>
    match d.cert? i, bool? ok, d.cert? c, nat? newId with
    | some i, some ok, some c, some newId =>
      (d, match Cert.initCert cfg i ok c newId with | .ok r => showCertOut r | .error e => "err:" ++ e.name)
    | _, _, _, _ => (d, "bad-op")
  | ["reset"] => ({}, "ok")
  | _ => (d, "bad-op")

def secDomain : Domain := { σ := DState, init := {}, step := secStep }

end FlexModel.Sec

/-
Per header: the list of field values in the order of the standard's layout (`fields`), the width /
code-point predicate `WF` ("a value a conformant station can have"), and the standard's octets for a value
list (`Spec.octets`).  Statements of Props/C02.lean are written with these.
-/
import FlexModel.Wire.Headers
import FlexModel.Wire.Spec
import FlexModel.Wire.Packet

namespace FlexModel.Wire

/-- the octets the standard prescribes for field values `vs` of layout `l` (big-endian, `bits/8` octets) -/
def Spec.octets (l : Spec.Layout) (vs : List Int) : Bytes := toBytesBE (l.bits / 8) (Spec.pack l vs)

/-! ### field lists -/
def BasicHeader.fields (h : BasicHeader) : List Int :=
  [h.version, h.nh, h.reserved, h.lt.mult, h.lt.base, h.rhl]

def TrafficClass.fields (t : TrafficClass) : List Int := [b2n t.scf, b2n t.channelOffload, t.tcId]

/-- flags octet split into bit 0 (mobile, MSB) and the 7 reserved bits.  The standard's layout has TWO reserved fields
(4 bits after NH, 8 bits after MHL); the Python class stores ONE attribute `reserved` and `encode_to_int` writes it
into both, so the value list an encoder produces has `h.reserved` at both positions (under `WF`: < 16).  The decoder
reads only the trailing octet back (and drops the 4-bit field and the 7 reserved flag bits): see
`Props.C02.common_decode_reads_layout` (all inputs) and `common_reserved_asymmetry_witness`. -/
def CommonHeader.fields (h : CommonHeader) : List Int :=
  [(h.nh : Int), (h.reserved : Int), (h.ht : Int), (h.hst : Int)] ++ h.tc.fields ++ [((h.flags / 128 : Nat) : Int), ((h.flags % 128 : Nat) : Int), (h.pl : Int), (h.mhl : Int), (h.reserved : Int)]

/-- the 10 reserved bits of GN_ADDR are not stored by the code: always written as 0 -/
def GNAddr.fields (a : GNAddr) : List Int := [a.m, a.st, 0, a.mid]

def LongPV.fields (p : LongPV) : List Int := p.addr.fields ++ [(p.tst : Int), p.lat, p.lon, (b2n p.pai : Int), p.s, (p.h : Int)]
def ShortPV.fields (p : ShortPV) : List Int := p.addr.fields ++ [(p.tst : Int), p.lat, p.lon]
def GBCExt.fields (h : GBCExt) : List Int :=
  [(h.sn : Int), (h.reserved : Int)] ++ h.soPv.fields ++ [h.lat, h.lon, (h.a : Int), (h.b : Int), (h.angle : Int), (h.reserved2 : Int)]
def TSBExt.fields (h : TSBExt) : List Int := [(h.sn : Int), (h.reserved : Int)] ++ h.soPv.fields
def GUCExt.fields (h : GUCExt) : List Int := [(h.sn : Int), (h.reserved : Int)] ++ h.soPv.fields ++ h.dePv.fields
def LSReqExt.fields (h : LSReqExt) : List Int := [(h.sn : Int), (h.reserved : Int)] ++ h.soPv.fields ++ h.reqAddr.fields
def BTPHeader.fields (h : BTPHeader) : List Int := [h.dport, h.second]

/-! ### well-formedness: every field within its width, code points from the standard's tables -/
def BasicHeader.WF (h : BasicHeader) : Prop :=
  h.version < 16 ∧ h.nh ∈ Spec.basicNH ∧ h.reserved < 256 ∧ h.lt.mult < 64 ∧ h.lt.base < 4 ∧ h.rhl < 256

def TrafficClass.WF (t : TrafficClass) : Prop := t.tcId < 64

def CommonHeader.WF (h : CommonHeader) : Prop :=
  h.nh ∈ Spec.commonNH ∧ h.reserved < 16 ∧ h.ht ∈ Spec.headerTypes ∧ h.hst ∈ Spec.subTypes h.ht ∧ h.tc.WF ∧
  h.flags < 256 ∧ h.pl < 65536 ∧ h.mhl < 256

/-- the reserved flag bits are zero (the decoder does not return them) -/
def CommonHeader.FlagsConformant (h : CommonHeader) : Prop := h.flags % 128 = 0

def GNAddr.WF (a : GNAddr) : Prop := a.m < 2 ∧ a.st ∈ Spec.stationTypes ∧ a.mid < 2 ^ 48

def inS32 (v : Int) : Prop := -2147483648 ≤ v ∧ v < 2147483648
def inS15 (v : Int) : Prop := -16384 ≤ v ∧ v < 16384

def LongPV.WF (p : LongPV) : Prop :=
  p.addr.WF ∧ p.tst < 2 ^ 32 ∧ inS32 p.lat ∧ inS32 p.lon ∧ inS15 p.s ∧ p.h < 65536

def ShortPV.WF (p : ShortPV) : Prop := p.addr.WF ∧ p.tst < 2 ^ 32 ∧ inS32 p.lat ∧ inS32 p.lon

def GBCExt.WF (h : GBCExt) : Prop :=
  h.sn < 65536 ∧ h.reserved < 65536 ∧ h.soPv.WF ∧ inS32 h.lat ∧ inS32 h.lon ∧ h.a < 65536 ∧ h.b < 65536 ∧
  h.angle < 65536 ∧ h.reserved2 < 65536

def TSBExt.WF (h : TSBExt) : Prop := h.sn < 65536 ∧ h.reserved < 65536 ∧ h.soPv.WF
def GUCExt.WF (h : GUCExt) : Prop := h.sn < 65536 ∧ h.reserved < 65536 ∧ h.soPv.WF ∧ h.dePv.WF
def LSReqExt.WF (h : LSReqExt) : Prop := h.sn < 65536 ∧ h.reserved < 65536 ∧ h.soPv.WF ∧ h.reqAddr.WF
def BTPHeader.WF (h : BTPHeader) : Prop := h.dport < 65536 ∧ h.second < 65536


/-! ### configuration and request well-formedness (what the service primitives allow) -/
def Mib.WF (m : Mib) : Prop := m.version < 16 ∧ m.mobile < 2 ∧ m.defaultHopLimit < 256 ∧ m.defaultTc < 256

def Area.WF (a : Area) : Prop := inS32 a.lat ∧ inS32 a.lon ∧ a.a < 65536 ∧ a.b < 65536 ∧ a.angle < 65536

/-- `length = data.length`: the contract of the GN-DATA.request primitive for a caller entering at the GN service access
point; for requests entering at the BTP layer it is DERIVED (`Props.C02.btp_request_length`, any declared length).
PL is 16 bits, hop limits 8 bits -/
def Request.WF (r : Request) : Prop :=
  r.nh ∈ Spec.commonNH ∧ r.ht ∈ Spec.headerTypes ∧ r.hst ∈ Spec.subTypes r.ht ∧ r.tc.WF ∧ r.length = r.data.length ∧
  r.length < 65536 ∧ r.area.WF ∧ r.maxHopLimit < 256

/-- what the BTP-Data.request primitive allows.  NOTHING is assumed about `declaredLength` (the `length` attribute of the
request: default 0, stale after `from_dict`, …) -/
def BtpRequest.WF (q : BtpRequest) : Prop :=
  (q.btpType = 1 ∨ q.btpType = 2) ∧ q.sourcePort < 65536 ∧ q.destinationPort < 65536 ∧ q.destinationPortInfo < 65536 ∧
  q.ht ∈ Spec.headerTypes ∧ q.hst ∈ Spec.subTypes q.ht ∧ q.tc.WF ∧ 4 + q.data.length < 65536 ∧ q.area.WF ∧ q.maxHopLimit < 256

/-! ### field settings the standard prescribes for originated packets (EN 302 636-4-1 clause 10.3) -/
/-- Basic Header: version = itsGnProtocolVersion, NH = 1 (Common Header), reserved 0, LT octet (multiplier = its 6
most significant bits, base = its 2 least significant bits; WHICH octet: `LTSpec.IsLifetimeOctet`), RHL.
No function of the implementation model occurs here. -/
def Spec.basicValues (version : Nat) (ltOctet : Nat) (rhl : Nat) : List Int :=
  [version, 1, 0, ((ltOctet / 4 : Nat) : Int), ((ltOctet % 4 : Nat) : Int), rhl]

/-- Common Header: NH, reserved 0, HT, HST, TC, flags = (itsGnIsMobile, 0000000), PL, MHL, reserved 0 -/
def Spec.commonValues (nh ht hst : Nat) (tc : TrafficClass) (mobile pl mhl : Nat) : List Int :=
  [nh, 0, ht, hst, b2n tc.scf, b2n tc.channelOffload, tc.tcId, mobile, 0, pl, mhl, 0]

/-- §9.7.3 traffic class octet read the standard's way (SCF = MSB, channel offload = next bit, TC ID = low 6 bits);
used for itsGnDefaultTrafficClass on the Spec side (the implementation uses `TrafficClass.decode_from_int`: shifts/masks) -/
def Spec.tcOfOctet (o : Nat) : TrafficClass := ⟨decide (o / 128 % 2 = 1), decide (o / 64 % 2 = 1), o % 64⟩

/-- field values of a basic header with another RHL (forwarding) -/
def basicValuesRaw (h : BasicHeader) (rhl : Nat) : List Int := [h.version, h.nh, h.reserved, h.lt.mult, h.lt.base, rhl]

/-- the 32-bit two's complement pattern of a coordinate, as the standard defines it -/
def twos32 (v : Int) : Nat := if v < 0 then (v + 4294967296).toNat else v.toNat

end FlexModel.Wire

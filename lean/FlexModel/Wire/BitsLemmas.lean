import FlexModel.Wire.Bits
namespace FlexModel.Wire

theorem fromBytesBE_snoc (xs : Bytes) (b : Nat) : fromBytesBE (xs ++ [b]) = fromBytesBE xs * 256 + b := by
  simp [fromBytesBE, List.foldl_append]

theorem toBytesBE_length (len n : Nat) : (toBytesBE len n).length = len := by
  induction len generalizing n with
  | zero => rfl
  | succ k ih => simp [toBytesBE, ih]

theorem fromBytesBE_toBytesBE (len n : Nat) : fromBytesBE (toBytesBE len n) = n % 256 ^ len := by
  induction len generalizing n with
  | zero => simp [toBytesBE, fromBytesBE, Nat.mod_one]
  | succ k ih =>
    simp only [toBytesBE, fromBytesBE_snoc, ih]
    rw [Nat.pow_succ, Nat.mul_comm (256 ^ k) 256, Nat.mod_mul]
    omega

theorem toBytesBE_wf (len n : Nat) : Bytes.WF (toBytesBE len n) := by
  induction len generalizing n with
  | zero => intro b hb; simp [toBytesBE] at hb
  | succ k ih =>
    intro b hb
    simp only [toBytesBE, List.mem_append, List.mem_singleton] at hb
    rcases hb with hb | hb
    · exact ih _ b hb
    · omega

theorem foldl_acc (ys : Bytes) (acc : Nat) :
    ys.foldl (fun acc b => acc * 256 + b) acc = acc * 256 ^ ys.length + fromBytesBE ys := by
  induction ys generalizing acc with
  | nil => simp [fromBytesBE]
  | cons y ys ih =>
    simp only [List.foldl_cons, fromBytesBE, List.length_cons]
    rw [ih, ih (0 * 256 + y), Nat.pow_succ]
    simp only [Nat.zero_mul, Nat.zero_add, Nat.add_mul, Nat.add_assoc, Nat.mul_assoc, Nat.mul_comm 256]

theorem fromBytesBE_append (xs ys : Bytes) :
    fromBytesBE (xs ++ ys) = fromBytesBE xs * 256 ^ ys.length + fromBytesBE ys := by
  simp only [fromBytesBE, List.foldl_append]
  exact foldl_acc ys _

theorem fromBytesBE_cons (x : Nat) (xs : Bytes) :
    fromBytesBE (x :: xs) = x * 256 ^ xs.length + fromBytesBE xs := by
  have := fromBytesBE_append [x] xs
  simpa [fromBytesBE] using this

theorem toBytesBE_append (a b x y : Nat) (hy : y < 256 ^ b) :
    toBytesBE (a + b) (x * 256 ^ b + y) = toBytesBE a x ++ toBytesBE b y := by
  induction b generalizing y with
  | zero =>
    have : y = 0 := by simpa using hy
    subst this; simp [toBytesBE]
  | succ k ih =>
    have h1 : (x * 256 ^ (k + 1) + y) / 256 = x * 256 ^ k + y / 256 := by
      rw [Nat.pow_succ, ← Nat.mul_assoc]; omega
    have h2 : (x * 256 ^ (k + 1) + y) % 256 = y % 256 := by
      rw [Nat.pow_succ, ← Nat.mul_assoc]; omega
    have h3 : y / 256 < 256 ^ k := by
      rw [Nat.pow_succ] at hy; omega
    show toBytesBE (a + k + 1) _ = _
    simp only [toBytesBE, h1, h2, ih _ h3, List.append_assoc]

theorem fromBytesBE_lt (bs : Bytes) (h : bs.WF) : fromBytesBE bs < 256 ^ bs.length := by
  induction bs with
  | nil => simp [fromBytesBE]
  | cons x xs ih =>
    have hx : x < 256 := h x (by simp)
    have hxs : Bytes.WF xs := fun b hb => h b (by simp [hb])
    have := ih hxs
    rw [fromBytesBE_cons, List.length_cons, Nat.pow_succ]
    have h2 : x * 256 ^ xs.length ≤ 255 * 256 ^ xs.length := Nat.mul_le_mul_right _ (by omega)
    omega

theorem toBytesBE_fromBytesBE (bs : Bytes) (h : bs.WF) : toBytesBE bs.length (fromBytesBE bs) = bs := by
  induction bs with
  | nil => rfl
  | cons x xs ih =>
    have hx : x < 256 := h x (by simp)
    have hxs : Bytes.WF xs := fun b hb => h b (by simp [hb])
    rw [fromBytesBE_cons, List.length_cons, Nat.add_comm, toBytesBE_append 1 _ _ _ (fromBytesBE_lt xs hxs), ih hxs]
    simp [toBytesBE, Nat.mod_eq_of_lt hx]

end FlexModel.Wire

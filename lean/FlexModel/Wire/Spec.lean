/-
ETSI wire layouts as DATA, written from the standards (not from the code):
  EN 302 636-4-1 V1.4.1 clause 9  (GeoNetworking: 9.6 Basic Header, 9.7 Common Header, 6.3 GN_ADDR,
                                    9.5 position vectors, 9.8 extended headers)
  EN 302 636-5-1 V2.2.1 clause 7  (BTP-A, BTP-B)
plus ONE generic `pack`/`unpack` (fields most-significant first, two's complement for signed fields).
Core Lean only; independent of the header models in `Wire/Headers.lean`.
-/
namespace FlexModel.Wire.Spec

structure Field where
  name : String
  width : Nat
  signed : Bool := false
deriving Repr, DecidableEq

abbrev Layout := List Field

def Layout.bits (l : Layout) : Nat := (l.map (·.width)).foldl (· + ·) 0

/-- the `w`-bit pattern of a field value: unsigned value as is, signed value in two's complement -/
def encField (f : Field) (v : Int) : Nat :=
  if f.signed then (if v < 0 then (v + ((2 ^ f.width : Nat) : Int)).toNat else v.toNat) % 2 ^ f.width
  else v.toNat % 2 ^ f.width

/-- value of a `w`-bit pattern -/
def decField (f : Field) (n : Nat) : Int :=
  let m := n % 2 ^ f.width
  if f.signed ∧ 2 ^ (f.width - 1) ≤ m then (m : Int) - ((2 ^ f.width : Nat) : Int) else (m : Int)

/-- a value fits its field -/
def fitsField (f : Field) (v : Int) : Prop :=
  if f.signed then -((2 ^ (f.width - 1) : Nat) : Int) ≤ v ∧ v < ((2 ^ (f.width - 1) : Nat) : Int)
  else 0 ≤ v ∧ v < ((2 ^ f.width : Nat) : Int)

def packAux (acc : Nat) : Layout → List Int → Nat
  | [], _ => acc
  | f :: fs, [] => packAux (acc * 2 ^ f.width) fs []
  | f :: fs, v :: vs => packAux (acc * 2 ^ f.width + encField f v) fs vs

/-- the integer whose big-endian `bits/8` octets are the header: first field in the most significant bits -/
def pack (l : Layout) (vs : List Int) : Nat := packAux 0 l vs

/-- values of the fields of `l` (from the least significant end), given the integer -/
def unpackRev : Layout → Nat → List Int
  | [], _ => []
  | f :: fs, n => decField f n :: unpackRev fs (n / 2 ^ f.width)

def unpack (l : Layout) (n : Nat) : List Int := (unpackRev l.reverse n).reverse

/-! ### Layouts -/

/-- EN 302 636-4-1 §9.6: Version(4) NH(4) Reserved(8) LT(8 = multiplier 6 + base 2) RHL(8) -/
def basicHeader : Layout :=
  [⟨"version", 4, false⟩, ⟨"nh", 4, false⟩, ⟨"reserved", 8, false⟩, ⟨"ltMultiplier", 6, false⟩,
   ⟨"ltBase", 2, false⟩, ⟨"rhl", 8, false⟩]

/-- §9.7: NH(4) Reserved(4) HT(4) HST(4) TC(8 = SCF 1 + channel offload 1 + TC ID 6)
Flags(8 = bit 0 mobile (MSB), bits 1-7 reserved) PL(16) MHL(8) Reserved(8) -/
def commonHeader : Layout :=
  [⟨"nh", 4, false⟩, ⟨"reserved", 4, false⟩, ⟨"ht", 4, false⟩, ⟨"hst", 4, false⟩,
   ⟨"scf", 1, false⟩, ⟨"channelOffload", 1, false⟩, ⟨"tcId", 6, false⟩,
   ⟨"mobile", 1, false⟩, ⟨"flagsReserved", 7, false⟩, ⟨"pl", 16, false⟩, ⟨"mhl", 8, false⟩,
   ⟨"reserved2", 8, false⟩]

/-- §9.7.3 traffic class octet -/
def trafficClass : Layout := [⟨"scf", 1, false⟩, ⟨"channelOffload", 1, false⟩, ⟨"tcId", 6, false⟩]

/-- §6.3 GN_ADDR: M(1) ST(5) Reserved(10) MID(48) -/
def gnAddr : Layout := [⟨"m", 1, false⟩, ⟨"st", 5, false⟩, ⟨"reserved", 10, false⟩, ⟨"mid", 48, false⟩]

/-- §9.5.2 Long Position Vector: GN_ADDR(64) TST(32) Lat(32 signed) Long(32 signed) PAI(1) S(15 signed) H(16) -/
def longPV : Layout :=
  gnAddr ++ [⟨"tst", 32, false⟩, ⟨"lat", 32, true⟩, ⟨"lon", 32, true⟩, ⟨"pai", 1, false⟩, ⟨"s", 15, true⟩,
             ⟨"h", 16, false⟩]

/-- §9.5.3 Short Position Vector: GN_ADDR(64) TST(32) Lat(32 signed) Long(32 signed) -/
def shortPV : Layout := gnAddr ++ [⟨"tst", 32, false⟩, ⟨"lat", 32, true⟩, ⟨"lon", 32, true⟩]

/-- §9.8.5 / §9.8.6 GBC and GAC: SN(16) Reserved(16) SO PV(192) GeoAreaPos Lat(32 s) Long(32 s)
Distance a(16) Distance b(16) Angle(16) Reserved(16) -/
def gbc : Layout :=
  [⟨"sn", 16, false⟩, ⟨"reserved", 16, false⟩] ++ longPV ++
  [⟨"areaLat", 32, true⟩, ⟨"areaLon", 32, true⟩, ⟨"a", 16, false⟩, ⟨"b", 16, false⟩, ⟨"angle", 16, false⟩,
   ⟨"reserved2", 16, false⟩]

/-- §9.8.3 TSB: SN(16) Reserved(16) SO PV(192) -/
def tsb : Layout := [⟨"sn", 16, false⟩, ⟨"reserved", 16, false⟩] ++ longPV

/-- §9.8.4 SHB: SO PV(192) Media-dependent data / reserved (32) -/
def shb : Layout := longPV ++ [⟨"mediaDependent", 32, false⟩]

/-- §9.8.7 Beacon: SO PV(192) -/
def beacon : Layout := longPV

/-- §9.8.2 GUC: SN(16) Reserved(16) SO PV(192) DE PV(160, short) -/
def guc : Layout := [⟨"sn", 16, false⟩, ⟨"reserved", 16, false⟩] ++ longPV ++ shortPV

/-- §9.8.8 LS Request: SN(16) Reserved(16) SO PV(192) Request GN_ADDR(64) -/
def lsRequest : Layout := [⟨"sn", 16, false⟩, ⟨"reserved", 16, false⟩] ++ longPV ++ gnAddr

/-- §9.8.9 LS Reply: SN(16) Reserved(16) SO PV(192) DE PV(160, short) -/
def lsReply : Layout := guc

/-- EN 302 636-5-1 §7.2 BTP-A: destination port(16) source port(16) -/
def btpA : Layout := [⟨"destinationPort", 16, false⟩, ⟨"sourcePort", 16, false⟩]

/-- EN 302 636-5-1 §7.3 BTP-B: destination port(16) destination port info(16) -/
def btpB : Layout := [⟨"destinationPort", 16, false⟩, ⟨"destinationPortInfo", 16, false⟩]

/-! ### Code points (EN 302 636-4-1 Tables 4, 5, 9 and §6.3 Table 1) -/
def basicNH : List Nat := [0, 1, 2]           -- ANY, Common Header, Secured Packet
def commonNH : List Nat := [0, 1, 2, 3]       -- ANY, BTP-A, BTP-B, IPv6
def headerTypes : List Nat := [0, 1, 2, 3, 4, 5, 6]  -- ANY BEACON GUC GAC GBC TSB LS
/-- sub-types per header type -/
def subTypes : Nat → List Nat
  | 3 => [0, 1, 2]   -- GEOANYCAST circle, rectangle, ellipse
  | 4 => [0, 1, 2]   -- GEOBROADCAST circle, rectangle, ellipse
  | 5 => [0, 1]      -- TSB single hop, multi hop
  | 6 => [0, 1]      -- LS request, reply
  | _ => [0]         -- ANY, BEACON, GEOUNICAST: unspecified
/-- ITS-S types of GN_ADDR.ST: 0 unknown … 11 tram, 15 road side unit -/
def stationTypes : List Nat := [0, 1, 2, 3, 4, 5, 6, 7, 8, 9, 10, 11, 15]

end FlexModel.Wire.Spec

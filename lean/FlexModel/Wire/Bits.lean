/-
Integer/octet primitives shared by the wire-format models (C02).
Mirrors the Python idioms used by the header codecs of `flexstack.geonet` / `flexstack.btp`:
`int.to_bytes(n, "big")`, `int.from_bytes(b, "big")`, `value & ((1 << bits) - 1)` on possibly negative
ints, sign extension, byte slicing.  Core Lean only.
-/
namespace FlexModel.Wire

/-- exception kinds raised by the codecs (compared by name with `type(e).__name__`) -/
inductive Err
  | overflow   -- OverflowError (`int.to_bytes` of a negative / too large value)
  | value      -- ValueError (enum construction from an unknown code)
  | decode     -- flexstack.geonet.exceptions.DecodeError (input too short)
deriving DecidableEq, Repr

def Err.name : Err → String
  | .overflow => "OverflowError"
  | .value => "ValueError"
  | .decode => "DecodeError"

/-- octet strings: lists of naturals `< 256` -/
abbrev Bytes := List Nat

def Bytes.WF (bs : Bytes) : Prop := ∀ b ∈ bs, b < 256

/-- `position_vector._to_twos_complement(value, bits)` = Python `value & ((1 << bits) - 1)`
(defined for negative ints too: the non-negative residue modulo `2^bits`) -/
def toTwos (w : Nat) (v : Int) : Nat := (v % ((2 ^ w : Nat) : Int)).toNat

/-- `position_vector._from_twos_complement(value, bits)`:
`value &= (1 << bits) - 1; return value - (1 << bits) if value >> (bits - 1) else value` -/
def fromTwos (w : Nat) (n : Nat) : Int :=
  let m := n % 2 ^ w
  if m >>> (w - 1) ≠ 0 then (m : Int) - ((2 ^ w : Nat) : Int) else (m : Int)

/-- octets of `n.to_bytes(len, "big")` (most significant first); value taken modulo `256^len` -/
def toBytesBE : Nat → Nat → Bytes
  | 0, _ => []
  | len + 1, n => toBytesBE len (n / 256) ++ [n % 256]

/-- `int.from_bytes(bs, "big")` -/
def fromBytesBE (bs : Bytes) : Nat := bs.foldl (fun acc b => acc * 256 + b) 0

/-- `n.to_bytes(len, "big")` for a non-negative `n`: `OverflowError` when it does not fit -/
def toBytes? (len n : Nat) : Except Err Bytes :=
  if n < 256 ^ len then .ok (toBytesBE len n) else .error .overflow

/-- `v.to_bytes(len, "big")` for a Python int that may be negative (unsigned conversion) -/
def intToBytes? (len : Nat) (v : Int) : Except Err Bytes :=
  if v < 0 then .error .overflow else toBytes? len v.toNat

/-- `v.to_bytes(len, "big", signed=True)` -/
def intToBytesSigned? (len : Nat) (v : Int) : Except Err Bytes :=
  if -((2 ^ (8 * len - 1) : Nat) : Int) ≤ v ∧ v < ((2 ^ (8 * len - 1) : Nat) : Int)
  then .ok (toBytesBE len (toTwos (8 * len) v)) else .error .overflow

/-- `int.from_bytes(bs, "big", signed=True)` -/
def fromBytesSigned (bs : Bytes) : Int := fromTwos (8 * bs.length) (fromBytesBE bs)

/-- Python slice `bs[a:b]` (0 ≤ a ≤ b) -/
def slice (bs : Bytes) (a b : Nat) : Bytes := (bs.drop a).take (b - a)

def b2n (b : Bool) : Nat := if b then 1 else 0

end FlexModel.Wire

/-
C02, round 5 — copies of a LOCATION TABLE position vector into a packet header while receive threads replace it.

`LocationTableEntry.position_vector` is an immutable `LongPositionVector`; `update_position_vector` (reception of a newer
beacon / SHB / any packet of that station, on the link-layer receive thread) REPLACES the object.  Four places of
geonet/router.py copy such a vector into a header as a Short Position Vector (GN_ADDR, TST, latitude, longitude):

  gn_data_request_guc            DE PV of the originated GeoUnicast packet          (10.3.8.2, table 28)
  gn_data_indicate_ls_request    DE PV of the LS reply = PV of the requester        (10.3.7.3)
  gn_data_indicate_guc           DE PV refresh of the GUC forwarder                 (10.3.8.3 step 8)
  gn_data_indicate_ls_reply      DE PV refresh of the LS-reply forwarder            (10.3.7.2)

`h t` is the vector the entry holds at instant `t` (ANY history: any number of replacements by any threads).  A copy
that loads the attribute `n` times sees the history at the instants `ts 0, ts 1, …` of its loads, and each of the four
fields it writes is taken from one of those loads (`ld`: 0 = GN_ADDR, 1 = TST, 2 = latitude, 3 = longitude).  With ONE
load (`n ≤ 1`) the copy is the short form of ONE vector the table really held (`copySeen_of_single_load`), whatever the
schedule; with more, the timestamp can come from one vector and latitude / longitude from later ones (seeded change
C02-m8; `Props.C02.de_pv_torn_witness`).  The number of loads per copy site is the regenerated fact
`Generated.WireFacts.dePvCopies` (harness/gen_wire.py: `de_pv_copy_facts`, ast pass over geonet/router.py).

Core Lean only.
-/
import FlexModel.Wire.Fields
import Generated.WireFacts

namespace FlexModel.Wire

/-- the Short Position Vector of a Long Position Vector (EN 302 636-4-1 9.5.3: GN_ADDR, TST, Lat, Long) -/
def LongPV.short (p : LongPV) : ShortPV := ⟨p.addr, p.tst, p.lat, p.lon⟩

/-- what a copy SEES of an entry whose vector over time is `h`, when its loads of the attribute happen at the instants
`ts 0, ts 1, …` and field `i` (0 = GN_ADDR, 1 = TST, 2 = latitude, 3 = longitude) is read from load `ld i` -/
def copySeen (ld : Nat → Nat) (h : Nat → LongPV) (ts : Nat → Nat) : ShortPV :=
  ⟨(h (ts (ld 0))).addr, (h (ts (ld 1))).tst, (h (ts (ld 2))).lat, (h (ts (ld 3))).lon⟩

/-- with at most one load every field comes from the vector held at that load -/
theorem copySeen_of_single_load (n : Nat) (hn : n ≤ 1) (ld : Nat → Nat) (hld : ∀ i, ld i < n) (h : Nat → LongPV)
    (ts : Nat → Nat) : copySeen ld h ts = (h (ts 0)).short := by
  have h0 : ∀ i, ld i = 0 := fun i => by have := hld i; omega
  simp only [copySeen, h0, LongPV.short]

/-- the regenerated structural fact (harness/gen_wire.py: `de_pv_copy_facts`): there ARE copies of a location-table vector
into a header in geonet.Router, and the arguments of every such `ShortPositionVector(...)` constructor call derive from
exactly ONE load of a `.position_vector` attribute -/
def codeDePvSingleLoad : Bool :=
  !Generated.WireFacts.dePvCopies.isEmpty && Generated.WireFacts.dePvCopies.all (fun x => decide (x.2.2 ≤ 1))

theorem LongPV.short_wf (p : LongPV) (w : p.WF) : p.short.WF := ⟨w.1, w.2.1, w.2.2.1, w.2.2.2.1⟩

end FlexModel.Wire

/-
Helper lemmas for Props/C02.lean, part 3: basic/common header octets, packet assembly, forwarding.
-/
import FlexModel.Wire.HeaderLemmas2
import FlexModel.Geo.LTLemmas

namespace FlexModel.Wire
open Generated.WireEnums
open FlexModel.Geo
open Spec (pack packAux encField Layout)

/-! ### octet `i` of `n.to_bytes(len)` -/
theorem getD_toBytesBE (len i n : Nat) (h : i < len) : (toBytesBE len n).getD i 0 = n / 256 ^ (len - 1 - i) % 256 := by
  induction len generalizing n with
  | zero => omega
  | succ k ih =>
    simp only [toBytesBE]
    by_cases hi : i < k
    · rw [List.getD_eq_getElem?_getD, List.getElem?_append_left (by simpa [toBytesBE_length] using hi),
        ← List.getD_eq_getElem?_getD, ih _ hi, Nat.div_div_eq_div_mul]
      have : k + 1 - 1 - i = (k - 1 - i) + 1 := by omega
      rw [this, Nat.pow_succ, Nat.mul_comm]
    · have : i = k := by omega
      subst this
      rw [List.getD_eq_getElem?_getD, List.getElem?_append_right (by simp [toBytesBE_length])]
      simp [toBytesBE_length]

/-! ### basic and common header on octets -/
theorem BasicHeader.encode_eq (h : BasicHeader) (wf : h.WF) : h.encode = .ok (Spec.octets Spec.basicHeader h.fields) := by
  have : Layout.bits Spec.basicHeader / 8 = 4 := by decide
  rw [BasicHeader.encode, toBytes?_ok (BasicHeader.encodeInt_lt h wf), Spec.octets, this, BasicHeader.encodeInt_eq_pack h wf]

theorem BasicHeader.decode_octets (h : BasicHeader) (wf : h.WF) (tail : Bytes) :
    BasicHeader.decode (slice (toBytesBE 4 h.encodeInt ++ tail) 0 4) = .ok h := by
  have lt := BasicHeader.encodeInt_lt h wf
  rw [slice_prefix _ _ _ (by simp [toBytesBE_length])]
  have len : ¬ ((toBytesBE 4 h.encodeInt).length < 4) := by simp [toBytesBE_length]
  simp only [BasicHeader.decode, len, if_false, slice_all _ _ (Nat.le_of_eq (toBytesBE_length 4 _)), fromBytesBE_toBytesBE,
    Nat.mod_eq_of_lt lt, BasicHeader.decodeInt_encodeInt h wf]

theorem CommonHeader.encode_eq (h : CommonHeader) (wf : h.WF) : h.encode = .ok (Spec.octets Spec.commonHeader h.fields) := by
  have : Layout.bits Spec.commonHeader / 8 = 8 := by decide
  rw [CommonHeader.encode, toBytes?_ok (CommonHeader.encodeInt_lt h wf), Spec.octets, this,
    CommonHeader.encodeInt_eq_pack h wf]

theorem CommonHeader.decode_octets (h : CommonHeader) (wf : h.WF) (fc : h.FlagsConformant) (tail : Bytes) :
    CommonHeader.decode (slice (toBytesBE 8 h.encodeInt ++ tail) 0 8) = .ok h := by
  have lt := CommonHeader.encodeInt_lt h wf
  rw [slice_prefix _ _ _ (by simp [toBytesBE_length])]
  have len : ¬ ((toBytesBE 8 h.encodeInt).length < 8) := by simp [toBytesBE_length]
  simp only [CommonHeader.decode, len, if_false, slice_all _ _ (Nat.le_of_eq (toBytesBE_length 8 _)), fromBytesBE_toBytesBE,
    Nat.mod_eq_of_lt lt, CommonHeader.decodeInt_encodeInt h wf fc]

/-! ### lifetime field of originated packets is well formed (the value is C20's subject) -/
theorem greatest_wf (v : Nat) : (LT.greatest v).WF := by
  simp only [LT.greatest, LT.stepQ, LT.unit]
  repeat' split
  all_goals (simp only [LT.WF] at *; omega)

theorem srcLifetime_wf (capped : Bool) (req : Option Nat) (d : Nat) : (srcLifetime capped req d).WF := by
  unfold srcLifetime
  split <;> (simp only [LT.setMillis]; split)
  all_goals first | exact greatest_wf _ | (simp [LT.WF])

/-! ### headers built by the source operations are well formed -/
theorem mobile_shift (m : Nat) (_h : m < 2) : m <<< 7 = m * 128 := by simp [Nat.shiftLeft_eq]

theorem srcBasic_wf (v : Variant) (mib : Mib) (hm : mib.WF) (life : Option Nat) (rhl : Nat) (hr : rhl < 256) :
    (srcBasic v mib life rhl).WF := by
  obtain ⟨m1, m2, m3, m4⟩ := hm
  have lw := srcLifetime_wf v.capped life mib.defaultLifetimeS
  refine ⟨?_, ?_, ?_, lw.1, lw.2, hr⟩
  · simp only [srcBasic]; split <;> omega
  · simp [srcBasic, Spec.basicNH, BasicNH_COMMON_HEADER]
  · simp [srcBasic]

/-- the basic header of a source operation carries the prescribed field values — for the repaired variant of C02-KF2
(version from the MIB) and ALSO for the code as it is (version hard-coded 1) whenever itsGnProtocolVersion = 1,
which is the MIB default; the LT fields are those of the octet `(srcLifetime …).encode` -/
theorem srcBasic_fields (v : Variant) (mib : Mib) (hv : v.versionFromMib = true ∨ mib.version = 1) (life : Option Nat)
    (rhl : Nat) :
    (srcBasic v mib life rhl).fields =
      Spec.basicValues mib.version (srcLifetime v.capped life mib.defaultLifetimeS).encode rhl := by
  obtain ⟨h1, h2⟩ := LTLemmas.octet_split _ (LTLemmas.srcLifetime_wf v.capped life mib.defaultLifetimeS)
  have hver : (if v.versionFromMib = true then mib.version else 1) = mib.version := by
    rcases hv with h | h
    · simp [h]
    · split <;> simp [h]
  simp only [srcBasic, BasicHeader.fields, Spec.basicValues, hver, BasicNH_COMMON_HEADER, h1, h2]
  simp

/-- the implementation's hop-limit expression is the standard's rule under the interface convention -/
theorem srcHopLimit_eq (mib : Mib) (r : Request) :
    srcHopLimit mib r = LTSpec.hopLimit (LTSpec.requestedHops r.maxHopLimit) mib.defaultHopLimit := by
  simp only [srcHopLimit, LTSpec.hopLimit, LTSpec.requestedHops]
  split <;> split <;> first | rfl | omega | simp_all

theorem commonOfRequest_wf (r : Request) (hr : r.WF) (mib : Mib) (hm : mib.WF) : (commonOfRequest r mib).WF := by
  obtain ⟨r1, r2, r3, r4, r5, r6, r7, r8⟩ := hr
  obtain ⟨m1, m2, m3, m4⟩ := hm
  refine ⟨r1, by simp [commonOfRequest], r2, r3, r4, ?_, r6, ?_⟩
  · simp only [commonOfRequest, mobile_shift _ m2]; omega
  · simp only [commonOfRequest]; split <;> omega

theorem commonOfRequest_flags (r : Request) (mib : Mib) (hm : mib.WF) : (commonOfRequest r mib).FlagsConformant := by
  simp only [CommonHeader.FlagsConformant, commonOfRequest, mobile_shift _ hm.2.1]; omega

theorem commonOfRequest_fields (r : Request) (mib : Mib) (hm : mib.WF) :
    (commonOfRequest r mib).fields =
      Spec.commonValues r.nh r.ht r.hst r.tc mib.mobile r.length
        (if r.ht = HeaderType_TSB ∧ r.hst = TopoBroadcastHST_SINGLE_HOP then 1 else r.maxHopLimit) := by
  have h1 : mib.mobile * 128 / 128 = mib.mobile := by omega
  have h2 : mib.mobile * 128 % 128 = 0 := by omega
  simp only [commonOfRequest, CommonHeader.fields, TrafficClass.fields, Spec.commonValues, mobile_shift _ hm.2.1, h1, h2]
  simp

theorem TrafficClass.decodeInt_wf (x : Nat) : (TrafficClass.decodeInt x).WF := by
  simp only [TrafficClass.WF, TrafficClass.decodeInt, and_63]; omega

/-- the implementation's decoder of the traffic class octet reads it the standard's way, for all 256 octets -/
theorem tcDecode_eq_spec (o : Nat) (h : o < 256) : TrafficClass.decodeInt o = Spec.tcOfOctet o := by
  have : ∀ o : Fin 256, TrafficClass.decodeInt o.1 = Spec.tcOfOctet o.1 := by decide +kernel
  exact this ⟨o, h⟩

theorem commonLS_wf (mib : Mib) (hm : mib.WF) (hst : Nat) (hh : hst < 2) : (commonLS mib hst).WF := by
  obtain ⟨m1, m2, m3, m4⟩ := hm
  refine ⟨by simp [commonLS, Spec.commonNH, CommonNH_ANY], by simp [commonLS], by simp [commonLS, Spec.headerTypes, HeaderType_LS],
    ?_, TrafficClass.decodeInt_wf _, ?_, by simp [commonLS], m3⟩
  · have : hst = 0 ∨ hst = 1 := by omega
    rcases this with h | h <;> simp [commonLS, HeaderType_LS, Spec.subTypes, h]
  · simp only [commonLS, mobile_shift _ m2]; omega

theorem commonLS_fields (mib : Mib) (hm : mib.WF) (hst : Nat) :
    (commonLS mib hst).fields = Spec.commonValues 0 6 hst (TrafficClass.decodeInt mib.defaultTc) mib.mobile 0 mib.defaultHopLimit := by
  have h1 : mib.mobile * 128 / 128 = mib.mobile := by omega
  have h2 : mib.mobile * 128 % 128 = 0 := by omega
  simp only [commonLS, CommonHeader.fields, TrafficClass.fields, Spec.commonValues, mobile_shift _ hm.2.1, h1, h2,
    CommonNH_ANY, HeaderType_LS]
  simp

theorem commonBeacon_wf (v : Variant) (mib : Mib) (hm : mib.WF) : (commonBeacon v mib).WF := by
  obtain ⟨m1, m2, m3, m4⟩ := hm
  refine ⟨by simp [commonBeacon, Spec.commonNH, CommonNH_ANY], by simp [commonBeacon],
    by simp [commonBeacon, Spec.headerTypes, HeaderType_BEACON],
    by simp [commonBeacon, HeaderType_BEACON, HeaderSubType_UNSPECIFIED, Spec.subTypes], TrafficClass.decodeInt_wf _,
    ?_, by simp [commonBeacon], by simp [commonBeacon]⟩
  simp only [commonBeacon, mobile_shift _ m2]; split <;> omega

theorem commonBeacon_fields (v : Variant) (hv : v.beaconFlagFixed = true) (mib : Mib) (hm : mib.WF) :
    (commonBeacon v mib).fields = Spec.commonValues 0 1 0 (TrafficClass.decodeInt mib.defaultTc) mib.mobile 0 1 := by
  have h1 : mib.mobile * 128 / 128 = mib.mobile := by omega
  have h2 : mib.mobile * 128 % 128 = 0 := by omega
  simp only [commonBeacon, hv, if_true, CommonHeader.fields, TrafficClass.fields, Spec.commonValues, mobile_shift _ hm.2.1, h1, h2,
    CommonNH_ANY, HeaderType_BEACON, HeaderSubType_UNSPECIFIED]
  simp

theorem cat3_ok {a b c : Except Err Bytes} {x y z : Bytes} (ha : a = .ok x) (hb : b = .ok y) (hc : c = .ok z) (t : Bytes) :
    cat3 a b c t = .ok (x ++ y ++ z ++ t) := by
  subst ha hb hc; rfl

theorem octets_shb (ego : LongPV) (he : ego.WF) :
    Spec.octets Spec.shb (ego.fields ++ [0]) = toBytesBE 24 ego.encodeInt ++ [0, 0, 0, 0] := by
  have bl : Layout.bits Spec.longPV = 8 * 24 := by decide
  have bm : Layout.bits [(⟨"mediaDependent", 32, false⟩ : Spec.Field)] = 8 * 4 := by decide
  unfold Spec.shb
  rw [octets_append _ _ _ _ 24 4 (by simp [LongPV.fields_length, Spec.longPV, Spec.gnAddr]) bl bm, octets_longPV _ he]
  congr 1

/-! ### forwarding -/
theorem decRhl_wf (h : BasicHeader) (wf : h.WF) : (decRhl h).WF := by
  obtain ⟨h1, h2, h3, h4, h5, h6⟩ := wf
  exact ⟨h1, h2, h3, h4, h5, by simp only [decRhl]; omega⟩

/-- behind the forwarders' guard (received RHL ≥ 2) `set_rhl(rhl - 1)` is a true decrement: no wrap, result ≥ 1 -/
theorem decRhl_rhl (h : BasicHeader) (wf : h.WF) (h2 : 2 ≤ h.rhl) : (decRhl h).rhl + 1 = h.rhl ∧ 1 ≤ (decRhl h).rhl := by
  have := wf.2.2.2.2.2
  simp only [decRhl]; omega

private theorem fwd_prefix (bh : BasicHeader) (wb : bh.WF) (ch : CommonHeader) (wc : ch.WF) (fc : ch.FlagsConformant)
    (extb payload : Bytes) :
    BasicHeader.decode (slice (toBytesBE 4 bh.encodeInt ++ (toBytesBE 8 ch.encodeInt ++ (extb ++ payload))) 0 4) = .ok bh ∧
    (toBytesBE 4 bh.encodeInt ++ (toBytesBE 8 ch.encodeInt ++ (extb ++ payload))).drop 4 =
      toBytesBE 8 ch.encodeInt ++ (extb ++ payload) ∧
    CommonHeader.decode (slice (toBytesBE 8 ch.encodeInt ++ (extb ++ payload)) 0 8) = .ok ch ∧
    (toBytesBE 8 ch.encodeInt ++ (extb ++ payload)).drop 8 = extb ++ payload := by
  refine ⟨BasicHeader.decode_octets bh wb _, ?_, CommonHeader.decode_octets ch wc fc _, ?_⟩
  · rw [List.drop_append_of_le_length (by simp [toBytesBE_length])]
    simp [List.drop_eq_nil_of_le, toBytesBE_length]
  · rw [List.drop_append_of_le_length (by simp [toBytesBE_length])]
    simp [List.drop_eq_nil_of_le, toBytesBE_length]

/-- generic forwarding lemma: a conformant packet with RHL ≥ 2 whose extended header `extb` is re-encoded to `extb'`
(`= extb` unless the DE PV is refreshed) goes out with RHL − 1 and is otherwise octet-identical -/
theorem forward_gen (refresh : Option ShortPV) (bh : BasicHeader) (wb : bh.WF) (h2 : 2 ≤ bh.rhl) (ch : CommonHeader)
    (wc : ch.WF) (fc : ch.FlagsConformant) (n : Nat) (hext : extLen ch.ht ch.hst = some n) (extb extb' payload : Bytes)
    (hlen : extb.length = n) (hre : reencodeExt ch.ht refresh extb = .ok extb') :
    forwardPacket refresh (toBytesBE 4 bh.encodeInt ++ (toBytesBE 8 ch.encodeInt ++ (extb ++ payload))) =
      .ok (some (toBytesBE 4 (decRhl bh).encodeInt ++ (toBytesBE 8 ch.encodeInt ++ (extb' ++ payload)))) := by
  obtain ⟨d1, dr1, d2, dr2⟩ := fwd_prefix bh wb ch wc fc extb payload
  have e1 : (decRhl bh).encode = .ok (toBytesBE 4 (decRhl bh).encodeInt) := toBytes?_ok (BasicHeader.encodeInt_lt _ (decRhl_wf bh wb))
  have e2 : ch.encode = .ok (toBytesBE 8 ch.encodeInt) := toBytes?_ok (CommonHeader.encodeInt_lt _ wc)
  have dr3 : (extb ++ payload).drop n = payload := by
    rw [← hlen]; simp
  have sl : slice (extb ++ payload) 0 n = extb := slice_prefix _ _ _ hlen.symm
  have g : ¬ bh.rhl ≤ 1 := by omega
  simp only [forwardPacket, d1, dr1, d2, dr2, hext, e1, e2, sl, hre, dr3, g, if_false, bind, Except.bind, pure, Except.pure,
    List.append_assoc]

/-- hop limit exhausted (received RHL 0 or 1): nothing is put on the wire -/
theorem forward_gen_exhausted (refresh : Option ShortPV) (bh : BasicHeader) (wb : bh.WF) (h1 : bh.rhl ≤ 1) (ch : CommonHeader)
    (wc : ch.WF) (fc : ch.FlagsConformant) (n : Nat) (hext : extLen ch.ht ch.hst = some n) (extb extb' payload : Bytes)
    (hlen : extb.length = n) (hre : reencodeExt ch.ht refresh extb = .ok extb') :
    forwardPacket refresh (toBytesBE 4 bh.encodeInt ++ (toBytesBE 8 ch.encodeInt ++ (extb ++ payload))) = .ok none := by
  obtain ⟨d1, dr1, d2, dr2⟩ := fwd_prefix bh wb ch wc fc extb payload
  have sl : slice (extb ++ payload) 0 n = extb := slice_prefix _ _ _ hlen.symm
  simp only [forwardPacket, d1, dr1, d2, dr2, hext, sl, hre, h1, if_true, bind, Except.bind, pure, Except.pure]

/-- secured forwarding, both variants, for any plain message the ordinary forwarder forwards (`hin`): the repaired variant
emits the received octets with RHL − 1 and NOTHING else changed (envelope `env` untouched); the code as it is emits the
unsecured re-assembly `out` -/
theorem forwardSecured_eq (refresh : Option ShortPV) (bh : BasicHeader) (wb : bh.WF) (env plain out : Bytes)
    (hin : forwardPacket refresh (toBytesBE 4 ({ bh with nh := BasicNH_COMMON_HEADER } : BasicHeader).encodeInt ++ plain) = .ok (some out)) :
    forwardSecured true refresh (toBytesBE 4 bh.encodeInt ++ env) plain = .ok (some (toBytesBE 4 (decRhl bh).encodeInt ++ env)) ∧
    forwardSecured false refresh (toBytesBE 4 bh.encodeInt ++ env) plain = .ok (some out) := by
  have d1 := BasicHeader.decode_octets bh wb env
  have e1 : (decRhl bh).encode = .ok (toBytesBE 4 (decRhl bh).encodeInt) := toBytes?_ok (BasicHeader.encodeInt_lt _ (decRhl_wf bh wb))
  have dr : (toBytesBE 4 bh.encodeInt ++ env).drop 4 = env := by
    rw [List.drop_append_of_le_length (by simp [toBytesBE_length])]
    simp [List.drop_eq_nil_of_le, toBytesBE_length]
  constructor
  · simp only [forwardSecured, d1, hin, e1, dr, if_true, bind, Except.bind, pure, Except.pure]
  · simp [forwardSecured, d1, hin, bind, Except.bind, pure, Except.pure]

/-! ### octet positions inside encoded headers -/
theorem field_at' (x hi lo d m f : Nat) (hx : x = hi * d + lo) (hlo : lo < d) (hf : hi % m = f) : x / d % m = f := by
  have hd : 0 < d := by omega
  have : x / d = hi := by
    rw [hx, Nat.mul_comm, Nat.mul_add_div hd, Nat.div_eq_of_lt hlo]; simp
  rw [this, hf]

/-- octets of an encoded common header: 0 = NH|reserved, 3 = flags, 4..5 = PL, 6 = MHL, 7 = reserved -/
theorem CommonHeader.octets_at (h : CommonHeader) (wf : h.WF) :
    (toBytesBE 8 h.encodeInt).getD 0 0 = h.nh * 16 + h.reserved ∧
    (toBytesBE 8 h.encodeInt).getD 3 0 = h.flags ∧
    (toBytesBE 8 h.encodeInt).getD 4 0 * 256 + (toBytesBE 8 h.encodeInt).getD 5 0 = h.pl ∧
    (toBytesBE 8 h.encodeInt).getD 6 0 = h.mhl ∧
    (toBytesBE 8 h.encodeInt).getD 7 0 = h.reserved := by
  have e := CommonHeader.encodeInt_arith h wf
  obtain ⟨h1, h2, h3, h4, h5, h6, h7, h8⟩ := wf
  have h1' : h.nh < 4 := by simp only [Spec.commonNH, List.mem_cons, List.mem_nil_iff, or_false] at h1; omega
  have h3' : h.ht < 7 := by simp only [Spec.headerTypes, List.mem_cons, List.mem_nil_iff, or_false] at h3; omega
  have h4' := hst_lt h4
  have hs := b2n_lt h.tc.scf
  have hc := b2n_lt h.tc.channelOffload
  have h5' : h.tc.tcId < 64 := h5
  generalize htc : b2n h.tc.scf * 128 + b2n h.tc.channelOffload * 64 + h.tc.tcId = tc at e
  have htc' : tc < 256 := by omega
  simp only [Nat.reducePow] at e
  rw [getD_toBytesBE _ _ _ (by omega), getD_toBytesBE _ _ _ (by omega), getD_toBytesBE _ _ _ (by omega),
    getD_toBytesBE _ _ _ (by omega), getD_toBytesBE _ _ _ (by omega), getD_toBytesBE _ _ _ (by omega)]
  simp only [Nat.reduceSub, Nat.reducePow, Nat.div_one]
  generalize h.encodeInt = x at e
  refine ⟨?_, ?_, ?_, ?_, ?_⟩
  · exact field_at' x (h.nh * 16 + h.reserved) (h.ht * 4503599627370496 + h.hst * 281474976710656 + tc * 1099511627776 +
      h.flags * 4294967296 + h.pl * 65536 + h.mhl * 256 + h.reserved) _ 256 _ (by rw [e]; omega) (by omega) (by omega)
  · exact field_at' x (h.nh * 268435456 + h.reserved * 16777216 + h.ht * 1048576 + h.hst * 65536 + tc * 256 + h.flags)
      (h.pl * 65536 + h.mhl * 256 + h.reserved) _ 256 _ (by rw [e]; omega) (by omega) (by omega)
  · have p1 := field_at' x (h.nh * 68719476736 + h.reserved * 4294967296 + h.ht * 268435456 + h.hst * 16777216 + tc * 65536 +
      h.flags * 256 + h.pl / 256) (h.pl % 256 * 65536 + h.mhl * 256 + h.reserved) 16777216 256 (h.pl / 256) (by rw [e]; omega) (by omega) (by omega)
    have p2 := field_at' x (h.nh * 17592186044416 + h.reserved * 1099511627776 + h.ht * 68719476736 + h.hst * 4294967296 +
      tc * 16777216 + h.flags * 65536 + h.pl) (h.mhl * 256 + h.reserved) 65536 256 (h.pl % 256) (by rw [e]; omega) (by omega) (by omega)
    rw [p1, p2]; omega
  · exact field_at' x (h.nh * 4503599627370496 + h.reserved * 281474976710656 + h.ht * 17592186044416 + h.hst * 1099511627776 +
      tc * 4294967296 + h.flags * 16777216 + h.pl * 256 + h.mhl) h.reserved 256 256 _ (by rw [e]; omega) (by omega) (by omega)
  · omega

theorem BasicHeader.octets_at (h : BasicHeader) (wf : h.WF) :
    (toBytesBE 4 h.encodeInt).getD 0 0 = h.version * 16 + h.nh ∧ (toBytesBE 4 h.encodeInt).getD 1 0 = h.reserved ∧
    (toBytesBE 4 h.encodeInt).getD 3 0 = h.rhl := by
  have e := BasicHeader.encodeInt_arith h wf
  obtain ⟨h1, h2, h3, h4, h5, h6⟩ := wf
  have h2' : h.nh < 3 := by
    simp only [Spec.basicNH, List.mem_cons, List.mem_nil_iff, or_false] at h2; omega
  rw [getD_toBytesBE _ _ _ (by omega), getD_toBytesBE _ _ _ (by omega), getD_toBytesBE _ _ _ (by omega)]
  simp only [Nat.reduceSub, Nat.reducePow, Nat.div_one] at *
  omega

end FlexModel.Wire

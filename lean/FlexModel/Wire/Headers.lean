/-
Executable model of the header codecs of flexstack (as they are AFTER the C02 `fix:` diffs):
  geonet/basic_header.py, common_header.py, service_access_point.py (TrafficClass), gn_address.py,
  position_vector.py, gbc/tsb/guc/ls_extended_header.py, btp/btp_header.py.
Mirrors the shift/mask code including what happens for out-of-width values (spill into the
neighbouring field, `OverflowError` of `int.to_bytes`), enum construction errors (`ValueError`) and
`DecodeError` on short input.  Enum code tables come from `Generated/WireEnums.lean` (re-read from the
source on every run).
-/
import FlexModel.Wire.Bits
import FlexModel.Geo.LT
import Generated.WireEnums

namespace FlexModel.Wire
open Generated.WireEnums
open FlexModel.Geo (LT)

/-- `Enum(value)`: `ValueError` unless `value` is one of the enum's codes -/
def enum? (codes : List Nat) (v : Nat) : Except Err Nat :=
  if codes.contains v then .ok v else .error .value

/-! ### Basic header (basic_header.py) -/

structure BasicHeader where
  version : Nat
  nh : Nat            -- BasicNH value
  reserved : Nat
  lt : LT             -- multiplier, LTbase value
  rhl : Nat
deriving DecidableEq, Repr

/-- `BasicHeader.encode_to_int` -/
def BasicHeader.encodeInt (h : BasicHeader) : Nat :=
  h.version <<< 28 ||| h.nh <<< 24 ||| h.reserved <<< 16 ||| (h.lt.mult <<< 2 ||| h.lt.base) <<< 8 ||| h.rhl

/-- `BasicHeader.encode_to_bytes` (`to_bytes(4, "big")`) -/
def BasicHeader.encode (h : BasicHeader) : Except Err Bytes := toBytes? 4 h.encodeInt

/-- `BasicHeader.decode_from_int` -/
def BasicHeader.decodeInt (v : Nat) : Except Err BasicHeader := do
  let version := v >>> 28 &&& 15
  let nh ← enum? BasicNH_values (v >>> 24 &&& 15)
  let reserved := v >>> 16 &&& 255
  let mult := v >>> 10 &&& 63
  let base ← enum? LTbase_values (v >>> 8 &&& 3)
  let rhl := v &&& 255
  return { version, nh, reserved, lt := ⟨mult, base⟩, rhl }

/-- `BasicHeader.decode_from_bytes` -/
def BasicHeader.decode (bs : Bytes) : Except Err BasicHeader :=
  if bs.length < 4 then .error .decode else BasicHeader.decodeInt (fromBytesBE (slice bs 0 4))

/-! ### Traffic class (service_access_point.py) -/

structure TrafficClass where
  scf : Bool
  channelOffload : Bool
  tcId : Nat
deriving DecidableEq, Repr

/-- `TrafficClass.encode_to_int` -/
def TrafficClass.encodeInt (t : TrafficClass) : Nat := b2n t.scf <<< 7 ||| b2n t.channelOffload <<< 6 ||| t.tcId

/-- `TrafficClass.decode_from_int` -/
def TrafficClass.decodeInt (tc : Nat) : TrafficClass :=
  { scf := (tc >>> 7 &&& 1) != 0, channelOffload := (tc >>> 6 &&& 1) != 0, tcId := tc &&& 63 }

/-! ### Common header (common_header.py) -/

structure CommonHeader where
  nh : Nat            -- CommonNH value
  reserved : Nat
  ht : Nat            -- HeaderType value
  hst : Nat           -- sub-type value
  tc : TrafficClass
  flags : Nat
  pl : Nat
  mhl : Nat
deriving DecidableEq, Repr

/-- `CommonHeader.encode_to_int` (note: `reserved` is written twice: bits 56.. and the last octet) -/
def CommonHeader.encodeInt (h : CommonHeader) : Nat :=
  h.nh <<< 60 ||| h.reserved <<< 56 ||| h.ht <<< 52 ||| h.hst <<< 48 ||| h.tc.encodeInt <<< 40 |||
  h.flags <<< 32 ||| h.pl <<< 16 ||| h.mhl <<< 8 ||| h.reserved

def CommonHeader.encode (h : CommonHeader) : Except Err Bytes := toBytes? 8 h.encodeInt

/-- the sub-type enum chosen by `decode_from_int` for a header type -/
def hstCodes (ht : Nat) : List Nat :=
  if ht = HeaderType_GEOBROADCAST then GeoBroadcastHST_values
  else if ht = HeaderType_TSB then TopoBroadcastHST_values
  else if ht = HeaderType_GEOANYCAST then GeoAnycastHST_values
  else if ht = HeaderType_LS then LocationServiceHST_values
  else HeaderSubType_values

/-- `CommonHeader.decode_from_int` -/
def CommonHeader.decodeInt (v : Nat) : Except Err CommonHeader := do
  let nh ← enum? CommonNH_values (v >>> 60 &&& 15)
  let ht ← enum? HeaderType_values (v >>> 52 &&& 15)
  let hst ← enum? (hstCodes ht) (v >>> 48 &&& 15)
  let tc := TrafficClass.decodeInt (v >>> 40 &&& 255)
  let flags := v >>> 32 &&& 128
  let pl := v >>> 16 &&& 65535
  let mhl := v >>> 8 &&& 255
  let reserved := v &&& 255
  return { nh, reserved, ht, hst, tc, flags, pl, mhl }

def CommonHeader.decode (bs : Bytes) : Except Err CommonHeader :=
  if bs.length < 8 then .error .decode else CommonHeader.decodeInt (fromBytesBE (slice bs 0 8))

/-! ### GN address (gn_address.py) -/

structure GNAddr where
  m : Nat      -- M value (0 unicast, 1 multicast)
  st : Nat     -- ST value
  mid : Nat    -- 48-bit MID (Python: exactly 6 octets)
deriving DecidableEq, Repr

/-- `GNAddress.encode_to_int` : `m << 7 << 56 | st << 2 << 56 | mid` -/
def GNAddr.encodeInt (a : GNAddr) : Nat := (a.m <<< 7) <<< 56 ||| (a.st <<< 2) <<< 56 ||| a.mid

/-- `GNAddress.decode(data)` -/
def GNAddr.decode (bs : Bytes) : Except Err GNAddr :=
  if bs.length < 8 then .error .decode else do
    let b0 := bs.getD 0 0
    let m ← enum? M_values ((b0 &&& 128) >>> 7)
    let st ← enum? ST_values ((b0 &&& 124) >>> 2)
    return { m, st, mid := fromBytesBE (slice bs 2 8) }

/-! ### Position vectors (position_vector.py) -/

structure LongPV where
  addr : GNAddr
  tst : Nat     -- TST.msec
  lat : Int
  lon : Int
  pai : Bool
  s : Int
  h : Nat
deriving DecidableEq, Repr

/-- `LongPositionVector.encode_to_int` (after the fix: lat/lon masked to 32 bits, speed to 15 bits) -/
def LongPV.encodeInt (p : LongPV) : Nat :=
  p.addr.encodeInt <<< 128 ||| (p.tst % 2 ^ 32) <<< 96 ||| toTwos 32 p.lat <<< 64 ||| toTwos 32 p.lon <<< 32 |||
  b2n p.pai <<< 31 ||| toTwos 15 p.s <<< 16 ||| p.h

/-- `LongPositionVector.encode` (`to_bytes(24, "big")`) -/
def LongPV.encode (p : LongPV) : Except Err Bytes := toBytes? 24 p.encodeInt

/-- `LongPositionVector.decode` -/
def LongPV.decode (bs : Bytes) : Except Err LongPV :=
  if bs.length < 24 then .error .decode else do
    let n := fromBytesBE (slice bs 0 24)
    let addr ← GNAddr.decode (toBytesBE 8 (n >>> 128))
    return { addr, tst := (n >>> 96) % 2 ^ 32, lat := fromTwos 32 (n >>> 64), lon := fromTwos 32 (n >>> 32),
             pai := (n >>> 31 &&& 1) != 0, s := fromTwos 15 (n >>> 16), h := n &&& 65535 }

/-- the pinned code before the fix (kept as the recorded witness of defects C02-F1/F2): no masking, so
negative values make the whole integer negative (`OverflowError` in `to_bytes`) and `s ≥ 2^15` spills into PAI -/
def LongPV.encodeOld (p : LongPV) : Except Err Bytes :=
  if p.lat < 0 ∨ p.lon < 0 ∨ p.s < 0 then .error .overflow
  else toBytes? 24 (p.addr.encodeInt <<< 128 ||| (p.tst % 2 ^ 32) <<< 96 ||| p.lat.toNat <<< 64 ||| p.lon.toNat <<< 32 |||
                    b2n p.pai <<< 31 ||| p.s.toNat <<< 16 ||| p.h)

structure ShortPV where
  addr : GNAddr
  tst : Nat
  lat : Int
  lon : Int
deriving DecidableEq, Repr

def ShortPV.encodeInt (p : ShortPV) : Nat :=
  p.addr.encodeInt <<< 96 ||| (p.tst % 2 ^ 32) <<< 64 ||| toTwos 32 p.lat <<< 32 ||| toTwos 32 p.lon

def ShortPV.encode (p : ShortPV) : Except Err Bytes := toBytes? 20 p.encodeInt

/-- `ShortPositionVector.decode` (no length check in the code: the whole input is read as one integer and
`(n >> 96).to_bytes(8)` overflows when more than 20 significant octets are given) -/
def ShortPV.decode (bs : Bytes) : Except Err ShortPV := do
  let n := fromBytesBE bs
  let ab ← toBytes? 8 (n >>> 96)
  let addr ← GNAddr.decode ab
  return { addr, tst := (n >>> 64) % 2 ^ 32, lat := fromTwos 32 (n >>> 32), lon := fromTwos 32 n }

/-! ### Extended headers -/

structure GBCExt where
  sn : Nat
  reserved : Nat
  soPv : LongPV
  lat : Int
  lon : Int
  a : Nat
  b : Nat
  angle : Nat
  reserved2 : Nat
deriving DecidableEq, Repr

/-- `GBCExtendedHeader.encode` (lat/lon `to_bytes(4, "big", signed=True)` after the fix) -/
def GBCExt.encode (h : GBCExt) : Except Err Bytes := do
  let b1 ← toBytes? 2 h.sn
  let b2 ← toBytes? 2 h.reserved
  let b3 ← h.soPv.encode
  let b4 ← intToBytesSigned? 4 h.lat
  let b5 ← intToBytesSigned? 4 h.lon
  let b6 ← toBytes? 2 h.a
  let b7 ← toBytes? 2 h.b
  let b8 ← toBytes? 2 h.angle
  let b9 ← toBytes? 2 h.reserved2
  return b1 ++ b2 ++ b3 ++ b4 ++ b5 ++ b6 ++ b7 ++ b8 ++ b9

def GBCExt.decode (bs : Bytes) : Except Err GBCExt :=
  if bs.length < 44 then .error .decode else do
    let soPv ← LongPV.decode (slice bs 4 28)
    return { sn := fromBytesBE (slice bs 0 2), reserved := fromBytesBE (slice bs 2 4), soPv,
             lat := fromBytesSigned (slice bs 28 32), lon := fromBytesSigned (slice bs 32 36),
             a := fromBytesBE (slice bs 36 38), b := fromBytesBE (slice bs 38 40),
             angle := fromBytesBE (slice bs 40 42), reserved2 := fromBytesBE (slice bs 42 44) }

structure TSBExt where
  sn : Nat
  reserved : Nat
  soPv : LongPV
deriving DecidableEq, Repr

def TSBExt.encode (h : TSBExt) : Except Err Bytes := do
  let b1 ← toBytes? 2 h.sn
  let b2 ← toBytes? 2 h.reserved
  let b3 ← h.soPv.encode
  return b1 ++ b2 ++ b3

def TSBExt.decode (bs : Bytes) : Except Err TSBExt :=
  if bs.length < 28 then .error .decode else do
    let soPv ← LongPV.decode (slice bs 4 28)
    return { sn := fromBytesBE (slice bs 0 2), reserved := fromBytesBE (slice bs 2 4), soPv }

/-- GUC extended header; `LSReplyExtendedHeader` has the same fields and code -/
structure GUCExt where
  sn : Nat
  reserved : Nat
  soPv : LongPV
  dePv : ShortPV
deriving DecidableEq, Repr

def GUCExt.encode (h : GUCExt) : Except Err Bytes := do
  let b1 ← toBytes? 2 h.sn
  let b2 ← toBytes? 2 h.reserved
  let b3 ← h.soPv.encode
  let b4 ← h.dePv.encode
  return b1 ++ b2 ++ b3 ++ b4

def GUCExt.decode (bs : Bytes) : Except Err GUCExt :=
  if bs.length < 48 then .error .decode else do
    let soPv ← LongPV.decode (slice bs 4 28)
    let dePv ← ShortPV.decode (slice bs 28 48)
    return { sn := fromBytesBE (slice bs 0 2), reserved := fromBytesBE (slice bs 2 4), soPv, dePv }

structure LSReqExt where
  sn : Nat
  reserved : Nat
  soPv : LongPV
  reqAddr : GNAddr
deriving DecidableEq, Repr

def LSReqExt.encode (h : LSReqExt) : Except Err Bytes := do
  let b1 ← toBytes? 2 h.sn
  let b2 ← toBytes? 2 h.reserved
  let b3 ← h.soPv.encode
  let b4 ← toBytes? 8 h.reqAddr.encodeInt
  return b1 ++ b2 ++ b3 ++ b4

def LSReqExt.decode (bs : Bytes) : Except Err LSReqExt :=
  if bs.length < 36 then .error .decode else do
    let soPv ← LongPV.decode (slice bs 4 28)
    let reqAddr ← GNAddr.decode (slice bs 28 36)
    return { sn := fromBytesBE (slice bs 0 2), reserved := fromBytesBE (slice bs 2 4), soPv, reqAddr }

/-! ### BTP headers (btp/btp_header.py) -/

/-- BTP-A: (destination port, source port); BTP-B: (destination port, destination port info) -/
structure BTPHeader where
  dport : Nat
  second : Nat
deriving DecidableEq, Repr

def BTPHeader.encodeInt (h : BTPHeader) : Nat := h.dport <<< 16 ||| h.second
def BTPHeader.encode (h : BTPHeader) : Except Err Bytes := toBytes? 4 h.encodeInt
/-- `BTPAHeader.decode` / `BTPBHeader.decode` (no length check: short input is read as far as it goes) -/
def BTPHeader.decode (bs : Bytes) : BTPHeader :=
  { dport := fromBytesBE (slice bs 0 2), second := fromBytesBE (slice bs 2 4) }

end FlexModel.Wire

import FlexModel.Wire.BitsLemmas
import FlexModel.Wire.Fields
namespace FlexModel.Wire.Spec

theorem foldl_add (xs : List Nat) (a : Nat) : xs.foldl (· + ·) a = a + xs.foldl (· + ·) 0 := by
  induction xs generalizing a with
  | nil => simp
  | cons x xs ih => simp only [List.foldl_cons]; rw [ih (a + x), ih (0 + x)]; omega

@[simp] theorem bits_nil : Layout.bits [] = 0 := rfl
theorem bits_cons (f : Field) (fs : Layout) : Layout.bits (f :: fs) = f.width + Layout.bits fs := by
  simp only [Layout.bits, List.map_cons, List.foldl_cons]; rw [foldl_add]; omega
theorem bits_append (l1 l2 : Layout) : Layout.bits (l1 ++ l2) = Layout.bits l1 + Layout.bits l2 := by
  induction l1 with
  | nil => simp
  | cons f fs ih => simp only [List.cons_append, bits_cons, ih]; omega

theorem encField_lt (f : Field) (v : Int) : encField f v < 2 ^ f.width := by
  unfold encField; split <;> exact Nat.mod_lt _ (Nat.two_pow_pos _)

theorem packAux_acc (l : Layout) (vs : List Int) (acc : Nat) :
    packAux acc l vs = acc * 2 ^ Layout.bits l + packAux 0 l vs := by
  induction l generalizing vs acc with
  | nil => simp [packAux]
  | cons f fs ih =>
    cases vs with
    | nil =>
      simp only [packAux, bits_cons]
      rw [ih [] (acc * 2 ^ f.width), ih [] (0 * 2 ^ f.width), Nat.pow_add]
      simp only [Nat.zero_mul, Nat.mul_assoc]; omega
    | cons v vs =>
      simp only [packAux, bits_cons]
      rw [ih vs (acc * 2 ^ f.width + encField f v), ih vs (0 * 2 ^ f.width + encField f v), Nat.pow_add]
      simp only [Nat.zero_mul, Nat.zero_add, Nat.add_mul, Nat.mul_assoc]; omega

theorem packAux_append (l1 l2 : Layout) (v1 v2 : List Int) (acc : Nat) (h : l1.length = v1.length) :
    packAux acc (l1 ++ l2) (v1 ++ v2) = packAux (packAux acc l1 v1) l2 v2 := by
  induction l1 generalizing v1 acc with
  | nil => cases v1 with
    | nil => simp [packAux]
    | cons _ _ => simp at h
  | cons f fs ih => cases v1 with
    | nil => simp at h
    | cons v vs =>
      simp only [List.cons_append, packAux]
      exact ih vs _ (by simpa using h)

theorem pack_append (l1 l2 : Layout) (v1 v2 : List Int) (h : l1.length = v1.length) :
    pack (l1 ++ l2) (v1 ++ v2) = pack l1 v1 * 2 ^ Layout.bits l2 + pack l2 v2 := by
  unfold pack
  rw [packAux_append _ _ _ _ _ h, packAux_acc]

theorem packAux_lt (l : Layout) (vs : List Int) (acc k : Nat) (h : acc < 2 ^ k) :
    packAux acc l vs < 2 ^ (k + Layout.bits l) := by
  induction l generalizing vs acc k with
  | nil => simpa [packAux] using h
  | cons f fs ih =>
    have step : ∀ e, e < 2 ^ f.width → acc * 2 ^ f.width + e < 2 ^ (k + f.width) := by
      intro e he
      have h1 : (acc + 1) * 2 ^ f.width ≤ 2 ^ k * 2 ^ f.width := Nat.mul_le_mul_right _ h
      rw [← Nat.pow_add, Nat.add_mul] at h1
      omega
    rw [bits_cons, ← Nat.add_assoc]
    cases vs with
    | nil =>
      simp only [packAux]
      exact ih [] _ _ (by simpa using step 0 (Nat.two_pow_pos _))
    | cons v vs =>
      simp only [packAux]
      exact ih vs _ _ (step _ (encField_lt f v))

theorem pack_lt (l : Layout) (vs : List Int) : pack l vs < 2 ^ Layout.bits l := by
  have := packAux_lt l vs 0 0 (by simp)
  simpa [pack] using this

/-- LSB-first packing of reversed layout/value lists (proof device) -/
def packRev : Layout → List Int → Nat
  | f :: fs, v :: vs => packRev fs vs * 2 ^ f.width + encField f v
  | _, _ => 0

theorem pack_reverse (rl : Layout) (rvs : List Int) (h : rl.length = rvs.length) :
    pack rl.reverse rvs.reverse = packRev rl rvs := by
  induction rl generalizing rvs with
  | nil => cases rvs with
    | nil => simp [pack, packAux, packRev]
    | cons _ _ => simp at h
  | cons f fs ih => cases rvs with
    | nil => simp at h
    | cons v vs =>
      have hl : fs.length = vs.length := by simpa using h
      simp only [List.reverse_cons, packRev]
      rw [pack_append _ _ _ _ (by simpa using hl), ih vs hl]
      simp [pack, packAux, Layout.bits]

/-- every value fits its field; signed fields have at least one bit -/
def Fits : Layout → List Int → Prop
  | [], [] => True
  | f :: fs, v :: vs => fitsField f v ∧ (f.signed = true → 1 ≤ f.width) ∧ Fits fs vs
  | _, _ => False

theorem fits_length {l : Layout} {vs : List Int} (h : Fits l vs) : l.length = vs.length := by
  induction l generalizing vs with
  | nil => cases vs <;> simp [Fits] at h ⊢
  | cons f fs ih => cases vs with
    | nil => simp [Fits] at h
    | cons v vs => simp only [Fits] at h; simp [ih h.2.2]

theorem fits_reverse {l : Layout} {vs : List Int} (h : Fits l vs) : Fits l.reverse vs.reverse := by
  suffices H : ∀ (l : Layout) (vs : List Int) (al : Layout) (avs : List Int), Fits l vs → Fits al avs →
      Fits (l.reverseAux al) (vs.reverseAux avs) by
    have := H l vs [] [] h (by simp [Fits])
    exact this
  intro l
  induction l with
  | nil => intro vs al avs h1 h2; cases vs <;> simp [Fits] at h1; simpa [List.reverseAux] using h2
  | cons f fs ih =>
    intro vs al avs h1 h2
    cases vs with
    | nil => simp [Fits] at h1
    | cons v vs =>
      simp only [Fits] at h1
      simp only [List.reverseAux]
      exact ih vs (f :: al) (v :: avs) h1.2.2 ⟨h1.1, h1.2.1, h2⟩

theorem decField_encField (f : Field) (v : Int) (X : Nat) (hv : fitsField f v) (hs : f.signed = true → 1 ≤ f.width) :
    decField f (X * 2 ^ f.width + encField f v) = v := by
  unfold decField encField fitsField at *
  cases hsg : f.signed with
  | false =>
    simp only [hsg, Bool.false_eq_true, if_false, false_and] at hv ⊢
    obtain ⟨h0, h1⟩ := hv
    have e : v.toNat < 2 ^ f.width := by omega
    rw [Nat.mod_eq_of_lt e, Nat.mul_comm, Nat.mul_add_mod, Nat.mod_eq_of_lt e]
    omega
  | true =>
    have hw := hs hsg
    simp only [hsg, if_true, true_and] at hv ⊢
    obtain ⟨h0, h1⟩ := hv
    have hW : 2 ^ f.width = 2 * 2 ^ (f.width - 1) := by
      have : f.width = (f.width - 1) + 1 := by omega
      rw [this, Nat.pow_succ]; simp; omega
    generalize 2 ^ (f.width - 1) = P at *
    generalize 2 ^ f.width = W at *
    subst hW
    by_cases hneg : v < 0
    · simp only [hneg, if_true]
      have e : (v + ((2 * P : Nat) : Int)).toNat < 2 * P := by omega
      rw [Nat.mod_eq_of_lt e, Nat.mul_comm, Nat.mul_add_mod, Nat.mod_eq_of_lt e]
      have : P ≤ (v + ((2 * P : Nat) : Int)).toNat := by omega
      simp only [this, if_true]
      omega
    · simp only [hneg, if_false]
      have e : v.toNat < 2 * P := by omega
      rw [Nat.mod_eq_of_lt e, Nat.mul_comm, Nat.mul_add_mod, Nat.mod_eq_of_lt e]
      have : ¬ (P ≤ v.toNat) := by omega
      simp only [this, if_false]
      omega

theorem unpackRev_packRev (rl : Layout) (rvs : List Int) (h : Fits rl rvs) :
    unpackRev rl (packRev rl rvs) = rvs := by
  induction rl generalizing rvs with
  | nil => cases rvs <;> simp [Fits] at h; simp [unpackRev]
  | cons f fs ih => cases rvs with
    | nil => simp [Fits] at h
    | cons v vs =>
      simp only [Fits] at h
      simp only [packRev, unpackRev]
      rw [decField_encField f v _ h.1 h.2.1]
      have hd : (packRev fs vs * 2 ^ f.width + encField f v) / 2 ^ f.width = packRev fs vs := by
        rw [Nat.mul_comm, Nat.mul_add_div (Nat.two_pow_pos _), Nat.div_eq_of_lt (encField_lt f v)]; simp
      rw [hd, ih vs h.2.2]

/-- the standard's own codec round-trips on every layout: `unpack` reads back what `pack` wrote -/
theorem unpack_pack (l : Layout) (vs : List Int) (h : Fits l vs) : unpack l (pack l vs) = vs := by
  have hr := fits_reverse h
  have hl := fits_length hr
  unfold unpack
  have : pack l vs = packRev l.reverse vs.reverse := by
    have := pack_reverse l.reverse vs.reverse hl
    simpa using this
  rw [this, unpackRev_packRev _ _ hr]
  simp

end FlexModel.Wire.Spec

namespace FlexModel.Wire
open Spec

theorem octets_append (l1 l2 : Layout) (v1 v2 : List Int) (a b : Nat) (h : l1.length = v1.length)
    (ha : Layout.bits l1 = 8 * a) (hb : Layout.bits l2 = 8 * b) :
    Spec.octets (l1 ++ l2) (v1 ++ v2) = Spec.octets l1 v1 ++ Spec.octets l2 v2 := by
  unfold Spec.octets
  have e1 : Layout.bits l1 / 8 = a := by omega
  have e2 : Layout.bits l2 / 8 = b := by omega
  have e3 : Layout.bits (l1 ++ l2) / 8 = a + b := by rw [bits_append]; omega
  have p : (2 : Nat) ^ Layout.bits l2 = 256 ^ b := by
    rw [hb, Nat.pow_mul]
  rw [e1, e2, e3, pack_append _ _ _ _ h, p]
  apply toBytesBE_append
  rw [← p]; exact pack_lt _ _

end FlexModel.Wire

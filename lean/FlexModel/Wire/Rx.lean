/-
Per-reception context of `flexstack.geonet.router.Router` and the PDU a forwarder hands to the link layer, for SEVERAL
receive threads on one router (two link layers / interfaces, or any caller-side concurrency).

  process_security_header:   self._rx_context.secured_message = packet          (`RxEv.enter tid packet`)
                             try:     self.process_common_header(plain, basic_header.set_nh(COMMON_HEADER))
                             finally: self._rx_context.secured_message = None   (`RxEv.leave tid`)
  _forward_pdu (called by every forwarder inside process_common_header):          (`RxEv.forward tid bh tail`)
      secured_message = getattr(self._rx_context, "secured_message", None)
      if secured_message is not None: return basic_header.set_nh(SECURED_PACKET).encode_to_bytes() + secured_message
      return basic_header.encode_to_bytes() + common_header.encode_to_bytes() + extended_header + payload

`self._rx_context = threading.local()`: one slot per thread (`threadLocal = true`; regenerated fact
`Generated.WireFacts.rxContextThreadLocal`).  `threadLocal = false` is a context object shared by all threads (one slot): kept
for the witness theorem only.  A schedule is ANY list of events (any interleaving of the threads' own event sequences).
-/
import FlexModel.Wire.Packet
import Generated.WireFacts

namespace FlexModel.Wire
open Generated.WireEnums

/-- the shared-state relevant steps of a reception, tagged with the thread that executes them -/
inductive RxEv
  | enter (tid : Nat) (securedMessage : Bytes)
  | leave (tid : Nat)
  /-- `_forward_pdu(basic_header, common_header, extended_header, payload)`; `tail` = the octets of
  `common_header.encode_to_bytes() + extended_header + payload` (what `forwardPacket` assembles behind the basic header) -/
  | forward (tid : Nat) (bh : BasicHeader) (tail : Bytes)
deriving Repr

def RxEv.tid : RxEv → Nat
  | .enter t _ => t
  | .leave t => t
  | .forward t _ _ => t

/-- the context store: slot ↦ secured message (`none` = attribute unset or None: `getattr(…, None)`) -/
abbrev RxStore := Nat → Option Bytes

def RxStore.empty : RxStore := fun _ => none
def RxStore.set (c : RxStore) (k : Nat) (v : Option Bytes) : RxStore := fun k' => if k' = k then v else c k'

/-- which slot a thread reads and writes: its own (`threading.local()`), or the one slot of a shared object -/
def rxSlot (threadLocal : Bool) (tid : Nat) : Nat := if threadLocal then tid else 0

/-- `Router._forward_pdu` for the context value the calling thread sees -/
def forwardPdu (ctx : Option Bytes) (bh : BasicHeader) (tail : Bytes) : Except Err Bytes :=
  match ctx with
  | some securedMessage => do
    let b ← ({ bh with nh := BasicNH_SECURED_PACKET } : BasicHeader).encode
    return b ++ securedMessage
  | none => do
    let b ← bh.encode
    return b ++ tail

/-- one event: new store, and for a `forward` event the PDU (tagged with the calling thread) -/
def rxStep (threadLocal : Bool) (c : RxStore) : RxEv → RxStore × Option (Nat × Except Err Bytes)
  | .enter t m => (c.set (rxSlot threadLocal t) (some m), none)
  | .leave t => (c.set (rxSlot threadLocal t) none, none)
  | .forward t bh tail => (c, some (t, forwardPdu (c (rxSlot threadLocal t)) bh tail))

/-- the PDUs handed to the link layer during a schedule, in order, each tagged with its thread -/
def rxRun (threadLocal : Bool) : RxStore → List RxEv → List (Nat × Except Err Bytes)
  | _, [] => []
  | c, e :: es =>
    match rxStep threadLocal c e with
    | (c', some o) => o :: rxRun threadLocal c' es
    | (c', none) => rxRun threadLocal c' es

/-- store after a schedule -/
def rxStore (threadLocal : Bool) : RxStore → List RxEv → RxStore
  | c, [] => c
  | c, e :: es => rxStore threadLocal (rxStep threadLocal c e).1 es

/-- the regenerated structural facts about the context (harness/gen_wire.py, ast pass over geonet/router.py): exactly one
attribute holds the secured message, every binding of it is `threading.local()`, and every store of a secured message into it
is followed by `try: … finally: <store None>` (a reception always ends with `leave`) -/
def codeRxThreadLocal : Bool :=
  decide (Generated.WireFacts.rxContextHolders = 1) && Generated.WireFacts.rxContextThreadLocal &&
    Generated.WireFacts.rxContextResetInFinally

/-! ### lemmas -/

theorem RxStore.set_same (c : RxStore) (k : Nat) (v : Option Bytes) : (c.set k v) k = v := by simp [RxStore.set]
theorem RxStore.set_other (c : RxStore) (k k' : Nat) (v : Option Bytes) (h : k' ≠ k) : (c.set k v) k' = c k' := by
  simp [RxStore.set, h]

/-- thread-local store: an event of another thread does not change what thread `t` sees -/
theorem rxStep_other (c : RxStore) (e : RxEv) (t : Nat) (h : e.tid ≠ t) : (rxStep true c e).1 t = c t := by
  cases e with
  | enter t' m => exact RxStore.set_other _ _ _ _ (by simpa [rxSlot, RxEv.tid] using fun x => h x.symm)
  | leave t' => exact RxStore.set_other _ _ _ _ (by simpa [rxSlot, RxEv.tid] using fun x => h x.symm)
  | forward t' bh tail => rfl

/-- thread-local store: an event of thread `t` acts on `t`'s slot alone: same output and same new slot value from any two
stores that agree on `t` -/
theorem rxStep_own (c c' : RxStore) (e : RxEv) (t : Nat) (h : e.tid = t) (hc : c t = c' t) :
    (rxStep true c e).2 = (rxStep true c' e).2 ∧ (rxStep true c e).1 t = (rxStep true c' e).1 t := by
  cases e with
  | enter t' m => simp only [RxEv.tid] at h; subst h; simp [rxStep, rxSlot, RxStore.set]
  | leave t' => simp only [RxEv.tid] at h; subst h; simp [rxStep, rxSlot, RxStore.set]
  | forward t' bh tail => simp only [RxEv.tid] at h; subst h; simp [rxStep, rxSlot, hc]

/-- an output of `rxStep` carries the thread id of its event -/
theorem rxStep_out_tid (tl : Bool) (c : RxStore) (e : RxEv) (o : Nat × Except Err Bytes) (h : (rxStep tl c e).2 = some o) :
    o.1 = e.tid := by
  cases e with
  | enter t m => simp [rxStep] at h
  | leave t => simp [rxStep] at h
  | forward t bh tail => simp only [rxStep, Option.some.injEq] at h; subst h; rfl

/-- **non-interference** (thread-local context): in ANY schedule the PDUs of thread `t` are those of `t`'s own events run
alone, from any store that agrees with the initial one on `t`'s slot -/
theorem rxRun_isolated (t : Nat) (evs : List RxEv) : ∀ (c c' : RxStore), c t = c' t →
    (rxRun true c evs).filter (fun o => o.1 = t) = rxRun true c' (evs.filter (fun e => e.tid = t)) := by
  induction evs with
  | nil => intro c c' _; rfl
  | cons e es ih =>
    intro c c' hc
    by_cases he : e.tid = t
    · obtain ⟨ho, hs⟩ := rxStep_own c c' e t he hc
      have ih' := ih (rxStep true c e).1 (rxStep true c' e).1 hs
      simp only [List.filter_cons, he, decide_true, if_true]
      rw [rxRun, rxRun]
      cases h1 : rxStep true c e with
      | mk s1 o1 =>
        cases h2 : rxStep true c' e with
        | mk s2 o2 =>
          rw [h1, h2] at ho ih'
          simp only at ho ih'
          subst ho
          cases o1 with
          | none => simpa using ih'
          | some o =>
            have : o.1 = t := by
              have := rxStep_out_tid true c e o (by rw [h1])
              rw [this, he]
            simp only [List.filter_cons, this, decide_true, if_true]
            rw [ih']
    · have hs := rxStep_other c e t he
      have ih' := ih (rxStep true c e).1 c' (by rw [hs, hc])
      simp only [List.filter_cons, he, decide_false, Bool.false_eq_true, if_false]
      rw [rxRun]
      cases h1 : rxStep true c e with
      | mk s1 o1 =>
        rw [h1] at ih'
        simp only at ih'
        cases o1 with
        | none => simpa using ih'
        | some o =>
          have : o.1 ≠ t := by
            have := rxStep_out_tid true c e o (by rw [h1])
            rw [this]; exact he
          simp only [List.filter_cons, this, decide_false, Bool.false_eq_true, if_false]
          exact ih'

end FlexModel.Wire

/-
Packet assembly of `flexstack.geonet.router.Router` (origination of beacon, SHB, GBC/GAC, GUC, LS request,
LS reply; re-encoding by the TSB/GBC/GAC/GUC/LS forwarders) and of `flexstack.btp.router.Router`
(BTP-A / BTP-B header in front of the payload; `btpGnRequest`: the GN-DATA.request built from a BTP-Data.request).  Mirrors the code after the C02 `fix:` diffs; the two
deviations that the repository's own tests pin are carried as Boolean variants (known findings):
  C02-KF1  `CommonHeader.initialize_beacon` writes `itsGnIsMobile.value` (bit 7 = LSB) instead of `<< 7`
  C02-KF2  the source operations write version 1 instead of `itsGnProtocolVersion`
  C02-KF3  a SECURED packet (basic-header NH = 2) is forwarded WITHOUT its security envelope (`forwardSecured`)
-/
import FlexModel.Wire.Headers
import Generated.WireFacts

namespace FlexModel.Wire
open Generated.WireEnums
open FlexModel.Geo (LT srcLifetime)

/-- which variant of the known deviations the code under test exhibits (`true` = repaired) -/
structure Variant where
  capped : Bool            -- C20-KF1: lifetime requests ≥ 1 000 000 ms are written as 0
  beaconFlagFixed : Bool   -- C02-KF1
  versionFromMib : Bool    -- C02-KF2
deriving DecidableEq, Repr

structure Mib where
  version : Nat            -- itsGnProtocolVersion
  mobile : Nat             -- itsGnIsMobile.value
  defaultHopLimit : Nat    -- itsGnDefaultHopLimit
  defaultLifetimeS : Nat   -- itsGnDefaultPacketLifetime
  defaultTc : Nat          -- itsGnDefaultTrafficClass (the TC octet)
deriving DecidableEq, Repr

structure Area where
  lat : Int
  lon : Int
  a : Nat
  b : Nat
  angle : Nat
deriving DecidableEq, Repr

/-- the fields of `GNDataRequest` that reach the wire -/
structure Request where
  nh : Nat                 -- upper_protocol_entity (CommonNH value)
  ht : Nat
  hst : Nat
  tc : TrafficClass
  length : Nat
  data : Bytes
  area : Area
  maxHopLimit : Nat
  lifetimeMs : Option Nat  -- int(max_packet_lifetime * 1000) if given
deriving DecidableEq, Repr

/-- `BasicHeader.initialize_with_mib_request_and_rhl` / `initialize_with_mib_and_rhl` -/
def srcBasic (v : Variant) (mib : Mib) (lifetimeMs : Option Nat) (rhl : Nat) : BasicHeader :=
  { version := if v.versionFromMib then mib.version else 1, nh := BasicNH_COMMON_HEADER, reserved := 0,
    lt := srcLifetime v.capped lifetimeMs mib.defaultLifetimeS, rhl }

/-- `CommonHeader.initialize_with_request` -/
def commonOfRequest (r : Request) (mib : Mib) : CommonHeader :=
  { nh := r.nh, reserved := 0, ht := r.ht, hst := r.hst, tc := r.tc, flags := mib.mobile <<< 7, pl := r.length,
    mhl := if r.ht = HeaderType_TSB ∧ r.hst = TopoBroadcastHST_SINGLE_HOP then 1 else r.maxHopLimit }

/-- `CommonHeader.initialize_beacon` -/
def commonBeacon (v : Variant) (mib : Mib) : CommonHeader :=
  { nh := CommonNH_ANY, reserved := 0, ht := HeaderType_BEACON, hst := HeaderSubType_UNSPECIFIED,
    tc := TrafficClass.decodeInt mib.defaultTc, flags := if v.beaconFlagFixed then mib.mobile <<< 7 else mib.mobile, pl := 0, mhl := 1 }

/-- the common header built in `_send_ls_request_packet` / `gn_data_indicate_ls_request` (reply) -/
def commonLS (mib : Mib) (hst : Nat) : CommonHeader :=
  { nh := CommonNH_ANY, reserved := 0, ht := HeaderType_LS, hst, tc := TrafficClass.decodeInt mib.defaultTc,
    flags := mib.mobile <<< 7, pl := 0, mhl := mib.defaultHopLimit }

def cat3 (a b c : Except Err Bytes) (tail : Bytes) : Except Err Bytes := do
  let x ← a
  let y ← b
  let z ← c
  return x ++ y ++ z ++ tail

/-- `gn_data_request_beacon` -/
def beaconPacket (v : Variant) (mib : Mib) (ego : LongPV) : Except Err Bytes :=
  cat3 (srcBasic v mib none 1).encode (commonBeacon v mib).encode ego.encode []

/-- `gn_data_request_shb` (security disabled) -/
def shbPacket (v : Variant) (mib : Mib) (r : Request) (ego : LongPV) : Except Err Bytes :=
  cat3 (srcBasic v mib r.lifetimeMs 1).encode (commonOfRequest r mib).encode ego.encode ([0, 0, 0, 0] ++ r.data)

/-- hop limit selection of the multi-hop source operations:
`hop_limit = self.mib.itsGnDefaultHopLimit if request.max_hop_limit <= 1 else request.max_hop_limit` (router.py, GBC/GAC and
GUC source operations).  Implementation side only: the Spec side of Props/C02.lean uses `LTSpec.hopLimit`. -/
def srcHopLimit (mib : Mib) (r : Request) : Nat := if r.maxHopLimit ≤ 1 then mib.defaultHopLimit else r.maxHopLimit

/-- `gn_data_request_gbc` / `gn_data_request_gac` (no DENM security profile) -/
def gbcPacket (v : Variant) (mib : Mib) (r : Request) (sn : Nat) (ego : LongPV) : Except Err Bytes :=
  let hop := srcHopLimit mib r
  cat3 (srcBasic v mib r.lifetimeMs hop).encode (commonOfRequest { r with maxHopLimit := hop } mib).encode
    (GBCExt.encode { sn, reserved := 0, soPv := ego, lat := r.area.lat, lon := r.area.lon, a := r.area.a, b := r.area.b,
                     angle := r.area.angle, reserved2 := 0 }) r.data

/-- `gn_data_request_guc` with a location-table entry for the destination -/
def gucPacket (v : Variant) (mib : Mib) (r : Request) (sn : Nat) (ego : LongPV) (de : ShortPV) : Except Err Bytes :=
  let hop := srcHopLimit mib r
  cat3 (srcBasic v mib r.lifetimeMs hop).encode (commonOfRequest { r with maxHopLimit := hop } mib).encode
    (GUCExt.encode { sn, reserved := 0, soPv := ego, dePv := de }) r.data

/-- `_send_ls_request_packet` -/
def lsRequestPacket (v : Variant) (mib : Mib) (sn : Nat) (ego : LongPV) (sought : GNAddr) : Except Err Bytes :=
  cat3 (srcBasic v mib none mib.defaultHopLimit).encode (commonLS mib LocationServiceHST_LS_REQUEST).encode
    (LSReqExt.encode { sn, reserved := 0, soPv := ego, reqAddr := sought }) []

/-- the LS reply built in `gn_data_indicate_ls_request` -/
def lsReplyPacket (v : Variant) (mib : Mib) (sn : Nat) (ego : LongPV) (de : ShortPV) : Except Err Bytes :=
  cat3 (srcBasic v mib none mib.defaultHopLimit).encode (commonLS mib LocationServiceHST_LS_REPLY).encode
    (GUCExt.encode { sn, reserved := 0, soPv := ego, dePv := de }) []

/-- `basic_header.set_rhl(basic_header.rhl - 1)` : Python `(rhl - 1) % 256` (bridged to the extracted `set_rhl` in
Props/C02BridgeBasic.lean).  Every forwarder calls it only behind `new_rhl > 0`, i.e. for RHL ≥ 2 (`forwardPacket`),
where it is `rhl - 1` (`decRhl_rhl`); the wrap 0 ↦ 255 is unreachable since `C06-gac-rhl-zero`. -/
def decRhl (h : BasicHeader) : BasicHeader := { h with rhl := (h.rhl + 255) % 256 }

/-- extended header length for a (decoded) common header; `none` for types the forwarders do not handle -/
def extLen (ht hst : Nat) : Option Nat :=
  if ht = HeaderType_GEOUNICAST then some 48
  else if ht = HeaderType_GEOANYCAST ∨ ht = HeaderType_GEOBROADCAST then some 44
  else if ht = HeaderType_TSB ∧ hst = TopoBroadcastHST_MULTI_HOP then some 28
  else if ht = HeaderType_LS ∧ hst = LocationServiceHST_LS_REQUEST then some 36
  else if ht = HeaderType_LS ∧ hst = LocationServiceHST_LS_REPLY then some 48
  else none

/-- GUC / LS-reply forwarder, step 8 of §10.3.8.3: `with_de_pv(updated_de_pv)` when the location table holds a
strictly newer PV of a NEIGHBOUR destination (`refresh = some pv`; which PV, if any, is the location table's business:
C06 `forward_is_copy`, C08); otherwise the DE PV of the packet is kept -/
def GUCExt.refreshed (h : GUCExt) (refresh : Option ShortPV) : GUCExt := { h with dePv := refresh.getD h.dePv }

/-- re-encoding of the decoded extended header by the forwarders (decode, [refresh DE PV,] then `encode()`) -/
def reencodeExt (ht : Nat) (refresh : Option ShortPV) (ext : Bytes) : Except Err Bytes :=
  if ht = HeaderType_GEOUNICAST then do let h ← GUCExt.decode ext; (h.refreshed refresh).encode
  else if ht = HeaderType_GEOANYCAST ∨ ht = HeaderType_GEOBROADCAST then do let h ← GBCExt.decode ext; h.encode
  else if ht = HeaderType_TSB then do let h ← TSBExt.decode ext; h.encode
  else if ext.length = 36 then do let h ← LSReqExt.decode ext; h.encode
  else do let h ← GUCExt.decode ext; (h.refreshed refresh).encode

/-- what a forwarder puts on the wire for a received packet `pkt` when its forwarding algorithm decides to forward
(`gn_data_indicate_tsb/gbc/gac/guc/ls_request/ls_reply`): headers decoded, [DE PV refreshed,] and — only if the
received RHL is at least 2 (`new_rhl > 0`) — RHL decremented, all headers re-encoded, payload appended; `none` = nothing
is sent (hop limit exhausted).  (Whether the algorithm forwards at all is C06's subject.) -/
def forwardPacket (refresh : Option ShortPV) (pkt : Bytes) : Except Err (Option Bytes) := do
  let bh ← BasicHeader.decode (slice pkt 0 4)
  let rest := pkt.drop 4
  let ch ← CommonHeader.decode (slice rest 0 8)
  let rest := rest.drop 8
  match extLen ch.ht ch.hst with
  | none => .error .value
  | some n =>
    let e ← reencodeExt ch.ht refresh (slice rest 0 n)
    if bh.rhl ≤ 1 then return none
    else
      let b ← (decRhl bh).encode
      let c ← ch.encode
      return some (b ++ c ++ e ++ rest.drop n)

/-- forwarding of a SECURED packet (basic-header NH = 2; `Router.process_security_header`).  `plain` is
`verify_confirm.plain_message` = common header ‖ extended header ‖ payload as released by the verify service (C03); the
code dispatches it to the ordinary handlers with the basic header's NH rewritten to COMMON_HEADER
(`basic_header.set_nh(BasicNH.COMMON_HEADER)`), so whether and what the forwarder sends is `forwardPacket` on that.
`envelopeKept = false` = the code as it is (known finding C02-KF3): what goes on the wire is that unsecured re-assembly —
signature, signer certificate/digest and generation time are stripped and the packet leaves with NH = 1.
`envelopeKept = true` = the repaired behaviour: the secured message behind the basic header is forwarded untouched; the
basic header (which the signature does not cover, precisely so that forwarders can do this) gets RHL − 1. -/
def forwardSecured (envelopeKept : Bool) (refresh : Option ShortPV) (pkt plain : Bytes) : Except Err (Option Bytes) := do
  let bh ← BasicHeader.decode (slice pkt 0 4)
  let inner ← forwardPacket refresh (toBytesBE 4 ({ bh with nh := BasicNH_COMMON_HEADER } : BasicHeader).encodeInt ++ plain)
  match inner with
  | none => return none
  | some out =>
    if envelopeKept then do
      let b ← (decRhl bh).encode
      return some (b ++ pkt.drop 4)
    else return some out

/-- `btp.router.Router.btp_data_request`: BTP header octets in front of the payload;
GN request `length = len(data)` -/
def btpWrap (h : BTPHeader) (payload : Bytes) : Except Err Bytes := do
  let hb ← h.encode
  return hb ++ payload

/-- the fields of `BTPDataRequest` that can reach the wire, plus its `length` attribute (the DECLARED length of the
BTP-Data.request: dataclass default 0, `from_dict` default 0 / whatever the dict carries), which must not -/
structure BtpRequest where
  btpType : Nat               -- btp_type (a CommonNH value): BTP_A = 1, BTP_B = 2
  sourcePort : Nat
  destinationPort : Nat
  destinationPortInfo : Nat
  declaredLength : Nat        -- `length`
  data : Bytes
  ht : Nat                    -- gn_packet_transport_type
  hst : Nat
  tc : TrafficClass
  area : Area                 -- gn_area
  maxHopLimit : Nat           -- gn_max_hop_limit
  lifetimeMs : Option Nat     -- gn_max_packet_lifetime
deriving DecidableEq, Repr

/-- the BTP header `btp_data_request` puts in front: BTP-B (destination port, destination port info), BTP-A (destination
port, source port); any other `btp_type`: `ValueError("Unknown BTP Header Type")` -/
def BtpRequest.header (q : BtpRequest) : Except Err BTPHeader :=
  if q.btpType = CommonNH_BTP_B then .ok ⟨q.destinationPort, q.destinationPortInfo⟩
  else if q.btpType = CommonNH_BTP_A then .ok ⟨q.destinationPort, q.sourcePort⟩
  else .error .value

/-- `btp.router.Router.btp_data_request`: the GN-DATA.request handed to GeoNetworking.
`lengthFromData = true` — the code as it is (generated fact `WireFacts.btpGnLengthFromData = btpGnRequestSites`):
`data = header.encode() + request.data`, `length = len(data)`; the declared length is not read.
`lengthFromData = false` — the variant in which the length is computed from the declaration
(`len(header) + request.length`): kept for the witness `Props.C02.btp_declared_length_witness`. -/
def btpGnRequest (lengthFromData : Bool) (q : BtpRequest) : Except Err Request := do
  let h ← q.header
  let data ← btpWrap h q.data
  return { nh := q.btpType, ht := q.ht, hst := q.hst, tc := q.tc,
           length := if lengthFromData then data.length else 4 + q.declaredLength,
           data, area := q.area, maxHopLimit := q.maxHopLimit, lifetimeMs := q.lifetimeMs }

/-- the regenerated structural fact about `btp_data_request` (harness/gen_wire.py, ast pass over btp/router.py): there is at
least one `GNDataRequest(...)` constructor call and EVERY one passes `length=len(E)` with `E` the expression passed as `data=` -/
def codeBtpLengthFromData : Bool :=
  decide (0 < Generated.WireFacts.btpGnRequestSites ∧ Generated.WireFacts.btpGnLengthFromData = Generated.WireFacts.btpGnRequestSites)

end FlexModel.Wire
